import CifModel.Lemmas.ParserBasic
import CifModel.Lemmas.LexerTotal
/-
  CifModel.Lemmas.ParserFuel — the fuel `2·|input| + 16` that `Model.Parser.parse` passes to the productions is never
  exhausted (group gC, on group gJ's parser model and group gD's lexer model).

  Potential of a parser state: `U s` = units still to be scanned + a weight for the pending token (what it can still push
  back into the input: the text of a VALUE token that parse_table may trim, the colon of a KEY / TKEY).  next_token never
  increases it, consuming a token decreases it, and every production makes at most two nested calls per unit of potential.

  Part 1 (this section): what next_token consumes — a unary relation over the scanner monad `L` that also records that an
  abort value is always an answer of the callback (never the out-of-fuel marker, if the policy never answers it).
-/
set_option linter.unusedSimpArgs false
set_option linter.unusedVariables false

namespace CifModel.Model.Lexer
open CifModel.Model.Chars

/-- the out-of-fuel marker of Model/Parser.lean -/
def NF : Int := 1001

def LOk {α : Type} (post : α → Prop) (m : L α) : Prop :=
  ∀ pol log, (∀ i r, pol i r ≠ NF) →
    match m pol log with
    | .ok a _ => post a
    | .abort rv _ => rv ≠ NF

theorem lok_pure {α : Type} (post : α → Prop) (a : α) (h : post a) : LOk post (pure a : L α) := by
  intro pol log hp; exact h

theorem lok_bind {α β : Type} (p1 : α → Prop) (p2 : β → Prop) (m : L α) (k : α → L β)
    (hm : LOk p1 m) (hk : ∀ a, p1 a → LOk p2 (k a)) : LOk p2 (m >>= k) := by
  intro pol log hp
  have h := hm pol log hp
  show match L.bind m k pol log with | .ok a _ => p2 a | .abort rv _ => rv ≠ NF
  unfold L.bind
  cases h1 : m pol log with
  | ok a la => rw [h1] at h; exact hk a h pol la hp
  | abort rv la => rw [h1] at h; exact h

theorem lok_report (code : Code) (line col : Nat) : LOk (fun _ => True) (report code line col) := by
  intro pol log hp
  unfold report
  by_cases h0 : pol log.length ⟨code, line, col⟩ = 0
  · simp only [h0, if_true]
  · simp only [h0, if_false]; exact hp _ _

theorem lok_reportIf (c : Bool) (code : Code) (line col : Nat) : LOk (fun _ => True) (reportIf c code line col) := by
  unfold reportIf
  cases c
  · exact lok_pure _ () trivial
  · exact lok_report code line col

theorem lok_seq {β : Type} (p2 : β → Prop) (m : L Unit) (k : L β) (hm : LOk (fun _ => True) m) (hk : LOk p2 k) :
    LOk p2 (m >>= fun _ => k) :=
  lok_bind _ p2 m _ hm (fun _ _ => hk)

theorem lok_ite {α : Type} (post : α → Prop) (c : Prop) [Decidable c] (a b : L α) (ha : LOk post a) (hb : LOk post b) :
    LOk post (if c then a else b) := by
  by_cases h : c
  · rw [if_pos h]; exact ha
  · rw [if_neg h]; exact hb

theorem lok_scanUChar (dia : Dialect) (line col prev c : Nat) (lead : Bool) :
    LOk (fun _ => True) (scanUChar dia line col prev c lead) := by
  unfold scanUChar
  simp only
  split
  · split
    · exact lok_seq _ _ _ (lok_reportIf _ _ _ _) (lok_pure _ _ trivial)
    · exact lok_seq _ _ _ (lok_report _ _ _) (lok_pure _ _ trivial)
  · refine lok_seq _ _ _ (lok_reportIf _ _ _ _) ?_
    refine lok_seq _ _ _ (lok_reportIf _ _ _ _) ?_
    exact lok_seq _ _ _ (lok_reportIf _ _ _ _) (lok_pure _ _ trivial)

theorem fixAcc_length (dia : Dialect) (fix : Bool) (acc : Str) : (fixAcc dia fix acc).length = acc.length := by
  unfold fixAcc
  cases fix
  · rfl
  · cases acc <;> rfl

theorem lok_leadAtEof (dia : Dialect) (line col : Nat) (lead : Bool) (acc : Str) :
    LOk (fun a => a.length = acc.length) (leadAtEof dia line col lead acc) := by
  unfold leadAtEof
  exact lok_seq _ _ _ (lok_reportIf _ _ _ _) (lok_pure _ _ (fixAcc_length dia lead acc))

theorem lok_handleEol (line col sol c : Nat) : LOk (fun _ => True) (handleEol line col sol c) := by
  unfold handleEol
  exact lok_seq _ _ _ (lok_reportIf _ _ _ _) (lok_pure _ _ trivial)

/-- weakening of the postcondition -/
theorem lok_weaken {α : Type} (p1 p2 : α → Prop) (m : L α) (hm : LOk p1 m) (h : ∀ a, p1 a → p2 a) : LOk p2 m := by
  intro pol log hp
  have := hm pol log hp
  cases h1 : m pol log with
  | ok a l => rw [h1] at this; exact h a this
  | abort rv l => rw [h1] at this; exact this

theorem lok_scanWs (dia : Dialect) : ∀ (inp : Str) (line col sol : Nat),
    LOk (fun p => p.rest.length ≤ inp.length) (scanWs dia inp line col sol) := by
  intro inp
  induction inp with
  | nil => intro line col sol; unfold scanWs; exact lok_pure _ _ (Nat.le_refl _)
  | cons c r ih =>
    intro line col sol
    unfold scanWs
    split
    · exact lok_weaken _ _ _ (ih line (col + 1) 0) (fun p hp => by simp only [List.length_cons]; omega)
    · split
      · refine lok_bind _ _ _ _ (lok_handleEol line col sol c) ?_
        intro a _
        obtain ⟨l, c', s⟩ := a
        exact lok_weaken _ _ _ (ih l c' s) (fun p hp => by simp only [List.length_cons]; omega)
      · exact lok_pure _ _ (Nat.le_refl _)

/-- what a token scan leaves: not more input than it found, and the accumulated text grew by at most what was consumed -/
def scanPost (inp acc : Str) (s : Scanned) : Prop :=
  s.pos.rest.length ≤ inp.length ∧ s.acc.length + s.pos.rest.length ≤ acc.length + inp.length

theorem scanPost_step {c : Nat} {r acc acc' : Str} {s : Scanned} (h : scanPost r acc' s) (ha : acc'.length ≤ acc.length + 1) :
    scanPost (c :: r) acc s := by
  unfold scanPost at *
  simp only [List.length_cons]
  omega

theorem lok_scanToWs (dia : Dialect) : ∀ (inp : Str) (line col : Nat) (lead : Bool) (acc : Str),
    LOk (scanPost inp acc) (scanToWs dia inp line col lead acc) := by
  intro inp
  induction inp with
  | nil =>
    intro line col lead acc; unfold scanToWs
    refine lok_bind _ _ _ _ (lok_leadAtEof dia line col lead acc) ?_
    intro a ha
    exact lok_pure _ _ ⟨Nat.le_refl _, by simp [ha]⟩
  | cons c r ih =>
    intro line col lead acc
    unfold scanToWs
    refine lok_bind _ _ _ _ (lok_scanUChar dia line col _ c lead) ?_
    intro a _
    simp only
    split
    · exact lok_pure _ _ ⟨by simp, by simp [fixAcc_length]⟩
    · exact lok_weaken _ _ _ (ih line a.col a.lead _) (fun s hs => scanPost_step hs (by simp [fixAcc_length]))

theorem lok_scanToEol (dia : Dialect) : ∀ (inp : Str) (line col : Nat) (lead : Bool) (acc : Str),
    LOk (scanPost inp acc) (scanToEol dia inp line col lead acc) := by
  intro inp
  induction inp with
  | nil =>
    intro line col lead acc; unfold scanToEol
    refine lok_bind _ _ _ _ (lok_leadAtEof dia line col lead acc) ?_
    intro a ha
    exact lok_pure _ _ ⟨Nat.le_refl _, by simp [ha]⟩
  | cons c r ih =>
    intro line col lead acc
    unfold scanToEol
    refine lok_bind _ _ _ _ (lok_scanUChar dia line col _ c lead) ?_
    intro a _
    simp only
    split
    · exact lok_pure _ _ ⟨by simp, by simp [fixAcc_length]⟩
    · exact lok_weaken _ _ _ (ih line a.col a.lead _) (fun s hs => scanPost_step hs (by simp [fixAcc_length]))

theorem lok_scanUnquoted (dia : Dialect) :
    ∀ (inp : Str) (line col : Nat) (lead : Bool) (acc : Str) (k : Nat) (kd ks : Bool),
    LOk (scanPost inp acc) (scanUnquoted dia inp line col lead acc k kd ks) := by
  intro inp
  induction inp with
  | nil =>
    intro line col lead acc k kd ks; unfold scanUnquoted
    refine lok_bind _ _ _ _ (lok_leadAtEof dia line col lead acc) ?_
    intro a ha
    exact lok_pure _ _ ⟨Nat.le_refl _, by simp [ha]⟩
  | cons c r ih =>
    intro line col lead acc k kd ks
    unfold scanUnquoted
    refine lok_bind _ _ _ _ (lok_scanUChar dia line col _ c lead) ?_
    intro a _
    simp only
    have hrec : ∀ k' kd' ks', LOk (scanPost (c :: r) acc) (scanUnquoted dia r line a.col a.lead (a.c :: fixAcc dia a.fixPrev acc) k' kd' ks') :=
      fun k' kd' ks' => lok_weaken _ _ _ (ih line a.col a.lead _ k' kd' ks') (fun s hs => scanPost_step hs (by simp [fixAcc_length]))
    have hback : scanPost (c :: r) acc ⟨fixAcc dia a.fixPrev acc, ⟨a.c :: r, line, a.col - 1⟩⟩ := ⟨by simp, by simp [fixAcc_length]⟩
    split
    · exact hrec _ _ _
    · split
      · exact lok_seq _ _ _ (lok_report _ _ _) (lok_pure _ _ hback)
      · exact hrec _ _ _
    · split
      · exact lok_pure _ _ hback
      · exact hrec _ _ _
    · split
      · exact lok_pure _ _ hback
      · exact lok_pure _ _ ⟨by simp, by simp [fixAcc_length]; omega⟩
    · exact hrec _ _ _

theorem lok_scanTriple (dia : Dialect) (delim : Nat) :
    ∀ (inp : Str) (line col : Nat) (lead : Bool) (acc : Str) (dc sol : Nat),
    LOk (fun s => s.pos.rest.length ≤ inp.length) (scanTriple dia delim inp line col lead acc dc sol) := by
  intro inp
  induction inp with
  | nil =>
    intro line col lead acc dc sol; unfold scanTriple
    refine lok_bind _ _ _ _ (lok_leadAtEof dia line col lead acc) ?_
    intro _ _
    exact lok_seq _ _ _ (lok_report _ _ _) (lok_pure _ _ (Nat.le_refl _))
  | cons c r ih =>
    intro line col lead acc dc sol
    unfold scanTriple
    refine lok_bind _ _ _ _ (lok_scanUChar dia line col _ c lead) ?_
    intro a _
    simp only
    have hrec : ∀ l c' ld ac d so, LOk (fun s => s.pos.rest.length ≤ (c :: r).length) (scanTriple dia delim r l c' ld ac d so) :=
      fun l c' ld ac d so => lok_weaken _ _ _ (ih l c' ld ac d so) (fun s hs => by simp only [List.length_cons]; omega)
    split
    · split
      · exact lok_pure _ _ (by simp)
      · exact hrec _ _ _ _ _ _
    · split
      · refine lok_bind _ _ _ _ (lok_handleEol line _ sol a.c) ?_
        intro x _
        obtain ⟨l, c', s⟩ := x
        exact hrec _ _ _ _ _ _
      · exact hrec _ _ _ _ _ _

theorem lok_scanDelim (dia : Dialect) (delim : Nat) :
    ∀ (inp : Str) (line col : Nat) (lead : Bool) (acc : Str) (first : Bool),
    LOk (fun s => s.pos.rest.length ≤ inp.length) (scanDelim dia delim inp line col lead acc first) := by
  intro inp
  induction inp with
  | nil =>
    intro line col lead acc first; unfold scanDelim
    refine lok_bind _ _ _ _ (lok_leadAtEof dia line col lead acc) ?_
    intro _ _
    exact lok_seq _ _ _ (lok_report _ _ _) (lok_pure _ _ (Nat.le_refl _))
  | cons c r ih =>
    intro line col lead acc first
    unfold scanDelim
    refine lok_bind _ _ _ _ (lok_scanUChar dia line col _ c lead) ?_
    intro a _
    simp only
    have hrec : ∀ l c' ld ac f, LOk (fun s => s.pos.rest.length ≤ (c :: r).length) (scanDelim dia delim r l c' ld ac f) :=
      fun l c' ld ac f => lok_weaken _ _ _ (ih l c' ld ac f) (fun s hs => by simp only [List.length_cons]; omega)
    split
    · split
      · exact lok_pure _ _ (by simp)
      · split
        · split
          · exact hrec _ _ _ _ _
          · exact lok_pure _ _ (by simp)
        · split
          · exact lok_weaken _ _ _ (lok_scanTriple dia delim _ _ _ _ _ _ _) (fun s hs => by simp only [List.length_cons] at *; omega)
          · exact lok_pure _ _ (by simp)
    · split
      · exact lok_seq _ _ _ (lok_report _ _ _) (lok_pure _ _ (by simp))
      · exact hrec _ _ _ _ _

theorem lok_scanText (dia : Dialect) :
    ∀ (inp : Str) (line col : Nat) (lead : Bool) (acc : Str) (sol : Nat),
    LOk (fun s => s.pos.rest.length ≤ inp.length) (scanText dia inp line col lead acc sol) := by
  intro inp
  induction inp with
  | nil =>
    intro line col lead acc sol; unfold scanText
    refine lok_bind _ _ _ _ (lok_leadAtEof dia line col lead acc) ?_
    intro _ _
    exact lok_seq _ _ _ (lok_report _ _ _) (lok_pure _ _ (Nat.le_refl _))
  | cons c r ih =>
    intro line col lead acc sol
    unfold scanText
    refine lok_bind _ _ _ _ (lok_scanUChar dia line col _ c lead) ?_
    intro a _
    simp only
    have hrec : ∀ l c' ld ac so, LOk (fun s => s.pos.rest.length ≤ (c :: r).length) (scanText dia r l c' ld ac so) :=
      fun l c' ld ac so => lok_weaken _ _ _ (ih l c' ld ac so) (fun s hs => by simp only [List.length_cons]; omega)
    split
    · split
      · exact lok_pure _ _ (by simp)
      · exact hrec _ _ _ _ _
    · split
      · refine lok_bind _ _ _ _ (lok_handleEol line _ sol a.c) ?_
        intro x _
        obtain ⟨l, c', s⟩ := x
        exact hrec _ _ _ _ _
      · exact hrec _ _ _ _ _

/-- a fact that holds of every completed run may be added to the postcondition -/
theorem lok_and_inv {α : Type} (p q : α → Prop) (m : L α) (hm : LOk p m)
    (hq : ∀ pol log a l, m pol log = .ok a l → q a) : LOk (fun a => p a ∧ q a) m := by
  intro pol log hp
  have := hm pol log hp
  cases h1 : m pol log with
  | ok a l => rw [h1] at this; exact ⟨this, hq pol log a l h1⟩
  | abort rv l => rw [h1] at this; exact this

/-- weight of a pending token: what it may still push back into the input, at least 1 -/
def pwT (t : Tok) : Nat :=
  if t.ty = .key ∨ t.ty = .tkey then 2 else if t.ty = .value then max 1 t.text.length else 1

/-- the two facts about a step that `stepTok_len` does not state: a VALUE token's text is not longer than what was consumed
    for it, and a KEY / TKEY token consumed its colon as well -/
def stepExtra (r : Str) : Step → Prop
  | .tok t p => (t.ty = .value → t.text.length + p.rest.length ≤ r.length + 1) ∧
                ((t.ty = .key ∨ t.ty = .tkey) → p.rest.length + 1 ≤ r.length)
  | .skip _ _ => True

theorem mkTok_extra (r : Str) (ty : TokType) (text : Str) (p : Pos) (h1 : ty ≠ .value) (h2 : ty ≠ .key ∧ ty ≠ .tkey) :
    stepExtra r (mkTok ty text p) := by
  refine ⟨fun h => absurd h h1, fun h => ?_⟩
  rcases h with h | h
  · exact absurd h h2.1
  · exact absurd h h2.2

theorem keyPeek_extra (r : Str) (a b : TokType) (text : Str) (p : Pos) (ha : a = .key ∨ a = .tkey)
    (hb : b ≠ .value ∧ b ≠ .key ∧ b ≠ .tkey) (hp : p.rest.length ≤ r.length) : stepExtra r (keyPeek a b text p) := by
  obtain ⟨rest, line, col⟩ := p
  have ha' : a ≠ .value := by rcases ha with h | h <;> rw [h] <;> decide
  cases rest with
  | nil => exact mkTok_extra r b text _ hb.1 hb.2
  | cons c r' =>
    simp only [keyPeek]
    split
    · refine ⟨fun h => absurd h ha', fun _ => ?_⟩
      simp only [List.length_cons] at hp
      show r'.length + 1 ≤ r.length
      omega
    · exact mkTok_extra r b text _ hb.1 hb.2

theorem lok_finishUnquoted_extra (r : Str) (dia : Dialect) (aw : Bool) (t : Str) (p : Pos)
    (h : t.length + p.rest.length ≤ r.length + 1) : LOk (stepExtra r) (finishUnquoted dia aw t p) := by
  unfold finishUnquoted
  split
  · refine lok_pure _ _ ⟨fun _ => h, fun hk => ?_⟩
    rcases hk with hk | hk <;> cases hk
  · exact lok_pure _ _ (mkTok_extra r _ _ _ (by decide) (by decide))
  · exact lok_pure _ _ (mkTok_extra r _ _ _ (by decide) (by decide))
  · exact lok_pure _ _ (mkTok_extra r _ _ _ (by decide) (by decide))
  · exact lok_pure _ _ (mkTok_extra r _ _ _ (by decide) (by decide))
  · exact lok_seq _ _ _ (lok_report _ _ _) (lok_pure _ _ trivial)

theorem lok_stepTok_extra (dia : Dialect) (aw : Bool) (c : Nat) (r : Str) (line col : Nat) :
    LOk (stepExtra r) (stepTok dia aw c r line col) := by
  unfold stepTok
  refine lok_seq _ _ _ (lok_reportIf _ _ _ _) ?_
  refine lok_ite _ _ _ _ ?_ ?_
  · exact lok_bind _ _ _ _ (lok_scanWs dia _ line _ 0) (fun a _ => lok_pure _ _ trivial)
  refine lok_ite _ _ _ _ ?_ ?_
  · exact lok_bind _ _ _ _ (lok_scanWs dia _ line _ 0) (fun a _ => lok_pure _ _ trivial)
  refine lok_ite _ _ _ _ ?_ ?_
  · exact lok_bind _ _ _ _ (lok_scanToEol dia _ line _ _ _) (fun a _ => lok_pure _ _ trivial)
  refine lok_ite _ _ _ _ ?_ ?_
  · exact lok_bind _ _ _ _ (lok_scanToWs dia _ line _ _ _) (fun a _ => lok_pure _ _ (mkTok_extra r _ _ _ (by decide) (by decide)))
  refine lok_ite _ _ _ _ (lok_pure _ _ (mkTok_extra r _ _ _ (by decide) (by decide))) ?_
  refine lok_ite _ _ _ _ (lok_pure _ _ (mkTok_extra r _ _ _ (by decide) (by decide))) ?_
  refine lok_ite _ _ _ _ (lok_pure _ _ (mkTok_extra r _ _ _ (by decide) (by decide))) ?_
  refine lok_ite _ _ _ _ (lok_pure _ _ (mkTok_extra r _ _ _ (by decide) (by decide))) ?_
  refine lok_ite _ _ _ _ ?_ ?_
  · exact lok_bind _ _ _ _ (lok_scanDelim dia c _ line _ _ _ _)
      (fun a ha => lok_pure _ _ (keyPeek_extra r _ _ _ _ (Or.inl rfl) (by decide) ha))
  refine lok_ite _ _ _ _ ?_ ?_
  · refine lok_ite _ _ _ _ ?_ ?_
    · refine lok_bind _ _ _ _ (lok_scanText dia _ line _ _ _ _) ?_
      intro a ha
      refine lok_ite _ _ _ _ ?_ ?_
      · exact lok_pure _ _ (keyPeek_extra r _ _ _ _ (Or.inr rfl) (by decide) ha)
      · exact lok_pure _ _ (mkTok_extra r _ _ _ (by decide) (by decide))
    · refine lok_bind _ _ _ _ (lok_scanUnquoted dia _ line _ _ _ _ _ _) ?_
      intro a ha
      exact lok_finishUnquoted_extra r dia aw _ _ (by have := ha.2; simp only [List.length_reverse, List.length_cons, List.length_nil] at *; omega)
  · refine lok_bind _ _ _ _ (lok_scanUnquoted dia _ line _ _ _ _ _ _) ?_
    intro a ha
    exact lok_finishUnquoted_extra r dia aw _ _ (by have := ha.2; simp only [List.length_reverse, List.length_cons, List.length_nil] at *; omega)

/-- what one next_token call does to the remaining input: at END nothing remains; any other token (never ERROR) weighs at
    most what was consumed for it -/
def tokPost (p : Pos) (a : Tok × Pos) : Prop :=
  (a.1.ty = .end_ ∧ a.2.rest = []) ∨ (a.1.ty ≠ .end_ ∧ a.1.ty ≠ .error ∧ a.2.rest.length + pwT a.1 ≤ p.rest.length)

theorem step_weight {r : Str} {t : Tok} {p : Pos} (h1 : p.rest.length ≤ r.length) (h2 : stepExtra r (.tok t p)) :
    p.rest.length + pwT t ≤ r.length + 1 := by
  unfold pwT
  obtain ⟨hv, hk⟩ := h2
  by_cases hkey : t.ty = .key ∨ t.ty = .tkey
  · rw [if_pos hkey]; have := hk hkey; omega
  · rw [if_neg hkey]
    by_cases hval : t.ty = .value
    · rw [if_pos hval]; have := hv hval; omega
    · rw [if_neg hval]; omega

theorem lok_tokLoop (dia : Dialect) : ∀ (f : Nat) (aw : Bool) (p : Pos), p.rest.length < f →
    LOk (tokPost p) (tokLoop dia f aw p) := by
  intro f
  induction f with
  | zero => intro aw p h; omega
  | succ f ih =>
    intro aw p hf
    obtain ⟨rest, line, col⟩ := p
    cases rest with
    | nil => unfold tokLoop; exact lok_pure _ _ (Or.inl ⟨rfl, rfl⟩)
    | cons c r =>
      unfold tokLoop
      have hstep := lok_and_inv _ (fun st => st.pos.rest.length ≤ r.length ∧ st.tyOk) _ (lok_stepTok_extra dia aw c r line col)
        (fun pol log a l h => stepTok_len dia aw c r line col pol log l a h)
      refine lok_bind _ _ _ _ hstep ?_
      intro st hst
      obtain ⟨hex, hlen, hty⟩ := hst
      cases st with
      | tok t p' =>
        refine lok_pure _ _ (Or.inr ⟨hty.1, hty.2.1, ?_⟩)
        have := step_weight hlen hex
        simp only [List.length_cons]
        exact this
      | skip aw' p' =>
        simp only [Step.pos] at hlen
        simp only [List.length_cons] at hf
        refine lok_weaken _ _ _ (ih aw' p' (by omega)) ?_
        intro a ha
        rcases ha with h | ⟨h1, h2, h3⟩
        · exact Or.inl h
        · exact Or.inr ⟨h1, h2, by simp only [List.length_cons]; omega⟩

theorem lok_nextToken (dia : Dialect) (s : Scan) :
    LOk (fun a => (a.1.ty = .end_ ∧ a.2.rest = [] ∨ a.1.ty ≠ .end_ ∧ a.1.ty ≠ .error ∧ a.2.rest.length + pwT a.1 ≤ s.rest.length) ∧
                  a.2.lastType = a.1.ty)
      (nextToken dia s) := by
  unfold nextToken
  refine lok_bind _ _ _ _ (lok_tokLoop dia (s.rest.length + 1) (afterWsOf s.lastType) ⟨s.rest, s.line, s.col⟩ (Nat.lt_succ_self _)) ?_
  intro a ha
  obtain ⟨t, p⟩ := a
  exact lok_pure _ _ ⟨ha, rfl⟩

end CifModel.Model.Lexer

namespace CifModel.Model.Parser
open CifModel CifModel.Model CifModel.Model.Lexer
open CifModel.Gen.ErrCodes

/-! ### Part 2: the productions -/

/-- weight of the pending token: END weighs nothing (it is never consumed) -/
def pw : Option Tok → Nat
  | none => 0
  | some t => if t.ty = .end_ then 0 else pwT t

/-- the potential of a parser state -/
def U (s : PS) : Nat := s.scan.rest.length + pw s.tok

def FOk {α : Type} (post : α → Prop) (m : P α) : Prop :=
  ∀ pol w, (∀ i r, pol i r ≠ NOFUEL) →
    match m pol w with
    | .ok a _ => post a
    | .abort rv _ => rv ≠ NOFUEL

theorem fok_pure {α : Type} (post : α → Prop) (a : α) (h : post a) : FOk post (P.pure a) := by
  intro pol w hp; exact h

theorem fok_fail {α : Type} (post : α → Prop) (code : Int) (h : code ≠ NOFUEL) : FOk post (Parser.fail code : P α) := by
  intro pol w hp; exact h

theorem fok_bind {α β : Type} (p1 : α → Prop) (p2 : β → Prop) (m : P α) (k : α → P β)
    (hm : FOk p1 m) (hk : ∀ a, p1 a → FOk p2 (k a)) : FOk p2 (P.bind m k) := by
  intro pol w hp
  have h := hm pol w hp
  unfold P.bind
  cases h1 : m pol w with
  | ok a wa => rw [h1] at h; exact hk a h pol wa hp
  | abort rv wa => rw [h1] at h; exact h

theorem fok_weaken {α : Type} (p1 p2 : α → Prop) (m : P α) (hm : FOk p1 m) (h : ∀ a, p1 a → p2 a) : FOk p2 m := by
  intro pol w hp
  have := hm pol w hp
  cases h1 : m pol w with
  | ok a wa => rw [h1] at this; exact h a this
  | abort rv wa => rw [h1] at this; exact this

theorem fok_liftL {α : Type} (post : α → Prop) (m : L α) (hm : LOk post m) : FOk post (liftL m) := by
  intro pol w hp
  have h := hm pol w.log hp
  unfold liftL
  cases h1 : m pol w.log with
  | ok a l => rw [h1] at h; exact h
  | abort rv l => rw [h1] at h; exact h

/-- the callback's answer is never the marker -/
theorem fok_ask (code : Code) (line col : Nat) : FOk (fun rv => rv ≠ NOFUEL) (ask code line col) := by
  intro pol w hp
  exact hp _ _

theorem fok_report (code : Code) (line col : Nat) : FOk (fun _ => True) (report code line col) := by
  unfold report
  simp only [bind_eq, pure_eq]
  refine fok_bind _ _ _ _ (fok_ask code line col) ?_
  intro rv hrv
  by_cases h0 : rv = 0
  · rw [if_pos h0]; exact fok_pure _ _ trivial
  · rw [if_neg h0]; exact fok_fail _ _ hrv

theorem fok_getCif : FOk (fun _ => True) getCif := by
  intro pol w hp; trivial

theorem fok_setCif (c : Cif) : FOk (fun _ => True) (setCif c) := by
  intro pol w hp; trivial

theorem fok_ite {α : Type} (post : α → Prop) (c : Prop) [Decidable c] (a b : P α) (ha : FOk post a) (hb : FOk post b) :
    FOk post (if c then a else b) := by
  by_cases h : c
  · rw [if_pos h]; exact ha
  · rw [if_neg h]; exact hb

theorem fok_clamp (m : P Unit) (hm : FOk (fun _ => True) m) : FOk (fun _ => True) (clamp m) := by
  intro pol w hp
  have h := hm pol w hp
  unfold clamp
  cases h1 : m pol w with
  | ok a wa => trivial
  | abort rv wa =>
    rw [h1] at h
    simp only at h ⊢
    by_cases hpos : rv > 0
    · rw [if_pos hpos]; exact h
    · rw [if_neg hpos]; trivial

theorem pure_bind' {α β : Type} (a : α) (f : α → P β) : P.bind (P.pure a) f = f a := rfl

/-! #### the potential under the scanner operations of the productions -/

theorem pw_some (t : Tok) : pw (some t) = if t.ty = .end_ then 0 else pwT t := rfl
theorem pw_none : pw none = 0 := rfl

theorem pw_le (t : Tok) : pw (some t) ≤ pwT t := by
  rw [pw_some]; split <;> omega

theorem pwT_pos (t : Tok) : 1 ≤ pwT t := by
  unfold pwT; split
  · omega
  · split <;> omega

theorem pw_pos (t : Tok) (h : t.ty ≠ .end_) : 1 ≤ pw (some t) := by
  rw [pw_some, if_neg h]; exact pwT_pos t

theorem pw_key (t : Tok) (h : isKeyTok t.ty = true) : pw (some t) = 2 := by
  have hk : t.ty = .key ∨ t.ty = .tkey := by
    cases ht : t.ty <;> simp [isKeyTok, ht] at h ⊢
  have he : t.ty ≠ .end_ := by rcases hk with h | h <;> rw [h] <;> decide
  rw [pw_some, if_neg he]; unfold pwT; rw [if_pos hk]

theorem pw_value (t : Tok) (h : t.ty = .value) : pw (some t) = max 1 t.text.length := by
  rw [pw_some, if_neg (by rw [h]; decide)]; unfold pwT
  rw [if_neg (by rw [h]; decide), if_pos h]

theorem U_consume (s : PS) : U (consume s) + pw s.tok = U s := by
  unfold U consume; simp only [pw_none]; omega

/-- next_token inside the productions: the potential does not grow, and the token is now pending -/
theorem fok_nextTok' (o : Opts) (s : PS) :
    FOk (fun r => (U r.2 ≤ U s ∧ r.2.tok = some r.1) ∧ (∀ t0, s.tok = some t0 → r.1 = t0 ∧ r.2 = s)) (nextTok o s) := by
  unfold nextTok
  cases htok : s.tok with
  | some t => exact fok_pure _ _ ⟨⟨Nat.le_refl _, htok⟩, fun t0 h => by cases h; exact ⟨rfl, rfl⟩⟩
  | none =>
    simp only [bind_eq, pure_eq]
    refine fok_bind _ _ _ _ (fok_liftL _ _ (lok_nextToken o.dia s.scan)) ?_
    intro a ha
    refine fok_pure _ _ ⟨⟨?_, rfl⟩, fun t0 h => by cases h⟩
    obtain ⟨ha, _⟩ := ha
    unfold U
    simp only [htok, pw_none, pw_some]
    rcases ha with ⟨h1, h2⟩ | ⟨h1, _, h3⟩
    · rw [if_pos h1, h2]; simp
    · rw [if_neg h1]; omega

theorem fok_nextTok (o : Opts) (s : PS) : FOk (fun r => U r.2 ≤ U s ∧ r.2.tok = some r.1) (nextTok o s) :=
  fok_weaken _ _ _ (fok_nextTok' o s) (fun _ h => h.1)

/-- pushing the colon of a KEY / TKEY back: the potential is unchanged, a value token is pending -/
theorem U_pushColon (s : PS) (t : Tok) (ht : s.tok = some t) (hk : isKeyTok t.ty = true) :
    U (pushColon s t (altOf t.ty)).2 = U s ∧
    ∃ t', (pushColon s t (altOf t.ty)).2.tok = some t' ∧ isValueStart t'.ty = true ∧ isKeyTok t'.ty = false := by
  have hp := pw_key t hk
  have halt : altOf t.ty = .tvalue ∨ altOf t.ty = .qvalue := by
    unfold altOf; split
    · exact Or.inl rfl
    · exact Or.inr rfl
  refine ⟨?_, ⟨_, rfl, ?_, ?_⟩⟩
  · unfold U pushColon
    simp only [ht, hp, List.length_cons]
    have : pw (some { t with ty := altOf t.ty }) = 1 := by
      rw [pw_some]; unfold pwT
      rcases halt with h | h <;> simp [h]
    rw [this]
  · rcases halt with h | h <;> simp [h, isValueStart]
  · rcases halt with h | h <;> simp [h, isKeyTok]

theorem colonIdx_bounds (t : Str) (i : Nat) (h : colonIdx t = some i) : 1 ≤ i ∧ i < t.length := by
  unfold colonIdx at h
  cases hf : (t.drop 1).findIdx? (· == colon) with
  | none => rw [hf] at h; cases h
  | some j =>
    rw [hf] at h
    simp only [Option.some.injEq] at h
    have hj := List.findIdx?_eq_some_iff_getElem.mp hf
    obtain ⟨hlt, _⟩ := hj
    rw [List.length_drop] at hlt
    omega

/-- TRIM_TOKEN of a pending VALUE token to its first `n ≥ 1` units, then CONSUME_TOKEN: the potential drops -/
theorem U_trim_consume (s : PS) (t : Tok) (n : Nat) (ty : TokType) (ht : s.tok = some t) (hv : t.ty = .value)
    (h1 : 1 ≤ n) (h2 : n ≤ t.text.length) : U (consume (trimTok s t n ty).2) + 1 ≤ U s := by
  have hp := pw_value t hv
  unfold U consume trimTok
  simp only [ht, hp, pw_none, List.length_append, List.length_drop]
  omega

attribute [local irreducible] parseValue listLoop tableLoop tableEntry nextTok P.bind P.pure report Parser.fail
  headerLoop packetsLoop parseContainer elemsLoop blocksLoop getCif setCif FOk

/-- the fuel each production of the value grammar needs, and what it does to the potential -/
def ValuesOk (o : Opts) (fuel : Nat) : Prop :=
  (∀ s, 2 * U s + 1 ≤ fuel → FOk (fun r => U r.2 + 1 ≤ U s) (parseValue o fuel s)) ∧
  (∀ s acc, 2 * U s + 2 ≤ fuel → FOk (fun r => U r.2 ≤ U s) (listLoop o fuel s acc)) ∧
  (∀ s acc, 2 * U s + 2 ≤ fuel → FOk (fun r => U r.2 ≤ U s) (tableLoop o fuel s acc)) ∧
  (∀ s acc key, 2 * U s + 3 ≤ fuel → FOk (fun r => U r.2 ≤ U s) (tableEntry o fuel s acc key))

theorem parseValue_step (o : Opts) (fuel : Nat) (ih : ValuesOk o fuel) (s : PS) (hf : 2 * U s + 1 ≤ fuel + 1) :
    FOk (fun r => U r.2 + 1 ≤ U s) (parseValue o (fuel + 1) s) := by
  obtain ⟨hv, hl, ht, he⟩ := ih
  rw [parseValue]
  simp only [bind_eq, pure_eq]
  refine fok_bind _ _ _ _ (fok_nextTok o s) ?_
  rintro ⟨t, s1⟩ ⟨hU, htok⟩
  simp only at hU htok ⊢
  have hc := U_consume s1
  rw [htok] at hc
  split
  · rename_i heq
    have hp := pw_pos t (by rw [heq]; decide)
    refine fok_bind _ _ _ _ (hl (consume s1) [] (by omega)) ?_
    intro r (hr : U r.2 ≤ U (consume s1))
    exact fok_pure _ _ (by show U r.2 + 1 ≤ U s; omega)
  · rename_i heq
    have hp := pw_pos t (by rw [heq]; decide)
    refine fok_bind _ _ _ _ (ht (consume s1) [] (by omega)) ?_
    intro r (hr : U r.2 ≤ U (consume s1))
    exact fok_pure _ _ (by show U r.2 + 1 ≤ U s; omega)
  · rename_i heq
    have hp := pw_pos t (by rw [heq]; decide)
    exact fok_pure _ _ (by show U (consume s1) + 1 ≤ U s; omega)
  · rename_i heq
    have hp := pw_pos t (by rw [heq]; decide)
    exact fok_pure _ _ (by show U (consume s1) + 1 ≤ U s; omega)
  · rename_i heq
    have hp := pw_pos t (by rw [heq]; decide)
    split
    · exact fok_pure _ _ (by show U (consume s1) + 1 ≤ U s; omega)
    · refine fok_bind _ _ _ _ (fok_report _ _ _) ?_
      intro _ _
      exact fok_pure _ _ (by show U (consume s1) + 1 ≤ U s; omega)
  · exact fok_fail _ _ (by decide)

theorem listLoop_step (o : Opts) (fuel : Nat) (ih : ValuesOk o fuel) (s : PS) (acc : List V) (hf : 2 * U s + 2 ≤ fuel + 1) :
    FOk (fun r => U r.2 ≤ U s) (listLoop o (fuel + 1) s acc) := by
  obtain ⟨hv, hl, ht, he⟩ := ih
  rw [listLoop]
  simp only [bind_eq, pure_eq]
  refine fok_bind _ _ _ _ (fok_nextTok o s) ?_
  rintro ⟨t, s1⟩ ⟨hU, htok⟩
  simp only at hU htok ⊢
  have hc := U_consume s1
  rw [htok] at hc
  by_cases hk : isKeyTok t.ty = true
  · rw [if_pos hk]
    refine fok_bind _ _ _ _ (fok_report _ _ _) ?_
    intro _ _
    have hpc := (U_pushColon s1 t htok hk).1
    refine fok_bind _ _ _ _ (hv _ (by omega)) ?_
    intro r (hr : U r.2 + 1 ≤ U (pushColon s1 t (altOf t.ty)).2)
    exact fok_weaken _ _ _ (hl r.2 _ (by omega)) (fun r2 (h2 : U r2.2 ≤ U r.2) => by show U r2.2 ≤ U s; omega)
  · rw [if_neg hk]
    by_cases hvs : isValueStart t.ty = true
    · rw [if_pos hvs]
      refine fok_bind _ _ _ _ (hv s1 (by omega)) ?_
      intro r (hr : U r.2 + 1 ≤ U s1)
      exact fok_weaken _ _ _ (hl r.2 _ (by omega)) (fun r2 (h2 : U r2.2 ≤ U r.2) => by show U r2.2 ≤ U s; omega)
    · rw [if_neg hvs]
      by_cases hcl : t.ty = .clist
      · rw [if_pos hcl]
        exact fok_pure _ _ (by show U (consume s1) ≤ U s; omega)
      · rw [if_neg hcl]
        refine fok_bind _ _ _ _ (fok_report _ _ _) ?_
        intro _ _
        exact fok_pure _ _ hU

theorem tableEntry_step (o : Opts) (fuel : Nat) (ih : ValuesOk o fuel) (s : PS) (acc : List (Str × Str × V)) (key : Option Str)
    (hf : 2 * U s + 3 ≤ fuel + 1) : FOk (fun r => U r.2 ≤ U s) (tableEntry o (fuel + 1) s acc key) := by
  obtain ⟨hv, hl, ht, he⟩ := ih
  have hrest : ∀ (f : V → List (Str × Str × V)),
      FOk (fun r => U r.2 ≤ U s) ((nextTok o s).bind fun x =>
        if isValueStart x.1.ty = true then (parseValue o fuel x.2).bind fun y => tableLoop o fuel y.2 (f y.1)
        else (report CIF_MISSING_VALUE x.2.scan.line (x.2.scan.col - x.1.text.length)).bind fun _ => tableLoop o fuel x.2 (f V.unk)) := by
    intro f
    refine fok_bind _ _ _ _ (fok_nextTok o s) ?_
    rintro ⟨t, s1⟩ ⟨hU, htok⟩
    simp only at hU htok ⊢
    by_cases hvs : isValueStart t.ty = true
    · rw [if_pos hvs]
      refine fok_bind _ _ _ _ (hv s1 (by omega)) ?_
      intro r (hr : U r.2 + 1 ≤ U s1)
      exact fok_weaken _ _ _ (ht r.2 _ (by omega)) (fun r2 (h2 : U r2.2 ≤ U r.2) => by show U r2.2 ≤ U s; omega)
    · rw [if_neg hvs]
      refine fok_bind _ _ _ _ (fok_report _ _ _) ?_
      intro _ _
      exact fok_weaken _ _ _ (ht s1 _ (by omega)) (fun r2 (h2 : U r2.2 ≤ U s1) => by show U r2.2 ≤ U s; omega)
  have hkey : ∀ key0 : Option Str, FOk (fun r => U r.2 ≤ U s) ((P.pure key0).bind fun key =>
      (nextTok o s).bind fun x =>
        if isValueStart x.1.ty = true then (parseValue o fuel x.2).bind fun y =>
          tableLoop o fuel y.2 (match key with | some k => tableSet o.normKey acc k y.1 | none => acc)
        else (report CIF_MISSING_VALUE x.2.scan.line (x.2.scan.col - x.1.text.length)).bind fun _ =>
          tableLoop o fuel x.2 (match key with | some k => tableSet o.normKey acc k V.unk | none => acc)) := by
    intro key0
    refine fok_bind (fun _ => True) _ _ _ (fok_pure _ _ trivial) ?_
    intro key _
    cases key with
    | none => exact hrest (fun _ => acc)
    | some k => exact hrest (fun v => tableSet o.normKey acc k v)
  cases key with
  | none =>
    rw [tableEntry]
    simp only [bind_eq, pure_eq]
    exact hkey none
  | some k =>
    rw [tableEntry]
    simp only [bind_eq, pure_eq]
    by_cases hd : hasDisallowed k = true
    · rw [if_pos hd]
      -- since 8375485 the refused key is reported (CIF_INVALID_INDEX) and the entry dropped
      refine fok_bind (fun _ => True) _ _ _ (fok_report _ _ _) ?_
      intro _ _
      exact hkey none
    · rw [if_neg hd]
      exact hkey (some k)

theorem tableLoop_step (o : Opts) (fuel : Nat) (ih : ValuesOk o fuel) (s : PS) (acc : List (Str × Str × V))
    (hf : 2 * U s + 2 ≤ fuel + 1) : FOk (fun r => U r.2 ≤ U s) (tableLoop o (fuel + 1) s acc) := by
  obtain ⟨hv, hl, ht, he⟩ := ih
  rw [tableLoop]
  simp only [bind_eq, pure_eq]
  refine fok_bind _ _ _ _ (fok_nextTok o s) ?_
  rintro ⟨t, s1⟩ ⟨hU, htok⟩
  simp only at hU htok ⊢
  have hc := U_consume s1
  rw [htok] at hc
  -- continue with the entry / the loop from a state whose potential has dropped
  have entry : ∀ (s2 : PS) acc' key, U s2 + 1 ≤ U s1 → FOk (fun r => U r.2 ≤ U s) (tableEntry o fuel s2 acc' key) :=
    fun s2 acc' key h => fok_weaken _ _ _ (he s2 acc' key (by omega)) (fun r (hr : U r.2 ≤ U s2) => by show U r.2 ≤ U s; omega)
  have loop : ∀ (s2 : PS) acc', U s2 + 1 ≤ U s1 → FOk (fun r => U r.2 ≤ U s) (tableLoop o fuel s2 acc') :=
    fun s2 acc' h => fok_weaken _ _ _ (ht s2 acc' (by omega)) (fun r (hr : U r.2 ≤ U s2) => by show U r.2 ≤ U s; omega)
  split
  · -- VALUE
    rename_i heq
    have hp := pw_pos t (by rw [heq]; decide)
    have hpv := pw_value t heq
    by_cases hcol : t.text.head? = some colon
    · rw [if_pos hcol]
      refine fok_bind _ _ _ _ (fok_report _ _ _) ?_
      intro _ _
      by_cases hlen : t.text.length > 1
      · simp only [hlen, if_true]
        exact entry _ _ _ (U_trim_consume s1 t 1 .value htok heq (Nat.le_refl _) (by omega))
      · simp only [hlen, if_false]
        exact entry _ _ _ (by omega)
    · rw [if_neg hcol]
      split
      · rename_i i hci
        have hb := colonIdx_bounds t.text i hci
        refine fok_bind _ _ _ _ (fok_report _ _ _) ?_
        intro _ _
        exact entry _ _ _ (U_trim_consume s1 t (i + 1) .key htok heq (by omega) (by omega))
      · refine fok_bind _ _ _ _ (fok_report _ _ _) ?_
        intro _ _
        exact loop _ _ (by omega)
  · -- KEY
    rename_i heq
    have hp := pw_pos t (by rw [heq]; decide)
    exact entry _ _ _ (by omega)
  · -- TKEY
    rename_i heq
    have hp := pw_pos t (by rw [heq]; decide)
    refine fok_bind _ _ _ _ (fok_report _ _ _) ?_
    intro _ _
    exact entry _ _ _ (by omega)
  · -- a value where a key is due
    refine fok_bind _ _ _ _ (fok_report _ _ _) ?_
    intro _ _
    refine fok_bind _ _ _ _ (hv s1 (by omega)) ?_
    intro r (hr : U r.2 + 1 ≤ U s1)
    exact loop _ _ hr
  · -- a value where a key is due
    refine fok_bind _ _ _ _ (fok_report _ _ _) ?_
    intro _ _
    refine fok_bind _ _ _ _ (hv s1 (by omega)) ?_
    intro r (hr : U r.2 + 1 ≤ U s1)
    exact loop _ _ hr
  · -- a value where a key is due
    refine fok_bind _ _ _ _ (fok_report _ _ _) ?_
    intro _ _
    refine fok_bind _ _ _ _ (hv s1 (by omega)) ?_
    intro r (hr : U r.2 + 1 ≤ U s1)
    exact loop _ _ hr
  · -- a value where a key is due
    refine fok_bind _ _ _ _ (fok_report _ _ _) ?_
    intro _ _
    refine fok_bind _ _ _ _ (hv s1 (by omega)) ?_
    intro r (hr : U r.2 + 1 ≤ U s1)
    exact loop _ _ hr
  · -- CTABLE
    exact fok_pure _ _ (by show U (consume s1) ≤ U s; omega)
  · refine fok_bind _ _ _ _ (fok_report _ _ _) ?_
    intro _ _
    exact fok_pure _ _ hU

/-- **the value grammar never runs out of fuel**: `2·U + c` levels suffice -/
theorem values_ok (o : Opts) : ∀ fuel, ValuesOk o fuel := by
  intro fuel
  induction fuel with
  | zero =>
    refine ⟨?_, ?_, ?_, ?_⟩ <;> intros <;> omega
  | succ fuel ih =>
    exact ⟨fun s h => parseValue_step o fuel ih s h, fun s acc h => listLoop_step o fuel ih s acc h,
           fun s acc h => tableLoop_step o fuel ih s acc h, fun s acc key h => tableEntry_step o fuel ih s acc key h⟩

/-! #### items and loops -/

/-- `fokq [h₁, …]`: productions whose result carries no potential (postcondition `True`) -/
syntax "fokq" "[" term,* "]" : tactic
macro_rules
  | `(tactic| fokq [$hs,*]) => `(tactic| repeat (first
      | exact fok_pure (fun _ => True) _ trivial
      | exact fok_fail (fun _ => True) _ (by decide)
      | exact fok_getCif
      | exact fok_setCif _
      | exact fok_report _ _ _
      | (first $[| exact $hs ..]*)
      | apply fok_bind (fun _ => True)
      | apply fok_ite
      | intro _
      | split))

theorem fok_setValue (o : Opts) (path : Path) (name : Str) (v : V) : FOk (fun _ => True) (setValue o path name v) := by
  unfold setValue
  simp only [bind_eq, pure_eq, pure_bind']
  fokq []

theorem fok_itemExists (o : Opts) (path : Path) (name : Str) : FOk (fun _ => True) (itemExists o path name) := by
  unfold itemExists
  simp only [bind_eq, pure_eq, pure_bind']
  fokq []

/-- parse_item: the potential does not grow, and drops if a value (or key) token is pending -/
theorem fok_parseItem (o : Opts) (fuel : Nat) (s : PS) (cont : Option Path) (name : Option Str) (hf : 2 * U s + 1 ≤ fuel) :
    FOk (fun s' => U s' ≤ U s ∧ (∀ t, s.tok = some t → (isKeyTok t.ty = true ∨ isValueStart t.ty = true) → U s' + 1 ≤ U s))
      (parseItem o fuel s cont name) := by
  have hv := (values_ok o fuel).1
  unfold parseItem
  simp only [bind_eq, pure_eq, pure_bind']
  refine fok_bind _ _ _ _ (fok_nextTok' o s) ?_
  rintro ⟨t, s1⟩ ⟨⟨hU, htok⟩, hid⟩
  simp only at hU htok hid ⊢
  -- what follows the value: the item is stored (or not); the state is returned unchanged
  have tail : ∀ (v : V) (s2 : PS) (q : PS → Prop), q s2 →
      FOk q (match name, cont with
        | some n, some path => (setValue o path n v).bind fun _ => P.pure s2
        | _, _ => P.pure s2) := by
    intro v s2 q hq
    split
    · exact fok_bind _ _ _ _ (fok_setValue o _ _ _) (fun _ _ => fok_pure _ _ hq)
    · exact fok_pure _ _ hq
  by_cases hk : isKeyTok t.ty = true
  · rw [if_pos hk]
    refine fok_bind _ _ _ _ (fok_report _ _ _) ?_
    intro _ _
    have hpc := (U_pushColon s1 t htok hk).1
    refine fok_bind _ _ _ _ (hv _ (by omega)) ?_
    intro r (hr : U r.2 + 1 ≤ U (pushColon s1 t (altOf t.ty)).2)
    exact tail _ _ _ ⟨by omega, fun _ _ _ => by omega⟩
  · rw [if_neg hk]
    by_cases hvs : isValueStart t.ty = true
    · rw [if_pos hvs]
      refine fok_bind _ _ _ _ (hv s1 (by omega)) ?_
      intro r (hr : U r.2 + 1 ≤ U s1)
      exact tail _ _ _ ⟨by omega, fun _ _ _ => by omega⟩
    · rw [if_neg hvs]
      refine fok_bind _ _ _ _ (fok_report _ _ _) ?_
      intro _ _
      refine tail _ _ (fun s' => U s' ≤ U s ∧ (∀ t, s.tok = some t → (isKeyTok t.ty = true ∨ isValueStart t.ty = true) → U s' + 1 ≤ U s))
        (And.intro hU (fun t0 ht0 hor => ?_))
      obtain ⟨e1, _⟩ := hid t0 ht0
      subst e1
      rcases hor with h | h
      · exact absurd h hk
      · exact absurd h hvs

theorem fok_headerLoop (o : Opts) (cont : Option Path) : ∀ (fuel : Nat) (s : PS) (slots : List (Option Str)),
    2 * U s + 1 ≤ fuel → FOk (fun r => U r.2 ≤ U s) (headerLoop o cont fuel s slots) := by
  intro fuel
  induction fuel with
  | zero => intro s slots h; omega
  | succ fuel ih =>
    intro s slots hf
    rw [headerLoop]
    simp only [bind_eq, pure_eq, pure_bind']
    refine fok_bind _ _ _ _ (fok_nextTok o s) ?_
    rintro ⟨t, s1⟩ ⟨hU, htok⟩
    simp only at hU htok ⊢
    have hc := U_consume s1
    rw [htok] at hc
    by_cases hn : t.ty = .name
    · rw [if_pos hn]
      have hp := pw_pos t (by rw [hn]; decide)
      have again : ∀ slots', FOk (fun r => U r.2 ≤ U s) (headerLoop o cont fuel (consume s1) slots') :=
        fun slots' => fok_weaken _ _ _ (ih (consume s1) slots' (by omega))
          (fun r (hr : U r.2 ≤ U (consume s1)) => by show U r.2 ≤ U s; omega)
      have body : ∀ (e : Bool), FOk (fun r => U r.2 ≤ U s) (
          if e = true then
            (report CIF_DUP_ITEMNAME s1.scan.line (s1.scan.col - t.text.length)).bind fun _ =>
              headerLoop o cont fuel (consume s1) (slots ++ [none])
          else
            match findHeaderName o slots (cstr t.text) with
            | some true =>
              (report CIF_INVALID_ITEMNAME s1.scan.line (s1.scan.col - t.text.length)).bind fun _ =>
                headerLoop o cont fuel (consume s1) (slots ++ [none])
            | some false =>
              (report CIF_DUP_ITEMNAME s1.scan.line (s1.scan.col - t.text.length)).bind fun _ =>
                headerLoop o cont fuel (consume s1) (slots ++ [none])
            | none => headerLoop o cont fuel (consume s1) (slots ++ [some (cstr t.text)])) := by
        intro e
        by_cases he : e = true
        · rw [if_pos he]
          exact fok_bind _ _ _ _ (fok_report _ _ _) (fun _ _ => again _)
        · rw [if_neg he]
          split
          · exact fok_bind _ _ _ _ (fok_report _ _ _) (fun _ _ => again _)
          · exact fok_bind _ _ _ _ (fok_report _ _ _) (fun _ _ => again _)
          · exact again _
      split
      · exact body false
      · exact fok_bind _ _ _ _ (fok_itemExists o _ _) (fun e _ => body e)
    · rw [if_neg hn]
      exact fok_pure _ _ hU

theorem fok_addPacket (o : Opts) (loopAt : Option Path) (p : List V) : FOk (fun _ => True) (addPacket o loopAt p) := by
  unfold addPacket
  simp only [bind_eq, pure_eq, pure_bind']
  fokq []

theorem fok_packetsLoop (o : Opts) (loopAt : Option Path) (slots : List (Option Str)) : ∀ (fuel : Nat) (s : PS) (k : Pk),
    2 * U s + 2 ≤ fuel → FOk (fun s' => U s' ≤ U s) (packetsLoop o loopAt slots fuel s k) := by
  intro fuel
  induction fuel with
  | zero => intro s k h; omega
  | succ fuel ih =>
    intro s k hf
    have hv := (values_ok o fuel).1
    rw [packetsLoop]
    simp only [bind_eq, pure_eq, pure_bind']
    refine fok_bind _ _ _ _ (fok_nextTok o s) ?_
    rintro ⟨t, s1⟩ ⟨hU, htok⟩
    simp only at hU htok ⊢
    have hc := U_consume s1
    rw [htok] at hc
    have again : ∀ s2 k', U s2 + 1 ≤ U s1 → FOk (fun s' => U s' ≤ U s) (packetsLoop o loopAt slots fuel s2 k') :=
      fun s2 k' h => fok_weaken _ _ _ (ih s2 k' (by omega)) (fun r (hr : U r ≤ U s2) => by show U r ≤ U s; omega)
    by_cases hkv : (isKeyTok t.ty || isValueStart t.ty) = true
    · rw [if_pos hkv]
      -- the value, then the bookkeeping of the packet
      have after : ∀ s2, U s2 ≤ U s1 → 2 * U s2 + 1 ≤ fuel →
          FOk (fun s' => U s' ≤ U s) ((parseValue o fuel s2).bind fun x =>
            if (k.idx + 1) % slots.length = 0 then
              (addPacket o loopAt (if (slots.getD k.idx none).isSome = true then k.cur ++ [x.1] else k.cur)).bind fun _ =>
                packetsLoop o loopAt slots fuel x.2 { idx := 0, some := true, cur := [] }
            else packetsLoop o loopAt slots fuel x.2
              { idx := (k.idx + 1) % slots.length, some := k.some,
                cur := if (slots.getD k.idx none).isSome = true then k.cur ++ [x.1] else k.cur }) := by
        intro s2 h2 h3
        refine fok_bind _ _ _ _ (hv s2 h3) ?_
        intro r (hr : U r.2 + 1 ≤ U s2)
        by_cases hz : (k.idx + 1) % slots.length = 0
        · rw [if_pos hz]
          exact fok_bind _ _ _ _ (fok_addPacket o _ _) (fun _ _ => again _ _ (by omega))
        · rw [if_neg hz]
          exact again _ _ (by omega)
      by_cases hk : isKeyTok t.ty = true
      · rw [if_pos hk]
        refine fok_bind _ _ _ _ (fok_report _ _ _) ?_
        intro _ _
        have hpc := (U_pushColon s1 t htok hk).1
        exact after _ (by omega) (by omega)
      · rw [if_neg hk]
        exact after s1 (Nat.le_refl _) (by omega)
    · rw [if_neg hkv]
      by_cases hcl : (t.ty = .clist || t.ty = .ctable) = true
      · rw [if_pos hcl]
        have hp := pw_pos t (by
          intro he; rw [he] at hcl; simp at hcl)
        exact fok_bind _ _ _ _ (fok_report _ _ _) (fun _ _ => again _ _ (by omega))
      · rw [if_neg hcl]
        by_cases hi : k.idx ≠ 0
        · rw [if_pos hi]
          refine fok_bind _ _ _ _ (fok_report _ _ _) (fun _ _ => ?_)
          exact fok_bind _ _ _ _ (fok_addPacket o _ _) (fun _ _ => fok_pure _ _ hU)
        · rw [if_neg hi]
          by_cases hs : (!k.some) = true
          · rw [if_pos hs]
            exact fok_bind _ _ _ _ (fok_report _ _ _) (fun _ _ => fok_pure _ _ hU)
          · rw [if_neg hs]
            exact fok_pure _ _ hU

/-- `fokw [h₁, …]`: a production whose branches all end in one of the given facts (or fail with a real code); the binds in
    between are reports and store operations -/
syntax "fokw" "[" term,* "]" : tactic
macro_rules
  | `(tactic| fokw [$hs,*]) => `(tactic| repeat (first
      | exact fok_fail _ _ (by decide)
      | (first $[| exact $hs ..]*)
      | refine fok_bind (fun _ => True) _ _ _ (fok_report _ _ _) ?_
      | refine fok_bind (fun _ => True) _ _ _ fok_getCif ?_
      | refine fok_bind (fun _ => True) _ _ _ (fok_setCif _) ?_
      | refine fok_bind (fun _ => True) _ _ _ (fok_fail _ _ (by decide)) ?_
      | apply fok_ite
      | intro _
      | split))

theorem fok_parseLoop (o : Opts) (fuel : Nat) (s : PS) (cont : Option Path) (hf : 2 * U s + 2 ≤ fuel) :
    FOk (fun s' => U s' ≤ U s) (parseLoop o fuel s cont) := by
  unfold parseLoop
  simp only [bind_eq, pure_eq, pure_bind']
  refine fok_bind _ _ _ _ (fok_headerLoop o cont fuel s [] (by omega)) ?_
  rintro ⟨slots, s1⟩ (hU : U s1 ≤ U s)
  simp only
  have leaf : ∀ loopAt k, FOk (fun s' => U s' ≤ U s) (packetsLoop o loopAt slots fuel s1 k) :=
    fun loopAt k => fok_weaken _ _ _ (fok_packetsLoop o loopAt slots fuel s1 k (by omega))
      (fun r (hr : U r ≤ U s1) => by show U r ≤ U s; omega)
  have ret : FOk (fun s' => U s' ≤ U s) (P.pure s1) := fok_pure _ _ hU
  fokw [leaf, ret]

theorem fok_createIn (o : Opts) (isBlock : Bool) (parent : Path) (code : Str) (line col : Nat) :
    FOk (fun _ => True) (createIn o isBlock parent code line col) := by
  unfold createIn
  simp only [bind_eq, pure_eq, pure_bind']
  fokq []

/-! #### containers -/

/-- token types on which the loop of parse_container may return without consuming the token -/
def quiet (isBlock : Bool) (ty : TokType) : Bool :=
  ty == .blockHead || ty == .end_ || (ty == .frameHead && !isBlock)

/-- what parse_container does to the potential: it never grows, and it drops unless the first token is one of `quiet` -/
def contPost (s : PS) (isBlock : Bool) (s' : PS) : Prop :=
  U s' ≤ U s ∧ (∀ t, s.tok = some t → quiet isBlock t.ty = false → U s' + 1 ≤ U s)

def ContOk (o : Opts) (fuel : Nat) : Prop :=
  (∀ s cont isBlock, 2 * U s + 3 ≤ fuel → FOk (contPost s isBlock) (parseContainer o fuel s cont isBlock)) ∧
  (∀ s cont isBlock, 2 * U s + 2 ≤ fuel → FOk (contPost s isBlock) (elemsLoop o fuel s cont isBlock))

theorem elemsLoop_step (o : Opts) (fuel : Nat) (ih : ContOk o fuel) (s : PS) (cont : Option Path) (isBlock : Bool)
    (hf : 2 * U s + 2 ≤ fuel + 1) : FOk (contPost s isBlock) (elemsLoop o (fuel + 1) s cont isBlock) := by
  obtain ⟨hc, he⟩ := ih
  rw [elemsLoop]
  simp only [bind_eq, pure_eq, pure_bind']
  refine fok_bind _ _ _ _ (fok_nextTok' o s) ?_
  rintro ⟨t, s1⟩ ⟨⟨hU, htok⟩, hid⟩
  simp only at hU htok hid ⊢
  have hcs := U_consume s1
  rw [htok] at hcs
  -- the loop goes on from any state whose potential has dropped
  have again : ∀ s2, U s2 + 1 ≤ U s1 → FOk (contPost s isBlock) (elemsLoop o fuel s2 cont isBlock) := by
    intro s2 h2
    refine fok_weaken _ _ _ (he s2 cont isBlock (by omega)) ?_
    intro r hr
    exact ⟨by have := hr.1; omega, fun _ _ _ => by have := hr.1; omega⟩
  have ret1 : quiet isBlock t.ty = true → FOk (contPost s isBlock) (P.pure s1) := by
    intro hq
    refine fok_pure _ _ ⟨hU, fun t0 ht0 hq0 => ?_⟩
    obtain ⟨e, _⟩ := hid t0 ht0
    subst e; rw [hq] at hq0; cases hq0
  have retc : 1 ≤ pw (some t) → FOk (contPost s isBlock) (P.pure (consume s1)) :=
    fun hp => fok_pure _ _ ⟨by omega, fun _ _ _ => by omega⟩
  have againc : 1 ≤ pw (some t) → FOk (contPost s isBlock) (elemsLoop o fuel (consume s1) cont isBlock) :=
    fun hp => again _ (by omega)
  have fPC : 1 ≤ pw (some t) → ∀ c, FOk (contPost s isBlock)
      ((parseContainer o fuel (consume s1) c false).bind fun s => elemsLoop o fuel s cont isBlock) := by
    intro hp c
    refine fok_bind _ _ _ _ (hc (consume s1) c false (by omega)) ?_
    intro r hr
    exact again r (by have := hr.1; omega)
  have fPL : 1 ≤ pw (some t) → FOk (contPost s isBlock)
      ((parseLoop o fuel (consume s1) cont).bind fun s => elemsLoop o fuel s cont isBlock) := by
    intro hp
    refine fok_bind _ _ _ _ (fok_parseLoop o fuel (consume s1) cont (by omega)) ?_
    intro r (hr : U r ≤ U (consume s1))
    exact again r (by omega)
  have fPIc : 1 ≤ pw (some t) → ∀ nm, FOk (contPost s isBlock)
      ((parseItem o fuel (consume s1) cont nm).bind fun s => elemsLoop o fuel s cont isBlock) := by
    intro hp nm
    refine fok_bind _ _ _ _ (fok_parseItem o fuel (consume s1) cont nm (by omega)) ?_
    intro r hr
    exact again r (by have := hr.1; omega)
  have fPIv : isValueStart t.ty = true → FOk (contPost s isBlock)
      ((parseItem o fuel s1 cont none).bind fun s => elemsLoop o fuel s cont isBlock) := by
    intro hvs
    refine fok_bind _ _ _ _ (fok_parseItem o fuel s1 cont none (by omega)) ?_
    intro r hr
    exact again r (hr.2 t htok (Or.inr hvs))
  have fPIp : isKeyTok t.ty = true → FOk (contPost s isBlock)
      ((parseItem o fuel (pushColon s1 t (altOf t.ty)).2 cont none).bind fun s => elemsLoop o fuel s cont isBlock) := by
    intro hk
    obtain ⟨hpu, t', ht', hvs', _⟩ := U_pushColon s1 t htok hk
    refine fok_bind _ _ _ _ (fok_parseItem o fuel _ cont none (by omega)) ?_
    intro r hr
    exact again r (by have := hr.2 t' ht' (Or.inr hvs'); omega)
  split
  · -- BLOCK_HEAD
    rename_i heq
    have hq : quiet isBlock t.ty = true := by rw [heq]; rfl
    have hfact0 := ret1 hq
    fokw [hfact0]
  · -- FRAME_HEAD
    rename_i heq
    have hp := pw_pos t (by rw [heq]; decide)
    split
    · exact fPC hp none
    · by_cases h1 : o.maxFrameDepth = 0 ∧ (!isBlock) = true
      · rw [if_pos h1]
        have hq : quiet isBlock t.ty = true := by rw [heq]; simp [quiet, h1.2]
        have hfact0 := ret1 hq
        fokw [hfact0]
      · rw [if_neg h1]
        by_cases h2 : o.maxFrameDepth = 1 ∧ (!isBlock) = true
        · rw [if_pos h2]
          have hq : quiet isBlock t.ty = true := by rw [heq]; simp [quiet, h2.2]
          have hfact0 := ret1 hq
          fokw [hfact0]
        · rw [if_neg h2]
          have fCr : ∀ (parent : Path) (k : Path → P PS), (∀ fp, FOk (contPost s isBlock) (k fp)) →
              FOk (contPost s isBlock) ((createIn o false parent (cstr t.text) s1.scan.line (s1.scan.col - t.text.length)).bind k) :=
            fun parent k hk => fok_bind _ _ _ _ (fok_createIn o _ _ _ _ _) (fun fp _ => hk fp)
          by_cases h3 : o.maxFrameDepth = 0
          · rw [if_pos h3]
            refine fok_bind _ _ _ _ (fok_report _ _ _) (fun _ _ => ?_)
            exact fCr _ _ (fun fp => fPC hp (some fp))
          · rw [if_neg h3]
            exact fCr _ _ (fun fp => fPC hp (some fp))
  · -- FRAME_TERM
    rename_i heq
    have hp := pw_pos t (by rw [heq]; decide)
    have hfact0 := againc hp
    have hfact1 := retc hp
    fokw [hfact0, hfact1]
  · -- LOOPKW
    rename_i heq
    have hp := pw_pos t (by rw [heq]; decide)
    exact fPL hp
  · -- NAME
    rename_i heq
    have hp := pw_pos t (by rw [heq]; decide)
    have fIE : ∀ (path : Path) (k : Bool → P PS), (∀ e, FOk (contPost s isBlock) (k e)) →
        FOk (contPost s isBlock) ((itemExists o path (cstr t.text)).bind k) :=
      fun path k hk => fok_bind _ _ _ _ (fok_itemExists o _ _) (fun e _ => hk e)
    have hfact0 := fPIc hp
    split
    · fokw [hfact0]
    · refine fIE _ _ (fun e => ?_)
      have hfact0 := fPIc hp
      fokw [hfact0]
  · -- KEY
    rename_i heq
    have hk : isKeyTok t.ty = true := by rw [heq]; rfl
    have hfact0 := fPIp hk
    fokw [hfact0]
  · -- TKEY
    rename_i heq
    have hk : isKeyTok t.ty = true := by rw [heq]; rfl
    have hfact0 := fPIp hk
    fokw [hfact0]
  · rename_i heq; have hvs : isValueStart t.ty = true := by rw [heq]; rfl
    have hfact0 := fPIv hvs
    fokw [hfact0]
  · rename_i heq; have hvs : isValueStart t.ty = true := by rw [heq]; rfl
    have hfact0 := fPIv hvs
    fokw [hfact0]
  · rename_i heq; have hvs : isValueStart t.ty = true := by rw [heq]; rfl
    have hfact0 := fPIv hvs
    fokw [hfact0]
  · rename_i heq; have hvs : isValueStart t.ty = true := by rw [heq]; rfl
    have hfact0 := fPIv hvs
    fokw [hfact0]
  · rename_i heq; have hvs : isValueStart t.ty = true := by rw [heq]; rfl
    have hfact0 := fPIv hvs
    fokw [hfact0]
  · -- CTABLE
    rename_i heq
    have hp := pw_pos t (by rw [heq]; decide)
    have hfact0 := againc hp
    fokw [hfact0]
  · -- CLIST
    rename_i heq
    have hp := pw_pos t (by rw [heq]; decide)
    have hfact0 := againc hp
    fokw [hfact0]
  · -- END
    rename_i heq
    have hq : quiet isBlock t.ty = true := by rw [heq]; rfl
    have hfact0 := ret1 hq
    fokw [hfact0]
  · -- ERROR
    exact fok_fail _ _ (by decide)

theorem parseContainer_step (o : Opts) (fuel : Nat) (ih : ContOk o fuel) (s : PS) (cont : Option Path) (isBlock : Bool)
    (hf : 2 * U s + 3 ≤ fuel + 1) : FOk (contPost s isBlock) (parseContainer o (fuel + 1) s cont isBlock) := by
  obtain ⟨hc, he⟩ := ih
  rw [parseContainer]
  simp only [bind_eq, pure_eq, pure_bind']
  refine fok_bind _ _ _ _ (he s cont isBlock (by omega)) ?_
  intro r hr
  have ret : FOk (contPost s isBlock) (P.pure r) := fok_pure _ _ hr
  fokw [ret]

theorem containers_ok (o : Opts) : ∀ fuel, ContOk o fuel := by
  intro fuel
  induction fuel with
  | zero => refine ⟨?_, ?_⟩ <;> intros <;> omega
  | succ fuel ih =>
    exact ⟨fun s cont isBlock h => parseContainer_step o fuel ih s cont isBlock h,
           fun s cont isBlock h => elemsLoop_step o fuel ih s cont isBlock h⟩

/-! #### the whole parse -/

theorem fok_blocksLoop (o : Opts) : ∀ (fuel : Nat) (s : PS), 2 * U s + 4 ≤ fuel → FOk (fun _ => True) (blocksLoop o fuel s) := by
  intro fuel
  induction fuel with
  | zero => intro s h; omega
  | succ fuel ih =>
    intro s hf
    have hc := (containers_ok o fuel).1
    rw [blocksLoop]
    simp only [bind_eq, pure_eq, pure_bind']
    refine fok_bind _ _ _ _ (fok_nextTok o s) ?_
    rintro ⟨t, s1⟩ ⟨hU, htok⟩
    simp only at hU htok ⊢
    have hcs := U_consume s1
    rw [htok] at hcs
    split
    · -- BLOCK_HEAD: consumed
      rename_i heq
      have hp := pw_pos t (by rw [heq]; decide)
      have body : ∀ c, FOk (fun _ => True) ((parseContainer o fuel (consume s1) c true).bind fun s => blocksLoop o fuel s) := by
        intro c
        refine fok_bind _ _ _ _ (hc (consume s1) c true (by omega)) ?_
        intro r hr
        exact ih r (by have := hr.1; omega)
      have hcr : ∀ (k : Path → P PS), (∀ p, FOk (fun _ => True) (k p)) →
          FOk (fun _ => True) ((createIn o true [] (cstr t.text) s1.scan.line (s1.scan.col - t.text.length)).bind k) :=
        fun k hk => fok_bind _ _ _ _ (fok_createIn o _ _ _ _ _) (fun p _ => hk p)
      by_cases hs : o.store = true
      · rw [if_pos hs]
        exact hcr _ (fun p => body _)
      · rw [if_neg hs]
        exact body _
    · exact fok_pure _ _ trivial
    · -- anything else: an anonymous block is parsed from the pending token, which it consumes
      rename_i hnb hne
      have hq : quiet true t.ty = false := by
        cases hty : t.ty <;> simp [quiet] <;> first | exact hnb hty | exact hne hty
      have body : ∀ c, FOk (fun _ => True) ((parseContainer o fuel s1 c true).bind fun s => blocksLoop o fuel s) := by
        intro c
        refine fok_bind _ _ _ _ (hc s1 c true (by omega)) ?_
        intro r hr
        exact ih r (by have := hr.2 t htok hq; omega)
      refine fok_bind _ _ _ _ (fok_report _ _ _) (fun _ _ => ?_)
      by_cases hs : o.store = true
      · rw [if_pos hs]
        refine fok_bind _ _ _ _ fok_getCif (fun cif _ => ?_)
        by_cases hex : (cif.any (codeIs o.norm (o.norm []))) = true
        · rw [if_pos hex]; exact body _
        · rw [if_neg hex]
          exact fok_bind _ _ _ _ (fok_setCif _) (fun _ _ => body _)
      · rw [if_neg hs]
        exact body _

theorem fok_parseCif (o : Opts) (fuel : Nat) (s : PS) (hf : 2 * U s + 4 ≤ fuel) : FOk (fun _ => True) (parseCif o fuel s) := by
  unfold parseCif
  refine fok_clamp _ ?_
  simp only [bind_eq, pure_eq]
  exact fok_bind _ _ _ _ (fok_blocksLoop o fuel s hf) (fun _ _ => fok_pure _ _ trivial)

theorem U_init (input : Str) : U { scan := Scan.init input, tok := none } = input.length := by
  simp [U, Scan.init, pw_none]

theorem fok_afterFirst (o : Opts) (fuel : Nat) (c : CU) (rest : Str) (hf : 2 * (rest.length + 1) + 4 ≤ fuel) :
    FOk (fun _ => True) (afterFirst o fuel c rest) := by
  unfold afterFirst
  simp only [bind_eq, pure_eq]
  have hp : ∀ input : Str, input.length ≤ rest.length + 1 →
      FOk (fun _ => True) (parseCif o fuel { scan := Scan.init input, tok := none }) :=
    fun input h => fok_parseCif o fuel _ (by rw [U_init]; omega)
  have hp1 := hp (if (c == 0xFEFF) = true then rest else c :: rest) (by split <;> simp <;> omega)
  fokq [hp1]

theorem fok_parseInternal (o : Opts) (units : Str) : FOk (fun _ => True) (parseInternal o (fuelFor units) units) := by
  unfold parseInternal
  cases units with
  | nil => exact fok_pure _ _ trivial
  | cons c rest =>
    simp only
    refine fok_bind (fun rv => rv ≠ NOFUEL) _ _ _ ?_ ?_
    · by_cases hd : disallowedInitial c = true
      · rw [if_pos hd]; exact fok_ask _ _ _
      · rw [if_neg hd]; exact fok_pure _ _ (by decide)
    · intro rv hrv
      by_cases h1 : rv = -1
      · rw [if_pos h1]; exact fok_pure _ _ trivial
      · rw [if_neg h1]
        by_cases h0 : rv ≠ 0
        · rw [if_pos h0]; exact fok_fail _ _ hrv
        · rw [if_neg h0]
          exact fok_afterFirst o _ c rest (by simp only [fuelFor, List.length_cons]; omega)

end CifModel.Model.Parser
