import CifModel.Lemmas.ParserStore
import CifModel.Lemmas.ParserBasic
/-
  Lemmas/ParserConsistent — every production of Model/Parser.lean maintains the store invariant `OkCif` (Lemmas/ParserStore),
  under every callback policy, at normal exit AND when the production is left early (a callback answered non-zero, or one of the
  `fail` exits): a Hoare logic `HT pre m post ab` over the target CIF, with `ab` = what holds when `m` is left early.
-/
set_option linter.unusedSimpArgs false
set_option linter.unusedVariables false

namespace CifModel.Model.Parser
open CifModel CifModel.Model CifModel.Model.Lexer CifModel.Gen.ErrCodes

structure HT {α} (pre : Cif → Prop) (m : P α) (post : α → Cif → Prop) (ab : Cif → Prop) : Prop where
  run : ∀ pol w, pre w.cif →
    match m pol w with
    | .ok a w' => post a w'.cif
    | .abort _ w' => ab w'.cif

/-- `m` maintains `I`, also when it is left early -/
abbrev Pres {α} (I : Cif → Prop) (m : P α) : Prop := HT I m (fun _ => I) I

theorem HT.bind {α β} {pre : Cif → Prop} {mid : α → Cif → Prop} {post : β → Cif → Prop} {ab : Cif → Prop} {m : P α} {f : α → P β}
    (hm : HT pre m mid ab) (hf : ∀ a, HT (mid a) (f a) post ab) : HT pre (P.bind m f) post ab := by
  constructor
  intro pol w hp
  have h1 := hm.run pol w hp
  cases hA : m pol w with
  | abort c w1 => rw [hA] at h1; rw [P.bind_abort hA]; exact h1
  | ok a w1 => rw [hA] at h1; rw [P.bind_ok hA]; exact (hf a).run pol w1 h1

theorem HT.conseq {α} {pre pre' : Cif → Prop} {post post' : α → Cif → Prop} {ab ab' : Cif → Prop} {m : P α}
    (h : HT pre m post ab) (hpre : ∀ c, pre' c → pre c) (hpost : ∀ a c, post a c → post' a c) (hab : ∀ c, ab c → ab' c) :
    HT pre' m post' ab' := by
  constructor
  intro pol w hp
  have h1 := h.run pol w (hpre _ hp)
  cases hA : m pol w with
  | abort c w1 => rw [hA] at h1; exact hab _ h1
  | ok a w1 => rw [hA] at h1; exact hpost _ _ h1

theorem HT.pure {α} {pre : Cif → Prop} {post : α → Cif → Prop} {ab : Cif → Prop} (a : α) (h : ∀ c, pre c → post a c) :
    HT pre (P.pure a) post ab := ⟨fun _ w hp => h _ hp⟩

theorem HT.fail {α} {pre : Cif → Prop} {post : α → Cif → Prop} {ab : Cif → Prop} (code : Int) (h : ∀ c, pre c → ab c) :
    HT pre (Parser.fail code : P α) post ab := ⟨fun _ w hp => h _ hp⟩

theorem HT.report {pre : Cif → Prop} {post : Unit → Cif → Prop} {ab : Cif → Prop} (code : Code) (line col : Nat)
    (h1 : ∀ c, pre c → post () c) (h2 : ∀ c, pre c → ab c) : HT pre (Parser.report code line col) post ab := by
  constructor
  intro pol w hp
  by_cases h : pol w.log.length ⟨code, line, col⟩ = 0
  · rw [report_zero code line col pol w h]; exact h1 _ hp
  · rw [report_nonzero code line col pol w h]; exact h2 _ hp

theorem HT.getCif {pre : Cif → Prop} {post : Cif → Cif → Prop} {ab : Cif → Prop} (h : ∀ c, pre c → post c c) :
    HT pre Parser.getCif post ab := ⟨fun _ w hp => h _ hp⟩

theorem HT.setCif {pre : Cif → Prop} {post : Unit → Cif → Prop} {ab : Cif → Prop} (c' : Cif) (h : ∀ c, pre c → post () c') :
    HT pre (Parser.setCif c') post ab := ⟨fun _ w hp => h _ hp⟩

theorem HT.liftL {α} {pre : Cif → Prop} {post : α → Cif → Prop} {ab : Cif → Prop} (m : L α) (h1 : ∀ a c, pre c → post a c)
    (h2 : ∀ c, pre c → ab c) : HT pre (Parser.liftL m) post ab := by
  constructor
  intro pol w hp
  simp only [Parser.liftL]
  cases m pol w.log with
  | ok a l => exact h1 _ _ hp
  | abort rv l => exact h2 _ hp

theorem HT.pull {α} {R : Cif → Prop} {p : Prop} {post : α → Cif → Prop} {ab : Cif → Prop} {m : P α} (h : p → HT R m post ab) :
    HT (fun c => R c ∧ p) m post ab :=
  ⟨fun pol w hw => (h hw.2).run pol w hw.1⟩

/-! ### actions that maintain one predicate -/

theorem Pres.pure {α} (I : Cif → Prop) (a : α) : Pres I (P.pure a) := HT.pure a (fun _ h => h)
theorem Pres.fail {α} (I : Cif → Prop) (code : Int) : Pres I (Parser.fail code : P α) := HT.fail code (fun _ h => h)
theorem Pres.report (I : Cif → Prop) (code : Code) (line col : Nat) : Pres I (Parser.report code line col) :=
  HT.report code line col (fun _ h => h) (fun _ h => h)
theorem Pres.getCif (I : Cif → Prop) : Pres I Parser.getCif := HT.getCif (fun _ h => h)
theorem Pres.liftL {α} (I : Cif → Prop) (m : L α) : Pres I (Parser.liftL m) := HT.liftL m (fun _ _ h => h) (fun _ h => h)
theorem Pres.bind {α β} {I : Cif → Prop} {m : P α} {f : α → P β} (hm : Pres I m) (hf : ∀ a, Pres I (f a)) : Pres I (P.bind m f) :=
  HT.bind hm hf
theorem Pres.ite {α} {I : Cif → Prop} {c : Prop} [Decidable c] {a b : P α} (ha : Pres I a) (hb : Pres I b) :
    Pres I (if c then a else b) := by
  split <;> assumption

/-- `presq [h₁, …]`: decompose a production into the closure lemmas, closing goals with the given facts -/
syntax "presq" "[" term,* "]" : tactic
macro_rules
  | `(tactic| presq [$hs,*]) => `(tactic| repeat (first
      | exact Pres.pure _ _
      | exact Pres.fail _ _
      | exact Pres.getCif _
      | exact Pres.report _ _ _ _
      | exact Pres.liftL _ _
      | (first $[| exact $hs ..]*)
      | apply Pres.bind
      | apply Pres.ite
      | intro _
      | split))

/-! ### the store operations -/

theorem setValue_pres (o : Opts) (path : Path) (name : Str) (v : V) : Pres (OkCif o) (setValue o path name v) := by
  constructor
  intro pol w hw
  unfold setValue
  by_cases hv : isValidName true name = true
  · simp only [hv, Bool.not_true, Bool.false_eq_true, if_false, bind_eq, pure_eq, P.bind, P.pure, Parser.getCif, Parser.setCif]
    apply updIn_okCif o _ (fun c => by split <;> rfl) path w.cif hw
    intro c _ hc
    exact okC_setValue o name v c hc
  · simp [hv, P.bind, Parser.fail]
    exact hw

/-- the invariant while the packets of a loop are read: the loop being filled is the last one of its container and not the scalar
    loop -/
def IL (o : Opts) (loopAt : Option Path) (cif : Cif) : Prop :=
  OkCif o cif ∧ ∀ path, loopAt = some path → ∀ c, getIn o.norm path cif = some c → lastPlain c.loops

theorem addPacket_pres (o : Opts) (loopAt : Option Path) (p : List V) : Pres (IL o loopAt) (addPacket o loopAt p) := by
  constructor
  intro pol w hw
  cases loopAt with
  | none => simpa [addPacket, P.pure] using hw
  | some path =>
    simp only [addPacket, bind_eq, P.bind, Parser.getCif, Parser.setCif]
    have hf : ∀ c : Container, (Container.mk c.code c.frames (addPacketLast c.loops p)).code = c.code := fun c => rfl
    refine ⟨?_, ?_⟩
    · apply updIn_okCif o _ hf path w.cif hw.1
      intro c hg hc
      obtain ⟨code, fs, ls⟩ := c
      rw [OkC_mk] at hc
      simp only [Container.code, Container.frames, Container.loops]
      rw [OkC_mk]
      exact ⟨(loopsOk_addPacketLast o ls p hc.1 (hw.2 path rfl _ hg)).1, hc.2⟩
    · intro path' hp c' hg
      cases hp
      rw [getIn_updIn o _ hf] at hg
      cases hg0 : getIn o.norm path w.cif with
      | none => rw [hg0] at hg; cases hg
      | some c =>
        rw [hg0] at hg
        simp only [Option.map_some, Option.some.injEq] at hg
        subst hg
        exact lastPlain_addPacketLast _ p (hw.2 path rfl _ hg0)

/-! ### the productions -/

theorem nextTok_pres (I : Cif → Prop) (o : Opts) (s : PS) : Pres I (nextTok o s) := by
  unfold nextTok
  simp only [bind_eq, pure_eq]
  presq []

theorem itemExists_pres (I : Cif → Prop) (o : Opts) (path : Path) (name : Str) : Pres I (itemExists o path name) := by
  unfold itemExists
  simp only [bind_eq, pure_eq]
  presq []

section Productions
attribute [local irreducible] parseValue listLoop tableLoop tableEntry nextTok P.bind P.pure Parser.report Parser.fail
  headerLoop packetsLoop parseContainer elemsLoop blocksLoop

theorem values_pres (I : Cif → Prop) (o : Opts) : ∀ fuel : Nat,
    (∀ s, Pres I (parseValue o fuel s)) ∧ (∀ s acc, Pres I (listLoop o fuel s acc)) ∧
    (∀ s acc, Pres I (tableLoop o fuel s acc)) ∧ (∀ s acc key, Pres I (tableEntry o fuel s acc key)) := by
  intro fuel
  induction fuel with
  | zero =>
    refine ⟨?_, ?_, ?_, ?_⟩ <;> intros
    · rw [parseValue]; exact Pres.fail _ _
    · rw [listLoop]; exact Pres.fail _ _
    · rw [tableLoop]; exact Pres.fail _ _
    · rename_i key; cases key <;> rw [tableEntry] <;> exact Pres.fail _ _
  | succ fuel ih =>
    obtain ⟨hv, hl, ht, he⟩ := ih
    have hn := nextTok_pres I o
    refine ⟨?_, ?_, ?_, ?_⟩
    · intro s
      rw [parseValue]
      simp only [bind_eq, pure_eq]
      presq [hv, hl, ht, he, hn]
    · intro s acc
      rw [listLoop]
      simp only [bind_eq, pure_eq]
      presq [hv, hl, ht, he, hn]
    · intro s acc
      rw [tableLoop]
      simp only [bind_eq, pure_eq]
      presq [hv, hl, ht, he, hn]
    · intro s acc key
      cases key <;> rw [tableEntry] <;> simp only [bind_eq] <;> presq [hv, hl, ht, he, hn]

theorem parseValue_pres (I : Cif → Prop) (o : Opts) (fuel : Nat) (s : PS) : Pres I (parseValue o fuel s) :=
  (values_pres I o fuel).1 s

theorem parseItem_pres (o : Opts) (fuel : Nat) (s : PS) (cont : Option Path) (name : Option Str) :
    Pres (OkCif o) (parseItem o fuel s cont name) := by
  unfold parseItem
  simp only [bind_eq, pure_eq]
  have hn := nextTok_pres (OkCif o) o
  have hv := parseValue_pres (OkCif o) o
  have hs := setValue_pres o
  presq [hn, hv, hs]

theorem headerLoop_pres (I : Cif → Prop) (o : Opts) (cont : Option Path) : ∀ (fuel : Nat) (s : PS) (slots : List (Option Str)),
    Pres I (headerLoop o cont fuel s slots) := by
  intro fuel
  induction fuel with
  | zero => intro s slots; rw [headerLoop]; exact Pres.fail _ _
  | succ fuel ih =>
    intro s slots
    rw [headerLoop]
    simp only [bind_eq, pure_eq]
    have hn := nextTok_pres I o
    have hi := itemExists_pres I o
    presq [hn, hi, ih]

theorem packetsLoop_pres (o : Opts) (loopAt : Option Path) (slots : List (Option Str)) : ∀ (fuel : Nat) (s : PS) (k : Pk),
    Pres (IL o loopAt) (packetsLoop o loopAt slots fuel s k) := by
  intro fuel
  induction fuel with
  | zero => intro s k; rw [packetsLoop]; exact Pres.fail _ _
  | succ fuel ih =>
    intro s k
    rw [packetsLoop]
    simp only [bind_eq, pure_eq]
    have hn := nextTok_pres (IL o loopAt) o
    have hv := parseValue_pres (IL o loopAt) o
    have ha := addPacket_pres o loopAt
    presq [hn, hv, ha, ih]

theorem HT.dead {α} {post : α → Cif → Prop} {ab : Cif → Prop} (m : P α) : HT (fun _ => False) m post ab :=
  ⟨fun _ _ h => h.elim⟩

theorem HT.failThen {α β} {pre : Cif → Prop} {post : β → Cif → Prop} {ab : Cif → Prop} (code : Int) (f : α → P β)
    (h : ∀ c, pre c → ab c) : HT pre (P.bind (Parser.fail code : P α) f) post ab :=
  HT.bind (mid := fun _ _ => False) (HT.fail code h) (fun _ => HT.dead _)

theorem parseLoop_pres (o : Opts) (fuel : Nat) (s : PS) (cont : Option Path) : Pres (OkCif o) (parseLoop o fuel s cont) := by
  unfold parseLoop
  simp only [bind_eq, pure_eq]
  apply HT.bind (headerLoop_pres (OkCif o) o cont fuel s [])
  rintro ⟨slots, s1⟩
  simp only []
  have hpk := packetsLoop_pres o
  have hrest : ∀ (la : Option Path) (m : P PS), Pres (IL o la) m → HT (IL o la) m (fun _ => OkCif o) (OkCif o) :=
    fun la m h => h.conseq (fun _ h => h) (fun _ _ h => h.1) (fun _ h => h.1)
  have hnone : ∀ c, OkCif o c → IL o none c := fun c h => ⟨h, fun path hp => by cases hp⟩
  split
  · presq []
  · split
    · apply HT.bind (mid := fun la c => IL o la c) (HT.pure _ hnone)
      intro la
      apply hrest
      presq [hpk]
    · rename_i path
      split
      · apply HT.bind (mid := fun la c => IL o la c) (HT.pure _ hnone)
        intro la
        apply hrest
        presq [hpk]
      · split
        · exact HT.failThen _ _ (fun _ h => h)
        · apply HT.bind (mid := fun cif c => OkCif o c ∧ cif = c) (HT.getCif (fun c h => ⟨h, rfl⟩))
          intro cif
          have hcreate : ∀ (k : Option Path → P PS), (∀ la, Pres (IL o la) (k la)) →
              (∀ cc, getIn o.norm path cif = some cc →
                (((List.filterMap id slots).any fun n => hasItem o.norm cc (o.norm n)) ||
                  hasDup (List.map o.norm (List.filterMap id slots))) = false) →
              HT (fun c => OkCif o c ∧ cif = c)
                ((Parser.setCif (updIn o.norm (fun c => Container.mk c.code c.frames
                    (c.loops ++ [{ category := none, names := List.filterMap id slots, packets := [] }])) path cif)).bind
                  fun _ => (P.pure (some path)).bind k) (fun _ => OkCif o) (OkCif o) := by
            intro k hk hcl
            apply HT.bind (mid := fun _ c => IL o (some path) c)
            · apply HT.setCif
              rintro c ⟨hok, rfl⟩
              have hf : ∀ c : Container, (Container.mk c.code c.frames
                  (c.loops ++ [{ category := none, names := List.filterMap id slots, packets := [] }])).code = c.code := fun c => rfl
              refine ⟨?_, ?_⟩
              · apply updIn_okCif o _ hf path cif hok
                intro cc hg hcc
                have hcl' := hcl cc hg
                obtain ⟨code, fs, ls⟩ := cc
                rw [OkC_mk] at hcc
                simp only [Container.code, Container.frames, Container.loops]
                rw [OkC_mk]
                exact ⟨(loopsOk_newLoop o code fs ls _ hcc.1 hcl').1, hcc.2⟩
              · intro path' hp c' hg
                cases hp
                rw [getIn_updIn o _ hf] at hg
                cases hg0 : getIn o.norm path cif with
                | none => rw [hg0] at hg; cases hg
                | some cc =>
                  rw [hg0] at hg
                  simp only [Option.map_some, Option.some.injEq] at hg
                  subst hg
                  exact ⟨{ category := none, names := List.filterMap id slots, packets := [] }, by simp [Container.loops], rfl⟩
            · intro _
              apply HT.bind (mid := fun la c => IL o la c) (HT.pure _ (fun c h => h))
              intro la
              exact hrest la _ (hk la)
          split
          · rename_i hg
            simp only [Bool.false_eq_true, if_false]
            exact hcreate _ (fun la => by presq [hpk]) (fun cc h => by rw [hg] at h; cases h)
          · rename_i cc hg
            split
            · exact HT.failThen _ _ (fun _ h => h.1)
            · rename_i hcl
              exact hcreate _ (fun la => by presq [hpk]) (fun cc' h => by rw [hg] at h; cases h; simpa using hcl)

theorem createIn_pres (o : Opts) (isBlock : Bool) (parent : Path) (code : Str) (line col : Nat) :
    Pres (OkCif o) (createIn o isBlock parent code line col) := by
  unfold createIn
  simp only [bind_eq, pure_eq]
  apply HT.bind (mid := fun cif c => OkCif o c ∧ cif = c) (HT.getCif (fun c h => ⟨h, rfl⟩))
  intro cif
  have hrep : ∀ (m : P Unit), Pres (fun c => OkCif o c ∧ cif = c) m → ∀ a : Path, HT (fun c => OkCif o c ∧ cif = c)
      (P.bind m fun _ => P.pure a) (fun _ => OkCif o) (OkCif o) :=
    fun m h a => HT.bind (h.conseq (fun _ h => h) (fun _ _ h => h) (fun _ h => h.1)) (fun _ => HT.pure _ (fun _ h => h.1))
  have hrep' : ∀ (code : Code) (line col : Nat), HT (fun c => OkCif o c ∧ cif = c) (Parser.report code line col)
      (fun _ c => OkCif o c ∧ cif = c) (OkCif o) :=
    fun code line col => (Pres.report (fun c => OkCif o c ∧ cif = c) code line col).conseq (fun _ h => h) (fun _ _ h => h) (fun _ h => h.1)
  cases isBlock <;> simp only [Bool.false_eq_true, if_false, if_true]
  · -- a save frame
    have hadd : ((Option.map Container.frames (getIn o.norm parent cif)).getD []).any (codeIs o.norm (o.norm code)) ≠ true →
        HT (fun c => OkCif o c ∧ cif = c)
        (Parser.setCif (updIn o.norm (fun c => Container.mk c.code (c.frames ++ [Container.mk code [] []]) c.loops) parent cif))
        (fun _ => OkCif o) (OkCif o) := by
      intro hx
      apply HT.setCif
      rintro c ⟨hok, rfl⟩
      apply updIn_okCif o (fun c => Container.mk c.code (c.frames ++ [Container.mk code [] []]) c.loops) (fun c => rfl) parent cif hok
      intro cc hg hcc
      apply okC_newFrame o code cc hcc
      simp only [hg, Option.map_some, Option.getD_some] at hx
      simpa using hx
    split
    · apply HT.bind (mid := fun _ c => OkCif o c ∧ cif = c) (hrep' _ _ _)
      intro _
      split
      · exact hrep _ (Pres.report _ _ _ _) _
      · rename_i hx
        exact HT.bind (hadd hx) (fun _ => HT.pure _ (fun _ h => h))
    · split
      · exact hrep _ (Pres.report _ _ _ _) _
      · rename_i hx
        exact HT.bind (hadd hx) (fun _ => HT.pure _ (fun _ h => h))
  · -- a data block
    have hadd : cif.any (codeIs o.norm (o.norm code)) ≠ true →
        HT (fun c => OkCif o c ∧ cif = c) (Parser.setCif (cif ++ [Container.mk code [] []])) (fun _ => OkCif o) (OkCif o) := by
      intro hx
      apply HT.setCif
      rintro c ⟨hok, rfl⟩
      exact okCif_newBlock o code cif hok (by simpa using hx)
    split
    · apply HT.bind (mid := fun _ c => OkCif o c ∧ cif = c) (hrep' _ _ _)
      intro _
      split
      · exact hrep _ (Pres.report _ _ _ _) _
      · rename_i hx
        exact HT.bind (hadd hx) (fun _ => HT.pure _ (fun _ h => h))
    · split
      · exact hrep _ (Pres.report _ _ _ _) _
      · rename_i hx
        exact HT.bind (hadd hx) (fun _ => HT.pure _ (fun _ h => h))

/-- the pruning at the end of parse_container -/
theorem prune_pres (o : Opts) (path : Path) (s : PS) :
    Pres (OkCif o) (P.bind Parser.getCif fun cif => P.bind (Parser.setCif (updIn o.norm pruneC path cif)) fun _ => P.pure s) := by
  apply HT.bind (mid := fun cif c => OkCif o c ∧ cif = c) (HT.getCif (fun c h => ⟨h, rfl⟩))
  intro cif
  apply HT.bind (mid := fun _ c => OkCif o c)
  · apply HT.setCif
    rintro c ⟨hok, rfl⟩
    apply updIn_okCif o pruneC (fun c => by cases c; rfl) path cif hok
    intro cc _ hcc
    exact okC_prune o cc hcc
  · intro _
    exact HT.pure _ (fun _ h => h)

theorem containers_pres (o : Opts) : ∀ fuel : Nat,
    (∀ s cont isBlock, Pres (OkCif o) (parseContainer o fuel s cont isBlock)) ∧
    (∀ s cont isBlock, Pres (OkCif o) (elemsLoop o fuel s cont isBlock)) := by
  intro fuel
  induction fuel with
  | zero =>
    refine ⟨?_, ?_⟩ <;> intros
    · rw [parseContainer]; exact Pres.fail _ _
    · rw [elemsLoop]; exact Pres.fail _ _
  | succ fuel ih =>
    obtain ⟨hc, he⟩ := ih
    have hn := nextTok_pres (OkCif o) o
    have hi := itemExists_pres (OkCif o) o
    have hp := parseItem_pres o
    have hl := parseLoop_pres o
    have hk := createIn_pres o
    have hpr := prune_pres o
    refine ⟨?_, ?_⟩
    · intro s cont isBlock
      rw [parseContainer]
      simp only [bind_eq, pure_eq]
      presq [hpr, hc, he, hn, hi, hp, hl, hk]
    · intro s cont isBlock
      rw [elemsLoop]
      simp only [bind_eq, pure_eq]
      presq [hpr, hc, he, hn, hi, hp, hl, hk]

/-- the anonymous block of parse_cif's recovery from CIF_NO_BLOCK_HEADER -/
theorem anon_pres {β} (o : Opts) (K : P β) (hK : Pres (OkCif o) K) :
    Pres (OkCif o) (P.bind Parser.getCif fun cif =>
      if cif.any (codeIs o.norm (o.norm [])) = true then K
      else P.bind (Parser.setCif (cif ++ [Container.mk [] [] []])) fun _ => K) := by
  apply HT.bind (mid := fun cif c => OkCif o c ∧ cif = c) (HT.getCif (fun c h => ⟨h, rfl⟩))
  intro cif
  split
  · exact hK.conseq (fun _ h => h.1) (fun _ _ h => h) (fun _ h => h)
  · rename_i hx
    apply HT.bind (mid := fun _ c => OkCif o c)
    · apply HT.setCif
      rintro c ⟨hok, rfl⟩
      exact okCif_newBlock o [] cif hok (by simpa using hx)
    · intro _
      exact hK

theorem blocksLoop_pres (o : Opts) : ∀ (fuel : Nat) (s : PS), Pres (OkCif o) (blocksLoop o fuel s) := by
  intro fuel
  induction fuel with
  | zero => intro s; rw [blocksLoop]; exact Pres.fail _ _
  | succ fuel ih =>
    intro s
    rw [blocksLoop]
    simp only [bind_eq, pure_eq]
    have hn := nextTok_pres (OkCif o) o
    have hk := createIn_pres o
    have hc := (containers_pres o fuel).1
    apply Pres.bind (hn s)
    intro a
    split
    · presq [hn, hk, hc, ih]
    · presq [hn, hk, hc, ih]
    · apply Pres.bind (Pres.report _ _ _ _)
      intro _
      split
      · apply anon_pres
        presq [hc, ih]
      · presq [hc, ih]

end Productions

/-! ### the whole parse -/

theorem clamp_pres (I : Cif → Prop) (m : P Unit) (h : Pres I m) : Pres I (Parser.clamp m) := by
  constructor
  intro pol w hw
  have h1 := h.run pol w hw
  cases hA : m pol w with
  | ok a w1 => rw [hA] at h1; simpa [Parser.clamp, hA] using h1
  | abort c w1 =>
    rw [hA] at h1
    simp only [] at h1
    by_cases hc : c > 0
    · simp only [Parser.clamp, hA, hc, if_true]; exact h1
    · simp only [Parser.clamp, hA, hc, if_false]; exact h1

theorem parseCif_pres (o : Opts) (fuel : Nat) (s : PS) : Pres (OkCif o) (parseCif o fuel s) := by
  unfold parseCif
  simp only [bind_eq, pure_eq]
  exact clamp_pres _ _ (Pres.bind (blocksLoop_pres o fuel s) (fun _ => Pres.pure _ _))

theorem afterFirst_pres (o : Opts) (fuel : Nat) (c : CU) (rest : Str) : Pres (OkCif o) (afterFirst o fuel c rest) := by
  unfold afterFirst
  simp only [bind_eq, pure_eq]
  have hp := parseCif_pres o fuel
  presq [hp]

theorem ask_pres (I : Cif → Prop) (code : Code) (line col : Nat) : Pres I (Parser.ask code line col) :=
  ⟨fun _ _ hw => hw⟩

theorem parseInternal_pres (o : Opts) (fuel : Nat) (units : Str) : Pres (OkCif o) (parseInternal o fuel units) := by
  cases units with
  | nil => exact Pres.pure _ _
  | cons c rest =>
    simp only [parseInternal]
    have ha := afterFirst_pres o fuel
    have hk := ask_pres (OkCif o)
    presq [ha, hk]

/-- the target CIF is consistent after every parse — completed, stopped by the callback, or left through one of the parser's own
    failure exits -/
theorem parse_ok (o : Opts) (pol : Policy) (pre : Cif) (units : Str) (h : OkCif o pre) : OkCif o (parse o pol pre units).cif := by
  have h1 := (parseInternal_pres o (fuelFor units) units).run pol { log := [], cif := pre } h
  unfold parse run
  cases hA : parseInternal o (fuelFor units) units pol { log := [], cif := pre } with
  | ok a w => rw [hA] at h1; exact h1
  | abort c w => rw [hA] at h1; exact h1

end CifModel.Model.Parser
