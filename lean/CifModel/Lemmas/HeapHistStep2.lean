import CifModel.Lemmas.HeapHistStep
import CifModel.Lemmas.HeapHistList
/-
  Lemmas for operation histories on the heap, part 4b: one-step simulation for list insert / remove and for packet
  creation / release.
-/
namespace CifModel.Model.Hist
open CifModel CifModel.Model.Heap
open CifModel.Model.Value (Step Entry resolve update child setChild defaultOf mapFind mapSet mapReplace mapErase insertAt removeAt
  getAt setAt)

section
variable {s : HState} {p : PState} {F : Root → List Nat}

/-- the source argument of a container operation: NULL, or the address of a represented object -/
theorem src_sim {T : List Nat} (inv : RepS T s p F) (fuel : Nat) (hf : Fits fuel p) (src : Option Ref) :
    (srcP p src = none ∧ srcH s src = none)
    ∨ ∃ x xa, srcP p src = some x ∧ srcH s src = some xa ∧ SrcRep s.h fuel xa x := by
  cases src with
  | none => exact Or.inr ⟨none, none, rfl, rfl, trivial⟩
  | some r =>
    unfold srcP srcH
    by_cases hv : r.isVal = true
    · simp only [hv, if_true]
      cases hg : getP p r with
      | none => rw [inv.atNone r hg]; exact Or.inl ⟨rfl, rfl⟩
      | some sv =>
        obtain ⟨sa, hs', Fs, hres, _, _, hfs, hreps, _, hFs, _⟩ := inv.atVal r hv sv hg
        rw [hres]
        exact Or.inr ⟨some sv, some sa, rfl, rfl, hs', Fs, hfs, hreps, hFs, hf.getP hg⟩
    · simp only [hv]; exact Or.inl ⟨rfl, rfl⟩

theorem step_lins (inv : RepS [] s p F) (fuel : Nat) (hf : Fits fuel p) (r : Ref) (i : Nat) (src : Option Ref) :
    Sim [] (stepH? fuel s (.lins r i src)) (stepP? p (.lins r i src)) := by
  simp only [stepH?, stepP?]
  by_cases hv : r.isVal = true
  · simp only [hv, if_true]
    cases hg : getP p r with
    | none => rw [inv.atNone r hg]; exact Sim.none
    | some c =>
      obtain ⟨t, hvt, Ft, hres, hgt, hvalt, _, hrept, htF, hFt, hk⟩ := inv.atVal r hv c hg
      rw [hres]
      rcases src_sim inv fuel hf src with ⟨h1, h2⟩ | ⟨x, xa, h1, h2, hsr⟩
      · rw [h1, h2]
        cases c <;> exact Sim.none
      · rw [h1, h2]
        simp only [hgt]
        by_cases hl : ∃ vs, c = .lst vs
        · obtain ⟨vs, rfl⟩ := hl
          obtain ⟨elems, size, rfl, hsz⟩ := Rep_lst hrept
          simp only [hsz]
          by_cases hi : i ≤ vs.length
          · simp only [hi, if_true]
            rw [listInsertAddrH_eq s.h inv.wf _ i xa x fuel hsr]
            have hrn := Rep_lst_norm hrept
            rw [hsz] at hrn
            obtain ⟨hv', h1', h2', F', hop, hput, U⟩ := listInsertPut_spec s.h inv.wf t _ vs Ft i x hvalt
              (getHV_lt inv.wf hgt) hrn htF hFt hi
            obtain ⟨p', F'', hputP, inv'⟩ := hk h2' hv' _ F' [] U
            rw [hop]
            simp only [hput, Option.map_some]
            rw [Value.insertAt_eq _ _ _ hi, hputP]
            exact Sim.mk (inv'.congrT (fun a => by simp))
          · simp only [hi]; exact Sim.none
        · have hn : ∀ vs, c ≠ .lst vs := fun vs e => hl ⟨vs, e⟩
          have hn' := Rep_not_lst hrept hn
          cases c <;> first | exact absurd rfl (hn _) | (cases hvt <;> first | exact absurd rfl (hn' _ _) | exact Sim.none)
  · simp only [hv]; exact Sim.none

theorem step_lrem (inv : RepS [] s p F) (fuel : Nat) (hf : Fits fuel p) (r : Ref) (i : Nat) (dst : Option Nat) :
    Sim [] (stepH? fuel s (.lrem r i dst)) (stepP? p (.lrem r i dst)) := by
  simp only [stepH?, stepP?]
  by_cases hv : r.isVal = true
  · simp only [hv, if_true]
    cases hg : getP p r with
    | none => rw [inv.atNone r hg]; exact Sim.none
    | some c =>
      obtain ⟨t, hvt, Ft, hres, hgt, hvalt, _, hrept, htF, hFt, hk⟩ := inv.atVal r hv c hg
      rw [hres]
      simp only [hgt]
      by_cases hl : ∃ vs, c = .lst vs
      · obtain ⟨vs, rfl⟩ := hl
        obtain ⟨elems, size, rfl, hsz⟩ := Rep_lst hrept
        simp only [hsz, Value.getAt_eq]
        by_cases hi : i < vs.length
        · simp only [hi, if_true]
          cases dst with
          | none =>
            obtain ⟨hv', h1', h2', F', hop, hput, U⟩ := listRemovePut_free_spec s.h inv.wf t _ vs Ft i fuel hvalt
              (getHV_lt inv.wf hgt) hrept htF hFt hi (hf.getP hg)
            obtain ⟨p', F'', hputP, inv'⟩ := hk h2' hv' _ F' [] U
            have hvi : vs[i]? = some vs[i] := List.getElem?_eq_getElem hi
            simp only [Option.isSome_none, hop, hput, hvi, Value.removeAt_eq, hputP]
            exact Sim.mk (inv'.congrT (fun a => by simp))
          | some k =>
            obtain ⟨hv', x, h1', h2', v, hvx, Fx, F', hop, hput, hvi, hcx, hrepx, hxF, U⟩ :=
              listRemovePut_toCaller_spec s.h inv.wf t _ vs Ft i fuel hvalt (getHV_lt inv.wf hgt) hrept htF hFt hi
            obtain ⟨p', F'', hputP, inv'⟩ := hk h2' hv' _ F' (x :: Fx) U
            simp only [Option.isSome_some, hop, hput, hvi, Value.removeAt_eq, hputP]
            have hsl := inv'.slot_iff (.val k)
            simp only [] at hsl
            rw [← hsl]
            by_cases hc : ((Root.val k).ok && (s.slot (.val k)).isNone) = true
            · simp only [hc, if_true]
              simp only [Bool.and_eq_true, Option.isNone_iff_eq_none] at hc
              have inv2 : RepS (x :: Fx) ⟨h2', s.slot⟩ p' F'' := inv'.congrT (fun a => by simp)
              exact Sim.mk (inv2.adopt (.val k) hc.1 hc.2 x v (x :: Fx)
                ⟨hvx, Fx, by simp [getHV, hcx], by simp [shellOK, hcx], hrepx, hxF, fun a => List.mem_cons⟩ (fun a => Iff.rfl))
            · simp only [hc]; exact Sim.none
        · have hvi : vs[i]? = none := by simp; omega
          simp only [hi, hvi]; exact Sim.none
      · have hn : ∀ vs, c ≠ .lst vs := fun vs e => hl ⟨vs, e⟩
        have hn' := Rep_not_lst hrept hn
        cases c <;> first | exact absurd rfl (hn _) | (cases hvt <;> first | exact absurd rfl (hn' _ _) | exact Sim.none)
  · simp only [hv]; exact Sim.none

/-! ### packets -/

theorem step_pnew (inv : RepS [] s p F) (fuel : Nat) (i : Nat) (names : List (Str × Option Str)) :
    Sim [] (stepH? fuel s (.pnew i names)) (stepP? p (.pnew i names)) := by
  simp only [stepH?, stepP?, ← inv.slot_iff]
  by_cases hc : ((Root.pkt i).ok && (s.slot (.pkt i)).isNone) = true
  · simp only [hc, if_true]
    simp only [Bool.and_eq_true, Option.isNone_iff_eq_none] at hc
    cases hn : emptyNames names with
    | none => exact Sim.none
    | some ns =>
      simp only []
      obtain ⟨hgood, hdup⟩ := packetCreateH_spec s.h inv.wf ns
      by_cases hnd : (ns.map (·.2)).Nodup
      · obtain ⟨pa, ents, h', Fp, hop, hp, hrep, hw', hfr, hpF, hpge, hrange, hlive⟩ := hgood hnd
        have hplt : pa < h'.next := lt_of_cell hw' hp
        simp only [hop, hnd, if_true]
        refine Sim.mk (inv.addRoot (.pkt i) hc.1 hc.2 h' pa _ (pa :: Fp) hw' (by omega) hfr ?_ ?_ ?_)
        · exact ⟨.tbl ents, Fp, by simp [getHV, hp], by simp [shellOK, hp], by simp only [Rep]; exact ⟨ents, rfl, hrep⟩, hpF,
            fun a => List.mem_cons⟩
        · intro x hx
          rcases List.mem_cons.mp hx with rfl | hx
          · exact ⟨hpge, hplt⟩
          · exact hrange x hx
        · intro x hge hl
          rcases hlive x hge hl with hh | hh
          · subst hh; exact List.mem_cons_self
          · exact List.mem_cons_of_mem _ hh
      · obtain ⟨h', hop, _⟩ := hdup hnd
        simp only [hop, hnd]
        exact Sim.none
  · simp only [hc]; exact Sim.none

theorem step_pfree (inv : RepS [] s p F) (fuel : Nat) (hf : Fits fuel p) (i : Nat) :
    Sim [] (stepH? fuel s (.pfree i)) (stepP? p (.pfree i)) := by
  simp only [stepH?, stepP?]
  cases hs : s.slot (.pkt i) with
  | none => rw [(inv.emptySlot _ hs).1]; exact Sim.none
  | some a =>
    obtain ⟨v, hp, hroot⟩ := inv.fullSlot _ a hs
    rw [hp]
    obtain ⟨hv, F0, hg, hsh, hrep, haF, hG⟩ := hroot
    cases hc : s.h.cell a with
    | none => rw [hc] at hsh; simp [shellOK] at hsh
    | some c =>
      rw [hc] at hsh
      cases c <;> simp [shellOK] at hsh
      rename_i ents sa
      have hhv : hv = .tbl ents := by
        unfold getHV at hg; rw [hc] at hg; simp at hg; exact hg.symm
      subst hhv
      cases v with
      | tbl es =>
        obtain ⟨ents', he, hen⟩ := Rep_tbl hrep
        cases he
        have hfuel : needEntries es + 1 ≤ fuel := by
          have := hf _ _ hp
          simp only [need] at this; omega
        obtain ⟨h1, hfe, c1⟩ := freeEntries_spec es s.h ents F0 fuel hen hfuel
        have hp1 : h1.cell a = some (.pkt ents sa) := by rw [c1.2 a, if_neg haF, hc]
        obtain ⟨h2, hf2, c2⟩ := Cleared.free h1 a _ hp1
        have hop : packetFreeH fuel s.h a = some h2 := by simp [packetFreeH, Heap.read, hc, hfe, hf2]
        simp only [hop, Option.map_some]
        exact Sim.mk (inv.dropRoot (.pkt i) h2 (F0 ++ [a]) (c1.trans c2) (fun x => by rw [hG x]; simp [or_comm]))
      | unk => simp [Rep] at hrep
      | na => simp [Rep] at hrep
      | chr q t => simp [Rep] at hrep
      | numb q t neg d su sc =>
        simp only [Rep] at hrep
        obtain ⟨_, _, _, _, _, hrest⟩ := hrep
        rcases hrest with ⟨_, h1, _⟩ | ⟨_, _, _, _, _, _, h1, _⟩ <;> cases h1
      | lst vs =>
        simp only [Rep] at hrep
        rcases hrep with ⟨_, n, h1, _⟩ | ⟨_, _, _, _, h1, _⟩ <;> cases h1

end

end CifModel.Model.Hist
