import CifModel.Lemmas.HeapHistOps
/-
  Lemmas for operation histories on the heap, part 3b: list insert / remove on the list object at an address
  (`ObjUpd` producers), and "every block of a footprint is live".
-/
namespace CifModel.Model.Hist
open CifModel CifModel.Model.Heap
open CifModel.Model.Value (Step Entry resolve update child setChild defaultOf)

/-! ### the blocks of a footprint are live -/

mutual
  theorem Rep_live (h : Heap) (v : V) (hv : HVal) (F : List Nat) (hr : Rep h hv v F) :
      ∀ a, a ∈ F → (h.cell a).isSome = true := by
    cases v with
    | unk => simp only [Rep] at hr; obtain ⟨_, rfl⟩ := hr; intro a ha; cases ha
    | na => simp only [Rep] at hr; obtain ⟨_, rfl⟩ := hr; intro a ha; cases ha
    | chr q t =>
      simp only [Rep] at hr
      obtain ⟨b, _, hb, rfl⟩ := hr
      intro a ha; simp at ha; subst ha; rw [hb]; rfl
    | numb q t neg d su sc =>
      simp only [Rep] at hr
      obtain ⟨b, c, _, hb, hc, hrest⟩ := hr
      rcases hrest with ⟨_, _, rfl⟩ | ⟨s', c', _, _, _, hc', _, rfl⟩
      · intro a ha; simp at ha; rcases ha with rfl | rfl
        · rw [hb]; rfl
        · rw [hc]; rfl
      · intro a ha; simp at ha; rcases ha with rfl | rfl | rfl
        · rw [hb]; rfl
        · rw [hc]; rfl
        · rw [hc']; rfl
    | lst vs =>
      simp only [Rep] at hr
      rcases hr with ⟨_, n, _, rfl⟩ | ⟨arr, xs, cap, F1, _, harr, _, hel, _, rfl⟩
      · intro a ha; cases ha
      · intro a ha
        rcases List.mem_append.mp ha with ha | ha
        · exact RepElems_live h vs xs F1 hel a ha
        · simp at ha; subst ha; rw [harr]; rfl
    | tbl es =>
      simp only [Rep] at hr
      obtain ⟨ents, _, hen⟩ := hr
      exact RepEntries_live h es ents F hen
  theorem RepElems_live (h : Heap) (vs : List V) (xs : List Nat) (F : List Nat) (hr : RepElems h xs vs F) :
      ∀ a, a ∈ F → (h.cell a).isSome = true := by
    cases vs with
    | nil => simp only [RepElems] at hr; obtain ⟨_, rfl⟩ := hr; intro a ha; cases ha
    | cons v vs =>
      simp only [RepElems] at hr
      obtain ⟨x, xs', hv, F1, F2, _, hx, hrep, hrest, _, _, rfl⟩ := hr
      intro a ha
      simp only [List.mem_append, List.mem_singleton] at ha
      rcases ha with (ha | ha) | ha
      · exact Rep_live h v hv F1 hrep a ha
      · subst ha; rw [hx]; rfl
      · exact RepElems_live h vs xs' F2 hrest a ha
  theorem RepEntries_live (h : Heap) (es : List (Str × Str × V)) (ents : List Nat) (F : List Nat)
      (hr : RepEntries h ents es F) : ∀ a, a ∈ F → (h.cell a).isSome = true := by
    cases es with
    | nil => simp only [RepEntries] at hr; obtain ⟨_, rfl⟩ := hr; intro a ha; cases ha
    | cons e es =>
      obtain ⟨k, ko, v⟩ := e
      simp only [RepEntries] at hr
      obtain ⟨e, ents', hv, ka, koa, F1, F2, _, he, hka, hkoa, hrep, hrest, _, _, _, _, _, hF⟩ := hr
      intro a ha
      have : a = ka ∨ a = koa ∨ a ∈ F1 ∨ a = e ∨ a ∈ F2 := by
        rcases hF with ⟨_, _, rfl⟩ | ⟨_, _, rfl⟩ <;>
          simp only [List.cons_append, List.mem_cons, List.mem_append, List.mem_singleton, List.not_mem_nil, or_false] at ha
        · rcases ha with h1 | (h1 | h1) | h1
          · exact Or.inl h1
          · exact Or.inr (Or.inr (Or.inl h1))
          · exact Or.inr (Or.inr (Or.inr (Or.inl h1)))
          · exact Or.inr (Or.inr (Or.inr (Or.inr h1)))
        · rcases ha with h1 | h1 | (h1 | h1) | h1
          · exact Or.inl h1
          · exact Or.inr (Or.inl h1)
          · exact Or.inr (Or.inr (Or.inl h1))
          · exact Or.inr (Or.inr (Or.inr (Or.inl h1)))
          · exact Or.inr (Or.inr (Or.inr (Or.inr h1)))
      rcases this with rfl | rfl | h1 | rfl | h1
      · rw [hka]; rfl
      · rw [hkoa]; rfl
      · exact Rep_live h v hv F1 hrep a h1
      · rw [he]; rfl
      · exact RepEntries_live h es ents' F2 hrest a h1
end

/-! ### insert -/

theorem listInsertH_le (h : Heap) (hw : h.WF) (hv : HVal) (i : Nat) (x : Option V) (hv' : HVal) (h' : Heap)
    (hop : listInsertH h hv i x = some (hv', h')) : h.next ≤ h'.next := by
  unfold listInsertH at hop
  cases hv with
  | lst elems size =>
    simp only at hop
    split at hop
    · cases hop
    · generalize hb : buildNew h (x.getD .unk) = r at hop
      obtain ⟨c, h1⟩ := r
      have e1 := (buildNew_spec (x.getD .unk) h hw c h1 hb).1.le
      simp only at hop
      cases elems with
      | none =>
        simp only [alloc, Option.some.injEq, Prod.mk.injEq] at hop
        obtain ⟨_, rfl⟩ := hop
        simp only []; omega
      | some arr =>
        simp only at hop
        split at hop
        · rename_i xs cap hrd
          split at hop
          · simp only [alloc] at hop
            split at hop
            · cases hop
            · rename_i h3 hf
              simp only [Option.some.injEq, Prod.mk.injEq] at hop
              obtain ⟨_, rfl⟩ := hop
              have := free_next _ _ _ hf
              rw [this]; simp only []; omega
          · split at hop
            · cases hop
            · rename_i h2 hwr
              simp only [Option.some.injEq, Prod.mk.injEq] at hop
              obtain ⟨_, rfl⟩ := hop
              have := write_next _ _ _ _ hwr
              rw [this]; exact e1
        · cases hop
  | _ => simp at hop

/-- the list object with a size that is 0 while there is no element array -/
theorem Rep_lst_norm {h : Heap} {elems : Option Nat} {size : Nat} {vs : List V} {F : List Nat}
    (hr : Rep h (.lst elems size) (.lst vs) F) : Rep h (.lst elems (lstSize elems size)) (.lst vs) F := by
  cases elems with
  | some arr => exact hr
  | none =>
    simp only [Rep] at hr ⊢
    rcases hr with ⟨h1, n, _, h3⟩ | ⟨arr, xs, cap, F1, h1, _⟩
    · exact Or.inl ⟨h1, 0, rfl, h3⟩
    · cases h1

/-- `cif_value_insert_element_at` on the list object at `la` (the fields are stored back into the object) -/
theorem listInsertPut_spec (h : Heap) (hw : h.WF) (la : Nat) (hv : HVal) (vs : List V) (Ft : List Nat) (i : Nat) (x : Option V)
    (hval : IsValCell (h.cell la)) (hlt : la < h.next) (hr : Rep h hv (.lst vs) Ft) (htF : la ∉ Ft)
    (hF : ∀ a, a ∈ Ft → a < h.next) (hi : i ≤ vs.length) :
    ∃ hv' h1 h2 F', listInsertH h hv i x = some (hv', h1) ∧ putHV h1 la hv' = some h2
      ∧ ObjUpd h h2 la Ft hv' (.lst (vs.insertIdx i (x.getD .unk))) F' [] := by
  obtain ⟨hv', h1, F', hop, hrep, hw1, hlt1, hframe, hdrop, hown, hsub⟩ := listInsertH_spec h hv vs Ft i x hw hr hF hi
  have hle := listInsertH_le h hw hv i x hv' h1 hop
  have hc1 : h1.cell la = h.cell la := hframe la hlt htF
  obtain ⟨h2, hput, hn2, hg2, hsk2, hc2, hw2⟩ := putHV_spec h1 la hv' (by rw [hc1]; exact hval)
  have hlaF' : la ∉ F' := fun hm => by
    rcases hsub la hm with hh | hh
    · exact htF hh
    · omega
  refine ⟨hv', h1, h2, F', hop, hput, hw2 hw1, by rw [hn2]; exact hle, hg2, by rw [← hc1]; exact hsk2, ?_, ?_, ?_, ?_,
    fun x hx => by cases hx⟩
  · exact Rep_congr h1 h2 _ hv' F' (fun a ha => hc2 a (fun e => hlaF' (e ▸ ha))) hrep
  · intro a ha
    rcases hsub a ha with hh | hh
    · exact Or.inl hh
    · exact Or.inr ⟨hh, by rw [hn2]; exact hlt1 a ha⟩
  · intro a halt hnf hne; rw [hc2 a hne, hframe a halt hnf]
  · intro a hl
    by_cases hne : a = la
    · exact Or.inr (Or.inl hne)
    · rw [hc2 a hne] at hl
      by_cases halt : a < h.next
      · by_cases hm : a ∈ Ft
        · by_cases hm' : a ∈ F'
          · exact Or.inl hm'
          · rw [hdrop a hm hm'] at hl; cases hl
        · exact Or.inr (Or.inr (Or.inr ⟨halt, hm⟩))
      · exact Or.inl (hown a (by omega) (isSome_lt hw1 hl))

/-! ### remove -/

theorem WF_of_frame (h h' : Heap) (hw : h.WF) (hn : h'.next = h.next) (hfr : ∀ a, h.next ≤ a → h'.cell a = h.cell a) : h'.WF := by
  intro a ha
  rw [hn] at ha
  rw [hfr a ha]; exact hw a ha

/-- `cif_value_remove_element_at(list, i, &x)`: the element goes to the caller -/
theorem listRemovePut_toCaller_spec (h : Heap) (hw : h.WF) (la : Nat) (hv : HVal) (vs : List V) (Ft : List Nat) (i : Nat)
    (fuel : Nat) (hval : IsValCell (h.cell la)) (hlt : la < h.next) (hr : Rep h hv (.lst vs) Ft) (htF : la ∉ Ft)
    (hF : ∀ a, a ∈ Ft → a < h.next) (hi : i < vs.length) :
    ∃ hv' x h1 h2 v hvx Fx F', listRemoveH fuel h hv i true = some (hv', some x, h1) ∧ putHV h1 la hv' = some h2
      ∧ vs[i]? = some v ∧ h2.cell x = some (.val hvx) ∧ Rep h2 hvx v Fx ∧ x ∉ Fx
      ∧ ObjUpd h h2 la Ft hv' (.lst (vs.eraseIdx i)) F' (x :: Fx) := by
  obtain ⟨hv', x, h1, v, hvx, Fx, F', hrm, hvi, hrep', hx, hrepx, hxF, hdis, hmem, hn1, hframe⟩ :=
    listRemoveH_toCaller_spec fuel h hv vs Ft i hr hi
  have hw1 : h1.WF := WF_of_frame h h1 hw hn1 (fun a ha => hframe a (fun hm => by have := hF a hm; omega))
  have hc1 : h1.cell la = h.cell la := hframe la htF
  obtain ⟨h2, hput, hn2, hg2, hsk2, hc2, hw2⟩ := putHV_spec h1 la hv' (by rw [hc1]; exact hval)
  have hxFt : x ∈ Ft := (hmem x).mpr (Or.inr (Or.inr rfl))
  have hxla : x ≠ la := fun e => htF (e ▸ hxFt)
  have hFxFt : ∀ a, a ∈ Fx → a ∈ Ft := fun a ha => (hmem a).mpr (Or.inr (Or.inl ha))
  have hF'Ft : ∀ a, a ∈ F' → a ∈ Ft := fun a ha => (hmem a).mpr (Or.inl ha)
  have hne_of : ∀ a, a ∈ Ft → a ≠ la := fun a ha e => htF (e ▸ ha)
  have hrepx2 : Rep h2 hvx v Fx := Rep_congr h1 h2 v hvx Fx (fun a ha => hc2 a (hne_of a (hFxFt a ha))) hrepx
  refine ⟨hv', x, h1, h2, v, hvx, Fx, F', hrm, hput, hvi, by rw [hc2 x hxla]; exact hx, hrepx2, hxF,
    hw2 hw1, by rw [hn2, hn1]; exact Nat.le_refl _, hg2, by rw [← hc1]; exact hsk2, ?_, ?_, ?_, ?_, ?_⟩
  · exact Rep_congr h1 h2 _ hv' F' (fun a ha => hc2 a (hne_of a (hF'Ft a ha))) hrep'
  · intro a ha; exact Or.inl (hF'Ft a ha)
  · intro a _ hnf hne; rw [hc2 a hne, hframe a hnf]
  · intro a hl
    by_cases hne : a = la
    · exact Or.inr (Or.inl hne)
    · rw [hc2 a hne] at hl
      by_cases hm : a ∈ Ft
      · rcases (hmem a).mp hm with hh | hh | hh
        · exact Or.inl hh
        · exact Or.inr (Or.inr (Or.inl (List.mem_cons_of_mem _ hh)))
        · exact Or.inr (Or.inr (Or.inl (hh ▸ List.mem_cons_self)))
      · rw [hframe a hm] at hl
        exact Or.inr (Or.inr (Or.inr ⟨isSome_lt hw hl, hm⟩))
  · intro a ha
    rcases List.mem_cons.mp ha with rfl | ha
    · refine ⟨hxFt, fun hm => hdis a (by simp) hm, ?_⟩
      rw [hc2 a hxla, hx]; rfl
    · refine ⟨hFxFt a ha, fun hm => hdis a (by simp [ha]) hm, ?_⟩
      exact Rep_live h2 v hvx Fx hrepx2 a ha

/-- `cif_value_remove_element_at(list, i, NULL)`: the element is released -/
theorem listRemovePut_free_spec (h : Heap) (hw : h.WF) (la : Nat) (hv : HVal) (vs : List V) (Ft : List Nat) (i : Nat)
    (fuel : Nat) (hval : IsValCell (h.cell la)) (hlt : la < h.next) (hr : Rep h hv (.lst vs) Ft) (htF : la ∉ Ft)
    (hF : ∀ a, a ∈ Ft → a < h.next) (hi : i < vs.length) (hfuel : need (.lst vs) ≤ fuel) :
    ∃ hv' h1 h2 F', listRemoveH fuel h hv i false = some (hv', none, h1) ∧ putHV h1 la hv' = some h2
      ∧ ObjUpd h h2 la Ft hv' (.lst (vs.eraseIdx i)) F' [] := by
  simp only [Rep] at hr
  rcases hr with ⟨rfl, _, _, _⟩ | ⟨arr, xs, cap, F1, rfl, harr, hcap, hel, hnot, rfl⟩
  · simp at hi
  · obtain ⟨x, v, hvx, Fx, F1', hxi, hvi, hx, hrepx, hxF, hrep', hd', hmem'⟩ := RepElems_erase h vs xs F1 i hel hi
    have hlen := RepElems_length h vs xs F1 hel
    have hneed : need v ≤ fuel := by
      have := need_le_needList vs i v hvi
      simp only [need] at hfuel; omega
    obtain ⟨g, hcl, cg⟩ := cleanVal_spec v h hvx Fx fuel hrepx hneed
    have hxg : g.cell x = some (.val hvx) := by rw [cg.2 x]; simp [hxF, hx]
    obtain ⟨g2, hf2, c2⟩ := Cleared.free g x _ hxg
    have c12 := cg.trans c2
    have hxF1 : x ∈ F1 := (hmem' x).mpr (Or.inr (Or.inr rfl))
    have hFxF1 : ∀ a, a ∈ Fx → a ∈ F1 := fun a ha => (hmem' a).mpr (Or.inr (Or.inl ha))
    have harrX : arr ∉ Fx ++ [x] := by
      intro hm
      rcases List.mem_append.mp hm with hm | hm
      · exact hnot (hFxF1 arr hm)
      · simp at hm; exact hnot (hm ▸ hxF1)
    have harr2 : g2.cell arr = some (.arr xs cap) := by rw [c12.2 arr, if_neg harrX, harr]
    obtain ⟨h1, hwr, hn1, hc1⟩ := write_spec g2 arr _ (.arr (xs.eraseIdx i) cap) harr2
    have hlaF : ∀ a, a ∈ F1 ++ [arr] → a ≠ la := fun a ha e => htF (e ▸ ha)
    have hla_arr : la ≠ arr := fun e => htF (by simp [e])
    have hlaX : la ∉ Fx ++ [x] := by
      intro hm
      rcases List.mem_append.mp hm with hm | hm
      · exact htF (by simp [hFxF1 la hm])
      · simp at hm; exact htF (by simp [hm ▸ hxF1])
    have hcla : h1.cell la = h.cell la := by rw [hc1 la, if_neg hla_arr, c12.2 la, if_neg hlaX]
    have hw1 : h1.WF := by
      intro a ha
      rw [hn1, c12.1] at ha
      rw [hc1 a]
      have : a ≠ arr := by have := hF arr (by simp); omega
      rw [if_neg this]
      exact Cleared.wf c12 hw a (by rw [c12.1]; exact ha)
    obtain ⟨h2, hput, hn2, hg2, hsk2, hc2, hw2⟩ := putHV_spec h1 la (.lst (some arr) (xs.length - 1)) (by rw [hcla]; exact hval)
    have hF1'sub : ∀ a, a ∈ F1' → a ∈ F1 := fun a ha => (hmem' a).mpr (Or.inl ha)
    have hcellF1' : ∀ a, a ∈ F1' → h2.cell a = h.cell a := by
      intro a ha
      have h1' : a ≠ la := hlaF a (by simp [hF1'sub a ha])
      have h2' : a ≠ arr := fun e => hnot (e ▸ hF1'sub a ha)
      have h3' : a ∉ Fx ++ [x] := fun hm => hd' a hm ha
      rw [hc2 a h1', hc1 a, if_neg h2', c12.2 a, if_neg h3']
    refine ⟨.lst (some arr) (xs.length - 1), h1, h2, F1' ++ [arr], ?_, hput, hw2 hw1, by rw [hn2, hn1, c12.1]; exact Nat.le_refl _, hg2,
      by rw [← hcla]; exact hsk2, ?_, ?_, ?_, ?_, fun a ha => by cases ha⟩
    · simp [listRemoveH, Heap.read, harr, hxi, freeVal, hx, hcl, hf2, hwr]
    · simp only [Rep]
      refine Or.inr ⟨arr, xs.eraseIdx i, cap, F1', ?_, ?_, ?_, ?_, fun hm => hnot (hF1'sub arr hm), rfl⟩
      · rw [List.length_eraseIdx]; simp [show i < xs.length by omega]
      · rw [hc2 arr (Ne.symm hla_arr), hc1 arr, if_pos rfl]
      · rw [List.length_eraseIdx]; simp [show i < xs.length by omega]; omega
      · exact RepElems_congr h h2 _ _ F1' hcellF1' hrep'
    · intro a ha
      rcases List.mem_append.mp ha with ha | ha
      · exact Or.inl (by simp [hF1'sub a ha])
      · exact Or.inl (by simp at ha; simp [ha])
    · intro a _ hnf hne
      have h2' : a ≠ arr := fun e => hnf (by simp [e])
      have h3' : a ∉ Fx ++ [x] := by
        intro hm
        rcases List.mem_append.mp hm with hm | hm
        · exact hnf (by simp [hFxF1 a hm])
        · simp at hm; exact hnf (by simp [hm ▸ hxF1])
      rw [hc2 a hne, hc1 a, if_neg h2', c12.2 a, if_neg h3']
    · intro a hl
      by_cases hne : a = la
      · exact Or.inr (Or.inl hne)
      · rw [hc2 a hne, hc1 a] at hl
        by_cases ha : a = arr
        · exact Or.inl (by simp [ha])
        · rw [if_neg ha, c12.2 a] at hl
          by_cases hX : a ∈ Fx ++ [x]
          · rw [if_pos hX] at hl; cases hl
          · rw [if_neg hX] at hl
            by_cases hm : a ∈ F1
            · rcases (hmem' a).mp hm with hh | hh | hh
              · exact Or.inl (by simp [hh])
              · exact absurd (List.mem_append_left _ hh) hX
              · exact absurd (by simp [hh]) hX
            · exact Or.inr (Or.inr (Or.inr ⟨isSome_lt hw hl, by simp [hm, ha]⟩))

end CifModel.Model.Hist
