import CifModel.Lemmas.LexDefectChar
/-
  Lemmas/LexQuiet — what a token that was scanned WITHOUT any report looks like.

  The scanner's own character tests (SCAN_UCHAR: `disallowedBmp`, the surrogate bookkeeping) are at least as strict as the
  library's `cif_has_disallowed_chars` (`Model.hasDisallowed`, used by `cif_normalize_table_index`, i.e. by
  `cif_value_set_item_by_key`): a KEY token — a quoted or triple-quoted string directly followed by `:` — that next_token
  delivers under `cif_parse_error_die` (where every report ends the parse, so a delivered token was scanned silently) contains
  no disallowed unit, no unpaired surrogate, no supplementary not-a-character and no NUL.

    `U16`                       all units are UTF-16 code units (< 65536); REQUIRED: the model's units are `Nat`, and a "unit"
                                ≥ 65536 is of class GENERAL for the scanner but disallowed for `hasDisallowed`
    `nextToken_u16`             any policy: the token text and the remaining input are `U16` again
    `goodRev`                   validity of an accumulated string, newest unit first
    `scanTriple_quiet`, `scanDelim_quiet`, `stepTok_quiet`, `tokLoop_quiet`
    `C03_quiet_key_valid`       the fact itself
    `quiet_die`                 any policy: a scanner action that ends normally with an unchanged log ends in the same way
                                under `dieAll` (so "quiet" can be read either way)
-/
set_option linter.unusedSimpArgs false
set_option linter.unusedVariables false

namespace CifModel.Model.Lexer
open CifModel CifModel.Model CifModel.Model.Chars CifModel.Spec.Lexical CifModel.Model.Parser
open CifModel.Gen.ErrCodes

/-! ### UTF-16 code units -/

/-- every element is a UTF-16 code unit -/
def U16 (s : Str) : Prop := ∀ c ∈ s, c < 65536

@[simp] theorem U16_nil : U16 [] := by intro c h; cases h
@[simp] theorem U16_cons (c : Nat) (s : Str) : U16 (c :: s) ↔ c < 65536 ∧ U16 s := by
  simp [U16]
@[simp] theorem U16_append (a b : Str) : U16 (a ++ b) ↔ U16 a ∧ U16 b := by
  simp only [U16, List.mem_append]
  constructor
  · intro h; exact ⟨fun c hc => h c (Or.inl hc), fun c hc => h c (Or.inr hc)⟩
  · rintro ⟨h1, h2⟩ c (hc | hc); exact h1 c hc; exact h2 c hc
@[simp] theorem U16_reverse (a : Str) : U16 a.reverse ↔ U16 a := by simp [U16]
theorem U16.drop {a : Str} (h : U16 a) (k : Nat) : U16 (a.drop k) := fun c hc => h c (List.mem_of_mem_drop hc)

/-! ### `cif_has_disallowed_chars` and accumulated strings -/

/-- a string without a disallowed character is a sequence of complete characters: what follows is examined on its own -/
theorem hasDisallowed_append (a b : Str) (h : hasDisallowed a = false) : hasDisallowed (a ++ b) = hasDisallowed b := by
  fun_induction hasDisallowed a <;> try (simp_all [hasDisallowed]; done)
  · rename_i c rest h1 h2 ih
    have hr : hasDisallowed rest = false := by simpa [hasDisallowed, h1, h2] using h
    show hasDisallowed (c :: (rest ++ b)) = _
    conv => lhs; unfold hasDisallowed
    simp [h1, h2, ih hr]
  · rename_i c h1 h2 d rest h3 h4 ih
    have hr : hasDisallowed rest = false := by simpa [hasDisallowed, h1, h2, h3, h4] using h
    show hasDisallowed (c :: d :: (rest ++ b)) = _
    conv => lhs; unfold hasDisallowed
    simp [h1, h2, h3, h4, ih hr]

/-- validity of an accumulated string, NEWEST unit first, no lead surrogate pending: every trail surrogate sits on its lead
    surrogate and the pair is not a supplementary not-a-character (SCAN_UCHAR's own test); every other unit is not a
    surrogate and passes the BMP test of `cif_has_disallowed_chars` -/
def goodRev : Str → Bool
  | [] => true
  | c :: rest =>
    if isTrail c then
      match rest with
      | p :: rest' => isLead p && !((c / 2 == 0x6FFF) && (p / 1024 == 54 && p % 64 == 63)) && goodRev rest'
      | [] => false
    else !isLead c && !bmpDisallowed c && goodRev rest

theorem goodRev_nontrail {c : Nat} {rest : Str} (hc : isTrail c = false) :
    goodRev (c :: rest) = (!isLead c && !bmpDisallowed c && goodRev rest) := by
  rw [goodRev.eq_def]; simp [hc]

theorem goodRev_pair {c p : Nat} {rest : Str} (hc : isTrail c = true) :
    goodRev (c :: p :: rest) = (isLead p && !((c / 2 == 0x6FFF) && (p / 1024 == 54 && p % 64 == 63)) && goodRev rest) := by
  rw [goodRev.eq_def]; simp [hc]

/-- SCAN_UCHAR's test for U+xxFFFE / U+xxFFFF is `cif_has_disallowed_chars`' test -/
theorem nonchar_pair_eq : ∀ k < 1024, ∀ j < 1024,
    (decide ((56320 + k) &&& 0x3fe = 0x3fe ∧ (55296 + j) &&& 0x3f = 0x3f))
      = (((56320 + k) / 2 == 0x6FFF) && ((55296 + j) / 1024 == 54 && (55296 + j) % 64 == 63)) := by
  have h1 : ∀ k < 1024, (decide ((56320 + k) &&& 0x3fe = 0x3fe)) = ((56320 + k) / 2 == 0x6FFF) :=
    forall_lt_of_range_all (n := 1024) (p := fun k => (decide ((56320 + k) &&& 0x3fe = 0x3fe)) == ((56320 + k) / 2 == 0x6FFF)) (by decide +kernel)
      |> fun h k hk => by simpa using h k hk
  have h2 : ∀ j < 1024, (decide ((55296 + j) &&& 0x3f = 0x3f)) = ((55296 + j) / 1024 == 54 && (55296 + j) % 64 == 63) :=
    forall_lt_of_range_all (n := 1024) (p := fun j => (decide ((55296 + j) &&& 0x3f = 0x3f)) == ((55296 + j) / 1024 == 54 && (55296 + j) % 64 == 63)) (by decide +kernel)
      |> fun h j hj => by simpa using h j hj
  intro k hk j hj
  rw [← h1 k hk, ← h2 j hj]
  simp [Bool.decide_and]

theorem hasDisallowed_single {c : Nat} (ht : isTrail c = false) (hl : isLead c = false) (hb : bmpDisallowed c = false) :
    hasDisallowed [c] = false := by
  have h : c < 0xd800 ∨ c > 0xdfff := by
    simp only [isTrail, isLead, beq_eq_false_iff_ne, ne_eq] at ht hl
    omega_cu
  simp [hasDisallowed, h, hb]

theorem hasDisallowed_pair {c p : Nat} (ht : isTrail c = true) (hl : isLead p = true)
    (hn : ((c / 2 == 0x6FFF) && (p / 1024 == 54 && p % 64 == 63)) = false) : hasDisallowed [p, c] = false := by
  simp only [isTrail, isLead, beq_iff_eq] at ht hl
  obtain ⟨k, hk, rfl⟩ : ∃ k, k < 1024 ∧ c = 56320 + k := ⟨c - 56320, by omega_cu, by omega_cu⟩
  obtain ⟨j, hj, rfl⟩ : ∃ j, j < 1024 ∧ p = 55296 + j := ⟨p - 55296, by omega_cu, by omega_cu⟩
  have h1 : ¬ (55296 + j < 0xd800 ∨ 55296 + j > 0xdfff) := by omega
  have h2 : ¬ (55296 + j ≥ 0xdc00) := by omega
  have h3 : ¬ (56320 + k < 0xdc00 ∨ 56320 + k > 0xdfff) := by omega
  have h4 := nonchar_pair_eq k hk j hj
  rw [hn] at h4
  simp only [decide_eq_false_iff_not] at h4
  simp [hasDisallowed, h1, h2, h3, h4]

/-- a valid accumulated string, read in input order, passes `cif_has_disallowed_chars` -/
theorem goodRev_hasDisallowed : ∀ (acc : Str), goodRev acc = true → hasDisallowed acc.reverse = false := by
  intro acc
  induction acc using goodRev.induct with
  | case1 => intro _; rfl
  | case2 c ht p rest ih =>
    intro h
    rw [goodRev_pair ht] at h
    simp only [Bool.and_eq_true, Bool.not_eq_true'] at h
    obtain ⟨⟨hl, hn⟩, hr⟩ := h
    have : (c :: p :: rest).reverse = rest.reverse ++ [p, c] := by simp
    rw [this, hasDisallowed_append _ _ (ih hr)]
    exact hasDisallowed_pair ht hl hn
  | case3 c ht => intro h; simp [goodRev, ht] at h
  | case4 c rest ht ih =>
    intro h
    have ht' : isTrail c = false := by simpa using ht
    rw [goodRev_nontrail ht'] at h
    simp only [Bool.and_eq_true, Bool.not_eq_true'] at h
    obtain ⟨⟨hl, hb⟩, hr⟩ := h
    have : (c :: rest).reverse = rest.reverse ++ [c] := by simp
    rw [this, hasDisallowed_append _ _ (ih hr)]
    exact hasDisallowed_single ht' hl hb

/-- … and contains no NUL (so that `cstr` keeps all of it) -/
theorem goodRev_noNul : ∀ (acc : Str), goodRev acc = true → ∀ c ∈ acc, c ≠ 0 := by
  intro acc
  induction acc using goodRev.induct with
  | case1 => intro _ c hc; cases hc
  | case2 c ht p rest ih =>
    intro h
    rw [goodRev_pair ht] at h
    simp only [Bool.and_eq_true, Bool.not_eq_true'] at h
    obtain ⟨⟨hl, hn⟩, hr⟩ := h
    simp only [isTrail, isLead, beq_iff_eq] at ht hl
    intro x hx
    simp only [List.mem_cons] at hx
    rcases hx with rfl | rfl | hx
    · omega_cu
    · omega_cu
    · exact ih hr x hx
  | case3 c ht => intro h; simp [goodRev, ht] at h
  | case4 c rest ht ih =>
    intro h
    have ht' : isTrail c = false := by simpa using ht
    rw [goodRev_nontrail ht'] at h
    simp only [Bool.and_eq_true, Bool.not_eq_true'] at h
    obtain ⟨⟨hl, hb⟩, hr⟩ := h
    intro x hx
    simp only [List.mem_cons] at hx
    rcases hx with rfl | hx
    · intro h0; subst h0; simp [bmpDisallowed] at hb
    · exact ih hr x hx

/-! ### the scanner's BMP test is at least as strict as the library's -/

theorem bmp_low (dia : Dialect) : ∀ c < 160, (classOf dia c == .no) = false → bmpDisallowed c = false := by
  have h : ∀ c < 160, ((classOf dia c == .no) || !bmpDisallowed c) = true := by
    cases dia <;> exact forall_lt_of_range_all (n := 160) (by decide +kernel)
  intro c hc hn
  have := h c hc
  simpa [hn] using this

/-- a code unit that is no surrogate and passes SCAN_UCHAR's test passes `cif_has_disallowed_chars`' BMP test -/
theorem bmp_of_scan {dia : Dialect} {c : Nat} (h16 : c < 65536) (hd : disallowedBmp dia c = false) : bmpDisallowed c = false := by
  unfold disallowedBmp at hd
  by_cases hc : c < 160
  · rw [if_pos hc] at hd
    exact bmp_low dia c hc hd
  · rw [if_neg hc] at hd
    simp only [Bool.or_eq_false_iff, Bool.and_eq_false_iff, beq_eq_false_iff_ne, ne_eq, decide_eq_false_iff_not] at hd
    obtain ⟨⟨h1, h2⟩, h3⟩ := hd
    simp only [bmpDisallowed, Bool.or_eq_false_iff, Bool.and_eq_false_iff, decide_eq_false_iff_not, bne_eq_false_iff_eq]
    refine ⟨⟨⟨?_, ?_⟩, ?_⟩, ?_⟩
    · exact Or.inl (Or.inl (Or.inl (by omega_cu)))
    · exact Or.inr (by omega_cu)
    · rcases h3 with h3 | h3
      · exact Or.inl (by omega_cu)
      · exact Or.inr (by omega_cu)
    · omega_cu

/-! ### scanning under `cif_parse_error_die`: a scan that ends normally has reported nothing -/

theorem report_die_ok {code : Code} {line col : Nat} {l l' : List Report} {x : Unit} (hc : code ≠ 0)
    (h : report code line col dieAll l = .ok x l') : False := by
  simp [report, dieAll, hc] at h

theorem reportIf_die_ok {cond : Bool} {code : Code} {line col : Nat} {l l' : List Report} {x : Unit} (hc : code ≠ 0)
    (h : reportIf cond code line col dieAll l = .ok x l') : cond = false ∧ l' = l := by
  cases cond with
  | true => exact (report_die_ok hc (by simpa using h)).elim
  | false => simp only [reportIf_false, L.pure_apply, Res.ok.injEq] at h; exact ⟨rfl, h.2.symm⟩

/-- SCAN_UCHAR that returns under `dieAll`: the unit is kept, nothing is repaired, and the unit passed every test -/
theorem scanUChar_die_ok {dia : Dialect} {line col prev c : Nat} {lead : Bool} {l l' : List Report} {u : UStep}
    (h : scanUChar dia line col prev c lead dieAll l = .ok u l') :
    l' = l ∧ u.c = c ∧ u.fixPrev = false ∧
    (if isTrail c then lead = true ∧ u.lead = false ∧ ((c / 2 == 0x6FFF) && (prev / 1024 == 54 && prev % 64 == 63)) = false
     else lead = false ∧ u.lead = isLead c ∧ disallowedBmp dia c = false) := by
  simp only [scanUChar, bind_eq, pure_eq] at h
  by_cases ht : isTrail c = true
  · rw [if_pos ht] at h
    cases lead with
    | false =>
      simp only [Bool.false_eq_true, if_false] at h
      obtain ⟨_, l1, h1, _⟩ := L.bind_ok_inv h
      exact (report_die_ok (by decide) h1).elim
    | true =>
      simp only [if_true] at h
      obtain ⟨_, l1, h1, h2⟩ := L.bind_ok_inv h
      obtain ⟨hn, hl⟩ := reportIf_die_ok (by decide) h1
      obtain ⟨h2, h3⟩ := L.pure_ok_inv h2
      subst h2
      rw [if_pos ht]
      exact ⟨by rw [← h3, hl], rfl, rfl, rfl, rfl, hn⟩
  · rw [if_neg ht] at h
    obtain ⟨_, l1, h1, h2⟩ := L.bind_ok_inv h
    obtain ⟨_, l2, h3, h4⟩ := L.bind_ok_inv h2
    obtain ⟨_, l3, h5, h6⟩ := L.bind_ok_inv h4
    obtain ⟨hn1, hl1⟩ := reportIf_die_ok (by decide) h1
    obtain ⟨hn2, hl2⟩ := reportIf_die_ok (by decide) h3
    obtain ⟨hn3, hl3⟩ := reportIf_die_ok (by decide) h5
    obtain ⟨h7, h8⟩ := L.pure_ok_inv h6
    subst h7
    rw [if_neg ht]
    exact ⟨by rw [← h8, hl3, hl2, hl1], rfl, hn3, hn3, rfl, hn1⟩

/-- the state of a quiet scan of a delimited string: with a lead surrogate pending the text below it is valid; otherwise
    the text is valid, also without its newest `dc` units (the delimiters that may turn out to be the closing ones) -/
def QInv (acc : Str) (lead : Bool) (dc : Nat) : Prop :=
  if lead then ∃ p b, acc = p :: b ∧ isLead p = true ∧ goodRev b = true
  else ∀ k ≤ dc, goodRev (acc.drop k) = true

/-- one quietly scanned unit that is not a counted delimiter -/
theorem QInv.step {dia : Dialect} {line col c : Nat} {lead : Bool} {acc : Str} {dc : Nat} {l l' : List Report} {u : UStep}
    (h16 : c < 65536) (hq : QInv acc lead dc) (hu : scanUChar dia line col (acc.headD 0) c lead dieAll l = .ok u l') :
    QInv (u.c :: fixAcc dia u.fixPrev acc) u.lead 0 := by
  obtain ⟨_, hc, hf, hx⟩ := scanUChar_die_ok hu
  rw [hc, hf]
  simp only [fixAcc, Bool.false_eq_true, if_false]
  by_cases ht : isTrail c = true
  · rw [if_pos ht] at hx
    obtain ⟨hl, hul, hn⟩ := hx
    rw [hul]
    subst hl
    obtain ⟨p, b, rfl, hp, hb⟩ := hq
    intro k hk
    have : k = 0 := by omega
    subst this
    simp only [List.headD_cons] at hn
    simp only [List.drop_zero]
    rw [goodRev_pair ht, hp, hn, hb]; rfl
  · rw [if_neg ht] at hx
    obtain ⟨hl, hul, hn⟩ := hx
    rw [hul]
    subst hl
    have ha : goodRev acc = true := by simpa using hq 0 (Nat.zero_le _)
    cases hlc : isLead c with
    | true => exact ⟨c, acc, rfl, hlc, ha⟩
    | false =>
      intro k hk
      have : k = 0 := by omega
      subst this
      simp only [List.drop_zero]
      rw [goodRev_nontrail (by simpa using ht), hlc, bmp_of_scan h16 hn, ha]; rfl

/-- a quietly scanned delimiter: it can be dropped again -/
theorem QInv.delim {dia : Dialect} {line col c : Nat} {lead : Bool} {acc : Str} {dc : Nat} {l l' : List Report} {u : UStep}
    (h16 : c < 65536) (htc : isTrail c = false) (hlc : isLead c = false)
    (hq : QInv acc lead dc) (hu : scanUChar dia line col (acc.headD 0) c lead dieAll l = .ok u l') :
    lead = false ∧ u.c = c ∧ u.lead = false ∧ fixAcc dia u.fixPrev acc = acc ∧ QInv (c :: acc) false (dc + 1) := by
  obtain ⟨_, hc, hf, hx⟩ := scanUChar_die_ok hu
  rw [if_neg (by simp [htc])] at hx
  obtain ⟨hl, hul, hn⟩ := hx
  subst hl
  refine ⟨rfl, hc, by rw [hul, hlc], by simp [fixAcc, hf], ?_⟩
  intro k hk
  cases k with
  | zero =>
    simp only [List.drop_zero]
    have ha : goodRev acc = true := by simpa using hq 0 (Nat.zero_le _)
    rw [goodRev_nontrail htc, hlc, bmp_of_scan h16 hn, ha]; rfl
  | succ k => simpa using hq k (by omega)

theorem scanTriple_quiet (dia : Dialect) (delim : Nat) (htd : isTrail delim = false) (hld : isLead delim = false) :
    ∀ (inp : Str) (line col : Nat) (lead : Bool) (acc : Str) (dc sol : Nat) (l l' : List Report) (s : Scanned),
    scanTriple dia delim inp line col lead acc dc sol dieAll l = .ok s l' → U16 inp → QInv acc lead dc →
    goodRev s.acc = true := by
  intro inp
  induction inp with
  | nil =>
    intro line col lead acc dc sol l l' s h
    simp only [scanTriple, bind_eq, pure_eq] at h
    obtain ⟨a, l1, _, h2⟩ := L.bind_ok_inv h
    obtain ⟨_, l2, h3, _⟩ := L.bind_ok_inv h2
    exact (report_die_ok (by decide) h3).elim
  | cons c r ih =>
    intro line col lead acc dc sol l l' s h h16 hq
    simp only [U16_cons] at h16
    simp only [scanTriple, bind_eq, pure_eq] at h
    obtain ⟨u, l1, hu, h2⟩ := L.bind_ok_inv h
    by_cases hcd : u.c = delim
    · rw [if_pos hcd] at h2
      have hc : c = delim := by rw [← hcd]; exact (scanUChar_die_ok hu).2.1.symm
      obtain ⟨hl, huc, hul, hfa, hq'⟩ := QInv.delim h16.1 (hc ▸ htd) (hc ▸ hld) hq hu
      rw [huc, hul, hfa] at h2
      split at h2
      · rename_i h3
        obtain ⟨h4, _⟩ := L.pure_ok_inv h2
        subst h4
        exact hq' 3 (by omega)
      · exact ih _ _ _ _ _ _ _ _ _ h2 h16.2 hq'
    · rw [if_neg hcd] at h2
      have hq' := QInv.step h16.1 hq hu
      split at h2
      · obtain ⟨_, l2, _, h3⟩ := L.bind_ok_inv h2
        exact ih _ _ _ _ _ _ _ _ _ h3 h16.2 hq'
      · exact ih _ _ _ _ _ _ _ _ _ h2 h16.2 hq'

theorem scanDelim_quiet (dia : Dialect) (delim : Nat) (htd : isTrail delim = false) (hld : isLead delim = false) :
    ∀ (inp : Str) (line col : Nat) (lead : Bool) (acc : Str) (first : Bool) (l l' : List Report) (s : Scanned),
    scanDelim dia delim inp line col lead acc first dieAll l = .ok s l' → U16 inp → QInv acc lead 0 →
    goodRev s.acc = true := by
  intro inp
  induction inp with
  | nil =>
    intro line col lead acc first l l' s h
    simp only [scanDelim, bind_eq, pure_eq] at h
    obtain ⟨a, l1, _, h2⟩ := L.bind_ok_inv h
    obtain ⟨_, l2, h3, _⟩ := L.bind_ok_inv h2
    exact (report_die_ok (by decide) h3).elim
  | cons c r ih =>
    intro line col lead acc first l l' s h h16 hq
    simp only [U16_cons] at h16
    simp only [scanDelim, bind_eq, pure_eq] at h
    obtain ⟨u, l1, hu, h2⟩ := L.bind_ok_inv h
    by_cases hcd : u.c = delim
    · rw [if_pos hcd] at h2
      have hc : c = delim := by rw [← hcd]; exact (scanUChar_die_ok hu).2.1.symm
      obtain ⟨hl, huc, hul, hfa, hq'⟩ := QInv.delim h16.1 (hc ▸ htd) (hc ▸ hld) hq hu
      subst hl
      have ha : goodRev acc = true := by simpa using hq 0 (Nat.zero_le _)
      have hq1 : QInv (c :: acc) false 0 := fun k hk => hq' k (by omega)
      rw [huc, hul, hfa] at h2
      cases r with
      | nil =>
        simp only [] at h2
        obtain ⟨h3, _⟩ := L.pure_ok_inv h2
        subst h3; exact ha
      | cons d r' =>
        simp only [] at h2
        simp only [U16_cons] at h16
        split at h2
        · split at h2
          · exact ih _ _ _ _ _ _ _ _ h2 (by simp [h16.2.1, h16.2.2]) hq1
          · obtain ⟨h3, _⟩ := L.pure_ok_inv h2
            subst h3; exact ha
        · split at h2
          · exact scanTriple_quiet dia delim htd hld _ _ _ _ _ _ _ _ _ _ h2 h16.2.2 (fun k _ => by simp [goodRev])
          · obtain ⟨h3, _⟩ := L.pure_ok_inv h2
            subst h3; exact ha
    · rw [if_neg hcd] at h2
      have hq' := QInv.step h16.1 hq hu
      split at h2
      · obtain ⟨_, l2, h3, _⟩ := L.bind_ok_inv h2
        exact (report_die_ok (by decide) h3).elim
      · exact ih _ _ _ _ _ _ _ _ h2 h16.2 hq'

/-! ### code units stay code units (any policy) -/

theorem replChar_u16 (dia : Dialect) : replChar dia < 65536 := by cases dia <;> decide

theorem fixAcc_u16 {dia : Dialect} {b : Bool} {acc : Str} (h : U16 acc) : U16 (fixAcc dia b acc) := by
  unfold fixAcc
  split
  · cases acc with
    | nil => simp
    | cons a t => simp only [U16_cons] at h ⊢; exact ⟨replChar_u16 dia, h.2⟩
  · exact h

theorem scanUChar_u16 {dia : Dialect} {line col prev c : Nat} {lead : Bool} {pol : Policy} {l l' : List Report} {u : UStep}
    (h : scanUChar dia line col prev c lead pol l = .ok u l') (hc : c < 65536) : u.c < 65536 := by
  rcases (scanUChar_ok_inv h).1 with e | ⟨_, _, e⟩
  · rw [e]; exact hc
  · rw [e]; exact replChar_u16 dia

/-- the common shape of the results below -/
def Scanned.u16 (s : Scanned) : Prop := U16 s.acc ∧ U16 s.pos.rest

theorem scanWs_u16 (dia : Dialect) : ∀ (inp : Str) (line col sol : Nat) (pol : Policy) (l l' : List Report) (p : Pos),
    scanWs dia inp line col sol pol l = .ok p l' → U16 inp → U16 p.rest := by
  intro inp
  induction inp with
  | nil =>
    intro line col sol pol l l' p h _
    simp only [scanWs, pure_eq] at h
    obtain ⟨h, _⟩ := L.pure_ok_inv h
    subst h; simp
  | cons c r ih =>
    intro line col sol pol l l' p h h16
    simp only [scanWs, bind_eq, pure_eq] at h
    split at h
    · exact ih _ _ _ _ _ _ _ h ((U16_cons _ _).1 h16).2
    · split at h
      · obtain ⟨a, l1, _, h2⟩ := L.bind_ok_inv h
        exact ih _ _ _ _ _ _ _ h2 ((U16_cons _ _).1 h16).2
      · obtain ⟨h, _⟩ := L.pure_ok_inv h
        subst h; exact h16

theorem scanToWs_u16 (dia : Dialect) : ∀ (inp : Str) (line col : Nat) (lead : Bool) (acc : Str) (pol : Policy)
    (l l' : List Report) (s : Scanned),
    scanToWs dia inp line col lead acc pol l = .ok s l' → U16 inp → U16 acc → s.u16 := by
  intro inp
  induction inp with
  | nil =>
    intro line col lead acc pol l l' s h _ ha
    simp only [scanToWs, bind_eq, pure_eq] at h
    obtain ⟨a, l1, h1, h2⟩ := L.bind_ok_inv h
    obtain ⟨h2, _⟩ := L.pure_ok_inv h2
    subst h2
    rw [leadAtEof_ok_inv h1]
    exact ⟨fixAcc_u16 ha, by simp⟩
  | cons c r ih =>
    intro line col lead acc pol l l' s h h16 ha
    simp only [U16_cons] at h16
    simp only [scanToWs, bind_eq, pure_eq] at h
    obtain ⟨u, l1, hu, h2⟩ := L.bind_ok_inv h
    have huc := scanUChar_u16 hu h16.1
    have hfa : U16 (fixAcc dia u.fixPrev acc) := fixAcc_u16 ha
    split at h2
    · obtain ⟨h2, _⟩ := L.pure_ok_inv h2
      subst h2
      exact ⟨hfa, by simp [huc, h16.2]⟩
    · exact ih _ _ _ _ _ _ _ _ h2 h16.2 (by simp [huc, hfa])

theorem scanToEol_u16 (dia : Dialect) : ∀ (inp : Str) (line col : Nat) (lead : Bool) (acc : Str) (pol : Policy)
    (l l' : List Report) (s : Scanned),
    scanToEol dia inp line col lead acc pol l = .ok s l' → U16 inp → U16 acc → s.u16 := by
  intro inp
  induction inp with
  | nil =>
    intro line col lead acc pol l l' s h _ ha
    simp only [scanToEol, bind_eq, pure_eq] at h
    obtain ⟨a, l1, h1, h2⟩ := L.bind_ok_inv h
    obtain ⟨h2, _⟩ := L.pure_ok_inv h2
    subst h2
    rw [leadAtEof_ok_inv h1]
    exact ⟨fixAcc_u16 ha, by simp⟩
  | cons c r ih =>
    intro line col lead acc pol l l' s h h16 ha
    simp only [U16_cons] at h16
    simp only [scanToEol, bind_eq, pure_eq] at h
    obtain ⟨u, l1, hu, h2⟩ := L.bind_ok_inv h
    have huc := scanUChar_u16 hu h16.1
    have hfa : U16 (fixAcc dia u.fixPrev acc) := fixAcc_u16 ha
    split at h2
    · obtain ⟨h2, _⟩ := L.pure_ok_inv h2
      subst h2
      exact ⟨hfa, by simp [huc, h16.2]⟩
    · exact ih _ _ _ _ _ _ _ _ h2 h16.2 (by simp [huc, hfa])

theorem scanUnquoted_u16 (dia : Dialect) : ∀ (inp : Str) (line col : Nat) (lead : Bool) (acc : Str) (k : Nat) (kd ks : Bool)
    (pol : Policy) (l l' : List Report) (s : Scanned),
    scanUnquoted dia inp line col lead acc k kd ks pol l = .ok s l' → U16 inp → U16 acc → s.u16 := by
  intro inp
  induction inp with
  | nil =>
    intro line col lead acc k kd ks pol l l' s h _ ha
    simp only [scanUnquoted, bind_eq, pure_eq] at h
    obtain ⟨a, l1, h1, h2⟩ := L.bind_ok_inv h
    obtain ⟨h2, _⟩ := L.pure_ok_inv h2
    subst h2
    rw [leadAtEof_ok_inv h1]
    exact ⟨fixAcc_u16 ha, by simp⟩
  | cons c r ih =>
    intro line col lead acc k kd ks pol l l' s h h16 ha
    simp only [U16_cons] at h16
    simp only [scanUnquoted, bind_eq, pure_eq] at h
    obtain ⟨u, l1, hu, h2⟩ := L.bind_ok_inv h
    have huc := scanUChar_u16 hu h16.1
    have hfa : U16 (fixAcc dia u.fixPrev acc) := fixAcc_u16 ha
    have hrec : ∀ {line col lead k kd ks l1},
        scanUnquoted dia r line col lead (u.c :: fixAcc dia u.fixPrev acc) k kd ks pol l1 = .ok s l' → s.u16 :=
      fun h => ih _ _ _ _ _ _ _ _ _ _ _ h h16.2 (by simp [huc, hfa])
    have hback : Scanned.u16 ⟨fixAcc dia u.fixPrev acc, ⟨u.c :: r, line, u.col - 1⟩⟩ := ⟨hfa, by simp [huc, h16.2]⟩
    cases hm : metaOfCls (classOf dia u.c) with
    | no => simp only [hm] at h2; exact hrec h2
    | general => simp only [hm] at h2; exact hrec h2
    | ws =>
      simp only [hm] at h2
      split at h2
      · obtain ⟨h3, _⟩ := L.pure_ok_inv h2; subst h3; exact hback
      · obtain ⟨h3, _⟩ := L.pure_ok_inv h2; subst h3; exact ⟨by simp [huc, hfa], h16.2⟩
    | open_ =>
      simp only [hm] at h2
      split at h2
      · obtain ⟨_, l2, _, h3⟩ := L.bind_ok_inv h2
        obtain ⟨h3, _⟩ := L.pure_ok_inv h3
        subst h3; exact hback
      · exact hrec h2
    | close =>
      simp only [hm] at h2
      split at h2
      · obtain ⟨h3, _⟩ := L.pure_ok_inv h2
        subst h3; exact hback
      · exact hrec h2

theorem scanTriple_u16 (dia : Dialect) (delim : Nat) : ∀ (inp : Str) (line col : Nat) (lead : Bool) (acc : Str) (dc sol : Nat)
    (pol : Policy) (l l' : List Report) (s : Scanned),
    scanTriple dia delim inp line col lead acc dc sol pol l = .ok s l' → U16 inp → U16 acc → s.u16 := by
  intro inp
  induction inp with
  | nil =>
    intro line col lead acc dc sol pol l l' s h _ ha
    simp only [scanTriple, bind_eq, pure_eq] at h
    obtain ⟨a, l1, h1, h2⟩ := L.bind_ok_inv h
    obtain ⟨_, l2, _, h3⟩ := L.bind_ok_inv h2
    obtain ⟨h3, _⟩ := L.pure_ok_inv h3
    subst h3
    rw [leadAtEof_ok_inv h1]
    exact ⟨fixAcc_u16 ha, by simp⟩
  | cons c r ih =>
    intro line col lead acc dc sol pol l l' s h h16 ha
    simp only [U16_cons] at h16
    simp only [scanTriple, bind_eq, pure_eq] at h
    obtain ⟨u, l1, hu, h2⟩ := L.bind_ok_inv h
    have huc := scanUChar_u16 hu h16.1
    have hacc : U16 (u.c :: fixAcc dia u.fixPrev acc) := by simp [huc, fixAcc_u16 ha]
    split at h2
    · split at h2
      · obtain ⟨h3, _⟩ := L.pure_ok_inv h2
        subst h3; exact ⟨hacc.drop 3, h16.2⟩
      · exact ih _ _ _ _ _ _ _ _ _ _ h2 h16.2 hacc
    · split at h2
      · obtain ⟨_, l2, _, h3⟩ := L.bind_ok_inv h2
        exact ih _ _ _ _ _ _ _ _ _ _ h3 h16.2 hacc
      · exact ih _ _ _ _ _ _ _ _ _ _ h2 h16.2 hacc

theorem scanDelim_u16 (dia : Dialect) (delim : Nat) : ∀ (inp : Str) (line col : Nat) (lead : Bool) (acc : Str) (first : Bool)
    (pol : Policy) (l l' : List Report) (s : Scanned),
    scanDelim dia delim inp line col lead acc first pol l = .ok s l' → U16 inp → U16 acc → s.u16 := by
  intro inp
  induction inp with
  | nil =>
    intro line col lead acc first pol l l' s h _ ha
    simp only [scanDelim, bind_eq, pure_eq] at h
    obtain ⟨a, l1, h1, h2⟩ := L.bind_ok_inv h
    obtain ⟨_, l2, _, h3⟩ := L.bind_ok_inv h2
    obtain ⟨h3, _⟩ := L.pure_ok_inv h3
    subst h3
    rw [leadAtEof_ok_inv h1]
    exact ⟨fixAcc_u16 ha, by simp⟩
  | cons c r ih =>
    intro line col lead acc first pol l l' s h h16 ha
    simp only [U16_cons] at h16
    simp only [scanDelim, bind_eq, pure_eq] at h
    obtain ⟨u, l1, hu, h2⟩ := L.bind_ok_inv h
    have huc := scanUChar_u16 hu h16.1
    have hfa : U16 (fixAcc dia u.fixPrev acc) := fixAcc_u16 ha
    have hacc : U16 (u.c :: fixAcc dia u.fixPrev acc) := by simp [huc, hfa]
    split at h2
    · cases r with
      | nil =>
        simp only [] at h2
        obtain ⟨h3, _⟩ := L.pure_ok_inv h2
        subst h3; exact ⟨hfa, by simp⟩
      | cons d r' =>
        simp only [] at h2
        split at h2
        · split at h2
          · exact ih _ _ _ _ _ _ _ _ _ h2 h16.2 hacc
          · obtain ⟨h3, _⟩ := L.pure_ok_inv h2
            subst h3; exact ⟨hfa, h16.2⟩
        · split at h2
          · exact scanTriple_u16 dia delim _ _ _ _ _ _ _ _ _ _ _ h2 ((U16_cons _ _).1 h16.2).2 (by simp)
          · obtain ⟨h3, _⟩ := L.pure_ok_inv h2
            subst h3; exact ⟨hfa, h16.2⟩
    · split at h2
      · obtain ⟨_, l2, _, h3⟩ := L.bind_ok_inv h2
        obtain ⟨h3, _⟩ := L.pure_ok_inv h3
        subst h3; exact ⟨hfa, by simp [huc, h16.2]⟩
      · exact ih _ _ _ _ _ _ _ _ _ h2 h16.2 hacc

theorem scanText_u16 (dia : Dialect) : ∀ (inp : Str) (line col : Nat) (lead : Bool) (acc : Str) (sol : Nat)
    (pol : Policy) (l l' : List Report) (s : Scanned),
    scanText dia inp line col lead acc sol pol l = .ok s l' → U16 inp → U16 acc → s.u16 := by
  intro inp
  induction inp with
  | nil =>
    intro line col lead acc sol pol l l' s h _ ha
    simp only [scanText, bind_eq, pure_eq] at h
    obtain ⟨a, l1, h1, h2⟩ := L.bind_ok_inv h
    obtain ⟨_, l2, _, h3⟩ := L.bind_ok_inv h2
    obtain ⟨h3, _⟩ := L.pure_ok_inv h3
    subst h3
    rw [leadAtEof_ok_inv h1]
    exact ⟨fixAcc_u16 ha, by simp⟩
  | cons c r ih =>
    intro line col lead acc sol pol l l' s h h16 ha
    simp only [U16_cons] at h16
    simp only [scanText, bind_eq, pure_eq] at h
    obtain ⟨u, l1, hu, h2⟩ := L.bind_ok_inv h
    have huc := scanUChar_u16 hu h16.1
    have hacc : U16 (u.c :: fixAcc dia u.fixPrev acc) := by simp [huc, fixAcc_u16 ha]
    split at h2
    · split at h2
      · obtain ⟨h3, _⟩ := L.pure_ok_inv h2
        subst h3; exact ⟨hacc.drop _, h16.2⟩
      · exact ih _ _ _ _ _ _ _ _ _ h2 h16.2 hacc
    · split at h2
      · obtain ⟨_, l2, _, h3⟩ := L.bind_ok_inv h2
        exact ih _ _ _ _ _ _ _ _ _ h3 h16.2 hacc
      · exact ih _ _ _ _ _ _ _ _ _ h2 h16.2 hacc

/-! ### one iteration of next_token, the loop, next_token -/

def Step.u16 : Step → Prop
  | .tok t p => U16 t.text ∧ U16 p.rest
  | .skip _ p => U16 p.rest

/-- a KEY token carries a valid key -/
def Step.keyGood : Step → Prop
  | .tok t _ => t.ty = .key → goodRev t.text.reverse = true
  | .skip _ _ => True

theorem keyPeek_u16 (a b : TokType) {text : Str} {p : Pos} (ht : U16 text) (hp : U16 p.rest) : (keyPeek a b text p).u16 := by
  unfold keyPeek
  split
  · exact ⟨ht, hp⟩
  · rename_i c r hr
    rw [hr] at hp
    split
    · exact ⟨ht, ((U16_cons _ _).1 hp).2⟩
    · exact ⟨ht, by rw [hr]; exact hp⟩

theorem keyPeek_keyGood (b : TokType) {text : Str} {p : Pos} (hg : goodRev text.reverse = true) :
    (keyPeek .key b text p).keyGood := by
  unfold keyPeek
  split
  · exact fun _ => hg
  · split <;> exact fun _ => hg

theorem keyPeek_notKey {a b : TokType} (text : Str) (p : Pos) (ha : a ≠ .key) (hb : b ≠ .key) : (keyPeek a b text p).keyGood := by
  unfold keyPeek
  split
  · exact fun h => absurd h hb
  · split
    · exact fun h => absurd h ha
    · exact fun h => absurd h hb

theorem finishUnquoted_u16 {dia : Dialect} {aw : Bool} {t : Str} {p : Pos} {pol : Policy} {l l' : List Report} {st : Step}
    (h : finishUnquoted dia aw t p pol l = .ok st l') (ht : U16 t) (hp : U16 p.rest) : st.u16 ∧ st.keyGood := by
  unfold finishUnquoted at h
  cases hk : classify dia t <;> simp only [hk] at h
  all_goals first
    | (obtain ⟨h1, _⟩ := L.pure_ok_inv h; subst h1
       exact ⟨⟨by first | exact ht | exact ht.drop 5, hp⟩, fun h => by cases h⟩)
    | (simp only [bind_eq, pure_eq] at h
       obtain ⟨_, l1, _, h2⟩ := L.bind_ok_inv h
       obtain ⟨h1, _⟩ := L.pure_ok_inv h2; subst h1
       exact ⟨hp, trivial⟩)

theorem quote_not_surrogate {dia : Dialect} {c : Nat} (hq : classOf dia c = .quote) : isTrail c = false ∧ isLead c = false := by
  have hc : c < 160 := by
    by_cases hc : c < 160
    · exact hc
    · rcases high_class dia c (by omega) with e | e <;> rw [e] at hq <;> cases hq
  simp only [isTrail, isLead, beq_eq_false_iff_ne, ne_eq]
  constructor <;> omega_cu

/-- every iteration of next_token's loop: code units stay code units; under `cif_parse_error_die` a KEY token that leaves
    the iteration carries a valid key -/
theorem stepTok_quiet (dia : Dialect) (aw : Bool) (c : Nat) (r : Str) (line col : Nat) (pol : Policy) (l l' : List Report)
    (st : Step) (h : stepTok dia aw c r line col pol l = .ok st l') (h16 : U16 (c :: r)) :
    st.u16 ∧ (pol = dieAll → st.keyGood) := by
  have h16' := (U16_cons _ _).1 h16
  unfold stepTok at h
  simp only [bind_eq] at h
  simp only [pure_eq] at h
  obtain ⟨_, l0, _, h⟩ := L.bind_ok_inv h
  by_cases he : classOf dia c = .eol
  · rw [if_pos he] at h
    obtain ⟨p, l1, h1, h2⟩ := L.bind_ok_inv h
    obtain ⟨h2, _⟩ := L.pure_ok_inv h2; subst h2
    exact ⟨scanWs_u16 dia _ _ _ _ _ _ _ _ h1 h16, fun _ => trivial⟩
  rw [if_neg he] at h
  by_cases hw : classOf dia c = .ws
  · rw [if_pos hw] at h
    obtain ⟨p, l1, h1, h2⟩ := L.bind_ok_inv h
    obtain ⟨h2, _⟩ := L.pure_ok_inv h2; subst h2
    exact ⟨scanWs_u16 dia _ _ _ _ _ _ _ _ h1 h16'.2, fun _ => trivial⟩
  rw [if_neg hw] at h
  by_cases hh : classOf dia c = .hash
  · rw [if_pos hh] at h
    obtain ⟨s, l1, h1, h2⟩ := L.bind_ok_inv h
    obtain ⟨h2, _⟩ := L.pure_ok_inv h2; subst h2
    exact ⟨(scanToEol_u16 dia _ _ _ _ _ _ _ _ _ h1 h16'.2 (by simp [h16'.1])).2, fun _ => trivial⟩
  rw [if_neg hh] at h
  by_cases hu : classOf dia c = .undersc
  · rw [if_pos hu] at h
    obtain ⟨s, l1, h1, h2⟩ := L.bind_ok_inv h
    obtain ⟨h2, _⟩ := L.pure_ok_inv h2; subst h2
    have := scanToWs_u16 dia _ _ _ _ _ _ _ _ _ h1 h16'.2 (by simp [h16'.1])
    exact ⟨⟨by simpa [mkTok] using this.1, this.2⟩, fun _ h => by cases h⟩
  rw [if_neg hu] at h
  by_cases h1 : classOf dia c = .obrak
  · rw [if_pos h1] at h; obtain ⟨h2, _⟩ := L.pure_ok_inv h; subst h2
    exact ⟨⟨by simp [h16'.1], h16'.2⟩, fun _ h => by cases h⟩
  rw [if_neg h1] at h
  by_cases h2 : classOf dia c = .cbrak
  · rw [if_pos h2] at h; obtain ⟨h2, _⟩ := L.pure_ok_inv h; subst h2
    exact ⟨⟨by simp [h16'.1], h16'.2⟩, fun _ h => by cases h⟩
  rw [if_neg h2] at h
  by_cases h3 : classOf dia c = .ocurl
  · rw [if_pos h3] at h; obtain ⟨h2, _⟩ := L.pure_ok_inv h; subst h2
    exact ⟨⟨by simp [h16'.1], h16'.2⟩, fun _ h => by cases h⟩
  rw [if_neg h3] at h
  by_cases h4 : classOf dia c = .ccurl
  · rw [if_pos h4] at h; obtain ⟨h2, _⟩ := L.pure_ok_inv h; subst h2
    exact ⟨⟨by simp [h16'.1], h16'.2⟩, fun _ h => by cases h⟩
  rw [if_neg h4] at h
  by_cases hq : classOf dia c = .quote
  · rw [if_pos hq] at h
    obtain ⟨s, l1, hs, h5⟩ := L.bind_ok_inv h
    obtain ⟨h5, _⟩ := L.pure_ok_inv h5; subst h5
    have hu16 := scanDelim_u16 dia c _ _ _ _ _ _ _ _ _ _ hs h16'.2 (by simp)
    refine ⟨keyPeek_u16 _ _ (by simpa using hu16.1) hu16.2, ?_⟩
    intro hpol
    subst hpol
    obtain ⟨htc, hlc⟩ := quote_not_surrogate hq
    have := scanDelim_quiet dia c htc hlc _ _ _ _ _ _ _ _ _ hs h16'.2 (fun k _ => by simp [goodRev])
    exact keyPeek_keyGood _ (by simpa using this)
  rw [if_neg hq] at h
  by_cases hs : classOf dia c = .semi
  · rw [if_pos hs] at h
    by_cases hcol : col + 1 = 1
    · rw [if_pos hcol] at h
      obtain ⟨s, l1, hs1, h5⟩ := L.bind_ok_inv h
      have hu16 := scanText_u16 dia _ _ _ _ _ _ _ _ _ _ hs1 h16'.2 (by simp)
      by_cases hd : dia = .cif2
      · rw [if_pos hd] at h5
        obtain ⟨h5, _⟩ := L.pure_ok_inv h5; subst h5
        exact ⟨keyPeek_u16 _ _ (by simpa using hu16.1) hu16.2, fun _ => keyPeek_notKey _ _ (by decide) (by decide)⟩
      · rw [if_neg hd] at h5
        obtain ⟨h5, _⟩ := L.pure_ok_inv h5; subst h5
        exact ⟨⟨by simpa [mkTok] using hu16.1, hu16.2⟩, fun _ h => by cases h⟩
    · rw [if_neg hcol] at h
      obtain ⟨s, l1, hs1, h5⟩ := L.bind_ok_inv h
      have hu16 := scanUnquoted_u16 dia _ _ _ _ _ _ _ _ _ _ _ _ hs1 h16 (by simp)
      have := finishUnquoted_u16 h5 (by simpa using hu16.1) hu16.2
      exact ⟨this.1, fun _ => this.2⟩
  · rw [if_neg hs] at h
    obtain ⟨s, l1, hs1, h5⟩ := L.bind_ok_inv h
    have hu16 := scanUnquoted_u16 dia _ _ _ _ _ _ _ _ _ _ _ _ hs1 h16 (by simp)
    have := finishUnquoted_u16 h5 (by simpa using hu16.1) hu16.2
    exact ⟨this.1, fun _ => this.2⟩

theorem tokLoop_quiet (dia : Dialect) (pol : Policy) : ∀ (f : Nat) (aw : Bool) (p : Pos) (l l' : List Report) (t : Tok) (p' : Pos),
    tokLoop dia f aw p pol l = .ok (t, p') l' → U16 p.rest →
    U16 t.text ∧ U16 p'.rest ∧ (pol = dieAll → t.ty = .key → goodRev t.text.reverse = true) := by
  intro f
  induction f with
  | zero =>
    intro aw p l l' t p' h h16
    simp only [tokLoop, pure_eq] at h
    obtain ⟨h1, _⟩ := L.pure_ok_inv h
    simp only [Prod.mk.injEq] at h1
    obtain ⟨h1, h2⟩ := h1
    subst h1; subst h2
    exact ⟨by simp, h16, fun _ h => by cases h⟩
  | succ f ih =>
    intro aw p l l' t p' h h16
    obtain ⟨rest, line, col⟩ := p
    cases rest with
    | nil =>
      rw [tokLoop_nil] at h
      simp only [Res.ok.injEq, Prod.mk.injEq] at h
      obtain ⟨⟨h1, h2⟩, h3⟩ := h
      subst h1; subst h2
      exact ⟨by simp, by simp, fun _ h => by cases h⟩
    | cons c r =>
      rw [tokLoop_cons] at h
      obtain ⟨st, l1, hst, h2⟩ := L.bind_ok_inv h
      obtain ⟨hu, hk⟩ := stepTok_quiet dia aw c r line col pol l l1 st hst h16
      cases st with
      | tok t1 p1 =>
        simp only [] at h2
        obtain ⟨h3, _⟩ := L.pure_ok_inv h2
        simp only [Prod.mk.injEq] at h3
        obtain ⟨h3, h4⟩ := h3
        subst h3; subst h4
        exact ⟨hu.1, hu.2, hk⟩
      | skip aw' p1 =>
        simp only [] at h2
        exact ih aw' p1 l1 l' t p' h2 hu

/-- next_token, any policy: token text and remaining input consist of UTF-16 code units if the input does -/
theorem nextToken_u16 {dia : Dialect} {s s' : Scan} {pol : Policy} {l l' : List Report} {t : Tok}
    (h : nextToken dia s pol l = .ok (t, s') l') (h16 : U16 s.rest) : U16 t.text ∧ U16 s'.rest := by
  obtain ⟨p, hl, hs⟩ := nextToken_ok_inv h
  obtain ⟨h1, h2, _⟩ := tokLoop_quiet dia pol _ _ _ _ _ _ _ hl h16
  subst hs
  exact ⟨h1, h2⟩

/-- **the scanner fact behind C03_reported for CIF_INVALID_INDEX**: a KEY token (quoted or triple-quoted string directly
    followed by `:`) that next_token delivers under `cif_parse_error_die` — i.e. that was scanned without any report — is a
    table key that `cif_value_set_item_by_key` accepts: no NUL (`cstr` keeps all of it), no disallowed character, no unpaired
    surrogate -/
theorem C03_quiet_key_valid {dia : Dialect} {s s' : Scan} {l l' : List Report} {t : Tok}
    (h : nextToken dia s dieAll l = .ok (t, s') l') (h16 : U16 s.rest) (hk : t.ty = .key) :
    cstr t.text = t.text ∧ hasDisallowed (cstr t.text) = false := by
  obtain ⟨p, hl, hs⟩ := nextToken_ok_inv h
  obtain ⟨_, _, h3⟩ := tokLoop_quiet dia dieAll _ _ _ _ _ _ _ hl h16
  have hg := h3 rfl hk
  have hn : cstr t.text = t.text := by
    have hall : ∀ (u : Str), (∀ c ∈ u, c ≠ 0) → cstr u = u := by
      intro u
      unfold cstr
      induction u with
      | nil => intro _; rfl
      | cons c r ih =>
        intro hu
        have hc : c ≠ 0 := hu c (by simp)
        simp only [List.takeWhile_cons, ne_eq, hc, not_false_eq_true, decide_true, if_true]
        rw [ih (fun x hx => hu x (by simp [hx]))]
    exact hall _ (fun c hc => goodRev_noNul _ hg c (by simpa using hc))
  have := goodRev_hasDisallowed _ hg
  rw [List.reverse_reverse] at this
  exact ⟨hn, by rw [hn]; exact this⟩

/-! ### "quiet" for an arbitrary policy -/

/-- a scanner action that, under some policy, ends normally and leaves the log as it was has reported nothing; it ends in
    the same way under `cif_parse_error_die` -/
theorem quiet_die {α} {m : L α} (hd : DetL m) {pol : Policy} {l : List Report} {a : α} (h : m pol l = .ok a l) :
    m dieAll l = .ok a l := by
  obtain ⟨d, hlog, _, hres⟩ := hd.run pol l
  cases hz : firstNZ pol l.length d with
  | some x => rw [hz] at hres; simp only [] at hres; rw [h] at hres; cases hres
  | none =>
    rw [hz] at hres
    simp only [] at hres
    rw [← hres, h] at hlog
    simp only [logOfL] at hlog
    have hd0 : d = [] := by
      have : ([] : List Report) ++ l = d ++ l := by simpa using hlog
      exact (List.append_cancel_right this).symm
    obtain ⟨d', hlog', _, hres'⟩ := hd.run dieAll l
    rw [← hres, h] at hlog'
    simp only [logOfL] at hlog'
    have hd1 : d' = [] := by
      have : ([] : List Report) ++ l = d' ++ l := by simpa using hlog'
      exact (List.append_cancel_right this).symm
    subst hd1
    simp only [firstNZ] at hres'
    rw [hres', ← hres, h]

/-- `C03_quiet_key_valid` for an arbitrary policy: the log did not grow -/
theorem C03_quiet_key_valid_pol {dia : Dialect} {s s' : Scan} {pol : Policy} {l : List Report} {t : Tok}
    (h : nextToken dia s pol l = .ok (t, s') l) (h16 : U16 s.rest) (hk : t.ty = .key) :
    cstr t.text = t.text ∧ hasDisallowed (cstr t.text) = false :=
  C03_quiet_key_valid (quiet_die (nextToken_detl dia s) h) h16 hk

/-! ### the hypothesis `U16` is needed; an instance -/

/-- a "unit" ≥ 65536 (not a UTF-16 code unit) is GENERAL for the scanner and disallowed for `cif_has_disallowed_chars` -/
example : (match nextToken .cif2 ⟨[39, 70000, 39] ++ a!":1}", 1, 1, .otable⟩ dieAll [] with
    | .ok (t, _) l => t.ty == .key && l.isEmpty && hasDisallowed (cstr t.text)
    | .abort _ _ => false) = true := by decide +kernel

/-- a triple-quoted key with an embedded quote: delivered silently, and valid -/
example : (match nextToken .cif2 ⟨[39, 39, 39, 107, 39, 107, 39, 39, 39] ++ a!":1}", 1, 1, .otable⟩ dieAll [] with
    | .ok (t, _) l => t.ty == .key && l.isEmpty && t.text == [107, 39, 107] && !hasDisallowed (cstr t.text)
    | .abort _ _ => false) = true := by decide +kernel

end CifModel.Model.Lexer
