import CifModel.Lemmas.ParserDefectLex

/-!
# C12, token level: the save-frame classes, universally over the surrounding elements of the data block

`CIF_EOF_IN_FRAME`, `CIF_NO_FRAME_TERM` (a block header inside a frame; a frame header inside a frame when frames do not nest),
`CIF_FRAME_NOT_ALLOWED` (frames switched off).  Composition at the level of the elements of a data block (`elems_structure`
before and behind), since the recovery changes the frames of the block, not its loops.
-/

set_option linter.unusedSimpArgs false
set_option linter.unusedVariables false

namespace CifModel.Model.Parser
open CifModel CifModel.Model CifModel.Model.Lexer CifModel.Spec.Grammar CifModel.Spec.Lexical
open CifModel.Gen.ErrCodes

/-- the token that ends a save frame which has no `save_`: the end of the input, the next block header, or (frames do not
    nest) the next frame header -/
def endsOpenFrame (o : Opts) (ty : TokType) : Prop :=
  ty = .end_ ∨ ty = .blockHead ∨ (ty = .frameHead ∧ o.maxFrameDepth = 1)

def openFrameCode (ty : TokType) : Code := if ty = .end_ then CIF_EOF_IN_FRAME else CIF_NO_FRAME_TERM

theorem endsOpenFrame_term {o : Opts} {ty : TokType} (h : endsOpenFrame o ty) : isTerminator ty = true := by
  rcases h with h | h | ⟨h, _⟩ <;> subst h <;> rfl

/-- a save frame without terminator: one report (CIF_EOF_IN_FRAME at the end of the input, else CIF_NO_FRAME_TERM); the frame
    is closed and kept with its content; the token that ended it is looked at again by the loop of the data block -/
theorem frame_open_step (o : Opts) (done : Cif) (bcode : Str) (hfresh : ∀ c ∈ done, codeIs o.norm (o.norm bcode) c = false)
    (fc : Str) (body : List Item) (ty : TokType) (tx : Str) (rest : List TokSpec) (s : PS) (fuel : Nat) (w : W) (fs : List Container)
    (ls : List Loop) (hcif : w.cif = done ++ [.mk bcode fs ls]) (hmfd : o.maxFrameDepth ≠ 0) (hcode : wfCode fc = true)
    (hnew : ∀ c ∈ fs, codeIs o.norm (o.norm fc) c = false) (hwb : wfItems o body [] = true)
    (hfuel : szItems body + body.length + 3 ≤ fuel) (hty : endsOpenFrame o ty)
    (hF : Feeds o s ((.frameHead, fc) :: (itemsToks body ++ (ty, tx) :: rest))) :
    ∃ s' r, elemsLoop o (fuel + 1) s (some [o.norm bcode]) true acceptAll w
        = elemsLoop o fuel s' (some [o.norm bcode]) true acceptAll
            { log := r :: w.log, cif := done ++ [.mk bcode (fs ++ [.mk fc [] (denoteItems o.dia o.normKey body [])]) ls] }
      ∧ r.code = openFrameCode ty ∧ Feeds o s' ((ty, tx) :: rest) := by
  simp only [wfCode, Bool.and_eq_true] at hcode
  obtain ⟨t, s1, hty1, htx1, hn, _, hr⟩ := hF.inv
  obtain ⟨X, hX⟩ : ∃ X, fuel = X + 1 := ⟨fuel - 1, by omega⟩
  obtain ⟨g, hg⟩ : ∃ g, X = (g + 1) + body.length := ⟨X - body.length - 1, by omega⟩
  have hvf := View.frame o done bcode fs ls fc hfresh hnew
  obtain ⟨s2, h1, h2⟩ := items_structure o hvf body [] ((ty, tx) :: rest) (consume s1) (g + 1) acceptAll
    { w with cif := done ++ [.mk bcode (fs ++ [.mk fc [] []]) ls] } [] [] false rfl hwb
    (by intro k hk; simp [normNames] at hk) (by omega) (fun _ => ⟨_, _, _, rfl, endsOpenFrame_term hty⟩) hr
  obtain ⟨t3, s3, hty3, htx3, hn3, ht3, hr3⟩ := h2.inv
  have hpend : Feeds o s3 ((ty, tx) :: rest) := by rw [← hty3, ← htx3]; exact Feeds.pending ht3 hr3
  have hpacked : allPacked (denoteItems o.dia o.normKey body []) :=
    allPacked_denoteItems o body [] [] hwb (by intro l hl; cases hl)
  rw [← hg] at h1
  refine ⟨s3, ⟨openFrameCode ty, s3.scan.line, if ty = .end_ then s3.scan.col else s3.scan.col - t3.text.length⟩, ?_, rfl, hpend⟩
  conv => lhs; rw [elemsLoop]
  simp only [bind_eq, pure_eq, P.bind, P.pure, hn, hty1, htx1, cstr_noNul hcode.2, Bool.not_true, and_false, false_and, if_false, hmfd,
    Bool.false_eq_true, createIn_frame o done bcode hfresh fc fs ls _ _ acceptAll w hcif hcode.1 hnew]
  conv => lhs; rw [hX, parseContainer]
  simp only [bind_eq, pure_eq, P.bind, P.pure, h1]
  conv => lhs; rw [elemsLoop]
  rcases hty with h | h | ⟨h, hd⟩
  · subst h
    simp only [bind_eq, pure_eq, P.bind, P.pure, hn3, hty3, Bool.false_eq_true, if_false, if_true, report_accept, getCif, setCif,
      hvf.upd, pruneC_packed _ _ _ hpacked, openFrameCode]
    rw [hX]
  · subst h
    simp only [bind_eq, pure_eq, P.bind, P.pure, hn3, hty3, Bool.false_eq_true, if_false, report_accept, getCif, setCif,
      hvf.upd, pruneC_packed _ _ _ hpacked, openFrameCode, reduceCtorEq]
    rw [hX]
  · subst h
    simp only [bind_eq, pure_eq, P.bind, P.pure, hn3, hty3, hd, Bool.false_eq_true, if_false, Bool.not_false, and_true, and_self,
      if_true, Nat.succ_ne_zero, false_and, report_accept, getCif, setCif, hvf.upd, pruneC_packed _ _ _ hpacked, openFrameCode,
      reduceCtorEq]
    rw [if_neg (by decide)]
    simp only [bind_eq, pure_eq, P.bind, P.pure, report_accept, hvf.upd, pruneC_packed _ _ _ hpacked]
    rw [hX]


/-! ### composition at the level of the elements of a data block -/

theorem denoteElems_append (dia : Dialect) (nk : Str → Str) : ∀ (a b : List Elem) (fs : List Container) (ls : List Loop),
    denoteElems dia nk (a ++ b) fs ls = denoteElems dia nk b (denoteElems dia nk a fs ls).1 (denoteElems dia nk a fs ls).2
  | [], b, fs, ls => by simp [denoteElems]
  | .plain i :: r, b, fs, ls => by
    rw [List.cons_append, denoteElems_plain, denoteElems_plain]; exact denoteElems_append dia nk r b _ _
  | .frame c bd :: r, b, fs, ls => by
    rw [List.cons_append, denoteElems_frame, denoteElems_frame]; exact denoteElems_append dia nk r b _ _

/-- well-formed elements, ONE defective construct `D` (one iteration of the element loop, `hstep`), well-formed elements; `R` =
    the elements the documented recovery makes of the construct -/
theorem elems_defect_run (o : Opts) (done : Cif) (bcode : Str) (hfresh : ∀ c ∈ done, codeIs o.norm (o.norm bcode) c = false)
    (hmfd : o.maxFrameDepth ≠ 0) (pre post R : List Elem) (D : List TokSpec) (C : Code) (need : Nat)
    (seen fseen seen2 fseen2 : List Str) (rest : List TokSpec) (s : PS) (fuel : Nat) (w : W) (fs : List Container) (ls : List Loop)
    (hcif : w.cif = done ++ [.mk bcode fs ls]) (hpre : wfElems o pre seen fseen = true)
    (hseen : ∀ k ∈ normNames o ls, k ∈ seen) (hfseen : ∀ c ∈ fs, o.norm c.code ∈ fseen)
    (hpost : wfElems o post seen2 fseen2 = true)
    (hseen2 : ∀ k ∈ normNames o (denoteElems o.dia o.normKey (pre ++ R) fs ls).2, k ∈ seen2)
    (hfseen2 : ∀ c ∈ (denoteElems o.dia o.normKey (pre ++ R) fs ls).1, o.norm c.code ∈ fseen2)
    (hstep : ∀ (s1 : PS) (w1 : W) (f : Nat),
      w1.cif = done ++ [.mk bcode (denoteElems o.dia o.normKey pre fs ls).1 (denoteElems o.dia o.normKey pre fs ls).2] → need ≤ f →
      Feeds o s1 (D ++ (elemsToks post ++ rest)) →
      ∃ s2 r, elemsLoop o (f + 1) s1 (some [o.norm bcode]) true acceptAll w1
          = elemsLoop o f s2 (some [o.norm bcode]) true acceptAll
              { log := r :: w1.log,
                cif := done ++ [.mk bcode (denoteElems o.dia o.normKey (pre ++ R) fs ls).1 (denoteElems o.dia o.normKey (pre ++ R) fs ls).2] }
        ∧ r.code = C ∧ Feeds o s2 (elemsToks post ++ rest))
    (hfuel : szElems pre + szElems post + need + 1 ≤ fuel)
    (hpreTerm : ∃ ty tx ts, D ++ (elemsToks post ++ rest) = (ty, tx) :: ts ∧ isTerminator ty = true)
    (hrest : ∃ ty tx ts, rest = (ty, tx) :: ts ∧ isTerminator ty = true)
    (hF : Feeds o s (elemsToks pre ++ (D ++ (elemsToks post ++ rest)))) :
    ∃ s' r, elemsLoop o (fuel + post.length + 1 + pre.length) s (some [o.norm bcode]) true acceptAll w
        = elemsLoop o fuel s' (some [o.norm bcode]) true acceptAll
            { log := r :: w.log,
              cif := done ++ [.mk bcode (denoteElems o.dia o.normKey (pre ++ R ++ post) fs ls).1
                (denoteElems o.dia o.normKey (pre ++ R ++ post) fs ls).2] }
      ∧ r.code = C ∧ Feeds o s' rest := by
  obtain ⟨s1, h1, h2⟩ := elems_structure o done bcode hfresh hmfd pre seen fseen _ s (fuel + post.length + 1) acceptAll w fs ls hcif
    hpre hseen hfseen (by omega) hpreTerm hF
  obtain ⟨s2, r, h3, hr, h4⟩ := hstep s1
    { w with cif := done ++ [.mk bcode (denoteElems o.dia o.normKey pre fs ls).1 (denoteElems o.dia o.normKey pre fs ls).2] }
    (fuel + post.length) rfl (by omega) h2
  obtain ⟨s3, h5, h6⟩ := elems_structure o done bcode hfresh hmfd post seen2 fseen2 rest s2 fuel acceptAll
    { log := r :: w.log,
      cif := done ++ [.mk bcode (denoteElems o.dia o.normKey (pre ++ R) fs ls).1 (denoteElems o.dia o.normKey (pre ++ R) fs ls).2] }
    _ _ rfl hpost hseen2 hfseen2 (by omega) hrest h4
  refine ⟨s3, r, ?_, hr, h6⟩
  rw [h1, h3, h5, denoteElems_append o.dia o.normKey (pre ++ R) post]

/-- **a save frame without terminator**, universally: any well-formed elements before it; behind it the end of the input or the
    next block header (then `post = []`), or — frames do not nest — the next save frame and any well-formed elements.  One
    report; the content is that of the document in which the frame is terminated. -/
theorem frame_open_run (o : Opts) (done : Cif) (bcode : Str) (hfresh : ∀ c ∈ done, codeIs o.norm (o.norm bcode) c = false)
    (hmfd : o.maxFrameDepth ≠ 0) (pre post : List Elem) (fc : Str) (body : List Item)
    (seen fseen seen2 fseen2 : List Str) (ty : TokType) (tx : Str) (ts rest : List TokSpec) (s : PS) (fuel : Nat) (w : W)
    (fs : List Container) (ls : List Loop)
    (hcif : w.cif = done ++ [.mk bcode fs ls]) (hpre : wfElems o pre seen fseen = true)
    (hseen : ∀ k ∈ normNames o ls, k ∈ seen) (hfseen : ∀ c ∈ fs, o.norm c.code ∈ fseen)
    (hcode : wfCode fc = true) (hnew : ∀ c ∈ (denoteElems o.dia o.normKey pre fs ls).1, codeIs o.norm (o.norm fc) c = false)
    (hwb : wfItems o body [] = true)
    (hpost : wfElems o post seen2 fseen2 = true)
    (hseen2 : ∀ k ∈ normNames o (denoteElems o.dia o.normKey (pre ++ [.frame fc (body.map Elem.plain)]) fs ls).2, k ∈ seen2)
    (hfseen2 : ∀ c ∈ (denoteElems o.dia o.normKey (pre ++ [.frame fc (body.map Elem.plain)]) fs ls).1, o.norm c.code ∈ fseen2)
    (hfuel : szElems pre + szElems post + (szItems body + body.length + 3) + 1 ≤ fuel)
    (hnext : elemsToks post ++ rest = (ty, tx) :: ts) (hty : endsOpenFrame o ty)
    (hrest : ∃ ty tx ts, rest = (ty, tx) :: ts ∧ isTerminator ty = true)
    (hF : Feeds o s (elemsToks pre ++ (((.frameHead, fc) :: itemsToks body) ++ (elemsToks post ++ rest)))) :
    ∃ s' r, elemsLoop o (fuel + post.length + 1 + pre.length) s (some [o.norm bcode]) true acceptAll w
        = elemsLoop o fuel s' (some [o.norm bcode]) true acceptAll
            { log := r :: w.log,
              cif := done ++ [.mk bcode (denoteElems o.dia o.normKey (pre ++ [.frame fc (body.map Elem.plain)] ++ post) fs ls).1
                (denoteElems o.dia o.normKey (pre ++ [.frame fc (body.map Elem.plain)] ++ post) fs ls).2] }
      ∧ r.code = openFrameCode ty ∧ Feeds o s' rest := by
  refine elems_defect_run o done bcode hfresh hmfd pre post [.frame fc (body.map Elem.plain)] ((.frameHead, fc) :: itemsToks body) (openFrameCode ty)
    (szItems body + body.length + 3) seen fseen seen2 fseen2 rest s fuel w fs ls hcif hpre hseen hfseen hpost hseen2 hfseen2 ?_ hfuel
    ⟨_, _, _, rfl, rfl⟩ hrest hF
  intro s1 w1 f hw1 hf hF1
  rw [hnext] at hF1 ⊢
  obtain ⟨s2, r, h1, h2, h3⟩ := frame_open_step o done bcode hfresh fc body ty tx ts s1 f w1 _ _ hw1 hmfd hcode hnew hwb hf hty
    (by simpa using hF1)
  refine ⟨s2, r, ?_, h2, h3⟩
  rw [h1, denoteElems_append]
  simp [denoteElems, denoteElem, denoteElems_plains]

/-! ### frames switched off (`max_frame_depth = 0`) -/

/-- a (terminated) save frame in a data block when frames are switched off: one CIF_FRAME_NOT_ALLOWED; the frame is parsed and
    kept as if one level of frames were allowed -/
theorem frame_not_allowed_step (o : Opts) (done : Cif) (bcode : Str) (hfresh : ∀ c ∈ done, codeIs o.norm (o.norm bcode) c = false)
    (fc : Str) (body : List Item) (rest : List TokSpec) (s : PS) (fuel : Nat) (w : W) (fs : List Container)
    (ls : List Loop) (hcif : w.cif = done ++ [.mk bcode fs ls]) (hmfd : o.maxFrameDepth = 0) (hcode : wfCode fc = true)
    (hnew : ∀ c ∈ fs, codeIs o.norm (o.norm fc) c = false) (hwb : wfItems o body [] = true)
    (hfuel : szItems body + body.length + 3 ≤ fuel)
    (hF : Feeds o s ((.frameHead, fc) :: (itemsToks body ++ (.frameTerm, []) :: rest))) :
    ∃ s' r, elemsLoop o (fuel + 1) s (some [o.norm bcode]) true acceptAll w
        = elemsLoop o fuel s' (some [o.norm bcode]) true acceptAll
            { log := r :: w.log, cif := done ++ [.mk bcode (fs ++ [.mk fc [] (denoteItems o.dia o.normKey body [])]) ls] }
      ∧ r.code = CIF_FRAME_NOT_ALLOWED ∧ Feeds o s' rest := by
  simp only [wfCode, Bool.and_eq_true] at hcode
  obtain ⟨t, s1, hty, htx, hn, _, hr⟩ := hF.inv
  obtain ⟨X, hX⟩ : ∃ X, fuel = X + 1 := ⟨fuel - 1, by omega⟩
  obtain ⟨g, hg⟩ : ∃ g, X = (g + 1) + body.length := ⟨X - body.length - 1, by omega⟩
  have hvf := View.frame o done bcode fs ls fc hfresh hnew
  let r0 : Report := ⟨CIF_FRAME_NOT_ALLOWED, s1.scan.line, s1.scan.col - fc.length⟩
  obtain ⟨s2, h1, h2⟩ := items_structure o hvf body [] ((.frameTerm, []) :: rest) (consume s1) (g + 1) acceptAll
    { log := r0 :: w.log, cif := done ++ [.mk bcode (fs ++ [.mk fc [] []]) ls] } [] [] false rfl hwb
    (by intro k hk; simp [normNames] at hk) (by omega) (fun _ => ⟨_, _, _, rfl, rfl⟩) hr
  obtain ⟨t3, s3, hty3, _, hn3, _, hr3⟩ := h2.inv
  refine ⟨consume s3, r0, ?_, rfl, hr3⟩
  have hpacked : allPacked (denoteItems o.dia o.normKey body []) :=
    allPacked_denoteItems o body [] [] hwb (by intro l hl; cases hl)
  rw [← hg] at h1
  conv => lhs; rw [elemsLoop]
  simp only [bind_eq, pure_eq, P.bind, P.pure, hn, hty, htx, cstr_noNul hcode.2, Bool.not_true, and_false, false_and, if_false, hmfd,
    Bool.false_eq_true, if_true, report_accept,
    createIn_frame o done bcode hfresh fc fs ls _ _ acceptAll { w with log := r0 :: w.log } hcif hcode.1 hnew, r0]
  conv => lhs; rw [hX, parseContainer]
  simp only [bind_eq, pure_eq, P.bind, P.pure, h1, r0]
  conv => lhs; rw [elemsLoop]
  simp only [bind_eq, pure_eq, P.bind, P.pure, hn3, hty3, Bool.false_eq_true, if_false, getCif, setCif, hvf.upd,
    pruneC_packed _ _ _ hpacked]
  rw [hX]

/-- frames switched off, universally: any well-formed items before and behind the frame (further frames would each be
    reported); one report, the frame is kept -/
theorem frame_not_allowed_run (o : Opts) (done : Cif) (bcode : Str) (hfresh : ∀ c ∈ done, codeIs o.norm (o.norm bcode) c = false)
    (hmfd : o.maxFrameDepth = 0) (pre post : List Item) (fc : Str) (body : List Item) (seen seen2 : List Str)
    (rest : List TokSpec) (s : PS) (fuel : Nat) (w : W) (fs : List Container) (ls : List Loop)
    (hcif : w.cif = done ++ [.mk bcode fs ls]) (hpre : wfItems o pre seen = true) (hseen : ∀ k ∈ normNames o ls, k ∈ seen)
    (hcode : wfCode fc = true) (hnew : ∀ c ∈ fs, codeIs o.norm (o.norm fc) c = false) (hwb : wfItems o body [] = true)
    (hpost : wfItems o post seen2 = true) (hseen2 : ∀ k ∈ normNames o (denoteItems o.dia o.normKey pre ls), k ∈ seen2)
    (hfuel : szItems pre + szItems post + (szItems body + body.length + 3) + 1 ≤ fuel)
    (hrest : lastIsLoop post = true → ∃ ty tx ts, rest = (ty, tx) :: ts ∧ isTerminator ty = true)
    (hF : Feeds o s (itemsToks pre ++ ((.frameHead, fc) :: (itemsToks body ++ (.frameTerm, []) :: (itemsToks post ++ rest))))) :
    ∃ s' r, elemsLoop o (fuel + post.length + 1 + pre.length) s (some [o.norm bcode]) true acceptAll w
        = elemsLoop o fuel s' (some [o.norm bcode]) true acceptAll
            { log := r :: w.log,
              cif := done ++ [.mk bcode (fs ++ [.mk fc [] (denoteItems o.dia o.normKey body [])])
                (denoteItems o.dia o.normKey (pre ++ post) ls)] }
      ∧ r.code = CIF_FRAME_NOT_ALLOWED ∧ Feeds o s' rest := by
  have hv := View.block o done bcode hfresh
  obtain ⟨s1, h1, h2⟩ := items_structure o hv pre seen _ s (fuel + post.length + 1) acceptAll w fs ls true hcif hpre hseen
    (by omega) (fun _ => ⟨_, _, _, rfl, rfl⟩) hF
  obtain ⟨s2, r, h3, hr, h4⟩ := frame_not_allowed_step o done bcode hfresh fc body (itemsToks post ++ rest) s1 (fuel + post.length)
    { w with cif := done ++ [.mk bcode fs (denoteItems o.dia o.normKey pre ls)] } fs _ rfl hmfd hcode hnew hwb (by omega) h2
  obtain ⟨s3, h5, h6⟩ := items_structure o hv post seen2 rest s2 fuel acceptAll
    { log := r :: w.log,
      cif := done ++ [.mk bcode (fs ++ [.mk fc [] (denoteItems o.dia o.normKey body [])]) (denoteItems o.dia o.normKey pre ls)] }
    _ _ true rfl hpost hseen2 (by omega) hrest h4
  exact ⟨s3, r, by rw [h1, h3, h5, denoteItems_append], hr, h6⟩

end CifModel.Model.Parser
