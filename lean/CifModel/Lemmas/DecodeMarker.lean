import CifModel.Lemmas.WriterText
/-
  `decode_text` on a body that starts with one of the three marker lines `write_text` prints, and on an unmarked body.
-/
namespace CifModel.Lemmas.DecodeMarker
open CifModel.Model.Decode
open CifModel.Model.Writer (textMarker flat PREFIX BSL)
open CifModel.Lemmas.DecodeLines
open CifModel.Lemmas.WriterText (pfx pfx_noEol)
open CifModel.Spec.TextProtocol (unfoldLines)

theorem flat_cons (p : Str) (ps : List Str) : flat (p :: ps) = 10 :: body p ps := by
  induction ps generalizing p with
  | nil => simp [flat, body]
  | cons q qs ih =>
    have := ih q
    simp only [flat, body] at *
    rw [this]

theorem scanFirst_p (R : Str) : scanFirst (62 :: 32 :: 92 :: 10 :: R) 0 {} []
    = ({ lastBsl := 2, bslCount := 1, nonws := false }, [10, 92, 32, 62], R) := by
  simp [scanFirst, isWs]
theorem scanFirst_f (R : Str) : scanFirst (92 :: 10 :: R) 0 {} []
    = ({ lastBsl := 0, bslCount := 1, nonws := false }, [10, 92], R) := by
  simp [scanFirst]
theorem scanFirst_pf (R : Str) : scanFirst (62 :: 32 :: 92 :: 92 :: 10 :: R) 0 {} []
    = ({ lastBsl := 3, bslCount := 2, nonws := false }, [10, 92, 92, 32, 62], R) := by
  simp [scanFirst, isWs]

/-- after one of the writer's marker lines, `decode_text` (CIF 2.0 settings: unfolding and prefix removal enabled) computes
    the specification's decoding of the physical lines -/
theorem decodeText_marked (fold pre : Bool) (hfp : fold = true ∨ pre = true) (p : Str) (ps : List Str)
    (hp : NoEol p) (hps : ∀ q ∈ ps, NoEol q) :
    decodeText true true (textMarker fold pre ++ flat (p :: ps))
      = unfoldLines fold ((p :: ps).map (stripPrefix (pfx pre))) := by
  rw [flat_cons]
  have hfuel := body_length_pos_fuel p ps
  cases fold <;> cases pre
  · simp at hfp
  · -- prefix only: `> \`
    have h := decLines_body [62, 32] false p ps [] _ (pfx_noEol true) hp hps hfuel
    show decodeText true true (62 :: 32 :: 92 :: 10 :: body p ps) = _
    simp only [decodeText, scanFirst_p]
    simp [h, pfx, PREFIX]
  · -- folding only: `\`
    have h := decLines_body [] true p ps [] _ (pfx_noEol false) hp hps hfuel
    show decodeText true true (92 :: 10 :: body p ps) = _
    simp only [decodeText, scanFirst_f]
    simp [h, pfx]
  · -- both: `> \\`
    have h := decLines_body [62, 32] true p ps [] _ (pfx_noEol true) hp hps hfuel
    show decodeText true true (62 :: 32 :: 92 :: 92 :: 10 :: body p ps) = _
    simp only [decodeText, scanFirst_pf]
    simp [h, pfx, PREFIX]

/-! ### an unmarked body -/

/-- the statistics of the first-line scan over a terminator-free stretch -/
def scanStats : Str → Nat → FirstLine → FirstLine
  | [], _, st => st
  | c :: cs, i, st =>
    if c = 92 then scanStats cs (i + 1) { lastBsl := i, bslCount := st.bslCount + 1, nonws := false }
    else if isWs c then scanStats cs (i + 1) st
    else scanStats cs (i + 1) { st with nonws := true }

theorem scanFirst_line (l r : Str) (i : Nat) (st : FirstLine) (buf : Str) (h : NoEol l) :
    scanFirst (l ++ 10 :: r) i st buf = (scanStats l i st, 10 :: (l.reverse ++ buf), r) := by
  induction l generalizing i st buf with
  | nil => simp [scanFirst, scanStats]
  | cons c cs ih =>
    have hc := h.head
    simp only [List.cons_append, scanFirst, scanStats, hc.1, hc.2, ↓reduceIte]
    split
    · rw [ih _ _ _ h.tail]; simp
    · split
      · rw [ih _ _ _ h.tail]; simp
      · rw [ih _ _ _ h.tail]; simp

theorem scanFirst_last (l : Str) (i : Nat) (st : FirstLine) (buf : Str) (h : NoEol l) :
    scanFirst l i st buf = (scanStats l i st, l.reverse ++ buf, []) := by
  induction l generalizing i st buf with
  | nil => simp [scanFirst, scanStats]
  | cons c cs ih =>
    have hc := h.head
    simp only [scanFirst, scanStats, hc.1, hc.2, ↓reduceIte]
    split
    · rw [ih _ _ _ h.tail]; simp
    · split
      · rw [ih _ _ _ h.tail]; simp
      · rw [ih _ _ _ h.tail]; simp

open CifModel.Spec.TextProtocol (endsBslBlank isBlank) in
/-- the scan sees "a backslash, then blanks only" exactly when the line ends that way -/
theorem scanStats_marker (l : Str) (i : Nat) (st : FirstLine) :
    ((scanStats l i st).nonws = false ∧ 1 ≤ (scanStats l i st).bslCount) →
      endsBslBlank l = true ∨ (l.all isBlank = true ∧ st.nonws = false ∧ 1 ≤ st.bslCount) := by
  induction l generalizing i st with
  | nil => intro h; right; simpa [scanStats] using h
  | cons c cs ih =>
    intro h
    simp only [scanStats] at h
    by_cases h92 : c = 92
    · subst h92
      simp only [↓reduceIte] at h
      rcases ih _ _ h with h1 | h1
      · left; simp [endsBslBlank, h1]
      · left; simp [endsBslBlank, h1.1]
    · simp only [h92, ↓reduceIte] at h
      by_cases hb : isWs c = true
      · simp only [hb, ↓reduceIte] at h
        rcases ih _ _ h with h1 | h1
        · left; simp [endsBslBlank, h1]
        · right
          have : isBlank c = true := hb
          simp [this, h1.1, h1.2]
      · simp only [hb, Bool.false_eq_true, ↓reduceIte] at h
        rcases ih _ _ h with h1 | h1
        · left; simp [endsBslBlank, h1]
        · simp at h1

/-- without CR the terminator conversion is the identity (buffers reversed) -/
theorem convertEol_noCR (inp buf : Str) (h : (13 : CU) ∉ inp) : convertEol inp buf = inp.reverse ++ buf := by
  unfold convertEol
  suffices ∀ (s : EolSt), s.cr = false → (inp.foldl eolStep s).out = inp.reverse ++ s.out from this _ rfl
  induction inp with
  | nil => intro s _; rfl
  | cons c cs ih =>
    intro s hs
    have hc : c ≠ 13 := fun e => h (e ▸ List.mem_cons_self)
    have hcs : (13 : CU) ∉ cs := fun e => h (List.mem_cons_of_mem _ e)
    have hstep : eolStep s c = { out := c :: s.out, cr := false } := by
      simp [eolStep, hc, hs]
    simp only [List.foldl_cons, hstep]
    rw [ih hcs _ rfl]
    simp

/-- the first logical line -/
def firstLine (s : Str) : Str := s.takeWhile (· != 10)

theorem firstLine_split (s : Str) : s = firstLine s ∨ ∃ r, s = firstLine s ++ 10 :: r := by
  induction s with
  | nil => left; rfl
  | cons c cs ih =>
    by_cases hc : c = 10
    · right; exact ⟨cs, by simp [firstLine, hc]⟩
    · have h1 : firstLine (c :: cs) = c :: firstLine cs := by simp [firstLine, hc]
      rcases ih with h | ⟨r, h⟩
      · left; rw [h1, ← h]
      · right; exact ⟨r, by rw [h1, List.cons_append, ← h]⟩

theorem mem_takeWhile' {p : CU → Bool} {l : Str} {x : CU} (h : x ∈ l.takeWhile p) : x ∈ l ∧ p x = true := by
  induction l with
  | nil => simp at h
  | cons c cs ih =>
    simp only [List.takeWhile] at h
    split at h
    · rcases List.mem_cons.mp h with h1 | h1
      · subst h1; exact ⟨List.mem_cons_self, by assumption⟩
      · exact ⟨List.mem_cons_of_mem _ (ih h1).1, (ih h1).2⟩
    · simp at h

theorem firstLine_no10 (s : Str) : (10 : CU) ∉ firstLine s := by
  intro h
  have := (mem_takeWhile' h).2
  simp at this

open CifModel.Spec.TextProtocol (endsBslBlank) in
/-- A body written without markers (`fold = prefix = 0`) is returned unchanged, provided it does not itself look marked:
    it starts with a semicolon, or its first line does not end in a backslash followed by blanks only. -/
theorem decodeText_plain (s : Str) (hcr : (13 : CU) ∉ s)
    (hplain : s.head? = some 59 ∨ endsBslBlank (firstLine s) = false) :
    decodeText true true s = s := by
  cases s with
  | nil => rfl
  | cons c0 rest =>
    simp only [decodeText]
    by_cases h59 : c0 = 59
    · simp [h59, convertEol_noCR _ _ (h59 ▸ hcr)]
    · have hp : endsBslBlank (firstLine (c0 :: rest)) = false := by
        rcases hplain with h | h
        · simp at h; exact absurd h h59
        · exact h
      have hfl : NoEol (firstLine (c0 :: rest)) :=
        CifModel.Lemmas.WriterText.noEol_of_no10_no13 (firstLine_no10 _)
          (fun h => hcr (mem_takeWhile' h).1)
      simp only [h59, false_or, Bool.true_eq_false, and_self, ↓reduceIte]
      -- the marker test fails
      have key : ∀ (st : FirstLine), st = scanStats (firstLine (c0 :: rest)) 0 {} →
          ¬(st.nonws = false ∧ (st.bslCount = 1 ∨ (st.bslCount = 2 ∧
              (st.lastBsl + 1 - (st.bslCount : Int) > 0) ∧
              (c0 :: rest)[(st.lastBsl + 1 - (st.bslCount : Int)).toNat]? = some 92))) := by
        intro st hst hcon
        have h1 : st.nonws = false ∧ 1 ≤ st.bslCount := by
          refine ⟨hcon.1, ?_⟩
          rcases hcon.2 with h | h
          · omega
          · omega
        rw [hst] at h1
        rcases scanStats_marker _ _ _ h1 with h2 | h2
        · rw [hp] at h2; cases h2
        · simp at h2
      rcases firstLine_split (c0 :: rest) with hs | ⟨r, hs⟩
      · have hsc := scanFirst_last (firstLine (c0 :: rest)) 0 {} [] hfl
        rw [← hs] at hsc
        rw [hsc]
        have k := key _ rfl
        rw [← hs] at k
        simp only [↓reduceIte] at k ⊢
        rw [if_neg k]
        simp [convertEol]
      · have hsc := scanFirst_line (firstLine (c0 :: rest)) r 0 {} [] hfl
        have hr : (13 : CU) ∉ r := by
          intro h; apply hcr; rw [hs]; simp [h]
        rw [← hs] at hsc
        rw [hsc]
        have k := key _ rfl
        simp only [↓reduceIte] at k ⊢
        rw [if_neg k, convertEol_noCR _ _ hr]
        simp only [List.append_nil, List.reverse_append, List.reverse_cons, List.reverse_reverse, List.reverse_nil,
          List.nil_append, List.append_assoc, List.cons_append]
        exact hs.symm

end CifModel.Lemmas.DecodeMarker
