import CifModel.Lemmas.LadderMap
import CifModel.Lemmas.LadderDeser
/-
  CifModel.Lemmas.LadderDeserTable — cif_table_deserialize (table blobs), as repaired by /repo 7285a53 / 2b403f6.
-/
namespace CifModel.Lemmas.Ladder
open CifModel.Model.Ladder CifModel.Spec.HeapTrace

theorem deserEntries_spec (k : Nat) : ∀ (bes : List BlobEntry) (tmp : MapSt) (s : St) (L : List Nat),
    (tmp.entries = [] → tmp.ut = none) → Inv s (tmp.ids ++ L) →
    (∃ m, (deserEntries k bes tmp s).1 = some m ∧ GoodE k s (deserEntries k bes tmp s).2 ∧
        Inv (deserEntries k bes tmp s).2 (m.ids ++ L) ∧ m.entries.length = tmp.entries.length + bes.length) ∨
    ((deserEntries k bes tmp s).1 = none ∧ BadE k s (deserEntries k bes tmp s).2 ∧ Inv (deserEntries k bes tmp s).2 L)
  | [], tmp, s, L, _, h => by
    left
    simp only [deserEntries]
    exact ⟨tmp, rfl, GoodE.refl k s, h, by simp⟩
  | be :: rest, tmp, s, L, hw, h => by
    have hclean : ∀ (s' : St), Inv s' (tmp.ids ++ L) → Inv (mapClean tmp.ut tmp.entries s') L ∧ Same s' (mapClean tmp.ut tmp.entries s') :=
      fun s' hs => mapClean_spec tmp.ut tmp.entries s' L hw (by simpa [mapSt_ids] using hs)
    simp only [deserEntries]
    rcases alloc_cases k s with ⟨hk, ha⟩ | ⟨hk, ha⟩ <;> simp only [ha]
    · right
      have ⟨c1, c2⟩ := hclean _ h.fail
      exact ⟨trivial, BadE.same ⟨1, Bad.alloc hk⟩ c2, c1⟩
    · have g1 := Good.alloc hk
      have i1 := h.alloc
      generalize ({ count := s.count + 1, evs := s.evs ++ [.alloc (s.count + 1)] } : St) = s1 at g1 i1 ⊢
      generalize s.count + 1 = kb at g1 i1 ⊢
      rcases alloc_cases k s1 with ⟨hk, ha⟩ | ⟨hk, ha⟩ <;> simp only [ha]
      · right
        have ⟨c1, c2⟩ := hclean _ (Inv.free i1.fail)
        exact ⟨trivial, BadE.same (g1.badE ⟨1, (Bad.alloc hk).free _⟩) c2, c1⟩
      · have g2 := g1.trans (Good.alloc hk)
        have i2 := i1.alloc
        generalize ({ count := s1.count + 1, evs := s1.evs ++ [.alloc (s1.count + 1)] } : St) = s2 at g2 i2 ⊢
        generalize s1.count + 1 = ob at g2 i2 ⊢
        rcases alloc_cases k s2 with ⟨hk, ha⟩ | ⟨hk, ha⟩ <;> simp only [ha]
        · right
          have i3 : Inv { count := s2.count + 1, evs := s2.evs ++ [.fail (s2.count + 1)] } (ob :: kb :: (tmp.ids ++ L)) := i2.fail
          have ⟨c1, c2⟩ := hclean _ i3.free.free
          exact ⟨trivial, BadE.same (g2.badE ⟨1, ((Bad.alloc hk).free _).free _⟩) c2, c1⟩
        · have g3 := g2.trans (Good.alloc hk)
          have i3 := i2.alloc
          generalize ({ count := s2.count + 1, evs := s2.evs ++ [.alloc (s2.count + 1)] } : St) = s3 at g3 i3 ⊢
          generalize s2.count + 1 = ent at g3 i3 ⊢
          have hh := deserInto_spec k ent be.shape s3 _ i3
          generalize deserInto k ent be.shape s3 = r at hh ⊢
          obtain ⟨ro, s4⟩ := r
          rcases hh with ⟨v, h1, h3, h4⟩ | ⟨h1, h3, h4⟩ <;> simp only at h1 h3 h4 <;> subst h1 <;> simp only
          · have g4 := g3.trans h3
            have hh := hashAdd_spec k tmp
              { key := kb, orig := ob, keyStr := be.keyStr, origStr := be.keyStr, hashv := hashJen (keyBytes be.keyStr), val := v }
              s4 L (h4.perm (by simp only [MEntry.ids]; perm_ac))
            generalize hashAdd k tmp
              { key := kb, orig := ob, keyStr := be.keyStr, origStr := be.keyStr, hashv := hashJen (keyBytes be.keyStr), val := v }
              s4 = r at hh ⊢
            obtain ⟨ro, s5⟩ := r
            rcases hh with ⟨m', a1, a2, a3, a4, a5⟩ | ⟨t, a1, a4, a5⟩ <;> simp only at a1 a4 a5 <;> subst a1 <;> simp only
            · have hw' : m'.entries = [] → m'.ut = none := by
                intro he; rw [a2] at he; simp at he
              rcases deserEntries_spec k rest m' s5 L hw' a5 with ⟨m, e1, e2, e3, e4⟩ | ⟨e1, e2, e3⟩
              · left
                exact ⟨m, e1, (g4.trans a4).goodE e2, e3, by rw [e4, a2]; simp; omega⟩
              · right
                exact ⟨e1, (g4.trans a4).badE e2, e3⟩
            · right
              have i5 : Inv s5 (t ++ (v.ids ++ (ob :: kb :: (tmp.ids ++ L)))) := a5.perm (by simp only [MEntry.ids]; perm_ac)
              have i6 := i5.freeAll t _ _
              have ⟨f1, f2⟩ := freeOwned_spec v _ _ i6
              have ⟨c1, c2⟩ := hclean _ f1.free.free
              refine ⟨trivial, ?_, c1⟩
              exact BadE.same (BadE.free _ (BadE.free _ (BadE.same (BadE.same ⟨_, g4.bad a4⟩ (Same.freeAll t s5)) f2))) c2
          · right
            have i5 : Inv s4 (ob :: kb :: (tmp.ids ++ L)) := h4
            have ⟨c1, c2⟩ := hclean _ i5.free.free
            exact ⟨trivial, BadE.same (BadE.free _ (BadE.free _ ⟨_, g3.bad h3⟩)) c2, c1⟩

end CifModel.Lemmas.Ladder
