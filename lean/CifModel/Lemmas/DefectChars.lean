import CifModel.Lemmas.LexGlue
import CifModel.Lemmas.ParserReach
import CifModel.Lemmas.ParserDefectCode
import CifModel.Lemmas.WriterDocRel
/-
  Lemmas/DefectChars (group gC) — what is needed to bring the token-level class theorems of property C12 (groups gJ, gH) down to
  CHARACTERS, for texts given as chunk lists (Lemmas/LexGlue, group gE):

    * `Reach o s k s'`  — (Lemmas/ParserReach) the deterministic walk of the scanner inside the productions: `k` times
                          next_token / CONSUME_TOKEN;
    * `reach_chunks`    — for an accepted chunk list `cs₁ ++ cs₂` the walk over the tokens of `cs₁` ends in the state whose
                          input is the rest of the text and whose LINE and COLUMN are those the specification computes
                          (`posTok`, i.e. `posAfter` over the characters up to the last token of `cs₁`);
    * `Reach.feeds`     — the walk is compatible with `Feeds` (and a function of its start state: `Reach.det`);
    * `parse_of_blocks` — from the block loop of parse_cif to the outcome of a whole `parse`.

  With these, a token-level statement that exposes its walk (`Reach o s k s'` for the state at which a report is made) yields
  the line of that report in terms of the characters in front of it.
-/
namespace CifModel.Lemmas.DefectChars
open CifModel CifModel.Model CifModel.Model.Lexer CifModel.Model.Parser CifModel.Spec.Lexical CifModel.Spec.Grammar
open CifModel.Lemmas.LexGlue

/-- a walk along a `Feeds` chain consumes its tokens -/
theorem Reach.feeds {o : Opts} {s s' : PS} {k : Nat} (h : Reach o s k s') : ∀ {ts : List TokSpec}, Feeds o s ts → k ≤ ts.length →
    Feeds o s' (ts.drop k) := by
  induction h with
  | zero s => intro ts hF _; simpa using hF
  | step hn ht hr ih =>
    intro ts hF hk
    cases ts with
    | nil => simp at hk
    | cons x xs =>
      obtain ⟨ty, tx⟩ := x
      obtain ⟨t2, s2, _, _, hn2, _, hr2⟩ := hF.inv
      have e := (hn acceptAll default).symm.trans (hn2 acceptAll default)
      simp only [PRes.ok.injEq, Prod.mk.injEq] at e
      obtain ⟨⟨_, e2⟩, _⟩ := e
      subst e2
      simp only [List.drop_succ_cons]
      exact ih hr2 (by simpa using hk)

/-- position (line, column) behind the last token of the chunks, scanning from `(line, col)` with `w` pending -/
def posTok (line col : Nat) : List WsAtom → List Chunk → Nat × Nat
  | _, [] => (line, col)
  | w, .ws a :: r => posTok line col (w ++ a) r
  | w, .tk t :: r => posTok (posAfter line col (renderWs w ++ t.chars)).1 (posAfter line col (renderWs w ++ t.chars)).2 [] r

/-- … which is `posAfter` over the characters up to and including that token -/
theorem posTok_snoc (t : Tk) : ∀ (cs : List Chunk) (line col : Nat) (w : List WsAtom),
    posTok line col w (cs ++ [.tk t]) = posAfter line col (renderWs w ++ renderChunks (cs ++ [.tk t])) := by
  intro cs
  induction cs with
  | nil => intro line col w; simp [posTok, renderChunks]
  | cons x r ih =>
    intro line col w
    cases x with
    | ws a =>
      simp only [List.cons_append, posTok, renderChunks]
      rw [ih, renderWs_append, List.append_assoc]
    | tk t' =>
      simp only [List.cons_append, posTok, renderChunks]
      rw [ih, ← List.append_assoc, posAfter_append (renderWs w ++ t'.chars)]
      simp [renderWs]

/-- **the walk over accepted chunks**: from the scanner position in front of `cs₁ ++ cs₂` (pending whitespace `w`), walking over
    the tokens of `cs₁` leads to the state in front of `cs₂` — input, pending whitespace, last token type as the acceptor
    computes them, line and column as the specification computes them -/
theorem reach_chunks (o : Opts) (cs2 : List Chunk) : ∀ (cs1 : List Chunk) (w : List WsAtom) (line col : Nat) (lt : TokType),
    okC o.dia lt w (cs1 ++ cs2) → linesFit col (renderWs w ++ renderChunks (cs1 ++ cs2)) = true →
    Reach o { scan := ⟨renderWs w ++ renderChunks (cs1 ++ cs2), line, col, lt⟩, tok := none } (toks cs1).length
      { scan := ⟨renderWs (stAfter lt w cs1).2 ++ renderChunks cs2, (posTok line col w cs1).1, (posTok line col w cs1).2,
                 (stAfter lt w cs1).1⟩, tok := none } := by
  intro cs1
  induction cs1 with
  | nil => intro w line col lt _ _; exact Reach.zero _
  | cons x r ih =>
    intro w line col lt hok hfit
    cases x with
    | ws a =>
      have e : renderWs w ++ renderChunks (.ws a :: r ++ cs2) = renderWs (w ++ a) ++ renderChunks (r ++ cs2) := by
        simp [renderChunks, renderWs_append]
      simp only [toks, stAfter, posTok]
      rw [e] at hfit ⊢
      exact ih (w ++ a) line col lt hok hfit
    | tk t =>
      obtain ⟨hw, htok, hadj, htext, hrest⟩ := hok
      have e : renderWs w ++ renderChunks (.tk t :: r ++ cs2) = (renderWs w ++ t.chars) ++ renderChunks (r ++ cs2) := by
        simp [renderChunks]
      have hfit' := hfit
      rw [e, linesFit_append] at hfit'
      simp only [Bool.and_eq_true] at hfit'
      have hstep := tk_step o.dia t w (renderChunks (r ++ cs2)) line col lt hw htok hadj htext hfit'.1
        (tkFollow_of_okC o.dia t (r ++ cs2) hrest)
      have hrec := ih [] (posAfter line col (renderWs w ++ t.chars)).1 (posAfter line col (renderWs w ++ t.chars)).2 t.spec.1 hrest
        (by rw [posAfter_col_indep _ line 0]; simpa [renderWs] using hfit'.2)
      simp only [toks, stAfter, posTok, List.length_cons]
      have e2 : renderWs w ++ renderChunks (.tk t :: r ++ cs2) = renderWs w ++ (t.chars ++ renderChunks (r ++ cs2)) := by
        simp [renderChunks]
      rw [e2]
      refine Reach.step
        (t := ⟨t.spec.1, t.spec.2, (posAfter line col (renderWs w ++ t.chars)).1, (posAfter line col (renderWs w ++ t.chars)).2⟩)
        (s1 := { scan := ⟨renderChunks (r ++ cs2), (posAfter line col (renderWs w ++ t.chars)).1,
                          (posAfter line col (renderWs w ++ t.chars)).2, t.spec.1⟩,
                 tok := some ⟨t.spec.1, t.spec.2, (posAfter line col (renderWs w ++ t.chars)).1,
                              (posAfter line col (renderWs w ++ t.chars)).2⟩ }) ?_ rfl ?_
      · intro pol w0
        simp [nextTok, Parser.bind_eq, Parser.pure_eq, P.bind, P.pure, liftL, hstep pol w0.log]
      · simpa [consume, renderWs] using hrec


/-- **the line of a state on the walk**: whatever state the walk over the tokens of `cs₁` reaches, its line and column are those
    behind the last token of `cs₁` (for `cs₁ = cs₀ ++ [.tk t]`: `posAfter` over the characters up to and including `t`,
    `posTok_snoc`) -/
theorem reach_line (o : Opts) (cs1 cs2 : List Chunk) (w : List WsAtom) (line col : Nat) (lt : TokType)
    (hok : okC o.dia lt w (cs1 ++ cs2)) (hfit : linesFit col (renderWs w ++ renderChunks (cs1 ++ cs2)) = true) {s' : PS}
    (h : Reach o { scan := ⟨renderWs w ++ renderChunks (cs1 ++ cs2), line, col, lt⟩, tok := none } (toks cs1).length s') :
    s'.scan.line = (posTok line col w cs1).1 ∧ s'.scan.col = (posTok line col w cs1).2 ∧ s'.tok = none := by
  rw [h.det (reach_chunks o cs2 cs1 w line col lt hok hfit)]
  exact ⟨rfl, rfl, rfl⟩

/-- … and of a state with a PENDING token (next_token done, CONSUME_TOKEN not yet): the position behind that token -/
theorem reach_line_pending (o : Opts) (cs1 cs2 : List Chunk) (w : List WsAtom) (line col : Nat) (lt : TokType)
    (hok : okC o.dia lt w (cs1 ++ cs2)) (hfit : linesFit col (renderWs w ++ renderChunks (cs1 ++ cs2)) = true) {s1 s2 : PS} {t : Tok}
    {k : Nat} (hk : k + 1 = (toks cs1).length)
    (h : Reach o { scan := ⟨renderWs w ++ renderChunks (cs1 ++ cs2), line, col, lt⟩, tok := none } k s1)
    (hn : ∀ pol w, nextTok o s1 pol w = .ok (t, s2) w) (ht : s2.tok = some t) :
    s2.scan.line = (posTok line col w cs1).1 ∧ s2.scan.col = (posTok line col w cs1).2 := by
  have h2 := h.snoc hn ht
  rw [hk] at h2
  have := reach_line o cs1 cs2 w line col lt hok hfit h2
  exact ⟨this.1, this.2.1⟩

/-- **the line of a report made with a pending token, in terms of the characters**: whole text `cs₀ ++ [t'] ++ cs₂`, the parser has
    walked over the tokens of `cs₀` and has just scanned `t'` (not consumed): the scanner's line is the line at the END of `t'`,
    `posAfter 1 0` over the characters up to and including `t'` -/
theorem line_pending (o : Opts) (cs0 cs2 : List Chunk) (t' : Tk)
    (hok : okC o.dia .end_ [] (cs0 ++ [.tk t'] ++ cs2)) (hfit : linesFit 0 (renderChunks (cs0 ++ [.tk t'] ++ cs2)) = true)
    {s0 s1 : PS} {t : Tok}
    (h : Reach o { scan := Scan.init (renderChunks (cs0 ++ [.tk t'] ++ cs2)), tok := none } (toks cs0).length s0)
    (hn : ∀ pol w, nextTok o s0 pol w = .ok (t, s1) w) (ht : s1.tok = some t) :
    s1.scan.line = (posAfter 1 0 (renderChunks (cs0 ++ [.tk t']))).1 := by
  have := reach_line_pending o (cs0 ++ [.tk t']) cs2 [] 1 0 .end_ hok (by simpa [renderWs] using hfit)
    (k := (toks cs0).length) (by simp [toks_append, toks]) (by simpa [renderWs, Scan.init] using h) hn ht
  rw [this.1, posTok_snoc]
  simp [renderWs]

/-- … and of a report made right after CONSUME_TOKEN of `t'` -/
theorem line_consumed (o : Opts) (cs0 cs2 : List Chunk) (t' : Tk)
    (hok : okC o.dia .end_ [] (cs0 ++ [.tk t'] ++ cs2)) (hfit : linesFit 0 (renderChunks (cs0 ++ [.tk t'] ++ cs2)) = true)
    {s1 : PS}
    (h : Reach o { scan := Scan.init (renderChunks (cs0 ++ [.tk t'] ++ cs2)), tok := none } ((toks cs0).length + 1) s1) :
    s1.scan.line = (posAfter 1 0 (renderChunks (cs0 ++ [.tk t']))).1 := by
  have := reach_line o (cs0 ++ [.tk t']) cs2 [] 1 0 .end_ hok (by simpa [renderWs] using hfit)
    (by simpa [renderWs, Scan.init, toks_append, toks] using h)
  rw [this.1, posTok_snoc]
  simp [renderWs]

/-! ### characters, tokens and fuel

  Every accepted token has at least one character, a block header at least six: the fuel `parse` passes (`fuelFor`: twice the
  number of units + 16) covers what the structure theorems ask for (`szBlocks` …), whatever the document. -/

def hd (t : TokSpec) : Nat := if t.1 = .blockHead then 1 else 0

def heads : List TokSpec → Nat
  | [] => 0
  | t :: r => hd t + heads r

theorem heads_append (a b : List TokSpec) : heads (a ++ b) = heads a + heads b := by
  induction a with
  | nil => simp [heads]
  | cons x r ih => simp only [List.cons_append, heads, ih]; omega

theorem heads_blocks : ∀ (bs : List Block), bs.length ≤ heads (blocksToks bs)
  | [] => Nat.zero_le _
  | b :: r => by
    have := heads_blocks r
    simp only [blocksToks, heads, heads_append, hd, List.length_cons, if_true]
    omega

theorem tk_weight (dia : Dialect) (t : Tk) (h : t.ok dia = true) : 1 + 5 * hd t.spec ≤ t.chars.length := by
  cases t with
  | data code =>
    simp only [Tk.ok, Bool.and_eq_true, bne_iff_ne, ne_eq] at h
    have : 0 < code.length := List.length_pos_iff.mpr h.1
    simp only [Tk.spec, hd, Tk.chars, List.length_append, List.length_cons, List.length_nil, if_true]
    omega
  | save code => simp [Tk.spec, hd, Tk.chars]
  | saveEnd => simp [Tk.spec, hd, Tk.chars]
  | loopKw => simp [Tk.spec, hd, Tk.chars]
  | name n =>
    cases n with
    | nil => simp [Tk.ok] at h
    | cons c r => simp [Tk.spec, hd, Tk.chars]
  | val p v =>
    have hty : hd (Tk.val p v).spec = 0 := by cases p <;> simp [Tk.spec, hd, Presentation.tokType]
    rw [hty]
    cases p with
    | bare =>
      simp only [Tk.ok, admissible, Bool.and_eq_true] at h
      cases v with
      | nil => simp [bareOk] at h
      | cons c r => simp [Tk.chars, renderValue]
    | squote => simp [Tk.chars, renderValue]
    | dquote => simp [Tk.chars, renderValue]
    | tsquote => simp [Tk.chars, renderValue]
    | tdquote => simp [Tk.chars, renderValue]
    | text => simp [Tk.chars, renderValue]
  | key p k => simp [Tk.spec, hd, Tk.chars]
  | opn c => by_cases hc : c = 91 <;> simp [Tk.spec, hd, Tk.chars, hc]
  | cls c => by_cases hc : c = 93 <;> simp [Tk.spec, hd, Tk.chars, hc]

theorem toks_weight (dia : Dialect) : ∀ (cs : List Chunk) (lt : TokType) (w : List WsAtom), okC dia lt w cs →
    (toks cs).length + 5 * heads (toks cs) ≤ (renderChunks cs).length
  | [], _, _, _ => by simp [toks, heads, renderChunks]
  | .ws a :: r, lt, w, h => by
    have := toks_weight dia r lt (w ++ a) h
    simp only [toks, renderChunks, List.length_append]
    omega
  | .tk t :: r, lt, w, h => by
    have := toks_weight dia r t.spec.1 [] h.2.2.2.2
    have ht := tk_weight dia t h.2.1
    simp only [toks, heads, renderChunks, List.length_append, List.length_cons]
    omega

/-- the fuel of a whole parse covers `block_defect_run` -/
theorem fuel_block_defect (dia : Dialect) (cs : List Chunk) (lt : TokType) (w : List WsAtom) (hok : okC dia lt w cs)
    (pre post : List Block) (bc : Str) (T : List TokSpec) (need minf : Nat)
    (ht : toks cs = blocksToks pre ++ ((.blockHead, bc) :: (T ++ blocksToks post)))
    (hneed : need + minf ≤ 2 * T.length + 20) :
    szBlocks pre + szBlocks post + pre.length + post.length + need + minf + 5 ≤ fuelFor (renderChunks cs) := by
  have h1 := toks_weight dia cs lt w hok
  have h2 := WriterChunks.szBlocks_toks pre
  have h3 := WriterChunks.szBlocks_toks post
  have h4 := heads_blocks pre
  have h5 := heads_blocks post
  rw [ht] at h1
  simp only [List.length_append, List.length_cons, heads_append, heads, hd, if_true] at h1
  have h6 : 0 ≤ heads T := Nat.zero_le _
  simp only [fuelFor]
  omega

/-! ### from the block loop to a whole parse -/

/-- the block loop of parse_cif ends regularly ⇒ the outcome of the whole parse (first character acceptable, no byte-order mark, no
    encoding complaint): CIF_OK, the reports in order of occurrence, the CIF as the block loop left it -/
theorem parse_of_blocks (o : Opts) (pol : Policy) (c : CU) (rest : Str) (s' : PS) (W' : W) (hutf : o.notUtf8 = false)
    (hfirst : disallowedInitial c = false) (hbom : (c == 0xFEFF) = false)
    (h : blocksLoop o (fuelFor (c :: rest)) { scan := Scan.init (c :: rest), tok := none } pol { log := [], cif := [] } = .ok s' W') :
    parse o pol [] (c :: rest) = { rc := 0, log := W'.log.reverse, cif := W'.cif } := by
  unfold parse run parseInternal afterFirst parseCif
  simp only [hfirst, hbom, hutf, Bool.false_eq_true, if_false, false_and, Parser.bind_eq, Parser.pure_eq, P.bind, P.pure]
  cases hd : o.dia <;> simp [P.bind, P.pure, clamp, h]

/-- the same from parse_cif -/
theorem parse_of_parseCif (o : Opts) (pol : Policy) (c : CU) (rest : Str) (W' : W) (hutf : o.notUtf8 = false)
    (hfirst : disallowedInitial c = false) (hbom : (c == 0xFEFF) = false)
    (h : parseCif o (fuelFor (c :: rest)) { scan := Scan.init (c :: rest), tok := none } pol { log := [], cif := [] } = .ok () W') :
    parse o pol [] (c :: rest) = { rc := 0, log := W'.log.reverse, cif := W'.cif } := by
  unfold parse run parseInternal afterFirst
  simp only [hfirst, hbom, hutf, Bool.false_eq_true, if_false, false_and, Parser.bind_eq, Parser.pure_eq, P.bind, P.pure]
  cases hd : o.dia <;> simp [P.bind, P.pure, h]

/-! ### a defect inside a data block, any blocks before and behind

  The element-level class theorems have the form `hstep` below (for the `View` of a data block): over the tokens `T` of the body
  the element loop logs exactly one report, code `C`, and leaves the container `.mk bc fs' ls'`.  `block_defect_run` places such
  a body in a document: well-formed blocks `pre` in front, the header `data_bc`, the body, well-formed blocks `post` behind. -/
theorem block_defect_run (o : Opts) (hstore : o.store = true) (hmfd : o.maxFrameDepth ≠ 0) (pre post : List Block) (bc : Str)
    (T : List TokSpec) (fs' : List Container) (ls' : List Loop) (C : Code) (need minf : Nat) (bseen2 : List Str) (s : PS)
    (total : Nat) (w : W) (hw : w.cif = [])
    (hpre : wfBlocks o pre [] = true) (hcode : wfCode bc = true)
    (hnew : ∀ c ∈ denote o.dia o.normKey pre, codeIs o.norm (o.norm bc) c = false)
    (hpost : wfBlocks o post bseen2 = true)
    (hseen2 : ∀ c ∈ denote o.dia o.normKey pre ++ [pruneC (.mk bc fs' ls')], o.norm c.code ∈ bseen2)
    (hstep : ∀ (s1 : PS) (w1 : W) (f : Nat), w1.cif = denote o.dia o.normKey pre ++ [.mk bc [] []] →
        minf ≤ f → Feeds o s1 (T ++ (blocksToks post ++ [(.end_, [])])) →
        ∃ s2 r, elemsLoop o (f + need) s1 (some [o.norm bc]) true acceptAll w1
            = elemsLoop o f s2 (some [o.norm bc]) true acceptAll
                { log := r :: w1.log, cif := denote o.dia o.normKey pre ++ [.mk bc fs' ls'] }
          ∧ r.code = C ∧ Feeds o s2 (blocksToks post ++ [(.end_, [])]))
    (hfuel : szBlocks pre + szBlocks post + pre.length + post.length + need + minf + 5 ≤ total)
    (hF : Feeds o s (blocksToks pre ++ ((.blockHead, bc) :: (T ++ (blocksToks post ++ [(.end_, [])]))))) :
    ∃ s' r, blocksLoop o total s acceptAll w
        = .ok s' { log := r :: w.log, cif := denote o.dia o.normKey pre ++ pruneC (.mk bc fs' ls') :: denote o.dia o.normKey post }
      ∧ r.code = C := by
  simp only [wfCode, Bool.and_eq_true] at hcode
  obtain ⟨F, rfl⟩ : ∃ F, total = (F + post.length + 1) + pre.length := ⟨total - pre.length - post.length - 1, by omega⟩
  -- the blocks in front
  obtain ⟨s1, h1, h2⟩ := blocks_prefix o hstore hmfd pre [] _ s (F + post.length + 1) acceptAll w hpre
    (by rw [hw]; intro c hc; cases hc) (by omega) ⟨.blockHead, bc, _, rfl, Or.inl rfl⟩ hF
  -- the header
  obtain ⟨t, s1', hty, htx, hn, _, hr⟩ := h2.inv
  have hnew' : ∀ c ∈ ({ w with cif := w.cif ++ denote o.dia o.normKey pre } : W).cif, codeIs o.norm (o.norm bc) c = false := by
    intro c hc; simp only [hw, List.nil_append] at hc; exact hnew c hc
  -- the body
  obtain ⟨f, hf⟩ : ∃ f, F + post.length = ((f + 1) + need) + 1 := ⟨F + post.length - need - 2, by omega⟩
  obtain ⟨s2, r, h3, hrc, h4⟩ := hstep (consume s1')
    { w with cif := (w.cif ++ denote o.dia o.normKey pre) ++ [.mk bc [] []] } (f + 1) (by simp [hw]) (by omega) hr
  -- the end of the container
  obtain ⟨ty, tx, ts, hrest, hfol⟩ := blocks_rest_head post
  rw [hrest] at h4
  obtain ⟨t3, s3, hty3, htx3, hn3, ht3, hr3⟩ := h4.inv
  have h5 : Feeds o s3 (blocksToks post ++ [(.end_, [])]) := by
    rw [hrest, ← hty3, ← htx3]; exact Feeds.pending ht3 hr3
  have hv := View.block o (denote o.dia o.normKey pre) bc hnew
  -- the blocks behind
  obtain ⟨s4, h6⟩ := blocks_structure o hstore hmfd post bseen2 s3 F acceptAll
    { log := r :: w.log, cif := denote o.dia o.normKey pre ++ [pruneC (.mk bc fs' ls')] } hpost hseen2 (by omega) h5
  refine ⟨s4, r, ?_, hrc⟩
  rw [h1]
  conv => lhs; rw [blocksLoop]
  simp only [Parser.bind_eq, Parser.pure_eq, P.bind, P.pure, hn, hty, htx, hstore, if_true, cstr_noNul hcode.2,
    createIn_block o bc _ _ acceptAll _ hcode.1 hnew']
  conv => lhs; rw [hf, parseContainer]
  simp only [Parser.bind_eq, Parser.pure_eq, P.bind, P.pure, h3]
  conv => lhs; rw [elemsLoop]
  rcases hfol with h | h
  · simp only [Parser.bind_eq, Parser.pure_eq, P.bind, P.pure, hn3, hty3, h, if_true, getCif, setCif, hv.upd]
    rw [← hf, h6]; simp
  · simp only [Parser.bind_eq, Parser.pure_eq, P.bind, P.pure, hn3, hty3, h, if_true, getCif, setCif, hv.upd]
    rw [← hf, h6]; simp


theorem denote_code {dia : Dialect} {nk : Str → Str} {bs : List Block} {c : Container} (h : c ∈ denote dia nk bs) :
    ∃ b ∈ bs, c.code = b.code := by
  simp only [denote, List.mem_map] at h
  obtain ⟨b, hb, rfl⟩ := h
  exact ⟨b, hb, rfl⟩

theorem pruneC_code (c : Container) : (pruneC c).code = c.code := by
  cases c; rfl

/-- **a defect inside a data block, at character level**: the text is ANY accepted chunk list (tokens in any admissible
    presentation, any whitespace and comments between them, lines that fit) whose tokens are: well-formed blocks `preB`, the header
    `data_bc`, a body `T` for which the element-level class statement `hstep` holds, well-formed blocks `postB`.  The whole parse
    under accept-all: CIF_OK, exactly one report, code `C`, the content that `hstep` prescribes between the contents of the blocks
    before and behind. -/
theorem block_defect_chars (o : Opts) (hstore : o.store = true) (hmfd : o.maxFrameDepth ≠ 0) (hutf : o.notUtf8 = false)
    (cs : List Chunk) (c : CU) (rest : Str) (preB postB : List Block) (bc : Str) (T : List TokSpec)
    (fs' : List Container) (ls' : List Loop) (C : Code) (need minf : Nat) (bseen2 : List Str)
    (hok : okC o.dia .end_ [] cs) (hfit : linesFit 0 (renderChunks cs) = true)
    (hc : renderChunks cs = c :: rest) (hfirst : disallowedInitial c = false) (hbom : (c == 0xFEFF) = false)
    (ht : toks cs = blocksToks preB ++ ((.blockHead, bc) :: (T ++ blocksToks postB)))
    (hpreB : wfBlocks o preB [] = true) (hcode : wfCode bc = true) (hnew : ∀ b ∈ preB, o.norm b.code ≠ o.norm bc)
    (hpostB : wfBlocks o postB bseen2 = true) (hb2 : ∀ b ∈ preB, o.norm b.code ∈ bseen2) (hb2' : o.norm bc ∈ bseen2)
    (hneed : need + minf ≤ 2 * T.length + 20)
    (hstep : ∀ (s1 : PS) (w1 : W) (f : Nat), w1.cif = denote o.dia o.normKey preB ++ [.mk bc [] []] →
        minf ≤ f → Feeds o s1 (T ++ (blocksToks postB ++ [(.end_, [])])) →
        ∃ s2 r, elemsLoop o (f + need) s1 (some [o.norm bc]) true acceptAll w1
            = elemsLoop o f s2 (some [o.norm bc]) true acceptAll
                { log := r :: w1.log, cif := denote o.dia o.normKey preB ++ [.mk bc fs' ls'] }
          ∧ r.code = C ∧ Feeds o s2 (blocksToks postB ++ [(.end_, [])])) :
    ∃ r, parse o acceptAll [] (renderChunks cs)
        = { rc := 0, log := [r],
            cif := denote o.dia o.normKey preB ++ pruneC (.mk bc fs' ls') :: denote o.dia o.normKey postB }
      ∧ r.code = C := by
  have hfeeds := feeds_chunks o cs [] 1 0 .end_ hok (by simpa [renderWs] using hfit)
  have hfuel := fuel_block_defect o.dia cs .end_ [] hok preB postB bc T need minf ht hneed
  simp only [renderWs, List.map_nil, List.flatten_nil, List.nil_append] at hfeeds
  rw [ht] at hfeeds
  rw [hc] at hfeeds hfuel ⊢
  obtain ⟨s', r, h, hr⟩ := block_defect_run o hstore hmfd preB postB bc T fs' ls' C need minf bseen2 _ (fuelFor (c :: rest))
    { log := [], cif := [] } rfl hpreB hcode
    (by
      intro x hx
      obtain ⟨b, hb, hcb⟩ := denote_code hx
      simp only [codeIs, hcb, beq_eq_false_iff_ne, ne_eq]
      exact hnew b hb)
    hpostB
    (by
      intro x hx
      rcases List.mem_append.mp hx with hx | hx
      · obtain ⟨b, hb, hcb⟩ := denote_code hx
        rw [hcb]; exact hb2 b hb
      · simp only [List.mem_singleton] at hx
        rw [hx, pruneC_code]; exact hb2')
    hstep hfuel (by simpa [List.append_assoc] using hfeeds)
  refine ⟨r, ?_, hr⟩
  rw [parse_of_blocks o acceptAll c rest s' _ hutf hfirst hbom h]
  simp

end CifModel.Lemmas.DefectChars
