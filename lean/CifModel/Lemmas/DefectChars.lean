import CifModel.Lemmas.LexGlue
import CifModel.Lemmas.ParserDefectCode
/-
  Lemmas/DefectChars (group gC) — what is needed to bring the token-level class theorems of property C12 (groups gJ, gH) down to
  CHARACTERS, for texts given as chunk lists (Lemmas/LexGlue, group gE):

    * `Reach o s k s'`  — the deterministic walk of the scanner inside the productions: `k` times next_token / CONSUME_TOKEN;
    * `reach_chunks`    — for an accepted chunk list `cs₁ ++ cs₂` the walk over the tokens of `cs₁` ends in the state whose
                          input is the rest of the text and whose LINE and COLUMN are those the specification computes
                          (`posTok`, i.e. `posAfter` over the characters up to the last token of `cs₁`);
    * `Reach.det`, `Reach.feeds` — the walk is a function of its start state, and compatible with `Feeds`;
    * `parse_of_blocks` — from the block loop of parse_cif to the outcome of a whole `parse`.

  With these, a token-level statement that exposes its walk (`Reach o s k s'` for the state at which a report is made) yields
  the line of that report in terms of the characters in front of it.
-/
namespace CifModel.Lemmas.DefectChars
open CifModel CifModel.Model CifModel.Model.Lexer CifModel.Model.Parser CifModel.Spec.Lexical CifModel.Spec.Grammar
open CifModel.Lemmas.LexGlue

/-- `k` times: next_token (silently, under every policy), CONSUME_TOKEN -/
inductive Reach (o : Opts) : PS → Nat → PS → Prop
  | zero (s : PS) : Reach o s 0 s
  | step {s s1 s' : PS} {t : Tok} {k : Nat} (hn : ∀ pol w, nextTok o s pol w = .ok (t, s1) w) (ht : s1.tok = some t)
      (hr : Reach o (consume s1) k s') : Reach o s (k + 1) s'

theorem Reach.det {o : Opts} {s s' s'' : PS} {k : Nat} (h1 : Reach o s k s') (h2 : Reach o s k s'') : s' = s'' := by
  induction h1 with
  | zero s => cases h2; rfl
  | step hn ht hr ih =>
    cases h2 with
    | step hn2 ht2 hr2 =>
      have e := (hn acceptAll default).symm.trans (hn2 acceptAll default)
      simp only [PRes.ok.injEq, Prod.mk.injEq] at e
      obtain ⟨⟨_, e2⟩, _⟩ := e
      subst e2
      exact ih hr2

theorem Reach.trans {o : Opts} {s s' s'' : PS} {k m : Nat} (h1 : Reach o s k s') (h2 : Reach o s' m s'') :
    Reach o s (k + m) s'' := by
  induction h1 with
  | zero s => simpa using h2
  | step hn ht hr ih =>
    rw [Nat.add_right_comm]
    exact Reach.step hn ht (ih h2)

/-- a walk along a `Feeds` chain consumes its tokens -/
theorem Reach.feeds {o : Opts} {s s' : PS} {k : Nat} (h : Reach o s k s') : ∀ {ts : List TokSpec}, Feeds o s ts → k ≤ ts.length →
    Feeds o s' (ts.drop k) := by
  induction h with
  | zero s => intro ts hF _; simpa using hF
  | step hn ht hr ih =>
    intro ts hF hk
    cases ts with
    | nil => simp at hk
    | cons x xs =>
      obtain ⟨ty, tx⟩ := x
      obtain ⟨t2, s2, _, _, hn2, _, hr2⟩ := hF.inv
      have e := (hn acceptAll default).symm.trans (hn2 acceptAll default)
      simp only [PRes.ok.injEq, Prod.mk.injEq] at e
      obtain ⟨⟨_, e2⟩, _⟩ := e
      subst e2
      simp only [List.drop_succ_cons]
      exact ih hr2 (by simpa using hk)

/-- position (line, column) behind the last token of the chunks, scanning from `(line, col)` with `w` pending -/
def posTok (line col : Nat) : List WsAtom → List Chunk → Nat × Nat
  | _, [] => (line, col)
  | w, .ws a :: r => posTok line col (w ++ a) r
  | w, .tk t :: r => posTok (posAfter line col (renderWs w ++ t.chars)).1 (posAfter line col (renderWs w ++ t.chars)).2 [] r

/-- … which is `posAfter` over the characters up to and including that token -/
theorem posTok_snoc (t : Tk) : ∀ (cs : List Chunk) (line col : Nat) (w : List WsAtom),
    posTok line col w (cs ++ [.tk t]) = posAfter line col (renderWs w ++ renderChunks (cs ++ [.tk t])) := by
  intro cs
  induction cs with
  | nil => intro line col w; simp [posTok, renderChunks]
  | cons x r ih =>
    intro line col w
    cases x with
    | ws a =>
      simp only [List.cons_append, posTok, renderChunks]
      rw [ih, renderWs_append, List.append_assoc]
    | tk t' =>
      simp only [List.cons_append, posTok, renderChunks]
      rw [ih, ← List.append_assoc, posAfter_append (renderWs w ++ t'.chars)]
      simp [renderWs]

/-- **the walk over accepted chunks**: from the scanner position in front of `cs₁ ++ cs₂` (pending whitespace `w`), walking over
    the tokens of `cs₁` leads to the state in front of `cs₂` — input, pending whitespace, last token type as the acceptor
    computes them, line and column as the specification computes them -/
theorem reach_chunks (o : Opts) (cs2 : List Chunk) : ∀ (cs1 : List Chunk) (w : List WsAtom) (line col : Nat) (lt : TokType),
    okC o.dia lt w (cs1 ++ cs2) → linesFit col (renderWs w ++ renderChunks (cs1 ++ cs2)) = true →
    Reach o { scan := ⟨renderWs w ++ renderChunks (cs1 ++ cs2), line, col, lt⟩, tok := none } (toks cs1).length
      { scan := ⟨renderWs (stAfter lt w cs1).2 ++ renderChunks cs2, (posTok line col w cs1).1, (posTok line col w cs1).2,
                 (stAfter lt w cs1).1⟩, tok := none } := by
  intro cs1
  induction cs1 with
  | nil => intro w line col lt _ _; exact Reach.zero _
  | cons x r ih =>
    intro w line col lt hok hfit
    cases x with
    | ws a =>
      have e : renderWs w ++ renderChunks (.ws a :: r ++ cs2) = renderWs (w ++ a) ++ renderChunks (r ++ cs2) := by
        simp [renderChunks, renderWs_append]
      simp only [toks, stAfter, posTok]
      rw [e] at hfit ⊢
      exact ih (w ++ a) line col lt hok hfit
    | tk t =>
      obtain ⟨hw, htok, hadj, htext, hrest⟩ := hok
      have e : renderWs w ++ renderChunks (.tk t :: r ++ cs2) = (renderWs w ++ t.chars) ++ renderChunks (r ++ cs2) := by
        simp [renderChunks]
      have hfit' := hfit
      rw [e, linesFit_append] at hfit'
      simp only [Bool.and_eq_true] at hfit'
      have hstep := tk_step o.dia t w (renderChunks (r ++ cs2)) line col lt hw htok hadj htext hfit'.1
        (tkFollow_of_okC o.dia t (r ++ cs2) hrest)
      have hrec := ih [] (posAfter line col (renderWs w ++ t.chars)).1 (posAfter line col (renderWs w ++ t.chars)).2 t.spec.1 hrest
        (by rw [posAfter_col_indep _ line 0]; simpa [renderWs] using hfit'.2)
      simp only [toks, stAfter, posTok, List.length_cons]
      have e2 : renderWs w ++ renderChunks (.tk t :: r ++ cs2) = renderWs w ++ (t.chars ++ renderChunks (r ++ cs2)) := by
        simp [renderChunks]
      rw [e2]
      refine Reach.step
        (t := ⟨t.spec.1, t.spec.2, (posAfter line col (renderWs w ++ t.chars)).1, (posAfter line col (renderWs w ++ t.chars)).2⟩)
        (s1 := { scan := ⟨renderChunks (r ++ cs2), (posAfter line col (renderWs w ++ t.chars)).1,
                          (posAfter line col (renderWs w ++ t.chars)).2, t.spec.1⟩,
                 tok := some ⟨t.spec.1, t.spec.2, (posAfter line col (renderWs w ++ t.chars)).1,
                              (posAfter line col (renderWs w ++ t.chars)).2⟩ }) ?_ rfl ?_
      · intro pol w0
        simp [nextTok, Parser.bind_eq, Parser.pure_eq, P.bind, P.pure, liftL, hstep pol w0.log]
      · simpa [consume, renderWs] using hrec


/-! ### from the block loop to a whole parse -/

/-- the block loop of parse_cif ends regularly ⇒ the outcome of the whole parse (first character acceptable, no byte-order mark, no
    encoding complaint): CIF_OK, the reports in order of occurrence, the CIF as the block loop left it -/
theorem parse_of_blocks (o : Opts) (pol : Policy) (c : CU) (rest : Str) (s' : PS) (W' : W) (hutf : o.notUtf8 = false)
    (hfirst : disallowedInitial c = false) (hbom : (c == 0xFEFF) = false)
    (h : blocksLoop o (fuelFor (c :: rest)) { scan := Scan.init (c :: rest), tok := none } pol { log := [], cif := [] } = .ok s' W') :
    parse o pol [] (c :: rest) = { rc := 0, log := W'.log.reverse, cif := W'.cif } := by
  unfold parse run parseInternal afterFirst parseCif
  simp only [hfirst, hbom, hutf, Bool.false_eq_true, if_false, false_and, Parser.bind_eq, Parser.pure_eq, P.bind, P.pure]
  cases hd : o.dia <;> simp [P.bind, P.pure, clamp, h]

/-- the same from parse_cif -/
theorem parse_of_parseCif (o : Opts) (pol : Policy) (c : CU) (rest : Str) (W' : W) (hutf : o.notUtf8 = false)
    (hfirst : disallowedInitial c = false) (hbom : (c == 0xFEFF) = false)
    (h : parseCif o (fuelFor (c :: rest)) { scan := Scan.init (c :: rest), tok := none } pol { log := [], cif := [] } = .ok () W') :
    parse o pol [] (c :: rest) = { rc := 0, log := W'.log.reverse, cif := W'.cif } := by
  unfold parse run parseInternal afterFirst
  simp only [hfirst, hbom, hutf, Bool.false_eq_true, if_false, false_and, Parser.bind_eq, Parser.pure_eq, P.bind, P.pure]
  cases hd : o.dia <;> simp [P.bind, P.pure, h]

/-! ### a defect inside a data block, any blocks before and behind

  The element-level class theorems have the form `hstep` below (for the `View` of a data block): over the tokens `T` of the body
  the element loop logs exactly one report, code `C`, and leaves the container `.mk bc fs' ls'`.  `block_defect_run` places such
  a body in a document: well-formed blocks `pre` in front, the header `data_bc`, the body, well-formed blocks `post` behind. -/
theorem block_defect_run (o : Opts) (hstore : o.store = true) (hmfd : o.maxFrameDepth ≠ 0) (pre post : List Block) (bc : Str)
    (T : List TokSpec) (fs' : List Container) (ls' : List Loop) (C : Code) (need minf : Nat) (bseen2 : List Str) (s : PS)
    (total : Nat) (w : W) (hw : w.cif = [])
    (hpre : wfBlocks o pre [] = true) (hcode : wfCode bc = true)
    (hnew : ∀ c ∈ denote o.dia o.normKey pre, codeIs o.norm (o.norm bc) c = false)
    (hpost : wfBlocks o post bseen2 = true)
    (hseen2 : ∀ c ∈ denote o.dia o.normKey pre ++ [pruneC (.mk bc fs' ls')], o.norm c.code ∈ bseen2)
    (hstep : ∀ (rest : List TokSpec) (s1 : PS) (w1 : W) (f : Nat), w1.cif = denote o.dia o.normKey pre ++ [.mk bc [] []] →
        minf ≤ f → blockFollow rest → Feeds o s1 (T ++ rest) →
        ∃ s2 r, elemsLoop o (f + need) s1 (some [o.norm bc]) true acceptAll w1
            = elemsLoop o f s2 (some [o.norm bc]) true acceptAll
                { log := r :: w1.log, cif := denote o.dia o.normKey pre ++ [.mk bc fs' ls'] }
          ∧ r.code = C ∧ Feeds o s2 rest)
    (hfuel : szBlocks pre + szBlocks post + pre.length + post.length + need + minf + 5 ≤ total)
    (hF : Feeds o s (blocksToks pre ++ ((.blockHead, bc) :: (T ++ (blocksToks post ++ [(.end_, [])]))))) :
    ∃ s' r, blocksLoop o total s acceptAll w
        = .ok s' { log := r :: w.log, cif := denote o.dia o.normKey pre ++ pruneC (.mk bc fs' ls') :: denote o.dia o.normKey post }
      ∧ r.code = C := by
  simp only [wfCode, Bool.and_eq_true] at hcode
  obtain ⟨F, rfl⟩ : ∃ F, total = (F + post.length + 1) + pre.length := ⟨total - pre.length - post.length - 1, by omega⟩
  -- the blocks in front
  obtain ⟨s1, h1, h2⟩ := blocks_prefix o hstore hmfd pre [] _ s (F + post.length + 1) acceptAll w hpre
    (by rw [hw]; intro c hc; cases hc) (by omega) ⟨.blockHead, bc, _, rfl, Or.inl rfl⟩ hF
  -- the header
  obtain ⟨t, s1', hty, htx, hn, _, hr⟩ := h2.inv
  have hnew' : ∀ c ∈ ({ w with cif := w.cif ++ denote o.dia o.normKey pre } : W).cif, codeIs o.norm (o.norm bc) c = false := by
    intro c hc; simp only [hw, List.nil_append] at hc; exact hnew c hc
  -- the body
  obtain ⟨f, hf⟩ : ∃ f, F + post.length = ((f + 1) + need) + 1 := ⟨F + post.length - need - 2, by omega⟩
  obtain ⟨s2, r, h3, hrc, h4⟩ := hstep (blocksToks post ++ [(.end_, [])]) (consume s1')
    { w with cif := (w.cif ++ denote o.dia o.normKey pre) ++ [.mk bc [] []] } (f + 1) (by simp [hw]) (by omega)
    (blocks_rest_head post) hr
  -- the end of the container
  obtain ⟨ty, tx, ts, hrest, hfol⟩ := blocks_rest_head post
  rw [hrest] at h4
  obtain ⟨t3, s3, hty3, htx3, hn3, ht3, hr3⟩ := h4.inv
  have h5 : Feeds o s3 (blocksToks post ++ [(.end_, [])]) := by
    rw [hrest, ← hty3, ← htx3]; exact Feeds.pending ht3 hr3
  have hv := View.block o (denote o.dia o.normKey pre) bc hnew
  -- the blocks behind
  obtain ⟨s4, h6⟩ := blocks_structure o hstore hmfd post bseen2 s3 F acceptAll
    { log := r :: w.log, cif := denote o.dia o.normKey pre ++ [pruneC (.mk bc fs' ls')] } hpost hseen2 (by omega) h5
  refine ⟨s4, r, ?_, hrc⟩
  rw [h1]
  conv => lhs; rw [blocksLoop]
  simp only [Parser.bind_eq, Parser.pure_eq, P.bind, P.pure, hn, hty, htx, hstore, if_true, cstr_noNul hcode.2,
    createIn_block o bc _ _ acceptAll _ hcode.1 hnew']
  conv => lhs; rw [hf, parseContainer]
  simp only [Parser.bind_eq, Parser.pure_eq, P.bind, P.pure, h3]
  conv => lhs; rw [elemsLoop]
  rcases hfol with h | h
  · simp only [Parser.bind_eq, Parser.pure_eq, P.bind, P.pure, hn3, hty3, h, if_true, getCif, setCif, hv.upd]
    rw [← hf, h6]; simp
  · simp only [Parser.bind_eq, Parser.pure_eq, P.bind, P.pure, hn3, hty3, h, if_true, getCif, setCif, hv.upd]
    rw [← hf, h6]; simp

end CifModel.Lemmas.DefectChars
