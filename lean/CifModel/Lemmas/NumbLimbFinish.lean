import CifModel.Lemmas.NumbLimbMsd
import CifModel.Lemmas.NumbLimbGen
/-
  Limb level of C10, part 10: assembling to_digits — rounding unit, carry loop, digit generation — into
  `toDigitsLimbs = toDigitsBig`.
-/
namespace CifModel.Lemmas.NumbLimbFinish
open CifModel.Model.Numb CifModel.Model.NumbLimbs CifModel.Lemmas.NumbLimbPass CifModel.Lemmas.NumbLimbRefine
  CifModel.Lemmas.NumbLimbDigits CifModel.Lemmas.NumbLimbTight CifModel.Lemmas.NumbLimbCarry CifModel.Lemmas.NumbLimbGen
  CifModel.Lemmas.NumbLimbMsd CifModel.Spec.Rounding CifModel.Lemmas.NumbRound

/-! ### helpers -/

theorem rhe_zero_of_small (X Y : Nat) (h : 2 * X < Y) : roundHalfEven X Y = 0 := by
  have hlt : X < Y := by omega
  unfold roundHalfEven
  simp only [Nat.div_eq_of_lt hlt, Nat.mod_eq_of_lt hlt, h, if_true]

theorem roundIt_ge (ds : List Nat) (rv cv i lsd : Nat) : rv ≤ roundIt ds rv cv i lsd := by
  unfold roundIt
  split
  · exact Nat.le_refl _
  · split <;> omega
  · omega

theorem carryLoop_unchanged : ∀ (fuel : Nat) (ds : List Nat) (i j : Nat), j < (carryLoop fuel ds i).2 →
    (carryLoop fuel ds i).1.getD j 0 = ds.getD j 0 := by
  intro fuel
  induction fuel with
  | zero => intro ds i j _; rfl
  | succ f ih =>
    intro ds i j hj
    rw [carryLoop] at hj ⊢
    by_cases hc : BBASE ≤ ds.getD i 0 ∧ 0 < i
    · rw [if_pos hc] at hj ⊢
      rw [ih _ (i - 1) j hj]
      have hle := (carryLoop_printed f (ds.set (i - 1) (ds.getD (i - 1) 0 + ds.getD i 0 / BBASE)) (i - 1) (i - 1)
        (Nat.le_refl _)) 
      -- the result index is ≤ i - 1, so j ≠ i - 1
      have hres : (carryLoop f (ds.set (i - 1) (ds.getD (i - 1) 0 + ds.getD i 0 / BBASE)) (i - 1)).2 ≤ i - 1 := by
        clear hle
        have : ∀ (f : Nat) (l : List Nat) (k : Nat), (carryLoop f l k).2 ≤ k := by
          intro f
          induction f with
          | zero => intro l k; exact Nat.le_refl _
          | succ g ihg =>
            intro l k
            rw [carryLoop]
            split
            · exact Nat.le_trans (ihg _ _) (Nat.sub_le _ _)
            · exact Nat.le_refl _
        exact this _ _ _
      rw [List.getD_eq_getElem?_getD, List.getElem?_set_ne (by omega), ← List.getD_eq_getElem?_getD]
    · rw [if_neg hc]

theorem carryLoop_le : ∀ (f : Nat) (l : List Nat) (k : Nat), (carryLoop f l k).2 ≤ k := by
  intro f
  induction f with
  | zero => intro l k; exact Nat.le_refl _
  | succ g ihg =>
    intro l k
    rw [carryLoop]
    split
    · exact Nat.le_trans (ihg _ _) (Nat.sub_le _ _)
    · exact Nat.le_refl _

/-- a limb that received a carry is not zero -/
theorem carryLoop_stepped : ∀ (fuel : Nat) (ds : List Nat) (i : Nat), i < ds.length → (carryLoop fuel ds i).2 < i →
    (carryLoop fuel ds i).1.getD (carryLoop fuel ds i).2 0 ≠ 0 := by
  intro fuel
  induction fuel with
  | zero => intro ds i _ h; simp [carryLoop] at h
  | succ f ih =>
    intro ds i hi h
    rw [carryLoop] at h ⊢
    by_cases hc : BBASE ≤ ds.getD i 0 ∧ 0 < i
    · rw [if_pos hc] at h ⊢
      have hlen : (ds.set (i - 1) (ds.getD (i - 1) 0 + ds.getD i 0 / BBASE)).length = ds.length := List.length_set
      by_cases hr : (carryLoop f (ds.set (i - 1) (ds.getD (i - 1) 0 + ds.getD i 0 / BBASE)) (i - 1)).2 < i - 1
      · exact ih _ (i - 1) (by rw [hlen]; omega) hr
      · have hle := carryLoop_le f (ds.set (i - 1) (ds.getD (i - 1) 0 + ds.getD i 0 / BBASE)) (i - 1)
        have heq : (carryLoop f (ds.set (i - 1) (ds.getD (i - 1) 0 + ds.getD i 0 / BBASE)) (i - 1)).2 = i - 1 := by omega
        -- the loop stopped at once: the array is the one just written
        have hstop : (carryLoop f (ds.set (i - 1) (ds.getD (i - 1) 0 + ds.getD i 0 / BBASE)) (i - 1)).1.getD (i - 1) 0
            = (ds.set (i - 1) (ds.getD (i - 1) 0 + ds.getD i 0 / BBASE)).getD (i - 1) 0 := by
          cases f with
          | zero => rfl
          | succ g =>
            rw [carryLoop] at heq ⊢
            split
            · rename_i hc2
              rw [if_pos hc2] at heq
              have := carryLoop_le g ((ds.set (i - 1) (ds.getD (i - 1) 0 + ds.getD i 0 / BBASE)).set (i - 1 - 1)
                ((ds.set (i - 1) (ds.getD (i - 1) 0 + ds.getD i 0 / BBASE)).getD (i - 1 - 1) 0 +
                  (ds.set (i - 1) (ds.getD (i - 1) 0 + ds.getD i 0 / BBASE)).getD (i - 1) 0 / BBASE)) (i - 1 - 1)
              have h0 := hc2.2
              omega
            · rfl
        rw [heq, hstop, List.getD_eq_getElem?_getD, List.getElem?_set_self (by omega)]
        simp only [Option.getD_some]
        have : 1 ≤ ds.getD i 0 / BBASE := (Nat.le_div_iff_mul_le (by decide)).mpr (by simpa using hc.1)
        omega
    · rw [if_neg hc] at h; simp at h

/-! ### moving the boundary of "read modulo 10⁹" over proper limbs -/

theorem printed_move (hd : List Nat) (x : Nat) (tl : List Nat) (hx : x < BBASE) :
    printed (hd ++ [x]) tl = printed hd (x :: tl) := by
  unfold printed
  rw [nat_snoc]
  simp only [List.map_cons, List.length_cons]
  rw [nat_cons, List.length_map, Nat.pow_succ, Nat.mod_eq_of_lt hx]
  grind

theorem printedAt_move (ds : List Nat) (r : Nat) (hr : r < ds.length) : ∀ (k w : Nat), w + k ≤ r →
    (∀ j, w < j → j ≤ w + k → ds.getD j 0 < BBASE) → printedAt ds (w + k) r = printedAt ds w r := by
  intro k
  induction k with
  | zero => intro w _ _; rfl
  | succ n ih =>
    intro w hw hs
    have h1 := ih w (by omega) (fun j a b => hs j a (by omega))
    rw [← h1]
    -- one step: from w + n + 1 to w + n
    have hlt : w + n + 1 < ds.length := by omega
    unfold printedAt
    have ht : ds.take (w + (n + 1) + 1) = ds.take (w + n + 1) ++ [ds.getD (w + n + 1) 0] := by
      rw [List.getD_eq_getElem?_getD, List.getElem?_eq_getElem hlt]
      simp only [Option.getD_some]
      exact List.take_succ_eq_append_getElem hlt
    have hd : (ds.drop (w + n + 1)).take (r - (w + n)) =
        ds.getD (w + n + 1) 0 :: (ds.drop (w + (n + 1) + 1)).take (r - (w + (n + 1))) := by
      rw [List.getD_eq_getElem?_getD, List.getElem?_eq_getElem hlt]
      simp only [Option.getD_some]
      rw [List.drop_eq_getElem_cons hlt]
      have : r - (w + n) = (r - (w + (n + 1))) + 1 := by omega
      rw [this, List.take_succ_cons]
      rfl
    rw [ht, hd]
    exact printed_move _ _ _ (hs (w + n + 1) (by omega) (by omega))


/-! ### the rounding unit of to_digits is `10^-scale` -/

theorem Bb_pow9 (k : Nat) : Bb ^ k = 10 ^ (9 * k) := by
  have : Bb = 10 ^ 9 := by decide
  rw [this, ← Nat.pow_mul]

/-- the round digit index and position of to_digits, and the exact level's fraction `|d|·10^scale` -/
theorem unit_cross (N vn vd : Nat) (scale : Int) (r : Nat) (hrel : N * vd = vn * Bb ^ 121) (hr : r ≤ 154)
    (hrd : (r : Int) = if scale ≤ 0 then (34 : Int) - (((-scale).toNat / 9 : Nat) : Int)
                       else (34 : Int) + (((scale.toNat + 9 - 1) / 9 : Nat) : Int)) :
    N * (if scale ≥ 0 then vd else vd * pow10 (-scale).toNat) =
      (if scale ≥ 0 then vn * pow10 scale.toNat else vn) * (pow10 ((-scale) % 9).toNat * Bb ^ (156 - (r + 1))) := by
  rw [Bb_pow9] at hrel ⊢
  unfold pow10
  by_cases hs : scale ≥ 0
  · rw [if_pos hs, if_pos hs, hrel]
    have e : vn * 10 ^ scale.toNat * (10 ^ ((-scale) % 9).toNat * 10 ^ (9 * (156 - (r + 1))))
        = vn * 10 ^ (scale.toNat + ((-scale) % 9).toNat + 9 * (156 - (r + 1))) := by
      rw [Nat.pow_add, Nat.pow_add]; grind
    rw [e]
    congr 2
    by_cases h0 : scale ≤ 0
    · rw [if_pos h0] at hrd; omega
    · rw [if_neg h0] at hrd; omega
  · rw [if_neg hs, if_neg hs]
    have h0 : scale ≤ 0 := by omega
    rw [if_pos h0] at hrd
    have e1 : N * (vd * 10 ^ (-scale).toNat) = (N * vd) * 10 ^ (-scale).toNat := by grind
    rw [e1, hrel]
    have e2 : vn * 10 ^ (9 * 121) * 10 ^ (-scale).toNat = vn * 10 ^ (9 * 121 + (-scale).toNat) := by
      rw [Nat.pow_add]; grind
    have e3 : vn * (10 ^ ((-scale) % 9).toNat * 10 ^ (9 * (156 - (r + 1))))
        = vn * 10 ^ (((-scale) % 9).toNat + 9 * (156 - (r + 1))) := by rw [Nat.pow_add]
    rw [e2, e3]
    congr 2
    omega


/-! ### the rounding step and the digit generation on the array -/

theorem roundStep_spec (A : Arr) (r rp : Nat) (g : GoodD A) (hr : r ≤ 154) (hp : rp ≤ 8) :
    natOfLimbs ((roundStep A r rp).take (r + 1)) =
      pow10 rp * roundHalfEven (natOfLimbs A.digits) (pow10 rp * Bb ^ (156 - (r + 1))) ∧
    (roundStep A r rp).length = 156 ∧
    (∀ j, j ≠ r → (roundStep A r rp).getD j 0 = A.digits.getD j 0) ∧
    (rp = 0 → A.digits.getD r 0 ≤ (roundStep A r rp).getD r 0) := by
  have hlen := g.len
  have h1 := round_in_limb A.digits r A.lsd rp g.wf.small g.wf.zhi (by rw [hlen]; omega) hp
  rw [hlen] at h1
  refine ⟨h1, ?_, ?_, ?_⟩
  · unfold roundStep
    split <;> simp [hlen]
  · intro j hj
    unfold roundStep
    rw [List.getD_eq_getElem?_getD, List.getElem?_set_ne (fun e => hj e.symm)]
    split
    · rw [← List.getD_eq_getElem?_getD]
    · rw [List.getElem?_set_ne (fun e => hj e.symm), ← List.getD_eq_getElem?_getD]
  · intro h0
    unfold roundStep
    subst h0
    simp only [if_true]
    rw [List.getD_eq_getElem?_getD (l := A.digits.set r _), List.getElem?_set_self (by rw [hlen]; omega)]
    simp only [Option.getD_some]
    have hp1 : pow10 0 = 1 := rfl
    rw [hp1, Nat.one_mul, Nat.div_one]
    exact roundIt_ge _ _ _ _ _

theorem gen_spec (ds : List Nat) (msd r : Nat) (hz : ∀ j, j < msd → ds.getD j 0 = 0) (hmr : msd ≤ r) (hr : r < ds.length) :
    printedAt ds msd r = ds.getD msd 0 * Bb ^ (r - msd)
      + natOfLimbs (((ds.drop (msd + 1)).take (r - msd)).map (· % BBASE)) ∧
    (1 ≤ ds.getD msd 0 → genDigits ds msd r = decDigits (printedAt ds msd r)) := by
  have hm : msd < ds.length := by omega
  have htk : ds.take (msd + 1) = ds.take msd ++ [ds.getD msd 0] := by
    rw [List.getD_eq_getElem?_getD, List.getElem?_eq_getElem hm]
    simp only [Option.getD_some]
    exact List.take_succ_eq_append_getElem hm
  have h0 : natOfLimbs (ds.take msd) = 0 := all_zero_nat _ (take_zero_of_idx _ _ hz)
  have hl : ((ds.drop (msd + 1)).take (r - msd)).length = r - msd := by
    rw [List.length_take, List.length_drop]; omega
  have hp : printedAt ds msd r = ds.getD msd 0 * Bb ^ (r - msd)
      + natOfLimbs (((ds.drop (msd + 1)).take (r - msd)).map (· % BBASE)) := by
    unfold printedAt printed
    rw [htk, nat_snoc, h0, hl]; simp
  refine ⟨hp, ?_⟩
  intro hy
  rw [hp]
  unfold genDigits
  rw [limbDigits_count]
  have := digits_of_limbs ((ds.drop (msd + 1)).take (r - msd)) (ds.getD msd 0) hy
  rw [hl] at this
  exact this.symm


theorem carryLoop_nostep : ∀ (fuel : Nat) (ds : List Nat) (i : Nat), (carryLoop fuel ds i).2 = i → (carryLoop fuel ds i).1 = ds := by
  intro fuel ds i h
  cases fuel with
  | zero => rfl
  | succ f =>
    rw [carryLoop] at h ⊢
    split
    · rename_i hc
      rw [if_pos hc] at h
      have := carryLoop_le f (ds.set (i - 1) (ds.getD (i - 1) 0 + ds.getD i 0 / BBASE)) (i - 1)
      have := hc.2
      omega
    · rfl

theorem pow10_eq_one (rp : Nat) : pow10 rp = 1 ↔ rp = 0 := by
  unfold pow10
  constructor
  · intro h
    rcases Nat.eq_zero_or_pos rp with h0 | h0
    · exact h0
    · have : 10 ^ 1 ≤ 10 ^ rp := Nat.pow_le_pow_right (by decide) h0
      omega
  · intro h; rw [h]

/-- **rounding, carry and digit generation of to_digits = the exact level** -/
theorem digFinish_refines (A : Arr) (scale : Int) (l : List Nat) (vn vd : Nat) (g : GoodD A) (ht : TightUp A)
    (hvn : 0 < vn) (hvd : 0 < vd) (hfuel : vd ≤ vn * 10 ^ 400) (hrel : natOfLimbs A.digits * vd = vn * Bb ^ 121)
    (h : digFinish A scale = some l) :
    l = if rhe (if scale ≥ 0 then vn * pow10 scale.toNat else vn) (if scale ≥ 0 then vd else vd * pow10 (-scale).toNat) ≠ 0
        then decDigits (rhe (if scale ≥ 0 then vn * pow10 scale.toNat else vn) (if scale ≥ 0 then vd else vd * pow10 (-scale).toNat))
        else if (if scale ≤ 0 then (34 : Int) - (((-scale).toNat / 9 : Nat) : Int) else 34 + (((scale.toNat + 8) / 9 : Nat) : Int))
                  < limbOfPlace (flog10Rat vn vd) then [0] else [] := by
  unfold digFinish at h
  by_cases hrange : roundDigitOf scale < 0 ∨ ((DIG_PER_DBL : Nat) : Int) ≤ roundDigitOf scale
  · rw [if_pos hrange] at h; cases h
  · rw [if_neg hrange] at h
    have hrdv : roundDigitOf scale = if scale ≤ 0 then (34 : Int) - (((-scale).toNat / 9 : Nat) : Int)
        else (34 : Int) + (((scale.toNat + 9 - 1) / 9 : Nat) : Int) := rfl
    have hbig : (if scale ≤ 0 then (34 : Int) - (((-scale).toNat / 9 : Nat) : Int) else 34 + (((scale.toNat + 8) / 9 : Nat) : Int))
        = roundDigitOf scale := by
      rw [hrdv]; split <;> omega
    rw [hbig]
    generalize hr0 : (roundDigitOf scale).toNat = r at *
    have hrI : roundDigitOf scale = (r : Int) := by unfold DIG_PER_DBL at hrange; omega
    have hr : r ≤ 154 := by unfold DIG_PER_DBL at hrange; omega
    have hrp : roundPosOf scale ≤ 8 := by unfold roundPosOf DDIG_PER_DIG; omega
    have hrpv : roundPosOf scale = ((-scale) % 9).toNat := rfl
    -- the exact level's quotient is the array number over the rounding unit
    have hcross := unit_cross (natOfLimbs A.digits) vn vd scale r hrel hr (by rw [← hrI, hrdv])
    have hUpos : 0 < pow10 ((-scale) % 9).toNat * Bb ^ (156 - (r + 1)) :=
      Nat.mul_pos (Nat.pow_pos (by decide)) (Nat.pow_pos Bb_pos)
    have hdenpos : 0 < (if scale ≥ 0 then vd else vd * pow10 (-scale).toNat) := by
      split
      · exact hvd
      · exact Nat.mul_pos hvd (Nat.pow_pos (by decide))
    have hz : roundHalfEven (natOfLimbs A.digits) (pow10 (roundPosOf scale) * Bb ^ (156 - (r + 1))) =
        rhe (if scale ≥ 0 then vn * pow10 scale.toNat else vn) (if scale ≥ 0 then vd else vd * pow10 (-scale).toNat) := by
      rw [rhe_eq_spec, hrpv]
      exact roundHalfEven_cross _ _ _ _ hUpos hdenpos hcross
    obtain ⟨s1, s2, s3, s4⟩ := roundStep_spec A r (roundPosOf scale) g hr hrp
    rw [hz] at s1
    have hmsd := msd_limbOfPlace A r vn vd g ht hvn hvd hfuel hrel hr
    rw [hrI]
    generalize hzz : rhe (if scale ≥ 0 then vn * pow10 scale.toNat else vn) (if scale ≥ 0 then vd else vd * pow10 (-scale).toNat) = z at *
    generalize hds1 : roundStep A r (roundPosOf scale) = ds1 at *
    generalize hrpp : roundPosOf scale = rp at *
    have hd0 : decDigits 0 = [0] := by decide
    by_cases hlt : r < A.msd
    · -- everything lies below the rounding limb
      rw [if_pos hlt] at h
      simp only [Option.some.injEq] at h
      rw [← h]
      have hgen : genDigits ds1 r r = decDigits (ds1.getD r 0) := by
        unfold genDigits
        rw [limbDigits_count, Nat.sub_self]; simp
      rw [hgen]
      -- the limbs below r are zero, so the limb r holds p10·z
      have hrl : r < ds1.length := by omega
      have htk : ds1.take (r + 1) = ds1.take r ++ [ds1.getD r 0] := by
        rw [List.getD_eq_getElem?_getD, List.getElem?_eq_getElem hrl]
        simp only [Option.getD_some]
        exact List.take_succ_eq_append_getElem hrl
      have h0 : natOfLimbs (ds1.take r) = 0 := by
        apply all_zero_nat
        apply take_zero_of_idx
        intro j hj
        rw [s3 j (by omega)]
        exact g.wf.zlo j (by omega)
      rw [htk, nat_snoc, h0] at s1
      have hv : ds1.getD r 0 = pow10 rp * z := by omega
      have hzv : pow10 rp * z = z := by
        by_cases h00 : rp = 0
        · rw [h00]; show 1 * z = z; omega
        · -- 2N < U: the value rounds to zero
          have hsm := small_of_zero_prefix A r g hlt (by omega)
          have hp10 : 10 ≤ pow10 rp := by
            unfold pow10
            have : 10 ^ 1 ≤ 10 ^ rp := Nat.pow_le_pow_right (by decide) (by omega)
            simpa using this
          have e : 156 - (r + 1) = 155 - r := by omega
          have hz0 : z = 0 := by
            rw [← hz, e]
            apply rhe_zero_of_small
            have : 10 * Bb ^ (155 - r) ≤ pow10 rp * Bb ^ (155 - r) := Nat.mul_le_mul_right _ hp10
            omega
          rw [hz0]; simp
      rw [hv, hzv]
      by_cases hz0 : z ≠ 0
      · rw [if_pos hz0]
      · rw [if_neg hz0]
        have : z = 0 := by omega
        rw [this, hd0, if_pos (hmsd.mpr hlt)]
    · rw [if_neg hlt] at h
      simp only [Option.some.injEq] at h
      have hml : A.msd ≤ r := by omega
      have hrl : r < ds1.length := by omega
      obtain ⟨cp1, cp2, cp3⟩ := carryLoop_printed (DIG_PER_DBL + 1) ds1 r r (Nat.le_refl _) hrl
      have cstop := carryLoop_stops (DIG_PER_DBL + 1) ds1 r (by unfold DIG_PER_DBL; omega)
      have cunch := carryLoop_unchanged (DIG_PER_DBL + 1) ds1 r
      have cstep := carryLoop_stepped (DIG_PER_DBL + 1) ds1 r hrl
      have cnost := carryLoop_nostep (DIG_PER_DBL + 1) ds1 r
      generalize carryLoop (DIG_PER_DBL + 1) ds1 r = c at *
      have hPr : printedAt ds1 r r = pow10 rp * z := by
        unfold printedAt printed
        rw [Nat.sub_self]; simp [natOfLimbs]; exact s1
      rw [hPr] at cp1
      generalize hmsd' : (if c.2 < A.msd then c.2 else A.msd) = msd' at *
      have hm1 : msd' ≤ c.2 := by rw [← hmsd']; split <;> omega
      have hm2 : msd' ≤ A.msd := by rw [← hmsd']; split <;> omega
      have hc1len : r < c.1.length := by omega
      -- zeros below msd'
      have hzero : ∀ j, j < msd' → c.1.getD j 0 = 0 := by
        intro j hj
        rw [cunch j (by omega), s3 j (by omega)]
        exact g.wf.zlo j (by omega)
      -- the limbs between msd' and the stopping position are proper
      have hmove : printedAt c.1 msd' r = pow10 rp * z := by
        rw [← cp1]
        have hk : c.2 = msd' + (c.2 - msd') := by omega
        conv => rhs; rw [hk]
        symm
        apply printedAt_move c.1 r hc1len (c.2 - msd') msd' (by omega)
        intro j hj1 hj2
        have hjc : j ≤ c.2 := by omega
        have hmeq : msd' = A.msd := by
          rw [← hmsd']
          by_cases hh : c.2 < A.msd
          · exfalso; rw [← hmsd', if_pos hh] at hj1; omega
          · rw [if_neg hh]
        rcases Nat.lt_or_ge j c.2 with hjl | hjl
        · rw [cunch j hjl, s3 j (by omega)]
          have hjlen : j < A.digits.length := by rw [g.len]; omega
          rw [List.getD_eq_getElem?_getD, List.getElem?_eq_getElem hjlen]
          exact g.wf.small _ (List.getElem_mem hjlen)
        · have : j = c.2 := by omega
          rw [this]
          rcases cstop with hh | hh
          · exact hh
          · omega
      obtain ⟨gs1, gs2⟩ := gen_spec c.1 msd' r hzero (by omega) hc1len
      rw [← h]
      by_cases hy : 1 ≤ c.1.getD msd' 0
      · -- the leading limb is not zero: the digits are the numeral of p10·z
        rw [gs2 hy, hmove]
        have hzpos : 1 ≤ z := by
          rcases Nat.eq_zero_or_pos z with h00 | h00
          · exfalso
            rw [hmove, h00, Nat.mul_zero] at gs1
            have : 1 * 1 ≤ c.1.getD msd' 0 * Bb ^ (r - msd') := Nat.mul_le_mul hy (Nat.pow_pos Bb_pos)
            omega
          · exact h00
        have hcut : (if pow10 rp = 1 then 0 else rp) = rp := by
          by_cases hp1 : pow10 rp = 1
          · rw [if_pos hp1]; exact ((pow10_eq_one rp).mp hp1).symm
          · rw [if_neg hp1]
        rw [hcut, take_numeral z rp hzpos]
        have : z ≠ 0 := by omega
        rw [if_pos this]
      · -- the leading limb is zero: only possible when the rounding limb is the msd limb and rounds to zero
        have hy0 : c.1.getD msd' 0 = 0 := by omega
        unfold TightUp at ht
        have hAll : c.2 = r ∧ A.msd = r := by
          by_cases hh : c.2 < A.msd
          · exfalso
            have hme : msd' = c.2 := by rw [← hmsd', if_pos hh]
            rw [hme] at hy0
            exact cstep (by omega) hy0
          · have hme : msd' = A.msd := by rw [← hmsd', if_neg hh]
            rw [hme] at hy0
            rcases Nat.lt_or_ge A.msd c.2 with h1 | h1
            · exfalso
              rw [cunch _ h1, s3 _ (by omega)] at hy0
              exact ht hy0
            · have hce : c.2 = A.msd := by omega
              rcases Nat.lt_or_ge c.2 r with h2 | h2
              · exfalso
                rw [← hce] at hy0
                exact cstep h2 hy0
              · exact ⟨by omega, by omega⟩
        have hme : msd' = r := by rw [← hmsd']; split <;> omega
        have hc1 : c.1 = ds1 := cnost hAll.1
        rw [hme] at hy0 gs1 hmove ⊢
        -- p10·z = 0, so z = 0
        have hP0 : pow10 rp * z = 0 := by
          rw [← hmove, gs1, hy0, Nat.sub_self]
          simp [natOfLimbs]
        have hz0 : z = 0 := by
          rcases Nat.mul_eq_zero.mp hP0 with hh | hh
          · have : 0 < pow10 rp := Nat.pow_pos (by decide)
            omega
          · exact hh
        have hgen : genDigits c.1 r r = [0] := by
          unfold genDigits
          rw [hy0, limbDigits_count, Nat.sub_self, hd0]; simp
        -- the rounding position is inside the limb: at a limb boundary the msd limb cannot round to zero
        have hrp1 : 1 ≤ rp := by
          rcases Nat.eq_zero_or_pos rp with h00 | h00
          · exfalso
            have := s4 h00
            rw [hc1] at hy0
            rw [hy0, ← hAll.2] at this
            omega
          · exact h00
        have hp1 : ¬ (pow10 rp = 1) := fun hh => by have := (pow10_eq_one rp).mp hh; omega
        rw [hgen, if_neg hp1]
        have : [0].length - rp = 0 := by simp; omega
        rw [this, List.take_zero]
        have hnz : ¬ (z ≠ 0) := by omega
        rw [if_neg hnz]
        have hnot : ¬ ((r : Int) < limbOfPlace (flog10Rat vn vd)) := fun hh => by have := hmsd.mp hh; omega
        rw [if_neg hnot]


/-- **toDigitsLimbs refines toDigitsBig** (∀ doubles `±m·2^e` with `m < 2^53`, `-1074 ≤ e ≤ 1024`, ∀ scales): whenever
    the limb level stays inside its array and the scale is one `cif_value_init_numb` admits, it returns the digit
    string of the exact-arithmetic level — including its `""` / `"0"` distinction for values that round to zero -/
theorem toDigitsLimbs_refines (m : Nat) (e scale : Int) (l : List Nat) (hb : bitLen m ≤ 53) (he1 : -1074 ≤ e)
    (he2 : e ≤ 1024) (h : toDigitsLimbs m e scale = some l) : l = toDigitsBig m e scale := by
  unfold toDigitsLimbs at h
  unfold toDigitsBig
  by_cases hm : m = 0
  · rw [if_pos hm] at h
    rw [if_pos hm]
    simp only [Option.some.injEq] at h
    exact h.symm
  · rw [if_neg hm] at h
    rw [if_neg hm]
    cases hs : digShift m e with
    | none => rw [hs] at h; cases h
    | some A =>
      rw [hs] at h
      simp only at h
      obtain ⟨g, hrel⟩ := digShift_spec m e A hm hb he1 he2 hs
      have ht := digShift_tight m e A hm hb hs
      obtain ⟨hvn, hvd, hfuel⟩ := CifModel.Lemmas.NumbAutoinit.ratOfBin_pos m e hm he1
      have := digFinish_refines A scale l _ _ g ht hvn hvd hfuel hrel h
      rw [this]

end CifModel.Lemmas.NumbLimbFinish
