import CifModel.Lemmas.StoreRefineS
/-
  Lemmas/StoreRefineR — remove_item against the documented data model: the item's column goes, the packets stay
  (REMOVE_ITEM_SQL, several items left) / the loop goes with its last item (DESTROY_LOOP_SQL).
-/
namespace CifModel.Store
open Gen.ErrCodes

theorem bool_and_false_of_not {a b : Bool} (h : ¬(a = true ∧ b = true)) : (a && b) = false := by
  cases a <;> cases b <;> simp_all

/-- remove_item with other items left in the loop, container-local refinement.  `hcomplete`: every packet of the loop stores a
    value for every item of the loop (what the documentation promises; F30 breaks it — and then packets vanish here).
    The loop keeps its category, loses the item's name and column, keeps every packet (same rows, same order, same other
    cells); every other loop of the CIF is what it was; the loop, block and frame tables are untouched. -/
theorem removeItem_refines (d : Db) (x : LoopRow) (i j0 : ItemRow) (h : Inv d) (hx : x ∈ d.loops)
    (hi : i ∈ d.loopItems x.cid x.loopNum) (hj0 : j0 ∈ d.loopItems x.cid x.loopNum) (hne0 : j0.name ≠ i.name)
    (hcomplete : ∀ r ∈ d.loopRows x.cid x.loopNum, ∀ j ∈ d.loopItems x.cid x.loopNum, d.hasValue x.cid j.name r = true) :
    let d' := d.removeItem x.cid i.name
    let keep := (d.loopItems x.cid x.loopNum).filter (fun j => !(j.name == i.name))
    absLoop d' x = { category := x.category, names := keep.map (·.nameOrig),
                     packets := (d.loopRows x.cid x.loopNum).map (fun r => keep.map (fun j => cell d x.cid j r)) } ∧
    (∀ y ∈ d.loops, ¬(y.cid = x.cid ∧ y.loopNum = x.loopNum) → absLoop d' y = absLoop d y) ∧
    d'.loops = d.loops ∧ d'.frames = d.frames ∧ d'.blocks = d.blocks := by
  obtain ⟨him, hik⟩ := List.mem_filter.mp hi
  have hik' : i.cid = x.cid ∧ i.loopNum = x.loopNum := by simpa using hik
  intro d' keep
  let p : ItemRow → Bool := fun j => j.cid == x.cid && j.name == i.name
  -- the statement and its cascade, simplified
  have hdead : ∀ w ∈ d.values, (d.items.filter p).any (fun j => j.cid == w.cid && j.name == w.name) = (w.cid == x.cid && w.name == i.name) := by
    intro w _
    cases hk : (w.cid == x.cid && w.name == i.name) with
    | true =>
      simp at hk
      rw [List.any_eq_true]
      exact ⟨i, List.mem_filter.mpr ⟨him, by simp [p, hik'.1]⟩, by simp [hik'.1, hk.1, hk.2]⟩
    | false =>
      rw [Bool.eq_false_iff]
      intro hany
      obtain ⟨j, hj, hm⟩ := List.any_eq_true.mp hany
      have hjp := (List.mem_filter.mp hj).2
      simp [p] at hjp hm
      have : (w.cid == x.cid && w.name == i.name) = true := by simp [← hm.1, ← hm.2, hjp.1, hjp.2]
      rw [this] at hk; cases hk
  have hvals : d'.values = d.values.filter (fun w => !(w.cid == x.cid && w.name == i.name)) := by
    show (d.deleteItems p).values = _
    unfold Db.deleteItems
    simp only []
    apply List.filter_congr
    intro w hw
    rw [hdead w hw]
  have hitems : d'.items = d.items.filter (fun j => !p j) := rfl
  have hpi : ∀ j ∈ d.items, p j = true → j = i := by
    intro j hj hp
    simp [p] at hp
    exact itemKey_unique d.items h.itemPK j hj i him (by rw [hp.1, hik'.1]) hp.2
  have e1 : d'.loops = d.loops := rfl
  have e3 : d'.frames = d.frames := rfl
  have e4 : d'.blocks = d.blocks := rfl
  -- an item of another loop is not the removed item
  have hother : ∀ y ∈ d.loops, ¬(y.cid = x.cid ∧ y.loopNum = x.loopNum) → ∀ j ∈ d.loopItems y.cid y.loopNum, p j = false := by
    intro y _ hne j hj
    obtain ⟨hjm, hjk⟩ := List.mem_filter.mp hj
    cases hp : p j with
    | false => rfl
    | true =>
      have := hpi j hjm hp
      subst this
      simp at hjk
      exact absurd ⟨by rw [← hjk.1, hik'.1], by rw [← hjk.2, hik'.2]⟩ hne
  -- a cell of a surviving item is what it was
  have hcell : ∀ (c : Nat) (j : ItemRow) (r : Nat), ¬(c = x.cid ∧ j.name = i.name) → cell d' c j r = cell d c j r := by
    intro c j r hn
    unfold cell
    rw [hvals, List.find?_filter]
    congr 1
    congr 1
    apply find?_congr'
    intro w _
    cases hk : (w.cid == c && w.name == j.name && w.rowNum == r) with
    | false => simp
    | true =>
      simp at hk
      have : (w.cid == x.cid && w.name == i.name) = false :=
        bool_and_false_of_not (fun ⟨a, b⟩ => hn ⟨by rw [← hk.1.1]; simpa using a, by rw [← hk.1.2]; simpa using b⟩)
      simp [this]
  refine ⟨?_, ?_, e1, e3, e4⟩
  · -- the item's loop
    have hkeep : d'.loopItems x.cid x.loopNum = keep := by
      show (d'.items.filter _) = _
      rw [hitems, List.filter_filter]
      show _ = (d.items.filter _).filter _
      rw [List.filter_filter]
      apply List.filter_congr
      intro j _
      simp only [p]
      cases hc : (j.cid == x.cid) <;> cases hl : (j.loopNum == x.loopNum) <;> cases hn : (j.name == i.name) <;> simp
    have hj0k : j0 ∈ keep := List.mem_filter.mpr ⟨hj0, by simp [hne0]⟩
    have hrows : d'.loopRows x.cid x.loopNum = d.loopRows x.cid x.loopNum := by
      apply sorted_eq_of_mem_iff _ _ (loopRows_sorted d' _ _) (loopRows_sorted d _ _)
      intro r
      rw [mem_loopRows_iff, mem_loopRows_iff, hkeep, hvals]
      constructor
      · intro ⟨w, hw, hc, ha, hr⟩
        refine ⟨w, (List.mem_filter.mp hw).1, hc, ?_, hr⟩
        obtain ⟨j, hj, hjn⟩ := List.any_eq_true.mp ha
        exact List.any_eq_true.mpr ⟨j, (List.mem_filter.mp hj).1, hjn⟩
      · intro hr
        have hrR : r ∈ d.loopRows x.cid x.loopNum := (mem_loopRows_iff d _ _ _).mpr hr
        have := hcomplete r hrR j0 hj0
        simp only [Db.hasValue, List.any_eq_true] at this
        obtain ⟨w, hw, hk⟩ := this
        simp at hk
        refine ⟨w, List.mem_filter.mpr ⟨hw, ?_⟩, hk.1.1, List.any_eq_true.mpr ⟨j0, hj0k, by simp [hk.1.2]⟩, hk.2⟩
        have : ¬(w.name = i.name) := by rw [hk.1.2]; exact hne0
        simp [this]
    rw [absLoop_eq d' x, hkeep, hrows]
    congr 1
    apply List.map_congr_left
    intro r _
    apply List.map_congr_left
    intro j hj
    apply hcell
    intro ⟨_, hn⟩
    have := (List.mem_filter.mp hj).2
    simp [hn] at this
  · intro y hy hne
    have hit : d'.loopItems y.cid y.loopNum = d.loopItems y.cid y.loopNum := by
      show (d'.items.filter _) = d.items.filter _
      rw [hitems, List.filter_filter]
      apply List.filter_congr
      intro j hj
      cases hk : (j.cid == y.cid && j.loopNum == y.loopNum) with
      | false => simp
      | true =>
        have := hother y hy hne j (List.mem_filter.mpr ⟨hj, hk⟩)
        simp [this]
    have hfil : d'.values.filter (fun w => w.cid == y.cid && (d.loopItems y.cid y.loopNum).any (fun j => j.name == w.name)) =
        d.values.filter (fun w => w.cid == y.cid && (d.loopItems y.cid y.loopNum).any (fun j => j.name == w.name)) := by
      rw [hvals, List.filter_filter]
      apply List.filter_congr
      intro w _
      cases hk : (w.cid == y.cid && (d.loopItems y.cid y.loopNum).any (fun j => j.name == w.name)) with
      | false => simp
      | true =>
        simp only [Bool.and_eq_true, List.any_eq_true] at hk
        obtain ⟨hc, j, hj, hjn⟩ := hk
        have hpj := hother y hy hne j hj
        obtain ⟨_, hjk⟩ := List.mem_filter.mp hj
        simp at hc hjn hjk
        have : (w.cid == x.cid && w.name == i.name) = false := by
          apply bool_and_false_of_not
          intro ⟨a, b⟩
          have : p j = true := by simp [p, hjk.1, ← hc, hjn]; exact ⟨by simpa using a, by simpa using b⟩
          rw [this] at hpj; cases hpj
        simp [this]
    have hrows : d'.loopRows y.cid y.loopNum = d.loopRows y.cid y.loopNum := by
      unfold Db.loopRows; rw [hit, hfil]
    rw [absLoop_eq d' y, absLoop_eq d y, hit, hrows]
    congr 1
    apply List.map_congr_left
    intro r _
    apply List.map_congr_left
    intro j hj
    apply hcell
    intro ⟨hc, hn⟩
    have hpj := hother y hy hne j hj
    obtain ⟨_, hjk⟩ := List.mem_filter.mp hj
    simp at hjk
    have : p j = true := by simp [p, hjk.1, hc, hn]
    rw [this] at hpj; cases hpj

end CifModel.Store

namespace CifModel.Store
open Gen.ErrCodes

/-- DESTROY_LOOP_SQL (cif_loop_destroy, and remove_item of a loop's LAST item), container-local refinement: exactly that loop
    disappears; every other loop of the CIF is what it was; block and frame tables untouched. -/
theorem destroyLoop_refines (d : Db) (x : LoopRow) (h : Inv d) :
    let d' := (d.destroyLoop x.cid x.loopNum).1
    d'.loops = d.loops.filter (fun l => !(l.cid == x.cid && l.loopNum == x.loopNum)) ∧
    (∀ y ∈ d.loops, ¬(y.cid = x.cid ∧ y.loopNum = x.loopNum) → absLoop d' y = absLoop d y) ∧
    d'.frames = d.frames ∧ d'.blocks = d.blocks := by
  intro d'
  let p : LoopRow → Bool := fun l => l.cid == x.cid && l.loopNum == x.loopNum
  let q : ItemRow → Bool := fun i => (d.loops.filter p).any (fun l => l.cid == i.cid && l.loopNum == i.loopNum)
  have hl : d'.loops = d.loops.filter (fun l => !p l) := rfl
  have hit : d'.items = d.items.filter (fun i => !q i) := rfl
  have hv : d'.values = d.values.filter (fun v => !(d.items.filter q).any (fun i => i.cid == v.cid && i.name == v.name)) := rfl
  -- an item marked by the cascade is an item of the destroyed loop
  have hq : ∀ i, q i = true → i.cid = x.cid ∧ i.loopNum = x.loopNum := by
    intro i hqi
    obtain ⟨l, hlm, hm⟩ := List.any_eq_true.mp hqi
    have hp := (List.mem_filter.mp hlm).2
    simp [p] at hp hm
    exact ⟨by rw [← hm.1, hp.1], by rw [← hm.2, hp.2]⟩
  have hother : ∀ y ∈ d.loops, ¬(y.cid = x.cid ∧ y.loopNum = x.loopNum) → ∀ j ∈ d.loopItems y.cid y.loopNum, q j = false := by
    intro y _ hne j hj
    obtain ⟨_, hjk⟩ := List.mem_filter.mp hj
    simp at hjk
    cases hqj : q j with
    | false => rfl
    | true =>
      have := hq j hqj
      exact absurd ⟨by rw [← hjk.1, this.1], by rw [← hjk.2, this.2]⟩ hne
  -- a value of a surviving item survives
  have hkeep : ∀ y ∈ d.loops, ¬(y.cid = x.cid ∧ y.loopNum = x.loopNum) → ∀ j ∈ d.loopItems y.cid y.loopNum, ∀ w ∈ d.values,
      w.cid = y.cid → w.name = j.name → (d.items.filter q).any (fun i => i.cid == w.cid && i.name == w.name) = false := by
    intro y hy hne j hj w _ hc hn
    rw [Bool.eq_false_iff]
    intro hany
    obtain ⟨i', hi', hm⟩ := List.any_eq_true.mp hany
    obtain ⟨hi'm, hqi'⟩ := List.mem_filter.mp hi'
    obtain ⟨hjm, hjk⟩ := List.mem_filter.mp hj
    simp at hm hjk
    have : i' = j := itemKey_unique d.items h.itemPK i' hi'm j hjm (by rw [hm.1, hc, hjk.1]) (by rw [hm.2, hn])
    subst this
    rw [hother y hy hne i' hj] at hqi'; cases hqi'
  refine ⟨by rw [hl], ?_, rfl, rfl⟩
  intro y hy hne
  have hitems : d'.loopItems y.cid y.loopNum = d.loopItems y.cid y.loopNum := by
    show d'.items.filter _ = d.items.filter _
    rw [hit, List.filter_filter]
    apply List.filter_congr
    intro j hj
    cases hk : (j.cid == y.cid && j.loopNum == y.loopNum) with
    | false => simp
    | true => simp [hother y hy hne j (List.mem_filter.mpr ⟨hj, hk⟩)]
  have hfil : d'.values.filter (fun w => w.cid == y.cid && (d.loopItems y.cid y.loopNum).any (fun j => j.name == w.name)) =
      d.values.filter (fun w => w.cid == y.cid && (d.loopItems y.cid y.loopNum).any (fun j => j.name == w.name)) := by
    rw [hv, List.filter_filter]
    apply List.filter_congr
    intro w hw
    cases hk : (w.cid == y.cid && (d.loopItems y.cid y.loopNum).any (fun j => j.name == w.name)) with
    | false => simp
    | true =>
      simp only [Bool.and_eq_true, List.any_eq_true] at hk
      obtain ⟨hc, j, hj, hjn⟩ := hk
      simp at hc hjn
      simp [hkeep y hy hne j hj w hw hc hjn.symm]
  have hrows : d'.loopRows y.cid y.loopNum = d.loopRows y.cid y.loopNum := by
    unfold Db.loopRows; rw [hitems, hfil]
  rw [absLoop_eq d' y, absLoop_eq d y, hitems, hrows]
  congr 1
  apply List.map_congr_left
  intro r _
  apply List.map_congr_left
  intro j hj
  unfold cell
  rw [hv, List.find?_filter]
  congr 1
  congr 1
  apply find?_congr'
  intro w hw
  cases hk : (w.cid == y.cid && w.name == j.name && w.rowNum == r) with
  | false => simp
  | true =>
    simp at hk
    simp [hkeep y hy hne j hj w hw hk.1.1 hk.1.2]

end CifModel.Store
