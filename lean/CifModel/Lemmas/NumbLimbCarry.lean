import CifModel.Lemmas.NumbLimbPass
/-
  Limb level of C10, part 3: the carry propagation of to_digits after rounding ("iteratively, if necessary").
  The C leaves a limb that overflowed to 10⁹ as it is, adds the carry to the next more significant limb, and the digit
  generation later prints only the low nine digits of every limb but the first.  The number printed is the number the
  limbs denoted before the loop.
-/
namespace CifModel.Lemmas.NumbLimbCarry
open CifModel.Model.Numb CifModel.Model.NumbLimbs CifModel.Lemmas.NumbLimbPass

/-- the number the digit generation prints for the limbs `hd ++ tl` when the limbs of `tl` are read modulo 10⁹ -/
def printed (hd tl : List Nat) : Nat := natOfLimbs hd * Bb ^ tl.length + natOfLimbs (tl.map (· % BBASE))

/-- one carry step: the carry `x / 10⁹` moves into the limb above, the limb itself is read modulo 10⁹ from now on -/
theorem carry_step (pre : List Nat) (a x : Nat) (tl : List Nat) :
    printed (pre ++ [a + x / BBASE]) (x :: tl) = printed (pre ++ [a, x]) tl := by
  unfold printed
  have hdm : BBASE * (x / BBASE) + x % BBASE = x := Nat.div_add_mod _ _
  have e1 : pre ++ [a, x] = (pre ++ [a]) ++ [x] := by simp
  rw [e1, nat_snoc, nat_snoc, nat_snoc]
  simp only [List.map_cons, List.length_cons, List.length_map]
  rw [nat_cons, List.length_map, Nat.pow_succ]
  generalize natOfLimbs pre = P at *
  generalize natOfLimbs (tl.map (· % BBASE)) = T at *
  generalize Bb ^ tl.length = W at *
  generalize x / BBASE = c at *
  generalize x % BBASE = m at *
  rw [← hdm]
  show (P * Bb + (a + c)) * (W * Bb) + (m * W + T) = ((P * Bb + a) * Bb + (Bb * c + m)) * W + T
  grind

/-- the array as `pre ++ a :: x :: post` with `x` at index `i` -/
theorem split_at (ds : List Nat) (i : Nat) (h1 : 0 < i) (h2 : i < ds.length) :
    ds = ds.take (i - 1) ++ ds.getD (i - 1) 0 :: ds.getD i 0 :: ds.drop (i + 1) := by
  have hi1 : i - 1 < ds.length := by omega
  have e1 : ds = ds.take (i - 1) ++ ds.drop (i - 1) := (List.take_append_drop _ _).symm
  have e2 : ds.drop (i - 1) = ds[i - 1] :: ds.drop (i - 1 + 1) := List.drop_eq_getElem_cons hi1
  have e3 : i - 1 + 1 = i := by omega
  have e4 : ds.drop i = ds[i] :: ds.drop (i + 1) := List.drop_eq_getElem_cons h2
  rw [List.getD_eq_getElem?_getD, List.getD_eq_getElem?_getD, List.getElem?_eq_getElem hi1, List.getElem?_eq_getElem h2]
  simp only [Option.getD_some]
  rw [e3] at e2
  rw [← e4, ← e2]
  exact e1

/-- the number printed for limbs `0 .. r` of `ds` when the limbs above index `w` are read modulo 10⁹ -/
def printedAt (ds : List Nat) (w r : Nat) : Nat := printed (ds.take (w + 1)) ((ds.drop (w + 1)).take (r - w))

theorem carryLoop_step (ds : List Nat) (i r : Nat) (h1 : 0 < i) (hir : i ≤ r) (hr : r < ds.length) :
    printedAt (ds.set (i - 1) (ds.getD (i - 1) 0 + ds.getD i 0 / BBASE)) (i - 1) r = printedAt ds i r := by
  have h2 : i < ds.length := by omega
  have hs := split_at ds i h1 h2
  generalize hpre : ds.take (i - 1) = pre at hs
  generalize ds.getD (i - 1) 0 = a at *
  generalize ds.getD i 0 = x at *
  generalize hpost : ds.drop (i + 1) = post at hs
  have hplen : pre.length = i - 1 := by rw [← hpre, List.length_take]; omega
  have hset : ds.set (i - 1) (a + x / BBASE) = pre ++ (a + x / BBASE) :: x :: post := by
    rw [hs, ← hplen, List.set_append_right _ _ (Nat.le_refl _)]
    simp
  unfold printedAt
  rw [hset]
  have t1 : (pre ++ (a + x / BBASE) :: x :: post).take (i - 1 + 1) = pre ++ [a + x / BBASE] := by
    rw [← hplen, List.take_length_add_append]
    simp
  have d1 : (pre ++ (a + x / BBASE) :: x :: post).drop (i - 1 + 1) = x :: post := by
    rw [← hplen, List.drop_length_add_append]
    simp
  have t2 : ds.take (i + 1) = pre ++ [a, x] := by
    rw [hs]
    have : i + 1 = pre.length + 2 := by omega
    rw [this, List.take_length_add_append]
    simp
  have d2 : ds.drop (i + 1) = post := hpost
  rw [t1, d1, t2, d2]
  have k1 : r - (i - 1) = (r - i) + 1 := by omega
  rw [k1, List.take_succ_cons]
  exact carry_step pre a x (post.take (r - i))

/-- **the carry loop does not change the number that will be printed** -/
theorem carryLoop_printed : ∀ (fuel : Nat) (ds : List Nat) (i r : Nat), i ≤ r → r < ds.length →
    printedAt (carryLoop fuel ds i).1 (carryLoop fuel ds i).2 r = printedAt ds i r ∧
    (carryLoop fuel ds i).1.length = ds.length ∧ (carryLoop fuel ds i).2 ≤ i := by
  intro fuel
  induction fuel with
  | zero => intro ds i r _ _; exact ⟨rfl, rfl, Nat.le_refl _⟩
  | succ f ih =>
    intro ds i r hir hr
    rw [carryLoop]
    by_cases hc : BBASE ≤ ds.getD i 0 ∧ 0 < i
    · rw [if_pos hc]
      have hlen : (ds.set (i - 1) (ds.getD (i - 1) 0 + ds.getD i 0 / BBASE)).length = ds.length := List.length_set
      obtain ⟨a1, a2, a3⟩ := ih (ds.set (i - 1) (ds.getD (i - 1) 0 + ds.getD i 0 / BBASE)) (i - 1) r (by omega) (by rw [hlen]; exact hr)
      refine ⟨?_, by rw [a2, hlen], by omega⟩
      rw [a1]
      exact carryLoop_step ds i r hc.2 hir hr
    · rw [if_neg hc]; exact ⟨rfl, rfl, Nat.le_refl _⟩

/-- the loop stops at a limb below 10⁹ (or at index 0), as long as the fuel suffices -/
theorem carryLoop_stops : ∀ (fuel : Nat) (ds : List Nat) (i : Nat), i < fuel →
    (carryLoop fuel ds i).1.getD (carryLoop fuel ds i).2 0 < BBASE ∨ (carryLoop fuel ds i).2 = 0 := by
  intro fuel
  induction fuel with
  | zero => intro ds i h; omega
  | succ f ih =>
    intro ds i h
    rw [carryLoop]
    by_cases hc : BBASE ≤ ds.getD i 0 ∧ 0 < i
    · rw [if_pos hc]; exact ih _ (i - 1) (by omega)
    · rw [if_neg hc]
      by_cases h0 : 0 < i
      · left
        rcases Nat.lt_or_ge (ds.getD i 0) BBASE with hh | hh
        · exact hh
        · exact absurd ⟨hh, h0⟩ hc
      · right; omega

end CifModel.Lemmas.NumbLimbCarry
