import CifModel.Lemmas.StoreTotal
import CifModel.Lemmas.StoreCodes
import CifModel.Model.PktItr
/-
  Lemmas/StoreRows — two more facts about every reachable store, and their preservation by the statements / bodies that write:
  RowsBelowAll (a stored row number of a loop never exceeds the loop's last_row_num) and ScalarCount (a scalar loop whose
  last_row_num is 1 has its packet).  With `Inv` and PacketsTotal they make up `Good` (Lemmas/StoreTotalS).
-/
namespace CifModel.Store
open Gen.ErrCodes

def RowsBelowAll (d : Db) : Prop :=
  ∀ x ∈ d.loops, ∀ v ∈ d.values, v.cid = x.cid → (d.loopItems x.cid x.loopNum).any (fun i => i.name == v.name) = true →
    v.rowNum ≤ x.lastRowNum

/-- the loop has a stored value: at least one packet -/
def HasPacket (d : Db) (x : LoopRow) : Prop :=
  ∃ v ∈ d.values, v.cid = x.cid ∧ (d.loopItems x.cid x.loopNum).any (fun i => i.name == v.name) = true

def ScalarCount (d : Db) : Prop := ∀ x ∈ d.loops, x.category = some [] → 1 ≤ x.lastRowNum → HasPacket d x

structure Rows (d : Db) : Prop where
  rb : RowsBelowAll d
  sc : ScalarCount d

theorem Rows.empty : Rows {} := ⟨(fun _ h => nomatch h), (fun _ h => nomatch h)⟩

theorem RowsBelowAll.at {d : Db} (h : RowsBelowAll d) (cid ln : Nat) : RowsBelow d cid ln := by
  intro r hr hc hl v hv hvc ha
  exact h r hr v hv (by rw [hvc, hc]) (by rw [hc, hl]; exact ha)

theorem hasPacket_iff_rows (d : Db) (x : LoopRow) : HasPacket d x ↔ d.loopRows x.cid x.loopNum ≠ [] := by
  constructor
  · rintro ⟨v, hv, hc, ha⟩ he
    have : v.rowNum ∈ d.loopRows x.cid x.loopNum := (mem_loopRows_iff _ _ _ _).mpr ⟨v, hv, hc, ha, rfl⟩
    rw [he] at this; cases this
  · intro hne
    cases hr : d.loopRows x.cid x.loopNum with
    | nil => exact absurd hr hne
    | cons r rs =>
      have : r ∈ d.loopRows x.cid x.loopNum := by rw [hr]; exact List.mem_cons_self
      obtain ⟨v, hv, hc, ha, _⟩ := (mem_loopRows_iff _ _ _ _).mp this
      exact ⟨v, hv, hc, ha⟩

/-- the hypothesis of `C04_code_add_packet` -/
theorem Rows.scalar_count {d : Db} (h : Rows d) (hinv : Inv d) (x : LoopRow) (hx : x ∈ d.loops) (hs : x.category = some []) :
    1 ≤ x.lastRowNum ↔ d.loopRows x.cid x.loopNum ≠ [] := by
  constructor
  · intro h1; exact (hasPacket_iff_rows d x).mp (h.sc x hx hs h1)
  · intro hne
    obtain ⟨v, hv, hc, ha⟩ := (hasPacket_iff_rows d x).mpr hne
    have := h.rb x hx v hv hc ha
    have := hinv.rowPos v hv
    omega

/-- statements that leave loop, loop_item and item_value alone -/
theorem Rows.congr {d d' : Db} (h : Rows d) (hl : d'.loops = d.loops) (hi : d'.items = d.items) (hv : d'.values = d.values) : Rows d' := by
  refine ⟨?_, ?_⟩
  · intro x hx v hvm hc ha
    rw [hl] at hx; rw [hv] at hvm
    exact h.rb x hx v hvm hc (by simpa only [Db.loopItems, hi] using ha)
  · intro x hx hs h1
    rw [hl] at hx
    obtain ⟨v, hvm, hc, ha⟩ := h.sc x hx hs h1
    exact ⟨v, by rw [hv]; exact hvm, hc, by simpa only [Db.loopItems, hi] using ha⟩

/-- only the row counters / categories of loops change, and no loop becomes scalar or gets a smaller counter -/
theorem Rows.relabel {d d' : Db} (h : Rows d) (hi : d'.items = d.items) (hv : d'.values = d.values)
    (hl : ∀ x ∈ d'.loops, ∃ x0 ∈ d.loops, x0.cid = x.cid ∧ x0.loopNum = x.loopNum ∧ x0.lastRowNum ≤ x.lastRowNum ∧
      (x.category = some [] → 1 ≤ x.lastRowNum → x0.category = some [] ∧ 1 ≤ x0.lastRowNum)) : Rows d' := by
  refine ⟨?_, ?_⟩
  · intro x hx v hvm hc ha
    obtain ⟨x0, hx0, e1, e2, e3, _⟩ := hl x hx
    rw [hv] at hvm
    have := h.rb x0 hx0 v hvm (by rw [hc, e1]) (by rw [e1, e2]; simpa only [Db.loopItems, hi] using ha)
    omega
  · intro x hx hs h1
    obtain ⟨x0, hx0, e1, e2, _, e4⟩ := hl x hx
    obtain ⟨hs0, h10⟩ := e4 hs h1
    obtain ⟨v, hvm, hc, ha⟩ := h.sc x0 hx0 hs0 h10
    exact ⟨v, by rw [hv]; exact hvm, by rw [hc, e1], by rw [← e1, ← e2]; simpa only [Db.loopItems, hi] using ha⟩

/-- SET_ALL_VALUES_SQL -/
theorem Rows.setAllValues {d : Db} (h : Rows d) (hpk : d.items.Pairwise ItemKeyNe) (cid : Nat) (k : Str) (v : V) :
    Rows (d.setAllValues cid k v).1 := by
  unfold Db.setAllValues
  split
  · exact h
  · rename_i ln hlo
    have hitem : ∃ i ∈ d.items, i.cid = cid ∧ i.name = k ∧ i.loopNum = ln := by
      unfold Db.loopOfItem at hlo
      cases hf : d.items.find? (fun i => i.cid == cid && i.name == k) with
      | none => simp [hf] at hlo
      | some i =>
        have hmem := List.mem_of_find?_eq_some hf
        have hkey := List.find?_some hf
        simp [hf] at hlo
        simp at hkey
        exact ⟨i, hmem, hkey.1, hkey.2, hlo⟩
    obtain ⟨i, him, hic, hik, hil⟩ := hitem
    refine ⟨?_, ?_⟩
    · intro x hx w hw hc ha
      have hxl : x ∈ d.loops := hx
      have ha0 : (d.loopItems x.cid x.loopNum).any (fun i => i.name == w.name) = true := ha
      have hw' : w ∈ d.values.filter (fun w => !(w.cid == cid && w.name == k && (d.loopRows cid ln).contains w.rowNum)) ++
          (d.loopRows cid ln).map (fun r => ({ cid := cid, name := k, rowNum := r, val := v } : ValueRow)) := hw
      rcases List.mem_append.mp hw' with hw1 | hw1
      · exact h.rb x hxl w (List.mem_filter.mp hw1).1 hc ha0
      · obtain ⟨r, hr, rfl⟩ := List.mem_map.mp hw1
        simp only [] at hc ha0 ⊢
        obtain ⟨j, hj, hjn⟩ := List.any_eq_true.mp ha0
        obtain ⟨hjm, hjk⟩ := List.mem_filter.mp hj
        simp at hjk hjn
        have : j = i := itemKey_unique d.items hpk j hjm i him (by rw [hjk.1, ← hc, hic]) (by rw [hjn, hik])
        subst this
        have e1 : x.cid = cid := by rw [← hjk.1, hic]
        have e2 : x.loopNum = ln := by rw [← hjk.2, hil]
        obtain ⟨u, hu, huc, hua, hur⟩ := (mem_loopRows_iff _ _ _ _).mp hr
        rw [← hur]
        exact h.rb x hxl u hu (by rw [huc, e1]) (by rw [e1, e2]; exact hua)
    · intro x hx hs h1
      obtain ⟨u, hu, huc, hua⟩ := h.sc x hx hs h1
      cases hb : (u.cid == cid && u.name == k && (d.loopRows cid ln).contains u.rowNum) with
      | false =>
        exact ⟨u, List.mem_append_left _ (List.mem_filter.mpr ⟨hu, by rw [hb]; rfl⟩), huc, hua⟩
      | true =>
        simp only [Bool.and_eq_true, beq_iff_eq] at hb
        have hr : u.rowNum ∈ d.loopRows cid ln := by simpa using hb.2
        refine ⟨{ cid := cid, name := k, rowNum := u.rowNum, val := v }, List.mem_append_right _ (List.mem_map.mpr ⟨u.rowNum, hr, rfl⟩), ?_, ?_⟩
        · show cid = x.cid; rw [← huc, hb.1.1]
        · show (d.loopItems x.cid x.loopNum).any (fun i => i.name == k) = true
          rw [← hb.1.2]; exact hua

/-- ADD_LOOP_ITEM_SQL: the new item has no value yet -/
theorem Rows.insertItem {d d' : Db} (h : Rows d) (hinv : Inv d) (cid : Nat) (k o : Str) (ln : Nat)
    (he : d.insertItem cid k o ln = some d') : Rows d' := by
  unfold Db.insertItem at he
  split at he; · cases he
  rename_i hno
  split at he; · cases he
  cases he
  -- a value's item is an old item
  have hold : ∀ (x : LoopRow) (w : ValueRow), w ∈ d.values → w.cid = x.cid →
      (Db.loopItems { d with items := d.items ++ [{ cid := cid, name := k, nameOrig := o, loopNum := ln }] } x.cid x.loopNum).any (fun i => i.name == w.name) = true →
      (d.loopItems x.cid x.loopNum).any (fun i => i.name == w.name) = true := by
    intro x w hw hc ha
    obtain ⟨a, ha1, han⟩ := List.any_eq_true.mp ha
    obtain ⟨ham, hak⟩ := List.mem_filter.mp ha1
    have ham' : a ∈ d.items ++ [{ cid := cid, name := k, nameOrig := o, loopNum := ln }] := ham
    rcases List.mem_append.mp ham' with h1 | h1
    · exact List.any_eq_true.mpr ⟨a, List.mem_filter.mpr ⟨h1, hak⟩, han⟩
    · simp at h1; subst h1
      simp at hak han
      have := hinv.valueFK w hw
      rw [hc, ← hak.1, ← han] at this
      rw [this] at hno; exact absurd rfl hno
  refine ⟨?_, ?_⟩
  · intro x hx w hw hc ha
    exact h.rb x hx w hw hc (hold x w hw hc ha)
  · intro x hx hs h1
    obtain ⟨u, hu, huc, hua⟩ := h.sc x hx hs h1
    refine ⟨u, hu, huc, ?_⟩
    obtain ⟨a, ha1, han⟩ := List.any_eq_true.mp hua
    obtain ⟨ham, hak⟩ := List.mem_filter.mp ha1
    exact List.any_eq_true.mpr ⟨a, List.mem_filter.mpr ⟨List.mem_append_left _ ham, hak⟩, han⟩

theorem addItemBody_rows (l : LH) (k o : Str) (v : V) (d d' : Db) (n : Nat) (h : Rows d) (hinv : Inv d)
    (he : addItemBody l k o v d = .ok (d', n)) : Rows d' := by
  unfold addItemBody at he
  split at he
  · cases he
  · rename_i d1 hins
    simp only [Except.ok.injEq] at he
    have h1 := h.insertItem hinv l.cid k o l.loopNum hins
    have := h1.setAllValues (hinv.insertItem l.cid k o l.loopNum hins).itemPK l.cid k v
    rw [he] at this; exact this

/-- after CREATE_LOOP_SQL the largest loop number of the container is the new loop's (GET_LOOPNUM_SQL reads it back) -/
theorem insertLoop_maxLoopNum (d d1 : Db) (cid : Nat) (cat : Option Str) (hinv : Inv d) (hins : d.insertLoopUnnumbered cid cat = .ok d1) :
    ∃ c, c ∈ d.containers ∧ c.id = cid ∧ d1.maxLoopNum cid = c.nextLoopNum ∧ d.hasLoop cid c.nextLoopNum = false ∧
      d1.loops = d.loops ++ [{ cid := cid, loopNum := c.nextLoopNum, category := cat, lastRowNum := 0 }] ∧
      d1.items = d.items ∧ d1.values = d.values ∧ d1.frames = d.frames ∧ d1.blocks = d.blocks := by
  obtain ⟨c, hcm, hcid, hfresh, l1, i1, v1, f1, b1⟩ := insertLoop_spec d d1 cid cat hins
  refine ⟨c, hcm, hcid, ?_, hfresh, l1, i1, v1, f1, b1⟩
  unfold Db.maxLoopNum
  rw [l1, List.filter_append]
  have : [({ cid := cid, loopNum := c.nextLoopNum, category := cat, lastRowNum := 0 } : LoopRow)].filter (fun l => l.cid == cid) =
      [{ cid := cid, loopNum := c.nextLoopNum, category := cat, lastRowNum := 0 }] := by simp
  rw [this]
  apply Nat.le_antisymm
  · apply foldl_max_le _ _ _ (Nat.zero_le _)
    intro x hx
    rcases List.mem_append.mp hx with hx | hx
    · obtain ⟨hxm, hxc⟩ := List.mem_filter.mp hx
      exact Nat.le_of_lt (hinv.ext.loopNumsBelow c hcm x hxm (by rw [hcid]; simpa using hxc))
    · simp at hx; subst hx; exact Nat.le_refl _
  · exact foldl_max_mem _ 0 { cid := cid, loopNum := c.nextLoopNum, category := cat, lastRowNum := 0 } (List.mem_append_right _ (List.mem_singleton.mpr rfl))

/-- what cif_container_create_loop does to the tables -/
theorem createLoopBody_spec (cid : Nat) (cat : Option Str) (names : List Name) (d d' : Db) (l : LH) (hinv : Inv d)
    (he : createLoopBody cid cat names d = .ok (d', l)) :
    ∃ N, d'.loops = d.loops ++ [{ cid := cid, loopNum := N, category := cat, lastRowNum := 0 }] ∧
      d'.items = d.items ++ names.map (fun n => { cid := cid, name := n.key, nameOrig := n.orig, loopNum := N }) ∧
      d'.values = d.values ∧ d.hasLoop cid N = false ∧ (∀ n ∈ names, d.hasItem cid n.key = false) ∧
      l = { cid := cid, loopNum := N, category := cat } := by
  unfold createLoopBody at he
  split at he
  · split at he <;> cases he
  · rename_i d1 hins
    simp only [] at he
    split at he
    · cases he
    · rename_i d2 hadd
      simp only [Except.ok.injEq, Prod.mk.injEq] at he
      obtain ⟨hd, hl⟩ := he
      subst hd
      obtain ⟨c, hcm, hcid, hfresh, l1, i1, v1, _, _⟩ := insertLoop_spec d d1 cid cat hins
      have hln : d1.maxLoopNum cid = c.nextLoopNum := by
        unfold Db.maxLoopNum
        rw [l1, List.filter_append]
        have : [({ cid := cid, loopNum := c.nextLoopNum, category := cat, lastRowNum := 0 } : LoopRow)].filter (fun l => l.cid == cid) =
            [{ cid := cid, loopNum := c.nextLoopNum, category := cat, lastRowNum := 0 }] := by simp
        rw [this]
        apply Nat.le_antisymm
        · apply foldl_max_le _ _ _ (Nat.zero_le _)
          intro x hx
          rcases List.mem_append.mp hx with hx | hx
          · obtain ⟨hxm, hxc⟩ := List.mem_filter.mp hx
            exact Nat.le_of_lt (hinv.ext.loopNumsBelow c hcm x hxm (by rw [hcid]; simpa using hxc))
          · simp at hx; subst hx; exact Nat.le_refl _
        · exact foldl_max_mem _ 0 { cid := cid, loopNum := c.nextLoopNum, category := cat, lastRowNum := 0 } (List.mem_append_right _ (List.mem_singleton.mpr rfl))
      rw [hln] at hadd hl
      obtain ⟨i2, l2, v2, _, _, _, hnew⟩ := addItems_spec names d1 d2 cid c.nextLoopNum hadd
      rw [i1] at i2; rw [l1] at l2; rw [v1] at v2
      refine ⟨c.nextLoopNum, l2, i2, v2, hfresh, ?_, hl.symm⟩
      intro n hn
      have := hnew n hn
      simpa only [Db.hasItem, i1] using this

theorem createLoopBody_rows (cid : Nat) (cat : Option Str) (names : List Name) (d d' : Db) (l : LH) (h : Rows d) (hinv : Inv d)
    (he : createLoopBody cid cat names d = .ok (d', l)) : Rows d' := by
  obtain ⟨N, hl, hi, hv, hfresh, hnew, _⟩ := createLoopBody_spec cid cat names d d' l hinv he
  -- an item of d' matching a stored value is an old item, and its loop is an old loop
  have olditem : ∀ (c n : Nat) (w : ValueRow), w ∈ d.values → w.cid = c → (d'.loopItems c n).any (fun i => i.name == w.name) = true →
      (d.loopItems c n).any (fun i => i.name == w.name) = true := by
    intro c n w hw hc ha
    obtain ⟨a, ha1, han⟩ := List.any_eq_true.mp ha
    obtain ⟨ham, hak⟩ := List.mem_filter.mp ha1
    rw [hi] at ham
    rcases List.mem_append.mp ham with h1 | h1
    · exact List.any_eq_true.mpr ⟨a, List.mem_filter.mpr ⟨h1, hak⟩, han⟩
    · obtain ⟨nm, hnm, rfl⟩ := List.mem_map.mp h1
      simp at hak han
      have := hinv.valueFK w hw
      rw [hc, ← hak.1, ← han, hnew nm hnm] at this
      cases this
  refine ⟨?_, ?_⟩
  · intro x hx w hw hc ha
    rw [hv] at hw
    have ha0 := olditem x.cid x.loopNum w hw hc ha
    rw [hl] at hx
    rcases List.mem_append.mp hx with hx0 | hx0
    · exact h.rb x hx0 w hw hc ha0
    · simp at hx0; subst hx0
      -- no old item belongs to the new loop
      exfalso
      obtain ⟨a, ha1, _⟩ := List.any_eq_true.mp ha0
      obtain ⟨ham, hak⟩ := List.mem_filter.mp ha1
      simp at hak
      have := hinv.itemFK a ham
      rw [hak.1, hak.2, hfresh] at this
      cases this
  · intro x hx hs h1
    rw [hl] at hx
    rcases List.mem_append.mp hx with hx0 | hx0
    · obtain ⟨u, hu, huc, hua⟩ := h.sc x hx0 hs h1
      refine ⟨u, by rw [hv]; exact hu, huc, ?_⟩
      obtain ⟨a, ha1, han⟩ := List.any_eq_true.mp hua
      obtain ⟨ham, hak⟩ := List.mem_filter.mp ha1
      exact List.any_eq_true.mpr ⟨a, List.mem_filter.mpr ⟨by rw [hi]; exact List.mem_append_left _ ham, hak⟩, han⟩
    · simp at hx0; subst hx0
      simp at h1

/-- cif_loop_add_packet (non-empty packet): the counter goes up by one and the new values sit in exactly that row -/
theorem addPacketBody_rows (l : LH) (p : List (Str × V)) (d d' : Db) (u : Unit) (h : Rows d) (hinv : Inv d) (hne : p ≠ [])
    (he : addPacketBody l p d = .ok (d', u)) : Rows d' := by
  unfold addPacketBody at he
  split at he
  · split at he <;> cases he
  · rename_i d1 hbump
    split at he
    · cases he
    · rename_i row hrow
      split at he
      · cases he
      · rename_i d2 hadd
        simp only [Except.ok.injEq, Prod.mk.injEq] at he
        obtain ⟨he, _⟩ := he
        subst he
        obtain ⟨l1, i1, v1, _, _, _⟩ := bumpRowNum_spec d d1 _ _ hbump
        obtain ⟨v2, i2, l2, _, _, _, hn2⟩ := addValues_spec p d1 d2 l.cid l.loopNum row hadd
        obtain ⟨fill, v3, i3, l3, _, _, hn3, _⟩ := fillPacket_spec d2 l.cid l.loopNum row
        have hli : ∀ c n, (d2.fillPacket l.cid l.loopNum row).loopItems c n = d.loopItems c n := by
          intro c n; simp only [Db.loopItems, i3, i2, i1]
        have hli1 : ∀ c n, d1.loopItems c n = d.loopItems c n := by intro c n; simp only [Db.loopItems, i1]
        have hli2 : ∀ c n, d2.loopItems c n = d.loopItems c n := by intro c n; simp only [Db.loopItems, i2, i1]
        have hvals : (d2.fillPacket l.cid l.loopNum row).values = d.values ++
            (p.map (fun e => ({ cid := l.cid, name := e.1, rowNum := row, val := e.2 } : ValueRow)) ++ fill) := by
          rw [v3, v2, v1, List.append_assoc]
        have hnew : ∀ w ∈ p.map (fun e => ({ cid := l.cid, name := e.1, rowNum := row, val := e.2 } : ValueRow)) ++ fill,
            w.cid = l.cid ∧ w.rowNum = row ∧ (d.loopItems l.cid l.loopNum).any (fun i => i.name == w.name) = true := by
          intro w hw
          rcases List.mem_append.mp hw with hw | hw
          · obtain ⟨e, he, rfl⟩ := List.mem_map.mp hw
            refine ⟨rfl, rfl, ?_⟩
            have := hn2 e he; rw [hli1] at this; exact this
          · obtain ⟨a, b, _, c⟩ := hn3 w hw
            rw [hli2] at c; exact ⟨a, b, c⟩
        -- the loop of the handle and its counter
        have hfound : ∃ x0 ∈ d.loops, x0.cid = l.cid ∧ x0.loopNum = l.loopNum ∧ row = x0.lastRowNum + 1 := by
          unfold Db.lastRowNum at hrow
          rw [l1, List.find?_map] at hrow
          cases hf : d.loops.find? ((fun y : LoopRow => y.cid == l.cid && y.loopNum == l.loopNum) ∘
              (fun y => if y.cid == l.cid && y.loopNum == l.loopNum then { y with lastRowNum := y.lastRowNum + 1 } else y)) with
          | none => rw [hf] at hrow; cases hrow
          | some y =>
            rw [hf] at hrow
            have hm := List.mem_of_find?_eq_some hf
            have hk := List.find?_some hf
            simp only [Function.comp] at hk
            simp only [Option.map_some, Option.some.injEq] at hrow
            by_cases hmm : (y.cid == l.cid && y.loopNum == l.loopNum) = true
            · simp only [hmm, if_true] at hrow
              simp only [Bool.and_eq_true, beq_iff_eq] at hmm
              exact ⟨y, hm, hmm.1, hmm.2, hrow.symm⟩
            · simp only [hmm, if_false] at hk; exact absurd hk hmm
        obtain ⟨x0, hx0, hx0c, hx0n, hrowe⟩ := hfound
        -- the loops afterwards: same keys and categories; the handle's loop counts one more
        have hloops : ∀ x ∈ (d2.fillPacket l.cid l.loopNum row).loops, ∃ y ∈ d.loops, x.cid = y.cid ∧ x.loopNum = y.loopNum ∧
            x.category = y.category ∧ ((y.cid = l.cid ∧ y.loopNum = l.loopNum ∧ x.lastRowNum = y.lastRowNum + 1) ∨
              (¬(y.cid = l.cid ∧ y.loopNum = l.loopNum) ∧ x.lastRowNum = y.lastRowNum)) := by
          intro x hx
          rw [l3, l2, l1] at hx
          obtain ⟨y, hy, hxy⟩ := List.mem_map.mp hx
          refine ⟨y, hy, ?_⟩
          by_cases hm : (y.cid == l.cid && y.loopNum == l.loopNum) = true
          · rw [if_pos hm] at hxy
            subst hxy
            simp only [Bool.and_eq_true, beq_iff_eq] at hm
            exact ⟨rfl, rfl, rfl, Or.inl ⟨hm.1, hm.2, rfl⟩⟩
          · rw [if_neg hm] at hxy
            subst hxy
            simp only [Bool.and_eq_true, beq_iff_eq] at hm
            exact ⟨rfl, rfl, rfl, Or.inr ⟨hm, rfl⟩⟩
        refine ⟨?_, ?_⟩
        · intro x hx w hw hc ha
          obtain ⟨y, hy, k1, k2, _, k4⟩ := hloops x hx
          rw [hvals] at hw
          rw [hli] at ha
          rcases List.mem_append.mp hw with hw | hw
          · have := h.rb y hy w hw (by rw [hc, k1]) (by rw [← k1, ← k2]; exact ha)
            rcases k4 with ⟨_, _, k⟩ | ⟨_, k⟩ <;> omega
          · obtain ⟨e1, e2, e3⟩ := hnew w hw
            -- the value's item lies in the handle's loop and in x's: the same loop
            obtain ⟨a, ha1, han⟩ := List.any_eq_true.mp e3
            obtain ⟨b, hb1, hbn⟩ := List.any_eq_true.mp ha
            obtain ⟨ham, hak⟩ := List.mem_filter.mp ha1
            obtain ⟨hbm, hbk⟩ := List.mem_filter.mp hb1
            simp at hak hbk han hbn
            have : a = b := itemKey_unique d.items hinv.itemPK a ham b hbm (by rw [hak.1, hbk.1, ← hc, e1]) (by rw [han, hbn])
            subst this
            have kc : y.cid = l.cid := by rw [← k1, ← hbk.1, hak.1]
            have kn : y.loopNum = l.loopNum := by rw [← k2, ← hbk.2, hak.2]
            have : y = x0 := loopKey_unique d.loops hinv.loopPK y hy x0 hx0 (by rw [kc, hx0c]) (by rw [kn, hx0n])
            subst this
            rcases k4 with ⟨_, _, k⟩ | ⟨k, _⟩
            · omega
            · exact absurd ⟨kc, kn⟩ k
        · intro x hx hs h1
          obtain ⟨y, hy, k1, k2, k3, k4⟩ := hloops x hx
          rcases k4 with ⟨kc, kn, _⟩ | ⟨_, k⟩
          · -- the packet's first entry is stored in the new row
            cases p with
            | nil => exact absurd rfl hne
            | cons e es =>
              refine ⟨{ cid := l.cid, name := e.1, rowNum := row, val := e.2 }, ?_, by show l.cid = x.cid; rw [k1, kc], ?_⟩
              · rw [hvals]; exact List.mem_append_right _ (List.mem_append_left _ (List.mem_cons_self))
              · show ((d2.fillPacket l.cid l.loopNum row).loopItems x.cid x.loopNum).any (fun i => i.name == e.1) = true
                rw [hli, k1, k2, kc, kn]
                have := hn2 e List.mem_cons_self
                rw [hli1] at this; exact this
          · obtain ⟨w, hw, hwc, hwa⟩ := h.sc y hy (by rw [← k3]; exact hs) (by omega)
            exact ⟨w, by rw [hvals]; exact List.mem_append_left _ hw, by rw [hwc, k1], by rw [hli, k1, k2]; exact hwa⟩

/-- deletion of whole loops (DESTROY_LOOP_SQL, PRUNE_SQL, the cascade of a container's deletion), selected by key -/
theorem Rows.deleteLoops {d : Db} (h : Rows d) (hpk : d.items.Pairwise ItemKeyNe) (p : LoopRow → Bool)
    (hkey : ∀ a b : LoopRow, a.cid = b.cid → a.loopNum = b.loopNum → p a = p b) : Rows (d.deleteLoops p) := by
  have hl : (d.deleteLoops p).loops = d.loops.filter (fun l => !p l) := rfl
  let q : ItemRow → Bool := fun i => (d.loops.filter p).any (fun l => l.cid == i.cid && l.loopNum == i.loopNum)
  have hit : (d.deleteLoops p).items = d.items.filter (fun i => !q i) := rfl
  have hv : (d.deleteLoops p).values = d.values.filter (fun v => !(d.items.filter q).any (fun i => i.cid == v.cid && i.name == v.name)) := rfl
  refine ⟨?_, ?_⟩
  · intro x hx w hw hc ha
    rw [hl] at hx; rw [hv] at hw
    obtain ⟨a, ha1, han⟩ := List.any_eq_true.mp ha
    obtain ⟨ham, hak⟩ := List.mem_filter.mp ha1
    rw [hit] at ham
    exact h.rb x (List.mem_filter.mp hx).1 w (List.mem_filter.mp hw).1 hc
      (List.any_eq_true.mpr ⟨a, List.mem_filter.mpr ⟨(List.mem_filter.mp ham).1, hak⟩, han⟩)
  · intro x hx hs h1
    rw [hl] at hx
    obtain ⟨hx0, hpx⟩ := List.mem_filter.mp hx
    have hpx' : p x = false := by simpa using hpx
    obtain ⟨u, hu, huc, hua⟩ := h.sc x hx0 hs h1
    obtain ⟨a, ha1, han⟩ := List.any_eq_true.mp hua
    obtain ⟨ham, hak⟩ := List.mem_filter.mp ha1
    simp at hak han
    have hqa : q a = false := by
      cases hq : q a with
      | false => rfl
      | true =>
        obtain ⟨l, hl1, hlk⟩ := List.any_eq_true.mp hq
        simp at hlk
        have := hkey l x (by rw [hlk.1, hak.1]) (by rw [hlk.2, hak.2])
        rw [(List.mem_filter.mp hl1).2, hpx'] at this; cases this
    refine ⟨u, ?_, huc, List.any_eq_true.mpr ⟨a, List.mem_filter.mpr ⟨?_, by simp [hak.1, hak.2]⟩, by simpa using han⟩⟩
    · rw [hv]
      refine List.mem_filter.mpr ⟨hu, ?_⟩
      cases hb : (d.items.filter q).any (fun i => i.cid == u.cid && i.name == u.name) with
      | false => rfl
      | true =>
        exfalso
        obtain ⟨b, hb1, hb2⟩ := List.any_eq_true.mp hb
        obtain ⟨hbm, hqb⟩ := List.mem_filter.mp hb1
        simp at hb2
        have : b = a := itemKey_unique d.items hpk b hbm a ham (by rw [hb2.1, huc, hak.1]) (by rw [hb2.2, han])
        subst this
        rw [hqa] at hqb; cases hqb
    · rw [hit]; exact List.mem_filter.mpr ⟨ham, by rw [hqa]; rfl⟩

theorem Rows.destroyLoop {d : Db} (h : Rows d) (hinv : Inv d) (cid ln : Nat) : Rows (d.destroyLoop cid ln).1 :=
  h.deleteLoops hinv.itemPK _ (fun a b hc hl => by simp only [hc, hl])
theorem Rows.prune {d : Db} (h : Rows d) (hinv : Inv d) (cid : Nat) : Rows (d.prune cid) :=
  h.deleteLoops hinv.itemPK _ (fun a b hc hl => by simp only [hc, hl])
theorem Rows.deleteContainer {d : Db} (h : Rows d) (hinv : Inv d) (id : Nat) : Rows (d.deleteContainer id).1 := by
  unfold Db.deleteContainer
  simp only []
  split
  · exact h
  · have key : ∀ d1 : Db, d1.loops = d.loops → d1.items = d.items → d1.values = d.values →
        Rows (d1.deleteLoops (fun l => l.cid == id)) := fun d1 a b c =>
      Rows.deleteLoops (h.congr a b c) (by rw [b]; exact hinv.itemPK) (fun l => l.cid == id) (fun a b hc _ => by simp only [hc])
    exact key _ rfl rfl rfl

/-- REMOVE_ITEM_SQL for an item that is not the last of its loop -/
theorem Rows.removeItem {d : Db} (h : Rows d) (hinv : Inv d) (ht : PacketsTotal d) (cid : Nat) (k : Str)
    (hother : ∀ i ∈ d.items, i.cid = cid → i.name = k → ∃ j0 ∈ d.loopItems i.cid i.loopNum, j0.name ≠ k) :
    Rows (d.removeItem cid k) := by
  let p : ItemRow → Bool := fun i => i.cid == cid && i.name == k
  have hit : (d.removeItem cid k).items = d.items.filter (fun i => !p i) := rfl
  have hv : (d.removeItem cid k).values = d.values.filter (fun v => !(d.items.filter p).any (fun i => i.cid == v.cid && i.name == v.name)) := rfl
  have hl : (d.removeItem cid k).loops = d.loops := rfl
  -- a value whose item is not the removed one stays
  have keep : ∀ u ∈ d.values, ¬(u.cid = cid ∧ u.name = k) → u ∈ (d.removeItem cid k).values := by
    intro u hu hne
    rw [hv]
    refine List.mem_filter.mpr ⟨hu, ?_⟩
    cases hb : (d.items.filter p).any (fun i => i.cid == u.cid && i.name == u.name) with
    | false => rfl
    | true =>
      exfalso
      obtain ⟨b, hb1, hb2⟩ := List.any_eq_true.mp hb
      have hpb := (List.mem_filter.mp hb1).2
      simp [p] at hpb hb2
      exact hne ⟨by rw [← hb2.1, hpb.1], by rw [← hb2.2, hpb.2]⟩
  refine ⟨?_, ?_⟩
  · intro x hx w hw hc ha
    rw [hv] at hw
    obtain ⟨a, ha1, han⟩ := List.any_eq_true.mp ha
    obtain ⟨ham, hak⟩ := List.mem_filter.mp ha1
    rw [hit] at ham
    exact h.rb x hx w (List.mem_filter.mp hw).1 hc
      (List.any_eq_true.mpr ⟨a, List.mem_filter.mpr ⟨(List.mem_filter.mp ham).1, hak⟩, han⟩)
  · intro x hx hs h1
    obtain ⟨u, hu, huc, hua⟩ := h.sc x hx hs h1
    obtain ⟨a, ha1, han⟩ := List.any_eq_true.mp hua
    obtain ⟨ham, hak⟩ := List.mem_filter.mp ha1
    simp at hak han
    by_cases hrem : a.cid = cid ∧ a.name = k
    · -- the witness belongs to the removed item: its row has a value for another item of the loop
      obtain ⟨j0, hj0, hj0n⟩ := hother a ham hrem.1 hrem.2
      rw [hak.1, hak.2] at hj0
      have hr : u.rowNum ∈ d.loopRows x.cid x.loopNum := (mem_loopRows_iff _ _ _ _).mpr ⟨u, hu, huc, hua, rfl⟩
      obtain ⟨u', hu', e1, e2, _⟩ := (hasValue_iff d _ _ _).mp (ht x hx _ hr j0 hj0)
      obtain ⟨hj0m, hj0k⟩ := List.mem_filter.mp hj0
      refine ⟨u', keep u' hu' (fun ⟨_, e⟩ => hj0n (by rw [← e2, e])), e1, ?_⟩
      refine List.any_eq_true.mpr ⟨j0, List.mem_filter.mpr ⟨?_, hj0k⟩, by simp [e2]⟩
      rw [hit]; exact List.mem_filter.mpr ⟨hj0m, by
        have : p j0 = false := by
          cases hp : p j0 with
          | false => rfl
          | true => simp [p] at hp; exact absurd hp.2 hj0n
        rw [this]; rfl⟩
    · refine ⟨u, keep u hu (fun ⟨e1, e2⟩ => hrem ⟨by rw [hak.1, ← huc, e1], by rw [han, e2]⟩), huc, ?_⟩
      refine List.any_eq_true.mpr ⟨a, List.mem_filter.mpr ⟨?_, by simp [hak.1, hak.2]⟩, by simpa using han⟩
      rw [hit]; exact List.mem_filter.mpr ⟨ham, by
        have : p a = false := by
          cases hp : p a with
          | false => rfl
          | true => simp [p] at hp; exact absurd hp hrem
        rw [this]; rfl⟩

/-- SET_CATEGORY_SQL with a category other than "" (cif_loop_set_category refuses "" before it reaches the database) -/
theorem Rows.setCategory {d d' : Db} (h : Rows d) (cid ln : Nat) (cat : Option Str) (n : Nat) (hcat : cat ≠ some [])
    (he : d.setCategory cid ln cat = .ok (d', n)) : Rows d' := by
  unfold Db.setCategory at he
  split at he
  · cases he; exact h
  · split at he; · cases he
    split at he; · cases he
    cases he
    refine h.relabel rfl rfl (fun x hx => ?_)
    obtain ⟨x0, hx0, hxe⟩ := List.mem_map.mp hx
    refine ⟨x0, hx0, ?_⟩
    by_cases hm : (x0.cid == cid && x0.loopNum == ln) = true
    · rw [if_pos hm] at hxe; subst hxe
      exact ⟨rfl, rfl, Nat.le_refl _, fun hs _ => absurd hs hcat⟩
    · rw [if_neg hm] at hxe; subst hxe
      exact ⟨rfl, rfl, Nat.le_refl _, fun hs h1 => ⟨hs, h1⟩⟩

/-- a value of a loop other than (cid, ln) is not touched by REMOVE_PACKET_SQL on (cid, ln) -/
theorem removePacket_keeps (d : Db) (hinv : Inv d) (cid ln row : Nat) (x : LoopRow) (hne : ¬(x.cid = cid ∧ x.loopNum = ln))
    (u : ValueRow) (hu : u ∈ d.values) (huc : u.cid = x.cid) (hua : (d.loopItems x.cid x.loopNum).any (fun i => i.name == u.name) = true) :
    u ∈ (d.removePacket cid ln row).values := by
  show u ∈ d.values.filter (fun v => !(v.cid == cid && v.rowNum == row && (d.loopItems cid ln).any (fun i => i.name == v.name)))
  refine List.mem_filter.mpr ⟨hu, ?_⟩
  cases hb : (u.cid == cid && u.rowNum == row && (d.loopItems cid ln).any (fun i => i.name == u.name)) with
  | false => rfl
  | true =>
    exfalso
    simp only [Bool.and_eq_true, beq_iff_eq] at hb
    obtain ⟨a, ha1, han⟩ := List.any_eq_true.mp hua
    obtain ⟨b, hb1, hbn⟩ := List.any_eq_true.mp hb.2
    obtain ⟨ham, hak⟩ := List.mem_filter.mp ha1
    obtain ⟨hbm, hbk⟩ := List.mem_filter.mp hb1
    simp at hak hbk han hbn
    have : a = b := itemKey_unique d.items hinv.itemPK a ham b hbm (by rw [hak.1, hbk.1, ← huc, hb.1.1]) (by rw [han, hbn])
    subst this
    exact hne ⟨by rw [← hak.1, hbk.1], by rw [← hak.2, hbk.2]⟩

theorem RowsBelowAll.removePacket {d : Db} (h : RowsBelowAll d) (cid ln row : Nat) : RowsBelowAll (d.removePacket cid ln row) := by
  intro x hx w hw hc ha
  have hw' : w ∈ d.values.filter (fun v => !(v.cid == cid && v.rowNum == row && (d.loopItems cid ln).any (fun i => i.name == v.name))) := hw
  exact h x hx w (List.mem_filter.mp hw').1 hc ha

/-- REMOVE_PACKET_SQL on a loop that is not the scalar loop (cif_pktitr_remove_packet, iterator flag `scalar` clear) -/
theorem Rows.removePacket {d : Db} (h : Rows d) (hinv : Inv d) (cid ln row : Nat)
    (hns : ∀ x ∈ d.loops, x.cid = cid → x.loopNum = ln → x.category ≠ some []) : Rows (d.removePacket cid ln row) := by
  refine ⟨h.rb.removePacket cid ln row, ?_⟩
  intro x hx hs h1
  have hx0 : x ∈ d.loops := hx
  obtain ⟨u, hu, huc, hua⟩ := h.sc x hx0 hs h1
  exact ⟨u, removePacket_keeps d hinv cid ln row x (fun ⟨e1, e2⟩ => hns x hx0 e1 e2 hs) u hu huc hua, huc, hua⟩

/-- REMOVE_PACKET_SQL, then RESET_PACKET_NUM_SQL, on the scalar loop, for the row it has (iterator flag `scalar` set) -/
theorem Rows.removePacketReset {d : Db} (h : Rows d) (hinv : Inv d) (cid ln row : Nat)
    (hsc : ∀ x ∈ d.loops, x.cid = cid → x.loopNum = ln → x.category = some [])
    (hrow : row ∈ d.loopRows cid ln) : Rows ((d.removePacket cid ln row).resetRowNum cid ln) := by
  have hitems : ∀ c n, ((d.removePacket cid ln row).resetRowNum cid ln).loopItems c n = d.loopItems c n := fun _ _ => rfl
  have hvals : ((d.removePacket cid ln row).resetRowNum cid ln).values = (d.removePacket cid ln row).values := rfl
  have hloops : ∀ x ∈ ((d.removePacket cid ln row).resetRowNum cid ln).loops, ∃ y ∈ d.loops, x.cid = y.cid ∧ x.loopNum = y.loopNum ∧
      x.category = y.category ∧ ((y.cid = cid ∧ y.loopNum = ln ∧ x.lastRowNum = 0) ∨ (¬(y.cid = cid ∧ y.loopNum = ln) ∧ x.lastRowNum = y.lastRowNum)) := by
    intro x hx
    have hx' : x ∈ d.loops.map (fun l => if l.cid == cid && l.loopNum == ln then { l with lastRowNum := 0 } else l) := hx
    obtain ⟨y, hy, hxy⟩ := List.mem_map.mp hx'
    refine ⟨y, hy, ?_⟩
    by_cases hm : (y.cid == cid && y.loopNum == ln) = true
    · rw [if_pos hm] at hxy; subst hxy
      simp only [Bool.and_eq_true, beq_iff_eq] at hm
      exact ⟨rfl, rfl, rfl, Or.inl ⟨hm.1, hm.2, rfl⟩⟩
    · rw [if_neg hm] at hxy; subst hxy
      simp only [Bool.and_eq_true, beq_iff_eq] at hm
      exact ⟨rfl, rfl, rfl, Or.inr ⟨hm, rfl⟩⟩
  refine ⟨?_, ?_⟩
  · intro x hx w hw hc ha
    obtain ⟨y, hy, k1, k2, _, k4⟩ := hloops x hx
    rw [hvals] at hw
    rw [hitems] at ha
    have hw' : w ∈ d.values.filter (fun v => !(v.cid == cid && v.rowNum == row && (d.loopItems cid ln).any (fun i => i.name == v.name))) := hw
    obtain ⟨hw0, hwk⟩ := List.mem_filter.mp hw'
    have hle := h.rb y hy w hw0 (by rw [hc, k1]) (by rw [← k1, ← k2]; exact ha)
    rcases k4 with ⟨kc, kn, _⟩ | ⟨_, k⟩
    · -- the scalar loop's values all sit in row 1, which is the row removed
      exfalso
      have hys := hsc y hy kc kn
      have h1 := hinv.scalarRows y hy hys
      have hp := hinv.rowPos w hw0
      have hw1 : w.rowNum = 1 := by omega
      obtain ⟨u, hu, huc, hua, hur⟩ := (mem_loopRows_iff _ _ _ _).mp hrow
      have hule := h.rb y hy u hu (by rw [huc, kc]) (by rw [kc, kn]; exact hua)
      have hup := hinv.rowPos u hu
      have : row = 1 := by omega
      have hk : (w.cid == cid && w.rowNum == row && (d.loopItems cid ln).any (fun i => i.name == w.name)) = true := by
        rw [k1, k2, kc, kn] at ha
        simp only [Bool.and_eq_true, beq_iff_eq]
        exact ⟨⟨by rw [hc, k1, kc], by omega⟩, ha⟩
      rw [hk] at hwk; cases hwk
    · omega
  · intro x hx hs h1
    obtain ⟨y, hy, k1, k2, k3, k4⟩ := hloops x hx
    rcases k4 with ⟨_, _, k⟩ | ⟨kne, k⟩
    · omega
    · obtain ⟨u, hu, huc, hua⟩ := h.sc y hy (by rw [← k3]; exact hs) (by omega)
      refine ⟨u, ?_, by rw [huc, k1], by rw [hitems, k1, k2]; exact hua⟩
      rw [hvals]
      exact removePacket_keeps d hinv cid ln row y kne u hu huc hua

/-- UPDATE_PACKET_ITEM_SQL for a row the loop has -/
theorem Rows.replaceValue {d d' : Db} (h : Rows d) (hinv : Inv d) (cid ln : Nat) (k : Str) (row : Nat) (v : V)
    (hrow : row ∈ d.loopRows cid ln) (hk : (d.loopItems cid ln).any (fun i => i.name == k) = true)
    (he : d.replaceValue cid k row v = some d') : Rows d' := by
  unfold Db.replaceValue at he
  split at he; · cases he
  split at he; · cases he
  cases he
  obtain ⟨i, hi, hin⟩ := List.any_eq_true.mp hk
  obtain ⟨him, hik⟩ := List.mem_filter.mp hi
  simp at hik hin
  refine ⟨?_, ?_⟩
  · intro x hx w hw hc ha
    have hxl : x ∈ d.loops := hx
    have ha0 : (d.loopItems x.cid x.loopNum).any (fun i => i.name == w.name) = true := ha
    have hw' : w ∈ d.values.filter (fun w => !(w.cid == cid && w.name == k && w.rowNum == row)) ++
        [({ cid := cid, name := k, rowNum := row, val := v } : ValueRow)] := hw
    rcases List.mem_append.mp hw' with hw1 | hw1
    · exact h.rb x hxl w (List.mem_filter.mp hw1).1 hc ha0
    · simp at hw1; subst hw1
      simp only [] at hc ha0 ⊢
      obtain ⟨b, hb, hbn⟩ := List.any_eq_true.mp ha0
      obtain ⟨hbm, hbk⟩ := List.mem_filter.mp hb
      simp at hbk hbn
      have : b = i := itemKey_unique d.items hinv.itemPK b hbm i him (by rw [hbk.1, ← hc, hik.1]) (by rw [hbn, hin])
      subst this
      have e1 : x.cid = cid := by rw [← hbk.1, hik.1]
      have e2 : x.loopNum = ln := by rw [← hbk.2, hik.2]
      obtain ⟨u, hu, huc, hua, hur⟩ := (mem_loopRows_iff _ _ _ _).mp hrow
      rw [← hur]
      exact h.rb x hxl u hu (by rw [huc, e1]) (by rw [e1, e2]; exact hua)
  · intro x hx hs h1
    obtain ⟨u, hu, huc, hua⟩ := h.sc x hx hs h1
    cases hb : (u.cid == cid && u.name == k && u.rowNum == row) with
    | false => exact ⟨u, List.mem_append_left _ (List.mem_filter.mpr ⟨hu, by rw [hb]; rfl⟩), huc, hua⟩
    | true =>
      simp only [Bool.and_eq_true, beq_iff_eq] at hb
      refine ⟨{ cid := cid, name := k, rowNum := row, val := v }, List.mem_append_right _ (List.mem_singleton.mpr rfl), ?_, ?_⟩
      · show cid = x.cid; rw [← huc, hb.1.1]
      · show (d.loopItems x.cid x.loopNum).any (fun i => i.name == k) = true
        rw [← hb.1.2]; exact hua

theorem updateValues_rows : ∀ (p : List (Str × V)) (d d' : Db) (it : Iter), Rows d → PacketsTotal d → Inv d → it.Attached d →
    updateValues d it p = .ok d' → Rows d'
  | [], d, d', _, h, _, _, _, he => by simp [updateValues] at he; subst he; exact h
  | (k, v) :: es, d, d', it, h, ht, hinv, hat, he => by
    unfold updateValues at he
    split at he
    · rename_i hc
      split at he
      · cases he
      · rename_i d1 hrep
        obtain ⟨t1, i1, r1⟩ := ht.replaceValue hinv it.cid it.loopNum k it.prev.toNat v hat.1 (hat.2 k hc) hrep
        have h1 := h.replaceValue hinv it.cid it.loopNum k it.prev.toNat v hat.1 (hat.2 k hc) hrep
        refine updateValues_rows es d1 d' it h1 t1 (hinv.replaceValue _ _ _ _ hrep) ⟨r1, ?_⟩ he
        intro k' hk'
        have := hat.2 k' hk'
        simpa only [Db.loopItems, i1] using this
    · cases he

/-- GET_LOOP_SIZE_SQL reporting a size other than 1 for the item's loop: the loop has another item -/
theorem loopSize_other (d : Db) (hinv : Inv d) (cid : Nat) (k : Str) (ln size : Nat) (hs : d.loopSize cid k = some (ln, size))
    (hne : size ≠ 1) : ∀ i ∈ d.items, i.cid = cid → i.name = k → ∃ j0 ∈ d.loopItems i.cid i.loopNum, j0.name ≠ k := by
  intro i him hic hik
  unfold Db.loopSize Db.loopOfItem at hs
  cases hf : d.items.find? (fun i => i.cid == cid && i.name == k) with
  | none => rw [hf] at hs; cases hs
  | some i0 =>
    rw [hf] at hs
    simp only [Option.map_some, Option.some.injEq, Prod.mk.injEq] at hs
    have hm0 := List.mem_of_find?_eq_some hf
    have hk0 := List.find?_some hf
    simp at hk0
    have : i0 = i := itemKey_unique d.items hinv.itemPK i0 hm0 i him (by rw [hk0.1, hic]) (by rw [hk0.2, hik])
    subst this
    obtain ⟨hln, hsz⟩ := hs
    have hmem : i0 ∈ d.loopItems i0.cid i0.loopNum := List.mem_filter.mpr ⟨hm0, by simp⟩
    have hpw : (d.loopItems i0.cid i0.loopNum).Pairwise ItemKeyNe := List.Pairwise.filter _ hinv.itemPK
    have hlen : (d.loopItems i0.cid i0.loopNum).length ≠ 1 := by rw [hk0.1, hsz]; exact hne
    -- some element of the list differs from i0
    have : ∃ j ∈ d.loopItems i0.cid i0.loopNum, j ≠ i0 := by
      cases hl : d.loopItems i0.cid i0.loopNum with
      | nil => rw [hl] at hmem; cases hmem
      | cons x xs =>
        cases xs with
        | nil => rw [hl] at hlen; simp at hlen
        | cons y ys =>
          by_cases hx : x = i0
          · refine ⟨y, by simp, ?_⟩
            intro hy
            rw [hl, List.pairwise_cons] at hpw
            exact hpw.1 y (by simp) ⟨by rw [hx, hy], by rw [hx, hy]⟩
          · exact ⟨x, by simp, hx⟩
    obtain ⟨j, hj, hji⟩ := this
    refine ⟨j, hj, fun hjn => hji ?_⟩
    obtain ⟨hjm, hjk⟩ := List.mem_filter.mp hj
    simp at hjk
    exact itemKey_unique d.items hinv.itemPK j hjm i0 hm0 hjk.1 (by rw [hjn, hik])

end CifModel.Store
