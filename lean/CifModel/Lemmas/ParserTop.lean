import CifModel.Lemmas.ParserDetProd
/-
  Lemmas/ParserTop — prefix determinism carried to the top: parse_cif's clamp, cif_parse_internal's start-up reports, and the
  resulting specification of a whole parse under an arbitrary policy in terms of the accept-all parse (`parse_spec`).
-/
namespace CifModel.Model.Parser
open CifModel CifModel.Model CifModel.Model.Lexer

theorem firstNZ_some {pol : Policy} {n : Nat} : ∀ {d : List Report} {r : Report} {d1 : List Report},
    firstNZ pol n d = some (r, d1) → pol (n + d1.length) r ≠ 0 ∧ firstNZ pol n d1 = none ∧ ∃ d2, d = d2 ++ r :: d1
  | [], _, _, h => by simp [firstNZ] at h
  | r0 :: rest, r, d1, h => by
    simp only [firstNZ] at h
    cases hz : firstNZ pol n rest with
    | some x =>
      rw [hz] at h; simp only [Option.some.injEq] at h
      subst h
      obtain ⟨h1, h2, d2, h3⟩ := firstNZ_some hz
      exact ⟨h1, h2, r0 :: d2, by rw [h3]; rfl⟩
    | none =>
      rw [hz] at h; simp only [] at h
      split at h
      · cases h
      · rename_i hne
        simp only [Option.some.injEq, Prod.mk.injEq] at h
        obtain ⟨rfl, rfl⟩ := h
        exact ⟨hne, hz, [], rfl⟩

/-- prefix determinism up to parse_cif's clamp: when the callback stops the parse with a NEGATIVE answer the action may end
    normally (return value CIF_OK) instead of aborting -/
structure DetC (m : P Unit) : Prop where
  run : ∀ (pol : Policy) (w : W), ∃ d, logOf (m acceptAll w) = d ++ w.log ∧ (∀ r ∈ d, r.code ≠ 0) ∧
      match firstNZ pol w.log.length d with
      | none => m pol w = m acceptAll w
      | some x => ∃ c, m pol w = .abort (pol (w.log.length + x.2.length) x.1) ⟨x.1 :: x.2 ++ w.log, c⟩ ∨
                       (pol (w.log.length + x.2.length) x.1 < 0 ∧ m pol w = .ok () ⟨x.1 :: x.2 ++ w.log, c⟩)
  fails : ∀ (w wa : W) (rv : Int), m acceptAll w = .abort rv wa → FailCode rv

theorem DetC.ofDetP {m : P Unit} (hm : DetP m) : DetC m := by
  refine ⟨?_, hm.fails⟩
  intro pol w
  obtain ⟨d, e, p, r⟩ := hm.run pol w
  refine ⟨d, e, p, ?_⟩
  cases hz : firstNZ pol w.log.length d with
  | none => rw [hz] at r; exact r
  | some x => rw [hz] at r; obtain ⟨c, hc⟩ := r; exact ⟨c, Or.inl hc⟩

theorem DetC.pure : DetC (P.pure ()) := DetC.ofDetP (DetP.pure ())

theorem DetC.ite {c : Prop} [Decidable c] {a b : P Unit} (ha : DetC a) (hb : DetC b) : DetC (if c then a else b) := by
  split <;> assumption

theorem clamp_eq_of_eq {m : P Unit} {pol pol' : Policy} {w : W} (h : m pol w = m pol' w) : clamp m pol w = clamp m pol' w := by
  simp only [clamp, h]

theorem DetC.clamp {m : P Unit} (hm : DetP m) : DetC (Parser.clamp m) := by
  refine ⟨?_, ?_⟩
  · intro pol w
    obtain ⟨d, e, p, r⟩ := hm.run pol w
    refine ⟨d, ?_, p, ?_⟩
    · cases hA : m acceptAll w with
      | ok a wa => rw [hA] at e; simpa [Parser.clamp, hA, logOf] using e
      | abort rv wa =>
        rw [hA] at e
        by_cases hp : rv > 0 <;> simpa [Parser.clamp, hA, logOf, hp] using e
    · cases hz : firstNZ pol w.log.length d with
      | none => rw [hz] at r; exact clamp_eq_of_eq r
      | some x =>
        rw [hz] at r
        obtain ⟨c, hc⟩ := r
        obtain ⟨hne, _, _⟩ := firstNZ_some (r := x.1) (d1 := x.2) hz
        refine ⟨c, ?_⟩
        by_cases hp : pol (w.log.length + x.2.length) x.1 > 0
        · left; simp [Parser.clamp, hc, hp]
        · right
          refine ⟨by omega, ?_⟩
          simp [Parser.clamp, hc, hp]
  · intro w wa rv h
    cases hA : m acceptAll w with
    | ok a wa' => simp [Parser.clamp, hA] at h
    | abort rv' wa' =>
      by_cases hp : rv' > 0
      · simp [Parser.clamp, hA, hp] at h
        rw [← h.1]; exact hm.fails _ _ _ hA
      · simp [Parser.clamp, hA, hp] at h

theorem DetC.bindP {α} {m : P α} {f : α → P Unit} (hm : DetP m) (hf : ∀ a, DetC (f a)) : DetC (P.bind m f) := by
  refine ⟨?_, ?_⟩
  rotate_left
  · intro w wa rv h
    cases hA : m acceptAll w with
    | abort rv' wa' => rw [P.bind_abort hA] at h; cases h; exact hm.fails _ _ _ hA
    | ok a wa' => rw [P.bind_ok hA] at h; exact (hf a).fails _ _ _ h
  intro pol w
  obtain ⟨d1, e1, p1, r1⟩ := hm.run pol w
  cases hA : m acceptAll w with
  | abort rv wa =>
    rw [hA] at e1 r1
    simp only [logOf] at e1
    refine ⟨d1, by simp [P.bind_abort hA, logOf, e1], p1, ?_⟩
    cases hz : firstNZ pol w.log.length d1 with
    | none =>
      rw [hz] at r1; simp only [] at r1 ⊢
      rw [P.bind_abort r1, P.bind_abort hA]
    | some x =>
      rw [hz] at r1; simp only [] at r1 ⊢
      obtain ⟨c, hc⟩ := r1
      exact ⟨c, Or.inl (by rw [P.bind_abort hc])⟩
  | ok a wa =>
    rw [hA] at e1 r1
    simp only [logOf] at e1
    obtain ⟨d2, e2, p2, r2⟩ := (hf a).run pol wa
    refine ⟨d2 ++ d1, ?_, ?_, ?_⟩
    · rw [P.bind_ok hA, e2, e1, List.append_assoc]
    · intro r hr
      rcases List.mem_append.mp hr with h | h
      · exact p2 r h
      · exact p1 r h
    · rw [firstNZ_append]
      cases hz : firstNZ pol w.log.length d1 with
      | some x =>
        rw [hz] at r1; simp only [] at r1 ⊢
        obtain ⟨c, hc⟩ := r1
        exact ⟨c, Or.inl (by rw [P.bind_abort hc])⟩
      | none =>
        rw [hz] at r1; simp only [] at r1 ⊢
        have hl : wa.log.length = w.log.length + d1.length := by rw [e1, List.length_append]; omega
        rw [hl] at r2
        rw [P.bind_ok r1, P.bind_ok hA]
        cases hz2 : firstNZ pol (w.log.length + d1.length) d2 with
        | none => rw [hz2] at r2; simpa using r2
        | some y =>
          rw [hz2] at r2
          simp only [Option.map_some] at r2 ⊢
          obtain ⟨c, hc⟩ := r2
          refine ⟨c, ?_⟩
          have e : w.log.length + d1.length + y.2.length = w.log.length + (y.2 ++ d1).length := by
            rw [List.length_append]; omega
          rw [e, e1] at hc
          simpa [List.append_assoc] using hc

/-- parse_cif -/
theorem parseCif_detc (o : Opts) (fuel : Nat) (s : PS) : DetC (parseCif o fuel s) := by
  unfold parseCif
  apply DetC.clamp
  simp only [bind_eq, pure_eq]
  exact DetP.bind (blocksLoop_det o fuel s) (fun _ => DetP.pure ())

theorem afterFirst_detc (o : Opts) (fuel : Nat) (c : CU) (rest : Str) : DetC (afterFirst o fuel c rest) := by
  unfold afterFirst
  simp only [bind_eq, pure_eq]
  apply DetC.ite DetC.pure
  apply DetC.ite
  · exact DetC.bindP (DetP.ite (DetP.report _ _ _ (by decide)) (DetP.pure _)) (fun _ => parseCif_detc ..)
  · exact DetC.bindP (DetP.ite (DetP.report _ _ _ (by decide)) (DetP.pure _)) (fun _ => parseCif_detc ..)


/-- the outcome record of a finished run -/
def outcomeOf : PRes Unit → Outcome
  | .ok _ w => { rc := 0, log := w.log.reverse, cif := w.cif }
  | .abort rv w => { rc := rv, log := w.log.reverse, cif := w.cif }

theorem run_eq (o : Opts) (pol : Policy) (pre : Cif) (fuel : Nat) (units : Str) :
    run o pol pre fuel units = outcomeOf (parseInternal o fuel units pol { log := [], cif := pre }) := by
  unfold run outcomeOf
  cases parseInternal o fuel units pol { log := [], cif := pre } <;> rfl

theorem outcomeOf_log (r : PRes Unit) : (outcomeOf r).log = (logOf r).reverse := by
  cases r <;> rfl

theorem parseInternal_cons (o : Opts) (fuel : Nat) (c : CU) (rest : Str) :
    parseInternal o fuel (c :: rest) =
      P.bind (if disallowedInitial c then ask Gen.ErrCodes.CIF_DISALLOWED_INITIAL_CHAR 1 0 else P.pure 0)
        (fun rv => if rv = -1 then P.pure () else if rv ≠ 0 then fail rv else afterFirst o fuel c rest) := rfl

/-- the specification of a DetC action started on the empty log, in terms of outcomes -/
def SpecAt (pol : Policy) (A R : Outcome) : Prop :=
  (∀ r ∈ A.log, r.code ≠ 0) ∧ (A.rc = 0 ∨ FailCode A.rc) ∧
    match firstNZ pol 0 A.log.reverse with
    | none => R = A
    | some x => R.log = (x.1 :: x.2).reverse ∧ (R.rc = pol x.2.length x.1 ∨ (pol x.2.length x.1 < 0 ∧ R.rc = 0))

theorem detc_spec {m : P Unit} (hm : DetC m) (pol : Policy) (w : W) (base : List Report)
    (hw : w.log = base) :
    ∃ d, (outcomeOf (m acceptAll w)).log = (d ++ base).reverse ∧ (∀ r ∈ d, r.code ≠ 0) ∧
      ((outcomeOf (m acceptAll w)).rc = 0 ∨ FailCode (outcomeOf (m acceptAll w)).rc) ∧
      match firstNZ pol base.length d with
      | none => m pol w = m acceptAll w
      | some x => (outcomeOf (m pol w)).log = (x.1 :: x.2 ++ base).reverse ∧
          ((outcomeOf (m pol w)).rc = pol (base.length + x.2.length) x.1 ∨
            (pol (base.length + x.2.length) x.1 < 0 ∧ (outcomeOf (m pol w)).rc = 0)) := by
  subst hw
  obtain ⟨d, e, p, r⟩ := hm.run pol w
  refine ⟨d, by rw [outcomeOf_log, e], p, ?_, ?_⟩
  · cases hA : m acceptAll w with
    | ok a wa => left; rfl
    | abort rv wa => right; exact hm.fails _ _ _ hA
  · cases hz : firstNZ pol w.log.length d with
    | none => rw [hz] at r; exact r
    | some x =>
      rw [hz] at r
      obtain ⟨c, hc | ⟨hneg, hc⟩⟩ := r
      · rw [hc]; exact ⟨rfl, Or.inl rfl⟩
      · rw [hc]; exact ⟨rfl, Or.inr ⟨hneg, rfl⟩⟩

theorem parse_spec (o : Opts) (pol : Policy) (pre : Cif) (fuel : Nat) (units : Str) :
    SpecAt pol (run o acceptAll pre fuel units) (run o pol pre fuel units) := by
  rw [run_eq, run_eq]
  cases units with
  | nil =>
    simp [parseInternal, SpecAt, outcomeOf, P.pure, firstNZ]
  | cons c rest =>
    rw [parseInternal_cons]
    by_cases hd : disallowedInitial c = true
    · -- the callback is asked about the first character
      simp only [hd, if_true]
      let r0 : Report := ⟨Gen.ErrCodes.CIF_DISALLOWED_INITIAL_CHAR, 1, 0⟩
      let w1 : W := { log := [r0], cif := pre }
      have hask : ∀ p : Policy, ask Gen.ErrCodes.CIF_DISALLOWED_INITIAL_CHAR 1 0 p { log := [], cif := pre } = .ok (p 0 r0) w1 := by
        intro p; rfl
      have hA : P.bind (ask Gen.ErrCodes.CIF_DISALLOWED_INITIAL_CHAR 1 0)
            (fun rv => if rv = -1 then P.pure () else if rv ≠ 0 then fail rv else afterFirst o fuel c rest) acceptAll { log := [], cif := pre }
            = afterFirst o fuel c rest acceptAll w1 := by
        rw [P.bind_ok (hask acceptAll)]; simp [acceptAll]
      rw [hA]
      obtain ⟨d, e, p, hf, r⟩ := detc_spec (afterFirst_detc o fuel c rest) pol w1 [r0] rfl
      refine ⟨?_, hf, ?_⟩
      · intro r hr
        rw [e] at hr
        rcases List.mem_append.mp (List.mem_reverse.mp hr) with h | h
        · exact p r h
        · simp only [List.mem_singleton] at h; subst h; decide
      · rw [e, List.reverse_reverse, firstNZ_append]
        by_cases h0 : pol 0 r0 = 0
        · have hR : P.bind (ask Gen.ErrCodes.CIF_DISALLOWED_INITIAL_CHAR 1 0)
              (fun rv => if rv = -1 then P.pure () else if rv ≠ 0 then fail rv else afterFirst o fuel c rest) pol { log := [], cif := pre }
              = afterFirst o fuel c rest pol w1 := by
            rw [P.bind_ok (hask pol)]; simp [h0]
          rw [hR]
          simp only [firstNZ, List.length_nil, Nat.add_zero, h0, if_true, List.length_singleton, Nat.zero_add]
          simp only [List.length_singleton] at r
          cases hz : firstNZ pol 1 d with
          | none => rw [hz] at r; simp only [Option.map_none]; rw [r]
          | some x =>
            rw [hz] at r
            simp only [Option.map_some]
            obtain ⟨r1, r2⟩ := r
            refine ⟨r1, ?_⟩
            have e2 : (x.2 ++ [r0]).length = 1 + x.2.length := by simp; omega
            rw [e2]; exact r2
        · simp only [firstNZ, List.length_nil, Nat.add_zero, h0, if_false]
          by_cases h1 : pol 0 r0 = -1
          · have hR : P.bind (ask Gen.ErrCodes.CIF_DISALLOWED_INITIAL_CHAR 1 0)
                (fun rv => if rv = -1 then P.pure () else if rv ≠ 0 then fail rv else afterFirst o fuel c rest) pol { log := [], cif := pre }
                = .ok () w1 := by
              rw [P.bind_ok (hask pol)]; simp [h1, P.pure]
            rw [hR]
            exact ⟨rfl, Or.inr ⟨by show pol 0 r0 < 0; omega, rfl⟩⟩
          · have hR : P.bind (ask Gen.ErrCodes.CIF_DISALLOWED_INITIAL_CHAR 1 0)
                (fun rv => if rv = -1 then P.pure () else if rv ≠ 0 then fail rv else afterFirst o fuel c rest) pol { log := [], cif := pre }
                = .abort (pol 0 r0) w1 := by
              rw [P.bind_ok (hask pol)]; simp [h0, h1, fail]
            rw [hR]
            exact ⟨rfl, Or.inl rfl⟩
    · simp only [hd]
      have hred : ∀ p : Policy, P.bind (if False then ask Gen.ErrCodes.CIF_DISALLOWED_INITIAL_CHAR 1 0 else P.pure 0)
          (fun rv => if rv = -1 then P.pure () else if rv ≠ 0 then fail rv else afterFirst o fuel c rest) p { log := [], cif := pre }
          = afterFirst o fuel c rest p { log := [], cif := pre } := by
        intro p; simp [P.bind, P.pure]
      simp only [Bool.false_eq_true] at hred ⊢
      rw [hred, hred]
      obtain ⟨d, e, p, hf, r⟩ := detc_spec (afterFirst_detc o fuel c rest) pol { log := [], cif := pre } [] rfl
      refine ⟨?_, hf, ?_⟩
      · intro r hr
        rw [e] at hr
        exact p r (by simpa using hr)
      · rw [e]
        simp only [List.append_nil, List.reverse_reverse, List.length_nil, Nat.zero_add] at r ⊢
        cases hz : firstNZ pol 0 d with
        | none => rw [hz] at r; simp only []; rw [r]
        | some x => rw [hz] at r; exact r

end CifModel.Model.Parser
