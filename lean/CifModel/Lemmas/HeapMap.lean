import CifModel.Lemmas.HeapOps
import CifModel.Model.Value
/-
  Lemmas about Model/Heap, level C: whole maps.  `cif_map_set_item` and `cif_map_retrieve_item(…, do_remove)` on the
  entry list of a standalone map refine `Model.Value.mapSet` / `mapErase` on the represented association list, touch
  nothing outside the map's footprint, release what they drop and own what they allocate.
-/
namespace CifModel.Model.Heap
open CifModel

theorem Cleared.wf {h h' : Heap} {F : List Nat} (c : Cleared h h' F) (hw : h.WF) : h'.WF := by
  intro a ha
  rw [c.1] at ha
  rw [c.2 a, hw a ha]
  split <;> rfl

/-! ### replacing the value held by an object: clean, then build the copy -/

theorem cleanBuild_spec (h : Heap) (hw : h.WF) (hv : HVal) (v : V) (F : List Nat) (x : V) (hr : Rep h hv v F)
    (hF : ∀ a, a ∈ F → a < h.next) (fuel : Nat) (hfuel : need v ≤ fuel) :
    ∃ h1 new h2 Fn, cleanVal fuel h hv = some h1 ∧ buildVal h1 x = (new, h2) ∧ Rep h2 new x Fn ∧ h2.WF
      ∧ h.next ≤ h2.next
      ∧ (∀ a, a ∈ Fn → h.next ≤ a ∧ a < h2.next) ∧ (∀ a, h.next ≤ a → a < h2.next → a ∈ Fn)
      ∧ (∀ a, a < h.next → h2.cell a = if a ∈ F then none else h.cell a) := by
  obtain ⟨h1, hc, c1⟩ := cleanVal_spec v h hv F fuel hr hfuel
  have hw1 := c1.wf hw
  generalize hb : buildVal h1 x = r
  obtain ⟨new, h2⟩ := r
  obtain ⟨e2, Fn, hrep, hrange, hcover⟩ := buildVal_spec x h1 hw1 new h2 hb
  refine ⟨h1, new, h2, Fn, hc, hb, hrep, e2.wf, by rw [← c1.1]; exact e2.le, ?_, ?_, ?_⟩
  · intro a ha; have := hrange a ha; rw [c1.1] at this; exact this
  · intro a h1' h2'; exact hcover a (by rw [c1.1]; exact h1') h2'
  · intro a ha; rw [e2.frame a (by rw [c1.1]; exact ha), c1.2 a]

/-- the value part of `cif_map_set_item` on an existing entry -/
theorem entrySetValue_spec (h : Heap) (hw : h.WF) (e : Nat) (k ko : Str) (v : V) (F : List Nat) (x : Option V)
    (hr : RepEntry h e k ko v F) (hF : ∀ a, a ∈ F → a < h.next) (fuel : Nat) (hfuel : need v ≤ fuel) :
    ∃ h' F', entrySetValue fuel h e x = some h' ∧ RepEntry h' e k ko (x.getD .unk) F' ∧ h'.WF ∧ h.next ≤ h'.next
      ∧ (∀ a, a < h.next → a ∉ F → h'.cell a = h.cell a)
      ∧ (∀ a, a ∈ F → a ∉ F' → h'.cell a = none)
      ∧ (∀ a, h.next ≤ a → a < h'.next → a ∈ F') ∧ (∀ a, a ∈ F' → a < h'.next)
      ∧ (∀ a, a ∈ F' → a ∈ F ∨ h.next ≤ a) := by
  obtain ⟨hv, ka, koa, F1, he, hka, hkoa, hrep, heF, hkaF, hkoaF, heka, hekoa, hFs⟩ := hr
  have memF : ∀ a, a ∈ F ↔ (a = ka ∨ a = koa ∨ a ∈ F1 ∨ a = e) := by
    intro a
    rcases hFs with ⟨hkk, rfl⟩ | ⟨_, rfl⟩
    · subst hkk; simp only [List.cons_append, List.mem_cons, List.mem_append, List.mem_singleton, List.not_mem_nil, or_false]
      constructor
      · rintro (h1 | h1 | h1)
        · exact Or.inl h1
        · exact Or.inr (Or.inr (Or.inl h1))
        · exact Or.inr (Or.inr (Or.inr h1))
      · rintro (h1 | h1 | h1 | h1)
        · exact Or.inl h1
        · exact Or.inl h1
        · exact Or.inr (Or.inl h1)
        · exact Or.inr (Or.inr h1)
    · simp only [List.cons_append, List.mem_cons, List.mem_append, List.mem_singleton, List.not_mem_nil, or_false]
  have helt : e < h.next := hF e ((memF e).mpr (Or.inr (Or.inr (Or.inr rfl))))
  have hkalt : ka < h.next := hF ka ((memF ka).mpr (Or.inl rfl))
  have hkoalt : koa < h.next := hF koa ((memF koa).mpr (Or.inr (Or.inl rfl)))
  have hF1lt : ∀ a, a ∈ F1 → a < h.next := fun a ha => hF a ((memF a).mpr (Or.inr (Or.inr (Or.inl ha))))
  obtain ⟨h1, new, h2, Fn, hc, hb, hrepn, hw2, hle, hrange, hcover, hcells⟩ :=
    cleanBuild_spec h hw hv v F1 (x.getD .unk) hrep hF1lt fuel hfuel
  have he2 : h2.cell e = some (.entry hv ka koa) := by rw [hcells e helt]; simp [heF, he]
  obtain ⟨h3, hwr, hn3, hc3⟩ := write_spec h2 e _ (.entry new ka koa) he2
  have hFnot : ∀ a, a ∈ Fn → a ≠ e ∧ a ≠ ka ∧ a ≠ koa := by
    intro a ha; have := (hrange a ha).1
    exact ⟨by omega, by omega, by omega⟩
  have hrep3 : Rep h3 new (x.getD .unk) Fn := by
    apply Rep_congr h2 h3 _ new Fn _ hrepn
    intro a ha; rw [hc3]; simp [(hFnot a ha).1]
  have hka3 : h3.cell ka = some (.str k) := by
    rw [hc3]; simp [heka.symm]; rw [hcells ka hkalt]; simp [hkaF, hka]
  have hkoa3 : h3.cell koa = some (.str ko) := by
    rw [hc3]; simp [hekoa.symm]; rw [hcells koa hkoalt]; simp [hkoaF, hkoa]
  have hwf3 : h3.WF := by
    intro a ha; rw [hn3] at ha; rw [hc3]
    have : a ≠ e := by omega
    simp [this, hw2 a ha]
  have hframe : ∀ a, a < h.next → a ∉ F → h3.cell a = h.cell a := by
    intro a ha hna
    have hne : a ≠ e := fun e' => hna ((memF a).mpr (Or.inr (Or.inr (Or.inr e'))))
    have hnF1 : a ∉ F1 := fun hm => hna ((memF a).mpr (Or.inr (Or.inr (Or.inl hm))))
    rw [hc3]; simp only [hne, if_false]; rw [hcells a ha, if_neg hnF1]
  rcases hFs with ⟨hkk, rfl⟩ | ⟨hne, rfl⟩
  · subst hkk
    refine ⟨h3, ka :: Fn ++ [e], by simp [entrySetValue, read, he, hc, hb, hwr],
      ⟨new, ka, ka, Fn, by simp [hc3], hka3, hkoa3, hrep3, fun hm => (hFnot e hm).1 rfl, fun hm => (hFnot ka hm).2.1 rfl,
        fun hm => (hFnot ka hm).2.1 rfl, heka, hekoa, Or.inl ⟨rfl, rfl⟩⟩, hwf3, by rw [hn3]; exact hle, hframe, ?_, ?_, ?_, ?_⟩
    · intro a ha hna
      have haF1 : a ∈ F1 := by
        rcases (memF a).mp ha with h1 | h1 | h1 | h1
        · exact absurd (by simp [h1]) hna
        · exact absurd (by simp [h1]) hna
        · exact h1
        · exact absurd (by simp [h1]) hna
      have hne : a ≠ e := fun e' => heF (e' ▸ haF1)
      rw [hc3]; simp only [hne, if_false]; rw [hcells a (hF1lt a haF1), if_pos haF1]
    · intro a h1' h2'
      rw [hn3] at h2'
      simp only [List.cons_append, List.mem_cons, List.mem_append]
      exact Or.inr (Or.inl (hcover a h1' h2'))
    · intro a ha
      simp only [List.cons_append, List.mem_cons, List.mem_append, List.mem_singleton, List.not_mem_nil, or_false] at ha
      rcases ha with hh | hh | hh
      · omega
      · have := (hrange a hh).2; omega
      · omega
    · intro a ha
      simp only [List.cons_append, List.mem_cons, List.mem_append, List.mem_singleton, List.not_mem_nil, or_false] at ha
      rcases ha with hh | hh | hh
      · exact Or.inl (by simp [hh])
      · exact Or.inr (hrange a hh).1
      · exact Or.inl (by simp [hh])
  · refine ⟨h3, ka :: koa :: Fn ++ [e], by simp [entrySetValue, read, he, hc, hb, hwr],
      ⟨new, ka, koa, Fn, by simp [hc3], hka3, hkoa3, hrep3, fun hm => (hFnot e hm).1 rfl, fun hm => (hFnot ka hm).2.1 rfl,
        fun hm => (hFnot koa hm).2.2 rfl, heka, hekoa, Or.inr ⟨hne, rfl⟩⟩, hwf3, by rw [hn3]; exact hle, hframe, ?_, ?_, ?_, ?_⟩
    · intro a ha hna
      have haF1 : a ∈ F1 := by
        rcases (memF a).mp ha with h1 | h1 | h1 | h1
        · exact absurd (by simp [h1]) hna
        · exact absurd (by simp [h1]) hna
        · exact h1
        · exact absurd (by simp [h1]) hna
      have hne' : a ≠ e := fun e' => heF (e' ▸ haF1)
      rw [hc3]; simp only [hne', if_false]; rw [hcells a (hF1lt a haF1), if_pos haF1]
    · intro a h1' h2'
      rw [hn3] at h2'
      simp only [List.cons_append, List.mem_cons, List.mem_append]
      exact Or.inr (Or.inr (Or.inl (hcover a h1' h2')))
    · intro a ha
      simp only [List.cons_append, List.mem_cons, List.mem_append, List.mem_singleton, List.not_mem_nil, or_false] at ha
      rcases ha with hh | hh | hh | hh
      · omega
      · omega
      · have := (hrange a hh).2; omega
      · omega
    · intro a ha
      simp only [List.cons_append, List.mem_cons, List.mem_append, List.mem_singleton, List.not_mem_nil, or_false] at ha
      rcases ha with hh | hh | hh | hh
      · exact Or.inl (by simp [hh])
      · exact Or.inl (by simp [hh])
      · exact Or.inr (hrange a hh).1
      · exact Or.inl (by simp [hh])

/-! ### entry lists as lists of represented entries -/

theorem RepEntry_congr (h g : Heap) (e : Nat) (k ko : Str) (v : V) (F : List Nat)
    (hag : ∀ a, a ∈ F → g.cell a = h.cell a) (hr : RepEntry h e k ko v F) : RepEntry g e k ko v F := by
  obtain ⟨hv, ka, koa, F1, he, hka, hkoa, hrep, heF, hkaF, hkoaF, heka, hekoa, hFs⟩ := hr
  have mem : ∀ a, (a = ka ∨ a = koa ∨ a ∈ F1 ∨ a = e) → a ∈ F := by
    intro a ha
    rcases hFs with ⟨hkk, rfl⟩ | ⟨_, rfl⟩
    · subst hkk
      simp only [List.cons_append, List.mem_cons, List.mem_append, List.mem_singleton, List.not_mem_nil, or_false]
      rcases ha with h1 | h1 | h1 | h1
      · exact Or.inl h1
      · exact Or.inl h1
      · exact Or.inr (Or.inl h1)
      · exact Or.inr (Or.inr h1)
    · simp only [List.cons_append, List.mem_cons, List.mem_append, List.mem_singleton, List.not_mem_nil, or_false]
      exact ha
  exact ⟨hv, ka, koa, F1, by rw [hag e (mem e (by simp)), he], by rw [hag ka (mem ka (by simp)), hka],
    by rw [hag koa (mem koa (by simp)), hkoa],
    Rep_congr h g v hv F1 (fun a ha => hag a (mem a (by simp [ha]))) hrep, heF, hkaF, hkoaF, heka, hekoa, hFs⟩

/-- unfolding one entry -/
theorem RepEntries_cons (h : Heap) (ents : List Nat) (k ko : Str) (v : V) (es : List (Str × Str × V)) (F : List Nat) :
    RepEntries h ents ((k, ko, v) :: es) F ↔
      ∃ e ents' Fe F2, ents = e :: ents' ∧ RepEntry h e k ko v Fe ∧ RepEntries h ents' es F2 ∧ disjoint Fe F2 ∧ F = Fe ++ F2 := by
  rw [RepEntries]
  constructor
  · rintro ⟨e, ents', hv, ka, koa, F1, F2, rfl, he, hka, hkoa, hrep, hrest, h1, h2, h3, h4, h5, hF⟩
    rcases hF with ⟨hkk, hd, rfl⟩ | ⟨hne, hd, rfl⟩
    · exact ⟨e, ents', ka :: F1 ++ [e], F2, rfl, ⟨hv, ka, koa, F1, he, hka, hkoa, hrep, h1, h2, h3, h4, h5, Or.inl ⟨hkk, rfl⟩⟩,
        hrest, hd, rfl⟩
    · exact ⟨e, ents', ka :: koa :: F1 ++ [e], F2, rfl, ⟨hv, ka, koa, F1, he, hka, hkoa, hrep, h1, h2, h3, h4, h5, Or.inr ⟨hne, rfl⟩⟩,
        hrest, hd, rfl⟩
  · rintro ⟨e, ents', Fe, F2, rfl, ⟨hv, ka, koa, F1, he, hka, hkoa, hrep, h1, h2, h3, h4, h5, hFe⟩, hrest, hd, rfl⟩
    refine ⟨e, ents', hv, ka, koa, F1, F2, rfl, he, hka, hkoa, hrep, hrest, h1, h2, h3, h4, h5, ?_⟩
    rcases hFe with ⟨hkk, rfl⟩ | ⟨hne, rfl⟩
    · exact Or.inl ⟨hkk, hd, rfl⟩
    · exact Or.inr ⟨hne, hd, rfl⟩

theorem RepEntry_key (h : Heap) (e : Nat) (k ko : Str) (v : V) (F : List Nat) (hr : RepEntry h e k ko v F) :
    entryKey h e = some k := by
  obtain ⟨hv, ka, koa, F1, he, hka, _⟩ := hr
  simp [entryKey, read, he, hka]

theorem RepEntry_mem (h : Heap) (e : Nat) (k ko : Str) (v : V) (F : List Nat) (hr : RepEntry h e k ko v F) : e ∈ F := by
  obtain ⟨hv, ka, koa, F1, _, _, _, _, _, _, _, _, _, hFs⟩ := hr
  rcases hFs with ⟨_, rfl⟩ | ⟨_, rfl⟩ <;> simp

/-- `HASH_FIND` on a represented entry list finds the entry of `mapFind`, and that entry can be replaced in place -/
theorem RepEntries_find (h : Heap) (es : List (Str × Str × V)) (ents : List Nat) (F : List Nat) (nk : Str)
    (hr : RepEntries h ents es F) :
    (Value.mapFind es nk = none ∧ findEntry h ents nk = some none) ∨
    (∃ e ko v Fe, Value.mapFind es nk = some (nk, ko, v) ∧ findEntry h ents nk = some (some e) ∧ RepEntry h e nk ko v Fe
        ∧ (∀ a, a ∈ Fe → a ∈ F)
        ∧ (∀ h' ko' v' Fe', RepEntry h' e nk ko' v' Fe' → (∀ a, a ∈ F → a ∉ Fe → h'.cell a = h.cell a)
            → (∀ a, a ∈ Fe' → a ∈ F → a ∈ Fe)
            → ∃ F', RepEntries h' ents (Value.mapReplace es nk ko' v') F' ∧ ∀ a, a ∈ F' ↔ (a ∈ Fe' ∨ (a ∈ F ∧ a ∉ Fe)))
        ∧ (∃ F'', RepEntries h (ents.erase e) (Value.mapErase es nk) F'' ∧ disjoint Fe F''
            ∧ ∀ a, a ∈ F ↔ (a ∈ Fe ∨ a ∈ F''))) := by
  induction es generalizing ents F with
  | nil =>
    simp only [RepEntries] at hr
    obtain ⟨rfl, rfl⟩ := hr
    exact Or.inl ⟨rfl, rfl⟩
  | cons hd es ih =>
    obtain ⟨k, ko, v⟩ := hd
    obtain ⟨e0, ents', Fe0, F2, rfl, hre0, hrest, hdis, rfl⟩ := (RepEntries_cons h ents k ko v es F).mp hr
    have hkey0 := RepEntry_key h e0 k ko v Fe0 hre0
    by_cases hk : k = nk
    · subst hk
      refine Or.inr ⟨e0, ko, v, Fe0, by simp [Value.mapFind], by simp [findEntry, hkey0], hre0,
        fun a ha => List.mem_append_left _ ha, ?_, ?_⟩
      · intro h' ko' v' Fe' hre' hframe hsub
        refine ⟨Fe' ++ F2, ?_, ?_⟩
        · simp only [Value.mapReplace, if_true]
          apply (RepEntries_cons h' _ k ko' v' es _).mpr
          refine ⟨e0, ents', Fe', F2, rfl, hre', ?_, ?_, rfl⟩
          · apply RepEntries_congr h h' es ents' F2 _ hrest
            intro a ha
            exact hframe a (List.mem_append_right _ ha) (fun hm => hdis a hm ha)
          · intro a ha hb
            exact hdis a (hsub a ha (List.mem_append_right _ hb)) hb
        · intro a
          simp only [List.mem_append]
          constructor
          · rintro (h1 | h1)
            · exact Or.inl h1
            · exact Or.inr ⟨Or.inr h1, fun hm => hdis a hm h1⟩
          · rintro (h1 | ⟨h1 | h1, h2⟩)
            · exact Or.inl h1
            · exact absurd h1 h2
            · exact Or.inr h1
      · refine ⟨F2, ?_, hdis, fun a => by simp [List.mem_append]⟩
        simp only [Value.mapErase, if_true, List.erase_cons_head]
        exact hrest
    · have hne : ¬ (k = nk) := hk
      rcases ih ents' F2 hrest with ⟨hnone, hfnone⟩ | ⟨e, ko1, v1, Fe, hmf, hfe, hre, hsubF, hrepl, hers⟩
      · exact Or.inl ⟨by simp [Value.mapFind, hne, hnone], by simp [findEntry, hkey0, hne, hfnone]⟩
      · have he0F : e0 ∈ Fe0 := RepEntry_mem h e0 k ko v Fe0 hre0
        have hee0 : e ≠ e0 := by
          intro heq; subst heq
          exact hdis e he0F (hsubF e (RepEntry_mem h e nk ko1 v1 Fe hre))
        refine Or.inr ⟨e, ko1, v1, Fe, by simp [Value.mapFind, hne, hmf], by simp [findEntry, hkey0, hne, hfe], hre,
          fun a ha => List.mem_append_right _ (hsubF a ha), ?_, ?_⟩
        · intro h' ko' v' Fe' hre' hframe hsub
          obtain ⟨F2', hrep2', hmem2'⟩ := hrepl h' ko' v' Fe' hre'
            (fun a ha hna => hframe a (List.mem_append_right _ ha) hna)
            (fun a ha hb => hsub a ha (List.mem_append_right _ hb))
          refine ⟨Fe0 ++ F2', ?_, ?_⟩
          · simp only [Value.mapReplace, hne, if_false]
            apply (RepEntries_cons h' _ k ko v _ _).mpr
            refine ⟨e0, ents', Fe0, F2', rfl, ?_, hrep2', ?_, rfl⟩
            · apply RepEntry_congr h h' e0 k ko v Fe0 _ hre0
              intro a ha
              exact hframe a (List.mem_append_left _ ha) (fun hm => hdis a ha (hsubF a hm))
            · intro a ha hb
              rcases (hmem2' a).mp hb with h1 | ⟨h1, _⟩
              · exact hdis a ha (hsubF a (hsub a h1 (List.mem_append_left _ ha)))
              · exact hdis a ha h1
          · intro a
            simp only [List.mem_append, hmem2' a]
            constructor
            · rintro (h1 | h1 | ⟨h1, h2⟩)
              · exact Or.inr ⟨Or.inl h1, fun hm => hdis a h1 (hsubF a hm)⟩
              · exact Or.inl h1
              · exact Or.inr ⟨Or.inr h1, h2⟩
            · rintro (h1 | ⟨h1 | h1, h2⟩)
              · exact Or.inr (Or.inl h1)
              · exact Or.inl h1
              · exact Or.inr (Or.inr ⟨h1, h2⟩)
        · obtain ⟨F2'', hrep2'', hdis2'', hmem2''⟩ := hers
          refine ⟨Fe0 ++ F2'', ?_, ?_, ?_⟩
          · simp only [Value.mapErase, hne, if_false]
            rw [List.erase_cons_tail (by simpa using fun heq => hee0 heq.symm)]
            apply (RepEntries_cons h _ k ko v _ _).mpr
            refine ⟨e0, ents'.erase e, Fe0, F2'', rfl, hre0, hrep2'', ?_, rfl⟩
            intro a ha hb
            exact hdis a ha ((hmem2'' a).mpr (Or.inr hb))
          · intro a ha hb
            simp only [List.mem_append] at hb
            rcases hb with hb | hb
            · exact hdis a hb (hsubF a ha)
            · exact hdis2'' a ha hb
          · intro a
            simp only [List.mem_append, hmem2'' a]
            constructor
            · rintro (h1 | h1 | h1)
              · exact Or.inr (Or.inl h1)
              · exact Or.inl h1
              · exact Or.inr (Or.inr h1)
            · rintro (h1 | h1 | h1)
              · exact Or.inr (Or.inl h1)
              · exact Or.inl h1
              · exact Or.inr (Or.inr h1)

/-- appending a represented entry whose blocks are disjoint from the list's -/
theorem RepEntries_append (h : Heap) (es : List (Str × Str × V)) (ents : List Nat) (F : List Nat) (e : Nat) (k ko : Str)
    (v : V) (Fe : List Nat) (hr : RepEntries h ents es F) (hre : RepEntry h e k ko v Fe) (hd : disjoint F Fe) :
    RepEntries h (ents ++ [e]) (es ++ [(k, ko, v)]) (F ++ Fe) := by
  induction es generalizing ents F with
  | nil =>
    simp only [RepEntries] at hr
    obtain ⟨rfl, rfl⟩ := hr
    simp only [List.nil_append]
    apply (RepEntries_cons h _ k ko v [] _).mpr
    exact ⟨e, [], Fe, [], rfl, hre, by simp [RepEntries], (fun _ _ hx => by cases hx), by simp⟩
  | cons hd0 es ih =>
    obtain ⟨k0, ko0, v0⟩ := hd0
    obtain ⟨e0, ents', Fe0, F2, rfl, hre0, hrest, hdis, rfl⟩ := (RepEntries_cons h ents k0 ko0 v0 es F).mp hr
    have := ih ents' F2 hrest (fun a ha hb => hd a (List.mem_append_right _ ha) hb)
    simp only [List.cons_append, List.append_assoc]
    apply (RepEntries_cons h _ k0 ko0 v0 _ _).mpr
    refine ⟨e0, ents' ++ [e], Fe0, F2 ++ Fe, rfl, hre0, this, ?_, rfl⟩
    intro a ha hb
    simp only [List.mem_append] at hb
    rcases hb with hb | hb
    · exact hdis a ha hb
    · exact hd a (List.mem_append_left _ ha) hb


/-! ### cif_map_set_item on a whole map -/

theorem need_le_needEntries (es : List (Str × Str × V)) (nk ko : Str) (v : V)
    (h : Value.mapFind es nk = some (nk, ko, v)) : need v + 1 ≤ needEntries es := by
  induction es with
  | nil => simp [Value.mapFind] at h
  | cons hd es ih =>
    obtain ⟨k0, ko0, v0⟩ := hd
    simp only [Value.mapFind] at h
    split at h
    · simp only [Option.some.injEq, Prod.mk.injEq] at h
      obtain ⟨_, _, rfl⟩ := h
      simp [needEntries]; omega
    · have := ih h
      simp [needEntries]; omega

/-- **`cif_map_set_item` is heap-safe on a whole standalone map and refines `mapSet`**: no dead block is touched; the
    entries afterwards represent `Model.Value.mapSet es nk key x`; blocks outside the map are untouched; every block the map
    drops is released; every block allocated is owned by the map or already released again (the temporary normalised
    key when the entry exists). -/
theorem mapSetItemH_spec (h : Heap) (hw : h.WF) (ents : List Nat) (es : List (Str × Str × V)) (F : List Nat)
    (nk key : Str) (x : Option V) (hr : RepEntries h ents es F) (hF : ∀ a, a ∈ F → a < h.next)
    (fuel : Nat) (hfuel : needEntries es ≤ fuel) :
    ∃ ents' h' F', mapSetItemH fuel h ents nk key x = some (ents', h') ∧ RepEntries h' ents' (Value.mapSet es nk key x) F'
      ∧ h'.WF
      ∧ (∀ a, a < h.next → a ∉ F → h'.cell a = h.cell a)
      ∧ (∀ a, a ∈ F → a ∉ F' → h'.cell a = none)
      ∧ (∀ a, h.next ≤ a → a < h'.next → a ∈ F' ∨ h'.cell a = none)
      ∧ (∀ a, a ∈ F' → a < h'.next)
      ∧ (∀ a, a ∈ F' → a ∈ F ∨ h.next ≤ a) ∧ h.next ≤ h'.next := by
  have e0 := Ext.alloc h (.str nk) hw
  generalize hh0 : (alloc h (.str nk)).2 = h0 at e0
  have hn0 : h0.next = h.next + 1 := by rw [← hh0]; rfl
  have hkn0 : h0.cell h.next = some (.str nk) := by rw [← hh0]; simp [alloc_cell]
  have hr0 : RepEntries h0 ents es F := RepEntries_congr h h0 es ents F (fun a ha => e0.frame a (hF a ha)) hr
  rcases RepEntries_find h0 es ents F nk hr0 with ⟨hmf, hfe⟩ | ⟨e, ko, v, Fe, hmf, hfe, hre, hsubF, hrepl, _⟩
  · -- a new entry
    have e1 := Ext.alloc h0 (.str key) e0.wf
    generalize hh1 : (alloc h0 (.str key)).2 = h1 at e1
    have hn1 : h1.next = h.next + 2 := by rw [← hh1, alloc_next, hn0]
    generalize hb : buildVal h1 (x.getD .unk) = r
    obtain ⟨hv, h2⟩ := r
    obtain ⟨e2, Fn, hrepn, hrange, hcover⟩ := buildVal_spec (x.getD .unk) h1 e1.wf hv h2 hb
    have e3 := Ext.alloc h2 (.entry hv h.next h0.next) e2.wf
    generalize hh3 : (alloc h2 (.entry hv h.next h0.next)).2 = h3 at e3
    have hn3 : h3.next = h2.next + 1 := by rw [← hh3]; rfl
    have hle2 := e2.le
    have hall : Ext h h3 := ((e0.trans e1).trans e2).trans e3
    have hc3e : h3.cell h2.next = some (.entry hv h.next h0.next) := by rw [← hh3]; simp [alloc_cell]
    have hc3kn : h3.cell h.next = some (.str nk) := by
      rw [e3.frame _ (by omega), e2.frame _ (by omega), e1.frame _ (by omega), hkn0]
    have hc3ko : h3.cell h0.next = some (.str key) := by
      rw [e3.frame _ (by omega), e2.frame _ (by omega), ← hh1]; simp [alloc_cell]
    have hre3 : RepEntry h3 h2.next nk key (x.getD .unk) (h.next :: h0.next :: Fn ++ [h2.next]) := by
      refine ⟨hv, h.next, h0.next, Fn, hc3e, hc3kn, hc3ko, ?_, ?_, ?_, ?_, by omega, by omega, Or.inr ⟨by omega, rfl⟩⟩
      · apply Rep_congr h2 h3 _ hv Fn _ hrepn
        intro a ha; exact e3.frame a (hrange a ha).2
      · intro hm; have := (hrange _ hm).2; omega
      · intro hm; have := (hrange _ hm).1; omega
      · intro hm; have := (hrange _ hm).1; omega
    have hr3 : RepEntries h3 ents es F := RepEntries_congr h h3 es ents F (fun a ha => hall.frame a (hF a ha)) hr
    have happ := RepEntries_append h3 es ents F h2.next nk key (x.getD .unk) _ hr3 hre3 (by
      intro a ha hb
      have := hF a ha
      simp only [List.cons_append, List.mem_cons, List.mem_append, List.mem_singleton, List.not_mem_nil, or_false] at hb
      rcases hb with hb | hb | hb | hb
      · omega
      · omega
      · have := (hrange a hb).1; omega
      · omega)
    refine ⟨ents ++ [h2.next], h3, F ++ (h.next :: h0.next :: Fn ++ [h2.next]), ?_, ?_, hall.wf, ?_, ?_, ?_, ?_, ?_, hall.le⟩
    · unfold mapSetItemH
      simp only [alloc_fst]
      rw [hh0] 
      simp only [hfe]
      rw [hh1]
      simp only [hb]
      rw [hh3]
    · simp only [Value.mapSet, hmf]; exact happ
    · intro a ha _; exact hall.frame a ha
    · intro a ha hna; exact absurd (List.mem_append_left _ ha) hna
    · intro a h1' h2'
      left
      simp only [List.cons_append, List.mem_append, List.mem_cons, List.mem_singleton, List.not_mem_nil, or_false]
      right
      by_cases h0' : a = h.next
      · exact Or.inl h0'
      · by_cases h01 : a = h0.next
        · exact Or.inr (Or.inl h01)
        · by_cases hlt : a < h2.next
          · exact Or.inr (Or.inr (Or.inl (hcover a (by omega) hlt)))
          · exact Or.inr (Or.inr (Or.inr (by omega)))
    · intro a ha
      simp only [List.cons_append, List.mem_append, List.mem_cons, List.mem_singleton, List.not_mem_nil, or_false] at ha
      rcases ha with ha | ha | ha | ha | ha
      · have := hF a ha; omega
      · omega
      · omega
      · have := (hrange a ha).2; omega
      · omega
    · intro a ha
      simp only [List.cons_append, List.mem_append, List.mem_cons, List.mem_singleton, List.not_mem_nil, or_false] at ha
      rcases ha with ha | ha | ha | ha | ha
      · exact Or.inl ha
      · omega
      · omega
      · have := (hrange a ha).1; omega
      · omega
  · -- an existing entry
    have hFe : ∀ a, a ∈ Fe → a < h0.next := fun a ha => by have := hF a (hsubF a ha); omega
    have hknFe : h.next ∉ Fe := fun hm => by have := hF _ (hsubF _ hm); omega
    obtain ⟨h1, Fe1, hop1, hre1, hw1, _, hfr1, hdrop1, hown1, hlt1, hsub1⟩ := entryRespell_spec h0 e0.wf e nk ko v Fe key hre hFe
    have hneed := need_le_needEntries es nk ko v hmf
    have hle1 : h0.next ≤ h1.next := by
      -- the bump pointer never moves down: a block of Fe1 below it would otherwise be lost
      by_cases hlt : h0.next ≤ h1.next
      · exact hlt
      · exfalso
        have he1 : e ∈ Fe1 := RepEntry_mem h1 e nk key v Fe1 hre1
        have : e < h1.next := hlt1 e he1
        have hcell : h1.cell e ≠ none := by
          obtain ⟨hv', ka', koa', F1', he', _⟩ := hre1
          rw [he']; simp
        -- e is live in h1, fine; derive the contradiction from the key block allocated at h0.next … not needed:
        -- entryRespell either returns h0 itself or allocates, so h1.next ≥ h0.next; we get it from WF of h1 and
        -- liveness of the blocks of Fe (all < h0.next) plus the hash key block
        have hkn1 : h1.cell h.next = some (.str nk) := by rw [hfr1 h.next (by omega) hknFe]; exact hkn0
        have := hw1 h.next
        by_cases hk : h1.next ≤ h.next
        · rw [this hk] at hkn1; cases hkn1
        · omega
    obtain ⟨h2, Fe2, hop2, hre2, hw2, hle2, hfr2, hdrop2, hown2, hlt2, hsub2⟩ :=
      entrySetValue_spec h1 hw1 e nk key v Fe1 x hre1 hlt1 fuel (by omega)
    have hknFe1 : h.next ∉ Fe1 := fun hm => by
      rcases hsub1 _ hm with hh | hh
      · exact hknFe hh
      · omega
    have hknFe2 : h.next ∉ Fe2 := fun hm => by
      rcases hsub2 _ hm with hh | hh
      · exact hknFe1 hh
      · omega
    have hkn2 : h2.cell h.next = some (.str nk) := by
      rw [hfr2 h.next (by omega) hknFe1, hfr1 h.next (by omega) hknFe]; exact hkn0
    obtain ⟨h3, hf3, hn3, hc3⟩ := free_spec h2 h.next _ hkn2
    have hre3 : RepEntry h3 e nk key (x.getD .unk) Fe2 := by
      apply RepEntry_congr h2 h3 e nk key _ Fe2 _ hre2
      intro a ha
      have : a ≠ h.next := fun e' => hknFe2 (e' ▸ ha)
      rw [hc3]; simp [this]
    have hchain : ∀ a, a < h.next → a ∉ Fe → h3.cell a = h0.cell a := by
      intro a ha hna
      have hna1 : a ∉ Fe1 := fun hm => by
        rcases hsub1 a hm with hh | hh
        · exact hna hh
        · omega
      have : a ≠ h.next := by omega
      rw [hc3]; simp only [this, if_false]
      rw [hfr2 a (by omega) hna1, hfr1 a (by omega) hna]
    obtain ⟨F', hrep', hmem'⟩ := hrepl h3 key (x.getD .unk) Fe2 hre3
      (fun a ha hna => hchain a (hF a ha) hna)
      (fun a ha hb => by
        have := hF a hb
        rcases hsub2 a ha with hh | hh
        · rcases hsub1 a hh with hh' | hh'
          · exact hh'
          · omega
        · omega)
    refine ⟨ents, h3, F', ?_, ?_, ?_, ?_, ?_, ?_, ?_, ?_, by omega⟩
    · unfold mapSetItemH
      simp only [alloc_fst]
      rw [hh0]
      simp only [hfe, hop1, hop2, hf3]
    · simp only [Value.mapSet, hmf]; exact hrep'
    · intro a ha; rw [hn3] at ha; rw [hc3]
      split
      · rfl
      · exact hw2 a ha
    · intro a ha hna
      rw [hchain a ha (fun hm => hna (hsubF a hm)), e0.frame a ha]
    · intro a ha hna
      have haFe : a ∈ Fe := by
        by_cases hm : a ∈ Fe
        · exact hm
        · exact absurd ((hmem' a).mpr (Or.inr ⟨ha, hm⟩)) hna
      have hnFe2 : a ∉ Fe2 := fun hm => hna ((hmem' a).mpr (Or.inl hm))
      have hlt := hF a ha
      have hne : a ≠ h.next := by omega
      rw [hc3]; simp only [hne, if_false]
      by_cases h1' : a ∈ Fe1
      · exact hdrop2 a h1' hnFe2
      · rw [hfr2 a (by omega) h1']; exact hdrop1 a haFe h1'
    · intro a h1' h2'
      rw [hn3] at h2'
      by_cases hkn : a = h.next
      · right; rw [hc3]; simp [hkn]
      · by_cases hlt1' : a < h1.next
        · have ha1 : a ∈ Fe1 := hown1 a (by omega) hlt1'
          by_cases ha2 : a ∈ Fe2
          · exact Or.inl ((hmem' a).mpr (Or.inl ha2))
          · right; rw [hc3]; simp only [hkn, if_false]; exact hdrop2 a ha1 ha2
        · exact Or.inl ((hmem' a).mpr (Or.inl (hown2 a (by omega) h2')))
    · intro a ha
      rw [hn3]
      rcases (hmem' a).mp ha with hh | ⟨hh, _⟩
      · exact hlt2 a hh
      · have := hF a hh; omega
    · intro a ha
      rcases (hmem' a).mp ha with hh | ⟨hh, _⟩
      · rcases hsub2 a hh with h1' | h1'
        · rcases hsub1 a h1' with h2' | h2'
          · exact Or.inl (hsubF a h2')
          · omega
        · omega
      · exact Or.inl hh


/-! ### cif_map_retrieve_item(…, do_remove) on a whole map -/

/-- **removing an item hands its value to the caller** (whole map): the entry is unlinked and detached without touching a
    dead block; once the caller has released the value, exactly the blocks of that entry are gone, the remaining entries
    represent `Model.Value.mapErase es nk`, and nothing else has changed.  A key that is not present changes nothing. -/
theorem mapRemoveItemH_spec (h : Heap) (hw : h.WF) (ents : List Nat) (es : List (Str × Str × V)) (F : List Nat)
    (nk : Str) (hr : RepEntries h ents es F) (hF : ∀ a, a ∈ F → a < h.next) :
    (Value.mapFind es nk = none ∧ ∃ h', mapRemoveItemH h ents nk = some (none, h') ∧ RepEntries h' ents es F
        ∧ ∀ a, a < h.next → h'.cell a = h.cell a)
    ∨ (∃ e ko v h1 h2 Fe F'', Value.mapFind es nk = some (nk, ko, v)
        ∧ mapRemoveItemH h ents nk = some (some (e, ents.erase e), h1)
        ∧ freeDetached (need v) h1 e = some h2
        ∧ RepEntries h2 (ents.erase e) (Value.mapErase es nk) F''
        ∧ disjoint Fe F'' ∧ (∀ a, a ∈ F ↔ (a ∈ Fe ∨ a ∈ F''))
        ∧ ∀ a, a < h.next → h2.cell a = if a ∈ Fe then none else h.cell a) := by
  have e0 := Ext.alloc h (.str nk) hw
  generalize hh0 : (alloc h (.str nk)).2 = h0 at e0
  have hn0 : h0.next = h.next + 1 := by rw [← hh0]; rfl
  have hkn0 : h0.cell h.next = some (.str nk) := by rw [← hh0]; simp [alloc_cell]
  have hr0 : RepEntries h0 ents es F := RepEntries_congr h h0 es ents F (fun a ha => e0.frame a (hF a ha)) hr
  obtain ⟨g, hfg, hng, hcg⟩ := free_spec h0 h.next _ hkn0
  have hgcell : ∀ a, a < h.next → g.cell a = h.cell a := by
    intro a ha
    have : a ≠ h.next := by omega
    rw [hcg]; simp only [this, if_false]; exact e0.frame a ha
  rcases RepEntries_find h0 es ents F nk hr0 with ⟨hmf, hfe⟩ | ⟨e, ko, v, Fe, hmf, hfe, hre, hsubF, _, F'', hers, hdis, hmem⟩
  · refine Or.inl ⟨hmf, g, ?_, ?_, hgcell⟩
    · unfold mapRemoveItemH
      simp only [alloc_fst]
      rw [hh0]
      simp only [hfe, hfg]
    · exact RepEntries_congr h g es ents F (fun a ha => hgcell a (hF a ha)) hr
  · have hreg : RepEntry g e nk ko v Fe := by
      apply RepEntry_congr h0 g e nk ko v Fe _ hre
      intro a ha
      have : a ≠ h.next := by have := hF a (hsubF a ha); omega
      rw [hcg]; simp [this]
    obtain ⟨h1, h2, hdet, hfd, c2⟩ := entryDetach_free_spec g e nk ko v Fe hreg
    refine Or.inr ⟨e, ko, v, h1, h2, Fe, F'', hmf, ?_, hfd, ?_, hdis, hmem, ?_⟩
    · unfold mapRemoveItemH
      simp only [alloc_fst]
      rw [hh0]
      simp only [hfe, hfg, hdet]
    · apply RepEntries_congr h0 h2 _ _ F'' _ hers
      intro a ha
      have haF : a ∈ F := (hmem a).mpr (Or.inr ha)
      have hne : a ≠ h.next := by have := hF a haF; omega
      rw [c2.2 a, if_neg (fun hm => hdis a hm ha), hcg]; simp [hne]
    · intro a ha
      rw [c2.2 a, hgcell a ha]


/-! ### cif_value_set_element_at -/

/-- element `i` of a represented element list can be given a new value in place -/
theorem RepElems_replace (h : Heap) (vs : List V) (xs : List Nat) (F : List Nat) (i : Nat) (hr : RepElems h xs vs F)
    (hi : i < vs.length) :
    ∃ t v hvt Ft, xs[i]? = some t ∧ vs[i]? = some v ∧ h.cell t = some (.val hvt) ∧ Rep h hvt v Ft ∧ t ∉ Ft
      ∧ (∀ a, a ∈ Ft → a ∈ F) ∧ t ∈ F
      ∧ ∀ h' new v' Ft', h'.cell t = some (.val new) → Rep h' new v' Ft' → t ∉ Ft'
          → (∀ a, a ∈ F → a ∉ Ft → a ≠ t → h'.cell a = h.cell a) → (∀ a, a ∈ Ft' → a ∈ F → a ∈ Ft)
          → ∃ F', RepElems h' xs (vs.set i v') F' ∧ ∀ a, a ∈ F' ↔ (a ∈ Ft' ∨ a = t ∨ (a ∈ F ∧ a ∉ Ft ∧ a ≠ t)) := by
  induction vs generalizing xs F i with
  | nil => simp at hi
  | cons v vs ih =>
    simp only [RepElems] at hr
    obtain ⟨x0, xs', hv0, F1, F2, rfl, hx0, hrep0, hrest, hx0F, hd0, rfl⟩ := hr
    cases i with
    | zero =>
      refine ⟨x0, v, hv0, F1, by simp, by simp, hx0, hrep0, hx0F, fun a ha => by simp [ha], by simp, ?_⟩
      intro h' new v' Ft' hc' hrep' htF' hframe hsub
      refine ⟨Ft' ++ [x0] ++ F2, ?_, ?_⟩
      · simp only [List.set_cons_zero]
        rw [RepElems]
        refine ⟨x0, xs', new, Ft', F2, rfl, hc', hrep', ?_, htF', ?_, rfl⟩
        · apply RepElems_congr h h' vs xs' F2 _ hrest
          intro a ha
          exact hframe a (by simp [ha]) (fun hm => hd0 a (by simp [hm]) ha) (fun e => hd0 a (by simp [e]) ha)
        · intro a ha hb
          simp only [List.mem_append, List.mem_singleton] at ha
          rcases ha with ha | ha
          · exact hd0 a (by simp [hsub a ha (by simp [hb])]) hb
          · exact hd0 a (by simp [ha]) hb
      · intro a
        simp only [List.mem_append, List.mem_singleton]
        constructor
        · rintro ((h1 | h1) | h1)
          · exact Or.inl h1
          · exact Or.inr (Or.inl h1)
          · exact Or.inr (Or.inr ⟨Or.inr h1, fun hm => hd0 a (by simp [hm]) h1, fun e => hd0 a (by simp [e]) h1⟩)
        · rintro (h1 | h1 | ⟨(h1 | h1) | h1, h2, h3⟩)
          · exact Or.inl (Or.inl h1)
          · exact Or.inl (Or.inr h1)
          · exact absurd h1 h2
          · exact absurd h1 h3
          · exact Or.inr h1
    | succ i =>
      obtain ⟨t, w, hvt, Ft, hxi, hvi, ht, hrept, htF, hsubF, htmem, hrepl⟩ := ih xs' F2 i hrest (by simpa using hi)
      have htne : t ≠ x0 := fun e => hd0 t (by simp [e]) htmem
      refine ⟨t, w, hvt, Ft, by simpa using hxi, by simpa using hvi, ht, hrept, htF,
        fun a ha => by simp [hsubF a ha], by simp [htmem], ?_⟩
      intro h' new v' Ft' hc' hrep' htF' hframe hsub
      obtain ⟨F2', hrep2', hmem2'⟩ := hrepl h' new v' Ft' hc' hrep' htF'
        (fun a ha h1 h2 => hframe a (by simp [ha]) h1 h2)
        (fun a ha hb => hsub a ha (by simp [hb]))
      refine ⟨F1 ++ [x0] ++ F2', ?_, ?_⟩
      · simp only [List.set_cons_succ]
        rw [RepElems]
        refine ⟨x0, xs', hv0, F1, F2', rfl, ?_, ?_, hrep2', hx0F, ?_, rfl⟩
        · rw [hframe x0 (by simp) (fun hm => hd0 x0 (by simp) (hsubF x0 hm)) (fun e => htne e.symm)]; exact hx0
        · apply Rep_congr h h' v hv0 F1 _ hrep0
          intro a ha
          exact hframe a (by simp [ha]) (fun hm => hd0 a (by simp [ha]) (hsubF a hm))
            (fun e => hd0 a (by simp [ha]) (e ▸ htmem))
        · intro a ha hb
          rcases (hmem2' a).mp hb with h1 | h1 | ⟨h1, _, _⟩
          · exact hd0 a ha (hsubF a (hsub a h1 (by
              simp only [List.mem_append, List.mem_singleton] at ha ⊢
              rcases ha with ha | ha
              · exact Or.inl (Or.inl ha)
              · exact Or.inl (Or.inr ha))))
          · exact hd0 a ha (h1 ▸ htmem)
          · exact hd0 a ha h1
      · intro a
        simp only [List.mem_append, List.mem_singleton, hmem2' a]
        constructor
        · rintro ((h1 | h1) | h1 | h1 | ⟨h1, h2, h3⟩)
          · exact Or.inr (Or.inr ⟨Or.inl (Or.inl h1), fun hm => hd0 a (by simp [h1]) (hsubF a hm),
              fun e => hd0 a (by simp [h1]) (e ▸ htmem)⟩)
          · exact Or.inr (Or.inr ⟨Or.inl (Or.inr h1), fun hm => hd0 a (by simp [h1]) (hsubF a hm),
              fun e => hd0 a (by simp [h1]) (e ▸ htmem)⟩)
          · exact Or.inl h1
          · exact Or.inr (Or.inl h1)
          · exact Or.inr (Or.inr ⟨Or.inr h1, h2, h3⟩)
        · rintro (h1 | h1 | ⟨(h1 | h1) | h1, h2, h3⟩)
          · exact Or.inr (Or.inl h1)
          · exact Or.inr (Or.inr (Or.inl h1))
          · exact Or.inl (Or.inl h1)
          · exact Or.inl (Or.inr h1)
          · exact Or.inr (Or.inr (Or.inr ⟨h1, h2, h3⟩))

theorem need_le_needList (vs : List V) (i : Nat) (v : V) (h : vs[i]? = some v) : need v + 1 ≤ needList vs := by
  induction vs generalizing i with
  | nil => simp at h
  | cons w vs ih =>
    cases i with
    | zero => simp at h; subst h; simp [needList]; omega
    | succ i => have := ih i (by simpa using h); simp [needList]; omega

/-- **`cif_value_set_element_at`** for a new value that is not part of the element replaced: the element object is
    cleaned and rebuilt in place — the list object, its pointer array and the other elements are untouched, the old
    components are released, the new ones are fresh. -/
theorem listSetH_spec (h : Heap) (hw : h.WF) (hv : HVal) (vs : List V) (F : List Nat) (i : Nat) (x : Option V)
    (hr : Rep h hv (.lst vs) F) (hF : ∀ a, a ∈ F → a < h.next) (hi : i < vs.length) :
    ∃ h' F', listSetH (need (.lst vs)) h hv i x = some h' ∧ Rep h' hv (.lst (vs.set i (x.getD .unk))) F' ∧ h'.WF
      ∧ (∀ a, a < h.next → a ∉ F → h'.cell a = h.cell a)
      ∧ (∀ a, a ∈ F → a ∉ F' → h'.cell a = none)
      ∧ (∀ a, h.next ≤ a → a < h'.next → a ∈ F') ∧ (∀ a, a ∈ F' → a < h'.next) := by
  simp only [Rep] at hr
  rcases hr with ⟨rfl, _, _, _⟩ | ⟨arr, xs, cap, F1, rfl, harr, hcap, hel, hnot, rfl⟩
  · simp at hi
  · obtain ⟨t, v, hvt, Ft, hxi, hvi, ht, hrept, htF, hsubF, htmem, hrepl⟩ := RepElems_replace h vs xs F1 i hel hi
    have hF1lt : ∀ a, a ∈ F1 → a < h.next := fun a ha => hF a (by simp [ha])
    have hFtlt : ∀ a, a ∈ Ft → a < h.next := fun a ha => hF1lt a (hsubF a ha)
    have htlt : t < h.next := hF1lt t htmem
    have harrlt : arr < h.next := hF arr (by simp)
    have hneed := need_le_needList vs i v hvi
    obtain ⟨h1, new, h2, Fn, hc, hb, hrepn, hw2, hle, hrange, hcover, hcells⟩ :=
      cleanBuild_spec h hw hvt v Ft (x.getD .unk) hrept hFtlt (need (.lst vs)) (by simp [need]; omega)
    have ht2 : h2.cell t = some (.val hvt) := by rw [hcells t htlt]; simp [htF, ht]
    obtain ⟨h3, hwr, hn3, hc3⟩ := write_spec h2 t _ (.val new) ht2
    have hrep3 : Rep h3 new (x.getD .unk) Fn := by
      apply Rep_congr h2 h3 _ new Fn _ hrepn
      intro a ha
      have : a ≠ t := by have := (hrange a ha).1; omega
      rw [hc3]; simp [this]
    have hcell3 : ∀ a, a < h.next → a ≠ t → h3.cell a = if a ∈ Ft then none else h.cell a := by
      intro a ha hne
      rw [hc3]; simp only [hne, if_false]; exact hcells a ha
    obtain ⟨F1', hrep1', hmem1'⟩ := hrepl h3 new (x.getD .unk) Fn (by simp [hc3]) hrep3
      (fun hm => by have := (hrange t hm).1; omega)
      (fun a ha h1' h2' => by rw [hcell3 a (hF1lt a ha) h2', if_neg h1'])
      (fun a ha hb => by have := (hrange a ha).1; have := hF1lt a hb; omega)
    have harrne : arr ≠ t := fun e => hnot (e ▸ htmem)
    have harrFt : arr ∉ Ft := fun hm => hnot (hsubF arr hm)
    have harr3 : h3.cell arr = some (.arr xs cap) := by rw [hcell3 arr harrlt harrne, if_neg harrFt]; exact harr
    have hlen : (vs.set i (x.getD .unk)).length = vs.length := by simp
    refine ⟨h3, F1' ++ [arr], ?_, ?_, ?_, ?_, ?_, ?_, ?_⟩
    · simp [listSetH, read, harr, hxi, ht, hc, hb, hwr]
    · simp only [Rep]
      refine Or.inr ⟨arr, xs, cap, F1', rfl, harr3, hcap, hrep1', ?_, rfl⟩
      intro hm
      rcases (hmem1' arr).mp hm with h1' | h1' | ⟨h1', _, _⟩
      · have := (hrange arr h1').1; omega
      · exact harrne h1'
      · exact hnot h1'
    · intro a ha; rw [hn3] at ha; rw [hc3]
      have : a ≠ t := by omega
      simp [this, hw2 a ha]
    · intro a ha hna
      have hne : a ≠ t := fun e => hna (by simp [e, htmem])
      have hnFt : a ∉ Ft := fun hm => hna (by simp [hsubF a hm])
      rw [hcell3 a ha hne, if_neg hnFt]
    · intro a ha hna
      simp only [List.mem_append, List.mem_singleton] at ha hna
      have hnarr : a ≠ arr := fun e => hna (Or.inr e)
      have haF1 : a ∈ F1 := by rcases ha with ha | ha; exact ha; exact absurd ha hnarr
      have hnt : a ≠ t := fun e => hna (Or.inl ((hmem1' a).mpr (Or.inr (Or.inl e))))
      have haFt : a ∈ Ft := by
        by_cases hm : a ∈ Ft
        · exact hm
        · exact absurd (Or.inl ((hmem1' a).mpr (Or.inr (Or.inr ⟨haF1, hm, hnt⟩)))) hna
      rw [hcell3 a (hF1lt a haF1) hnt, if_pos haFt]
    · intro a h1' h2'
      rw [hn3] at h2'
      simp only [List.mem_append, List.mem_singleton]
      exact Or.inl ((hmem1' a).mpr (Or.inl (hcover a h1' h2')))
    · intro a ha
      rw [hn3]
      simp only [List.mem_append, List.mem_singleton] at ha
      rcases ha with ha | ha
      · rcases (hmem1' a).mp ha with hh | hh | ⟨hh, _, _⟩
        · exact (hrange a hh).2
        · omega
        · have := hF1lt a hh; omega
      · omega

end CifModel.Model.Heap

namespace CifModel.Model.Heap
open CifModel

/-! ### clone onto an existing object (repaired order: build, then clean, then move) -/

/-- **`cif_value_clone(src, &dst)` onto an existing object** — the aliasing cases included: because the copy is built
    before the target is cleaned, *any* representation of the source in the heap (`hs`, `Fs` — it may lie inside the
    target, `Fs ⊆ F`, or contain it) is still fully live while it is read; afterwards the target object represents the
    source's value on fresh blocks, everything the target owned before is released (each block once), the scratch object
    is released, and nothing else changes. -/
theorem cloneOntoH_spec (h : Heap) (hw : h.WF) (t : Nat) (old : HVal) (vOld : V) (F : List Nat) (x : V)
    (ht : h.cell t = some (.val old)) (hr : Rep h old vOld F) (hF : ∀ a, a ∈ F → a < h.next) (htlt : t < h.next)
    (htF : t ∉ F) (hs : HVal) (Fs : List Nat) (hsrc : Rep h hs x Fs) (hFs : ∀ a, a ∈ Fs → a < h.next) :
    Rep (buildNew h x).2 hs x Fs
    ∧ ∃ h' new F', cloneOntoH (need vOld) h t x = some h' ∧ h'.cell t = some (.val new) ∧ Rep h' new x F' ∧ h'.WF
      ∧ (∀ a, a ∈ F' → h.next ≤ a ∧ a < h'.next)
      ∧ (∀ a, a < h.next → a ≠ t → h'.cell a = if a ∈ F then none else h.cell a)
      ∧ (∀ a, h.next ≤ a → a < h'.next → a ∈ F' ∨ h'.cell a = none) := by
  generalize hb : buildNew h x = r
  obtain ⟨c, h1⟩ := r
  obtain ⟨e1, new, Fn, hc, hrepn, hcF, hcl, hcu, hrange, hcover⟩ := buildNew_spec x h hw c h1 hb
  refine ⟨Rep_congr h h1 x hs Fs (fun a ha => e1.frame a (hFs a ha)) hsrc, ?_⟩
  have ht1 : h1.cell t = some (.val old) := by rw [e1.frame t htlt]; exact ht
  have hr1 : Rep h1 old vOld F := Rep_congr h h1 vOld old F (fun a ha => e1.frame a (hF a ha)) hr
  obtain ⟨h2, hcl2, c2⟩ := cleanVal_spec vOld h1 old F (need vOld) hr1 (Nat.le_refl _)
  have ht2 : h2.cell t = some (.val old) := by rw [c2.2 t]; simp [htF, ht1]
  obtain ⟨h3, hwr, hn3, hc3⟩ := write_spec h2 t _ (.val new) ht2
  have hctne : c ≠ t := by omega
  have hc3c : h3.cell c = some (.val new) := by
    rw [hc3]; simp only [hctne, if_false]; rw [c2.2 c]
    have : c ∉ F := fun hm => by have := hF c hm; omega
    simp [this, hc]
  obtain ⟨h4, hf4, hn4, hc4⟩ := free_spec h3 c _ hc3c
  have hFnF : ∀ a, a ∈ Fn → a ∉ F ∧ a ≠ t ∧ a ≠ c := by
    intro a ha
    have := hrange a ha
    exact ⟨fun hm => by have := hF a hm; omega, by omega, fun e => hcF (e ▸ ha)⟩
  refine ⟨h4, new, Fn, ?_, ?_, ?_, ?_, ?_, ?_, ?_⟩
  · simp [cloneOntoH, hb, read, hc, ht1, hcl2, hwr, hf4]
  · rw [hc4]; have : t ≠ c := fun e => hctne e.symm
    simp [this, hc3]
  · apply Rep_congr h1 h4 x new Fn _ hrepn
    intro a ha
    obtain ⟨h1', h2', h3'⟩ := hFnF a ha
    rw [hc4, hc3, c2.2 a]; simp [h1', h2', h3']
  · intro a ha
    rw [hn4, hn3, c2.1] at ha
    rw [hc4, hc3, c2.2 a]
    have h1' : a ≠ c := by omega
    have h2' : a ≠ t := by have := e1.le; omega
    simp only [h1', h2', if_false]
    rw [e1.wf a ha]; split <;> rfl
  · intro a ha
    rw [hn4, hn3, c2.1]
    exact hrange a ha
  · intro a ha hne
    have hac : a ≠ c := by omega
    rw [hc4, hc3, c2.2 a]; simp only [hac, hne, if_false]
    rw [e1.frame a ha]
  · intro a h1' h2'
    rw [hn4, hn3, c2.1] at h2'
    rcases hcover a h1' h2' with hh | hh
    · exact Or.inl hh
    · right; rw [hc4]; simp [hh]

/-! ### cif_map_get_keys -/

/-- the original keys of a represented entry list, as the heap holds them -/
theorem getKeysH_spec (h : Heap) (ents : List Nat) (es : List (Str × Str × V)) (F : List Nat)
    (hr : RepEntries h ents es F) :
    ∃ kos, getKeysH h ents = some (h.next, kos, (alloc h (.arr kos (kos.length + 1))).2)
      ∧ kos.map (fun ko => h.cell ko) = (Value.mapKeys es).map (fun s => some (.str s))
      ∧ (∀ ko, ko ∈ kos → ko ∈ F)
      ∧ ∃ h'', free (alloc h (.arr kos (kos.length + 1))).2 h.next = some h'' ∧ h''.next = h.next + 1
          ∧ ∀ a, h''.cell a = if a = h.next then none else h.cell a := by
  have key : ∃ kos, origKeys h ents = some kos
      ∧ kos.map (fun ko => h.cell ko) = (Value.mapKeys es).map (fun s => some (.str s)) ∧ ∀ ko, ko ∈ kos → ko ∈ F := by
    induction es generalizing ents F with
    | nil =>
      simp only [RepEntries] at hr
      obtain ⟨rfl, rfl⟩ := hr
      exact ⟨[], rfl, rfl, fun _ hx => by cases hx⟩
    | cons hd es ih =>
      obtain ⟨k, ko, v⟩ := hd
      obtain ⟨e, ents', Fe, F2, rfl, hre, hrest, _, rfl⟩ := (RepEntries_cons h ents k ko v es F).mp hr
      obtain ⟨kos, hm, hmap, hsub⟩ := ih ents' F2 hrest
      obtain ⟨hv, ka, koa, F1, he, hka, hkoa, _, _, _, _, _, _, hFe⟩ := hre
      have hkoaFe : koa ∈ Fe := by
        rcases hFe with ⟨hkk, rfl⟩ | ⟨_, rfl⟩
        · subst hkk; simp
        · simp
      refine ⟨koa :: kos, ?_, ?_, ?_⟩
      · simp [origKeys, read, he, hm]
      · simp only [List.map_cons, Value.mapKeys, hkoa]
        simp only [Value.mapKeys] at hmap
        rw [hmap]
      · intro x hx
        rcases List.mem_cons.mp hx with rfl | hx'
        · exact List.mem_append_left _ hkoaFe
        · exact List.mem_append_right _ (hsub x hx')
  obtain ⟨kos, hm, hmap, hsub⟩ := key
  refine ⟨kos, by simp [getKeysH, hm, alloc], hmap, hsub, ?_⟩
  obtain ⟨h'', hf, hn, hc⟩ := free_spec (alloc h (.arr kos (kos.length + 1))).2 h.next (.arr kos (kos.length + 1))
    (by simp [alloc_cell])
  refine ⟨h'', hf, by rw [hn]; rfl, fun a => ?_⟩
  rw [hc a, alloc_cell]
  split <;> rfl

end CifModel.Model.Heap
