import CifModel.Lemmas.WriterText
/-
  The units of a text-field body are units of the text or one of `>`, blank, backslash, LF.
-/
namespace CifModel.Lemmas.WriterPure
open CifModel.Model.Writer
open CifModel.Lemmas.WriterText (splitLines_mem)

/-- the units `write_text` adds on its own -/
def Extra (x : CU) : Prop := x = 62 ∨ x = 32 ∨ x = 92 ∨ x = 10

theorem printfS_mem (n : Nat) (t : Str) (x : CU) (h : x ∈ printfS n t) : x = 32 ∨ x ∈ t := by
  unfold printfS at h
  rcases List.mem_append.mp h with h1 | h1
  · left; exact (List.mem_replicate.mp h1).2
  · right; exact List.mem_of_mem_take h1

theorem segLines_mem (fold pre protect : Bool) (target : Nat) :
    ∀ (fuel : Nat) (tok : Str) (ps : List Str), segLines fold pre protect target fuel tok = .ok ps →
      ∀ p ∈ ps, ∀ x ∈ p, x ∈ tok ∨ Extra x := by
  intro fuel
  induction fuel with
  | zero => intro tok ps h p hp; simp [segLines] at h; subst h; simp at hp
  | succ f ih =>
    intro tok ps h p hp x hx
    cases tok with
    | nil => simp [segLines] at h; subst h; simp at hp
    | cons c cs =>
      simp only [segLines] at h
      split at h
      · cases h
      · cases hr : segLines fold pre protect target f ((c :: cs).drop (foldLine (c :: cs) fold target WINDOW pre)) with
        | error e => simp [hr] at h
        | ok rest =>
          simp only [hr] at h
          cases h
          rcases List.mem_cons.mp hp with h1 | h1
          · subst h1
            rcases List.mem_append.mp hx with h2 | h2
            · rcases List.mem_append.mp h2 with h3 | h3
              · right
                cases pre <;> simp [PREFIX] at h3
                rcases h3 with h3 | h3 <;> subst h3 <;> simp [Extra]
              · rcases printfS_mem _ _ _ h3 with h4 | h4
                · right; subst h4; simp [Extra]
                · left; exact h4
            · right
              split at h2
              · simp [BSL] at h2; subst h2; simp [Extra]
              · simp at h2
          · rcases ih _ rest hr p h1 x hx with h2 | h2
            · left; exact List.mem_of_mem_drop h2
            · right; exact h2

theorem textPhys_mem (fold pre : Bool) (target : Nat) :
    ∀ (ls : List Str) (Q : List Str), textPhys fold pre target ls = .ok Q →
      ∀ p ∈ Q, ∀ x ∈ p, (∃ l ∈ ls, x ∈ l) ∨ Extra x := by
  intro ls
  induction ls with
  | nil => intro Q h p hp; simp [textPhys] at h; subst h; simp at hp
  | cons l rest ih =>
    intro Q h p hp x hx
    simp only [textPhys] at h
    cases h1 : logicalLinePhys fold pre target l with
    | error e => simp [h1] at h
    | ok ps =>
      cases h2 : textPhys fold pre target rest with
      | error e => simp [h1, h2] at h
      | ok qs =>
        simp only [h1, h2] at h
        cases h
        rcases List.mem_append.mp hp with h3 | h3
        · -- a physical line of `l`
          cases l with
          | nil => simp [logicalLinePhys] at h1; subst h1; simp at h3; subst h3; simp at hx
          | cons c cs =>
            simp only [logicalLinePhys, List.length_cons] at h1
            cases hs : segLines fold pre (fold && endsBslBlank (c :: cs)) target (cs.length + 1) (c :: cs) with
            | error e => simp [hs] at h1
            | ok ss =>
              simp only [hs] at h1
              cases h1
              rcases List.mem_append.mp h3 with h4 | h4
              · rcases segLines_mem _ _ _ _ _ _ _ hs p h4 x hx with h5 | h5
                · left; exact ⟨c :: cs, List.mem_cons_self, h5⟩
                · right; exact h5
              · split at h4
                · simp at h4; subst h4; simp at hx
                · simp at h4
        · rcases ih qs h2 p h3 x hx with ⟨l', hl', hx'⟩ | h4
          · left; exact ⟨l', List.mem_cons_of_mem _ hl', hx'⟩
          · right; exact h4

theorem flat_mem (P : List Str) (x : CU) (h : x ∈ flat P) : x = 10 ∨ ∃ p ∈ P, x ∈ p := by
  induction P with
  | nil => simp [flat] at h
  | cons p ps ih =>
    simp only [flat] at h
    rcases List.mem_cons.mp h with h1 | h1
    · left; exact h1
    · rcases List.mem_append.mp h1 with h2 | h2
      · right; exact ⟨p, List.mem_cons_self, h2⟩
      · rcases ih h2 with h3 | ⟨q, hq, hx⟩
        · left; exact h3
        · right; exact ⟨q, List.mem_cons_of_mem _ hq, hx⟩

/-- every unit of the body of a text field is a unit of the text, or `>`, blank, backslash, LF -/
theorem textBody_mem (s : Str) (fold pre : Bool) (body : Str) (h : textBody s fold pre = .ok body) :
    ∀ x ∈ body, x ∈ s ∨ Extra x := by
  intro x hx
  unfold textBody at h
  split at h
  · cases h; left; exact hx
  · cases hq : textPhys fold pre (targetLength pre) (splitLines s) with
    | error e => simp [hq] at h
    | ok Q =>
      simp only [hq] at h
      cases h
      rcases List.mem_append.mp hx with h1 | h1
      · right
        unfold textMarker at h1
        rcases List.mem_append.mp h1 with h2 | h2
        · cases pre <;> simp [PREFIX, BSL] at h2
          rcases h2 with h2 | h2 | h2 <;> subst h2 <;> simp [Extra]
        · cases fold <;> simp [BSL] at h2
          subst h2; simp [Extra]
      · rcases flat_mem Q x h1 with h2 | ⟨p, hp, hxp⟩
        · right; subst h2; simp [Extra]
        · rcases textPhys_mem fold pre _ _ Q hq p hp x hxp with ⟨l, hl, hxl⟩ | h3
          · left; exact splitLines_mem s l hl x hxl
          · right; exact h3

end CifModel.Lemmas.WriterPure
