import CifModel.Lemmas.StoreTx
import CifModel.Lemmas.StoreInv
/-
  Lemmas/StoreWorld — lifting per-CIF facts to histories over several CIFs (`step` of Model/StoreStep).
-/
namespace CifModel.Store
open Gen.ErrCodes World

/-- slot-wise relation between two tables of CIFs -/
def SlotRel (R : Store → Store → Prop) (a b : Option Store) : Prop :=
  match a, b with
  | some s, some s' => R s s'
  | none, none => True
  | _, _ => False

theorem SlotRel.refl {R : Store → Store → Prop} (hr : ∀ s, R s s) (a : Option Store) : SlotRel R a a := by
  cases a <;> simp [SlotRel, hr]

theorem liveH_liveC {w : World} {h : Nat} {e : CHE} {s : Store} (hl : w.liveH h = some (e, s)) : w.liveC e.cif = some s := by
  unfold liveH at hl
  split at hl
  · cases hl
  · rename_i e' _
    cases hc : w.liveC e'.cif with
    | none => simp [hc] at hl
    | some s' => simp [hc] at hl; obtain ⟨rfl, rfl⟩ := hl; exact hc

theorem liveL_liveC {w : World} {l : Nat} {e : LHE} {s : Store} (hl : w.liveL l = some (e, s)) : w.liveC e.cif = some s := by
  unfold liveL at hl
  split at hl
  · cases hl
  · rename_i e' _
    split at hl
    · cases hl
    · cases hc : w.liveC e'.cif with
      | none => simp [hc] at hl
      | some s' => simp [hc] at hl; obtain ⟨rfl, rfl⟩ := hl; exact hc

theorem liveI_liveC {w : World} {i : Nat} {e : ITE} {s : Store} (hl : w.liveI i = some (e, s)) : w.liveC e.cif = some s := by
  unfold liveI at hl
  split at hl
  · cases hl
  · rename_i e' _
    split at hl
    · cases hl
    · cases hc : w.liveC e'.cif with
      | none => simp [hc] at hl
      | some s' => simp [hc] at hl; obtain ⟨rfl, rfl⟩ := hl; exact hc

theorem getD_set_cifs (cifs : List (Option Store)) (c c' : Nat) (s s1 : Store) (hl : cifs.getD c none = some s) :
    (cifs.set c (some s1)).getD c' none = if c' = c then some s1 else cifs.getD c' none := by
  have hc : c < cifs.length := by
    rcases Nat.lt_or_ge c cifs.length with hlt | hge
    · exact hlt
    · have : cifs.getD c none = none := by simp [List.getD, List.getElem?_eq_none hge]
      rw [this] at hl; cases hl
  by_cases h : c' = c
  · subst h; simp [List.getD, hc]
  · simp [List.getD, h, List.getElem?_set_ne (Ne.symm h)]

/-- replacing the store of one live slot by a related one relates the whole tables -/
theorem setCif_rel {R : Store → Store → Prop} (hr : ∀ s, R s s) (w : World) (c : Nat) (s s1 : Store)
    (hl : w.liveC c = some s) (h : R s s1) (c' : Nat) :
    SlotRel R (w.cifs.getD c' none) ((w.setCif c s1).cifs.getD c' none) := by
  unfold setCif
  simp only []
  rw [getD_set_cifs w.cifs c c' s s1 hl]
  by_cases hc : c' = c
  · subst hc; simp only [if_true]
    unfold liveC at hl; rw [hl]; exact h
  · simp only [hc, if_false]; exact SlotRel.refl hr _


theorem codeOf_error {α} (r : Except Code α) (h : codeOf r ≠ CIF_OK) : ∃ c, r = .error c := by
  cases r with
  | ok a => exact absurd rfl h
  | error c => exact ⟨c, rfl⟩

/-- a call that reports an error and is atomic on its CIF leaves every CIF of the history as it was -/
theorem rel_of_error {α} (w : World) (c : Nat) (s : Store) (hl : w.liveC c = some s) (r : R α)
    (hs : ∀ e, r.2 = .error e → Same s r.1) (hne : some (codeOf r.2) ≠ some CIF_OK) (c' : Nat) :
    SlotRel Same (w.cifs.getD c' none) ((w.setCif c r.1).cifs.getD c' none) := by
  obtain ⟨e, he⟩ := codeOf_error r.2 (fun h => hne (by rw [h]))
  exact setCif_rel Same.refl w c s r.1 hl (hs e he) c'

-- the pure queries do not touch the store
theorem getBlock_fst (s : Store) (n : Name) : (getBlock s n).1 = s := by unfold getBlock; split <;> rfl
theorem allBlocks_fst (s : Store) : (allBlocks s).1 = s := rfl
theorem getFrame_fst (s : Store) (h : CH) (n : Option Name) : (getFrame s h n).1 = s := by
  unfold getFrame; split
  · rfl
  · split
    · rfl
    · split <;> rfl
theorem allFrames_fst (s : Store) (h : CH) : (allFrames s h).1 = s := rfl
theorem getCategoryLoop_fst (s : Store) (h : CH) (cat : Option Str) : (getCategoryLoop s h cat).1 = s := by
  unfold getCategoryLoop; split
  · rfl
  · split <;> rfl
theorem getItemLoop_fst (s : Store) (h : CH) (n : Option Name) : (getItemLoop s h n).1 = s := by
  unfold getItemLoop; split
  · rfl
  · split <;> rfl
theorem getValue_fst (s : Store) (h : CH) (n : Option Name) : (getValue s h n).1 = s := by
  unfold getValue; split
  · rfl
  · split
    · rfl
    · split <;> rfl


/-- every managed CIF of the history satisfies the invariant (content and every snapshot a rollback could restore) -/
def WInv (w : World) : Prop := ∀ c s, w.cifs.getD c none = some s → InvS s

theorem WInv.empty : WInv {} := by intro c s h; simp [List.getD] at h

theorem WInv.of_cifs {w w' : World} (h : WInv w) (he : w'.cifs = w.cifs) : WInv w' := by
  intro c s hs; rw [he] at hs; exact h c s hs

theorem getD_set_any (cifs : List (Option Store)) (c c' : Nat) (x : Option Store) (s : Store)
    (h : (cifs.set c x).getD c' none = some s) : x = some s ∨ cifs.getD c' none = some s := by
  by_cases hc : c' = c
  · subst hc
    by_cases hl : c' < cifs.length
    · left; simpa [List.getD, hl] using h
    · right
      have : cifs.set c' x = cifs := List.set_eq_of_length_le (by omega)
      rw [this] at h; exact h
  · right
    simpa [List.getD, List.getElem?_set_ne (Ne.symm hc)] using h

theorem WInv.setCif {w : World} (h : WInv w) (c : Nat) (s1 : Store) (h1 : InvS s1) : WInv (w.setCif c s1) := by
  intro c' s hs
  unfold World.setCif at hs
  rcases getD_set_any _ _ _ _ _ hs with hx | hx
  · cases hx; exact h1
  · exact h c' s hx

theorem WInv.live {w : World} (h : WInv w) {c : Nat} {s : Store} (hl : w.liveC c = some s) : InvS s := h c s hl

theorem getD_set_ne' (l : List (Option Store)) (c c' : Nat) (x : Option Store) (h : c' ≠ c) : (l.set c x).getD c' none = l.getD c' none := by
  simp [List.getD, List.getElem?_set_ne (Ne.symm h)]

end CifModel.Store
