import CifModel.Lemmas.ParseCBLayout
import CifModel.Model.ParseCBDup
/-
  CifModel.Lemmas.ParseCBLayoutDup — the layout relation of Lemmas/ParseCBLayout.lean for the productions with the duplicate
  diagnostics (Model/ParseCBDup.lean): two runs of `parseCBD` on token sequences that differ in layout only stay related; same
  result, same stored CIF, same callbacks other than whitespace callbacks (error callbacks included).
-/
set_option linter.unusedSimpArgs false
set_option linter.unusedVariables false

namespace CifModel.Lemmas.ParseCB
open CifModel.ParseCB

variable {p : Prog} {all all' : List Tok}

theorem report_rel {s s' : St} (h : Rel p all all' s s') (code : Nat) : Rel p all all' (report s code) (report s' code) :=
  note_rel h _ rfl

theorem headerD_rel (norm : Str → Str) (cont : Bool) (c : Content) : ∀ (fuel : Nat) (s s' : St) (acc : List (Option Str)),
    Rel p all all' s s' →
    (headerLoopD norm cont c fuel s' acc).1 = (headerLoopD norm cont c fuel s acc).1
    ∧ (headerLoopD norm cont c fuel s' acc).2.1 = (headerLoopD norm cont c fuel s acc).2.1
    ∧ Rel p all all' (headerLoopD norm cont c fuel s acc).2.2 (headerLoopD norm cont c fuel s' acc).2.2
  | 0, s, s', acc, h => ⟨rfl, rfl, h⟩
  | fuel + 1, s, s', acc, h => by
    obtain ⟨n1, n2⟩ := nextToken_rel h
    have hcur := cur_rel n2
    have hsc := nextToken_scanned_or s
    simp only [headerLoopD]
    rw [n1, n2.skip, hcur.1]
    by_cases hn : (nextToken s).1 = TokType.name
    · simp only [hn, if_true]
      have hs1 : Rel p all all' (if (nextToken s).2.skip ≤ 0 then note (nextToken s).2 (.dataname (cur (nextToken s).2).text) else (nextToken s).2)
          (if (nextToken s).2.skip ≤ 0 then note (nextToken s').2 (.dataname (cur (nextToken s).2).text) else (nextToken s').2) := by
        by_cases hk : (nextToken s).2.skip ≤ 0
        · simp only [hk, if_true]; exact note_rel n2 _ rfl
        · simp only [hk, if_false]; exact n2
      have hsc1 : (if (nextToken s).2.skip ≤ 0 then note (nextToken s).2 (.dataname (cur (nextToken s).2).text) else (nextToken s).2).scanned = true
          ∨ (if (nextToken s).2.skip ≤ 0 then note (nextToken s).2 (.dataname (cur (nextToken s).2).text) else (nextToken s).2).toks = [] := by
        by_cases hk : (nextToken s).2.skip ≤ 0
        · simp only [hk, if_true]; exact hsc
        · simp only [hk, if_false]; exact hsc
      by_cases hd : ((cont && hasName norm c (cur (nextToken s).2).text) || acc.any (slotIs norm (cur (nextToken s).2).text)) = true
      · simp only [hd, if_true]
        exact headerD_rel norm cont c fuel _ _ _ (consume_rel (report_rel hs1 _) hsc1)
      · simp only [hd, Bool.false_eq_true, if_false]
        exact headerD_rel norm cont c fuel _ _ _ (consume_rel hs1 hsc1)
    · simp only [hn, if_false]; exact ⟨(by tr), (by tr), n2⟩

theorem itemStepD_rel (slot : Option Str) (r : Int) (v : V) {s s' : St} (h : Rel p all all' s s') :
    (itemStepD p slot r v s').1 = (itemStepD p slot r v s).1 ∧ Rel p all all' (itemStepD p slot r v s).2 (itemStepD p slot r v s').2 := by
  cases slot with
  | none => exact ⟨rfl, h⟩
  | some nm => exact itemStep_rel nm r v h

theorem packetsD_rel (loopH : Bool) (slots : List (Option Str)) : ∀ (fuel : Nat) (s s' : St) (k : PkSt), Rel p all all' s s' →
    (packetsLoopD p loopH slots fuel s' k).1 = (packetsLoopD p loopH slots fuel s k).1
    ∧ Rel p all all' (packetsLoopD p loopH slots fuel s k).2.1 (packetsLoopD p loopH slots fuel s' k).2.1
    ∧ (packetsLoopD p loopH slots fuel s' k).2.2 = (packetsLoopD p loopH slots fuel s k).2.2
  | 0, s, s', k, h => ⟨rfl, h, rfl⟩
  | fuel + 1, s, s', k, h => by
    have ih := packetsD_rel loopH slots fuel
    obtain ⟨n1, n2⟩ := nextToken_rel h
    unfold packetsLoopD
    simp only [n1]
    by_cases hval : isValueStart (nextToken s).1 = true
    · simp only [hval, if_true]
      have hs1 : (if k.col = 0 then pktStartStep p (nextToken s').2 else (OK, (nextToken s').2)).1
            = (if k.col = 0 then pktStartStep p (nextToken s).2 else (OK, (nextToken s).2)).1
          ∧ Rel p all all' (if k.col = 0 then pktStartStep p (nextToken s).2 else (OK, (nextToken s).2)).2
              (if k.col = 0 then pktStartStep p (nextToken s').2 else (OK, (nextToken s').2)).2 := by
        by_cases h0 : k.col = 0
        · simp only [h0, if_true]; exact pktStart_rel n2
        · simp only [h0, if_false]; exact ⟨(by tr), n2⟩
      generalize (if k.col = 0 then pktStartStep p (nextToken s).2 else (OK, (nextToken s).2)) = s1 at hs1 ⊢
      generalize (if k.col = 0 then pktStartStep p (nextToken s').2 else (OK, (nextToken s').2)) = s1' at hs1 ⊢
      obtain ⟨e1, e2⟩ := hs1
      rw [e1]
      by_cases h1 : s1.1 = OK
      · simp only [h1, ne_eq, not_true_eq_false, if_false]
        obtain ⟨a, b, c⟩ := pv_rel fuel e2
        rw [a, b]
        obtain ⟨i1, i2⟩ := itemStepD_rel (p := p) (slots.getD k.col none) (parseValue fuel s1.2).1 (parseValue fuel s1.2).2.1 c
        generalize itemStepD p (slots.getD k.col none) (parseValue fuel s1.2).1 (parseValue fuel s1.2).2.1 (parseValue fuel s1.2).2.2 = it at i1 i2 ⊢
        generalize itemStepD p (slots.getD k.col none) (parseValue fuel s1.2).1 (parseValue fuel s1.2).2.1 (parseValue fuel s1'.2).2.2 = it' at i1 i2 ⊢
        rw [i1]
        by_cases h2 : it.1 = OK
        · simp only [h2, not_true_eq_false, if_false]
          by_cases hcol : (k.col + 1) % slots.length = 0
          · simp only [hcol, if_true]
            obtain ⟨pe1, pe2, pe3⟩ := pktEnd_rel (p := p) (List.zip (slots.filterMap id)
              (if (slots.getD k.col none).isSome then k.row ++ [(parseValue fuel s1.2).2.1] else k.row)) i2
            generalize pktEndStep p (List.zip (slots.filterMap id)
              (if (slots.getD k.col none).isSome then k.row ++ [(parseValue fuel s1.2).2.1] else k.row)) it.2 = pe at pe1 pe2 pe3 ⊢
            generalize pktEndStep p (List.zip (slots.filterMap id)
              (if (slots.getD k.col none).isSome then k.row ++ [(parseValue fuel s1.2).2.1] else k.row)) it'.2 = pe' at pe1 pe2 pe3 ⊢
            rw [pe1, pe3]
            by_cases h3 : pe.1 = OK
            · simp only [h3, not_true_eq_false, if_false]
              exact ih _ _ _ pe2
            · simp only [h3, not_false_eq_true, if_true]; exact ⟨(by tr), pe2, (by tr)⟩
          · simp only [hcol, if_false]
            exact ih _ _ _ i2
        · simp only [h2, not_false_eq_true, if_true]; exact ⟨(by tr), i2, (by tr)⟩
      · simp only [h1, ne_eq, not_false_eq_true, if_true]; exact ⟨(by tr), e2, (by tr)⟩
    · simp only [hval, Bool.false_eq_true, if_false]
      split
      · exact ⟨rfl, n2, rfl⟩
      · split
        · exact ⟨rfl, n2, rfl⟩
        · split
          · exact ⟨rfl, n2, rfl⟩
          · exact ⟨rfl, n2, rfl⟩

theorem loopD_rel (norm : Str → Str) (fuel : Nat) (cont : Bool) (c : Content) {s s' : St} (h : Rel p all all' s s') :
    (parseLoopD p norm fuel cont c s').1 = (parseLoopD p norm fuel cont c s).1
    ∧ Rel p all all' (parseLoopD p norm fuel cont c s).2.1 (parseLoopD p norm fuel cont c s').2.1
    ∧ (parseLoopD p norm fuel cont c s').2.2 = (parseLoopD p norm fuel cont c s).2.2 := by
  obtain ⟨a, b, cc⟩ := headerD_rel (p := p) (all := all) (all' := all') norm cont c fuel _ _ [] (inc_rel h)
  unfold parseLoopD
  generalize headerLoopD norm cont c fuel (inc s) [] = hd at a b cc ⊢
  generalize headerLoopD norm cont c fuel (inc s') [] = hd' at a b cc ⊢
  simp only [a, b]
  by_cases h1 : hd.1 = OK
  · simp only [h1, ne_eq, not_true_eq_false, if_false]
    by_cases h2 : (hd.2.1.filterMap id).isEmpty = true
    · simp only [h2, if_true]
      obtain ⟨q1, q2⟩ := loopEnd_rel (p := p) none MALFORMED cc
      exact ⟨q1, q2, (by tr)⟩
    · simp only [h2, Bool.false_eq_true, if_false]
      obtain ⟨e1, e2, e3⟩ := loopStart_rel (p := p) cont (hd.2.1.filterMap id) cc
      generalize loopStartStep p cont (hd.2.1.filterMap id) hd.2.2 = ls at e1 e2 e3 ⊢
      generalize loopStartStep p cont (hd.2.1.filterMap id) hd'.2.2 = ls' at e1 e2 e3 ⊢
      rw [e3, e1]
      by_cases h3 : ls.2.2.2 = true
      · simp only [h3, if_true]
        obtain ⟨k1, k2, k3⟩ := packetsD_rel (p := p) ls.2.2.1 hd.2.1 fuel _ _ { col := 0, row := [], havePk := false, stored := [] } e2
        rw [k1, k3]
        obtain ⟨q1, q2⟩ := loopEnd_rel (p := p) (if ls.2.2.1 = true then some (hd.2.1.filterMap id) else none)
          (packetsLoopD p ls.2.2.1 hd.2.1 fuel ls.2.1 { col := 0, row := [], havePk := false, stored := [] }).1 k2
        exact ⟨q1, q2, (by tr)⟩
      · simp only [h3, Bool.false_eq_true, if_false]
        obtain ⟨q1, q2⟩ := loopEnd_rel (p := p) (if ls.2.2.1 = true then some (hd.2.1.filterMap id) else none) ls.1 e2
        exact ⟨q1, q2, (by tr)⟩
  · simp only [h1, ne_eq, not_false_eq_true, if_true]
    obtain ⟨q1, q2⟩ := loopEnd_rel (p := p) none hd.1 cc
    exact ⟨q1, q2, (by tr)⟩

theorem containerD_rel (norm : Str → Str) (m : Int) : ∀ (fuel : Nat),
    (∀ cont isBlock code s s' c0, Rel p all all' s s' →
      Out3 p all all' (parseContainerD p norm m fuel cont isBlock code s c0) (parseContainerD p norm m fuel cont isBlock code s' c0))
    ∧ (∀ cont isBlock s s' c, Rel p all all' s s' →
      Out3 p all all' (elemsLoopD p norm m fuel cont isBlock s c) (elemsLoopD p norm m fuel cont isBlock s' c))
  | 0 => by
    constructor
    · intro cont isBlock code s s' c0 h; simp only [parseContainerD]; exact ⟨rfl, h, rfl⟩
    · intro cont isBlock s s' c h; simp only [elemsLoopD]; exact ⟨rfl, h, rfl⟩
  | fuel + 1 => by
    obtain ⟨ihc, ihe⟩ := containerD_rel norm m fuel
    constructor
    · intro cont isBlock code s s' c0 h
      obtain ⟨a1, a2⟩ := contStart_rel (p := p) cont isBlock code h
      unfold parseContainerD
      generalize contStartStep p cont isBlock code s = st at a1 a2 ⊢
      generalize contStartStep p cont isBlock code s' = st' at a1 a2 ⊢
      simp only [a1]
      by_cases h1 : st.1 = OK
      · simp only [h1, ne_eq, not_true_eq_false, if_false]
        obtain ⟨e1, e2, e3⟩ := ihe cont isBlock st.2 st'.2 c0 a2
        rw [e1, e3]
        exact containerEnd_rel cont isBlock code _ _ e2
      · simp only [h1, ne_eq, not_false_eq_true, if_true]
        exact containerEnd_rel cont isBlock code _ _ a2
    · intro cont isBlock s0 s0' c h
      obtain ⟨n1, n2⟩ := nextToken_rel h
      have hsc := nextToken_scanned_or s0
      have hcur := cur_rel n2
      have hskip := n2.skip
      unfold elemsLoopD
      generalize nextToken s0 = nt at n1 n2 hsc hcur hskip ⊢
      generalize nextToken s0' = nt' at n1 n2 hcur hskip ⊢
      rcases nt with ⟨ty, s⟩
      rcases nt' with ⟨ty', s'⟩
      dsimp only at n1 n2 hsc hcur hskip ⊢
      subst n1
      rw [hcur.1, hskip]
      cases ty' <;> dsimp only
      case blockHead => cases isBlock <;> exact ⟨rfl, n2, rfl⟩
      case frameHead =>
        by_cases hcond : (!cont ∨ s.skip > 0)
        · simp only [hcond, if_true]
          obtain ⟨f1, f2, f3⟩ := ihc false false (cur s).text _ _ Content.empty (consume_rel n2 hsc)
          exact seq_rel _ _ _ _ _ _ _ f1 f2 (fun _ => ihe cont isBlock _ _ c f2)
        · simp only [hcond, if_false]
          by_cases hm0 : m = 0
          · simp only [hm0, if_true]; exact ⟨rfl, n2, rfl⟩
          · simp only [hm0, if_false]
            by_cases hm1 : m = 1 ∧ (!isBlock) = true
            · simp only [hm1, and_self, if_true]; exact ⟨rfl, n2, rfl⟩
            · simp only [hm1, if_false]
              cases hfind : findC norm c.frames (cur s).text with
              | some old =>
                dsimp only
                obtain ⟨f1, f2, f3⟩ := ihc true false old.code _ _ ⟨old.frames, old.loops⟩ (consume_rel (report_rel n2 _) hsc)
                rw [f3]
                exact seq_rel _ _ _ _ _ _ _ f1 f2 (fun _ => ihe cont isBlock _ _ _ f2)
              | none =>
                dsimp only
                obtain ⟨f1, f2, f3⟩ := ihc true false (cur s).text _ _ Content.empty (consume_rel n2 hsc)
                rw [f3]
                exact seq_rel _ _ _ _ _ _ _ f1 f2 (fun _ => ihe cont isBlock _ _ _ f2)
      case frameTerm => cases isBlock <;> exact ⟨rfl, consume_rel n2 hsc, rfl⟩
      case loopKw =>
        have hs1 : Rel p all all' (consume (if s.skip ≤ 0 then note s (Ev.keyword (cur s).text) else s))
            (consume (if s.skip ≤ 0 then note s' (Ev.keyword (cur s).text) else s')) := by
          by_cases hk : s.skip ≤ 0
          · simp only [hk, if_true]; exact consume_rel (note_rel n2 _ rfl) hsc
          · simp only [hk, if_false]; exact consume_rel n2 hsc
        obtain ⟨l1, l2, l3⟩ := loopD_rel (p := p) norm fuel cont c hs1
        rw [l3]
        exact seq_rel _ _ _ _ _ _ _ l1 l2 (fun _ => ihe cont isBlock _ _ _ l2)
      case name =>
        by_cases hpos : s.skip > 0
        · simp only [hpos, if_true]
          obtain ⟨i1, i2, i3⟩ := item_rel (p := p) fuel cont none (consume_rel n2 hsc)
          exact seq_rel _ _ _ _ _ _ _ i1 i2 (fun _ => ihe cont isBlock _ _ _ i2)
        · simp only [hpos, if_false]
          by_cases hd : (cont && hasName norm c (cur s).text) = true
          · simp only [hd, if_true]
            obtain ⟨i1, i2, i3⟩ := item_rel (p := p) fuel cont none
              (report_rel (consume_rel (note_rel n2 (.dataname (cur s).text) rfl) hsc) CifModel.Gen.ErrCodes.CIF_DUP_ITEMNAME)
            exact seq_rel _ _ _ _ _ _ _ i1 i2 (fun _ => ihe cont isBlock _ _ _ i2)
          · simp only [hd, Bool.false_eq_true, if_false]
            obtain ⟨i1, i2, i3⟩ := item_rel (p := p) fuel cont (some (cur s).text)
              (consume_rel (note_rel n2 (.dataname (cur s).text) rfl) hsc)
            rw [i3]
            exact seq_rel _ _ _ _ _ _ _ i1 i2 (fun _ => ihe cont isBlock _ _ _ i2)
      case end_ => cases isBlock <;> exact ⟨rfl, n2, rfl⟩
      all_goals exact ⟨rfl, n2, rfl⟩

theorem blocksD_rel (norm : Str → Str) (m : Int) (cif : Bool) : ∀ (fuel : Nat) (s s' : St) (acc : List Container), Rel p all all' s s' →
    Out3 p all all' (blocksLoopD p norm m cif fuel s acc) (blocksLoopD p norm m cif fuel s' acc)
  | 0, s, s', acc, h => ⟨rfl, h, rfl⟩
  | fuel + 1, s0, s0', acc, h => by
    obtain ⟨n1, n2⟩ := nextToken_rel h
    have hsc := nextToken_scanned_or s0
    have hcur := cur_rel n2
    have hskip := n2.skip
    unfold blocksLoopD
    generalize nextToken s0 = nt at n1 n2 hsc hcur hskip ⊢
    generalize nextToken s0' = nt' at n1 n2 hcur hskip ⊢
    rcases nt with ⟨ty, s⟩
    rcases nt' with ⟨ty', s'⟩
    dsimp only at n1 n2 hsc hcur hskip ⊢
    subst n1
    rw [hcur.1, hskip]
    cases ty' <;> dsimp only
    case blockHead =>
      by_cases hb : (cif && decide (s.skip ≤ 0)) = true
      · simp only [hb, if_true]
        cases hfind : findC norm acc (cur s).text with
        | some old =>
          dsimp only
          obtain ⟨b1, b2, b3⟩ := (containerD_rel (p := p) (all := all) (all' := all') norm m fuel).1 true true old.code _ _
            ⟨old.frames, old.loops⟩ (consume_rel (report_rel n2 _) hsc)
          rw [b3]
          exact seq_rel _ _ _ _ _ _ _ b1 b2 (fun _ => blocksD_rel norm m cif fuel _ _ _ b2)
        | none =>
          dsimp only
          obtain ⟨b1, b2, b3⟩ := (containerD_rel (p := p) (all := all) (all' := all') norm m fuel).1 true true (cur s).text _ _
            Content.empty (consume_rel n2 hsc)
          rw [b3]
          exact seq_rel _ _ _ _ _ _ _ b1 b2 (fun _ => blocksD_rel norm m cif fuel _ _ _ b2)
      · simp only [hb, Bool.false_eq_true, if_false]
        obtain ⟨b1, b2, b3⟩ := (containerD_rel (p := p) (all := all) (all' := all') norm m fuel).1 false true (cur s).text _ _
          Content.empty (consume_rel n2 hsc)
        exact seq_rel _ _ _ _ _ _ _ b1 b2 (fun _ => blocksD_rel norm m cif fuel _ _ _ b2)
    case end_ => exact ⟨rfl, n2, rfl⟩
    all_goals exact ⟨rfl, n2, rfl⟩

theorem cifD_rel (norm : Str → Str) (m : Int) (cif : Bool) (fuel : Nat) {s s' : St} (h : Rel p all all' s s') :
    Out3 p all all' (parseCifD p norm m cif fuel s) (parseCifD p norm m cif fuel s') := by
  obtain ⟨q1, q2⟩ := site_rel h (.cifStart cif) rfl (some 1) (some 1)
  unfold parseCifD
  rw [h.n]
  by_cases hend : p s.n (.cifStart cif) = END
  · simp only [hend, if_true]; exact ⟨rfl, push_rel h _ rfl, rfl⟩
  · simp only [hend, if_false]
    generalize site p s (.cifStart cif) (some 1) (some 1) = st at q1 q2 ⊢
    generalize site p s' (.cifStart cif) (some 1) (some 1) = st' at q1 q2 ⊢
    rw [q1]
    by_cases h2 : st.1 = OK
    · simp only [h2, if_true]
      obtain ⟨b1, b2, b3⟩ := blocksD_rel (p := p) norm m cif fuel _ _ [] q2
      rw [b1, b3]
      obtain ⟨c1, c2⟩ := cifEnd_rel (p := p) cif (blocksLoopD p norm m cif fuel st.2 []).1 b2
      exact ⟨c1, c2, rfl⟩
    · simp only [h2, if_false]
      obtain ⟨c1, c2⟩ := cifEnd_rel (p := p) cif st.1 q2
      exact ⟨c1, c2, rfl⟩

/-- two layouts of one token sequence, the whole parse with the duplicate diagnostics (as `cif_layout`) -/
theorem cifD_layout (p : Prog) (norm : Str → Str) (m : Int) (cif : Bool) (fuel : Nat) {toks toks' : List Tok} (h : SkelL toks toks') :
    (parseCifD p norm m cif fuel (St.init toks')).1 = (parseCifD p norm m cif fuel (St.init toks)).1
    ∧ (parseCifD p norm m cif fuel (St.init toks')).2.2 = (parseCifD p norm m cif fuel (St.init toks)).2.2
    ∧ (parseCifD p norm m cif fuel (St.init toks')).2.1.log.reverse.filter (fun e => !isWsEv e)
        = (parseCifD p norm m cif fuel (St.init toks)).2.1.log.reverse.filter (fun e => !isWsEv e)
    ∧ ∃ marks : List Int,
        marks.length + (pend (parseCifD p norm m cif fuel (St.init toks)).2.1).length = toks.length
        ∧ (parseCifD p norm m cif fuel (St.init toks)).2.1.log.reverse.filter isWsEv
            = (List.zipWith segEvents marks (toks.map (·.pre))).flatten
        ∧ (parseCifD p norm m cif fuel (St.init toks')).2.1.log.reverse.filter isWsEv
            = (List.zipWith segEvents marks (toks'.map (·.pre))).flatten
        ∧ (NoSkipP p → ∀ d ∈ marks, d ≤ 0) := by
  obtain ⟨r1, r2, r3⟩ := cifD_rel (p := p) norm m cif fuel (Rel.init p h)
  obtain ⟨sc, g1, g2, g3, g4⟩ := r2.ghost
  refine ⟨r1, r3, g1.struct, sc.reverse.map (·.1), ?_, ?_, ?_, ?_⟩
  · have := congrArg List.length g2
    simp only [List.length_append, List.length_map, List.length_reverse] at this ⊢
    omega
  · rw [g1.ws1]
    conv => rhs; rw [g2]
    exact (congrArg List.flatten (zipWith_prefix segEvents (fun x => x.1) (fun x => x.2.1) sc.reverse _)).symm
  · rw [g1.ws2]
    conv => rhs; rw [g3]
    exact (congrArg List.flatten (zipWith_prefix segEvents (fun x => x.1) (fun x => x.2.2) sc.reverse _)).symm
  · intro hp d hd
    obtain ⟨x, hx, rfl⟩ := List.mem_map.mp hd
    exact (g4 hp).2 x (List.mem_reverse.mp hx)

end CifModel.Lemmas.ParseCB
