import CifModel.Lemmas.ParserBasic
import CifModel.Lemmas.LexerBasic
/-
  Lemmas/ParserDet — PREFIX DETERMINISM of the reporting monads `L` (scanner) and `P` (parser):

    the run of an action under an arbitrary callback policy `pol` is determined by its run under accept-all:
    if `pol` answers 0 to every report of the accept-all run, the two runs coincide; otherwise the run under `pol` ends at the
    OLDEST report that `pol` answers non-zero, with exactly that answer, having logged exactly the reports up to it.

  `DetL` / `DetP` state this for one action; they are closed under `pure`, `bind`, `report`, `fail`, conditionals and recursion,
  so every scan function and every production has the property (Lemmas/ParserDetLex, Lemmas/ParserDetProd).
-/
namespace CifModel.Model.Parser
open CifModel CifModel.Model CifModel.Model.Lexer

/-- the oldest report of `d` (newest first, stacked on a log of length `n`) that `pol` answers non-zero, together with the
    reports older than it -/
def firstNZ (pol : Policy) (n : Nat) : List Report → Option (Report × List Report)
  | [] => none
  | r :: rest =>
    match firstNZ pol n rest with
    | some x => some x
    | none => if pol (n + rest.length) r = 0 then none else some (r, rest)

theorem firstNZ_append (pol : Policy) (n : Nat) (d1 : List Report) : ∀ d2 : List Report,
    firstNZ pol n (d2 ++ d1) =
      match firstNZ pol n d1 with
      | some x => some x
      | none => (firstNZ pol (n + d1.length) d2).map (fun x => (x.1, x.2 ++ d1))
  | [] => by
    simp only [List.nil_append, firstNZ]
    cases firstNZ pol n d1 <;> simp
  | r :: d2 => by
    have ih := firstNZ_append pol n d1 d2
    simp only [List.cons_append, firstNZ, ih]
    cases h1 : firstNZ pol n d1 with
    | some x => simp
    | none =>
      simp only []
      cases h2 : firstNZ pol (n + d1.length) d2 with
      | some y => simp
      | none =>
        simp only [Option.map_none, List.length_append]
        have e : n + (d2.length + d1.length) = n + d1.length + d2.length := by omega
        rw [e]
        split <;> simp

/-! ### the scanner monad -/

def logOfL {α} : Res α → List Report
  | .ok _ l => l
  | .abort _ l => l

structure DetL {α} (m : L α) : Prop where
  run : ∀ (pol : Policy) (log : List Report), ∃ d, logOfL (m acceptAll log) = d ++ log ∧ (∀ r ∈ d, r.code ≠ 0) ∧
      match firstNZ pol log.length d with
      | none => m pol log = m acceptAll log
      | some x => m pol log = .abort (pol (log.length + x.2.length) x.1) (x.1 :: x.2 ++ log)

theorem DetL.pure {α} (a : α) : DetL (L.pure a) :=
  ⟨fun _ log => ⟨[], by simp [L.pure, logOfL], by simp, by simp [firstNZ, L.pure]⟩⟩

theorem DetL.report (code : Code) (line col : Nat) (hc : code ≠ 0) : DetL (Lexer.report code line col) := by
  constructor
  intro pol log
  refine ⟨[⟨code, line, col⟩], by simp [Lexer.report, acceptAll, logOfL], by simpa using hc, ?_⟩
  simp only [firstNZ, List.length_nil, Nat.add_zero]
  by_cases h : pol log.length ⟨code, line, col⟩ = 0
  · simp [h, Lexer.report, acceptAll]
  · simp [h, Lexer.report]

theorem DetL.reportIf (c : Bool) (code : Code) (line col : Nat) (hc : code ≠ 0) : DetL (Lexer.reportIf c code line col) := by
  cases c
  · exact DetL.pure ()
  · exact DetL.report code line col hc

theorem DetL.ite {α} {c : Prop} [Decidable c] {a b : L α} (ha : DetL a) (hb : DetL b) : DetL (if c then a else b) := by
  split <;> assumption

theorem DetL.bind {α β} {m : L α} {f : α → L β} (hm : DetL m) (hf : ∀ a, DetL (f a)) : DetL (L.bind m f) := by
  constructor
  intro pol log
  obtain ⟨d1, e1, p1, r1⟩ := hm.run pol log
  cases hA : m acceptAll log with
  | abort rv la =>
    rw [hA] at e1 r1
    simp only [logOfL] at e1
    refine ⟨d1, by simp [L.bind_abort hA, logOfL, e1], p1, ?_⟩
    cases hz : firstNZ pol log.length d1 with
    | none =>
      rw [hz] at r1; simp only [] at r1 ⊢
      rw [L.bind_abort r1, L.bind_abort hA]
    | some x =>
      rw [hz] at r1; simp only [] at r1 ⊢
      rw [L.bind_abort r1]
  | ok a la =>
    rw [hA] at e1 r1
    simp only [logOfL] at e1
    obtain ⟨d2, e2, p2, r2⟩ := (hf a).run pol la
    refine ⟨d2 ++ d1, ?_, ?_, ?_⟩
    · rw [L.bind_ok hA, e2, e1, List.append_assoc]
    · intro r hr
      rcases List.mem_append.mp hr with h | h
      · exact p2 r h
      · exact p1 r h
    · rw [firstNZ_append]
      cases hz : firstNZ pol log.length d1 with
      | some x =>
        rw [hz] at r1; simp only [] at r1 ⊢
        rw [L.bind_abort r1]
      | none =>
        rw [hz] at r1; simp only [] at r1 ⊢
        have hl : la.length = log.length + d1.length := by rw [e1, List.length_append]; omega
        rw [hl] at r2
        rw [L.bind_ok r1, L.bind_ok hA]
        cases hz2 : firstNZ pol (log.length + d1.length) d2 with
        | none => rw [hz2] at r2; simpa using r2
        | some y =>
          rw [hz2] at r2
          simp only [Option.map_some] at r2 ⊢
          rw [r2, e1]
          simp [List.append_assoc, Nat.add_assoc, Nat.add_comm]

end CifModel.Model.Parser
