import CifModel.Lemmas.NamesEntry
import CifModel.Lemmas.NormBuf
import CifModel.Lemmas.StoreRefine
/-
  C09 at the public entry points.  The entry-point models of other groups take the name argument as a PARAMETER (`Store.Name`:
  normalised key, original spelling, verdict; tables / packets: a normaliser `Str → Option Str`).  Here
  * `entryName` / `entryItemKey` / `entryTableKey` compute that parameter the way the C does — by running the buffer-level models of
    `cif_normalize_name` / `_item_name` / `_table_index` (Model/NormalizeBuf.lean) on the caller's NUL-terminated string with
    `namelen = -1` and reading the C string at the result block — and are shown equal to `apiName` / `itemNorm` / `tableNorm`
    (Lemmas/NamesEntry.lean), the string-level forms in which `C09_code_table` is stated;
  * for each name-taking entry point, what it stores when the name is built that way.
-/
namespace CifModel.Lemmas.Names
open CifModel CifModel.Model CifModel.Model.NormBuf CifModel.Lemmas.NormBuf CifModel.Gen.ErrCodes

/-- the `Store.Name` an entry point of cif.c / container.c / loop.c works with: `cif_normalize_name(code, -1, &buf, INVALID)` resp.
    `cif_normalize_item_name` at buffer level; the key is the C string at the block returned -/
def entryName (I : IcuOps) (forItem : Bool) (mem : Str) : Store.Name :=
  match (normalizeNameBuf I cGuess forItem (some mem) (-1) CIF_ERROR true 8).2 with
  | .ok b => { key := b.cstr, orig := cstrOf mem, valid := true }
  | .error _ => { key := [], orig := cstrOf mem, valid := false }

/-- the normaliser of a packet as the C computes it (`cif_normalize_item_name(name, -1, …)`) -/
def entryItemKey (I : IcuOps) (mem : Str) : Option Str :=
  match (normalizeNameBuf I cGuess true (some mem) (-1) CIF_ERROR true 8).2 with
  | .ok b => some b.cstr
  | .error _ => none

/-- the normaliser of a table as the C computes it (`cif_normalize_table_index(key, -1, …)`) -/
def entryTableKey (I : IcuOps) (mem : Str) : Option Str :=
  match (normalizeTableIndexBuf I cGuess (some mem) (-1) CIF_ERROR true 8).2 with
  | .ok b => some b.cstr
  | .error _ => none

theorem entryName_eq (U : UnicodeOps) (I : IcuOps) (hI : Contract U I) (forItem : Bool) (mem : Str) (h0 : mem.contains 0 = true)
    (hnf : (0 : CU) ∉ cifNormalize U (cstrOf mem)) :
    (isValidName forItem (cstrOf mem) = true → entryName I forItem mem = apiName U forItem (cstrOf mem)) ∧
    (isValidName forItem (cstrOf mem) = false → (entryName I forItem mem).valid = false ∧ (entryName I forItem mem).orig = cstrOf mem) := by
  obtain ⟨hs, hl⟩ := srcChars_neg mem (-1) (by decide) h0
  obtain ⟨hbad, hgood⟩ := normalizeNameBuf_spec U I hI cGuess forItem mem (-1) _ CIF_ERROR true 8 (by decide) h0 hs
  rw [hl] at hgood
  constructor
  · intro hv
    obtain ⟨cap, e, _⟩ := hgood hv
    simp only [entryName, e, apiName, hv, cstr_of_terminated _ hnf cap]
  · intro hv
    simp [entryName, hbad hv]

theorem entryItemKey_eq (U : UnicodeOps) (I : IcuOps) (hI : Contract U I) (mem : Str) (h0 : mem.contains 0 = true)
    (hnf : (0 : CU) ∉ cifNormalize U (cstrOf mem)) : entryItemKey I mem = itemNorm U (cstrOf mem) := by
  obtain ⟨hs, hl⟩ := srcChars_neg mem (-1) (by decide) h0
  obtain ⟨hbad, hgood⟩ := normalizeNameBuf_spec U I hI cGuess true mem (-1) _ CIF_ERROR true 8 (by decide) h0 hs
  rw [hl] at hgood
  cases hv : isValidName true (cstrOf mem) with
  | true =>
    obtain ⟨cap, e, _⟩ := hgood hv
    simp only [entryItemKey, e, itemNorm, hv, ↓reduceIte, cstr_of_terminated _ hnf cap]
  | false => simp [entryItemKey, hbad hv, itemNorm, hv]

theorem entryTableKey_eq (U : UnicodeOps) (I : IcuOps) (hI : Contract U I) (mem : Str) (h0 : mem.contains 0 = true)
    (hnf : (0 : CU) ∉ U.nfc (cstrOf mem)) : entryTableKey I mem = tableNorm U (cstrOf mem) := by
  obtain ⟨hs, hl⟩ := srcChars_neg mem (-1) (by decide) h0
  obtain ⟨hbad, hgood⟩ := normalizeTableIndexBuf_spec U I hI cGuess mem (-1) _ CIF_ERROR true 8 (by decide) h0 hs
  rw [hl] at hgood
  cases hv : hasDisallowed (cstrOf mem) with
  | false =>
    obtain ⟨t, cap, e, _⟩ := hgood hv
    simp only [entryTableKey, e, tableNorm, hv, Bool.false_eq_true, ↓reduceIte, cstr_of_terminated _ hnf cap]
  | true => simp [entryTableKey, hbad hv, tableNorm, hv]

/-! ### what the store entry points keep of a name -/
open CifModel.Store

/-- cif_create_block, success: exactly one row is added, carrying the key and the spelling of the `Name` given -/
theorem createBlock_row (s s' : Store.Store) (n : Store.Name) (h : CH) (he : createBlock s (some n) = (s', .ok h)) :
    s'.db.blocks = s.db.blocks ++ [{ cid := h.id, name := n.key, nameOrig := n.orig }] ∧ h.code = n.orig ∧ n.valid = true ∧
    s'.db.frames = s.db.frames ∧ s'.db.items = s.db.items := by
  unfold createBlock at he
  simp only [Bool.not_false, Bool.true_and] at he
  split at he
  · cases he
  · rename_i hv
    split at he
    · cases he
    · rename_i s1 hb
      have hs1 : s1 = { s with txn := some s.db } := by
        unfold Store.begin at hb; split at hb <;> simp_all
      split at he
      · cases he
      · rename_i d2 hins
        simp only [Prod.mk.injEq, Except.ok.injEq] at he
        obtain ⟨e1, e2⟩ := he
        have hd2 : d2.blocks = s.db.blocks ++ [{ cid := s1.db.insertContainer.2, name := n.key, nameOrig := n.orig }] ∧
            d2.frames = s.db.frames ∧ d2.items = s.db.items := by
          unfold Db.insertBlock at hins
          split at hins; · cases hins
          split at hins; · cases hins
          split at hins; · cases hins
          cases hins
          subst hs1
          exact ⟨rfl, rfl, rfl⟩
        have hdb : s'.db = d2 := by
          rw [← e1]; subst hs1
          simp [Store.commit, Store.autocommit]
        subst e2
        refine ⟨by rw [hdb]; exact hd2.1, rfl, by simpa using hv, by rw [hdb]; exact hd2.2.1, by rw [hdb]; exact hd2.2.2⟩

/-- cif_container_create_frame, success: exactly one row is added, carrying the parent, the key and the spelling -/
theorem createFrame_row (s s' : Store.Store) (p : CH) (n : Store.Name) (h : CH) (he : createFrame s p (some n) = (s', .ok h)) :
    s'.db.frames = s.db.frames ++ [{ cid := h.id, parent := p.id, name := n.key, nameOrig := n.orig }] ∧ h.code = n.orig ∧ n.valid = true ∧
    s'.db.blocks = s.db.blocks ∧ s'.db.items = s.db.items := by
  unfold createFrame at he
  simp only [Bool.not_false, Bool.true_and] at he
  split at he
  · cases he
  · rename_i hv
    split at he
    · cases he
    · rename_i s1 hb
      have hs1 : s1 = { s with txn := some s.db } := by
        unfold Store.begin at hb; split at hb <;> simp_all
      split at he
      · cases he
      · rename_i d2 hins
        simp only [Prod.mk.injEq, Except.ok.injEq] at he
        obtain ⟨e1, e2⟩ := he
        have hd2 : d2.frames = s.db.frames ++ [{ cid := s1.db.insertContainer.2, parent := p.id, name := n.key, nameOrig := n.orig }] ∧
            d2.blocks = s.db.blocks ∧ d2.items = s.db.items := by
          unfold Db.insertFrame at hins
          split at hins; · cases hins
          split at hins; · cases hins
          split at hins; · cases hins
          split at hins; · cases hins
          split at hins; · cases hins
          cases hins
          subst hs1
          exact ⟨rfl, rfl, rfl⟩
        have hdb : s'.db = d2 := by
          rw [← e1]; subst hs1
          simp [Store.commit, Store.autocommit]
        subst e2
        refine ⟨by rw [hdb]; exact hd2.1, rfl, by simpa using hv, by rw [hdb]; exact hd2.2.1, by rw [hdb]; exact hd2.2.2⟩

/-- the database a successful BEGIN_NESTTX … COMMIT_NESTTX body leaves is the one the body computed -/
theorem nest_ok_db {α} (s s' : Store.Store) (body : Db → Except Code (Db × α)) (a : α) (he : s.nest body = (s', .ok a)) :
    ∃ d2, body s.db = .ok (d2, a) ∧ s'.db = d2 := by
  unfold Store.nest at he
  have hdb : s.beginNest.1.db = s.db := by unfold Store.beginNest; split <;> rfl
  cases hb : body s.beginNest.1.db with
  | error c => simp [hb] at he
  | ok r =>
    obtain ⟨d2, a'⟩ := r
    simp only [hb, Prod.mk.injEq, Except.ok.injEq] at he
    obtain ⟨e1, e2⟩ := he
    subst e2
    refine ⟨d2, by rw [← hdb]; exact hb, ?_⟩
    rw [← e1]
    unfold Store.commitNest Store.beginNest
    split <;> simp [Store.commit, Store.autocommit, Store.release, Store.save]

/-- cif_container_create_loop, success: one `loop_item` row per name, carrying key and spelling, in the order given; every name valid -/
theorem createLoop_rows (s s' : Store.Store) (p : CH) (cat : Option Str) (names : List Store.Name) (l : LH)
    (he : createLoop s p cat names = (s', .ok l)) :
    s'.db.items = s.db.items ++ names.map (fun n => { cid := p.id, name := n.key, nameOrig := n.orig, loopNum := l.loopNum }) ∧
    (∀ n ∈ names, n.valid = true) ∧ s'.db.blocks = s.db.blocks ∧ s'.db.frames = s.db.frames := by
  unfold createLoop at he
  split at he; · cases he
  split at he; · cases he
  rename_i _ hval
  obtain ⟨d2, hbody, hdb⟩ := nest_ok_db s s' _ l he
  unfold createLoopBody at hbody
  split at hbody
  · split at hbody <;> cases hbody
  · rename_i d1 hins
    simp only at hbody
    split at hbody
    · cases hbody
    · rename_i d3 hadd
      simp only [Except.ok.injEq, Prod.mk.injEq] at hbody
      obtain ⟨e1, e2⟩ := hbody
      obtain ⟨i1, _, _, f1, b1, _, _⟩ := addItems_spec names d1 d3 p.id _ hadd
      obtain ⟨c, _, _, _, _, i0, _, f0, b0⟩ := insertLoop_spec s.db d1 p.id cat hins
      subst e2
      refine ⟨?_, ?_, ?_, ?_⟩
      · rw [hdb, ← e1, i1, i0]
      · intro n hn
        have : ¬ (names.any (fun n => !n.valid) = true) := hval
        simp only [List.any_eq_true, Bool.not_eq_true', not_exists, not_and, Bool.not_eq_false] at this
        exact this n hn
      · rw [hdb, ← e1, b1, b0]
      · rw [hdb, ← e1, f1, f0]

/-- cif_create_block on a store outside any transaction whose next container id is fresh: refused as a duplicate exactly when a block row
    with that key exists -/
theorem createBlock_dup_iff (s : Store.Store) (n : Store.Name) (hac : s.autocommit = true) (hfresh : IdFresh s.db) (hv : n.valid = true) :
    (createBlock s (some n)).2 = .error CIF_DUP_BLOCKCODE ↔ s.db.blocks.any (fun b => b.name == n.key) = true := by
  have hb : s.begin = some { s with txn := some s.db } := by simp [Store.begin, hac]
  unfold createBlock
  simp only [Bool.not_false, Bool.true_and, hv, Bool.not_true, Bool.false_eq_true, if_false, hb]
  cases hdup : s.db.blocks.any (fun b => b.name == n.key) with
  | true =>
    have : s.db.insertContainer.1.insertBlock s.db.insertContainer.2 n.key n.orig = none := by
      have hd : s.db.insertContainer.1.blocks = s.db.blocks := rfl
      unfold Db.insertBlock
      rw [hd]
      split
      · rfl
      · simp
    simp [this]
  | false =>
    have hpk : s.db.blocks.any (fun b => b.cid == s.db.nextId) = false := by
      rw [Bool.eq_false_iff]
      intro h
      obtain ⟨b, hbm, hbe⟩ := List.any_eq_true.mp h
      exact hfresh.2.2 b hbm (by simpa using hbe)
    have hins : s.db.insertContainer.1.insertBlock s.db.insertContainer.2 n.key n.orig =
        some { s.db.insertContainer.1 with blocks := s.db.blocks ++ [{ cid := s.db.nextId, name := n.key, nameOrig := n.orig }] } := by
      unfold Db.insertBlock Db.insertContainer
      simp [hpk, hdup, Db.hasContainer]
    simp [hins]


/-- cif_container_create_frame on a store outside any transaction, with a fresh next id and an existing parent container: refused as a
    duplicate exactly when the parent already has a frame row with that key -/
theorem createFrame_dup_iff (s : Store.Store) (p : CH) (n : Store.Name) (hac : s.autocommit = true) (hv : n.valid = true)
    (hcid : ∀ f ∈ s.db.frames, f.cid ≠ s.db.nextId) (hp : s.db.hasContainer p.id = true) (hpn : p.id ≠ s.db.nextId) :
    (createFrame s p (some n)).2 = .error CIF_DUP_FRAMECODE ↔
      s.db.frames.any (fun f => f.parent == p.id && f.name == n.key) = true := by
  have hb : s.begin = some { s with txn := some s.db } := by simp [Store.begin, hac]
  unfold createFrame
  simp only [Bool.not_false, Bool.true_and, hv, Bool.not_true, Bool.false_eq_true, if_false, hb]
  have hpk : s.db.frames.any (fun f => f.cid == s.db.nextId) = false := by
    rw [Bool.eq_false_iff]
    intro h
    obtain ⟨f, hfm, hfe⟩ := List.any_eq_true.mp h
    exact hcid f hfm (by simpa using hfe)
  have hne : (s.db.nextId == p.id) = false := by
    rw [Bool.eq_false_iff]; intro h; have e : s.db.nextId = p.id := by simpa using h
    exact hpn e.symm
  have hp' : (s.db.containers ++ [({ id := s.db.nextId, nextLoopNum := 0 } : ContainerRow)]).any (fun c => c.id == p.id) = true := by
    rw [List.any_append]; simp only [Db.hasContainer] at hp; simp [hp]
  cases hdup : s.db.frames.any (fun f => f.parent == p.id && f.name == n.key) with
  | true =>
    have : s.db.insertContainer.1.insertFrame s.db.insertContainer.2 p.id n.key n.orig = none := by
      unfold Db.insertFrame Db.insertContainer
      simp [hpk, hdup]
    simp [this]
  | false =>
    have hins : ∃ d2, s.db.insertContainer.1.insertFrame s.db.insertContainer.2 p.id n.key n.orig = some d2 := by
      unfold Db.insertFrame Db.insertContainer
      simp [hpk, hdup, hne, Db.hasContainer, hp']
    obtain ⟨d2, h2⟩ := hins
    simp [h2]

/-- items present under a key after a successful cif_container_create_loop: the new names' keys, and what was there before -/
theorem createLoop_hasItem (s s' : Store.Store) (p : CH) (cat : Option Str) (names : List Store.Name) (l : LH)
    (he : createLoop s p cat names = (s', .ok l)) (cid : Nat) (k : Str) :
    s'.db.hasItem cid k = true ↔ ((cid = p.id ∧ ∃ n ∈ names, n.key = k) ∨ s.db.hasItem cid k = true) := by
  obtain ⟨hrows, _, _, _⟩ := createLoop_rows s s' p cat names l he
  simp only [hasItem_iff, hrows, List.mem_append, List.mem_map]
  constructor
  · rintro ⟨i, hi | ⟨n, hn, rfl⟩, h1, h2⟩
    · exact Or.inr ⟨i, hi, h1, h2⟩
    · exact Or.inl ⟨h1.symm, n, hn, h2⟩
  · rintro (⟨h1, n, hn, h2⟩ | ⟨i, hi, h1, h2⟩)
    · exact ⟨_, Or.inr ⟨n, hn, rfl⟩, h1.symm, h2⟩
    · exact ⟨i, Or.inl hi, h1, h2⟩


/-- in a state satisfying the store invariant, `cif_container_get_item_loop_internal` answers a loop exactly when a `loop_item` row with
    that container and key exists (foreign key: the item's loop exists; primary keys: it is the only one), and CIF_NOSUCH_ITEM otherwise -/
theorem getItemLoopInternal_ok_iff (d : Db) (hinv : Inv d) (cid : Nat) (k : Str) :
    ((∃ l, getItemLoopInternal d cid k = .ok l) ↔ d.hasItem cid k = true) ∧
    (d.hasItem cid k = false → getItemLoopInternal d cid k = .error CIF_NOSUCH_ITEM) := by
  have hmem : ∀ l, l ∈ itemLoopRows d cid k ↔ (l ∈ d.loops ∧ l.cid = cid ∧ ∃ i ∈ d.items, i.cid = cid ∧ i.name = k ∧ i.loopNum = l.loopNum) := by
    intro l
    simp only [itemLoopRows, List.mem_filter, Bool.and_eq_true, List.any_eq_true, beq_iff_eq]
    constructor
    · rintro ⟨h1, h2, i, hi, ⟨h3, h4⟩, h5⟩; exact ⟨h1, h2, i, hi, h3, h4, h5⟩
    · rintro ⟨h1, h2, i, hi, h3, h4, h5⟩; exact ⟨h1, h2, i, hi, ⟨h3, h4⟩, h5⟩
  -- two rows of the join have the same key, hence (primary key of loop) cannot both be in the list
  have huniq : ∀ a b rest, itemLoopRows d cid k = a :: b :: rest → False := by
    intro a b rest he
    have hsub : (itemLoopRows d cid k).Pairwise LoopKeyNe := by
      unfold itemLoopRows; exact hinv.core.loopPK.sublist List.filter_sublist
    rw [he, List.pairwise_cons] at hsub
    have hne := hsub.1 b List.mem_cons_self
    obtain ⟨_, ha2, i, hi, hi1, hi2, hi3⟩ := (hmem a).1 (by rw [he]; exact List.mem_cons_self)
    obtain ⟨_, hb2, j, hj, hj1, hj2, hj3⟩ := (hmem b).1 (by rw [he]; exact List.mem_cons_of_mem _ List.mem_cons_self)
    have hij : i = j := itemKey_unique d.items hinv.core.itemPK i hi j hj (by rw [hi1, hj1]) (by rw [hi2, hj2])
    subst hij
    exact hne ⟨by rw [ha2, hb2], by rw [← hi3, ← hj3]⟩
  constructor
  · constructor
    · rintro ⟨l, hl⟩
      unfold getItemLoopInternal at hl
      cases hr : itemLoopRows d cid k with
      | nil => simp [hr] at hl
      | cons a rest =>
        obtain ⟨_, _, i, hi, hi1, hi2, _⟩ := (hmem a).1 (by rw [hr]; exact List.mem_cons_self)
        exact (hasItem_iff d cid k).2 ⟨i, hi, hi1, hi2⟩
    · intro hh
      obtain ⟨i, hi, hi1, hi2⟩ := (hasItem_iff d cid k).1 hh
      obtain ⟨l, hl, hl1, hl2⟩ := (hasLoop_iff d i.cid i.loopNum).1 (hinv.core.itemFK i hi)
      have hin : l ∈ itemLoopRows d cid k := (hmem l).2 ⟨hl, by rw [hl1, hi1], i, hi, hi1, hi2, hl2.symm⟩
      unfold getItemLoopInternal
      cases hr : itemLoopRows d cid k with
      | nil => rw [hr] at hin; cases hin
      | cons a rest =>
        cases rest with
        | nil => exact ⟨_, rfl⟩
        | cons b rest' => exact absurd hr (fun e => huniq a b rest' e)
  · intro hh
    unfold getItemLoopInternal
    cases hr : itemLoopRows d cid k with
    | nil => rfl
    | cons a rest =>
      obtain ⟨_, _, i, hi, hi1, hi2, _⟩ := (hmem a).1 (by rw [hr]; exact List.mem_cons_self)
      have := (hasItem_iff d cid k).2 ⟨i, hi, hi1, hi2⟩
      rw [hh] at this; cases this

/-- the error code of a BEGIN_NESTTX … body … ROLLBACK_NESTTX call is the body's -/
theorem nest_error_iff {α} (s : Store.Store) (body : Db → Except Code (Db × α)) (c : Code) :
    (s.nest body).2 = .error c ↔ body s.db = .error c := by
  unfold Store.nest
  have hdb : s.beginNest.1.db = s.db := by unfold Store.beginNest; split <;> rfl
  rw [← hdb]
  cases hb : body s.beginNest.1.db with
  | error c' => simp [hb]
  | ok r => obtain ⟨d2, a⟩ := r; simp [hb]

/-- cif_loop_add_item through a live loop handle: refused as CIF_DUP_ITEMNAME exactly when the container already has an item of that key -/
theorem addItem_dup_iff (s : Store.Store) (l : LH) (n : Store.Name) (v : Option V) (hv : n.valid = true)
    (hl : s.db.hasLoop l.cid l.loopNum = true) :
    (addItem s l (some n) v).2 = .error CIF_DUP_ITEMNAME ↔ s.db.hasItem l.cid n.key = true := by
  unfold addItem
  simp only [hv, Bool.not_true, Bool.false_eq_true, if_false]
  have key : (addItemInternal s l n.key n.orig (v.getD .unk)).2 = .error CIF_DUP_ITEMNAME ↔ s.db.hasItem l.cid n.key = true := by
    unfold addItemInternal
    rw [nest_error_iff]
    unfold addItemBody Db.insertItem
    cases hh : s.db.hasItem l.cid n.key <;> simp [hl]
  rw [← key]
  cases addItemInternal s l n.key n.orig (v.getD .unk) with
  | mk s1 r => cases r <;> simp

/-- `addItems` fails (always with CIF_DUP_ITEMNAME) as soon as one of the names is already an item of the container -/
theorem addItems_dup (cid ln : Nat) : ∀ (ns : List Store.Name) (d : Db), (∃ n ∈ ns, d.hasItem cid n.key = true) →
    addItems d cid ln ns = .error CIF_DUP_ITEMNAME
  | [], _, h => by obtain ⟨n, hn, _⟩ := h; cases hn
  | n :: ns, d, h => by
    unfold addItems
    cases hi : d.insertItem cid n.key n.orig ln with
    | none => rfl
    | some d1 =>
      simp only
      apply addItems_dup cid ln ns d1
      obtain ⟨m, hm, hmk⟩ := h
      have hd1 : d1 = { d with items := d.items ++ [{ cid := cid, name := n.key, nameOrig := n.orig, loopNum := ln }] } ∧ d.hasItem cid n.key = false := by
        unfold Db.insertItem at hi
        split at hi; · cases hi
        rename_i hfresh
        split at hi; · cases hi
        cases hi
        exact ⟨rfl, by simpa using hfresh⟩
      rcases List.mem_cons.mp hm with rfl | hm'
      · rw [hd1.2] at hmk; cases hmk
      · refine ⟨m, hm', ?_⟩
        obtain ⟨i, hi', h1, h2⟩ := (hasItem_iff d _ _).mp hmk
        rw [hd1.1]
        exact (hasItem_iff _ _ _).mpr ⟨i, List.mem_append_left _ hi', h1, h2⟩

/-- cif_container_create_loop whose CREATE_LOOP_SQL step succeeds: a name that is already an item of the container makes the call fail
    with CIF_DUP_ITEMNAME -/
theorem createLoop_dup (s : Store.Store) (p : CH) (cat : Option Str) (names : List Store.Name) (d1 : Db)
    (hval : ∀ n ∈ names, n.valid = true) (hins : s.db.insertLoopUnnumbered p.id cat = .ok d1)
    (hdup : ∃ n ∈ names, s.db.hasItem p.id n.key = true) :
    (createLoop s p cat names).2 = .error CIF_DUP_ITEMNAME := by
  have hne : names.isEmpty = false := by
    obtain ⟨n, hn, _⟩ := hdup; cases names with | nil => cases hn | cons _ _ => rfl
  have hany : names.any (fun n => !n.valid) = false := by
    rw [Bool.eq_false_iff]; intro h
    obtain ⟨n, hn, hb⟩ := List.any_eq_true.mp h
    rw [hval n hn] at hb; cases hb
  unfold createLoop createLoopInternal
  simp only [hne, hany, Bool.false_eq_true, if_false]
  rw [nest_error_iff]
  unfold createLoopBody
  simp only [hins]
  obtain ⟨c, _, _, _, _, i0, _⟩ := insertLoop_spec s.db d1 p.id cat hins
  have : ∃ n ∈ names, d1.hasItem p.id n.key = true := by
    obtain ⟨n, hn, hk⟩ := hdup
    exact ⟨n, hn, by simpa [Db.hasItem, i0] using hk⟩
  rw [addItems_dup p.id _ names d1 this]

/-- the `loop_item` rows after a successful cif_container_create_loop with names built by `apiName`: a row (c, `cifNormalize U b`) exists
    iff `c` is that container and `b` has the normal form of one of the names, or it existed before; `ItemsNormOK` is preserved -/
theorem createLoop_items_match (U : UnicodeOps) (s s' : Store.Store) (p : CH) (cat : Option Str) (xs : List Str) (l : LH) (b : Str) (c : Nat)
    (hn : ItemsNormOK (cifNormalize U) s.db)
    (hc : createLoop s p cat (xs.map (apiName U true)) = (s', .ok l)) :
    ItemsNormOK (cifNormalize U) s'.db ∧
    (s'.db.hasItem c (cifNormalize U b) = true ↔
      ((c = p.id ∧ ∃ a ∈ xs, cifNormalize U a = cifNormalize U b) ∨ s.db.hasItem c (cifNormalize U b) = true)) := by
  obtain ⟨hrows, _, _, _⟩ := createLoop_rows s s' p cat _ l hc
  constructor
  · intro i hi
    rw [hrows] at hi
    rcases List.mem_append.mp hi with h1 | h1
    · exact hn i h1
    · simp only [List.map_map, List.mem_map, Function.comp] at h1
      obtain ⟨x, _, rfl⟩ := h1
      rfl
  · rw [createLoop_hasItem s s' p cat _ l hc c (cifNormalize U b)]
    constructor
    · rintro (⟨h1, n, hn', h2⟩ | h)
      · obtain ⟨x, hx, rfl⟩ := List.mem_map.mp hn'
        exact Or.inl ⟨h1, x, hx, h2⟩
      · exact Or.inr h
    · rintro (⟨h1, x, hx, h2⟩ | h)
      · exact Or.inl ⟨h1, apiName U true x, List.mem_map.mpr ⟨x, hx, rfl⟩, h2⟩
      · exact Or.inr h


/-! ### tables and packets -/
open CifModel.Model.Value in
theorem tableSet_stored (U : UnicodeOps) (es : List Value.Entry) (key : Str) (x : Option V) :
    (hasDisallowed key = true → tableSet (tableNorm U) (.tbl es) key x = .error Value.INVALID_INDEX) ∧
    (hasDisallowed key = false → tableSet (tableNorm U) (.tbl es) key x = .ok (.tbl (mapSet es (U.nfc key) key x))) := by
  constructor <;> intro h <;> simp [tableSet, tableNorm, h]

open CifModel.Model.Value in
theorem packetSet_stored (U : UnicodeOps) (p : Value.Packet) (name : Str) (x : Option V) :
    (isValidName true name = false → packetSet (itemNorm U) p name x = .error Value.INVALID_ITEMNAME) ∧
    (isValidName true name = true → packetSet (itemNorm U) p name x = .ok (mapSet p (cifNormalize U name) name x)) := by
  constructor <;> intro h <;> simp [packetSet, itemNorm, h]

open CifModel.Model.Value in
/-- cif_packet_create, success: one entry per name, keyed by its normal form, carrying its spelling; every name valid -/
theorem packetCreate_stored (U : UnicodeOps) : ∀ (names : List Str) (p : Value.Packet), packetCreate (itemNorm U) names = .ok p →
    p = names.map (fun n => (cifNormalize U n, n, V.unk)) ∧ ∀ n ∈ names, isValidName true n = true
  | [], p, he => by simp [packetCreate] at he; subst he; exact ⟨rfl, fun _ h => nomatch h⟩
  | n :: ns, p, he => by
    unfold packetCreate at he
    cases hv : isValidName true n with
    | false => simp [itemNorm, hv] at he
    | true =>
      simp only [itemNorm, hv, ↓reduceIte] at he
      cases hr : packetCreate (itemNorm U) ns with
      | error c => simp [hr] at he
      | ok q =>
        simp only [hr] at he
        split at he
        · cases he
        · cases he
          obtain ⟨e, hall⟩ := packetCreate_stored U ns q hr
          subst e
          refine ⟨rfl, ?_⟩
          intro m hm
          rcases List.mem_cons.mp hm with rfl | hm'
          · exact hv
          · exact hall m hm'

end CifModel.Lemmas.Names
