import CifModel.Lemmas.HeapHistState
/-
  Lemmas for operation histories on the heap: a fuel computed from the heap suffices.

  The pointer-following functions of the heap model (`cleanVal`, `cloneH`) take fuel; `need v` suffices for a representation of
  `v`.  A footprint lists every block once (`Rep_nodup`) and lies below the bump pointer, so it has at most `h.next` blocks, and
  `need v ≤ 3 · |footprint| + 2` (`Rep_need`): `fuelOf h = 3 · h.next + 9` covers every value represented in `h` (and in the
  heap two allocations later) — `RepS.fits`.
-/
namespace CifModel.Model.Hist
open CifModel CifModel.Model.Heap

mutual
  theorem Rep_nodup (h : Heap) (v : V) (hv : HVal) (F : List Nat) (hr : Rep h hv v F) : F.Nodup := by
    cases v with
    | unk => simp only [Rep] at hr; obtain ⟨_, rfl⟩ := hr; exact List.nodup_nil
    | na => simp only [Rep] at hr; obtain ⟨_, rfl⟩ := hr; exact List.nodup_nil
    | chr q t => simp only [Rep] at hr; obtain ⟨b, _, _, rfl⟩ := hr; simp
    | numb q t neg d su sc =>
      simp only [Rep] at hr
      obtain ⟨b, c, hbc, _, _, hrest⟩ := hr
      rcases hrest with ⟨_, _, rfl⟩ | ⟨s', c', _, h1, h2, _, _, rfl⟩
      · simp [hbc]
      · have e1 : c' ≠ b := h1
        have e2 : c' ≠ c := h2
        simp [hbc, Ne.symm e1, Ne.symm e2]
    | lst vs =>
      simp only [Rep] at hr
      rcases hr with ⟨_, n, _, rfl⟩ | ⟨arr, xs, cap, F1, _, _, _, hel, hnot, rfl⟩
      · exact List.nodup_nil
      · rw [List.nodup_append]
        refine ⟨RepElems_nodup h vs xs F1 hel, by simp, ?_⟩
        intro a ha b hb
        simp at hb; subst hb
        exact fun e => hnot (e ▸ ha)
    | tbl es =>
      simp only [Rep] at hr
      obtain ⟨ents, _, hen⟩ := hr
      exact RepEntries_nodup h es ents F hen
  theorem RepElems_nodup (h : Heap) (vs : List V) (xs : List Nat) (F : List Nat) (hr : RepElems h xs vs F) : F.Nodup := by
    cases vs with
    | nil => simp only [RepElems] at hr; obtain ⟨_, rfl⟩ := hr; exact List.nodup_nil
    | cons v vs =>
      simp only [RepElems] at hr
      obtain ⟨x, xs', hv, F1, F2, _, _, hrep, hrest, hxF, hdis, rfl⟩ := hr
      rw [List.nodup_append]
      refine ⟨?_, RepElems_nodup h vs xs' F2 hrest, fun a ha b hb e => hdis a ha (e ▸ hb)⟩
      rw [List.nodup_append]
      refine ⟨Rep_nodup h v hv F1 hrep, by simp, ?_⟩
      intro a ha b hb
      simp at hb; subst hb
      exact fun e => hxF (e ▸ ha)
  theorem RepEntries_nodup (h : Heap) (es : List (Str × Str × V)) (ents : List Nat) (F : List Nat)
      (hr : RepEntries h ents es F) : F.Nodup := by
    cases es with
    | nil => simp only [RepEntries] at hr; obtain ⟨_, rfl⟩ := hr; exact List.nodup_nil
    | cons e es =>
      obtain ⟨k, ko, v⟩ := e
      simp only [RepEntries] at hr
      obtain ⟨e, ents', hv, ka, koa, F1, F2, _, _, _, _, hrep, hrest, heF, hkaF, hkoaF, heka, hekoa, hF⟩ := hr
      have n1 := Rep_nodup h v hv F1 hrep
      have n2 := RepEntries_nodup h es ents' F2 hrest
      have hF1e : (F1 ++ [e]).Nodup := by
        rw [List.nodup_append]
        refine ⟨n1, by simp, ?_⟩
        intro a ha b hb
        simp at hb; subst hb
        exact fun e' => heF (e' ▸ ha)
      rcases hF with ⟨_, hdis, rfl⟩ | ⟨hne, hdis, rfl⟩
      · rw [List.nodup_append]
        refine ⟨?_, n2, fun a ha b hb e' => hdis a ha (e' ▸ hb)⟩
        rw [List.cons_append, List.nodup_cons]
        refine ⟨?_, hF1e⟩
        intro hm
        rcases List.mem_append.mp hm with hm | hm
        · exact hkaF hm
        · simp at hm; exact heka hm.symm
      · rw [List.nodup_append]
        refine ⟨?_, n2, fun a ha b hb e' => hdis a ha (e' ▸ hb)⟩
        rw [List.cons_append, List.cons_append, List.nodup_cons, List.nodup_cons]
        refine ⟨?_, ?_, hF1e⟩
        · intro hm
          rcases List.mem_cons.mp hm with hm | hm
          · exact hne hm
          · rcases List.mem_append.mp hm with hm | hm
            · exact hkaF hm
            · simp at hm; exact heka hm.symm
        · intro hm
          rcases List.mem_append.mp hm with hm | hm
          · exact hkoaF hm
          · simp at hm; exact hekoa hm.symm
end

mutual
  theorem Rep_need (h : Heap) (v : V) (hv : HVal) (F : List Nat) (hr : Rep h hv v F) : need v ≤ 3 * F.length + 2 := by
    cases v with
    | unk => simp [need]
    | na => simp [need]
    | chr q t => simp [need]
    | numb q t neg d su sc => simp [need]
    | lst vs =>
      simp only [Rep] at hr
      rcases hr with ⟨rfl, n, _, rfl⟩ | ⟨arr, xs, cap, F1, _, _, _, hel, _, rfl⟩
      · simp [need, needList]
      · have := RepElems_need h vs xs F1 hel
        simp only [need, List.length_append, List.length_singleton]; omega
    | tbl es =>
      simp only [Rep] at hr
      obtain ⟨ents, _, hen⟩ := hr
      have := RepEntries_need h es ents F hen
      simp only [need]; omega
  theorem RepElems_need (h : Heap) (vs : List V) (xs : List Nat) (F : List Nat) (hr : RepElems h xs vs F) :
      needList vs ≤ 3 * F.length := by
    cases vs with
    | nil => simp [needList]
    | cons v vs =>
      simp only [RepElems] at hr
      obtain ⟨x, xs', hv, F1, F2, _, _, hrep, hrest, _, _, rfl⟩ := hr
      have h1 := Rep_need h v hv F1 hrep
      have h2 := RepElems_need h vs xs' F2 hrest
      simp only [needList, List.length_append, List.length_singleton]; omega
  theorem RepEntries_need (h : Heap) (es : List (Str × Str × V)) (ents : List Nat) (F : List Nat)
      (hr : RepEntries h ents es F) : needEntries es ≤ 3 * F.length := by
    cases es with
    | nil => simp [needEntries]
    | cons e es =>
      obtain ⟨k, ko, v⟩ := e
      simp only [RepEntries] at hr
      obtain ⟨e, ents', hv, ka, koa, F1, F2, _, _, _, _, hrep, hrest, _, _, _, _, _, hF⟩ := hr
      have h1 := Rep_need h v hv F1 hrep
      have h2 := RepEntries_need h es ents' F2 hrest
      rcases hF with ⟨_, _, rfl⟩ | ⟨_, _, rfl⟩ <;>
        simp only [needEntries, List.length_append, List.length_cons, List.length_singleton, List.length_nil] <;> omega
end

theorem length_le_of_nodup_lt (l : List Nat) (n : Nat) (hn : l.Nodup) (hl : ∀ x, x ∈ l → x < n) : l.length ≤ n := by
  have := List.Nodup.length_le_of_subset hn (l₂ := List.range n) (fun x hx => List.mem_range.mpr (hl x hx))
  simpa using this

theorem RepS.fitsAt {T : List Nat} {s : HState} {p : PState} {F : Root → List Nat} (inv : RepS T s p F) (fuel : Nat)
    (hfuel : 3 * s.h.next + 2 ≤ fuel) : ∀ r v, p.get r = some v → need v ≤ fuel := by
  intro r v hp
  have hrel := inv.rel r
  rw [hp] at hrel
  cases hs : s.slot r with
  | none => rw [hs] at hrel; exact absurd hrel (by simp [SlotRel])
  | some a =>
    rw [hs] at hrel
    obtain ⟨hv, F0, _, _, hrep, _, hG⟩ := hrel
    have h1 := Rep_need s.h v hv F0 hrep
    have h2 := length_le_of_nodup_lt F0 s.h.next (Rep_nodup s.h v hv F0 hrep)
      (fun x hx => inv.lt r x ((hG x).mpr (Or.inr hx)))
    omega

end CifModel.Model.Hist
