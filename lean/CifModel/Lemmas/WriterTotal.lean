import CifModel.Props.C02
/-
  Totality of the repaired writer at the value level: in CIF 2.0 mode `write_item` on a well-formed value succeeds, or
  fails with CIF_DISALLOWED_VALUE — and then the value holds a table entry (only table keys are ever refused).
-/
namespace CifModel.Lemmas.WriterTotal
open CifModel.Model CifModel.Model.Writer
open CifModel.Gen

/-- the fields of the context that decide whether writing succeeds are unchanged: the version and `write_item_names`
    (`last_column` changes all the time; `separate_values` and `depth` never influence success) -/
def Same (c c' : Ctx) : Prop := c'.version = c.version ∧ c'.writeItemNames = c.writeItemNames

theorem Same.refl (c : Ctx) : Same c c := ⟨rfl, rfl⟩
theorem Same.trans {a b c : Ctx} (h1 : Same a b) (h2 : Same b c) : Same a c := ⟨h2.1.trans h1.1, h2.2.trans h1.2⟩
theorem Same.isCif1 {a b : Ctx} (h : Same a b) : b.isCif1 = a.isCif1 := by unfold Ctx.isCif1; rw [h.1]
theorem Same.names {a b : Ctx} (h : Same a b) : b.writeItemNames = a.writeItemNames := h.2

/-- success (only the column changed), or CIF_DISALLOWED_VALUE with a witness -/
def Good (c : Ctx) (r : W) (wit : Prop) : Prop :=
  (∃ o c', r = .ok (o, c') ∧ Same c c') ∨ (r = .error ErrCodes.CIF_DISALLOWED_VALUE ∧ wit)

theorem Good.mono {c : Ctx} {r : W} {p q : Prop} (h : Good c r p) (hpq : p → q) : Good c r q := by
  rcases h with h | ⟨h1, h2⟩
  · exact Or.inl h
  · exact Or.inr ⟨h1, hpq h2⟩

theorem good_andThen {c : Ctx} {a : W} {f : Ctx → W} {wit : Prop} (ha : Good c a wit)
    (hf : ∀ c1, Same c c1 → Good c1 (f c1) wit) : Good c (andThen a f) wit := by
  rcases ha with ⟨o, c1, h1, hs⟩ | ⟨h1, hw⟩
  · rcases hf c1 hs with ⟨o2, c2, h2, hs2⟩ | ⟨h2, hw⟩
    · left; exact ⟨o ++ o2, c2, by simp [andThen, h1, h2], hs.trans hs2⟩
    · right; exact ⟨by simp [andThen, h1, h2], hw⟩
  · right; exact ⟨by simp [andThen, h1], hw⟩

theorem good_ok {c : Ctx} {o : Str} {c' : Ctx} {wit : Prop} (hs : Same c c') : Good c (.ok (o, c')) wit :=
  Or.inl ⟨o, c', rfl, hs⟩

/-! ### the primitives -/

theorem writeNewline_same (c : Ctx) : Same c (writeNewline c).2 := ⟨rfl, rfl⟩

theorem writeLiteral_same (c : Ctx) (t : Str) (w : Bool) (r : Str × Ctx) (h : writeLiteral c t w = some r) : Same c r.2 := by
  unfold writeLiteral at h
  by_cases h0 : t.length = 0
  · simp only [h0, ↓reduceIte, Option.some.injEq] at h; rw [← h]; exact ⟨rfl, rfl⟩
  · by_cases h1 : t.length + c.lastColumn > LINE
    · cases w with
      | false => simp [h0, h1] at h
      | true => simp only [h0, h1, ↓reduceIte, Option.some.injEq] at h; rw [← h]; exact ⟨rfl, rfl⟩
    · simp only [h0, h1, ↓reduceIte, Option.some.injEq] at h; rw [← h]; exact ⟨rfl, rfl⟩

theorem writeLiteral_wrap_some (c : Ctx) (t : Str) : ∃ r, writeLiteral c t true = some r := by
  unfold writeLiteral
  by_cases h0 : t.length = 0
  · rw [if_pos h0]; exact ⟨_, rfl⟩
  · rw [if_neg h0]
    by_cases h1 : t.length + c.lastColumn > LINE
    · rw [if_pos h1, if_pos rfl]; exact ⟨_, rfl⟩
    · rw [if_neg h1]; exact ⟨_, rfl⟩

theorem literalOrError_wrap_good (c : Ctx) (t : Str) (wit : Prop) : Good c (literalOrError c t true) wit := by
  obtain ⟨r, hr⟩ := writeLiteral_wrap_some c t
  unfold literalOrError
  rw [hr]
  exact good_ok (writeLiteral_same c t true r hr)

theorem ensureSpaced_same (c : Ctx) : Same c (ensureSpaced c).2 := by
  unfold ensureSpaced
  by_cases h0 : c.lastColumn = 0
  · simp only [h0, ↓reduceIte]; exact ⟨rfl, rfl⟩
  · simp only [h0, ↓reduceIte]
    cases h : writeLiteral c [32] false with
    | none => exact ⟨rfl, rfl⟩
    | some r => exact writeLiteral_same c [32] false r h

theorem writeULiteral_core_same (c : Ctx) (t : Str) (len units : Nat) (w : Bool) (r : Str × Ctx)
    (h : (if len = 0 then some ([], c)
          else if len + c.lastColumn > LINE then
            if w then some (10 :: printfS units t, { c with lastColumn := (printfS units t).length })
            else none
          else some (printfS units t, { c with lastColumn := c.lastColumn + (printfS units t).length })) = some r) :
    Same c r.2 := by
  by_cases h0 : len = 0
  · rw [if_pos h0] at h; cases h; exact ⟨rfl, rfl⟩
  · rw [if_neg h0] at h
    by_cases h1 : len + c.lastColumn > LINE
    · rw [if_pos h1] at h
      cases w with
      | false => simp at h
      | true => rw [if_pos rfl] at h; cases h; exact ⟨rfl, rfl⟩
    · rw [if_neg h1] at h; cases h; exact ⟨rfl, rfl⟩

theorem writeULiteral_same (c : Ctx) (t : Str) (n : Option Nat) (w : Bool) (r : Str × Ctx)
    (h : writeULiteral c t n w = some r) : Same c r.2 := by
  unfold writeULiteral at h
  cases n with
  | none => exact writeULiteral_core_same c t _ _ w r h
  | some k => exact writeULiteral_core_same c t _ _ w r h

theorem writeULiteral_wrap_some (c : Ctx) (t : Str) (n : Option Nat) : ∃ r, writeULiteral c t n true = some r := by
  unfold writeULiteral
  cases n with
  | none =>
    simp only
    by_cases h0 : Writer.countChar32 t = 0
    · rw [if_pos h0]; exact ⟨_, rfl⟩
    · rw [if_neg h0]
      by_cases h1 : Writer.countChar32 t + c.lastColumn > LINE
      · rw [if_pos h1, if_pos trivial]; exact ⟨_, rfl⟩
      · rw [if_neg h1]; exact ⟨_, rfl⟩
  | some k =>
    simp only
    by_cases h0 : k = 0
    · rw [if_pos h0]; exact ⟨_, rfl⟩
    · rw [if_neg h0]
      by_cases h1 : k + c.lastColumn > LINE
      · rw [if_pos h1, if_pos trivial]; exact ⟨_, rfl⟩
      · rw [if_neg h1]; exact ⟨_, rfl⟩

theorem writeUnquoted_good (c : Ctx) (s : Str) (n : Nat) (wit : Prop) : Good c (writeUnquoted c s n) wit := by
  obtain ⟨r, hr⟩ := writeULiteral_wrap_some c s (some n)
  have hs := writeULiteral_same c s (some n) true r hr
  unfold writeUnquoted
  rw [hr]
  obtain ⟨o, c'⟩ := r
  simp only [Lemmas.WriterChar.printfS_length]
  by_cases h0 : n = 0
  · simp only [h0, ↓reduceIte]; exact good_ok hs
  · simp only [h0, ↓reduceIte]; exact good_ok hs

theorem writeQuoted_good (c : Ctx) (s : Str) (n : Nat) (d : CU) (wit : Prop) : Good c (writeQuoted c s n d) wit := by
  unfold writeQuoted
  simp only [List.length_append, List.length_cons, List.length_nil, Lemmas.WriterChar.printfS_length]
  have : 0 + 1 + n + (0 + 1) = n + 2 := by omega
  simp only [this, ↓reduceIte]
  exact good_ok ⟨rfl, rfl⟩

/-- the first line is not longer than the string -/
theorem head_line_le : ∀ (s : Str), ((Spec.splitLines s).headD []).length ≤ s.length := by
  intro s
  induction s with
  | nil => simp [Spec.splitLines]
  | cons c rest ih =>
    have hne := Lemmas.Analyze.splitLines_ne_nil rest
    simp only [Spec.splitLines]
    split
    · simp only [List.length_cons]; omega
    · split
      · simp
      · cases hs : Spec.splitLines rest with
        | nil => exact absurd hs hne
        | cons l ls => rw [hs] at ih; simp [Spec.consHead] at ih ⊢; omega

theorem writeTripleQuoted_good (c : Ctx) (s : Str) (unq tri : Bool) (d : CU) (wit : Prop) :
    Good c (writeTripleQuoted c s (analyze s unq tri LINE).lengthFirst (analyze s unq tri LINE).lengthLast d) wit := by
  have hle : (analyze s unq tri LINE).lengthFirst ≤ s.length := by
    rw [(C18_stats_exact s unq tri LINE).2.2.1]; exact head_line_le s
  unfold writeTripleQuoted
  simp only
  split
  · exact good_ok ⟨rfl, rfl⟩
  · rename_i hlen; exfalso; apply hlen; simp; omega

/-- `write_char` on a value (text fields allowed) succeeds whenever the mode does not refuse it: no character outside the
    CIF 1.1 set in CIF 1.1 mode, and no text field containing `<LF>;` in CIF 1.1 mode -/
theorem writeChar_value_good_gen (c : Ctx) (s : Str) (q : Bool) (hv : ¬(c.isCif1 = true ∧ validate11 s = false))
    (hr : (analyze s (!q) (!c.isCif1) LINE).delimLength = 2 →
      ¬((analyze s (!q) (!c.isCif1) LINE).containsTextDelim = true ∧ c.isCif1 = true))
    (hcl : Lemmas.WriterChar.strClean c.isCif1 s = true) (wit : Prop) :
    Good c (writeChar c s q true) wit := by
  rw [Lemmas.WriterChar.writeChar_clean c s q true hcl]
  rcases Lemmas.WriterChar.delimLength_cases s (!q) (!c.isCif1) LINE with d | d | d | d
  · rw [Lemmas.WriterChar.writeChar_delim0 c s q true hv d]; exact writeUnquoted_good _ _ _ _
  · rw [Lemmas.WriterChar.writeChar_delim1 c s q true hv d]; exact writeQuoted_good _ _ _ _ _
  · have hr : ¬((true : Bool) = false ∨ ((analyze s (!q) (!c.isCif1) LINE).containsTextDelim = true ∧ c.isCif1 = true)) := by
      intro h
      rcases h with h | h
      · cases h
      · exact hr d h
    rw [Lemmas.WriterChar.writeChar_delim2 c s q true hv d hr]
    have hflags := C02_flags_semis s _ (Lemmas.WriterAnalysis.maxSemiRun_zero s (!q) (!c.isCif1) LINE)
    have hex : ∃ body, textBody s (Lemmas.WriterChar.charFlags (analyze s (!q) (!c.isCif1) LINE)).1
        (Lemmas.WriterChar.charFlags (analyze s (!q) (!c.isCif1) LINE)).2 = .ok body := by
      rcases hflags with h | h | h
      · exact ⟨s, by
          have h' : (Lemmas.WriterChar.charFlags (analyze s (!q) (!c.isCif1) LINE)).1 = false ∧
              (Lemmas.WriterChar.charFlags (analyze s (!q) (!c.isCif1) LINE)).2 = false := h
          simp [textBody, h']⟩
      · exact C02_text_total s _ _ (Or.inl h)
      · exact C02_text_total s _ _ (Or.inr h)
    obtain ⟨body, hb⟩ := hex
    simp only [writeText, hb]
    exact good_ok ⟨rfl, rfl⟩
  · rw [Lemmas.WriterChar.writeChar_delim3 c s q true hv d]; exact writeTripleQuoted_good _ _ _ _ _ _

/-- `write_char` on a value (text fields allowed) never fails in CIF 2.0 mode -/
theorem writeChar_value_good (c : Ctx) (s : Str) (q : Bool) (h2 : c.isCif1 = false)
    (hcl : Lemmas.WriterChar.strClean false s = true) (wit : Prop) :
    Good c (writeChar c s q true) wit :=
  writeChar_value_good_gen c s q (by simp [h2]) (by simp [h2]) (by rw [h2]; exact hcl) wit

/-- `write_char` on a table key (text fields not allowed): success or CIF_DISALLOWED_VALUE -/
theorem writeChar_key_good (c : Ctx) (k : Str) (h2 : c.isCif1 = false) (hcl : Lemmas.WriterChar.strClean false k = true) :
    Good c (writeChar c k true false) True := by
  rw [Lemmas.WriterChar.writeChar_clean c k true false (by rw [h2]; exact hcl)]
  have hv : ¬(c.isCif1 = true ∧ validate11 k = false) := by simp [h2]
  rcases Lemmas.WriterChar.delimLength_cases k (!true) (!c.isCif1) LINE with d | d | d | d
  · rw [Lemmas.WriterChar.writeChar_delim0 c k true false hv d]; exact writeUnquoted_good _ _ _ _
  · rw [Lemmas.WriterChar.writeChar_delim1 c k true false hv d]; exact writeQuoted_good _ _ _ _ _
  · rw [Lemmas.WriterChar.writeChar_delim2_refused c k true false hv d (Or.inl rfl)]
    exact Or.inr ⟨rfl, trivial⟩
  · rw [Lemmas.WriterChar.writeChar_delim3 c k true false hv d]; exact writeTripleQuoted_good _ _ _ _ _ _

theorem countChar32_pos : ∀ (t : Str), t ≠ [] → 0 < Writer.countChar32 t := by
  intro t h
  match t with
  | [] => exact absurd rfl h
  | [_] => simp [Writer.countChar32]
  | a :: b :: r => simp only [Writer.countChar32]; split <;> omega

theorem writeNumb_good_gen (c : Ctx) (t : Str) (q : Bool) (ht : t ≠ []) (wit : Prop)
    (hq : q = true → Good c (writeChar c t true true) wit)
    (hl : q = false → t.length > LINE → Good c (writeChar c t false true) wit) :
    Good c (writeNumb c t q) wit := by
  unfold writeNumb
  cases q with
  | true => exact hq rfl
  | false =>
    simp only [Bool.false_eq_true, ↓reduceIte]
    by_cases hlong : t.length > LINE
    · rw [if_pos hlong]; exact hl rfl hlong
    rw [if_neg hlong]
    have hpos := countChar32_pos t ht
    cases hw : writeULiteral c t none true with
    | none =>
      exfalso
      unfold writeULiteral at hw
      simp only at hw
      split at hw
      · cases hw
      · split at hw <;> simp at hw
    | some r =>
      obtain ⟨o, c'⟩ := r
      simp only
      have hne : o.isEmpty = false := by
        unfold writeULiteral at hw
        simp only at hw
        have hn0 : ¬ Writer.countChar32 t = 0 := by omega
        simp only [hn0, ↓reduceIte] at hw
        have hpl : (printfS t.length t) = t := by simp [printfS]
        split at hw
        · simp at hw; rw [← hw.1]; simp
        · simp at hw; rw [← hw.1, hpl]
          cases t with
          | nil => exact absurd rfl ht
          | cons a r => rfl
      simp only [hne, Bool.false_eq_true, ↓reduceIte]
      exact good_ok (writeULiteral_same c t none true (o, c') hw)

theorem writeNumb_good (c : Ctx) (t : Str) (q : Bool) (h2 : c.isCif1 = false) (ht : t ≠ [])
    (hcl : Lemmas.WriterChar.strClean false t = true) (wit : Prop) :
    Good c (writeNumb c t q) wit :=
  writeNumb_good_gen c t q ht wit (fun _ => writeChar_value_good c t true h2 hcl wit) (fun _ _ => writeChar_value_good c t false h2 hcl wit)

/-- a data name that `write_item` can print: at least two units, at most a line of characters -/
def nameOk (n : Str) : Prop := 2 ≤ n.length ∧ Writer.countChar32 n ≤ LINE

theorem writeItemHead_good_gen (c : Ctx) (n : Str) (hv : c.writeItemNames = true → ¬(c.isCif1 = true ∧ validate11 n = false))
    (hn : c.writeItemNames = true → nameOk n) (wit : Prop) :
    Good c (writeItemHead c n) wit := by
  unfold writeItemHead
  apply good_andThen (c := c) (wit := wit)
  · cases hw : c.writeItemNames with
    | false => simp only [Bool.false_eq_true, ↓reduceIte]; exact good_ok (Same.refl c)
    | true =>
      have hok := hn hw
      have hv' := hv hw
      simp only [↓reduceIte, hv']
      -- the name is printed at the beginning of a line
      have key : ∀ (c1 : Ctx) (o1 : Str), Same c c1 → c1.lastColumn = 0 →
          Good c (match writeULiteral c1 n none false with
            | none => (.error ErrCodes.CIF_ERROR : W)
            | some (o2, c2) => if o2.length < 2 then .error ErrCodes.CIF_ERROR else .ok (o1 ++ o2, c2)) wit := by
        intro c1 o1 hs h0
        have hpos : ¬ Writer.countChar32 n = 0 := by
          have h1 := hok.1
          have := countChar32_pos n (by intro e; rw [e] at h1; simp at h1)
          omega
        have hpl : (printfS n.length n) = n := by simp [printfS]
        unfold writeULiteral
        simp only [hpos, ↓reduceIte, h0, Nat.add_zero, hpl]
        have hfit : ¬ Writer.countChar32 n > LINE := by have := hok.2; omega
        simp only [hfit, ↓reduceIte]
        have : ¬ n.length < 2 := by have := hok.1; omega
        simp only [this, ↓reduceIte]
        exact good_ok (hs.trans ⟨rfl, rfl⟩)
      by_cases hc : c.lastColumn > 0
      · simp only [hc, ↓reduceIte]
        exact key (writeNewline c).2 (writeNewline c).1 (writeNewline_same c) rfl
      · simp only [hc, ↓reduceIte]
        exact key c [] (Same.refl c) (by omega)
  · intro c1 hs
    split
    · exact good_ok (ensureSpaced_same c1)
    · exact good_ok (Same.refl c1)

theorem writeItemHead_good (c : Ctx) (n : Str) (h2 : c.isCif1 = false) (hn : c.writeItemNames = true → nameOk n) (wit : Prop) :
    Good c (writeItemHead c n) wit :=
  writeItemHead_good_gen c n (fun _ => by simp [h2]) hn wit

/-! ### values -/

mutual
  /-- every number in the value has a non-empty text (true of every number the API builds) -/
  def valueOk : V → Bool
    | .numb _ t _ _ _ _ => !t.isEmpty
    | .lst vs => elemsOk vs
    | .tbl es => entriesOk es
    | _ => true
  def elemsOk : List V → Bool
    | [] => true
    | v :: r => valueOk v && elemsOk r
  def entriesOk : List (Str × Str × V) → Bool
    | [] => true
    | (_, _, v) :: r => valueOk v && entriesOk r
end

mutual
  /-- every text of the value that `write_char` may be given — strings, number texts, table keys — holds no CR and (CIF 2.0 mode,
      `cif1 = false`) only characters CIF 2.0 allows: `write_char` does not refuse it at once -/
  def valueClean (cif1 : Bool) : V → Bool
    | .chr _ t => Lemmas.WriterChar.strClean cif1 t
    | .numb _ t _ _ _ _ => Lemmas.WriterChar.strClean cif1 t
    | .lst vs => elemsClean cif1 vs
    | .tbl es => entriesClean cif1 es
    | _ => true
  def elemsClean (cif1 : Bool) : List V → Bool
    | [] => true
    | v :: r => valueClean cif1 v && elemsClean cif1 r
  def entriesClean (cif1 : Bool) : List (Str × Str × V) → Bool
    | [] => true
    | (_, key, v) :: r => Lemmas.WriterChar.strClean cif1 key && valueClean cif1 v && entriesClean cif1 r
end

mutual
  /-- the value holds a table with at least one entry -/
  def hasEntry : V → Bool
    | .lst vs => elemsHaveEntry vs
    | .tbl es => !es.isEmpty
    | _ => false
  def elemsHaveEntry : List V → Bool
    | [] => false
    | v :: r => hasEntry v || elemsHaveEntry r
end

theorem good_with_ctx {c : Ctx} {r : W} {wit : Prop} (c0 : Ctx) (hs : Same c0 c) (h : Good c r wit) :
    (∃ o c', r = .ok (o, c') ∧ Same c0 c') ∨ (r = .error ErrCodes.CIF_DISALLOWED_VALUE ∧ wit) := by
  rcases h with ⟨o, c', h1, h2⟩ | h
  · exact Or.inl ⟨o, c', h1, hs.trans h2⟩
  · exact Or.inr h

mutual
  theorem item_good (n : Str) (v : V) (c : Ctx) (h2 : c.isCif1 = false) (hn : c.writeItemNames = true → nameOk n)
      (hv : valueOk v = true) (hcl : valueClean false v = true) : Good c (writeItem n v c) (hasEntry v = true) := by
    unfold writeItem
    apply good_andThen (writeItemHead_good c n h2 hn _)
    intro c1 hs1
    have h21 : c1.isCif1 = false := by rw [hs1.isCif1]; exact h2
    match v, hv, hcl with
    | .chr q t, _, hcl => exact writeChar_value_good c1 t q h21 (by simpa [valueClean] using hcl) _
    | .numb q t _ _ _ _, hv, hcl =>
      apply writeNumb_good c1 t q h21 _ (by simpa [valueClean] using hcl) _
      intro e; subst e; simp [valueOk] at hv
    | .na, _, _ => exact literalOrError_wrap_good _ _ _
    | .unk, _, _ => exact literalOrError_wrap_good _ _ _
    | .lst vs, hv, hcl =>
      simp only [h21, Bool.false_eq_true, ↓reduceIte]
      apply good_andThen (literalOrError_wrap_good c1 [91] _)
      intro c2 hs2
      have hE := elems_good vs { c2 with writeItemNames := false, separateValues := true }
        (by have := hs2.isCif1; simp only [Ctx.isCif1] at this h21 ⊢; rw [this]; exact h21) rfl (by simpa [valueOk] using hv)
        (by simpa [valueClean] using hcl)
      -- the element loop runs in a context with `write_item_names` off; it is restored afterwards
      rcases hE with ⟨o3, c3, he, hs3⟩ | ⟨he, hw⟩
      · simp only [andThen, he]
        obtain ⟨r4, hr4⟩ := writeLiteral_wrap_some c3 [32, 93]
        have hs4 := writeLiteral_same c3 [32, 93] true r4 hr4
        simp only [literalOrError, hr4]
        left
        refine ⟨_, _, rfl, ?_⟩
        exact ⟨(by simp only []; rw [hs4.1, hs3.1]), rfl⟩
      · right
        constructor
        · simp [andThen, he]
        · simpa [hasEntry] using hw
    | .tbl es, hv, hcl =>
      simp only [h21, Bool.false_eq_true, ↓reduceIte]
      apply good_andThen (literalOrError_wrap_good c1 [123] _)
      intro c2 hs2
      have hE := entries_good es { c2 with writeItemNames := false }
        (by have := hs2.isCif1; simp only [Ctx.isCif1] at this h21 ⊢; rw [this]; exact h21) rfl (by simpa [valueOk] using hv)
        (by simpa [valueClean] using hcl)
      rcases hE with ⟨o3, c3, he, hs3⟩ | ⟨he, hw⟩
      · simp only [andThen, he]
        obtain ⟨r4, hr4⟩ := writeLiteral_wrap_some c3 [32, 125]
        have hs4 := writeLiteral_same c3 [32, 125] true r4 hr4
        simp only [literalOrError, hr4]
        left
        refine ⟨_, _, rfl, ?_⟩
        exact ⟨(by simp only []; rw [hs4.1, hs3.1]), rfl⟩
      · right
        constructor
        · simp [andThen, he]
        · simp only [hasEntry, Bool.not_eq_true', List.isEmpty_eq_false_iff]
          exact hw
  theorem elems_good (vs : List V) (c : Ctx) (h2 : c.isCif1 = false) (hnm : c.writeItemNames = false)
      (hv : elemsOk vs = true) (hcl : elemsClean false vs = true) : Good c (writeElems vs c) (elemsHaveEntry vs = true) := by
    match vs, hv, hcl with
    | [], _, _ => unfold writeElems; exact good_ok (Same.refl c)
    | v :: rest, hv, hcl =>
      unfold writeElems
      simp only [elemsOk, Bool.and_eq_true] at hv
      simp only [elemsClean, Bool.and_eq_true] at hcl
      apply good_andThen ((item_good [] v c h2 (by intro h; rw [hnm] at h; cases h) hv.1 hcl.1).mono (by intro h; simp [elemsHaveEntry, h]))
      intro c1 hs1
      exact (elems_good rest c1 (by rw [hs1.isCif1]; exact h2) (by rw [hs1.names]; exact hnm) hv.2 hcl.2).mono
        (by intro h; simp [elemsHaveEntry, h])
  theorem entries_good (es : List (Str × Str × V)) (c : Ctx) (h2 : c.isCif1 = false) (hnm : c.writeItemNames = false)
      (hv : entriesOk es = true) (hcl : entriesClean false es = true) : Good c (writeEntries es c) (es ≠ []) := by
    match es, hv, hcl with
    | [], _, _ => unfold writeEntries; exact good_ok (Same.refl c)
    | (kn, key, v) :: rest, hv, hcl =>
      unfold writeEntries
      simp only [entriesOk, Bool.and_eq_true] at hv
      simp only [entriesClean, Bool.and_eq_true] at hcl
      have hwit : ((kn, key, v) :: rest) ≠ [] := by simp
      -- the optional line break, the separator
      generalize hc0 : (if (key.length : Int) > (LINE : Int) - (c.lastColumn + 8) then writeNewline c else ([], c)) = p0
      have hs0 : Same c p0.2 := by
        rw [← hc0]; split
        · exact writeNewline_same c
        · exact Same.refl c
      obtain ⟨o0, c0⟩ := p0
      simp only
      generalize hc1 : ensureSpaced { c0 with separateValues := false } = p1
      have hs1 : Same c p1.2 := by
        rw [← hc1]
        exact (hs0.trans ⟨rfl, rfl⟩).trans (ensureSpaced_same _)
      obtain ⟨o1, c2⟩ := p1
      simp only
      apply good_andThen (good_ok hs1)
      intro c2 hs1
      have h22 : c2.isCif1 = false := by rw [Same.isCif1 hs1]; exact h2
      have hnm2 : c2.writeItemNames = false := by rw [hs1.names]; exact hnm
      -- key, colon, value, the remaining entries
      apply good_andThen ((writeChar_key_good c2 key h22 hcl.1.1).mono (fun _ => hwit))
      intro c3 hs3
      apply good_andThen (c := c3)
      · cases hl : writeLiteral c3 [58] false with
        | none => exact Or.inr ⟨rfl, hwit⟩
        | some r => exact good_ok (writeLiteral_same c3 [58] false r hl)
      · intro c4 hs4
        have h24 : c4.isCif1 = false := by rw [(hs3.trans hs4).isCif1]; exact h22
        have hnm4 : c4.writeItemNames = false := by rw [(hs3.trans hs4).names]; exact hnm2
        apply good_andThen ((item_good [] v c4 h24 (by intro h; rw [hnm4] at h; cases h) hv.1 hcl.1.2).mono (fun _ => hwit))
        intro c5 hs5
        exact (entries_good rest c5 (by rw [hs5.isCif1]; exact h24) (by rw [hs5.names]; exact hnm4) hv.2 hcl.2).mono (fun _ => hwit)
end

/-! ### items, packets, loops, containers, the CIF -/

/-- success (the version unchanged), or CIF_DISALLOWED_VALUE with a witness -/
def GoodV (c : Ctx) (r : W) (wit : Prop) : Prop :=
  (∃ o c', r = .ok (o, c') ∧ c'.version = c.version) ∨ (r = .error ErrCodes.CIF_DISALLOWED_VALUE ∧ wit)

theorem Good.toV {c : Ctx} {r : W} {wit : Prop} (h : Good c r wit) : GoodV c r wit := by
  rcases h with ⟨o, c', h1, hs⟩ | h
  · exact Or.inl ⟨o, c', h1, hs.1⟩
  · exact Or.inr h

theorem GoodV.mono {c : Ctx} {r : W} {p q : Prop} (h : GoodV c r p) (hpq : p → q) : GoodV c r q := by
  rcases h with h | ⟨h1, h2⟩
  · exact Or.inl h
  · exact Or.inr ⟨h1, hpq h2⟩

theorem goodV_andThen {c : Ctx} {a : W} {f : Ctx → W} {wit : Prop} (ha : GoodV c a wit)
    (hf : ∀ c1, c1.version = c.version → GoodV c1 (f c1) wit) : GoodV c (andThen a f) wit := by
  rcases ha with ⟨o, c1, h1, hs⟩ | ⟨h1, hw⟩
  · rcases hf c1 hs with ⟨o2, c2, h2, hs2⟩ | ⟨h2, hw⟩
    · left; exact ⟨o ++ o2, c2, by simp [andThen, h1, h2], hs2.trans hs⟩
    · right; exact ⟨by simp [andThen, h1, h2], hw⟩
  · right; exact ⟨by simp [andThen, h1], hw⟩

theorem goodV_ok {c : Ctx} {o : Str} {c' : Ctx} {wit : Prop} (hs : c'.version = c.version) : GoodV c (.ok (o, c')) wit :=
  Or.inl ⟨o, c', rfl, hs⟩

theorem isCif1_of_version {c c' : Ctx} (h : c'.version = c.version) (h2 : c.isCif1 = false) : c'.isCif1 = false := by
  unfold Ctx.isCif1 at *; rw [h]; exact h2

/-- the items of a packet are writable: values well-formed, and — where names are written — names printable -/
def itemsOk (named : Bool) (p : List (Str × V)) : Prop := ∀ nv ∈ p, valueOk nv.2 = true ∧ (named = true → nameOk nv.1)

def itemsHaveEntry (p : List (Str × V)) : Prop := ∃ nv ∈ p, hasEntry nv.2 = true

/-- every text of the packet's values is clean (`valueClean`) -/
def itemsClean (cif1 : Bool) (p : List (Str × V)) : Prop := ∀ nv ∈ p, valueClean cif1 nv.2 = true

theorem items_good : ∀ (p : List (Str × V)) (c : Ctx), c.isCif1 = false → itemsOk c.writeItemNames p → itemsClean false p →
    Good c (writeItems p c) (itemsHaveEntry p) := by
  intro p
  induction p with
  | nil => intro c _ _ _; exact good_ok (Same.refl c)
  | cons nv rest ih =>
    intro c h2 hok hcl
    obtain ⟨n, v⟩ := nv
    simp only [writeItems]
    have h1 := hok (n, v) List.mem_cons_self
    apply good_andThen ((item_good n v c h2 h1.2 h1.1 (hcl (n, v) List.mem_cons_self)).mono (fun h => ⟨(n, v), List.mem_cons_self, h⟩))
    intro c1 hs1
    apply (ih c1 (by rw [hs1.isCif1]; exact h2) ?_ (fun x hx => hcl x (List.mem_cons_of_mem _ hx))).mono
    · rintro ⟨x, hx, hh⟩; exact ⟨x, List.mem_cons_of_mem _ hx, hh⟩
    · rw [hs1.names]; exact fun x hx => hok x (List.mem_cons_of_mem _ hx)

def packetsHaveEntry (ps : List (List (Str × V))) : Prop := ∃ p ∈ ps, itemsHaveEntry p

theorem packets_good : ∀ (ps : List (List (Str × V))) (c : Ctx), c.isCif1 = false →
    (∀ p ∈ ps, itemsOk c.writeItemNames p) → (∀ p ∈ ps, itemsClean false p) → Good c (writePackets ps c) (packetsHaveEntry ps) := by
  intro ps
  induction ps with
  | nil => intro c _ _ _; exact good_ok (Same.refl c)
  | cons p rest ih =>
    intro c h2 hok hcl
    simp only [writePackets, writePacket]
    apply good_andThen (c := c)
    · apply good_andThen ((items_good p c h2 (hok p List.mem_cons_self) (hcl p List.mem_cons_self)).mono (fun h => ⟨p, List.mem_cons_self, h⟩))
      intro c1 hs1
      exact good_ok (writeNewline_same c1)
    · intro c1 hs1
      apply (ih c1 (by rw [hs1.isCif1]; exact h2) ?_ (fun x hx => hcl x (List.mem_cons_of_mem _ hx))).mono
      · rintro ⟨x, hx, hh⟩; exact ⟨x, List.mem_cons_of_mem _ hx, hh⟩
      · rw [hs1.names]; exact fun x hx => hok x (List.mem_cons_of_mem _ hx)

theorem headerNames_good : ∀ (ns : List Str) (c : Ctx), c.isCif1 = false →
    ∃ o c', writeHeaderNames ns c = .ok (o, c') ∧ Same c c' := by
  intro ns
  induction ns with
  | nil => intro c _; exact ⟨[], c, rfl, Same.refl c⟩
  | cons n rest ih =>
    intro c h2
    simp only [writeHeaderNames, h2, Bool.false_eq_true, false_and, ↓reduceIte]
    obtain ⟨o, c', h, hs⟩ := ih { c with lastColumn := 0 } (by simpa [Ctx.isCif1] using h2)
    exact ⟨(if Writer.countChar32 n < LINE then [32] else []) ++ n ++ [10] ++ o, c', by simp [andThen, h], ⟨hs.1, hs.2⟩⟩

/-- a loop is writable: it holds a packet, and all its items are -/
def loopOk (l : WLoop) : Prop := l.packets ≠ [] ∧ ∀ p ∈ l.packets, itemsOk (isScalars l.category) p

/-- every text of the loop's values is clean -/
def loopClean (cif1 : Bool) (l : WLoop) : Prop := ∀ p ∈ l.packets, itemsClean cif1 p

theorem loop_good (l : WLoop) (c : Ctx) (h2 : c.isCif1 = false) (hok : loopOk l) (hcl : loopClean false l) :
    GoodV c (writeLoop l c) (packetsHaveEntry l.packets) := by
  unfold writeLoop
  have hne : l.packets.isEmpty = false := by
    cases hp : l.packets with
    | nil => exact absurd hp hok.1
    | cons a b => rfl
  -- after the loop start handler: version unchanged, `write_item_names` = "this is the scalar loop"
  have key : ∀ (o0 : Str) (c1 : Ctx), c1.version = c.version → c1.writeItemNames = isScalars l.category →
      GoodV c ((fun c1 => if l.packets.isEmpty then (.error ErrCodes.CIF_EMPTY_LOOP : W)
          else andThen (writePackets l.packets c1) fun c2 => .ok (writeNewline c2)) c1) (packetsHaveEntry l.packets) := by
    intro o0 c1 hv hn
    simp only [hne, Bool.false_eq_true, ↓reduceIte]
    have h21 := isCif1_of_version hv h2
    have hp := packets_good l.packets c1 h21 (by rw [hn]; exact hok.2) hcl
    rcases hp with ⟨o, c2, he, hs⟩ | ⟨he, hw⟩
    · left; exact ⟨o ++ (writeNewline c2).1, (writeNewline c2).2, by simp [andThen, he], by simp [writeNewline]; rw [hs.1, hv]⟩
    · right; exact ⟨by simp [andThen, he], hw⟩
  by_cases hsc : isScalars l.category = true
  · simp only [hsc, ↓reduceIte]
    have := key [] { (writeNewline c).2 with writeItemNames := true } rfl (by simp [hsc])
    rcases this with ⟨o, c', he, hs⟩ | ⟨he, hw⟩
    · left; exact ⟨_, c', by simp only [andThen] at he ⊢; simp [writeNewline] at he ⊢; rw [he], hs⟩
    · right; exact ⟨by simp only [andThen] at he ⊢; simp [writeNewline] at he ⊢; rw [he], hw⟩
  · have hsc' : isScalars l.category = false := by simpa using hsc
    simp only [hsc', Bool.false_eq_true, ↓reduceIte]
    obtain ⟨oh, ch, hh, hsh⟩ := headerNames_good l.header { c with writeItemNames := false, lastColumn := 0 }
      (by simpa [Ctx.isCif1] using h2)
    have := key [] ch (by rw [hsh.1]) (by rw [hsh.2, hsc'])
    rcases this with ⟨o, c', he, hs⟩ | ⟨he, hw⟩
    · left; exact ⟨_, c', by simp only [andThen, hh] at he ⊢; rw [he], hs⟩
    · right; exact ⟨by simp only [andThen, hh] at he ⊢; rw [he], hw⟩

def loopsHaveEntry (ls : List WLoop) : Prop := ∃ l ∈ ls, packetsHaveEntry l.packets

theorem loops_good : ∀ (ls : List WLoop) (c : Ctx), c.isCif1 = false → (∀ l ∈ ls, loopOk l) → (∀ l ∈ ls, loopClean false l) →
    GoodV c (writeLoops ls c) (loopsHaveEntry ls) := by
  intro ls
  induction ls with
  | nil => intro c _ _ _; exact goodV_ok rfl
  | cons l rest ih =>
    intro c h2 hok hcl
    simp only [writeLoops]
    apply goodV_andThen ((loop_good l c h2 (hok l List.mem_cons_self) (hcl l List.mem_cons_self)).mono (fun h => ⟨l, List.mem_cons_self, h⟩))
    intro c1 hv
    apply (ih c1 (isCif1_of_version hv h2) (fun x hx => hok x (List.mem_cons_of_mem _ hx)) (fun x hx => hcl x (List.mem_cons_of_mem _ hx))).mono
    rintro ⟨x, hx, hh⟩; exact ⟨x, List.mem_cons_of_mem _ hx, hh⟩

mutual
  /-- a container is writable: all its loops are, and so are its save frames -/
  def containerOk : WContainer → Prop
    | .mk _ frames loops => containersOk frames ∧ ∀ l ∈ loops, loopOk l
  def containersOk : List WContainer → Prop
    | [] => True
    | k :: rest => containerOk k ∧ containersOk rest
end

mutual
  /-- every string, number text and table key in the container (its save frames included) is clean: no CR, and for CIF 2.0 output
      (`cif1 = false`) only characters CIF 2.0 allows — the property's "strings use only CIF 2.0 characters (no CR)" -/
  def containerClean (cif1 : Bool) : WContainer → Prop
    | .mk _ frames loops => containersClean cif1 frames ∧ ∀ l ∈ loops, loopClean cif1 l
  def containersClean (cif1 : Bool) : List WContainer → Prop
    | [] => True
    | k :: rest => containerClean cif1 k ∧ containersClean cif1 rest
end

mutual
  /-- some value of the container holds a table entry -/
  def containerHasEntry : WContainer → Prop
    | .mk _ frames loops => containersHaveEntry frames ∨ loopsHaveEntry loops
  def containersHaveEntry : List WContainer → Prop
    | [] => False
    | k :: rest => containerHasEntry k ∨ containersHaveEntry rest
end

mutual
  theorem container_good (k : WContainer) (c : Ctx) (h2 : c.isCif1 = false) (hok : containerOk k) (hcl : containerClean false k) :
      GoodV c (writeContainer k c) (containerHasEntry k) := by
    match k, hok, hcl with
    | .mk code frames loops, hok, hcl =>
      simp only [containerOk] at hok
      simp only [containerClean] at hcl
      unfold writeContainer
      simp only [h2, Bool.false_eq_true, false_and, ↓reduceIte]
      apply goodV_andThen (goodV_ok (c' := { c with lastColumn := 0, depth := c.depth + 1 }) rfl)
      intro c1 hv1
      have h21 := isCif1_of_version hv1 (show ({ c with lastColumn := 0, depth := c.depth + 1 } : Ctx).isCif1 = false by
        simpa [Ctx.isCif1] using h2)
      apply goodV_andThen ((containers_good frames c1 h21 hok.1 hcl.1).mono (fun h => by simp [containerHasEntry, h]))
      intro c2 hv2
      have h22 := isCif1_of_version hv2 h21
      apply goodV_andThen ((loops_good loops c2 h22 hok.2 hcl.2).mono (fun h => by simp [containerHasEntry, h]))
      intro c3 hv3
      split
      · exact goodV_ok (by simp [writeNewline])
      · exact goodV_ok rfl
  theorem containers_good (ks : List WContainer) (c : Ctx) (h2 : c.isCif1 = false) (hok : containersOk ks)
      (hcl : containersClean false ks) : GoodV c (writeContainers ks c) (containersHaveEntry ks) := by
    match ks, hok, hcl with
    | [], _, _ => unfold writeContainers; exact goodV_ok rfl
    | k :: rest, hok, hcl =>
      simp only [containersOk] at hok
      simp only [containersClean] at hcl
      unfold writeContainers
      apply goodV_andThen ((container_good k c h2 hok.1 hcl.1).mono (fun h => by simp [containersHaveEntry, h]))
      intro c1 hv1
      exact (containers_good rest c1 (isCif1_of_version hv1 h2) hok.2 hcl.2).mono (fun h => by simp [containersHaveEntry, h])
end

end CifModel.Lemmas.WriterTotal
