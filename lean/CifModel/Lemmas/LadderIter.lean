import CifModel.Lemmas.LadderTree
import CifModel.Lemmas.LadderNamesNorm
import CifModel.Model.LadderIter
/-
  CifModel.Lemmas.LadderIter — the packet iterator's ladders: cif_loop_get_packets (name set) and
  cif_pktitr_next_packet (packet assembly), every name list / item list / fault position.
-/
namespace CifModel.Lemmas.Ladder
open CifModel.Model.Ladder CifModel.Spec.HeapTrace

-- ---------------------------------------------------------------------------------------------------------------
-- the name set

def elIds (els : List (Nat × Nat)) : List Nat := els.map (·.1)
def elHashes (els : List (Nat × Nat)) : List Nat := els.map (·.2)

theorem shadowSet_hashes (els : List (Nat × Nat)) : (shadowSet els).map (·.hashv) = elHashes els := by
  simp [shadowSet, elHashes, shadowEntry, List.map_map, Function.comp_def]

theorem freeSet_spec (ut : Option UT) : ∀ (els : List (Nat × Nat)) (s : St) (L : List Nat), (els = [] → ut = none) →
    Inv s (utBlocks ut ++ (elIds els ++ L)) → Inv (freeSet ut els s) L ∧ Same s (freeSet ut els s)
  | [], s, L, hu, h => by
    have := hu rfl
    subst this
    simp only [freeSet]
    exact ⟨by simpa [utBlocks, elIds] using h, Same.refl s⟩
  | [(el, hv)], s, L, _, h => by
    simp only [freeSet, List.isEmpty_nil, if_true]
    cases ut with
    | none =>
      simp only
      have h1 : Inv s (el :: L) := by simpa [utBlocks, elIds] using h
      exact ⟨h1.free, (Same.refl s).free _⟩
    | some u =>
      simp only
      have h1 : Inv s (u.bkts :: u.tbl :: el :: L) := h.perm (by simp only [utBlocks, elIds]; perm_ac)
      exact ⟨h1.free.free.free, (((Same.refl s).free _).free _).free _⟩
  | (el, hv) :: e' :: els, s, L, _, h => by
    simp only [freeSet, List.isEmpty_cons, Bool.false_eq_true, if_false]
    have h1 : Inv s (el :: (utBlocks ut ++ (elIds (e' :: els) ++ L))) := h.perm (by simp only [elIds]; perm_ac)
    have ⟨g1, g2⟩ := freeSet_spec ut (e' :: els) _ L (fun hx => by cases hx) h1.free
    simp only [freeSet] at g1 g2
    exact ⟨g1, ((Same.refl s).free _).trans g2⟩

theorem pktitrFree_spec (itr arr : Nat) (names : List Nat) (ut : Option UT) (els : List (Nat × Nat)) (s : St) (L : List Nat)
    (hu : els = [] → ut = none) (h : Inv s (names ++ (arr :: (utBlocks ut ++ (elIds els ++ (itr :: L)))))) :
    Inv (pktitrFree itr arr names ut els s) L ∧ Same s (pktitrFree itr arr names ut els s) := by
  unfold pktitrFree
  have i1 := (h.freeAll names _ _).free
  have ⟨f1, f2⟩ := freeSet_spec ut els _ _ hu i1
  exact ⟨f1.free, ((((Same.freeAll names s).free _).trans f2).free _)⟩

/-- requests of the name-set loop: per name the element and what HASH_ADD_KEYPTR requests -/
def setAllocs : List Nat → Option BK → List Nat → Nat
  | [], _, _ => 0
  | h :: rest, b, hs => 1 + (bkAdd b (hs ++ [h]) h).2 + setAllocs rest (some (bkAdd b (hs ++ [h]) h).1) (hs ++ [h])

theorem nameSetLoop_spec (k itr arr : Nat) (names : List Nat) : ∀ (todo : List Nat) (ut : Option UT)
    (done : List (Nat × Nat)) (s : St) (L : List Nat), (done = [] → ut = none) →
    Inv s (names ++ (arr :: (utBlocks ut ++ (elIds done ++ (itr :: L))))) →
    (∃ ut' els, (nameSetLoop k itr arr names todo ut done s).1 = some (ut', els) ∧
        Good k (setAllocs todo (ut.map bkOf) (elHashes done)) s (nameSetLoop k itr arr names todo ut done s).2 ∧
        Inv (nameSetLoop k itr arr names todo ut done s).2 (names ++ (arr :: (utBlocks ut' ++ (elIds els ++ (itr :: L)))))) ∨
    ((nameSetLoop k itr arr names todo ut done s).1 = none ∧
        Bad k (setAllocs todo (ut.map bkOf) (elHashes done)) s (nameSetLoop k itr arr names todo ut done s).2 ∧
        Inv (nameSetLoop k itr arr names todo ut done s).2 L)
  | [], ut, done, s, L, _, h => by
    left
    simp only [nameSetLoop, setAllocs]
    exact ⟨ut, done, rfl, Good.refl k s, h⟩
  | hv :: rest, ut, done, s, L, hu, h => by
    have hfree : ∀ (s' : St), Inv s' (names ++ (arr :: (utBlocks ut ++ (elIds done ++ (itr :: L))))) →
        Inv (pktitrFree itr arr names ut done s') L ∧ Same s' (pktitrFree itr arr names ut done s') :=
      fun s' hs => pktitrFree_spec itr arr names ut done s' L hu hs
    simp only [nameSetLoop, setAllocs]
    generalize hN : (bkAdd (ut.map bkOf) (elHashes done ++ [hv]) hv) = bk
    rcases alloc_cases k s with ⟨hk, ha⟩ | ⟨hk, ha⟩ <;> simp only [ha]
    · right
      have ⟨c1, c2⟩ := hfree _ h.fail
      exact ⟨trivial, ((Bad.alloc hk).same c2).mono (by omega), c1⟩
    · have g1 := Good.alloc hk
      have i1 := h.alloc
      generalize ({ count := s.count + 1, evs := s.evs ++ [.alloc (s.count + 1)] } : St) = s1 at g1 i1 ⊢
      generalize s.count + 1 = el at g1 i1 ⊢
      have hh := hashAdd_bk k { ut := ut, entries := shadowSet done } (shadowEntry { key := 0, orig := 0, hashv := hv }) s1
        (el :: (names ++ (arr :: (elIds done ++ (itr :: L))))) (by rw [utIds_eq_utBlocks]; exact i1.perm (by perm_ac))
      simp only [shadowSet_hashes] at hh
      have he : (shadowEntry { key := 0, orig := 0, hashv := hv }).hashv = hv := rfl
      rw [he, hN] at hh
      generalize hashAdd k { ut := ut, entries := shadowSet done } (shadowEntry { key := 0, orig := 0, hashv := hv }) s1 = r at hh ⊢
      obtain ⟨ro, s2⟩ := r
      rcases hh with ⟨u', a1, ab, a4, a5⟩ | ⟨t, a1, a4, a5⟩ <;> simp only at a1 a4 a5 <;> subst a1 <;> simp only
      · have i2 : Inv s2 (names ++ (arr :: (utBlocks (some u') ++ (elIds (done ++ [(el, hv)]) ++ (itr :: L))))) := by
          refine a5.perm ?_
          simp only [utBlocks, UT.ids, elIds, List.map_append, List.map_cons, List.map_nil]; perm_ac
        have ih := nameSetLoop_spec k itr arr names rest (some u') (done ++ [(el, hv)]) s2 L (fun hx => by simp at hx) i2
        have hl : elHashes (done ++ [(el, hv)]) = elHashes done ++ [hv] := by simp [elHashes]
        rw [hl] at ih
        simp only [Option.map] at ih
        rw [ab] at ih
        rcases ih with ⟨ut', els, e1, e4, e5⟩ | ⟨e1, e4, e5⟩
        · left
          exact ⟨ut', els, e1, (g1.trans a4).trans' e4 (by omega), e5⟩
        · right
          exact ⟨e1, (g1.trans a4).bad' e4 (by omega), e5⟩
      · right
        have i2 : Inv s2 (t ++ (el :: (names ++ (arr :: (utBlocks ut ++ (elIds done ++ (itr :: L))))))) := by
          refine a5.perm ?_
          rw [utIds_eq_utBlocks]; perm_ac
        have i3 := (i2.freeAll t _ _).free
        have ⟨c1, c2⟩ := hfree _ i3
        exact ⟨trivial, ((((g1.bad a4).same (Same.freeAll t s2)).free _).same c2).mono (by omega), c1⟩

/-- requests of cif_loop_get_packets on a loop whose names have the hash values `hs` (fault-free) -/
def getPacketsAllocs (hs : List Nat) : Nat := 1 + namesNormAllocs hs.length + setAllocs hs none []

theorem getPackets_spec (k : Nat) (hs : List Nat) (hne : hs ≠ []) (s : St) (L : List Nat) (h : Inv s L) :
    (∃ o, (getPackets k hs s).1 = OK ∧ (getPackets k hs s).2.1 = some o ∧ o.names.length = hs.length ∧
        Good k (getPacketsAllocs hs) s (getPackets k hs s).2.2 ∧ Inv (getPackets k hs s).2.2 (o.ids ++ L)) ∨
    ((getPackets k hs s).1 = MEMORY_ERROR ∧ (getPackets k hs s).2.1 = none ∧
        Bad k (getPacketsAllocs hs) s (getPackets k hs s).2.2 ∧ Inv (getPackets k hs s).2.2 L) := by
  have hn : hs.length ≠ 0 := fun h0 => hne (List.eq_nil_of_length_eq_zero h0)
  simp only [getPackets, getPacketsAllocs]
  rcases alloc_cases k s with ⟨hk, ha⟩ | ⟨hk, ha⟩ <;> simp only [ha]
  · right
    exact ⟨trivial, trivial, (Bad.alloc hk).mono (by omega), h.fail⟩
  · have g1 := Good.alloc hk
    have i1 := h.alloc
    generalize ({ count := s.count + 1, evs := s.evs ++ [.alloc (s.count + 1)] } : St) = s1 at g1 i1 ⊢
    generalize s.count + 1 = itr at g1 i1 ⊢
    have hh := getNamesNorm_spec k hs.length s1 _ i1
    generalize getNamesNorm k hs.length s1 = r at hh ⊢
    obtain ⟨rc, owned, s2⟩ := r
    rcases hh with ⟨h1, h2, h3, h4⟩ | ⟨h1, h2, h3, h4⟩ <;> simp only at h1 h2 h3 h4
    · rw [if_neg hn] at h1
      subst h1
      cases owned with
      | nil =>
        exfalso
        simp only [List.length_nil, namesNormAllocs, if_neg hn] at h3
        omega
      | cons arr names =>
        simp only [ne_eq, not_true_eq_false, if_false]
        have hlen : names.length = hs.length := by
          simp only [List.length_cons, namesNormAllocs, if_neg hn] at h3
          omega
        have i2 : Inv s2 (names ++ (arr :: (utBlocks none ++ (elIds [] ++ (itr :: L))))) :=
          h4.perm (by simp only [utBlocks, elIds]; perm_ac)
        have hh := nameSetLoop_spec k itr arr names hs none [] s2 L (fun _ => rfl) i2
        simp only [Option.map, elHashes, List.map_nil] at hh
        generalize nameSetLoop k itr arr names hs none [] s2 = r at hh ⊢
        obtain ⟨ro, s3⟩ := r
        rcases hh with ⟨ut', els, e1, e2, e3⟩ | ⟨e1, e2, e3⟩ <;> simp only at e1 e2 e3 <;> subst e1 <;> simp only
        · left
          refine ⟨_, by trivial, by trivial, hlen, (g1.trans h2).trans' e2 (by omega), e3.perm ?_⟩
          simp only [ItrOwned.ids, elIds]; perm_ac
        · right
          exact ⟨trivial, trivial, (g1.trans h2).bad' e2 (by omega), e3⟩
    · subst h1 h2
      simp only
      right
      exact ⟨trivial, trivial, (g1.bad h3).free _ |>.mono (by omega), h4.free⟩

-- ---------------------------------------------------------------------------------------------------------------
-- the packet assembly

def WFP : List (PKey × VOwned) → Prop
  | [] => True
  | (_, v) :: es => v.WF ∧ WFP es

theorem WFP_append (a b : List (PKey × VOwned)) : WFP (a ++ b) ↔ WFP a ∧ WFP b := by
  induction a with
  | nil => simp [WFP]
  | cons e es ih => obtain ⟨pk, v⟩ := e; simp [WFP, ih, and_assoc]

theorem WFP_unk (es : List (PKey × Nat)) : WFP (unkEntries es) := by
  induction es with
  | nil => trivial
  | cons e es ih => exact ⟨trivial, ih⟩

theorem pentriesIds_append (a b : List (PKey × VOwned)) : pentriesIds (a ++ b) = pentriesIds a ++ pentriesIds b := by
  induction a with
  | nil => simp [pentriesIds]
  | cons e es ih => obtain ⟨pk, v⟩ := e; simp [pentriesIds, ih]

/-- blocks of a fresh packet's entries: key copy and entry block each -/
def kIds : List (PKey × Nat) → List Nat
  | [] => []
  | (pk, ent) :: es => pk.key :: ent :: kIds es

theorem kIds_append (a b : List (PKey × Nat)) : kIds (a ++ b) = kIds a ++ kIds b := by
  induction a with
  | nil => simp [kIds]
  | cons e es ih => obtain ⟨pk, v⟩ := e; simp [kIds, ih]

theorem pentriesIds_unk (es : List (PKey × Nat)) : pentriesIds (unkEntries es) = kIds es := by
  induction es with
  | nil => rfl
  | cons e es ih =>
    obtain ⟨pk, ent⟩ := e
    simp only [unkEntries, List.map_cons, pentriesIds, kIds, VOwned.ids] at ih ⊢
    rw [ih]; rfl

theorem cleanPacket_spec (ut : Option UT) : ∀ (es : List (PKey × VOwned)) (s : St) (L : List Nat),
    (es = [] → ut = none) → WFP es → Inv s (utBlocks ut ++ (pentriesIds es ++ L)) →
    Inv (cleanPacket ut es s) L ∧ Same s (cleanPacket ut es s)
  | [], s, L, hu, _, h => by
    have := hu rfl
    subst this
    simp only [cleanPacket]
    exact ⟨by simpa [utBlocks, pentriesIds] using h, Same.refl s⟩
  | [(pk, v)], s, L, _, w, h => by
    simp only [cleanPacket, List.isEmpty_nil, if_true]
    cases ut with
    | none =>
      simp only
      have h1 : Inv s (pk.key :: (v.ids ++ L)) := by simpa [utBlocks, pentriesIds] using h
      have ⟨f1, f2⟩ := freeV_spec v _ L w.1 h1.free
      exact ⟨f1, ((Same.refl s).free _).trans f2⟩
    | some u =>
      simp only
      have h1 : Inv s (u.bkts :: u.tbl :: pk.key :: (v.ids ++ L)) := h.perm (by simp only [utBlocks, pentriesIds]; perm_ac)
      have ⟨f1, f2⟩ := freeV_spec v _ L w.1 h1.free.free.free
      exact ⟨f1, ((((Same.refl s).free _).free _).free _).trans f2⟩
  | (pk, v) :: e' :: es, s, L, _, w, h => by
    simp only [cleanPacket, List.isEmpty_cons, Bool.false_eq_true, if_false]
    have h1 : Inv s (pk.key :: (v.ids ++ (utBlocks ut ++ (pentriesIds (e' :: es) ++ L)))) :=
      h.perm (by simp only [pentriesIds]; perm_ac)
    have ⟨f1, f2⟩ := freeV_spec v _ _ w.1 h1.free
    have ⟨g1, g2⟩ := cleanPacket_spec ut (e' :: es) _ L (fun hx => by cases hx) w.2 f1
    simp only [cleanPacket] at g1 g2
    exact ⟨g1, ((Same.refl s).free _).trans (f2.trans g2)⟩

theorem packetFreeV_spec (pkt : Nat) (ut : Option UT) (es : List (PKey × VOwned)) (s : St) (L : List Nat)
    (hu : es = [] → ut = none) (w : WFP es) (h : Inv s (utBlocks ut ++ (pentriesIds es ++ (pkt :: L)))) :
    Inv (packetFreeV pkt ut es s) L ∧ Same s (packetFreeV pkt ut es s) := by
  unfold packetFreeV
  have ⟨f1, f2⟩ := cleanPacket_spec ut es s _ hu w h
  exact ⟨f1.free, f2.free _⟩

def kHashes (es : List (PKey × Nat)) : List Nat := es.map (fun p => p.1.hashv)

theorem shadowK_hashes (es : List (PKey × Nat)) : (shadowK es).map (·.hashv) = kHashes es := by
  simp [shadowK, kHashes, shadowEntry, List.map_map, Function.comp_def]

/-- requests of the loop of cif_packet_create_norm(avoid_aliasing = 1): per name the entry, the key copy, uthash's -/
def cnAllocs : List Nat → Option BK → List Nat → Nat
  | [], _, _ => 0
  | h :: rest, b, hs => 2 + (bkAdd b (hs ++ [h]) h).2 + cnAllocs rest (some (bkAdd b (hs ++ [h]) h).1) (hs ++ [h])

theorem unkEntries_nil_iff (es : List (PKey × Nat)) : unkEntries es = [] ↔ es = [] := by
  cases es <;> simp [unkEntries]

theorem createNormLoop_spec (k pkt : Nat) : ∀ (todo : List Nat) (ut : Option UT) (done : List (PKey × Nat)) (s : St)
    (L : List Nat), (done = [] → ut = none) → Inv s (utBlocks ut ++ (kIds done ++ (pkt :: L))) →
    (∃ ut' es, (createNormLoop k pkt todo ut done s).1 = some (ut', es) ∧ (es = [] → ut' = none) ∧
        es.length = done.length + todo.length ∧
        Good k (cnAllocs todo (ut.map bkOf) (kHashes done)) s (createNormLoop k pkt todo ut done s).2 ∧
        Inv (createNormLoop k pkt todo ut done s).2 (utBlocks ut' ++ (kIds es ++ (pkt :: L)))) ∨
    ((createNormLoop k pkt todo ut done s).1 = none ∧
        Bad k (cnAllocs todo (ut.map bkOf) (kHashes done)) s (createNormLoop k pkt todo ut done s).2 ∧
        Inv (createNormLoop k pkt todo ut done s).2 L)
  | [], ut, done, s, L, hu, h => by
    left
    simp only [createNormLoop, cnAllocs]
    exact ⟨ut, done, rfl, hu, by simp, Good.refl k s, h⟩
  | hv :: rest, ut, done, s, L, hu, h => by
    have hfree : ∀ (s' : St), Inv s' (utBlocks ut ++ (kIds done ++ (pkt :: L))) →
        Inv (packetFreeV pkt ut (unkEntries done) s') L ∧ Same s' (packetFreeV pkt ut (unkEntries done) s') :=
      fun s' hs => packetFreeV_spec pkt ut (unkEntries done) s' L (fun hx => hu ((unkEntries_nil_iff done).mp hx))
        (WFP_unk done) (by rw [pentriesIds_unk]; exact hs)
    simp only [createNormLoop, cnAllocs]
    generalize hN : (bkAdd (ut.map bkOf) (kHashes done ++ [hv]) hv) = bk
    rcases alloc_cases k s with ⟨hk, ha⟩ | ⟨hk, ha⟩ <;> simp only [ha]
    · right
      have ⟨c1, c2⟩ := hfree _ h.fail
      exact ⟨trivial, ((Bad.alloc hk).same c2).mono (by omega), c1⟩
    · have g1 := Good.alloc hk
      have i1 := h.alloc
      generalize ({ count := s.count + 1, evs := s.evs ++ [.alloc (s.count + 1)] } : St) = s1 at g1 i1 ⊢
      generalize s.count + 1 = ent at g1 i1 ⊢
      rcases alloc_cases k s1 with ⟨hk, ha⟩ | ⟨hk, ha⟩ <;> simp only [ha]
      · right
        have ⟨c1, c2⟩ := hfree _ (Inv.free i1.fail)
        exact ⟨trivial, (g1.bad' ((Bad.alloc hk).free _) (by omega)).same c2, c1⟩
      · have g2 := g1.trans (Good.alloc hk)
        have i2 := i1.alloc
        generalize ({ count := s1.count + 1, evs := s1.evs ++ [.alloc (s1.count + 1)] } : St) = s2 at g2 i2 ⊢
        generalize s1.count + 1 = kb at g2 i2 ⊢
        have hh := hashAdd_bk k { ut := ut, entries := shadowK done } (shadowEntry { key := kb, orig := kb, hashv := hv }) s2
          (kb :: ent :: (kIds done ++ (pkt :: L))) (by rw [utIds_eq_utBlocks]; exact i2.perm (by perm_ac))
        simp only [shadowK_hashes] at hh
        have he : (shadowEntry { key := kb, orig := kb, hashv := hv }).hashv = hv := rfl
        rw [he, hN] at hh
        generalize hashAdd k { ut := ut, entries := shadowK done } (shadowEntry { key := kb, orig := kb, hashv := hv }) s2 = r at hh ⊢
        obtain ⟨ro, s3⟩ := r
        rcases hh with ⟨u', a1, ab, a4, a5⟩ | ⟨t, a1, a4, a5⟩ <;> simp only at a1 a4 a5 <;> subst a1 <;> simp only
        · have i3 : Inv s3 (utBlocks (some u') ++ (kIds (done ++ [({ key := kb, hashv := hv }, ent)]) ++ (pkt :: L))) := by
            rw [kIds_append]
            refine a5.perm ?_
            simp only [utBlocks, UT.ids, kIds]; perm_ac
          have ih := createNormLoop_spec k pkt rest (some u') (done ++ [({ key := kb, hashv := hv }, ent)]) s3 L
            (fun hx => by simp at hx) i3
          have hl : kHashes (done ++ [(({ key := kb, hashv := hv } : PKey), ent)]) = kHashes done ++ [hv] := by simp [kHashes]
          rw [hl] at ih
          simp only [Option.map] at ih
          rw [ab] at ih
          rcases ih with ⟨ut', es, e1, e2, e3, e4, e5⟩ | ⟨e1, e4, e5⟩
          · left
            refine ⟨ut', es, e1, e2, ?_, (g2.trans a4).trans' e4 (by omega), e5⟩
            rw [e3]; simp; omega
          · right
            exact ⟨e1, (g2.trans a4).bad' e4 (by omega), e5⟩
        · right
          have i3 : Inv s3 (t ++ (kb :: ent :: (utBlocks ut ++ (kIds done ++ (pkt :: L))))) := by
            refine a5.perm ?_
            rw [utIds_eq_utBlocks]; perm_ac
          have i4 := (i3.freeAll t _ _).free.free
          have ⟨c1, c2⟩ := hfree _ i4
          exact ⟨trivial, (((((g2.bad a4).same (Same.freeAll t s3)).free _).free _).same c2).mono (by omega), c1⟩

/-- `cif_value_deserialize` onto an existing value, as an ownership tree -/
theorem deserOntoV_spec (k obj : Nat) (b : VBlob) (s : St) (L : List Nat) (h : Inv s (obj :: L)) :
    (∃ v, (deserOntoV k obj b s).1 = some v ∧ v.obj = obj ∧ v.WF ∧ Good k (deserVAllocs b) s (deserOntoV k obj b s).2 ∧
        Inv (deserOntoV k obj b s).2 (v.ids ++ L)) ∨
    ((deserOntoV k obj b s).1 = none ∧ Bad k (deserVAllocs b) s (deserOntoV k obj b s).2 ∧
        Inv (deserOntoV k obj b s).2 (obj :: L)) := by
  cases b with
  | lst elems =>
    cases elems with
    | nil =>
      left
      simp only [deserOntoV, deserVAllocs, List.isEmpty_nil, if_true]
      exact ⟨_, rfl, rfl, trivial, Good.refl k s, h⟩
    | cons e es =>
      simp only [deserOntoV, deserVAllocs, List.isEmpty_cons, Bool.false_eq_true, if_false]
      rcases alloc_cases k s with ⟨hk, ha⟩ | ⟨hk, ha⟩ <;> simp only [ha]
      · right
        exact ⟨trivial, (Bad.alloc hk).mono (by omega), h.fail⟩
      · have g1 := Good.alloc hk
        have i1 := h.alloc
        generalize ({ count := s.count + 1, evs := s.evs ++ [.alloc (s.count + 1)] } : St) = s1 at g1 i1 ⊢
        generalize s.count + 1 = arr at g1 i1 ⊢
        have hh := deserElemsV_spec k (e :: es) [] s1 (arr :: obj :: L) trivial (by simpa [VOwned.idsList] using i1)
        generalize deserElemsV k (e :: es) [] s1 = r at hh ⊢
        obtain ⟨ro, rs⟩ := r
        rcases hh with ⟨os, h1, hw, h2, h3⟩ | ⟨h1, h2, h3⟩ <;> simp only at h1 h2 h3 <;> subst h1 <;> simp only
        · left
          exact ⟨_, rfl, rfl, hw, g1.trans h2, h3.perm (by perm_av)⟩
        · right
          exact ⟨trivial, g1.bad' (h2.free _) (by omega), h3.free⟩
  | tbl entries =>
    simp only [deserOntoV, deserVAllocs]
    have hh := deserEntriesV_spec k entries none [] s (obj :: L) (fun _ => rfl) trivial
      (by simpa [utBlocks, VOwned.idsEntries] using h)
    simp only [Option.map, hashes, List.map_nil] at hh
    generalize deserEntriesV k entries none [] s = r at hh ⊢
    obtain ⟨ro, rs⟩ := r
    rcases hh with ⟨ut', es', h1, hw1, hw2, h2, h3⟩ | ⟨h1, h2, h3⟩ <;> simp only at h1 h2 h3 <;> subst h1 <;> simp only
    · left
      exact ⟨_, rfl, rfl, ⟨hw1, hw2⟩, h2, h3.perm (by perm_av)⟩
    · right
      exact ⟨trivial, h2, h3⟩

/-- requests of GET_VALUE_PROPS for one stored value -/
def itemAllocs : ItemVal → Nat
  | .unk => 0
  | .chr => 1
  | .numb hasSu => if hasSu then 3 else 2
  | .blob b => deserVAllocs b

/-- GET_VALUE_PROPS: completed or not, the entry's value is a well-formed ownership tree on the entry block that owns
    exactly what has been obtained -/
theorem fillItem_spec (k ent : Nat) (iv : ItemVal) (s : St) (L : List Nat) (h : Inv s (ent :: L)) :
    (fillItem k ent iv s).2.1.WF ∧ Inv (fillItem k ent iv s).2.2 ((fillItem k ent iv s).2.1.ids ++ L) ∧
    (((fillItem k ent iv s).1 = true ∧ Good k (itemAllocs iv) s (fillItem k ent iv s).2.2) ∨
      ((fillItem k ent iv s).1 = false ∧ Bad k (itemAllocs iv) s (fillItem k ent iv s).2.2)) := by
  cases iv with
  | unk => exact ⟨trivial, h, .inl ⟨by trivial, Good.refl k s⟩⟩
  | chr =>
    simp only [fillItem, itemAllocs]
    rcases alloc_cases k s with ⟨hk, ha⟩ | ⟨hk, ha⟩ <;> simp only [ha]
    · exact ⟨trivial, h.fail, .inr ⟨by trivial, Bad.alloc hk⟩⟩
    · exact ⟨trivial, h.alloc.perm (by perm_av), .inl ⟨by trivial, Good.alloc hk⟩⟩
  | numb hasSu =>
    simp only [fillItem, itemAllocs]
    rcases alloc_cases k s with ⟨hk, ha⟩ | ⟨hk, ha⟩ <;> simp only [ha]
    · exact ⟨trivial, h.fail, .inr ⟨by trivial, (Bad.alloc hk).mono (by split <;> omega)⟩⟩
    · have g1 := Good.alloc hk
      have i1 := h.alloc
      generalize ({ count := s.count + 1, evs := s.evs ++ [.alloc (s.count + 1)] } : St) = s1 at g1 i1 ⊢
      generalize s.count + 1 = t at g1 i1 ⊢
      rcases alloc_cases k s1 with ⟨hk, ha⟩ | ⟨hk, ha⟩ <;> simp only [ha]
      · exact ⟨trivial, i1.fail.perm (by perm_av), .inr ⟨by trivial, g1.bad' (Bad.alloc hk) (by split <;> omega)⟩⟩
      · have g2 := g1.trans (Good.alloc hk)
        have i2 := i1.alloc
        generalize ({ count := s1.count + 1, evs := s1.evs ++ [.alloc (s1.count + 1)] } : St) = s2 at g2 i2 ⊢
        generalize s1.count + 1 = d at g2 i2 ⊢
        cases hasSu with
        | false =>
          simp only [Bool.false_eq_true, if_false]
          exact ⟨trivial, i2.perm (by perm_av), .inl ⟨by trivial, g2⟩⟩
        | true =>
          simp only [if_true]
          rcases alloc_cases k s2 with ⟨hk, ha⟩ | ⟨hk, ha⟩ <;> simp only [ha]
          · exact ⟨trivial, i2.fail.perm (by perm_av), .inr ⟨by trivial, g2.bad' (Bad.alloc hk) (by omega)⟩⟩
          · exact ⟨trivial, i2.alloc.perm (by perm_av), .inl ⟨by trivial, g2.trans (Good.alloc hk)⟩⟩
  | blob b =>
    simp only [fillItem, itemAllocs]
    have hh := deserOntoV_spec k ent b s L h
    generalize deserOntoV k ent b s = r at hh ⊢
    obtain ⟨ro, rs⟩ := r
    rcases hh with ⟨v, h1, _, hw, h2, h3⟩ | ⟨h1, h2, h3⟩ <;> simp only at h1 h2 h3 <;> subst h1 <;> simp only
    · exact ⟨hw, h3, .inl ⟨by trivial, h2⟩⟩
    · exact ⟨trivial, h3, .inr ⟨by trivial, h2⟩⟩

def fillAllocs : List ((PKey × Nat) × ItemVal) → Nat
  | [] => 0
  | (_, iv) :: rest => itemAllocs iv + fillAllocs rest

theorem fillLoop_spec (k pkt : Nat) (ut : Option UT) : ∀ (todo : List ((PKey × Nat) × ItemVal)) (done : List (PKey × VOwned))
    (s : St) (L : List Nat), (done = [] → todo = [] → ut = none) → WFP done →
    Inv s (utBlocks ut ++ (pentriesIds done ++ (kIds (todo.map (·.1)) ++ (pkt :: L)))) →
    (∃ es, (fillLoop k pkt ut todo done s).1 = some es ∧ WFP es ∧ (es = [] → ut = none) ∧
        Good k (fillAllocs todo) s (fillLoop k pkt ut todo done s).2 ∧
        Inv (fillLoop k pkt ut todo done s).2 (utBlocks ut ++ (pentriesIds es ++ (pkt :: L)))) ∨
    ((fillLoop k pkt ut todo done s).1 = none ∧ Bad k (fillAllocs todo) s (fillLoop k pkt ut todo done s).2 ∧
        Inv (fillLoop k pkt ut todo done s).2 L)
  | [], done, s, L, hu, w, h => by
    left
    simp only [fillLoop, fillAllocs]
    exact ⟨done, rfl, w, fun hd => hu hd rfl, Good.refl k s, by simpa [kIds] using h⟩
  | ((pk, ent), iv) :: rest, done, s, L, hu, w, h => by
    simp only [fillLoop, fillAllocs]
    have i0 : Inv s (ent :: (utBlocks ut ++ (pentriesIds done ++ (pk.key :: (kIds (rest.map (·.1)) ++ (pkt :: L)))))) :=
      h.perm (by simp only [List.map_cons, kIds]; perm_ac)
    have ⟨fw, fi, fo⟩ := fillItem_spec k ent iv s _ i0
    generalize fillItem k ent iv s = r at fw fi fo ⊢
    obtain ⟨ok, v, s'⟩ := r
    simp only at fw fi fo
    rcases fo with ⟨hok, hg⟩ | ⟨hok, hb⟩ <;> subst hok <;> simp only
    · have w' : WFP (done ++ [(pk, v)]) := by rw [WFP_append]; exact ⟨w, fw, trivial⟩
      have i1 : Inv s' (utBlocks ut ++ (pentriesIds (done ++ [(pk, v)]) ++ (kIds (rest.map (·.1)) ++ (pkt :: L)))) := by
        rw [pentriesIds_append]
        exact fi.perm (by simp only [pentriesIds]; perm_ac)
      rcases fillLoop_spec k pkt ut rest (done ++ [(pk, v)]) s' L (fun hx => by simp at hx) w' i1 with ⟨es, e1, e2, e3, e4, e5⟩ | ⟨e1, e4, e5⟩
      · left
        exact ⟨es, e1, e2, e3, hg.trans e4, e5⟩
      · right
        exact ⟨e1, hg.bad e4, e5⟩
    · right
      have w' : WFP (done ++ (pk, v) :: unkEntries (rest.map (·.1))) := by
        rw [WFP_append]; exact ⟨w, fw, WFP_unk _⟩
      have i1 : Inv s' (utBlocks ut ++ (pentriesIds (done ++ (pk, v) :: unkEntries (rest.map (·.1))) ++ (pkt :: L))) := by
        rw [pentriesIds_append]
        simp only [pentriesIds, pentriesIds_unk]
        exact fi.perm (by perm_ac)
      have ⟨c1, c2⟩ := packetFreeV_spec pkt ut _ s' L (fun hx => by simp at hx) w' i1
      exact ⟨trivial, (hb.same c2).mono (by omega), c1⟩

/-- requests of cif_pktitr_next_packet's packet assembly (fault-free) -/
def nextPacketAllocs (items : List (Nat × ItemVal)) : Nat :=
  1 + cnAllocs (items.map (·.1)) none [] + ((items.map (·.2)).map itemAllocs).sum

theorem fillAllocs_zip : ∀ (es : List (PKey × Nat)) (ivs : List ItemVal), es.length = ivs.length →
    fillAllocs (es.zip ivs) = (ivs.map itemAllocs).sum
  | [], [], _ => rfl
  | e :: es, iv :: ivs, h => by
    simp only [List.zip_cons_cons, fillAllocs, List.map_cons, List.sum_cons]
    rw [fillAllocs_zip es ivs (by simpa using h)]
  | [], _ :: _, h => by simp at h
  | _ :: _, [], h => by simp at h

theorem zip_map_fst : ∀ (es : List (PKey × Nat)) (ivs : List ItemVal), es.length = ivs.length →
    (es.zip ivs).map (·.1) = es
  | [], [], _ => rfl
  | e :: es, iv :: ivs, h => by
    simp only [List.zip_cons_cons, List.map_cons]
    rw [zip_map_fst es ivs (by simpa using h)]
  | [], _ :: _, h => by simp at h
  | _ :: _, [], h => by simp at h

theorem nextPacket_spec (k : Nat) (keep : Bool) (items : List (Nat × ItemVal)) (s : St) (L : List Nat) (h : Inv s L) :
    ((nextPacket k keep items s).1 = OK ∧ Good k (nextPacketAllocs items) s (nextPacket k keep items s).2.2 ∧
        ((nextPacket k keep items s).2.1.isSome = keep) ∧
        Inv (nextPacket k keep items s).2.2
          ((match (nextPacket k keep items s).2.1 with | some p => p.ids | none => []) ++ L)) ∨
    ((nextPacket k keep items s).1 = MEMORY_ERROR ∧ (nextPacket k keep items s).2.1 = none ∧
        Bad k (nextPacketAllocs items) s (nextPacket k keep items s).2.2 ∧ Inv (nextPacket k keep items s).2.2 L) := by
  simp only [nextPacket, nextPacketAllocs]
  rcases alloc_cases k s with ⟨hk, ha⟩ | ⟨hk, ha⟩ <;> simp only [ha]
  · right
    exact ⟨trivial, trivial, (Bad.alloc hk).mono (by omega), h.fail⟩
  · have g1 := Good.alloc hk
    have i1 := h.alloc
    generalize ({ count := s.count + 1, evs := s.evs ++ [.alloc (s.count + 1)] } : St) = s1 at g1 i1 ⊢
    generalize s.count + 1 = pkt at g1 i1 ⊢
    have hh := createNormLoop_spec k pkt (items.map (·.1)) none [] s1 L (fun _ => rfl)
      (by simpa [utBlocks, kIds] using i1)
    simp only [Option.map, kHashes, List.map_nil] at hh
    generalize createNormLoop k pkt (items.map (·.1)) none [] s1 = r at hh ⊢
    obtain ⟨ro, s2⟩ := r
    rcases hh with ⟨ut, es, e1, e2, e3, e4, e5⟩ | ⟨e1, e4, e5⟩ <;> simp only at e1 e4 e5 <;> subst e1 <;> simp only
    · have hlen : es.length = (items.map (·.2)).length := by simpa using e3
      have i2 : Inv s2 (utBlocks ut ++ (pentriesIds [] ++ (kIds ((es.zip (items.map (·.2))).map (·.1)) ++ (pkt :: L)))) := by
        rw [zip_map_fst es _ hlen]; simpa [pentriesIds] using e5
      have hu1 : ([] : List (PKey × VOwned)) = [] → es.zip (items.map (·.2)) = [] → ut = none := by
        intro _ hz
        apply e2
        cases es with
        | nil => rfl
        | cons a as =>
          cases hi : items.map (·.2) with
          | nil => rw [hi] at hlen; simp at hlen
          | cons b bs => rw [hi] at hz; simp at hz
      have hh := fillLoop_spec k pkt ut (es.zip (items.map (·.2))) [] s2 L hu1 trivial i2
      rw [fillAllocs_zip es _ hlen] at hh
      generalize fillLoop k pkt ut (es.zip (items.map (·.2))) [] s2 = r at hh ⊢
      obtain ⟨ro, s3⟩ := r
      rcases hh with ⟨es', f1, f2, f3, f4, f5⟩ | ⟨f1, f4, f5⟩ <;> simp only at f1 f4 f5 <;> subst f1 <;> simp only
      · left
        cases keep with
        | true =>
          simp only [if_true]
          refine ⟨by trivial, (g1.trans e4).trans' f4 (by omega), by trivial, f5.perm ?_⟩
          simp only [PktOwned.ids]; perm_ac
        | false =>
          simp only [Bool.false_eq_true, if_false]
          have ⟨c1, c2⟩ := packetFreeV_spec pkt ut es' s3 L f3 f2 f5
          exact ⟨by trivial, ((g1.trans e4).trans' f4 (by omega)).same c2, by trivial, by simpa using c1⟩
      · right
        exact ⟨trivial, trivial, (g1.trans e4).bad' f4 (by omega), f5⟩
    · right
      exact ⟨trivial, trivial, (g1.bad e4).mono (by omega), e5⟩

-- ---------------------------------------------------------------------------------------------------------------
-- summaries

theorem getPackets_summary (k : Nat) (hs : List Nat) (hne : hs ≠ []) (s : St) (rest : List Nat) (hb : Balanced s.evs rest)
    (hc : ∀ i ∈ rest, i ≤ s.count) :
    Balanced (getPackets k hs s).2.2.evs ((match (getPackets k hs s).2.1 with | some o => o.ids | none => []) ++ rest) ∧
    ((getPackets k hs s).1 = OK ∨ (getPackets k hs s).1 = MEMORY_ERROR) ∧
    ((getPackets k hs s).1 = OK ↔ (getPackets k hs s).2.1.isSome) ∧
    ((getPackets k hs s).1 = MEMORY_ERROR ↔ s.count < k ∧ k ≤ s.count + getPacketsAllocs hs) ∧
    ((getPackets k hs s).1 = MEMORY_ERROR →
        failIds (getPackets k hs s).2.2.evs = failIds s.evs ++ [k] ∧ (getPackets k hs s).2.2.count = k) ∧
    ((getPackets k hs s).1 = OK → failIds (getPackets k hs s).2.2.evs = failIds s.evs ∧
        (getPackets k hs s).2.2.count = s.count + getPacketsAllocs hs) := by
  rcases getPackets_spec k hs hne s rest ⟨hb, hc⟩ with ⟨o, h1, h2, _, h3, h4⟩ | ⟨h1, h2, h3, h4⟩
  · rw [h1, h2]
    unfold Good at h3
    refine ⟨h4.1, .inl rfl, by simp, ⟨fun h => absurd h OK_ne_MEMORY_ERROR.symm, fun h => absurd h h3.2.1⟩,
      fun h => absurd h OK_ne_MEMORY_ERROR.symm, fun _ => ⟨h3.2.2, h3.1⟩⟩
  · rw [h1, h2]
    unfold Bad at h3
    refine ⟨by simpa using h4.1, .inr rfl, by simp [OK_ne_MEMORY_ERROR], ⟨fun _ => ⟨h3.1, h3.2.1⟩, fun _ => rfl⟩,
      fun _ => ⟨h3.2.2.2, h3.2.2.1⟩, fun h => absurd h OK_ne_MEMORY_ERROR⟩

theorem nextPacket_summary (k : Nat) (keep : Bool) (items : List (Nat × ItemVal)) (s : St) (rest : List Nat)
    (hb : Balanced s.evs rest) (hc : ∀ i ∈ rest, i ≤ s.count) :
    Balanced (nextPacket k keep items s).2.2.evs
      ((match (nextPacket k keep items s).2.1 with | some p => p.ids | none => []) ++ rest) ∧
    ((nextPacket k keep items s).1 = OK ∨ (nextPacket k keep items s).1 = MEMORY_ERROR) ∧
    ((nextPacket k keep items s).1 = OK → (nextPacket k keep items s).2.1.isSome = keep) ∧
    ((nextPacket k keep items s).1 = MEMORY_ERROR → (nextPacket k keep items s).2.1 = none) ∧
    ((nextPacket k keep items s).1 = MEMORY_ERROR ↔ s.count < k ∧ k ≤ s.count + nextPacketAllocs items) ∧
    ((nextPacket k keep items s).1 = MEMORY_ERROR →
        failIds (nextPacket k keep items s).2.2.evs = failIds s.evs ++ [k] ∧ (nextPacket k keep items s).2.2.count = k) ∧
    ((nextPacket k keep items s).1 = OK → failIds (nextPacket k keep items s).2.2.evs = failIds s.evs ∧
        (nextPacket k keep items s).2.2.count = s.count + nextPacketAllocs items) := by
  rcases nextPacket_spec k keep items s rest ⟨hb, hc⟩ with ⟨h1, h3, h2, h4⟩ | ⟨h1, h2, h3, h4⟩
  · rw [h1]
    unfold Good at h3
    refine ⟨h4.1, .inl rfl, fun _ => h2, fun h => absurd h OK_ne_MEMORY_ERROR.symm,
      ⟨fun h => absurd h OK_ne_MEMORY_ERROR.symm, fun h => absurd h h3.2.1⟩,
      fun h => absurd h OK_ne_MEMORY_ERROR.symm, fun _ => ⟨h3.2.2, h3.1⟩⟩
  · rw [h1, h2]
    unfold Bad at h3
    refine ⟨by simpa using h4.1, .inr rfl, fun h => absurd h OK_ne_MEMORY_ERROR, fun _ => rfl,
      ⟨fun _ => ⟨h3.1, h3.2.1⟩, fun _ => rfl⟩, fun _ => ⟨h3.2.2.2, h3.2.2.1⟩, fun h => absurd h OK_ne_MEMORY_ERROR⟩

end CifModel.Lemmas.Ladder
