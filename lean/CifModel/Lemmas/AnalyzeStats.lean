import CifModel.Model.Analyze
import CifModel.Spec.Analyze
/-
  Lemmas for C18_stats_exact: the counting loop of `cif_analyze_string` (`scan`, then `finishCounts`) computes the statistics
  of the line decomposition `Spec.splitLines`.  Each lemma is an invariant of the loop, generalised over the entry state.
-/
namespace CifModel.Lemmas.Analyze
open CifModel CifModel.Model CifModel.Spec

/-- number of line terminators seen so far -/
def T (st : Ctr) : Nat := st.nl + st.cr - st.crlf

theorem splitLines_ne_nil (s : Str) : splitLines s ≠ [] := by
  induction s with
  | nil => simp [splitLines]
  | cons c rest ih =>
    unfold splitLines
    split
    · exact ih
    · split
      · simp
      · cases h : splitLines rest <;> simp [consHead]

theorem splitLines_cons_lf (rest : Str) : splitLines (10 :: rest) = [] :: splitLines rest := by
  simp [splitLines]

/-! ### the step function, field by field -/

section step
variable (st : Ctr) (c n : CU)

theorem step_crlf (h : c = 13 ∧ n = 10) :
    step st c n = { st with cr := st.cr + 1, crlf := st.crlf + 1, hasTrailingWs := trackWs st, length := st.length + 1, prev := c } := by
  simp [step, h]

theorem step_other (h1 : ¬ (c = 13 ∧ n = 10)) (h2 : ¬ (c = 13 ∨ c = 10)) (h3 : c ≠ 59) :
    step st c n = { st with mostSemis := rememberSemis st, consecSemis := 0, thisLine := st.thisLine + 1,
                            length := st.length + 1, prev := c } := by
  simp [step, h1, h2, h3]

theorem step_semi (h : c = 59) :
    step st c n = { st with consecSemis := st.consecSemis + 1, thisLine := st.thisLine + 1, length := st.length + 1, prev := c } := by
  subst h; simp [step]

end step


theorem headD_eq_ten (rest : Str) : rest.headD 0 = 10 ↔ rest.head? = some 10 := by
  cases rest <;> simp

theorem T_numLines (st : Ctr) (h : st.crlf ≤ st.cr) : st.numLines = 1 + T st := by
  unfold Ctr.numLines T; omega

theorem finish_first (st : Ctr) (h : st.crlf ≤ st.cr) :
    (finishCounts st).firstLine = if T st = 0 then st.thisLine else st.firstLine := by
  have : (1 + st.nl + st.cr - st.crlf = 1) ↔ T st = 0 := by unfold T; omega
  simp only [finishCounts, this]

theorem finish_max (st : Ctr) (h : st.crlf ≤ st.cr) :
    (finishCounts st).maxLine = if T st = 0 then st.thisLine else max st.maxLine st.thisLine := by
  have : (1 + st.nl + st.cr - st.crlf = 1) ↔ T st = 0 := by unfold T; omega
  simp only [finishCounts, this]
  split
  · rfl
  · split <;> omega

theorem finish_other (st : Ctr) : (finishCounts st).thisLine = st.thisLine ∧ (finishCounts st).nl = st.nl ∧
    (finishCounts st).cr = st.cr ∧ (finishCounts st).crlf = st.crlf ∧ (finishCounts st).length = st.length ∧
    (finishCounts st).hasNlSemi = st.hasNlSemi := by
  simp [finishCounts]

theorem maxLen_cons (l : Str) (ls : List Str) : maxLen (l :: ls) = max l.length (maxLen ls) := by
  simp [maxLen]

theorem maxLen_nil : maxLen [] = 0 := rfl

/-- the terminator step (a lone CR, or an LF) -/
theorem step_term (st : Ctr) (c n : CU) (h1 : ¬ (c = 13 ∧ n = 10)) (h2 : c = 13 ∨ c = 10) (hc : st.crlf ≤ st.cr) :
    T (step st c n) = T st + 1 ∧ (step st c n).crlf ≤ (step st c n).cr ∧ (step st c n).thisLine = 0 ∧
    (step st c n).firstLine = (if T st = 0 then st.thisLine else st.firstLine) ∧
    (step st c n).maxLine = (if T st = 0 then st.thisLine else max st.maxLine st.thisLine) := by
  have hT : T st = st.nl + st.cr - st.crlf := rfl
  unfold step
  rw [if_neg h1, if_pos h2]
  rcases h2 with rfl | rfl
  · simp only [beq_iff_eq, show ¬ ((13:Nat) = 10) by omega, if_false, if_true]
    refine ⟨by simp only [T]; omega, by omega, trivial, ?_, ?_⟩
    · by_cases h : T st = 0
      · rw [if_pos (by omega), if_pos h]
      · rw [if_neg (by omega), if_neg h]
    · by_cases h : T st = 0
      · rw [if_pos (by omega), if_pos h]
      · rw [if_neg (by omega), if_neg h]; split <;> omega
  · simp only [beq_iff_eq, show ¬ ((10:Nat) = 13) by omega, if_false, if_true]
    refine ⟨by simp only [T]; omega, by omega, trivial, ?_, ?_⟩
    · by_cases h : T st = 0
      · rw [if_pos (by omega), if_pos h]
      · rw [if_neg (by omega), if_neg h]
    · by_cases h : T st = 0
      · rw [if_pos (by omega), if_pos h]
      · rw [if_neg (by omega), if_neg h]; split <;> omega


/-- the CR of a CR LF pair -/
theorem step_crlf_lines (st : Ctr) (c n : CU) (h : c = 13 ∧ n = 10) (hc : st.crlf ≤ st.cr) :
    T (step st c n) = T st ∧ (step st c n).crlf ≤ (step st c n).cr ∧ (step st c n).thisLine = st.thisLine ∧
    (step st c n).firstLine = st.firstLine ∧ (step st c n).maxLine = st.maxLine := by
  rw [step_crlf st c n h]
  refine ⟨by simp only [T]; omega, by simp only []; omega, rfl, rfl, rfl⟩

/-- any unit that is not CR or LF -/
theorem step_char_lines (st : Ctr) (c n : Nat) (h10 : c ≠ 10) (h13 : c ≠ 13) :
    T (step st c n) = T st ∧ (step st c n).crlf = st.crlf ∧ (step st c n).cr = st.cr ∧ (step st c n).thisLine = st.thisLine + 1 ∧
    (step st c n).firstLine = st.firstLine ∧ (step st c n).maxLine = st.maxLine := by
  have h1 : ¬ (c = 13 ∧ n = 10) := by omega
  have h2 : ¬ (c = 13 ∨ c = 10) := by omega
  by_cases h : c = 59
  · rw [step_semi st c n h]; exact ⟨rfl, rfl, rfl, rfl, rfl, rfl⟩
  · rw [step_other st c n h1 h2 h]; exact ⟨rfl, rfl, rfl, rfl, rfl, rfl⟩

theorem getLastD_cons_cons {α} (a b : α) (l : List α) (d : α) : (a :: b :: l).getLastD d = (b :: l).getLastD d := by
  simp [List.getLastD]

/-- line statistics: terminator count, last / first / longest line, generalised over the entry state -/
theorem scan_lines : ∀ (s : Str) (st : Ctr) (l0 : Str) (ls : List Str), st.crlf ≤ st.cr → splitLines s = l0 :: ls →
    T (scan st s) = T st + ls.length ∧ (scan st s).crlf ≤ (scan st s).cr ∧
    (scan st s).thisLine = (if ls = [] then st.thisLine + l0.length else ((l0 :: ls).getLastD []).length) ∧
    (finishCounts (scan st s)).firstLine = (if T st = 0 then st.thisLine + l0.length else st.firstLine) ∧
    (finishCounts (scan st s)).maxLine =
      (if T st = 0 then max (st.thisLine + l0.length) (maxLen ls)
       else max st.maxLine (max (st.thisLine + l0.length) (maxLen ls))) := by
  intro s
  induction s with
  | nil =>
    intro st l0 ls hc hL
    simp only [splitLines, List.cons.injEq] at hL
    obtain ⟨rfl, rfl⟩ := hL
    simp only [scan, finish_first st hc, finish_max st hc, maxLen_nil, List.length_nil]
    refine ⟨rfl, hc, by simp, by simp, ?_⟩
    by_cases h : T st = 0 <;> simp [h]
  | cons c rest ih =>
    intro st l0 ls hc hL
    simp only [scan]
    by_cases hA : c = 13 ∧ rest.head? = some 10
    · have hA' : c = 13 ∧ rest.headD 0 = 10 := ⟨hA.1, (headD_eq_ten rest).2 hA.2⟩
      have hL' : splitLines rest = l0 :: ls := by simpa [splitLines, hA] using hL
      obtain ⟨e1, e2, e3, e4, e5⟩ := step_crlf_lines st c (rest.headD 0) hA' hc
      obtain ⟨i1, i2, i3, i4, i5⟩ := ih (step st c (rest.headD 0)) l0 ls e2 hL'
      rw [e1] at i1 i4 i5
      rw [e3] at i3 i4 i5
      rw [e4] at i4
      rw [e5] at i5
      exact ⟨i1, i2, i3, i4, i5⟩
    · have hA' : ¬ (c = 13 ∧ rest.headD 0 = 10) := fun h => hA ⟨h.1, (headD_eq_ten rest).1 h.2⟩
      by_cases hB : c = 10 ∨ c = 13
      · have hL' : [] :: splitLines rest = l0 :: ls := by simpa [splitLines, hA, hB] using hL
        simp only [List.cons.injEq] at hL'
        obtain ⟨rfl, rfl⟩ := hL'
        obtain ⟨l0', ls', hr⟩ : ∃ a b, splitLines rest = a :: b := by
          cases h : splitLines rest with
          | nil => exact absurd h (splitLines_ne_nil rest)
          | cons a b => exact ⟨a, b, rfl⟩
        obtain ⟨e1, e2, e3, e4, e5⟩ := step_term st c (rest.headD 0) hA' hB.symm hc
        obtain ⟨i1, i2, i3, i4, i5⟩ := ih (step st c (rest.headD 0)) l0' ls' e2 hr
        have hT' : ¬ (T (step st c (rest.headD 0)) = 0) := by omega
        rw [if_neg hT'] at i4 i5
        rw [e3] at i3 i5
        rw [hr]
        refine ⟨by rw [i1, e1]; simp only [List.length_cons]; omega, i2, ?_, ?_, ?_⟩
        · rw [if_neg (List.cons_ne_nil _ _), getLastD_cons_cons, i3]
          cases ls' with
          | nil => simp
          | cons b l => simp
        · rw [i4, e4]; simp
        · rw [i5, e5, maxLen_cons]
          split <;> simp <;> omega
      · have h10 : c ≠ 10 := fun h => hB (Or.inl h)
        have h13 : c ≠ 13 := fun h => hB (Or.inr h)
        obtain ⟨l0', ls', hr⟩ : ∃ a b, splitLines rest = a :: b := by
          cases h : splitLines rest with
          | nil => exact absurd h (splitLines_ne_nil rest)
          | cons a b => exact ⟨a, b, rfl⟩
        have hL' : (c :: l0') :: ls' = l0 :: ls := by simpa [splitLines, hA, hB, hr, consHead] using hL
        simp only [List.cons.injEq] at hL'
        obtain ⟨rfl, rfl⟩ := hL'
        obtain ⟨e1, e2, e2', e3, e4, e5⟩ := step_char_lines st c (rest.headD 0) h10 h13
        obtain ⟨i1, i2, i3, i4, i5⟩ := ih (step st c (rest.headD 0)) l0' ls' (by omega) hr
        rw [e1] at i1 i4 i5
        rw [e3] at i3 i4 i5
        rw [e4] at i4
        rw [e5] at i5
        refine ⟨i1, i2, ?_, ?_, ?_⟩
        · rw [i3]
          cases ls' with
          | nil => simp; omega
          | cons b l => simp
        · rw [i4]; simp only [List.length_cons]
          have : st.thisLine + 1 + l0'.length = st.thisLine + (l0'.length + 1) := by omega
          rw [this]
        · rw [i5]; simp only [List.length_cons]
          have : st.thisLine + 1 + l0'.length = st.thisLine + (l0'.length + 1) := by omega
          rw [this]


/-! ### runs of semicolons -/

theorem leadRun_le_maxRun (s : Str) : leadRun s ≤ maxRun s := by
  cases s with
  | nil => simp [leadRun, maxRun]
  | cons c r => simp only [maxRun]; omega

theorem rememberSemis_eq (st : Ctr) : rememberSemis st = max st.mostSemis st.consecSemis := by
  unfold rememberSemis; split <;> omega

theorem scan_semis : ∀ (s : Str) (st : Ctr),
    (finishCounts (scan st s)).mostSemis = max st.mostSemis (max (st.consecSemis + leadRun s) (maxRun s)) := by
  intro s
  induction s with
  | nil => intro st; simp only [scan, finishCounts, rememberSemis_eq, leadRun, maxRun]; omega
  | cons c rest ih =>
    intro st
    simp only [scan]
    rw [ih]
    by_cases hA : c = 13 ∧ rest.headD 0 = 10
    · rw [step_crlf st c _ hA]
      obtain ⟨rfl, h10⟩ := hA
      have hl : leadRun rest = 0 := by
        cases rest with
        | nil => rfl
        | cons d r => simp at h10; subst h10; simp [leadRun]
      simp only [maxRun, leadRun, hl]
      simp
    · by_cases hB : c = 13 ∨ c = 10
      · have hc : c ≠ 59 := by rcases hB with h | h <;> (subst h; decide)
        have := leadRun_le_maxRun rest
        unfold step
        rw [if_neg hA, if_pos hB]
        simp only [maxRun, leadRun, if_neg hc, rememberSemis_eq]
        omega
      · by_cases hS : c = 59
        · rw [step_semi st c _ hS]
          subst hS
          simp only [maxRun, leadRun, if_true]
          omega
        · have := leadRun_le_maxRun rest
          rw [step_other st c _ hA hB hS]
          simp only [maxRun, leadRun, if_neg hS, rememberSemis_eq]
          omega

/-! ### newline-semicolon -/

theorem head_startsSemi (rest : Str) (l0 : Str) (ls : List Str) (h : splitLines rest = l0 :: ls) :
    startsSemi l0 = (rest.headD 0 == 59) := by
  cases rest with
  | nil => simp [splitLines] at h; obtain ⟨rfl, _⟩ := h; simp [startsSemi]
  | cons c r =>
    by_cases hA : c = 13 ∧ r.head? = some 10
    · obtain ⟨rfl, h10⟩ := hA
      cases r with
      | nil => simp at h10
      | cons d r' =>
        simp at h10; subst h10
        simp [splitLines] at h
        obtain ⟨rfl, _⟩ := h
        simp [startsSemi]
    · by_cases hB : c = 10 ∨ c = 13
      · simp [splitLines, hA, hB] at h
        obtain ⟨rfl, _⟩ := h
        have : c ≠ 59 := by rcases hB with h | h <;> (subst h; decide)
        simp [startsSemi, this]
      · cases hr : splitLines r with
        | nil => exact absurd hr (splitLines_ne_nil r)
        | cons a b =>
          simp [splitLines, hA, hB, hr, consHead] at h
          obtain ⟨rfl, _⟩ := h
          simp [startsSemi]

theorem scan_nlsemi : ∀ (s : Str) (st : Ctr),
    (scan st s).hasNlSemi = (st.hasNlSemi || (splitLines s).tail.any startsSemi) := by
  intro s
  induction s with
  | nil => intro st; simp [scan, splitLines]
  | cons c rest ih =>
    intro st
    simp only [scan]
    rw [ih]
    by_cases hA : c = 13 ∧ rest.headD 0 = 10
    · have hA2 : c = 13 ∧ rest.head? = some 10 := ⟨hA.1, (headD_eq_ten rest).1 hA.2⟩
      rw [step_crlf st c _ hA]
      simp [splitLines, hA2]
    · have hA2 : ¬ (c = 13 ∧ rest.head? = some 10) := fun h => hA ⟨h.1, (headD_eq_ten rest).2 h.2⟩
      by_cases hB : c = 13 ∨ c = 10
      · have hB2 : c = 10 ∨ c = 13 := hB.symm
        cases hr : splitLines rest with
        | nil => exact absurd hr (splitLines_ne_nil rest)
        | cons a b =>
          have := head_startsSemi rest a b hr
          unfold step
          rw [if_neg hA, if_pos hB]
          simp [splitLines, hA2, hB2, hr, this, Bool.or_assoc]
      · have hB2 : ¬ (c = 10 ∨ c = 13) := fun h => hB h.symm
        cases hr : splitLines rest with
        | nil => exact absurd hr (splitLines_ne_nil rest)
        | cons a b =>
          by_cases hS : c = 59
          · rw [step_semi st c _ hS]; simp [splitLines, hA2, hB2, hr, consHead]
          · rw [step_other st c _ hA hB hS]; simp [splitLines, hA2, hB2, hr, consHead]

/-! ### length -/

theorem step_length (st : Ctr) (c n : Nat) : (step st c n).length = st.length + 1 ∧ (step st c n).prev = c := by
  unfold step; split
  · exact ⟨rfl, rfl⟩
  · split
    · exact ⟨rfl, rfl⟩
    · split <;> exact ⟨rfl, rfl⟩

theorem scan_length : ∀ (s : Str) (st : Ctr), (scan st s).length = st.length + s.length := by
  intro s
  induction s with
  | nil => intro st; rfl
  | cons c rest ih => intro st; simp only [scan]; rw [ih, (step_length st c _).1]; simp; omega


/-! ### blanks at the end of a line -/

/-- "the unit before the current one is SP, TAB or VT" as `TRACK_TRAILING_WS` sees it -/
def pv (st : Ctr) : Bool := decide (st.length > 0) && isTrailWs st.prev

/-- the line ends in SP / TAB / VT; an empty line inherits `p` (the unit before it, if it belongs to the same line) -/
def lineEnds (p : Bool) (l : Str) : Bool :=
  match l.getLast? with
  | some c => isTrailWs c
  | none => p

theorem trackWs_eq (st : Ctr) : trackWs st = (st.hasTrailingWs || pv st) := rfl

theorem pv_step (st : Ctr) (c n : Nat) : pv (step st c n) = isTrailWs c := by
  unfold pv; rw [(step_length st c n).1, (step_length st c n).2]; simp

theorem lineEnds_cons (p : Bool) (c : Nat) (l : Str) : lineEnds p (c :: l) = lineEnds (isTrailWs c) l := by
  cases l with
  | nil => simp [lineEnds]
  | cons d l =>
    have h : (d :: l).getLast? = some ((d :: l).getLast (List.cons_ne_nil _ _)) := List.getLast?_eq_some_getLast _
    simp only [lineEnds, List.getLast?_cons_cons, h]

theorem scan_trail : ∀ (s : Str) (st : Ctr) (l0 : Str) (ls : List Str), splitLines s = l0 :: ls →
    (finishCounts (scan st s)).hasTrailingWs = (st.hasTrailingWs || lineEnds (pv st) l0 || ls.any (lineEnds false)) := by
  intro s
  induction s with
  | nil =>
    intro st l0 ls hL
    simp only [splitLines, List.cons.injEq] at hL
    obtain ⟨rfl, rfl⟩ := hL
    simp [scan, finishCounts, trackWs_eq, lineEnds]
  | cons c rest ih =>
    intro st l0 ls hL
    simp only [scan]
    by_cases hA : c = 13 ∧ rest.headD 0 = 10
    · have hA2 : c = 13 ∧ rest.head? = some 10 := ⟨hA.1, (headD_eq_ten rest).1 hA.2⟩
      have hL' : splitLines rest = l0 :: ls := by simpa [splitLines, hA2] using hL
      rw [ih _ l0 ls hL', pv_step, step_crlf st c _ hA, trackWs_eq]
      obtain ⟨rfl, h10⟩ := hA2
      cases rest with
      | nil => simp at h10
      | cons d r =>
        simp at h10; subst h10
        simp [splitLines] at hL'
        obtain ⟨rfl, _⟩ := hL'
        simp [lineEnds, isTrailWs]
    · have hA2 : ¬ (c = 13 ∧ rest.head? = some 10) := fun h => hA ⟨h.1, (headD_eq_ten rest).2 h.2⟩
      cases hr : splitLines rest with
      | nil => exact absurd hr (splitLines_ne_nil rest)
      | cons a b =>
        by_cases hB : c = 13 ∨ c = 10
        · have hB2 : c = 10 ∨ c = 13 := hB.symm
          have hL' : [] :: a :: b = l0 :: ls := by simpa [splitLines, hA2, hB2, hr] using hL
          simp only [List.cons.injEq] at hL'
          obtain ⟨rfl, rfl⟩ := hL'
          have hw : isTrailWs c = false := by rcases hB with h | h <;> (subst h; decide)
          rw [ih _ a b hr, pv_step, hw]
          unfold step
          rw [if_neg hA, if_pos hB]
          simp [trackWs_eq, lineEnds, Bool.or_assoc]
        · have hB2 : ¬ (c = 10 ∨ c = 13) := fun h => hB h.symm
          have hL' : (c :: a) :: b = l0 :: ls := by simpa [splitLines, hA2, hB2, hr, consHead] using hL
          simp only [List.cons.injEq] at hL'
          obtain ⟨rfl, rfl⟩ := hL'
          rw [ih _ a b hr, pv_step, lineEnds_cons]
          by_cases hS : c = 59
          · rw [step_semi st c _ hS]
          · rw [step_other st c _ hA hB hS]


/-! ### assembling: the counters after the loop, from the empty state -/

theorem counters_stats (s : Str) (l0 : Str) (ls : List Str) (hL : splitLines s = l0 :: ls) :
    (counters s).length = s.length ∧ (counters s).numLines = (l0 :: ls).length ∧ (counters s).firstLine = l0.length ∧
    (counters s).thisLine = ((l0 :: ls).getLastD []).length ∧ (counters s).maxLine = maxLen (l0 :: ls) ∧
    (counters s).mostSemis = maxRun s ∧ (counters s).hasNlSemi = ls.any startsSemi ∧
    (counters s).hasTrailingWs = (l0 :: ls).any (lineEnds false) := by
  have h0 : ({} : Ctr).crlf ≤ ({} : Ctr).cr := Nat.le_refl _
  obtain ⟨i1, i2, i3, i4, i5⟩ := scan_lines s {} l0 ls h0 hL
  obtain ⟨f1, f2, f3, f4, f5, f6⟩ := finish_other (scan {} s)
  have hT0 : T ({} : Ctr) = 0 := rfl
  refine ⟨?_, ?_, ?_, ?_, ?_, ?_, ?_, ?_⟩
  · unfold counters; rw [f5, scan_length]; simp
  · unfold counters
    have : (finishCounts (scan {} s)).numLines = (scan {} s).numLines := by simp [Ctr.numLines, f2, f3, f4]
    rw [this, T_numLines _ i2, i1, hT0]; simp; omega
  · unfold counters; rw [i4, if_pos hT0]; simp
  · unfold counters; rw [f1, i3]
    cases ls with
    | nil => simp
    | cons b l => simp
  · unfold counters; rw [i5, if_pos hT0, maxLen_cons]; simp
  · unfold counters; rw [scan_semis]; have := leadRun_le_maxRun s; simp; omega
  · unfold counters; rw [f6, scan_nlsemi, hL]; simp
  · unfold counters; rw [scan_trail s {} l0 ls hL]; simp [pv]

theorem mem_of_mem_splitLines : ∀ (s : Str) (l : Str) (c : Nat), l ∈ splitLines s → c ∈ l → c ∈ s := by
  intro s
  induction s with
  | nil => intro l c hl hc; simp [splitLines] at hl; subst hl; simp at hc
  | cons d rest ih =>
    intro l c hl hc
    by_cases hA : d = 13 ∧ rest.head? = some 10
    · simp only [splitLines, hA, and_self, if_true] at hl
      exact List.mem_cons_of_mem _ (ih l c hl hc)
    · by_cases hB : d = 10 ∨ d = 13
      · simp only [splitLines, hA, hB, if_false, if_true, List.mem_cons] at hl
        rcases hl with rfl | hl
        · simp at hc
        · exact List.mem_cons_of_mem _ (ih l c hl hc)
      · simp only [splitLines, hA, hB, if_false] at hl
        cases hr : splitLines rest with
        | nil => exact absurd hr (splitLines_ne_nil rest)
        | cons a b =>
          rw [hr] at hl ih
          simp only [consHead, List.mem_cons] at hl
          rcases hl with rfl | hl
          · simp only [List.mem_cons] at hc
            rcases hc with rfl | hc
            · simp
            · exact List.mem_cons_of_mem _ (ih a c (by simp) hc)
          · exact List.mem_cons_of_mem _ (ih l c (by simp [hl]) hc)

/-- a string without CR and LF is its own single line -/
theorem splitLines_single : ∀ (s : Str), (∀ c ∈ s, c ≠ 10 ∧ c ≠ 13) → splitLines s = [s] := by
  intro s
  induction s with
  | nil => intro _; rfl
  | cons d rest ih =>
    intro h
    have hd := h d (by simp)
    have hA : ¬ (d = 13 ∧ rest.head? = some 10) := fun x => hd.2 x.1
    have hB : ¬ (d = 10 ∨ d = 13) := fun x => x.elim hd.1 hd.2
    simp [splitLines, hA, hB, ih (fun c hc => h c (List.mem_cons_of_mem _ hc)), consHead]

theorem lineEnds_false_eq (l : Str) : lineEnds false l = Spec.endsWith Spec.isBlankOrVT l := by
  unfold lineEnds Spec.endsWith; cases l.getLast? <;> simp [isTrailWs, Spec.isBlankOrVT]

theorem endsWith_noVT (l : Str) (h : 11 ∉ l) : Spec.endsWith Spec.isBlankOrVT l = Spec.endsWith Spec.isBlank l := by
  unfold Spec.endsWith
  cases hl : l.getLast? with
  | none => rfl
  | some c =>
    have hc : c ∈ l := List.mem_of_getLast? hl
    have : c ≠ 11 := fun e => h (e ▸ hc)
    simp [Spec.isBlankOrVT, Spec.isBlank, this]

end CifModel.Lemmas.Analyze
