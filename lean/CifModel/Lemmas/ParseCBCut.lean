import CifModel.Lemmas.ParseCBStop
/-
  CifModel.Lemmas.ParseCBCut — stage 2 of the stop semantics of the store: for EVERY program the structural interpreter `xDoc`
  returns and stores what `Spec.Doc.cutDoc` says: the document with the bypassed sub-trees removed and cut at the stopping point.
-/
set_option linter.unusedSimpArgs false
set_option linter.unusedVariables false

namespace CifModel.Lemmas.ParseCB
open CifModel.ParseCB CifModel.Spec.Doc

/-- the result code that goes with a stopping answer -/
def codeOf : Option Int → Int
  | none => OK
  | some r => r

theorem ans4 (r : Int) : r = CONTINUE ∨ r = SKIP_CURRENT ∨ r = SKIP_SIBLINGS
    ∨ (r ≠ CONTINUE ∧ r ≠ SKIP_CURRENT ∧ r ≠ SKIP_SIBLINGS) := by
  by_cases h1 : r = CONTINUE
  · exact Or.inl h1
  · by_cases h2 : r = SKIP_CURRENT
    · exact Or.inr (Or.inl h2)
    · by_cases h3 : r = SKIP_SIBLINGS
      · exact Or.inr (Or.inr (Or.inl h3))
      · exact Or.inr (Or.inr (Or.inr ⟨h1, h2, h3⟩))

theorem stopOf_cont : stopOf CONTINUE = none := rfl
theorem stopOf_cur : stopOf SKIP_CURRENT = none := rfl
theorem stopOf_sib : stopOf SKIP_SIBLINGS = none := rfl
theorem stopOf_stop (r : Int) (h1 : r ≠ CONTINUE) (h2 : r ≠ SKIP_CURRENT) (h3 : r ≠ SKIP_SIBLINGS) : stopOf r = some r := by
  simp [stopOf, h1, h2, h3]

theorem site_stop' (p : Prog) (s : St) (e : Ev) (cur sib : Option Int) (h1 : p s.n e ≠ CONTINUE) (h2 : p s.n e ≠ SKIP_CURRENT)
    (h3 : p s.n e ≠ SKIP_SIBLINGS) : site p s e cur sib = (p s.n e, push s e) := site_stop p s e cur sib _ rfl h1 h2 h3

theorem cont_ne_cur : ¬ (CONTINUE = SKIP_CURRENT) := by decide
theorem ok_eq : OK = CONTINUE := rfl

-- ---- productions entered while skipping: nothing happens ----------------------------------------------------------------------

theorem xRow_skipped (p : Prog) (names : List Str) : ∀ (vals : List V) (col : Nat) (s : St), s.skip > 0 →
    xRow p names col vals s = (OK, s)
  | [], _, _, _ => rfl
  | v :: vs, col, s, h => by
    have : ¬ (True ∧ s.skip ≤ 0) := by omega
    simp only [xRow, itemStep, this, if_false, if_true]
    exact xRow_skipped p names vs (col + 1) s h

theorem xPk_skipped (p : Prog) (names : List Str) (pk : List V) (s : St) (h : s.skip > 0) :
    xPk p names 0 [] pk s = (OK, s, false) := by
  have h1 : (pktStartStep p s) = (OK, { s with skip := s.skip + 1 }) := by unfold pktStartStep; simp only [h, if_true]
  have h2 : ({ s with skip := s.skip + 1 } : St).skip > 0 := by show s.skip + 1 > 0; omega
  unfold xPk
  simp only [if_true, h1, ne_eq, not_true_eq_false, if_false, xRow_skipped p names pk 0 _ h2, pktEndStep, h2]
  rw [St.eta s _ (by omega)]

theorem xPackets_skipped (p : Prog) (loopH : Bool) (names : List Str) : ∀ (pks : List (List V)) (s : St) (acc : List (List V)),
    s.skip > 0 → xPackets p loopH names pks s acc = (OK, s, acc)
  | [], _, _, _ => rfl
  | pk :: pks, s, acc, h => by
    simp only [xPackets, xPk_skipped p names pk s h, ne_eq, not_true_eq_false, if_false, Bool.false_and, Bool.false_eq_true]
    exact xPackets_skipped p loopH names pks s acc h

theorem xLoop_skipped (p : Prog) (cont : Bool) (names : List Str) (pks : List (List V)) (s : St) (h : s.skip > 0) :
    xLoop p cont names pks s = (OK, s, none) := by
  have hi : (inc s).skip > 0 := by rw [inc_skip]; simp only [h, if_true]; omega
  have hn : ¬ (inc s).skip ≤ 0 := by omega
  unfold xLoop
  simp only [kHeader_skipped names _ hi, loopStartStep, hn, if_false, if_true, xPackets_skipped p false names pks _ [] hi,
    loopEndStep, hi, Bool.false_eq_true]
  have := dec_inc s (by omega)
  unfold dec at this
  simp only [hi, if_true] at this
  rw [this]

mutual
  theorem xElem_skipped (p : Prog) (cont : Bool) : ∀ (e : Elem) (s : St) (c : Content), s.skip > 0 →
      xElem p cont e s c = (OK, s, c)
    | .item nm v, s, c, h => by simp only [xElem, h, if_true, dec_inc s (by omega)]
    | .loop names pks, s, c, h => by
      have : ¬ s.skip ≤ 0 := by omega
      simp only [xElem, this, if_false, xLoop_skipped p cont names pks s h]
    | .frame code body, s, c, h => by
      have hfc : (!decide ((!cont) = true ∨ s.skip > 0)) = false := by rw [decide_eq_true (Or.inr h)]; rfl
      have hi : (inc s).skip > 0 := by rw [inc_skip]; simp only [h, if_true]; omega
      have hst : contStartStep p false false code s = (OK, inc s) := by unfold contStartStep; simp only [h, if_true]
      have hd : ¬ (True ∧ s.skip ≤ 0) := by omega
      simp only [xElem, hfc, hst, ne_eq, not_true_eq_false, if_false, xElems_skipped p false body (inc s) Content.empty hi,
        containerEnd, Bool.false_eq_true, dec_inc s (by omega), hd]
  theorem xElems_skipped (p : Prog) (cont : Bool) : ∀ (es : List Elem) (s : St) (c : Content), s.skip > 0 →
      xElems p cont es s c = (OK, s, c)
    | [], _, _, _ => rfl
    | e :: es, s, c, h => by
      simp only [xElems, xElem_skipped p cont e s c h, if_true]
      exact xElems_skipped p cont es s c h
end

theorem xBlocks_skipped (p : Prog) (cif : Bool) : ∀ (d : Doc) (s : St) (acc : List Container), s.skip > 0 →
    xBlocks p cif d s acc = (OK, s, acc)
  | [], _, _, _ => rfl
  | b :: bs, s, acc, h => by
    have hbc : (cif && decide (s.skip ≤ 0)) = false := by
      have : ¬ s.skip ≤ 0 := by omega
      simp [this]
    have hi : (inc s).skip > 0 := by rw [inc_skip]; simp only [h, if_true]; omega
    have hst : contStartStep p false true b.code s = (OK, inc s) := by unfold contStartStep; simp only [h, if_true]
    have hd : ¬ (True ∧ s.skip ≤ 0) := by omega
    simp only [xBlocks, hbc, xCont, hst, ne_eq, not_true_eq_false, if_false, xElems_skipped p false b.body (inc s) Content.empty hi,
      containerEnd, Bool.false_eq_true, dec_inc s (by omega), hd, if_true]
    exact xBlocks_skipped p cif bs s acc h


-- ---- a stopping answer is never CIF_OK -----------------------------------------------------------------------------------------

theorem stopOf_good (r : Int) : stopOf r ≠ some OK := by
  unfold stopOf
  by_cases h1 : r = CONTINUE
  · simp [h1]
  · by_cases h2 : r = SKIP_CURRENT
    · simp [h1, h2, sib_ne_cont, sib_ne_cur, cur_ne_cont]
    · by_cases h3 : r = SKIP_SIBLINGS
      · simp [h1, h2, h3, sib_ne_cont, sib_ne_cur, cur_ne_cont]
      · simp only [h1, h2, h3, if_false]
        intro he; injection he with he; exact h1 he

theorem some_good {r : Int} (h : r ≠ CONTINUE) : (some r : Option Int) ≠ some OK := by
  intro he; injection he with he; exact h he

theorem cItems_good (p : Prog) : ∀ (items : List (Str × V)) (n : Nat), (cItems p items n).stop ≠ some OK
  | [], n => by simp [cItems]
  | (nm, v) :: is, n => by
    simp only [cItems]
    by_cases h1 : p n (.item nm v) = CONTINUE
    · simp only [h1, if_true]; exact cItems_good p is _
    · by_cases h2 : p n (.item nm v) = SKIP_CURRENT
      · simp only [h1, h2, if_true, if_false]; exact cItems_good p is _
      · by_cases h3 : p n (.item nm v) = SKIP_SIBLINGS
        · simp [h1, h2, h3, sib_ne_cont, sib_ne_cur, cur_ne_cont]
        · simp only [h1, h2, h3, if_false]; exact some_good h1

theorem cPacket_good (p : Prog) (names : List Str) (pk : List V) (n : Nat) : (cPacket p names pk n).stop ≠ some OK := by
  unfold cPacket
  by_cases h1 : p n .pktStart = CONTINUE
  · simp only [h1, if_true]
    by_cases h4 : (cItems p (List.zip names pk) (n + 1)).stop.isSome = true
    · simp only [h4, if_true]; exact cItems_good p _ _
    · simp only [h4, Bool.false_eq_true, if_false]
      by_cases h5 : (cItems p (List.zip names pk) (n + 1)).sib = true
      · simp [h5]
      · simp only [h5, Bool.false_eq_true, if_false]; exact stopOf_good _
  · by_cases h2 : p n .pktStart = SKIP_CURRENT
    · simp [h1, h2, sib_ne_cont, sib_ne_cur, cur_ne_cont]
    · by_cases h3 : p n .pktStart = SKIP_SIBLINGS
      · simp [h1, h2, h3, sib_ne_cont, sib_ne_cur, cur_ne_cont]
      · simp only [h1, h2, h3, if_false]; exact some_good h1

theorem cPackets_good (p : Prog) (names : List Str) : ∀ (pks : List (List V)) (n : Nat), (cPackets p names pks n).stop ≠ some OK
  | [], n => by simp [cPackets]
  | pk :: pks, n => by
    simp only [cPackets]
    by_cases h4 : (cPacket p names pk n).stop.isSome = true
    · simp only [h4, if_true]; exact cPacket_good p names pk n
    · simp only [h4, Bool.false_eq_true, if_false]
      by_cases h5 : (cPacket p names pk n).sib = true
      · simp [h5]
      · simp only [h5, Bool.false_eq_true, if_false]; exact cPackets_good p names pks _

theorem cLoop_good (p : Prog) (storing : Bool) (names : List Str) (pks : List (List V)) (n : Nat) :
    (cLoop p storing names pks n).stop ≠ some OK := by
  unfold cLoop
  by_cases h1 : p n (.loopStart names) = CONTINUE
  · simp only [h1, if_true]
    by_cases h4 : (cPackets p names pks (n + 1)).stop.isSome = true
    · simp only [h4, if_true]; exact cPackets_good p names pks _
    · simp only [h4, Bool.false_eq_true, if_false]
      by_cases h5 : (cPackets p names pks (n + 1)).sib = true
      · simp [h5]
      · simp only [h5, Bool.false_eq_true, if_false]; exact stopOf_good _
  · by_cases h2 : p n (.loopStart names) = SKIP_CURRENT
    · simp [h1, h2, sib_ne_cont, sib_ne_cur, cur_ne_cont]
    · by_cases h3 : p n (.loopStart names) = SKIP_SIBLINGS
      · simp [h1, h2, h3, sib_ne_cont, sib_ne_cur, cur_ne_cont]
      · simp only [h1, h2, h3, if_false]; exact some_good h1

mutual
  theorem cElem_good (p : Prog) (storing : Bool) : ∀ (e : Elem) (n : Nat), (cElem p storing e n).stop ≠ some OK
    | .item nm v, n => by simp only [cElem]; exact stopOf_good _
    | .loop names pks, n => by simp only [cElem]; exact cLoop_good p storing names pks n
    | .frame code body, n => by
      simp only [cElem]
      by_cases h1 : p n (.frameStart (if storing then some code else none)) = CONTINUE
      · simp only [h1, if_true]
        by_cases h4 : (cElems p storing body (n + 1)).stop.isSome = true
        · simp only [h4, if_true]; exact cElems_good p storing body _
        · simp only [h4, Bool.false_eq_true, if_false]; exact stopOf_good _
      · by_cases h2 : p n (.frameStart (if storing then some code else none)) = SKIP_CURRENT
        · simp only [h1, h2, if_true, if_false]; exact stopOf_good _
        · by_cases h3 : p n (.frameStart (if storing then some code else none)) = SKIP_SIBLINGS
          · simp [h1, h2, h3, sib_ne_cont, sib_ne_cur, cur_ne_cont]
          · simp only [h1, h2, h3, if_false]; exact some_good h1
  theorem cElems_good (p : Prog) (storing : Bool) : ∀ (es : List Elem) (n : Nat), (cElems p storing es n).stop ≠ some OK
    | [], n => by simp [cElems]
    | e :: es, n => by
      simp only [cElems]
      by_cases h4 : (cElem p storing e n).stop.isSome = true
      · simp only [h4, if_true]; exact cElem_good p storing e n
      · simp only [h4, Bool.false_eq_true, if_false]
        by_cases h5 : (cElem p storing e n).sib = true
        · simp [h5]
        · simp only [h5, Bool.false_eq_true, if_false]; exact cElems_good p storing es _
end

theorem cBlock_good (p : Prog) (storing : Bool) (b : Block) (n : Nat) : (cBlock p storing b n).stop ≠ some OK := by
  unfold cBlock
  by_cases q1 : p n (.blockStart (if storing then some b.code else none)) = CONTINUE
  · simp only [q1, if_true]
    by_cases q4 : (cElems p storing b.body (n + 1)).stop.isSome = true
    · simp only [q4, if_true]; exact cElems_good p storing b.body _
    · simp only [q4, Bool.false_eq_true, if_false]; exact stopOf_good _
  · by_cases q2 : p n (.blockStart (if storing then some b.code else none)) = SKIP_CURRENT
    · simp only [q1, q2, if_true, if_false]; exact stopOf_good _
    · by_cases q3 : p n (.blockStart (if storing then some b.code else none)) = SKIP_SIBLINGS
      · simp [q1, q2, q3, sib_ne_cont, sib_ne_cur]
      · simp only [q1, q2, q3, if_false]; exact some_good q1

theorem cBlocks_good (p : Prog) (storing : Bool) : ∀ (bs : List Block) (n : Nat), (cBlocks p storing bs n).stop ≠ some OK
  | [], n => by simp [cBlocks]
  | b :: bs, n => by
    simp only [cBlocks]
    by_cases q4 : (cBlock p storing b n).stop.isSome = true
    · simp only [q4, if_true]; exact cBlock_good p storing b n
    · simp only [q4, Bool.false_eq_true, if_false]
      by_cases q5 : (cBlock p storing b n).sib = true
      · simp [q5]
      · simp only [q5, Bool.false_eq_true, if_false]; exact cBlocks_good p storing bs _

/-- a result code `codeOf o` is CIF_OK exactly when nothing stopped -/
theorem codeOf_ok {o : Option Int} (hg : o ≠ some OK) : codeOf o = OK ↔ o = none := by
  cases o with
  | none => simp [codeOf]
  | some r => simp only [codeOf]; constructor
              · intro h; exact absurd (by rw [h]) hg
              · intro h; cases h

theorem isSome_false_iff {o : Option Int} : (o.isSome = true → False) ↔ o = none := by
  cases o <;> simp

-- ---- productions entered at depth 0 ----------------------------------------------------------------------------------------------

theorem xRow_c (p : Prog) (names : List Str) : ∀ (vals : List V) (col : Nat) (s : St), s.skip = 0 →
    col + vals.length ≤ names.length →
    (xRow p names col vals s).2.n = (cItems p (List.zip (names.drop col) vals) s.n).n
    ∧ (xRow p names col vals s).1 = codeOf (cItems p (List.zip (names.drop col) vals) s.n).stop
    ∧ ((cItems p (List.zip (names.drop col) vals) s.n).stop = none →
        (xRow p names col vals s).2.skip = (if (cItems p (List.zip (names.drop col) vals) s.n).sib then 1 else 0))
  | [], col, s, h0, _ => by simp [xRow, cItems, codeOf, h0]
  | v :: vs, col, s, h0, hl => by
    have hlt : col < names.length := by simp at hl; omega
    have hdrop : names.drop col = names[col] :: names.drop (col + 1) := by rw [List.drop_eq_getElem_cons hlt]
    have hget : names.getD col [] = names[col] := by simp [List.getD, hlt]
    have hc : (True ∧ s.skip ≤ 0) := ⟨trivial, by omega⟩
    rw [hdrop]
    simp only [xRow, itemStep, hc, if_true, hget, List.zip_cons_cons, cItems]
    rcases ans4 (p s.n (.item names[col] v)) with h | h | h | ⟨h1, h2, h3⟩
    · rw [site_cont p s _ _ _ h]
      simp only [h, if_true]
      exact xRow_c p names vs (col + 1) _ (by simp [h0]) (by simp at hl ⊢; omega)
    · rw [site_cur p s _ _ _ h]
      simp only [h, cur_ne_cont, if_false, if_true, setSkip_none]
      exact xRow_c p names vs (col + 1) _ (by simp [h0]) (by simp at hl ⊢; omega)
    · rw [site_sib p s _ _ _ h]
      simp only [h, sib_ne_cont, sib_ne_cur, if_false, if_true]
      rw [xRow_skipped p names vs (col + 1) _ (by simp)]
      simp [codeOf]
    · rw [site_stop' p s _ _ _ h1 h2 h3]
      have hne : ¬ (p s.n (Ev.item names[col] v) = OK) := h1
      simp only [h1, h2, h3, hne, if_false]
      simp [codeOf, hne]

/-- one packet at depth 0, against `cPacket` -/
theorem pk_c (p : Prog) (names : List Str) (pk : List V) (s : St) (h0 : s.skip = 0) (hl : pk.length = names.length) :
    (xPk p names 0 [] pk s).2.1.n = (cPacket p names pk s.n).n
    ∧ (xPk p names 0 [] pk s).1 = codeOf (cPacket p names pk s.n).stop
    ∧ (xPk p names 0 [] pk s).2.2 = (cPacket p names pk s.n).kept
    ∧ ((cPacket p names pk s.n).stop = none →
        (xPk p names 0 [] pk s).2.1.skip = (if (cPacket p names pk s.n).sib then 1 else 0)) := by
  have hns : ¬ s.skip > 0 := by omega
  unfold xPk pktStartStep cPacket
  simp only [if_true, hns, if_false, List.nil_append]
  rcases ans4 (p s.n .pktStart) with h | h | h | ⟨h1, h2, h3⟩
  · rw [site_cont p s _ _ _ h]
    simp only [h, if_true, ne_eq, not_true_eq_false, if_false]
    obtain ⟨r1, r2, r3⟩ := xRow_c p names pk 0 (push s .pktStart) (by simp [h0]) (by simp [hl])
    simp only [List.drop_zero, push_n] at r1 r2 r3
    cases hstop : (cItems p (List.zip names pk) (s.n + 1)).stop with
    | some r =>
      rw [hstop] at r2
      have hrne : ¬ ((xRow p names 0 pk (push s Ev.pktStart)).1 = OK) := by
        rw [r2]; simp only [codeOf]
        -- a stopping answer is not CIF_OK: it came out of `cItems`
        intro hr
        have : (cItems p (List.zip names pk) (s.n + 1)).stop ≠ some OK := by
          clear r1 r2 r3 hstop
          generalize List.zip names pk = items
          generalize s.n + 1 = n
          induction items generalizing n with
          | nil => simp [cItems]
          | cons x is ih =>
            obtain ⟨nm, v⟩ := x
            simp only [cItems]
            split
            · exact ih _
            · split
              · exact ih _
              · split
                · simp
                · rename_i a b c; simp; exact a
        rw [hstop, hr] at this
        exact this rfl
      simp only [hrne, not_false_eq_true, if_true, Option.isSome_some]
      exact ⟨r1, r2, trivial, fun h => nomatch h⟩
    | none =>
      rw [hstop] at r2
      have r3' := r3 hstop
      have hrok : (xRow p names 0 pk (push s Ev.pktStart)).1 = OK := by rw [r2]; rfl
      simp only [hrok, not_true_eq_false, if_false, Option.isSome_none, Bool.false_eq_true]
      by_cases hsib : (cItems p (List.zip names pk) (s.n + 1)).sib = true
      · simp only [hsib, if_true] at r3' ⊢
        have hsk : (xRow p names 0 pk (push s Ev.pktStart)).2.skip > 0 := by omega
        simp only [pktEndStep, hsk, if_true, r1]
        refine ⟨trivial, rfl, trivial, fun _ => ?_⟩
        show (xRow p names 0 pk (push s Ev.pktStart)).2.skip - 1 = 0
        omega
      · simp only [hsib, Bool.false_eq_true, if_false] at r3' ⊢
        have hsk : ¬ (xRow p names 0 pk (push s Ev.pktStart)).2.skip > 0 := by omega
        simp only [pktEndStep, hsk, if_false, ← r1]
        generalize (xRow p names 0 pk (push s Ev.pktStart)).2 = s2 at r3' ⊢
        rcases ans4 (p s2.n (.pktEnd (List.zip names pk))) with h | h | h | ⟨h1, h2, h3⟩
        · rw [site_cont p s2 _ _ _ h]; simp [h, cont_ne_sib, stopOf_cont, codeOf, r3']
        · rw [site_cur p s2 _ _ _ h]; simp [h, cur_ne_sib, cur_ne_cont, stopOf_cur, codeOf, r3']
        · rw [site_sib p s2 _ _ _ h]; simp [h, sib_ne_cont, stopOf_sib, codeOf]
        · rw [site_stop' p s2 _ _ _ h1 h2 h3]; simp [h1, h2, h3, stopOf_stop _ h1 h2 h3, codeOf]
  · rw [site_cur p s _ _ _ h]
    simp only [h, cur_ne_cont, if_false, if_true, ne_eq, not_true_eq_false]
    rw [xRow_skipped p names pk 0 _ (by simp)]
    simp [pktEndStep, codeOf]
  · rw [site_sib p s _ _ _ h]
    simp only [h, sib_ne_cont, sib_ne_cur, if_false, if_true, ne_eq, not_true_eq_false]
    rw [xRow_skipped p names pk 0 _ (by simp)]
    simp [pktEndStep, codeOf]
  · rw [site_stop' p s _ _ _ h1 h2 h3]
    have hne : ¬ (p s.n Ev.pktStart = OK) := h1
    simp only [h1, h2, h3, hne, if_false, ne_eq, not_false_eq_true, if_true]
    simp [codeOf]


theorem xPackets_c (p : Prog) (names : List Str) : ∀ (pks : List (List V)) (s : St) (acc : List (List V)),
    s.skip = 0 → (∀ pk ∈ pks, pk.length = names.length) →
    (xPackets p true names pks s acc).2.1.n = (cPackets p names pks s.n).n
    ∧ (xPackets p true names pks s acc).1 = codeOf (cPackets p names pks s.n).stop
    ∧ (xPackets p true names pks s acc).2.2 = acc ++ (cPackets p names pks s.n).kept
    ∧ ((cPackets p names pks s.n).stop = none →
        (xPackets p true names pks s acc).2.1.skip = (if (cPackets p names pks s.n).sib then 1 else 0))
  | [], s, acc, h0, _ => by simp [xPackets, cPackets, codeOf, h0]
  | pk :: pks, s, acc, h0, hl => by
    obtain ⟨a, b, c, d⟩ := pk_c p names pk s h0 (hl pk (List.mem_cons_self ..))
    simp only [xPackets, cPackets]
    cases hstop : (cPacket p names pk s.n).stop with
    | some r =>
      rw [hstop] at b
      have hne : ¬ ((xPk p names 0 [] pk s).1 = OK) := by
        rw [b]; intro h
        exact (cPacket_good p names pk s.n) (by rw [hstop]; simp only [codeOf] at h; rw [h])
      simp only [hne, ne_eq, not_false_eq_true, if_true, Option.isSome_some, List.append_nil]
      exact ⟨a, b, trivial, fun h => nomatch h⟩
    | none =>
      rw [hstop] at b
      have hok : (xPk p names 0 [] pk s).1 = OK := b
      have d' := d hstop
      simp only [hok, ne_eq, not_true_eq_false, if_false, Option.isSome_none, Bool.false_eq_true, Bool.and_true]
      by_cases hsib : (cPacket p names pk s.n).sib = true
      · simp only [hsib, if_true] at d' ⊢
        rw [xPackets_skipped p true names pks _ _ (by omega)]
        simp only [a, c, d', codeOf]
        refine ⟨trivial, trivial, ?_, fun _ => trivial⟩
        cases (cPacket p names pk s.n).kept <;> simp
      · simp only [hsib, Bool.false_eq_true, if_false] at d' ⊢
        obtain ⟨x, y, z, w⟩ := xPackets_c p names pks (xPk p names 0 [] pk s).2.1
          (if (xPk p names 0 [] pk s).2.2 then acc ++ [pk] else acc) d' (fun q hq => hl q (List.mem_cons_of_mem _ hq))
        rw [a] at x y z w
        refine ⟨x, y, ?_, w⟩
        rw [z, c]
        cases (cPacket p names pk s.n).kept <;> simp

theorem loopEnd_c (p : Prog) (hd : Option (List Str)) (s : St) (h0 : s.skip = 0) :
    (loopEndStep p hd OK s).2.n = s.n + 1
    ∧ (loopEndStep p hd OK s).1 = codeOf (stopOf (p s.n (.loopEnd hd)))
    ∧ (stopOf (p s.n (.loopEnd hd)) = none →
        (loopEndStep p hd OK s).2.skip = (if p s.n (.loopEnd hd) = SKIP_SIBLINGS then 1 else 0)) := by
  unfold loopEndStep
  have : ¬ s.skip > 0 := by omega
  simp only [this, if_false, if_true]
  rcases ans4 (p s.n (.loopEnd hd)) with h | h | h | ⟨h1, h2, h3⟩
  · rw [site_cont p s _ _ _ h]; simp [h, cont_ne_sib, stopOf_cont, codeOf, h0]
  · rw [site_cur p s _ _ _ h]; simp [h, cur_ne_sib, stopOf_cur, codeOf, h0]
  · rw [site_sib p s _ _ _ h]; simp [h, stopOf_sib, codeOf]
  · rw [site_stop' p s _ _ _ h1 h2 h3]; simp [h3, stopOf_stop _ h1 h2 h3, codeOf]

theorem loopEnd_stop (p : Prog) (hd : Option (List Str)) (r : Int) (s : St) (h0 : s.skip = 0) (hr : r ≠ OK) :
    loopEndStep p hd r s = (r, s) := by
  unfold loopEndStep
  have : ¬ s.skip > 0 := by omega
  simp only [this, if_false, hr]

theorem xLoop_c (p : Prog) (names : List Str) (pks : List (List V)) (s : St) (c : Content)
    (h0 : s.skip = 0) (hl : ∀ pk ∈ pks, pk.length = names.length) :
    (xLoop p true names pks s).2.1.n = (cLoop p true names pks s.n).n
    ∧ (xLoop p true names pks s).1 = codeOf (cLoop p true names pks s.n).stop
    ∧ (match (xLoop p true names pks s).2.2 with | some l => c.addLoop l | none => c)
        = denoteBody (cLoop p true names pks s.n).kept c
    ∧ ((cLoop p true names pks s.n).stop = none →
        (xLoop p true names pks s).2.1.skip = (if (cLoop p true names pks s.n).sib then 1 else 0)) := by
  obtain ⟨hn1, hs1⟩ := kHeader_ns names (inc s)
  rw [inc0 s h0] at hn1 hs1
  unfold xLoop cLoop
  rw [inc0 s h0]
  generalize kHeader names s = s1 at hn1 hs1 ⊢
  have hs1' : s1.skip ≤ 0 := by omega
  have hs10 : s1.skip = 0 := by omega
  simp only [loopStartStep, hs1', if_true, ← hn1]
  rcases ans4 (p s1.n (.loopStart names)) with h | h | h | ⟨h1, h2, h3⟩
  · rw [site_cont p s1 _ _ _ h]
    simp only [h, if_true, decide_true, Bool.and_self]
    obtain ⟨a, b, e, d⟩ := xPackets_c p names pks (push s1 (.loopStart names)) [] (by simp; omega) hl
    simp only [push_n, List.nil_append] at a b e d
    cases hstop : (cPackets p names pks (s1.n + 1)).stop with
    | some r =>
      rw [hstop] at b
      have hne : (xPackets p true names pks (push s1 (.loopStart names)) []).1 ≠ OK := by
        rw [b]; intro h'
        exact (cPackets_good p names pks (s1.n + 1)) (by rw [hstop]; simp only [codeOf] at h'; rw [h'])
      -- the depth is still 0 when a handler stops the parse? not needed: loop_end only passes the code on
      have hle : ∀ s2 : St, (loopEndStep p (some names) (xPackets p true names pks (push s1 (.loopStart names)) []).1 s2).1
          = (xPackets p true names pks (push s1 (.loopStart names)) []).1
          ∧ (loopEndStep p (some names) (xPackets p true names pks (push s1 (.loopStart names)) []).1 s2).2.n = s2.n := by
        intro s2
        unfold loopEndStep
        by_cases hk : s2.skip > 0
        · simp only [hk, if_true]; exact ⟨trivial, trivial⟩
        · simp only [hk, if_false, hne]; exact ⟨trivial, trivial⟩
      obtain ⟨l1, l2⟩ := hle (xPackets p true names pks (push s1 (.loopStart names)) []).2.1
      simp only [Option.isSome_some, if_true]
      refine ⟨by rw [l2, a], by rw [l1, b], ?_, fun h => nomatch h⟩
      simp [e, denoteBody, denoteElem]
    | none =>
      rw [hstop] at b
      have hok : (xPackets p true names pks (push s1 (.loopStart names)) []).1 = OK := b
      have d' := d hstop
      simp only [Option.isSome_none, Bool.false_eq_true, if_false, hok]
      by_cases hb : (cPackets p names pks (s1.n + 1)).sib = true
      · simp only [hb, if_true] at d' ⊢
        have hk : (xPackets p true names pks (push s1 (.loopStart names)) []).2.1.skip > 0 := by omega
        simp only [loopEndStep, hk, if_true]
        refine ⟨a, rfl, ?_, fun _ => ?_⟩
        · simp [e, denoteBody, denoteElem]
        · show (xPackets p true names pks (push s1 (.loopStart names)) []).2.1.skip - 1 = 0
          omega
      · simp only [hb, Bool.false_eq_true, if_false] at d' ⊢
        obtain ⟨x, y, z⟩ := loopEnd_c p (some names) (xPackets p true names pks (push s1 (.loopStart names)) []).2.1 d'
        rw [a] at x y z
        simp only [x, y, e, denoteBody, denoteElem]
        refine ⟨trivial, trivial, trivial, fun hs => ?_⟩
        rw [z hs]
        by_cases hq : p (cPackets p names pks (s1.n + 1)).n (Ev.loopEnd (some names)) = SKIP_SIBLINGS <;> simp [hq]
  · rw [site_cur p s1 _ _ _ h]
    simp only [h, cur_ne_cont, if_false, decide_false, Bool.and_false, if_true, decide_true]
    rw [xPackets_skipped p false names pks _ [] (by simp)]
    simp [loopEndStep, denoteBody, codeOf]
  · rw [site_sib p s1 _ _ _ h]
    simp only [h, sib_ne_cont, sib_ne_cur, if_false, decide_false, Bool.and_false, if_true, decide_true]
    rw [xPackets_skipped p false names pks _ [] (by simp)]
    simp [loopEndStep, denoteBody, codeOf]
  · rw [site_stop' p s1 _ _ _ h1 h2 h3]
    have hne : ¬ (p s1.n (Ev.loopStart names) = OK) := h1
    simp only [h1, h2, h3, hne, if_false, decide_false, Bool.and_false, Bool.false_eq_true]
    rw [loopEnd_stop p none _ _ (by simpa using hs10) hne]
    simp [denoteBody, codeOf]


-- ---- cif_container_prune and the denotation ----------------------------------------------------------------------------------------

/-- the scalar loop, once created, always has its packet -/
def ScalNE (ls : List Loop) : Prop := ∀ l ∈ ls, isScalarLoop l = true → l.packets ≠ []

def keepL (l : Loop) : Bool := !l.packets.isEmpty

theorem addScalar_ne (ls : List Loop) (nm : Str) (v : V) (h : ScalNE ls) : ScalNE (addScalar ls nm v) := by
  induction ls with
  | nil =>
    intro l hl _
    simp only [addScalar, List.mem_singleton] at hl
    subst hl; simp
  | cons a r ih =>
    simp only [addScalar]
    by_cases ha : isScalarLoop a = true
    · simp only [ha, if_true]
      intro l hl hs
      rcases List.mem_cons.mp hl with e | e
      · subst e
        have := h a (List.mem_cons_self ..) ha
        simp only [ne_eq, List.map_eq_nil_iff]; exact this
      · exact h l (List.mem_cons_of_mem _ e) hs
    · simp only [ha, Bool.false_eq_true, if_false]
      intro l hl hs
      rcases List.mem_cons.mp hl with e | e
      · subst e; exact absurd hs ha
      · exact ih (fun x hx => h x (List.mem_cons_of_mem _ hx)) l e hs

theorem addScalar_filter (ls : List Loop) (nm : Str) (v : V) (h : ScalNE ls) :
    (addScalar ls nm v).filter keepL = addScalar (ls.filter keepL) nm v := by
  induction ls with
  | nil => simp [addScalar, keepL]
  | cons a r ih =>
    have hr : ScalNE r := fun x hx => h x (List.mem_cons_of_mem _ hx)
    by_cases ha : isScalarLoop a = true
    · have hne := h a (List.mem_cons_self ..) ha
      have hk : keepL a = true := by
        unfold keepL; cases hp : a.packets with
        | nil => exact absurd hp hne
        | cons _ _ => rfl
      have hk2 : keepL { a with names := a.names ++ [nm], packets := a.packets.map (· ++ [v]) } = true := by
        unfold keepL; cases hp : a.packets with
        | nil => exact absurd hp hne
        | cons _ _ => rfl
      have ha2 : isScalarLoop { a with names := a.names ++ [nm], packets := a.packets.map (· ++ [v]) } = true := ha
      simp only [addScalar, ha, if_true, List.filter_cons, hk, hk2]
    · simp only [addScalar, ha, Bool.false_eq_true, if_false, List.filter_cons]
      by_cases hk : keepL a = true
      · simp only [hk, if_true, addScalar, ha, Bool.false_eq_true, if_false, ih hr]
      · simp only [hk, Bool.false_eq_true, if_false, ih hr]

theorem prune_eq (c : Content) : c.prune = { c with loops := c.loops.filter keepL } := rfl

theorem denoteElem_ne (e : Elem) (c : Content) (h : ScalNE c.loops) : ScalNE (denoteElem e c).loops := by
  cases e with
  | item n v => simp only [denoteElem, Content.setScalar]; exact addScalar_ne _ _ _ h
  | loop ns pks =>
    simp only [denoteElem, Content.addLoop]
    intro l hl hs
    rcases List.mem_append.mp hl with e | e
    · exact h l e hs
    · simp only [List.mem_singleton] at e; subst e; simp [isScalarLoop] at hs
  | frame code body => simp only [denoteElem, Content.addFrame]; exact h

theorem prune_denoteBody : ∀ (es : List Elem) (c : Content), ScalNE c.loops →
    (denoteBody es c).prune = denoteBody (stripL es) c.prune
  | [], c, _ => by simp [denoteBody, stripL]
  | e :: es, c, h => by
    simp only [denoteBody]
    rw [prune_denoteBody es _ (denoteElem_ne e c h)]
    cases e with
    | item n v =>
      have : stripL (Elem.item n v :: es) = Elem.item n v :: stripL es := by simp [stripL]
      rw [this]
      simp only [denoteBody, denoteElem, Content.setScalar, prune_eq, addScalar_filter _ _ _ h]
    | loop ns pks =>
      cases pks with
      | nil =>
        have : stripL (Elem.loop ns [] :: es) = stripL es := by simp [stripL]
        rw [this]
        simp [denoteElem, Content.addLoop, prune_eq, keepL]
      | cons pk pks =>
        have : stripL (Elem.loop ns (pk :: pks) :: es) = Elem.loop ns (pk :: pks) :: stripL es := by simp [stripL]
        rw [this]
        simp [denoteBody, denoteElem, Content.addLoop, prune_eq, keepL]
    | frame code body =>
      have : stripL (Elem.frame code body :: es) = Elem.frame code body :: stripL es := by simp [stripL]
      rw [this]
      simp only [denoteBody, denoteElem, Content.addFrame, prune_eq]

theorem prune_denoteBody_empty (es : List Elem) : (denoteBody es .empty).prune = denoteBody (stripL es) .empty :=
  prune_denoteBody es .empty (by intro l hl; cases hl)


-- ---- containers ---------------------------------------------------------------------------------------------------------------------

def evS (isBlock : Bool) (code : Str) : Ev := if isBlock then Ev.blockStart (some code) else Ev.frameStart (some code)
def evE (isBlock : Bool) (code : Str) : Ev := if isBlock then Ev.blockEnd (some code) else Ev.frameEnd (some code)

theorem contStart_c (p : Prog) (isBlock : Bool) (code : Str) (s : St) (h0 : s.skip = 0) :
    (contStartStep p true isBlock code s).2.n = s.n + 1
    ∧ (contStartStep p true isBlock code s).1 = codeOf (stopOf (p s.n (evS isBlock code)))
    ∧ (contStartStep p true isBlock code s).2.skip
        = (if p s.n (evS isBlock code) = SKIP_CURRENT then 1 else if p s.n (evS isBlock code) = SKIP_SIBLINGS then 2 else 0) := by
  unfold contStartStep evS
  have : ¬ s.skip > 0 := by omega
  simp only [this, if_false, if_true]
  generalize (if isBlock then Ev.blockStart (some code) else Ev.frameStart (some code)) = e
  rcases ans4 (p s.n e) with h | h | h | ⟨h1, h2, h3⟩
  · rw [site_cont p _ _ _ _ h]; simp [h, h0, stopOf_cont, codeOf, cont_ne_cur, cont_ne_sib]
  · rw [site_cur p _ _ _ _ h]; simp [h, stopOf_cur, codeOf]
  · rw [site_sib p _ _ _ _ h]; simp [h, stopOf_sib, codeOf, sib_ne_cur]
  · rw [site_stop' p _ _ _ _ h1 h2 h3]; simp [h2, h3, h0, stopOf_stop _ h1 h2 h3, codeOf]

/-- container_end reached with CIF_OK from depth 0 or 1: pruned, the end handler is called; from depth 2: neither -/
theorem containerEnd_c (p : Prog) (isBlock : Bool) (code : Str) (s : St) (c : Content) :
    (s.skip = 0 ∨ s.skip = 1 →
        (containerEnd p true isBlock code OK s c).2.1.n = s.n + 1
        ∧ (containerEnd p true isBlock code OK s c).1 = codeOf (stopOf (p s.n (evE isBlock code)))
        ∧ (containerEnd p true isBlock code OK s c).2.2 = c.prune
        ∧ (stopOf (p s.n (evE isBlock code)) = none →
            (containerEnd p true isBlock code OK s c).2.1.skip = (if p s.n (evE isBlock code) = SKIP_SIBLINGS then 1 else 0)))
    ∧ (s.skip = 2 → (containerEnd p true isBlock code OK s c).2.1.n = s.n ∧ (containerEnd p true isBlock code OK s c).1 = OK
        ∧ (containerEnd p true isBlock code OK s c).2.1.skip = 1 ∧ (containerEnd p true isBlock code OK s c).2.2 = c) := by
  unfold containerEnd evE
  have hdn : (dec s).n = s.n := dec_n s
  constructor
  · intro h
    have hd : (dec s).skip = 0 := by rw [dec_skip]; split <;> omega
    have hc : (True ∧ (dec s).skip ≤ 0) := ⟨trivial, by omega⟩
    simp only [hc, if_true]
    generalize (if isBlock then Ev.blockEnd (some code) else Ev.frameEnd (some code)) = e
    rw [← hdn]
    rcases ans4 (p (dec s).n e) with h1 | h1 | h1 | ⟨h1, h2, h3⟩
    · rw [site_cont p _ _ _ _ h1]; simp [h1, cont_ne_sib, stopOf_cont, codeOf]; split <;> omega
    · rw [site_cur p _ _ _ _ h1]; simp [h1, cur_ne_sib, stopOf_cur, codeOf]; split <;> omega
    · rw [site_sib p _ _ _ _ h1]; simp [h1, stopOf_sib, codeOf]
    · rw [site_stop' p _ _ _ _ h1 h2 h3]; simp [h3, stopOf_stop _ h1 h2 h3, codeOf]
  · intro h
    have hd : (dec s).skip = 1 := by rw [dec_skip]; split <;> omega
    have hc : ¬ (True ∧ (dec s).skip ≤ 0) := by omega
    simp only [hc, if_false]
    exact ⟨hdn, trivial, hd, trivial⟩

theorem containerEnd_stop (p : Prog) (cont isBlock : Bool) (code : Str) (r : Int) (s : St) (c : Content) (hr : r ≠ OK) :
    containerEnd p cont isBlock code r s c = (r, dec s, c) := by
  unfold containerEnd
  have : ¬ (r = OK ∧ (dec s).skip ≤ 0) := fun h => hr h.1
  simp only [this, if_false]

/-- what `xElems` owes `cElems` (statement of the induction) -/
def ElemsOK (p : Prog) (body : List Elem) : Prop :=
  ∀ (s' : St) (c' : Content), s'.skip = 0 →
    (xElems p true body s' c').2.1.n = (cElems p true body s'.n).n
    ∧ (xElems p true body s' c').1 = codeOf (cElems p true body s'.n).stop
    ∧ (xElems p true body s' c').2.2 = denoteBody (cElems p true body s'.n).kept c'
    ∧ ((cElems p true body s'.n).stop = none → (xElems p true body s' c').2.1.skip = 0 ∨ (xElems p true body s' c').2.1.skip = 1)

/-- a container (frame or block) entered at depth 0 with a container handle -/
theorem xCont_c (p : Prog) (isBlock : Bool) (code : Str) (body : List Elem) (s : St) (h0 : s.skip = 0) (ih : ElemsOK p body) :
    let R := xCont p true isBlock code body s
    let b := cElems p true body (s.n + 1)
    (p s.n (evS isBlock code) = CONTINUE →
        (∀ r, b.stop = some r → R.2.1.n = b.n ∧ R.1 = r ∧ R.2.2 = denoteBody b.kept .empty)
        ∧ (b.stop = none → R.2.1.n = b.n + 1 ∧ R.1 = codeOf (stopOf (p b.n (evE isBlock code)))
            ∧ R.2.2 = denoteBody (stripL b.kept) .empty
            ∧ (stopOf (p b.n (evE isBlock code)) = none →
                R.2.1.skip = (if p b.n (evE isBlock code) = SKIP_SIBLINGS then 1 else 0))))
    ∧ (p s.n (evS isBlock code) = SKIP_CURRENT →
        R.2.1.n = s.n + 2 ∧ R.1 = codeOf (stopOf (p (s.n + 1) (evE isBlock code))) ∧ R.2.2 = Content.empty
        ∧ (stopOf (p (s.n + 1) (evE isBlock code)) = none →
            R.2.1.skip = (if p (s.n + 1) (evE isBlock code) = SKIP_SIBLINGS then 1 else 0)))
    ∧ (p s.n (evS isBlock code) = SKIP_SIBLINGS → R.2.1.n = s.n + 1 ∧ R.1 = OK ∧ R.2.1.skip = 1 ∧ R.2.2 = Content.empty)
    ∧ (p s.n (evS isBlock code) ≠ CONTINUE → p s.n (evS isBlock code) ≠ SKIP_CURRENT → p s.n (evS isBlock code) ≠ SKIP_SIBLINGS →
        R.2.1.n = s.n + 1 ∧ R.1 = p s.n (evS isBlock code) ∧ R.2.2 = Content.empty) := by
  intro R b
  obtain ⟨hn, hcode, hsk⟩ := contStart_c p isBlock code s h0
  refine ⟨fun h => ?_, fun h => ?_, fun h => ?_, fun h1 h2 h3 => ?_⟩
  · -- CONTINUE
    have hst0 : (contStartStep p true isBlock code s).2.skip = 0 := by rw [hsk]; simp [h, cont_ne_cur, cont_ne_sib]
    have hok : (contStartStep p true isBlock code s).1 = OK := by rw [hcode, h]; rfl
    obtain ⟨a, bb, e, d⟩ := ih (contStartStep p true isBlock code s).2 .empty hst0
    rw [hn] at a bb e d
    have hR : R = containerEnd p true isBlock code (xElems p true body (contStartStep p true isBlock code s).2 .empty).1
        (xElems p true body (contStartStep p true isBlock code s).2 .empty).2.1
        (xElems p true body (contStartStep p true isBlock code s).2 .empty).2.2 := by
      show xCont p true isBlock code body s = _
      unfold xCont
      simp only [hok, ne_eq, not_true_eq_false, if_false]
    refine ⟨fun r hr => ?_, fun hnone => ?_⟩
    · have hne : (xElems p true body (contStartStep p true isBlock code s).2 .empty).1 ≠ OK := by
        rw [bb]; show codeOf b.stop ≠ OK; rw [hr]; simp only [codeOf]
        intro h'
        exact (cElems_good p true body (s.n + 1)) (by show b.stop = some OK; rw [hr, h'])
      rw [hR, containerEnd_stop p true isBlock code _ _ _ hne]
      refine ⟨by simp only [dec_n]; exact a, ?_, e⟩
      rw [bb]; show codeOf b.stop = r; rw [hr]; rfl
    · have hok2 : (xElems p true body (contStartStep p true isBlock code s).2 .empty).1 = OK := by
        rw [bb]; show codeOf b.stop = OK; rw [hnone]; rfl
      obtain ⟨c1, _⟩ := containerEnd_c p isBlock code (xElems p true body (contStartStep p true isBlock code s).2 .empty).2.1
        (xElems p true body (contStartStep p true isBlock code s).2 .empty).2.2
      obtain ⟨x, y, z, w⟩ := c1 (d hnone)
      rw [hR, hok2]
      rw [a] at x y w
      refine ⟨x, y, ?_, w⟩
      rw [z, e]
      exact prune_denoteBody_empty _
  · -- SKIP_CURRENT
    have hst1 : (contStartStep p true isBlock code s).2.skip = 1 := by rw [hsk]; simp [h]
    have hok : (contStartStep p true isBlock code s).1 = OK := by rw [hcode, h]; rfl
    have hel := xElems_skipped p true body (contStartStep p true isBlock code s).2 .empty (by omega)
    have hR : R = containerEnd p true isBlock code OK (contStartStep p true isBlock code s).2 .empty := by
      show xCont p true isBlock code body s = _
      unfold xCont
      simp only [hok, ne_eq, not_true_eq_false, if_false, hel]
    obtain ⟨c1, _⟩ := containerEnd_c p isBlock code (contStartStep p true isBlock code s).2 .empty
    obtain ⟨x, y, z, w⟩ := c1 (Or.inr hst1)
    rw [hn] at x y w
    rw [hR]
    exact ⟨x, y, by rw [z]; rfl, w⟩
  · -- SKIP_SIBLINGS
    have hst2 : (contStartStep p true isBlock code s).2.skip = 2 := by rw [hsk]; simp [h, sib_ne_cur]
    have hok : (contStartStep p true isBlock code s).1 = OK := by rw [hcode, h]; rfl
    have hel := xElems_skipped p true body (contStartStep p true isBlock code s).2 .empty (by omega)
    have hR : R = containerEnd p true isBlock code OK (contStartStep p true isBlock code s).2 .empty := by
      show xCont p true isBlock code body s = _
      unfold xCont
      simp only [hok, ne_eq, not_true_eq_false, if_false, hel]
    obtain ⟨_, c2⟩ := containerEnd_c p isBlock code (contStartStep p true isBlock code s).2 .empty
    obtain ⟨x, y, z, w⟩ := c2 hst2
    rw [hn] at x
    rw [hR]
    exact ⟨x, y, z, w⟩
  · -- a stopping answer
    have hcode' : (contStartStep p true isBlock code s).1 = p s.n (evS isBlock code) := by
      rw [hcode, stopOf_stop _ h1 h2 h3]; rfl
    have hne : (contStartStep p true isBlock code s).1 ≠ OK := by rw [hcode']; exact h1
    have hR : R = containerEnd p true isBlock code (contStartStep p true isBlock code s).1
        (contStartStep p true isBlock code s).2 .empty := by
      show xCont p true isBlock code body s = _
      unfold xCont
      simp only [hne, ne_eq, not_false_eq_true, if_true]
    rw [hR, containerEnd_stop p true isBlock code _ _ _ hne]
    exact ⟨by simp only [dec_n]; exact hn, hcode', rfl⟩


theorem denoteBody_append : ∀ (a b : List Elem) (c : Content), denoteBody (a ++ b) c = denoteBody b (denoteBody a c)
  | [], b, c => by simp [denoteBody]
  | e :: a, b, c => by simp [denoteBody, denoteBody_append a b]

mutual
  theorem xElem_c (p : Prog) : ∀ (e : Elem) (a : Bool) (s : St) (c : Content), s.skip = 0 → wfElem a e = true →
      (xElem p true e s c).2.1.n = (cElem p true e s.n).n
      ∧ (xElem p true e s c).1 = codeOf (cElem p true e s.n).stop
      ∧ (xElem p true e s c).2.2 = denoteBody (cElem p true e s.n).kept c
      ∧ ((cElem p true e s.n).stop = none → (xElem p true e s c).2.1.skip = (if (cElem p true e s.n).sib then 1 else 0))
    | .item nm v, a, s, c, h0, _ => by
      have hns : ¬ s.skip > 0 := by omega
      have hnote : (note s (Ev.dataname nm)).skip = 0 := h0
      simp only [xElem, hns, if_false, inc0 _ hnote, scalarItemStep, cElem]
      have hnn : (note s (Ev.dataname nm)).n = s.n := rfl
      rw [← hnn]
      rcases ans4 (p (note s (Ev.dataname nm)).n (.item nm v)) with h | h | h | ⟨h1, h2, h3⟩
      · rw [site_cont p _ _ _ _ h]
        simp [h, h0, cont_ne_sib, stopOf_cont, codeOf, dec0 (push (note s (Ev.dataname nm)) (Ev.item nm v)) (by simpa using hnote),
          denoteBody, denoteElem]
      · rw [site_cur p _ _ _ _ h]
        simp [h, h0, cur_ne_sib, cur_ne_cont, stopOf_cur, codeOf,
          dec0 (push (note s (Ev.dataname nm)) (Ev.item nm v)) (by simpa using hnote), denoteBody]
      · rw [site_sib p _ _ _ _ h]
        simp [h, sib_ne_cont, stopOf_sib, codeOf, denoteBody, dec_n, dec_skip]
      · rw [site_stop' p _ _ _ _ h1 h2 h3]
        simp [h1, h3, stopOf_stop _ h1 h2 h3, codeOf, denoteBody, dec_n]
    | .loop names pks, a, s, c, h0, hw => by
      obtain ⟨_, _, hall⟩ := loop_wf_all names pks hw
      have hle : s.skip ≤ 0 := by omega
      simp only [xElem, hle, if_true, cElem]
      exact xLoop_c p names pks (note s (Ev.keyword [])) c h0 (fun pk h => (hall pk h).2.1)
    | .frame code body, a, s, c, h0, hw => by
      have hwb : wfElems false body = true := by
        simp only [wfElem, Bool.and_eq_true] at hw; exact hw.2
      have hfc : (!decide ((!true) = true ∨ s.skip > 0)) = true := by simp [h0]
      obtain ⟨d1, d2, d3, d4⟩ := xCont_c p false code body s h0 (fun s' c' h => xElems_c p body false s' c' h hwb)
      simp only [evS, evE, Bool.false_eq_true, if_false] at d1 d2 d3 d4
      rw [xElem_frame]
      simp only [hfc, if_true, cElem]
      rcases ans4 (p s.n (.frameStart (some code))) with h | h | h | ⟨h1, h2, h3⟩
      · obtain ⟨e1, e2⟩ := d1 h
        simp only [h, if_true]
        cases hstop : (cElems p true body (s.n + 1)).stop with
        | some r =>
          obtain ⟨x, y, z⟩ := e1 r hstop
          simp only [Option.isSome_some, if_true, x, y, z, codeOf, denoteBody, denoteElem]
          exact ⟨trivial, trivial, trivial, fun h => nomatch h⟩
        | none =>
          obtain ⟨x, y, z, w⟩ := e2 hstop
          simp only [Option.isSome_none, Bool.false_eq_true, if_false, x, y, z, denoteBody, denoteElem]
          refine ⟨trivial, trivial, trivial, fun hs => ?_⟩
          rw [w hs]
          by_cases hq : p (cElems p true body (s.n + 1)).n (Ev.frameEnd (some code)) = SKIP_SIBLINGS <;> simp [hq]
      · obtain ⟨x, y, z, w⟩ := d2 h
        simp only [h, cur_ne_cont, if_false, if_true, x, y, z, denoteBody, denoteElem]
        refine ⟨trivial, trivial, trivial, fun hs => ?_⟩
        rw [w hs]
        by_cases hq : p (s.n + 1) (Ev.frameEnd (some code)) = SKIP_SIBLINGS <;> simp [hq]
      · obtain ⟨x, y, z, w⟩ := d3 h
        simp only [h, sib_ne_cont, sib_ne_cur, if_false, if_true, x, y, z, w, denoteBody, denoteElem, codeOf]
        exact ⟨trivial, trivial, trivial, fun _ => trivial⟩
      · obtain ⟨x, y, z⟩ := d4 h1 h2 h3
        simp only [h1, h2, h3, if_false, x, y, z, denoteBody, denoteElem, codeOf]
        exact ⟨trivial, trivial, trivial, fun h => nomatch h⟩
  theorem xElems_c (p : Prog) : ∀ (es : List Elem) (a : Bool) (s : St) (c : Content), s.skip = 0 → wfElems a es = true →
      (xElems p true es s c).2.1.n = (cElems p true es s.n).n
      ∧ (xElems p true es s c).1 = codeOf (cElems p true es s.n).stop
      ∧ (xElems p true es s c).2.2 = denoteBody (cElems p true es s.n).kept c
      ∧ ((cElems p true es s.n).stop = none → (xElems p true es s c).2.1.skip = 0 ∨ (xElems p true es s c).2.1.skip = 1)
    | [], a, s, c, h0, _ => by simp [xElems, cElems, denoteBody, codeOf, h0]
    | e :: es, a, s, c, h0, hw => by
      simp only [wfElems, Bool.and_eq_true] at hw
      obtain ⟨x, y, z, w⟩ := xElem_c p e a s c h0 hw.1
      simp only [xElems, cElems]
      cases hstop : (cElem p true e s.n).stop with
      | some r =>
        rw [hstop] at y
        have hne : ¬ ((xElem p true e s c).1 = OK) := by
          rw [y]; intro h
          exact (cElem_good p true e s.n) (by rw [hstop]; simp only [codeOf] at h; rw [h])
        simp only [hne, if_false, Option.isSome_some, if_true]
        exact ⟨x, y, z, fun h => nomatch h⟩
      | none =>
        rw [hstop] at y
        have hok : (xElem p true e s c).1 = OK := y
        have w' := w hstop
        simp only [hok, if_true, Option.isSome_none, Bool.false_eq_true, if_false]
        by_cases hsib : (cElem p true e s.n).sib = true
        · simp only [hsib, if_true] at w' ⊢
          rw [xElems_skipped p true es _ _ (by omega)]
          exact ⟨x, rfl, z, fun _ => Or.inr w'⟩
        · simp only [hsib, Bool.false_eq_true, if_false] at w' ⊢
          obtain ⟨x2, y2, z2, w2⟩ := xElems_c p es a (xElem p true e s c).2.1 (xElem p true e s c).2.2 w' hw.2
          rw [x] at x2 y2 z2 w2
          refine ⟨x2, y2, ?_, w2⟩
          rw [z2, z, denoteBody_append]
end

theorem xBlocks_c (p : Prog) : ∀ (d : Doc) (s : St) (acc : List Container), s.skip = 0 → wfDoc d = true →
    (xBlocks p true d s acc).2.1.n = (cBlocks p true d s.n).n
    ∧ (xBlocks p true d s acc).1 = codeOf (cBlocks p true d s.n).stop
    ∧ (xBlocks p true d s acc).2.2 = acc ++ denote (cBlocks p true d s.n).kept
  | [], s, acc, _, _ => by simp [xBlocks, cBlocks, denote, codeOf]
  | b :: bs, s, acc, h0, hw => by
    simp only [wfDoc, List.all_cons, Bool.and_eq_true] at hw
    have hbc : (true && decide (s.skip ≤ 0)) = true := by simp [h0]
    obtain ⟨d1, d2, d3, d4⟩ := xCont_c p true b.code b.body s h0 (fun s' c' h => xElems_c p b.body true s' c' h hw.1)
    simp only [evS, evE, if_true] at d1 d2 d3 d4
    simp only [xBlocks, hbc, if_true, cBlocks, cBlock]
    have hrest := fun (s2 : St) (acc2 : List Container) (h2 : s2.skip = 0) =>
      xBlocks_c p bs s2 acc2 h2 (by simpa [wfDoc] using hw.2)
    rcases ans4 (p s.n (.blockStart (some b.code))) with h | h | h | ⟨h1, h2, h3⟩
    · obtain ⟨e1, e2⟩ := d1 h
      simp only [h, if_true]
      cases hstop : (cElems p true b.body (s.n + 1)).stop with
      | some r =>
        obtain ⟨x, y, z⟩ := e1 r hstop
        have hne : ¬ (r = OK) := by
          intro h'
          exact (cElems_good p true b.body (s.n + 1)) (by rw [hstop, h'])
        simp only [Option.isSome_some, if_true, x, y, z, hne, if_false, codeOf, denote, List.map_cons, List.map_nil]
        exact ⟨trivial, trivial, trivial⟩
      | none =>
        obtain ⟨x, y, z, w⟩ := e2 hstop
        simp only [Option.isSome_none, Bool.false_eq_true, if_false]
        cases hst2 : stopOf (p (cElems p true b.body (s.n + 1)).n (Ev.blockEnd (some b.code))) with
        | some r =>
          rw [hst2] at y
          have hne : ¬ (r = OK) := by
            intro h'
            exact stopOf_good _ (by rw [hst2, h'])
          simp only [hne, if_false, Option.isSome_some, if_true, x, y, z, codeOf, denote, List.map_cons, List.map_nil]
          exact ⟨trivial, trivial, trivial⟩
        | none =>
          rw [hst2] at y
          have hok : (xCont p true true b.code b.body s).1 = OK := y
          have w' := w hst2
          simp only [hok, if_true, Option.isSome_none, Bool.false_eq_true, if_false]
          by_cases hq : p (cElems p true b.body (s.n + 1)).n (Ev.blockEnd (some b.code)) = SKIP_SIBLINGS
          · simp only [hq, if_true, decide_true] at w' ⊢
            rw [xBlocks_skipped p true bs _ _ (by omega)]
            simp [x, z, codeOf, denote]
          · simp only [hq, if_false, decide_false, Bool.false_eq_true] at w' ⊢
            obtain ⟨x2, y2, z2⟩ := hrest (xCont p true true b.code b.body s).2.1
              (acc ++ [Container.mk b.code (xCont p true true b.code b.body s).2.2.frames (xCont p true true b.code b.body s).2.2.loops]) w'
            rw [x] at x2 y2 z2
            refine ⟨x2, y2, ?_⟩
            rw [z2, z]
            simp [denote]
    · obtain ⟨x, y, z, w⟩ := d2 h
      simp only [h, cur_ne_cont, if_false, if_true]
      cases hst2 : stopOf (p (s.n + 1) (Ev.blockEnd (some b.code))) with
      | some r =>
        rw [hst2] at y
        have hne : ¬ (r = OK) := by
          intro h'
          exact stopOf_good _ (by rw [hst2, h'])
        simp only [hne, if_false, Option.isSome_some, if_true, x, y, z, codeOf, denote, List.map_cons, List.map_nil]
        exact ⟨trivial, trivial, rfl⟩
      | none =>
        rw [hst2] at y
        have hok : (xCont p true true b.code b.body s).1 = OK := y
        have w' := w hst2
        simp only [hok, if_true, Option.isSome_none, Bool.false_eq_true, if_false]
        by_cases hq : p (s.n + 1) (Ev.blockEnd (some b.code)) = SKIP_SIBLINGS
        · simp only [hq, if_true, decide_true] at w' ⊢
          rw [xBlocks_skipped p true bs _ _ (by omega)]
          simp only [x, z, codeOf, denote, List.map_cons, List.map_nil]
          exact ⟨trivial, trivial, rfl⟩
        · simp only [hq, if_false, decide_false, Bool.false_eq_true] at w' ⊢
          obtain ⟨x2, y2, z2⟩ := hrest (xCont p true true b.code b.body s).2.1
            (acc ++ [Container.mk b.code (xCont p true true b.code b.body s).2.2.frames (xCont p true true b.code b.body s).2.2.loops]) w'
          rw [x] at x2 y2 z2
          refine ⟨x2, y2, ?_⟩
          rw [z2, z]
          simp [denote, denoteBody]
    · obtain ⟨x, y, z, w⟩ := d3 h
      simp only [h, sib_ne_cont, sib_ne_cur, if_false, if_true, y, Option.isSome_none, Bool.false_eq_true]
      rw [xBlocks_skipped p true bs _ _ (by omega)]
      simp only [x, w, codeOf, denote, List.map_cons, List.map_nil]
      exact ⟨trivial, trivial, rfl⟩
    · obtain ⟨x, y, z⟩ := d4 h1 h2 h3
      have hne : ¬ (p s.n (Ev.blockStart (some b.code)) = OK) := h1
      simp only [h1, h2, h3, if_false, y, hne, Option.isSome_some, if_true, x, z, codeOf, denote, List.map_cons, List.map_nil]
      exact ⟨trivial, trivial, rfl⟩


theorem end_ne : ¬ (END = CONTINUE) ∧ ¬ (END = SKIP_CURRENT) ∧ ¬ (END = SKIP_SIBLINGS) ∧ ¬ (END > OK) := by decide

/-- **stage 2, for every program**: the structural interpreter returns and stores what `cutDoc` says -/
theorem xDoc_c (p : Prog) (d : Doc) (hw : wfDoc d = true) :
    (xDoc p true d (St.init [])).1 = cutResult p true (cutDoc p true d)
    ∧ (xDoc p true d (St.init [])).2.2 = denote (cutDoc p true d).kept := by
  have h0 : (St.init []).skip = 0 := rfl
  have hn0 : (St.init []).n = 0 := rfl
  unfold xDoc cutDoc
  rw [hn0]
  by_cases hend : p 0 (.cifStart true) = END
  · simp only [hend, if_true, end_ne.1, end_ne.2.1, end_ne.2.2.1, if_false, cutResult, end_ne.2.2.2, denote, List.map_nil]
    exact ⟨trivial, trivial⟩
  · simp only [hend, if_false]
    rcases ans4 (p 0 (.cifStart true)) with h | h | h | ⟨h1, h2, h3⟩
    · rw [site_cont p _ _ _ _ (by rw [hn0]; exact h)]
      simp only [h, if_true]
      obtain ⟨x, y, z⟩ := xBlocks_c p d (push (St.init []) (.cifStart true)) [] (by simp [h0]) hw
      simp only [push_n, hn0, Nat.zero_add, List.nil_append] at x y z
      refine ⟨?_, z⟩
      unfold cifEndStep cutResult
      cases hstop : (cBlocks p true d 1).stop with
      | some r =>
        rw [hstop] at y
        have hne : ¬ (r = OK) := by
          intro h'
          exact cBlocks_good p true d 1 (by rw [hstop, h'])
        simp only [y, codeOf, hne, if_false]
      | none =>
        rw [hstop] at y
        have hok : (xBlocks p true d (push (St.init []) (.cifStart true)) []).1 = OK := y
        simp only [hok, if_true, dec_n, x]
    · rw [site_cur p _ _ _ _ (by rw [hn0]; exact h)]
      simp only [h, cur_ne_cont, if_false, if_true]
      rw [xBlocks_skipped p true d _ [] (by simp)]
      simp [cifEndStep, cutResult, dec_n, hn0, denote]
    · rw [site_sib p _ _ _ _ (by rw [hn0]; exact h)]
      simp only [h, sib_ne_cont, sib_ne_cur, if_false, if_true]
      rw [xBlocks_skipped p true d _ [] (by simp)]
      simp [cifEndStep, cutResult, dec_n, hn0, denote]
    · rw [site_stop' p _ _ _ _ (by rw [hn0]; exact h1) (by rw [hn0]; exact h2) (by rw [hn0]; exact h3)]
      have hne : ¬ (p 0 (Ev.cifStart true) = OK) := h1
      simp only [hn0, h1, h2, h3, hne, if_false, cifEndStep, cutResult, denote, List.map_nil]
      exact ⟨trivial, trivial⟩

end CifModel.Lemmas.ParseCB
