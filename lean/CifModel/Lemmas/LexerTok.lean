import CifModel.Lemmas.LexerValue
/-
  Lemmas/LexerTok — next_token on one admissible presentation (token level), position arithmetic, reserved words.
-/
namespace CifModel.Model.Lexer
open CifModel CifModel.Model.Chars CifModel.Spec.Lexical

/-! ### position arithmetic -/

theorem posAfter_cons (c : Nat) (h10 : ¬ c = 10) (ht : isTrailU c = false) (r : Str) (line col : Nat) :
    posAfter line col (c :: r) = posAfter line (col + 1) r := by
  simp [posAfter, h10, ht]

theorem posAfter_append (a b : Str) : ∀ (line col : Nat),
    posAfter line col (a ++ b) = posAfter (posAfter line col a).1 (posAfter line col a).2 b := by
  induction a with
  | nil => intro line col; simp [posAfter]
  | cons c a ih =>
    intro line col
    by_cases h : c = 10 <;> simp [posAfter, h, ih]

theorem posAfter_noeol (s : Str) (h : s.all (fun x => !isEol x) = true) : ∀ (line col : Nat),
    posAfter line col s = (line, col + colAdd s) := by
  induction s with
  | nil => intro line col; simp [posAfter]
  | cons c s ih =>
    intro line col
    simp only [List.all_cons, Bool.and_eq_true, Bool.not_eq_true'] at h
    have hc : ¬ c = 10 := by simpa [isEol] using h.1
    simp [posAfter, hc, ih h.2, colAdd_cons, Nat.add_assoc]

theorem posAfter_col_indep (s : Str) : ∀ (l1 l2 col : Nat), (posAfter l1 col s).2 = (posAfter l2 col s).2 := by
  induction s with
  | nil => intro l1 l2 col; rfl
  | cons c s ih =>
    intro l1 l2 col
    by_cases h : c = 10 <;> simp [posAfter, h]
    · exact ih _ _ _
    · exact ih _ _ _

theorem linesFit_append (a b : Str) : ∀ (col : Nat),
    linesFit col (a ++ b) = (linesFit col a && linesFit (posAfter 0 col a).2 b) := by
  induction a with
  | nil => intro col; simp [linesFit, posAfter]
  | cons c a ih =>
    intro col
    by_cases h : c = 10
    · simp [linesFit, posAfter, h, ih, Bool.and_assoc, posAfter_col_indep a 1 0 0]
    · simp [linesFit, posAfter, h, ih, Bool.and_assoc]

theorem linesFit_noeol (s : Str) (h : s.all (fun x => !isEol x) = true) : ∀ (col : Nat), linesFit col s = true := by
  induction s with
  | nil => intro col; rfl
  | cons c s ih =>
    intro col
    simp only [List.all_cons, Bool.and_eq_true, Bool.not_eq_true'] at h
    have hc : ¬ c = 10 := by simpa [isEol] using h.1
    simp [linesFit, hc, ih h.2]


/-! ### next_token, first iteration -/

theorem tokLoop_cons (dia : Dialect) (f : Nat) (aw : Bool) (c : Nat) (r : Str) (line col : Nat) :
    tokLoop dia (f + 1) aw ⟨c :: r, line, col⟩
      = L.bind (stepTok dia aw c r line col) (fun st =>
          match st with
          | .tok t p' => L.pure (t, p')
          | .skip aw' p' => tokLoop dia f aw' p') := rfl

theorem tokLoop_nil (dia : Dialect) (f : Nat) (aw : Bool) (line col : Nat) (pol : Policy) (log : List Report) :
    tokLoop dia (f + 1) aw ⟨[], line, col⟩ pol log = .ok (⟨.end_, [], line, col⟩, ⟨[], line, col⟩) log := rfl

/-- `next_token` when input remains: the first iteration of the loop decides -/
theorem nextToken_cons (dia : Dialect) (c : Nat) (r : Str) (line col : Nat) (lt : TokType) (pol : Policy) (log : List Report) :
    nextToken dia ⟨c :: r, line, col, lt⟩ pol log =
      match stepTok dia (afterWsOf lt) c r line col pol log with
      | .ok (.tok t p) log' => .ok (t, ⟨p.rest, p.line, p.col, t.ty⟩) log'
      | .ok (.skip aw p) log' =>
        (match tokLoop dia (r.length + 1) aw p pol log' with
         | .ok (t, p') log'' => .ok (t, ⟨p'.rest, p'.line, p'.col, t.ty⟩) log''
         | .abort rv log'' => .abort rv log'')
      | .abort rv log' => .abort rv log' := by
  simp only [nextToken, List.length_cons, bind_eq, pure_eq]
  rw [tokLoop_cons]
  simp only [L.bind]
  cases h : stepTok dia (afterWsOf lt) c r line col pol log with
  | abort rv log' => rfl
  | ok st log' =>
    cases st with
    | tok t p => rfl
    | skip aw p =>
      simp only []
      cases h2 : tokLoop dia (r.length + 1) aw p pol log' with
      | abort rv l2 => rfl
      | ok tp l2 => rfl

theorem stepTok_tok_nextToken {dia : Dialect} {c : Nat} {r : Str} {line col : Nat} {lt : TokType} {pol : Policy}
    {log log' : List Report} {t : Tok} {p : Pos}
    (h : stepTok dia (afterWsOf lt) c r line col pol log = .ok (.tok t p) log') :
    nextToken dia ⟨c :: r, line, col, lt⟩ pol log = .ok (t, ⟨p.rest, p.line, p.col, t.ty⟩) log' := by
  rw [nextToken_cons, h]

/-- quoted string, CIF 2.0 -/
theorem stepTok_quoted2 (q : Nat) (hq : q = 34 ∨ q = 39) (s ctx : Str) (line col : Nat) (pol : Policy) (log : List Report)
    (hok : quotedOk .cif2 q s = true) (hctx : followOk .cif2 ctx = true) :
    stepTok .cif2 true q (s ++ q :: ctx) line col pol log
      = .ok (.tok ⟨.qvalue, s, line, col + colAdd s + 2⟩ ⟨ctx, line, col + colAdd s + 2⟩) log := by
  simp only [quotedOk, Bool.and_eq_true] at hok
  obtain ⟨⟨h1, h2⟩, h3⟩ := hok
  have hcls : classOf .cif2 q = .quote := by rcases hq with h | h <;> subst h <;> decide
  have hhead : ctx.head? ≠ some q ∧ ctx.head? ≠ some colon := by
    cases ctx with
    | nil => simp
    | cons d r =>
      simp only [followOk, isWs, isBlank, isEol, Bool.or_eq_true, beq_iff_eq, Bool.and_eq_true] at hctx
      simp only [List.head?_cons, ne_eq, Option.some.injEq, colon]
      rcases hq with h | h <;> subst h <;> omega_cu
  have hscan := scanDelim_cif2 q hq ctx line pol log s none [] (col + 1) true h1 trivial h2 h3 (fun _ _ => hhead.1)
  simp only [Option.isSome_none] at hscan
  simp only [stepTok, hcls, metaOfCls, bind_eq, pure_eq]
  simp only [show ((Meta.general != Meta.close && Meta.general != Meta.ws && !true) = false) from rfl, reportIf_false, L.pure_bind]
  simp only [show ¬ (Cls.quote = Cls.eol) from by decide, show ¬ (Cls.quote = Cls.ws) from by decide,
    show ¬ (Cls.quote = Cls.hash) from by decide, show ¬ (Cls.quote = Cls.undersc) from by decide,
    show ¬ (Cls.quote = Cls.obrak) from by decide, show ¬ (Cls.quote = Cls.cbrak) from by decide,
    show ¬ (Cls.quote = Cls.ocurl) from by decide, show ¬ (Cls.quote = Cls.ccurl) from by decide, if_false, if_true]
  rw [L.bind_ok hscan]
  cases ctx with
  | nil => simp [keyPeek, mkTok, Nat.add_assoc]; omega
  | cons d r =>
    have : ¬ d = colon := by simpa using hhead.2
    simp [keyPeek, mkTok, this, Nat.add_assoc]; omega


/-! ### reserved words -/

def letterFacts (dia : Dialect) (c : Nat) : Bool :=
  ((classOf dia c == .d) == (lowerAscii c == 100)) && ((classOf dia c == .a) == (lowerAscii c == 97))
  && ((classOf dia c == .t) == (lowerAscii c == 116)) && ((classOf dia c == .s) == (lowerAscii c == 115))
  && ((classOf dia c == .v) == (lowerAscii c == 118)) && ((classOf dia c == .e) == (lowerAscii c == 101))
  && ((classOf dia c == .l) == (lowerAscii c == 108)) && ((classOf dia c == .o) == (lowerAscii c == 111))
  && ((classOf dia c == .p) == (lowerAscii c == 112)) && ((classOf dia c == .g) == (lowerAscii c == 103))
  && ((classOf dia c == .b) == (lowerAscii c == 98)) && ((classOf dia c == .undersc) == (lowerAscii c == 95))

theorem letterFacts_all (dia : Dialect) (c : Nat) : letterFacts dia c = true := by
  by_cases hc : c < 160
  · have key : ∀ d : Dialect, (List.range 160).all (fun c => letterFacts d c) = true := by
      intro d; cases d <;> decide +kernel
    exact forall_lt_of_range_all (key dia) c hc
  · have hl : lowerAscii c = c := by simp [lowerAscii]; omega_cu
    have h1 : ∀ n : Nat, n < 160 → (c == n) = false := by intro n hn; simp; omega_cu
    cases dia <;> simp [letterFacts, classOf, hc, hl, h1]

structure LF (dia : Dialect) (c : Nat) : Prop where
  d : classOf dia c = .d ↔ lowerAscii c = 100
  a : classOf dia c = .a ↔ lowerAscii c = 97
  t : classOf dia c = .t ↔ lowerAscii c = 116
  s : classOf dia c = .s ↔ lowerAscii c = 115
  v : classOf dia c = .v ↔ lowerAscii c = 118
  e : classOf dia c = .e ↔ lowerAscii c = 101
  l : classOf dia c = .l ↔ lowerAscii c = 108
  o : classOf dia c = .o ↔ lowerAscii c = 111
  p : classOf dia c = .p ↔ lowerAscii c = 112
  g : classOf dia c = .g ↔ lowerAscii c = 103
  b : classOf dia c = .b ↔ lowerAscii c = 98
  u : classOf dia c = .undersc ↔ lowerAscii c = 95

theorem LF.all (dia : Dialect) (c : Nat) : LF dia c := by
  have h := letterFacts_all dia c
  simp only [letterFacts, Bool.and_eq_true, beq_iff_eq] at h
  obtain ⟨⟨⟨⟨⟨⟨⟨⟨⟨⟨⟨g1, g2⟩, g3⟩, g4⟩, g5⟩, g6⟩, g7⟩, g8⟩, g9⟩, g10⟩, g11⟩, g12⟩ := h
  exact ⟨beq_eq_beq_iff g1, beq_eq_beq_iff g2, beq_eq_beq_iff g3, beq_eq_beq_iff g4, beq_eq_beq_iff g5, beq_eq_beq_iff g6,
    beq_eq_beq_iff g7, beq_eq_beq_iff g8, beq_eq_beq_iff g9, beq_eq_beq_iff g10, beq_eq_beq_iff g11, beq_eq_beq_iff g12⟩

/-- a whitespace-delimited string that the grammar does not reserve is classified as a value -/
theorem classify_value (dia : Dialect) (s : Str) (h : isReservedWord s = false) : classify dia s = .value := by
  match s with
  | [] => simp [classify]
  | [_] => simp [classify]
  | [_, _] => simp [classify]
  | [_, _, _] => simp [classify]
  | [_, _, _, _] => simp [classify]
  | a :: b :: c :: d :: e :: rest =>
    have fa := LF.all dia a; have fb := LF.all dia b; have fc := LF.all dia c; have fd := LF.all dia d
    have fe := LF.all dia e
    simp only [isReservedWord, startsWithCI, Bool.or_eq_false_iff, List.length_cons, List.length_nil, List.take,
      List.map_cons, List.map_nil] at h
    obtain ⟨⟨⟨⟨h1, h2⟩, h3⟩, h4⟩, h5⟩ := h
    simp only [beq_eq_false_iff_ne, ne_eq, List.cons.injEq, and_true, not_and] at h1 h2
    simp only [classify, List.length_cons, List.getD_cons_zero, List.getD_cons_succ]
    have hn : rest.length + 1 + 1 + 1 + 1 + 1 > 4 := by omega
    simp only [hn, true_and, fa.d, fb.a, fc.t, fd.a, fe.u, fa.s, fc.v, fd.e, fc.o, fd.p, fa.l, fb.o, fb.t]
    by_cases he : lowerAscii e = 95
    · simp only [he, if_true]
      by_cases hd1 : lowerAscii a = 100 ∧ lowerAscii b = 97 ∧ lowerAscii c = 116 ∧ lowerAscii d = 97
      · exact absurd he (h1 hd1.1 hd1.2.1 hd1.2.2.1 hd1.2.2.2)
      · simp only [hd1, if_false]
        by_cases hs1 : lowerAscii a = 115 ∧ lowerAscii b = 97 ∧ lowerAscii c = 118 ∧ lowerAscii d = 101
        · exact absurd he (h2 hs1.1 hs1.2.1 hs1.2.2.1 hs1.2.2.2)
        · simp only [hs1, if_false]
          by_cases h5' : rest.length + 1 + 1 + 1 + 1 + 1 = 5 ∧ lowerAscii c = 111 ∧ lowerAscii d = 112
          · have hr : rest = [] := List.length_eq_zero_iff.mp (by omega)
            subst hr
            simp [he, h5'.2.1, h5'.2.2] at h3 h4
            simp only [h5', if_true]
            by_cases hl : lowerAscii a = 108 ∧ lowerAscii b = 111
            · exact absurd hl.2 (h3 hl.1)
            · simp only [hl, if_false]
              by_cases hs : lowerAscii a = 115 ∧ lowerAscii b = 116
              · exact absurd hs.2 (h4 hs.1)
              · simp [hs]
          · simp only [h5', if_false]
    · simp only [he, if_false]
      match rest, h5 with
      | [], _ => simp
      | [_], _ => simp
      | _ :: _ :: _ :: _, _ => simp
      | [f, g], h5 =>
        have ff := LF.all dia f; have fg := LF.all dia g
        simp only [List.getD_cons_zero, List.getD_cons_succ, fa.g, fb.l, fd.b, fe.a, ff.l, fg.u]
        simp only [List.map_cons, List.map_nil, beq_eq_false_iff_ne, ne_eq, List.cons.injEq, and_true, not_and] at h5
        by_cases hg : lowerAscii g = 95 ∧ lowerAscii a = 103 ∧ lowerAscii b = 108 ∧ lowerAscii c = 111 ∧ lowerAscii d = 98 ∧ lowerAscii e = 97 ∧ lowerAscii f = 108
        · exact absurd hg.1 (h5 hg.2.1 hg.2.2.1 hg.2.2.2.1 hg.2.2.2.2.1 hg.2.2.2.2.2.1 hg.2.2.2.2.2.2)
        · simp [hg]


/-! ### the remaining presentations at token level -/

theorem quote_dispatch (dia : Dialect) (q : Nat) (hq : q = 34 ∨ q = 39) (r : Str) (line col : Nat) :
    stepTok dia true q r line col
      = L.bind (scanDelim dia q r line (col + 1) false [] true) (fun s => L.pure (keyPeek .key .qvalue s.acc.reverse s.pos)) := by
  have hcls : classOf dia q = .quote := by rcases hq with h | h <;> subst h <;> cases dia <;> decide
  simp only [stepTok, hcls, metaOfCls, bind_eq, pure_eq]
  simp only [show ((Meta.general != Meta.close && Meta.general != Meta.ws && !true) = false) from rfl, reportIf_false, L.pure_bind]
  simp only [show ¬ (Cls.quote = Cls.eol) from by decide, show ¬ (Cls.quote = Cls.ws) from by decide,
    show ¬ (Cls.quote = Cls.hash) from by decide, show ¬ (Cls.quote = Cls.undersc) from by decide,
    show ¬ (Cls.quote = Cls.obrak) from by decide, show ¬ (Cls.quote = Cls.cbrak) from by decide,
    show ¬ (Cls.quote = Cls.ocurl) from by decide, show ¬ (Cls.quote = Cls.ccurl) from by decide, if_false, if_true]

/-- quoted string, CIF 1.1 -/
theorem stepTok_quoted1 (q : Nat) (hq : q = 34 ∨ q = 39) (s ctx : Str) (line col : Nat) (pol : Policy) (log : List Report)
    (hok : quotedOk .cif1 q s = true) (hctx : followOk .cif1 ctx = true) :
    stepTok .cif1 true q (s ++ q :: ctx) line col pol log
      = .ok (.tok ⟨.qvalue, s, line, col + colAdd s + 2⟩ ⟨ctx, line, col + colAdd s + 2⟩) log := by
  simp only [quotedOk, Bool.and_eq_true] at hok
  obtain ⟨⟨h1, h2⟩, h3⟩ := hok
  have hctx' : ctx = [] ∨ ∃ d r, ctx = d :: r ∧ isWs d = true := by
    cases ctx with
    | nil => exact Or.inl rfl
    | cons d r => exact Or.inr ⟨d, r, rfl, by simpa [followOk] using hctx⟩
  have hscan := scanDelim_cif1 q hq ctx hctx' line pol log s [] (col + 1) true h1 h2 h3
  rw [quote_dispatch .cif1 q hq, L.bind_ok hscan]
  rcases hctx' with h | ⟨d, r, h, hd⟩
  · subst h; simp [keyPeek, mkTok, Nat.add_assoc]; omega
  · subst h
    have : ¬ d = colon := by
      simp [isWs, isBlank, isEol] at hd
      simp only [colon]; omega_cu
    simp [keyPeek, mkTok, this, Nat.add_assoc]; omega

/-- quoted table key, CIF 2.0: the string, its closing quote, a colon -/
theorem stepTok_key2 (q : Nat) (hq : q = 34 ∨ q = 39) (s ctx : Str) (line col : Nat) (pol : Policy) (log : List Report)
    (hok : quotedOk .cif2 q s = true) :
    stepTok .cif2 true q (s ++ q :: colon :: ctx) line col pol log
      = .ok (.tok ⟨.key, s, line, col + colAdd s + 3⟩ ⟨ctx, line, col + colAdd s + 3⟩) log := by
  simp only [quotedOk, Bool.and_eq_true] at hok
  obtain ⟨⟨h1, h2⟩, h3⟩ := hok
  have hne : (colon :: ctx).head? ≠ some q := by
    simp only [List.head?_cons, ne_eq, Option.some.injEq, colon]
    rcases hq with h | h <;> subst h <;> decide
  have hscan := scanDelim_cif2 q hq (colon :: ctx) line pol log s none [] (col + 1) true h1 trivial h2 h3 (fun _ _ => hne)
  simp only [Option.isSome_none] at hscan
  rw [quote_dispatch .cif2 q hq, L.bind_ok hscan]
  simp [keyPeek, mkTok, Nat.add_assoc]; omega

/-- scan_delim_string on an opening triple delimiter hands over to scan_triple_delim_string -/
theorem scanDelim_triple_open (q : Nat) (hq : q = 34 ∨ q = 39) (r : Str) (line col : Nat) (pol : Policy) (log : List Report) :
    scanDelim .cif2 q (q :: q :: r) line col false [] true pol log = scanTriple .cif2 q r line (col + 2) false [] 0 0 pol log := by
  have hqa : allowedBmp .cif2 q = true := by rcases hq with h | h <;> subst h <;> decide
  simp only [scanDelim, bind_eq, pure_eq]
  rw [L.bind_ok (scanUChar_bmp .cif2 q hqa line col _ pol log)]
  simp

/-- triple-quoted string -/
theorem stepTok_triple (q : Nat) (hq : q = 34 ∨ q = 39) (s ctx : Str) (line col : Nat) (pol : Policy) (log : List Report)
    (hok : tripleOk .cif2 q s = true) (hfit : linesFit (col + 3) s = true) (hctx : followOk .cif2 ctx = true) :
    stepTok .cif2 true q (q :: q :: (s ++ q :: q :: q :: ctx)) line col pol log
      = .ok (.tok ⟨.qvalue, s, (posAfter line (col + 3) s).1, (posAfter line (col + 3) s).2 + 3⟩
                  ⟨ctx, (posAfter line (col + 3) s).1, (posAfter line (col + 3) s).2 + 3⟩) log := by
  simp only [tripleOk, Bool.and_eq_true] at hok
  obtain ⟨⟨_, h1⟩, h2⟩ := hok
  have hscan := scanTriple_ok q hq ctx pol log s none [] line (col + 1 + 2) 0 0 h1 trivial h2 (by decide) hfit
  simp only [Option.isSome_none] at hscan
  have hscan' := (scanDelim_triple_open q hq (s ++ q :: q :: q :: ctx) line (col + 1) pol log).trans hscan
  rw [quote_dispatch .cif2 q hq, L.bind_ok hscan']
  cases ctx with
  | nil => simp [keyPeek, mkTok]
  | cons d r =>
    have : ¬ d = colon := by
      simp only [followOk, isWs, isBlank, isEol, Bool.or_eq_true, beq_iff_eq, Bool.and_eq_true] at hctx
      simp only [colon]; omega_cu
    simp [keyPeek, mkTok, this]

/-- triple-quoted table key -/
theorem stepTok_triple_key (q : Nat) (hq : q = 34 ∨ q = 39) (s ctx : Str) (line col : Nat) (pol : Policy) (log : List Report)
    (hok : tripleOk .cif2 q s = true) (hfit : linesFit (col + 3) s = true) :
    stepTok .cif2 true q (q :: q :: (s ++ q :: q :: q :: colon :: ctx)) line col pol log
      = .ok (.tok ⟨.key, s, (posAfter line (col + 3) s).1, (posAfter line (col + 3) s).2 + 4⟩
                  ⟨ctx, (posAfter line (col + 3) s).1, (posAfter line (col + 3) s).2 + 4⟩) log := by
  simp only [tripleOk, Bool.and_eq_true] at hok
  obtain ⟨⟨_, h1⟩, h2⟩ := hok
  have hscan := scanTriple_ok q hq (colon :: ctx) pol log s none [] line (col + 1 + 2) 0 0 h1 trivial h2 (by decide) hfit
  simp only [Option.isSome_none] at hscan
  have hscan' := (scanDelim_triple_open q hq (s ++ q :: q :: q :: colon :: ctx) line (col + 1) pol log).trans hscan
  rw [quote_dispatch .cif2 q hq, L.bind_ok hscan']
  simp [keyPeek, mkTok]

/-- text field (the semicolon is the first character of its line) -/
theorem stepTok_text (dia : Dialect) (s ctx : Str) (line : Nat) (pol : Policy) (log : List Report)
    (hok : textOk dia s = true) (hfit : linesFit 1 (s ++ [10]) = true) (hctx : followOk dia ctx = true) :
    stepTok dia true 59 (s ++ 10 :: 59 :: ctx) line 0 pol log
      = .ok (.tok ⟨.tvalue, s, (posAfter line 1 s).1 + 1, 1⟩ ⟨ctx, (posAfter line 1 s).1 + 1, 1⟩) log := by
  simp only [textOk, Bool.and_eq_true] at hok
  have hcls : classOf dia 59 = .semi := by cases dia <;> decide
  have hscan := scanText_ok dia ctx pol log s none [] line 1 0 hok.1 trivial (by simpa using hok.2) (by decide) hfit (by simp)
  simp only [Option.isSome_none] at hscan
  simp only [stepTok, hcls, metaOfCls, bind_eq, pure_eq]
  simp only [show ((Meta.general != Meta.close && Meta.general != Meta.ws && !true) = false) from rfl, reportIf_false, L.pure_bind]
  simp only [show ¬ (Cls.semi = Cls.eol) from by decide, show ¬ (Cls.semi = Cls.ws) from by decide,
    show ¬ (Cls.semi = Cls.hash) from by decide, show ¬ (Cls.semi = Cls.undersc) from by decide,
    show ¬ (Cls.semi = Cls.obrak) from by decide, show ¬ (Cls.semi = Cls.cbrak) from by decide,
    show ¬ (Cls.semi = Cls.ocurl) from by decide, show ¬ (Cls.semi = Cls.ccurl) from by decide,
    show ¬ (Cls.semi = Cls.quote) from by decide, if_false, if_true, Nat.zero_add]
  rw [L.bind_ok hscan]
  have hcol : ∀ d r, ctx = d :: r → ¬ d = colon := by
    intro d r h
    subst h
    simp only [followOk, isWs, isBlank, isEol, Bool.or_eq_true, beq_iff_eq, Bool.and_eq_true] at hctx
    simp only [colon]; omega_cu
  cases dia with
  | cif1 => simp [mkTok]
  | cif2 =>
    cases ctx with
    | nil => simp [keyPeek, mkTok]
    | cons d r => simp [keyPeek, mkTok, hcol d r rfl]

/-- whitespace-delimited value -/
theorem stepTok_bare (dia : Dialect) (s ctx : Str) (line col : Nat) (pol : Policy) (log : List Report)
    (hok : bareOk dia s = true) (hsemi : semiOk s col = true)
    (hctx : ctx = [] ∨ ∃ d r, ctx = d :: r ∧ isWs d = true) :
    ∃ c r, s = c :: r ∧
    stepTok dia true c (r ++ ctx) line col pol log
      = .ok (.tok ⟨.value, s, line, col + colAdd s⟩ ⟨ctx, line, col + colAdd s⟩) log := by
  cases s with
  | nil => simp [bareOk] at hok
  | cons c r =>
    refine ⟨c, r, rfl, ?_⟩
    simp only [bareOk, Bool.and_eq_true, Bool.not_eq_true', Bool.or_eq_false_iff, beq_eq_false_iff_ne, ne_eq] at hok
    obtain ⟨⟨⟨⟨hunits, hnws⟩, hfirst⟩, hbr⟩, hres⟩ := hok
    have hbr2 : dia = .cif2 → (c :: r).all (fun x => !(x == 91 || x == 93 || x == 123 || x == 125)) = true := by
      intro hd; subst hd; exact hbr
    have hf : UF dia c := okUnits_head_facts dia c r hunits
    have hnws1 : isWs c = false := by
      simp only [List.all_cons, Bool.and_eq_true, Bool.not_eq_true'] at hnws; exact hnws.1
    have hmeta : metaOfCls (classOf dia c) ≠ .ws ∧ metaOfCls (classOf dia c) ≠ .open_ ∧ metaOfCls (classOf dia c) ≠ .close := by
      refine ⟨?_, ?_, ?_⟩
      · have := hf.mws; simp only [metaOf] at this; intro h; have h' := this.mp h; simp [hnws1] at h'
      · have := hf.mopen; simp only [metaOf] at this; intro h; obtain ⟨hd, hc⟩ := this.mp h
        have := hbr2 hd
        simp only [List.all_cons, Bool.and_eq_true, Bool.not_eq_true', Bool.or_eq_false_iff, beq_eq_false_iff_ne] at this
        rcases hc with hc | hc
        · exact this.1.1.1.1 hc
        · exact this.1.1.2 hc
      · have := hf.mclose; simp only [metaOf] at this; intro h; obtain ⟨hd, hc⟩ := this.mp h
        have := hbr2 hd
        simp only [List.all_cons, Bool.and_eq_true, Bool.not_eq_true', Bool.or_eq_false_iff, beq_eq_false_iff_ne] at this
        rcases hc with hc | hc
        · exact this.1.1.1.2 hc
        · exact this.1.2 hc
    have hc1 : ¬ classOf dia c = .eol := by rw [hf.eol]; simp [isWs, isEol] at hnws1; exact hnws1.2
    have hc2 : ¬ classOf dia c = .ws := by rw [hf.ws]; simp [isWs] at hnws1; simp [hnws1.1]
    have hc3 : ¬ classOf dia c = .hash := by rw [hf.hash]; exact hfirst.1.1.1.2
    have hc4 : ¬ classOf dia c = .undersc := by rw [hf.undersc]; exact hfirst.2
    have hc9 : ¬ classOf dia c = .quote := by rw [hf.quote]; rintro (h | h); exact hfirst.1.1.1.1 h; exact hfirst.1.2 h
    have hc5 : ¬ classOf dia c = .obrak := by intro h; apply hmeta.2.1; rw [h]; rfl
    have hc6 : ¬ classOf dia c = .cbrak := by intro h; apply hmeta.2.2; rw [h]; rfl
    have hc7 : ¬ classOf dia c = .ocurl := by intro h; apply hmeta.2.1; rw [h]; rfl
    have hc8 : ¬ classOf dia c = .ccurl := by intro h; apply hmeta.2.2; rw [h]; rfl
    have hcv := classify_value dia (c :: r) hres
    simp only [stepTok, bind_eq, pure_eq]
    have hrep : ((metaOfCls (classOf dia c) != Meta.close && metaOfCls (classOf dia c) != Meta.ws && !true) = false) := by simp
    simp only [hrep, reportIf_false, L.pure_bind, hc1, hc2, hc3, hc4, hc5, hc6, hc7, hc8, hc9, if_false]
    by_cases hs : classOf dia c = .semi
    · have hc59 : c = 59 := hf.semi.mp hs
      subst hc59
      have hcol : ¬ col + 1 = 1 := by
        simp [semiOk] at hsemi; omega
      simp only [hs, if_true, hcol, if_false, Nat.add_sub_cancel]
      have hscan := scanUnquoted_ok dia ctx hctx line pol log (59 :: r) none [] col 0 true true hunits trivial hnws hbr2
      simp only [Option.isSome_none, List.cons_append] at hscan
      rw [L.bind_ok hscan]
      simp [finishUnquoted, hcv, mkTok]
    · simp only [hs, if_false, Nat.add_sub_cancel]
      have hscan := scanUnquoted_ok dia ctx hctx line pol log (c :: r) none [] col 0 true true hunits trivial hnws hbr2
      simp only [Option.isSome_none, List.cons_append] at hscan
      rw [L.bind_ok hscan]
      simp [finishUnquoted, hcv, mkTok]

end CifModel.Model.Lexer
