import CifModel.Lemmas.StoreRefineR
/-
  Lemmas/StoreRefineC — set_category, add_item and prune against the documented data model (container-local form).
-/
namespace CifModel.Store
open Gen.ErrCodes

/-- a statement that changes only the loop table, keeping every loop's key, changes nothing `absLoop` looks at except the
    category of the rows it rewrites -/
theorem absLoop_of_same_tables (d d' : Db) (hi : d'.items = d.items) (hv : d'.values = d.values) (x : LoopRow) :
    absLoop d' x = absLoop d x := by
  simp only [absLoop, Db.loopItems, Db.loopRows, hi, hv]

/-- set_category (SET_CATEGORY_SQL, the UPDATE matched the loop), container-local refinement: the loop gets the category,
    keeps names and packets; every other loop of the CIF is what it was; item, value, block, frame tables untouched. -/
theorem setCategory_refines (d d' : Db) (cid ln : Nat) (cat : Option Str) (he : d.setCategory cid ln cat = .ok (d', 1)) :
    d'.loops = d.loops.map (fun l => if l.cid == cid && l.loopNum == ln then { l with category := cat } else l) ∧
    (∀ x : LoopRow, x.cid = cid → x.loopNum = ln → absLoop d' { x with category := cat } = { absLoop d x with category := cat }) ∧
    (∀ y : LoopRow, absLoop d' y = absLoop d y) ∧
    d'.items = d.items ∧ d'.values = d.values ∧ d'.frames = d.frames ∧ d'.blocks = d.blocks := by
  unfold Db.setCategory at he
  split at he
  · cases he
  · split at he; · cases he
    split at he; · cases he
    simp only [Except.ok.injEq, Prod.mk.injEq, and_true] at he
    subst he
    refine ⟨rfl, ?_, fun y => absLoop_of_same_tables d _ rfl rfl y, rfl, rfl, rfl, rfl⟩
    intro x _ _
    simp only [absLoop, Db.loopItems, Db.loopRows]

end CifModel.Store

namespace CifModel.Store
open Gen.ErrCodes

/-- add_item (ADD_LOOP_ITEM_SQL then SET_ALL_VALUES_SQL), container-local refinement: on success the loop gains the name — in
    the given spelling, as its last name — and the given value as the last entry of EVERY packet; nothing else of the loop
    changes and every other loop of the CIF is what it was; loop, block and frame tables untouched. -/
theorem addItem_refines (d d' : Db) (l : LH) (key orig : Str) (v : V) (n : Nat) (x : LoopRow) (h : Inv d) (hx : x ∈ d.loops)
    (hxk : x.cid = l.cid ∧ x.loopNum = l.loopNum) (he : addItemBody l key orig v d = .ok (d', n)) :
    absLoop d' x = { category := x.category, names := (absLoop d x).names ++ [orig],
                     packets := (absLoop d x).packets.map (fun p => p ++ [v]) } ∧
    (∀ y ∈ d.loops, ¬(y.cid = x.cid ∧ y.loopNum = x.loopNum) → absLoop d' y = absLoop d y) ∧
    d'.loops = d.loops ∧ d'.frames = d.frames ∧ d'.blocks = d.blocks := by
  unfold addItemBody at he
  split at he
  · cases he
  · rename_i d1 hins
    simp only [Except.ok.injEq] at he
    have hd' : d' = (d1.setAllValues l.cid key v).1 := by rw [he]
    have hinv1 : Inv d1 := h.insertItem _ _ _ _ hins
    -- what the INSERT did
    have hspec : d1 = { d with items := d.items ++ [{ cid := l.cid, name := key, nameOrig := orig, loopNum := l.loopNum }] } ∧
        d.hasItem l.cid key = false := by
      unfold Db.insertItem at hins
      split at hins; · cases hins
      rename_i hfresh
      split at hins; · cases hins
      cases hins
      exact ⟨rfl, by simpa using hfresh⟩
    obtain ⟨hd1, hfresh⟩ := hspec
    let new : ItemRow := { cid := l.cid, name := key, nameOrig := orig, loopNum := l.loopNum }
    have hv1 : d1.values = d.values := by rw [hd1]
    have hl1 : d1.loops = d.loops := by rw [hd1]
    have hnoval : ∀ w ∈ d.values, ¬(w.cid = l.cid ∧ w.name = key) := by
      intro w hw ⟨a, b⟩
      have := h.valueFK w hw
      rw [a, b, hfresh] at this; cases this
    have hit_x : d1.loopItems x.cid x.loopNum = d.loopItems x.cid x.loopNum ++ [new] := by
      rw [hd1]
      simp only [Db.loopItems, List.filter_append]
      congr 1
      simp [new, hxk.1, hxk.2]
    have hit_y : ∀ y : LoopRow, ¬(y.cid = x.cid ∧ y.loopNum = x.loopNum) → d1.loopItems y.cid y.loopNum = d.loopItems y.cid y.loopNum := by
      intro y hne
      rw [hd1]
      simp only [Db.loopItems, List.filter_append]
      have : [new].filter (fun i => i.cid == y.cid && i.loopNum == y.loopNum) = [] := by
        rw [List.filter_eq_nil_iff]
        intro i hi hk
        simp at hi; subst hi
        simp [new] at hk
        exact hne ⟨by rw [hxk.1, hk.1], by rw [hxk.2, hk.2]⟩
      rw [this, List.append_nil]
    have holdne : ∀ j ∈ d.loopItems x.cid x.loopNum, j.name ≠ key := by
      intro j hj hn
      obtain ⟨hjm, hjk⟩ := List.mem_filter.mp hj
      simp at hjk
      have : d.hasItem l.cid key = true := (hasItem_iff d _ _).mpr ⟨j, hjm, by rw [hjk.1, hxk.1], hn⟩
      rw [hfresh] at this; cases this
    -- the loop after the INSERT: one more name, an unknown value in every packet
    have hrows1 : d1.loopRows x.cid x.loopNum = d.loopRows x.cid x.loopNum := by
      unfold Db.loopRows
      rw [hit_x, hv1]
      congr 1
      apply List.filter_congr
      intro w hw
      simp only [List.any_append, List.any_cons, List.any_nil, Bool.or_false]
      cases hc : (w.cid == x.cid) with
      | false => simp
      | true =>
        have : (new.name == w.name) = false := by
          have hcc : w.cid = l.cid := by rw [← hxk.1]; simpa using hc
          have := hnoval w hw
          simp [new]; exact fun hk => this ⟨hcc, hk.symm⟩
        simp [this]
    have hcell1 : ∀ (c : Nat) (j : ItemRow) (r : Nat), cell d1 c j r = cell d c j r := by
      intro c j r; simp only [cell, hv1]
    have hx1 : x ∈ d1.loops := by rw [hl1]; exact hx
    have hnew1 : new ∈ d1.loopItems x.cid x.loopNum := by rw [hit_x]; exact List.mem_append_right _ (List.mem_singleton.mpr rfl)
    have hset := setAllValues_refines d1 x new v hinv1 hx1 hnew1
    simp only [] at hset
    have e : d' = (d1.setAllValues x.cid new.name v).1 := by rw [hd', hxk.1]
    rw [e]
    obtain ⟨h1, h2, h3, _, h5, h6⟩ := hset
    refine ⟨?_, ?_, by rw [h3, hl1], by rw [h5, hd1], by rw [h6, hd1]⟩
    · rw [h1, absLoop_eq d1 x, absLoop_eq d x, hit_x, hrows1]
      simp only [List.map_append, List.map_cons, List.map_nil, List.map_map]
      congr 1
      apply List.map_congr_left
      intro r _
      simp only [Function.comp]
      congr 1
      · apply List.map_congr_left
        intro j hj
        have : (j.name == new.name) = false := by simpa [new] using holdne j hj
        simp only [this, Bool.false_eq_true, if_false, hcell1]
      · simp [new]
    · intro y hy hne
      have hy1 : y ∈ d1.loops := by rw [hl1]; exact hy
      rw [h2 y hy1 hne, absLoop_eq d1 y, absLoop_eq d y, hit_y y hne]
      have : d1.loopRows y.cid y.loopNum = d.loopRows y.cid y.loopNum := by
        unfold Db.loopRows; rw [hit_y y hne, hv1]
      rw [this]
      congr 1
      apply List.map_congr_left
      intro r _
      apply List.map_congr_left
      intro j _
      exact hcell1 _ _ _

end CifModel.Store

namespace CifModel.Store
open Gen.ErrCodes

/-- delete from loop … (with the cascade), for a selection that depends on the loop's key only: the selected loops disappear,
    every other loop of the CIF is what it was -/
theorem deleteLoops_refines (d : Db) (p : LoopRow → Bool) (h : Inv d)
    (hkey : ∀ a b : LoopRow, a.cid = b.cid → a.loopNum = b.loopNum → p a = p b) :
    (d.deleteLoops p).loops = d.loops.filter (fun l => !p l) ∧
    (∀ y ∈ d.loops, p y = false → absLoop (d.deleteLoops p) y = absLoop d y) ∧
    (d.deleteLoops p).frames = d.frames ∧ (d.deleteLoops p).blocks = d.blocks := by
  let d' := d.deleteLoops p
  let q : ItemRow → Bool := fun i => (d.loops.filter p).any (fun l => l.cid == i.cid && l.loopNum == i.loopNum)
  have hit : d'.items = d.items.filter (fun i => !q i) := rfl
  have hv : d'.values = d.values.filter (fun v => !(d.items.filter q).any (fun i => i.cid == v.cid && i.name == v.name)) := rfl
  have hother : ∀ y ∈ d.loops, p y = false → ∀ j ∈ d.loopItems y.cid y.loopNum, q j = false := by
    intro y _ hpy j hj
    obtain ⟨_, hjk⟩ := List.mem_filter.mp hj
    simp at hjk
    cases hqj : q j with
    | false => rfl
    | true =>
      obtain ⟨l, hlm, hm⟩ := List.any_eq_true.mp hqj
      have hpl := (List.mem_filter.mp hlm).2
      simp at hm
      have : p l = p y := hkey l y (by rw [hm.1, hjk.1]) (by rw [hm.2, hjk.2])
      rw [hpl, hpy] at this; cases this
  have hkeep : ∀ y ∈ d.loops, p y = false → ∀ j ∈ d.loopItems y.cid y.loopNum, ∀ w ∈ d.values,
      w.cid = y.cid → w.name = j.name → (d.items.filter q).any (fun i => i.cid == w.cid && i.name == w.name) = false := by
    intro y hy hpy j hj w _ hc hn
    rw [Bool.eq_false_iff]
    intro hany
    obtain ⟨i', hi', hm⟩ := List.any_eq_true.mp hany
    obtain ⟨hi'm, hqi'⟩ := List.mem_filter.mp hi'
    obtain ⟨hjm, hjk⟩ := List.mem_filter.mp hj
    simp at hm hjk
    have : i' = j := itemKey_unique d.items h.itemPK i' hi'm j hjm (by rw [hm.1, hc, hjk.1]) (by rw [hm.2, hn])
    subst this
    rw [hother y hy hpy i' hj] at hqi'; cases hqi'
  refine ⟨rfl, ?_, rfl, rfl⟩
  intro y hy hpy
  have hitems : d'.loopItems y.cid y.loopNum = d.loopItems y.cid y.loopNum := by
    show d'.items.filter _ = d.items.filter _
    rw [hit, List.filter_filter]
    apply List.filter_congr
    intro j hj
    cases hk : (j.cid == y.cid && j.loopNum == y.loopNum) with
    | false => simp
    | true => simp [hother y hy hpy j (List.mem_filter.mpr ⟨hj, hk⟩)]
  have hfil : d'.values.filter (fun w => w.cid == y.cid && (d.loopItems y.cid y.loopNum).any (fun j => j.name == w.name)) =
      d.values.filter (fun w => w.cid == y.cid && (d.loopItems y.cid y.loopNum).any (fun j => j.name == w.name)) := by
    rw [hv, List.filter_filter]
    apply List.filter_congr
    intro w hw
    cases hk : (w.cid == y.cid && (d.loopItems y.cid y.loopNum).any (fun j => j.name == w.name)) with
    | false => simp
    | true =>
      simp only [Bool.and_eq_true, List.any_eq_true] at hk
      obtain ⟨hc, j, hj, hjn⟩ := hk
      simp at hc hjn
      simp [hkeep y hy hpy j hj w hw hc hjn.symm]
  have hrows : d'.loopRows y.cid y.loopNum = d.loopRows y.cid y.loopNum := by
    unfold Db.loopRows; rw [hitems, hfil]
  show absLoop d' y = absLoop d y
  rw [absLoop_eq d' y, absLoop_eq d y, hitems, hrows]
  congr 1
  apply List.map_congr_left
  intro r _
  apply List.map_congr_left
  intro j hj
  unfold cell
  rw [hv, List.find?_filter]
  congr 1
  congr 1
  apply find?_congr'
  intro w hw
  cases hk : (w.cid == y.cid && w.name == j.name && w.rowNum == r) with
  | false => simp
  | true =>
    simp at hk
    simp [hkeep y hy hpy j hj w hw hk.1.1 hk.1.2]

/-- the loops PRUNE_SQL selects are the loops of the container that have no packet in the documented model -/
theorem prune_selects (d : Db) (cid : Nat) (l : LoopRow) (hl : l.cid = cid) :
    (l.cid == cid && !(d.items.any (fun i => i.cid == cid && i.loopNum == l.loopNum && d.values.any (fun v => v.cid == cid && v.name == i.name)))) = true ↔
    (absLoop d l).packets = [] := by
  rw [absLoop_eq]
  simp only [List.map_eq_nil_iff]
  constructor
  · intro hp
    simp only [Bool.and_eq_true, Bool.not_eq_true'] at hp
    have hnone := hp.2
    cases hr : d.loopRows l.cid l.loopNum with
    | nil => rfl
    | cons r rs =>
      exfalso
      have : r ∈ d.loopRows l.cid l.loopNum := by rw [hr]; exact List.mem_cons_self
      obtain ⟨w, hw, hc, ha, _⟩ := (mem_loopRows_iff d _ _ _).mp this
      obtain ⟨i, hi, hin⟩ := List.any_eq_true.mp ha
      obtain ⟨him, hik⟩ := List.mem_filter.mp hi
      simp at hik hin
      have : d.items.any (fun i => i.cid == cid && i.loopNum == l.loopNum && d.values.any (fun v => v.cid == cid && v.name == i.name)) = true := by
        rw [List.any_eq_true]
        refine ⟨i, him, ?_⟩
        simp only [Bool.and_eq_true, List.any_eq_true]
        exact ⟨⟨by simp [hik.1, hl], by simp [hik.2]⟩, w, hw, by simp [hc, hl, hin]⟩
      rw [this] at hnone; cases hnone
  · intro hr
    simp only [Bool.and_eq_true, Bool.not_eq_true']
    refine ⟨by simp [hl], ?_⟩
    rw [Bool.eq_false_iff]
    intro hany
    obtain ⟨i, him, hk⟩ := List.any_eq_true.mp hany
    simp only [Bool.and_eq_true, List.any_eq_true] at hk
    obtain ⟨⟨hic, hil⟩, w, hw, hwk⟩ := hk
    simp at hic hil hwk
    have : w.rowNum ∈ d.loopRows l.cid l.loopNum := (mem_loopRows_iff d _ _ _).mpr ⟨w, hw, by rw [hwk.1, hl], by
      rw [List.any_eq_true]
      exact ⟨i, List.mem_filter.mpr ⟨him, by simp [hic, hil, hl]⟩, by simp [hwk.2]⟩, rfl⟩
    rw [hr] at this; cases this

end CifModel.Store

namespace CifModel.Store
open Gen.ErrCodes

/-- a loop without packets satisfies `RowsBelow` trivially -/
theorem rowsBelow_of_no_packets (d : Db) (x : LoopRow) (h : (absLoop d x).packets = []) : RowsBelow d x.cid x.loopNum := by
  intro r _ _ _ v hv hc ha
  have hr : d.loopRows x.cid x.loopNum = [] := by
    rw [absLoop_eq] at h; simpa using h
  have : v.rowNum ∈ d.loopRows x.cid x.loopNum := (mem_loopRows_iff d _ _ _).mpr ⟨v, hv, hc, ha, rfl⟩
  rw [hr] at this; cases this

/-- cif_loop_add_item_internal reports (sqlite3_changes of SET_ALL_VALUES_SQL) the number of packets of the loop -/
theorem addItemBody_count (d d' : Db) (l : LH) (key orig : Str) (v : V) (n : Nat) (x : LoopRow) (h : Inv d)
    (hxk : x.cid = l.cid ∧ x.loopNum = l.loopNum) (he : addItemBody l key orig v d = .ok (d', n)) :
    n = (absLoop d x).packets.length := by
  unfold addItemBody at he
  split at he
  · cases he
  · rename_i d1 hins
    simp only [Except.ok.injEq] at he
    have hspec : d1 = { d with items := d.items ++ [{ cid := l.cid, name := key, nameOrig := orig, loopNum := l.loopNum }] } ∧
        d.hasItem l.cid key = false := by
      unfold Db.insertItem at hins
      split at hins; · cases hins
      rename_i hfresh
      split at hins; · cases hins
      cases hins
      exact ⟨rfl, by simpa using hfresh⟩
    obtain ⟨hd1, hfresh⟩ := hspec
    -- the only item with that key is the new one
    have hloop : d1.loopOfItem l.cid key = some l.loopNum := by
      unfold Db.loopOfItem
      rw [hd1]
      simp only [List.find?_append]
      have : d.items.find? (fun i => i.cid == l.cid && i.name == key) = none := by
        rw [List.find?_eq_none]
        intro i hi hk
        simp at hk
        have : d.hasItem l.cid key = true := (hasItem_iff d _ _).mpr ⟨i, hi, hk.1, hk.2⟩
        rw [hfresh] at this; cases this
      rw [this]; simp
    have hn : n = (d1.loopRows l.cid l.loopNum).length := by
      have : (d1.setAllValues l.cid key v).2 = n := by rw [he]
      simp only [Db.setAllValues, hloop] at this
      exact this.symm
    have hrows : d1.loopRows l.cid l.loopNum = d.loopRows l.cid l.loopNum := by
      unfold Db.loopRows
      rw [hd1]
      simp only [Db.loopItems, List.filter_append]
      have hnew : [({ cid := l.cid, name := key, nameOrig := orig, loopNum := l.loopNum } : ItemRow)].filter (fun i => i.cid == l.cid && i.loopNum == l.loopNum) =
          [{ cid := l.cid, name := key, nameOrig := orig, loopNum := l.loopNum }] := by simp
      rw [hnew]
      congr 1
      apply List.filter_congr
      intro w hw
      simp only [List.any_append, List.any_cons, List.any_nil, Bool.or_false]
      cases hc : (w.cid == l.cid) with
      | false => simp
      | true =>
        have hcc : w.cid = l.cid := by simpa using hc
        have : (key == w.name) = false := by
          cases hk : (key == w.name) with
          | false => rfl
          | true =>
            have hkk : key = w.name := by simpa using hk
            have := h.valueFK w hw
            rw [hcc, ← hkk, hfresh] at this; cases this
        simp [this]
    rw [hn, hrows, absLoop_eq, hxk.1, hxk.2]
    simp

end CifModel.Store
