import CifModel.Lemmas.StoreTotalS
import CifModel.Lemmas.StoreIter
/-
  Lemmas/StoreIterOk — what ties an open packet iterator to its store: the names it took are items of its loop, its `scalar` flag is
  true to the stored category, the row it stands on and the rows it still has to deliver are rows of the loop, in ascending order.
  Established by cif_loop_get_packets through a valid handle, kept by next / update / remove.
-/
namespace CifModel.Store
open Gen.ErrCodes

structure IterOk (it : Iter) (d : Db) : Prop where
  names : ∀ k, it.names.contains k = true → (d.loopItems it.cid it.loopNum).any (fun i => i.name == k) = true
  scalar : it.ScalarOk d
  cur : 0 < it.prev → it.prev.toNat ∈ d.loopRows it.cid it.loopNum
  future : ∀ r ∈ it.rows, r.rowNum ∈ d.loopRows it.cid it.loopNum ∧ it.prev < (r.rowNum : Int)
  sorted : it.rows.Pairwise (fun a b => a.rowNum ≤ b.rowNum)
  /-- the names are exactly the loop's item names, in the loop's order -/
  namesEq : it.names = (d.loopItems it.cid it.loopNum).map (·.name)
  /-- the rows still to be delivered are what the store holds now (the iterator's snapshot has not gone stale) … -/
  fresh : ∀ x ∈ it.rows, x ∈ d.values ∧ x.cid = it.cid ∧ (d.loopItems it.cid it.loopNum).any (fun i => i.name == x.name) = true
  /-- … and they are all of it from the first pending row on -/
  complete : ∀ v ∈ d.values, v.cid = it.cid → (d.loopItems it.cid it.loopNum).any (fun i => i.name == v.name) = true →
    (∃ x ∈ it.rows, x.rowNum ≤ v.rowNum) → v ∈ it.rows
  /-- no packet lies between the current one and the pending ones -/
  above : 0 < it.prev → ∀ r ∈ d.loopRows it.cid it.loopNum, it.prev < (r : Int) → ∃ x ∈ it.rows, x.rowNum = r
  /-- the pending rows have distinct keys (item_value's primary key) and `finished` says whether any is left -/
  keys : it.rows.Pairwise ValueKeyNe
  fin : it.finished = it.rows.isEmpty
  /-- the iterated loop exists -/
  loop : ∃ x ∈ d.loops, x.cid = it.cid ∧ x.loopNum = it.loopNum

theorem IterOk.attached {it : Iter} {d : Db} (h : IterOk it d) : 0 < it.prev → it.Attached d := fun hp => ⟨h.cur hp, h.names⟩

/-- the handle is valid: its loop exists and its cached category is the stored one -/
def LH.Valid (l : LH) (d : Db) : Prop := ∃ x ∈ d.loops, x.cid = l.cid ∧ x.loopNum = l.loopNum ∧ x.category = l.category

theorem foldr_insertByRow_sorted : ∀ l : List ValueRow, (l.foldr Db.insertByRow []).Pairwise (fun a b => a.rowNum ≤ b.rowNum)
  | [] => List.Pairwise.nil
  | x :: xs => by simp only [List.foldr_cons]; exact insertByRow_sorted x _ (foldr_insertByRow_sorted xs)

theorem mem_foldr_insertByRow : ∀ (l : List ValueRow) (y : ValueRow), y ∈ l.foldr Db.insertByRow [] → y ∈ l
  | [], _, h => h
  | x :: xs, y, h => by
    simp only [List.foldr_cons] at h
    rcases mem_insertByRow x y _ h with rfl | h
    · exact List.mem_cons_self
    · exact List.mem_cons_of_mem _ (mem_foldr_insertByRow xs y h)

theorem dropWhile_sorted_gt (a : Nat) : ∀ l : List ValueRow, l.Pairwise (fun a b => a.rowNum ≤ b.rowNum) → (∀ x ∈ l, a ≤ x.rowNum) →
    ∀ y ∈ l.dropWhile (fun x => x.rowNum == a), a < y.rowNum
  | [], _, _, y, hy => by simp at hy
  | x :: xs, hp, hge, y, hy => by
    rw [List.pairwise_cons] at hp
    by_cases hx : (x.rowNum == a) = true
    · simp only [List.dropWhile_cons, hx, if_true] at hy
      exact dropWhile_sorted_gt a xs hp.2 (fun z hz => hge z (List.mem_cons_of_mem _ hz)) y hy
    · simp only [List.dropWhile_cons, hx, Bool.false_eq_true, if_false] at hy
      have hxa : a < x.rowNum := by
        have := hge x List.mem_cons_self
        have : x.rowNum ≠ a := by simpa using hx
        omega
      rcases List.mem_cons.mp hy with rfl | hy
      · exact hxa
      · have := hp.1 y hy; omega

theorem mem_foldr_insertByRow_of_mem : ∀ (l : List ValueRow) (y : ValueRow), y ∈ l → y ∈ l.foldr Db.insertByRow []
  | x :: xs, y, h => by
    simp only [List.foldr_cons]
    have key : ∀ (a : ValueRow) (l : List ValueRow) (z : ValueRow), (z = a ∨ z ∈ l) → z ∈ Db.insertByRow a l := by
      intro a l
      induction l with
      | nil => intro z hz; rcases hz with rfl | hz; exact List.mem_singleton.mpr rfl; cases hz
      | cons b bs ih =>
        intro z hz
        unfold Db.insertByRow
        split
        · rcases hz with rfl | hz
          · exact List.mem_cons_self
          · exact List.mem_cons_of_mem _ hz
        · rcases hz with rfl | hz
          · exact List.mem_cons_of_mem _ (ih _ (Or.inl rfl))
          · rcases List.mem_cons.mp hz with rfl | hz
            · exact List.mem_cons_self
            · exact List.mem_cons_of_mem _ (ih _ (Or.inr hz))
    rcases List.mem_cons.mp h with rfl | h
    · exact key _ _ _ (Or.inl rfl)
    · exact key _ _ _ (Or.inr (mem_foldr_insertByRow_of_mem xs y h))

/-- in a list sorted by row number whose first element has row `a`, everything with another row number survives `dropWhile (== a)` -/
theorem mem_dropWhile_of_ne (a : Nat) : ∀ l : List ValueRow, l.Pairwise (fun x y => x.rowNum ≤ y.rowNum) → (∀ x ∈ l, a ≤ x.rowNum) →
    ∀ y ∈ l, y.rowNum ≠ a → y ∈ l.dropWhile (fun x => x.rowNum == a)
  | [], _, _, y, hy, _ => by cases hy
  | x :: xs, hp, hge, y, hy, hne => by
    rw [List.pairwise_cons] at hp
    by_cases hx : (x.rowNum == a) = true
    · simp only [List.dropWhile_cons, hx, if_true]
      rcases List.mem_cons.mp hy with rfl | hy
      · exact absurd (by simpa using hx) hne
      · exact mem_dropWhile_of_ne a xs hp.2 (fun z hz => hge z (List.mem_cons_of_mem _ hz)) y hy hne
    · simp only [List.dropWhile_cons, hx, Bool.false_eq_true, if_false]
      exact hy

/-- cif_loop_get_packets through a valid handle -/
theorem getPackets_iterOk (s s2 : Store) (l : LH) (it : Iter) (hv : l.Valid s.db) (hpk : Inv s.db)
    (h : getPackets s l = (s2, .ok it)) : s2.db = s.db ∧ IterOk it s.db := by
  obtain ⟨hn, hc, hln⟩ := getPackets_names s s2 l it h
  have hsame := getNames_same s l
  unfold getPackets at h
  split at h
  · cases h
  · rename_i s1 names he
    rw [he] at hsame
    have hdb1 : s1.db = s.db := hsame.1
    split at h
    · cases h
    · rename_i s2' hb
      obtain ⟨_, hs2⟩ := begin_autocommit s1 s2' hb
      split at h
      · cases h
      · simp only [Prod.mk.injEq, Except.ok.injEq] at h
        obtain ⟨h2, hit⟩ := h
        subst h2
        have hdb2 : s2'.db = s.db := by rw [hs2]; exact hdb1
        refine ⟨hdb2, ?_⟩
        subst hit
        simp only [] at hn hc hln ⊢
        refine ⟨?_, ?_, ?_, ?_, ?_, ?_, ?_, ?_, ?_, ?_, ?_, ?_⟩
        · intro k hk
          simp only [] at hk ⊢
          have hk' : k ∈ names.map (·.1) := by simpa using hk
          rw [hn] at hk'
          obtain ⟨i, hi, rfl⟩ := List.mem_map.mp hk'
          exact List.any_eq_true.mpr ⟨i, hi, by simp⟩
        · intro x hx e1 e2
          simp only [] at e1 e2 ⊢
          obtain ⟨y, hy, k1, k2, k3⟩ := hv
          have : x = y := loopKey_unique s.db.loops hpk.loopPK x hx y hy (by rw [e1, k1]) (by rw [e2, k2])
          subst this
          rw [k3]
          simp
        · intro hp; simp at hp
        · intro r hr
          simp only [] at hr ⊢
          rw [hdb2] at hr
          have hr' := mem_foldr_insertByRow _ r hr
          obtain ⟨hrm, hrk⟩ := List.mem_filter.mp hr'
          simp only [Bool.and_eq_true, beq_iff_eq] at hrk
          refine ⟨(mem_loopRows_iff _ _ _ _).mpr ⟨r, hrm, hrk.1, hrk.2, rfl⟩, ?_⟩
          have : (0 : Int) ≤ (r.rowNum : Int) := Int.natCast_nonneg _
          omega
        · simp only []
          exact foldr_insertByRow_sorted _
        · simp only []
          exact hn
        · intro x hx
          simp only [] at hx ⊢
          rw [hdb2] at hx
          obtain ⟨hxm, hxk⟩ := List.mem_filter.mp (mem_foldr_insertByRow _ x hx)
          simp only [Bool.and_eq_true, beq_iff_eq] at hxk
          exact ⟨hxm, hxk.1, hxk.2⟩
        · intro v hv hvc hva _
          simp only [] at hvc hva ⊢
          rw [hdb2]
          exact mem_foldr_insertByRow_of_mem _ v (List.mem_filter.mpr ⟨hv, by simp [hvc, hva]⟩)
        · intro hp; simp at hp
        · simp only []
          rw [hdb2]
          have hsym : ∀ a b : ValueRow, ValueKeyNe a b → ValueKeyNe b a := fun a b hab ⟨h1, h2, h3⟩ => hab ⟨h1.symm, h2.symm, h3.symm⟩
          exact (sortByRow_spec hsym _ (hpk.valuePK.filter _)).1
        · simp only []
          rename_i hrows
          cases hr : s2'.db.loopValues l.cid l.loopNum with
          | nil => exact absurd hr hrows
          | cons a b => rfl
        · simp only []
          obtain ⟨y, hy, k1, k2, _⟩ := hv
          exact ⟨y, hy, k1, k2⟩

/-- cif_pktitr_next_packet -/
theorem nextPacket_iterOk (s : Store) (it : Iter) (d : Db) (h : IterOk it d) : IterOk (nextPacket s it).1 d := by
  unfold nextPacket
  split; · exact h
  split; · exact h
  split
  · exact h
  · rename_i r rest hrows
    simp only []
    split
    · exact h
    · rename_i p hp
      have hr := h.future r (by rw [hrows]; exact List.mem_cons_self)
      have hsorted := h.sorted
      rw [hrows] at hsorted
      have hge : ∀ x ∈ r :: rest, r.rowNum ≤ x.rowNum := by
        intro x hx
        rcases List.mem_cons.mp hx with rfl | hx
        · exact Nat.le_refl _
        · exact (List.pairwise_cons.mp hsorted).1 x hx
      have hrm : r ∈ it.rows := by rw [hrows]; exact List.mem_cons_self
      refine ⟨h.names, h.scalar, ?_, ?_, ?_, h.namesEq, ?_, ?_, ?_, h.keys.sublist (List.dropWhile_sublist _), rfl, h.loop⟩
      · intro _
        show (r.rowNum : Int).toNat ∈ _
        simp only [Int.toNat_natCast]
        exact hr.1
      · intro r' hr'
        have hr'' : r' ∈ (r :: rest).dropWhile (fun x => x.rowNum == r.rowNum) := by rw [← hrows]; exact hr'
        have hsub : r' ∈ it.rows := by rw [hrows]; exact (List.dropWhile_sublist _).subset hr''
        refine ⟨(h.future r' hsub).1, ?_⟩
        have hge : ∀ x ∈ r :: rest, r.rowNum ≤ x.rowNum := by
          intro x hx
          rcases List.mem_cons.mp hx with rfl | hx
          · exact Nat.le_refl _
          · exact (List.pairwise_cons.mp hsorted).1 x hx
        have := dropWhile_sorted_gt r.rowNum (r :: rest) hsorted hge r' hr''
        show (r.rowNum : Int) < (r'.rowNum : Int)
        omega
      · show (it.rows.dropWhile (fun x => x.rowNum == r.rowNum)).Pairwise _
        exact h.sorted.sublist (List.dropWhile_sublist _)
      · intro x hx
        have hx' : x ∈ it.rows.dropWhile (fun x => x.rowNum == r.rowNum) := hx
        exact h.fresh x ((List.dropWhile_sublist _).subset hx')
      · intro v hv hvc hva ⟨x, hx, hxv⟩
        have hx' : x ∈ (r :: rest).dropWhile (fun x => x.rowNum == r.rowNum) := by rw [← hrows]; exact hx
        have hxsub : x ∈ it.rows := by rw [hrows]; exact (List.dropWhile_sublist _).subset hx'
        have hvr := h.complete v hv hvc hva ⟨x, hxsub, hxv⟩
        have hgt := dropWhile_sorted_gt r.rowNum (r :: rest) hsorted hge x hx'
        show v ∈ it.rows.dropWhile (fun x => x.rowNum == r.rowNum)
        rw [hrows]
        exact mem_dropWhile_of_ne r.rowNum (r :: rest) hsorted hge v (by rw [← hrows]; exact hvr) (by omega)
      · intro _ q hq hlt
        have hlt' : r.rowNum < q := by
          have : ((r.rowNum : Int)) < (q : Int) := hlt
          omega
        obtain ⟨v, hv, hvc, hva, hvr⟩ := (mem_loopRows_iff _ _ _ _).mp hq
        have hvm := h.complete v hv hvc hva ⟨r, hrm, by omega⟩
        refine ⟨v, ?_, hvr⟩
        show v ∈ it.rows.dropWhile (fun x => x.rowNum == r.rowNum)
        rw [hrows]
        exact mem_dropWhile_of_ne r.rowNum (r :: rest) hsorted hge v (by rw [← hrows]; exact hvm) (by omega)

theorem replaceValue_frame (d d' : Db) (cid : Nat) (k : Str) (row : Nat) (v : V) (he : d.replaceValue cid k row v = some d') :
    d'.loops = d.loops ∧ d'.items = d.items ∧ ∀ c n r, r ∈ d.loopRows c n → r ∈ d'.loopRows c n := by
  unfold Db.replaceValue at he
  split at he; · cases he
  split at he; · cases he
  cases he
  refine ⟨rfl, rfl, ?_⟩
  intro c n r hr
  obtain ⟨w, hw, hwc, hwa, hwr⟩ := (mem_loopRows_iff _ _ _ _).mp hr
  refine (mem_loopRows_iff _ _ _ _).mpr ?_
  cases hb : (w.cid == cid && w.name == k && w.rowNum == row) with
  | false => exact ⟨w, List.mem_append_left _ (List.mem_filter.mpr ⟨hw, by rw [hb]; rfl⟩), hwc, hwa, hwr⟩
  | true =>
    simp only [Bool.and_eq_true, beq_iff_eq] at hb
    refine ⟨{ cid := cid, name := k, rowNum := row, val := v }, List.mem_append_right _ (List.mem_singleton.mpr rfl), ?_, ?_, ?_⟩
    · show cid = c; rw [← hwc, hb.1.1]
    · show (d.loopItems c n).any (fun i => i.name == k) = true; rw [← hb.1.2]; exact hwa
    · show row = r; rw [← hwr, hb.2]

theorem updateValues_frame : ∀ (p : List (Str × V)) (d d' : Db) (it : Iter), updateValues d it p = .ok d' →
    d'.loops = d.loops ∧ d'.items = d.items ∧ ∀ c n r, r ∈ d.loopRows c n → r ∈ d'.loopRows c n
  | [], d, d', _, he => by simp [updateValues] at he; subst he; exact ⟨rfl, rfl, fun _ _ _ h => h⟩
  | (k, v) :: es, d, d', it, he => by
    unfold updateValues at he
    split at he
    · split at he
      · cases he
      · rename_i d1 hrep
        obtain ⟨a1, b1, c1⟩ := replaceValue_frame d d1 _ _ _ _ hrep
        obtain ⟨a2, b2, c2⟩ := updateValues_frame es d1 d' it he
        exact ⟨a2.trans a1, b2.trans b1, fun c n r hr => c2 c n r (c1 c n r hr)⟩
    · cases he

/-- UPDATE_PACKET_ITEM_SQL at the iterator's current row keeps the iterator tied: the rows to come are not touched -/
theorem IterOk.replaceValue {it : Iter} {d d' : Db} (h : IterOk it d) (hp : 0 < it.prev) (k : Str) (v : V)
    (he : d.replaceValue it.cid k it.prev.toNat v = some d') : IterOk it d' := by
  obtain ⟨hl, hi, hrows⟩ := replaceValue_frame d d' _ _ _ _ he
  have hli : d'.loopItems it.cid it.loopNum = d.loopItems it.cid it.loopNum := by simp only [Db.loopItems, hi]
  unfold Db.replaceValue at he
  split at he; · cases he
  split at he; · cases he
  have hv : d'.values = d.values.filter (fun w => !(w.cid == it.cid && w.name == k && w.rowNum == it.prev.toNat)) ++
      [{ cid := it.cid, name := k, rowNum := it.prev.toNat, val := v }] := by cases he; rfl
  have hcur := h.cur hp
  refine ⟨?_, ?_, fun _ => hrows _ _ _ hcur, fun r hr => ⟨hrows _ _ _ (h.future r hr).1, (h.future r hr).2⟩, h.sorted, ?_, ?_, ?_, ?_, h.keys, h.fin, by rw [hl]; exact h.loop⟩
  · intro k' hk'; rw [hli]; exact h.names k' hk'
  · intro x hx; rw [hl] at hx; exact h.scalar x hx
  · rw [hli]; exact h.namesEq
  · intro x hx
    obtain ⟨f1, f2, f3⟩ := h.fresh x hx
    refine ⟨?_, f2, by rw [hli]; exact f3⟩
    rw [hv]
    refine List.mem_append_left _ (List.mem_filter.mpr ⟨f1, ?_⟩)
    have hgt := (h.future x hx).2
    have : (x.rowNum == it.prev.toNat) = false := by
      have : x.rowNum ≠ it.prev.toNat := by omega
      simpa using this
    simp [this]
  · intro w hw hwc hwa hex
    rw [hli] at hwa
    rw [hv] at hw
    rcases List.mem_append.mp hw with h1 | h1
    · exact h.complete w (List.mem_filter.mp h1).1 hwc hwa hex
    · simp at h1; subst h1
      obtain ⟨x, hx, hxv⟩ := hex
      have hgt := (h.future x hx).2
      simp only [] at hxv
      omega
  · intro _ r hr hlt
    apply h.above hp r ?_ hlt
    obtain ⟨w, hw, hwc, hwa, hwr⟩ := (mem_loopRows_iff _ _ _ _).mp hr
    rw [hli] at hwa
    rw [hv] at hw
    rcases List.mem_append.mp hw with h1 | h1
    · exact (mem_loopRows_iff _ _ _ _).mpr ⟨w, (List.mem_filter.mp h1).1, hwc, hwa, hwr⟩
    · simp at h1; subst h1
      simp only [] at hwr
      rw [← hwr]; exact hcur

theorem updateValues_iterOk : ∀ (p : List (Str × V)) (d d' : Db) (it : Iter), IterOk it d → 0 < it.prev →
    updateValues d it p = .ok d' → IterOk it d'
  | [], d, d', _, h, _, he => by simp [updateValues] at he; subst he; exact h
  | (k, v) :: es, d, d', it, h, hp, he => by
    unfold updateValues at he
    split at he
    · split at he
      · cases he
      · rename_i d1 hrep
        exact updateValues_iterOk es d1 d' it (h.replaceValue hp k v hrep) hp he
    · cases he

/-- cif_pktitr_update_packet keeps its iterator tied (the current packet is rewritten, the rows to come are not touched) -/
theorem updatePacket_iterOk (s : Store) (it : Iter) (p : List (Str × V)) (h : IterOk it s.db) :
    IterOk it (updatePacket s it p).1.db := by
  unfold updatePacket
  split; · exact h
  split; · exact h
  rename_i hprev
  simp only []
  split
  · rename_i d2 hu
    have : (({ s.save with db := d2 } : Store).release.getD s.save).db = d2 := by
      unfold Store.release Store.save; rfl
    rw [this]
    exact updateValues_iterOk p _ d2 it h (by omega) hu
  · have : (s.save.rollbackTo.getD s.save).db = s.db := by unfold Store.rollbackTo Store.save; rfl
    rw [this]; exact h

/-- cif_pktitr_remove_packet: the iterator leaves the removed row behind; the rows still to come are untouched -/
theorem removePacket_iterOk (s : Store) (it : Iter) (hinv : Inv s.db) (h : IterOk it s.db) :
    IterOk (removePacket s it).2.1 (removePacket s it).1.db := by
  unfold removePacket
  split; · exact h
  split; · exact h
  rename_i hprev
  simp only []
  have hdb : ∀ d2 : Db, (({ s.save with db := d2 } : Store).release.getD s.save).db = d2 := by
    intro d2; unfold Store.release Store.save; rfl
  rw [hdb]
  have hpos : 0 < it.prev := by omega
  -- the database afterwards: same keys and categories, same items, every other row of the loop
  have key : ∀ d2 : Db, (∀ x ∈ d2.loops, ∃ y ∈ s.db.loops, x.cid = y.cid ∧ x.loopNum = y.loopNum ∧ x.category = y.category) →
      d2.items = s.db.items → d2.values = (s.db.removePacket it.cid it.loopNum it.prev.toNat).values →
      (∃ x ∈ d2.loops, x.cid = it.cid ∧ x.loopNum = it.loopNum) →
      IterOk { it with prev := -1 } d2 := by
    intro d2 hl hi hv hlk
    have hli : d2.loopItems it.cid it.loopNum = s.db.loopItems it.cid it.loopNum := by simp only [Db.loopItems, hi]
    have hkeep : ∀ w ∈ s.db.values, w.rowNum ≠ it.prev.toNat → w ∈ d2.values := by
      intro w hw hne
      rw [hv]
      show w ∈ s.db.values.filter (fun v => !(v.cid == it.cid && v.rowNum == it.prev.toNat && (s.db.loopItems it.cid it.loopNum).any (fun i => i.name == v.name)))
      refine List.mem_filter.mpr ⟨hw, ?_⟩
      have : (w.rowNum == it.prev.toNat) = false := by simpa using hne
      simp [this]
    have hsub : ∀ w ∈ d2.values, w ∈ s.db.values := by
      intro w hw
      rw [hv] at hw
      have hw' : w ∈ s.db.values.filter (fun v => !(v.cid == it.cid && v.rowNum == it.prev.toNat && (s.db.loopItems it.cid it.loopNum).any (fun i => i.name == v.name))) := hw
      exact (List.mem_filter.mp hw').1
    refine ⟨?_, ?_, ?_, ?_, h.sorted, ?_, ?_, ?_, ?_, h.keys, h.fin, hlk⟩
    · intro k hk; show (d2.loopItems it.cid it.loopNum).any _ = true; rw [hli]; exact h.names k hk
    · intro x hx e1 e2
      obtain ⟨y, hy, k1, k2, k3⟩ := hl x hx
      rw [k3]; exact h.scalar y hy (by rw [← k1]; exact e1) (by rw [← k2]; exact e2)
    · intro hp; simp at hp
    · intro r hr
      obtain ⟨hr1, hr2⟩ := h.future r hr
      refine ⟨?_, by show (-1 : Int) < _; have : (0 : Int) ≤ (r.rowNum : Int) := Int.natCast_nonneg _; omega⟩
      show r.rowNum ∈ d2.loopRows it.cid it.loopNum
      obtain ⟨w, hw, hwc, hwa, hwr⟩ := (mem_loopRows_iff _ _ _ _).mp hr1
      refine (mem_loopRows_iff _ _ _ _).mpr ⟨w, ?_, hwc, by rw [hli]; exact hwa, hwr⟩
      rw [hv]
      show w ∈ s.db.values.filter (fun v => !(v.cid == it.cid && v.rowNum == it.prev.toNat && (s.db.loopItems it.cid it.loopNum).any (fun i => i.name == v.name)))
      refine List.mem_filter.mpr ⟨hw, ?_⟩
      have : (w.rowNum == it.prev.toNat) = false := by
        have : w.rowNum ≠ it.prev.toNat := by rw [hwr]; omega
        simpa using this
      simp [this]
    · show it.names = (d2.loopItems it.cid it.loopNum).map (·.name)
      rw [hli]; exact h.namesEq
    · intro x hx
      obtain ⟨f1, f2, f3⟩ := h.fresh x hx
      have hgt := (h.future x hx).2
      exact ⟨hkeep x f1 (by omega), f2, by show (d2.loopItems it.cid it.loopNum).any _ = true; rw [hli]; exact f3⟩
    · intro w hw hwc hwa hex
      have hwa' : (s.db.loopItems it.cid it.loopNum).any (fun i => i.name == w.name) = true := by
        have : (d2.loopItems it.cid it.loopNum).any (fun i => i.name == w.name) = true := hwa
        rw [hli] at this; exact this
      exact h.complete w (hsub w hw) hwc hwa' hex
    · intro hp'; simp at hp'
  split
  · apply key
    · intro x hx
      have hx' : x ∈ s.db.loops.map (fun l => if l.cid == it.cid && l.loopNum == it.loopNum then { l with lastRowNum := 0 } else l) := hx
      obtain ⟨y, hy, hxy⟩ := List.mem_map.mp hx'
      refine ⟨y, hy, ?_⟩
      subst hxy
      split <;> exact ⟨rfl, rfl, rfl⟩
    · rfl
    · rfl
    · obtain ⟨y, hy, k1, k2⟩ := h.loop
      refine ⟨_, List.mem_map.mpr ⟨y, hy, rfl⟩, ?_, ?_⟩ <;> split <;> assumption
  · apply key
    · intro x hx; exact ⟨x, hx, rfl, rfl, rfl⟩
    · rfl
    · rfl
    · exact h.loop

end CifModel.Store
