import CifModel.Model.Ustream
/-
  CifModel.Lemmas.Ustream — the byte-level character source: what `ucnv_toUnicode` + callback (`convLoop`, `toUnicode`) and
  `ustream_read_chars` (`readLoop`, `readChars`, `runCalls`) do for ANY converter that meets the contract `Laws`.
-/
namespace CifModel.Model.Ustream

theorem render_append (repl : Nat) (a b : List Ev) : render repl (a ++ b) = render repl a ++ render repl b := by
  induction a with
  | nil => rfl
  | cons e a ih => cases e <;> simp [render, ih]

theorem render_units (repl : Nat) (us : List Nat) : render repl (us.map .unit) = us := by
  induction us with
  | nil => rfl
  | cons u us ih => simp [render, ih]

theorem render_status (repl : Nat) (k : Nat) (u : Bool) : render repl (Status.invalid k u).evs = [repl] := rfl

/-- every report is answered 0 -/
def Accepting (pol : Policy) : Prop := ∀ i code, pol i code = 0

theorem acceptAll_accepting : Accepting acceptAll := fun _ _ => rfl

variable {c : Conv}

/-- what one `convLoop` (the converter / callback loop of `ucnv_toUnicode`) guarantees -/
structure ConvOk (c : Conv) (pol : Policy) (repl : Nat) (s : c.σ) (src : List Nat) (flush : Bool) (room : Nat)
    (more : List Nat) (q : IcuR c) : Prop where
  fuel : q.status ≠ .nofuel
  room_le : q.units.length ≤ room
  used_le : q.used ≤ src.length
  ok_drained : q.status = .ok → q.used = src.length ∧ q.st.ovf = [] ∧ (flush = true → c.tail q.st.core [] = [])
  overflow_full : q.status = .overflow → q.units.length = room
  sound : q.status ≠ .failed →
    render repl (c.tail s (src ++ more)) = q.units ++ q.st.ovf ++ render repl (c.tail q.st.core (src.drop q.used ++ more))
  accepting : Accepting pol → q.status ≠ .failed
  failed_err : q.status = .failed → q.lastErr ≠ 0

theorem convLoop_spec (L : Laws c) (pol : Policy) (repl : Nat) :
    ∀ (fuel nrep : Nat) (s : c.σ) (src : List Nat) (flush : Bool) (room : Nat) (le : Int) (more : List Nat),
      c.weight s + 2 * src.length < fuel → (flush = true → more = []) →
      ConvOk c pol repl s src flush room more (convLoop c pol repl fuel nrep s src flush room le) := by
  intro fuel
  induction fuel with
  | zero => intro nrep s src flush room le more h; omega
  | succ fuel ih =>
    intro nrep s src flush room le more hf hm
    have hcap := L.cap_le s src flush room
    have hused := L.used_le s src flush room
    have hsound := L.sound s src flush room more hm
    have hokd := L.ok_drained s src flush room
    have hovf := L.overflow_full s src flush room
    have hprog := L.progress s src flush room
    have hokf : flush = true → (c.step s src flush room).status = .ok → c.tail (c.step s src flush room).st [] = [] := by
      intro h; subst h; exact L.ok_flushed s src room
    unfold convLoop
    generalize c.step s src flush room = r at *
    cases hst : r.status with
    | ok =>
      simp only [hst]
      refine ⟨by simp, hcap, hused, ?_, by simp, ?_, by simp, by simp⟩
      · intro _
        refine ⟨hokd hst, rfl, ?_⟩
        intro hfl
        exact hokf hfl hst
      · intro _
        rw [hsound, hst]
        simp [Status.evs, render_append, render_units]
    | overflow =>
      simp only [hst]
      refine ⟨by simp, hcap, hused, by simp, fun _ => hovf hst, ?_, by simp, by simp⟩
      intro _
      rw [hsound, hst]
      simp [Status.evs, render_append, render_units]
    | invalid k una =>
      simp only [hst]
      have hp := hprog k una hst
      have hs' : render repl (c.tail s (src ++ more))
          = r.units ++ repl :: render repl (c.tail r.st (src.drop r.used ++ more)) := by
        rw [hsound, hst]; simp [Status.evs, render_append, render_units, render]
      generalize (if una = true then Gen.ErrCodes.CIF_UNMAPPED_CHAR else Gen.ErrCodes.CIF_INVALID_CHAR) = code
      by_cases hans : pol nrep code ≠ 0
      · rw [if_pos hans]
        refine ⟨by simp, hcap, hused, by simp, by simp, by simp, ?_, ?_⟩
        · intro hacc; exact absurd (hacc _ _) hans
        · intro _; exact hans
      · rw [if_neg hans]
        by_cases hlt : r.units.length < room
        · rw [if_pos hlt]
          have hq := ih (nrep + 1) r.st (src.drop r.used) flush (room - r.units.length - 1) 0 more
            (by simp only [List.length_drop]; omega) hm
          generalize convLoop c pol repl fuel (nrep + 1) r.st (List.drop r.used src) flush
            (room - r.units.length - 1) 0 = q at *
          have h1 := hq.room_le
          have h2 := hq.used_le
          simp only [List.length_drop] at h2
          refine ⟨hq.fuel, ?_, ?_, ?_, ?_, ?_, hq.accepting, hq.failed_err⟩
          · simp; omega
          · simp; omega
          · intro hok
            have := hq.ok_drained hok
            simp only [List.length_drop] at this
            exact ⟨by simp; omega, this.2⟩
          · intro hov
            have := hq.overflow_full hov
            simp; omega
          · intro hnf
            have := hq.sound hnf
            simp only [List.drop_drop] at this
            rw [hs', this]
            simp
        · rw [if_neg hlt]
          refine ⟨by simp, hcap, hused, by simp, ?_, ?_, by simp, by simp⟩
          · intro _; simp; omega
          · intro _; rw [hs']; simp

/-- what is still to come out of a converter object over the remaining input `rest` (accept-all rendering) -/
def denCS (repl : Nat) (st : CS c) (rest : List Nat) : List Nat := st.ovf ++ render repl (c.tail st.core rest)

/-- what one `ucnv_toUnicode` call guarantees -/
structure UniOk (c : Conv) (pol : Policy) (repl : Nat) (st : CS c) (src : List Nat) (flush : Bool) (cap : Nat)
    (more : List Nat) (q : IcuR c) : Prop where
  fuel : q.status ≠ .nofuel
  room_le : q.units.length ≤ cap
  used_le : q.used ≤ src.length
  ok_drained : q.status = .ok → q.used = src.length ∧ q.st.ovf = [] ∧ (flush = true → c.tail q.st.core [] = [])
  overflow_full : q.status = .overflow → q.units.length = cap
  sound : q.status ≠ .failed → denCS repl st (src ++ more) = q.units ++ denCS repl q.st (src.drop q.used ++ more)
  accepting : Accepting pol → q.status ≠ .failed
  failed_err : q.status = .failed → q.lastErr ≠ 0

theorem toUnicode_spec (L : Laws c) (pol : Policy) (repl : Nat) (nrep : Nat) (st : CS c) (src : List Nat)
    (flush : Bool) (cap : Nat) (le : Int) (more : List Nat) (hm : flush = true → more = []) :
    UniOk c pol repl st src flush cap more (toUnicode c pol repl nrep st src flush cap le) := by
  unfold toUnicode
  by_cases h : cap < st.ovf.length
  · rw [if_pos h]
    refine ⟨by simp, ?_, by simp, by simp, ?_, ?_, by simp, by simp⟩
    · simp; omega
    · intro _; simp; omega
    · intro _; simp only [denCS, List.drop_zero]; rw [← List.append_assoc, List.take_append_drop]
  · rw [if_neg h]
    have hq := convLoop_spec L pol repl (c.weight st.core + 2 * src.length + 1) nrep st.core src flush
      (cap - st.ovf.length) le more (by omega) hm
    generalize convLoop c pol repl (c.weight st.core + 2 * src.length + 1) nrep st.core src flush
      (cap - st.ovf.length) le = q at *
    have h1 := hq.room_le
    refine ⟨hq.fuel, ?_, hq.used_le, hq.ok_drained, ?_, ?_, hq.accepting, hq.failed_err⟩
    · simp; omega
    · intro hov
      have := hq.overflow_full hov
      simp; omega
    · intro hnf
      have := hq.sound hnf
      simp only [denCS]
      rw [this]
      simp

/-! ### ustream_read_chars -/

/-- once the end of the file has been seen nothing is left in it -/
def Wf (u : UState c) : Prop := u.eof ≠ 0 → u.file = []

/-- the bytes in front of the converter: the unconsumed part of the byte buffer, then what `fread` has not delivered -/
def bytesLeft (u : UState c) : List Nat := u.buf ++ u.file

/-- what a stream still has to deliver (accept-all rendering); a finished stream (`eof_status > 0`) delivers nothing -/
def den (repl : Nat) (u : UState c) : List Nat := if u.eof > 0 then [] else denCS repl u.cs (bytesLeft u)

/-- what one `ustream_read_chars` call with `count ≥ 1` on an unfinished stream guarantees -/
structure CallOk (c : Conv) (pol : Policy) (repl : Nat) (count : Nat) (u : UState c) (r : CallR c) : Prop where
  fuel : r.ret ≠ -2
  wf : Wf r.st
  ret_cases : (r.ret = -1 ∧ r.err ≠ 0 ∧ r.units = []) ∨ (r.ret = r.units.length ∧ r.units.length ≤ count ∧ r.err = 0)
  zero_end : r.ret = 0 → r.st.eof > 0
  sound : r.ret ≠ -1 → den repl u = r.units ++ den repl r.st
  accepting : Accepting pol → r.ret ≠ -1
  bytes : ∃ k, r.st.fed = u.fed + k ∧ k ≤ (bytesLeft u).length ∧ bytesLeft r.st = (bytesLeft u).drop k ∧
    (r.st.eof > 0 → bytesLeft r.st = [])

theorem refill_facts {B : Nat} (hB : 1 ≤ B) (u : UState c) (hw : Wf u) (hbuf : u.buf = []) (he : u.eof = 0) :
    Wf (refill B u) ∧ bytesLeft (refill B u) = bytesLeft u ∧ (refill B u).cs = u.cs ∧ (refill B u).fed = u.fed ∧
    (refill B u).nrep = u.nrep ∧ ((refill B u).eof = 0 ∨ (refill B u).eof = -1) ∧
    ((refill B u).eof = 0 → (refill B u).file.length + 1 ≤ u.file.length) := by
  unfold refill Wf bytesLeft
  simp only [hbuf, List.nil_append, List.take_append_drop, List.length_take, List.length_drop, he]
  refine ⟨?_, trivial, trivial, trivial, trivial, ?_, ?_⟩
  · intro h
    split at h
    · rename_i hlt
      apply List.eq_nil_of_length_eq_zero
      simp only [List.length_drop]; omega
    · exact absurd rfl h
  · split <;> simp
  · split
    · intro h; omega
    · intro _; omega

theorem readLoop_spec (L : Laws c) (pol : Policy) (repl : Nat) {B : Nat} (hB : 1 ≤ B) (count : Nat) (hc : 1 ≤ count) :
    ∀ (fuel : Nat) (u : UState c), Wf u → u.eof ≤ 0 →
      u.file.length + (if u.buf = [] then 0 else 1) < fuel →
      CallOk c pol repl count u (readLoop c pol repl B fuel u count) := by
  intro fuel
  induction fuel with
  | zero => intro u _ _ h; omega
  | succ fuel ih =>
    intro u hw he hf
    unfold readLoop
    -- the state after the optional refill
    have hu1 : ∃ u1 : UState c, (if u.buf = [] ∧ u.eof = 0 then refill B u else u) = u1 ∧ Wf u1 ∧
        bytesLeft u1 = bytesLeft u ∧ u1.cs = u.cs ∧ u1.fed = u.fed ∧ u1.eof ≤ 0 ∧
        (u1.eof = 0 → u1.file.length + (if u.buf = [] then 1 else 0) ≤ u.file.length ∨ u.buf ≠ []) ∧
        (u1.eof = 0 → u.buf ≠ [] → u1.file = u.file) := by
      by_cases h : u.buf = [] ∧ u.eof = 0
      · rw [if_pos h]
        have := refill_facts hB u hw h.1 h.2
        refine ⟨_, rfl, this.1, this.2.1, this.2.2.1, this.2.2.2.1, ?_, ?_, ?_⟩
        · rcases this.2.2.2.2.2.1 with h0 | h0 <;> omega
        · intro h0; left; have := this.2.2.2.2.2.2 h0; simp [h.1]; omega
        · intro _ hb; exact absurd h.1 hb
      · rw [if_neg h]
        refine ⟨_, rfl, hw, rfl, rfl, rfl, he, ?_, ?_⟩
        · intro h0
          by_cases hb : u.buf = []
          · exact absurd ⟨hb, h0⟩ h
          · right; exact hb
        · intro _ _; rfl
    obtain ⟨u1, hu1e, hw1, hbl1, hcs1, hfed1, he1, hlen1, hsame1⟩ := hu1
    simp only [hu1e]
    have hflush : (u1.eof != 0) = true → u1.file = [] := by
      intro h; apply hw1; simpa using h
    have hq := toUnicode_spec L pol repl u1.nrep u1.cs u1.buf (u1.eof != 0) count u1.lastErr u1.file hflush
    generalize toUnicode c pol repl u1.nrep u1.cs u1.buf (u1.eof != 0) count u1.lastErr = q at *
    have hden : den repl u = denCS repl u1.cs (u1.buf ++ u1.file) := by
      unfold den; rw [if_neg (by omega)]; rw [← hbl1, hcs1]; rfl
    have hbytes : ∀ u2 : UState c, u2.buf = u1.buf.drop q.used → u2.file = u1.file → u2.fed = u1.fed + q.used →
        (u2.eof > 0 → u2.buf = [] ∧ u2.file = []) →
        ∃ k, u2.fed = u.fed + k ∧ k ≤ (bytesLeft u).length ∧ bytesLeft u2 = (bytesLeft u).drop k ∧
          (u2.eof > 0 → bytesLeft u2 = []) := by
      intro u2 h1 h2 h3 h4
      refine ⟨q.used, by omega, ?_, ?_, fun h => by simp [bytesLeft, h4 h]⟩
      · rw [← hbl1]; have := hq.used_le; simp [bytesLeft]; omega
      · rw [← hbl1]; simp only [bytesLeft, h1, h2]; rw [List.drop_append_of_le_length hq.used_le]
    cases hst : q.status with
    | overflow =>
      simp only []
      have hfull := hq.overflow_full hst
      refine ⟨by simp, hw1, Or.inr ⟨rfl, by dsimp only; omega, rfl⟩, ?_, ?_, by simp, ?_⟩
      · intro h; dsimp only at h; omega
      · intro _
        rw [hden, hq.sound (by simp [hst])]
        simp only [den]; rw [if_neg (by simpa using he1)]; rfl
      · exact hbytes _ rfl rfl rfl (by intro h; dsimp only at h; omega)
    | failed =>
      simp only []
      refine ⟨by simp, hw1, Or.inl ⟨rfl, ?_, rfl⟩, by simp, by simp, ?_, hbytes _ rfl rfl rfl (by intro h; dsimp only at h; omega)⟩
      · have := hq.failed_err hst
        simp only []
        split
        · decide
        · assumption
      · intro ha; exact absurd hst (hq.accepting ha)
    | nofuel => exact absurd hst hq.fuel
    | ok =>
      simp only []
      have hok := hq.ok_drained hst
      have hsnd := hq.sound (by simp [hst])
      by_cases hE : u1.eof ≠ 0
      · rw [if_pos hE]
        have hfl : (u1.eof != 0) = true := by simpa using hE
        have hfile := hflush hfl
        refine ⟨by simp, ?_, Or.inr ⟨rfl, hq.room_le, rfl⟩, by simp, ?_, by simp,
          hbytes _ rfl rfl rfl (fun _ => ⟨by rw [hok.1]; exact List.drop_length, hfile⟩)⟩
        · intro _; exact hfile
        · intro _
          rw [hden, hsnd]
          simp only [den, denCS, hok.1, List.drop_length, hfile, hok.2.1, hok.2.2 hfl, List.append_nil, render]
          simp
      · rw [if_neg hE]
        have h0 : u1.eof = 0 := by omega
        by_cases hz : q.units.length = 0
        · rw [if_pos hz]
          have hdrop : List.drop q.used u1.buf = [] := by rw [hok.1]; exact List.drop_length
          have hrec := ih (UState.mk u1.file (u1.buf.drop q.used) q.st u1.eof q.lastErr (u1.nrep + q.reports.length) (u1.fed + q.used))
            (by intro h; exact absurd h0 h) (by dsimp only; omega)
            (by
              dsimp only
              rw [if_pos hdrop]
              rcases hlen1 h0 with h | h
              · by_cases hb : u.buf = []
                · simp only [hb, if_true] at h hf; omega
                · simp only [hb, if_false] at h hf; omega
              · have := hsame1 h0 h
                simp only [h, if_false] at hf
                rw [this]; omega)
          have hb2 := hbytes (UState.mk u1.file (u1.buf.drop q.used) q.st u1.eof q.lastErr (u1.nrep + q.reports.length) (u1.fed + q.used)) rfl rfl rfl
            (by intro h; dsimp only at h; omega)
          generalize readLoop c pol repl B fuel _ count = r at *
          refine ⟨hrec.fuel, hrec.wf, hrec.ret_cases, hrec.zero_end, ?_, hrec.accepting, ?_⟩
          · intro hne
            have := hrec.sound hne
            dsimp only at this ⊢
            rw [← this, hden, hsnd]
            have : q.units = [] := List.eq_nil_of_length_eq_zero hz
            simp only [den, bytesLeft, this, List.nil_append]
            rw [if_neg (by omega)]
          · obtain ⟨k1, hk1, hk1le, hk1d, _⟩ := hb2
            obtain ⟨k2, hk2, hk2le, hk2d, hk2e⟩ := hrec.bytes
            refine ⟨k1 + k2, ?_, ?_, ?_, hk2e⟩
            · dsimp only at hk2 hk1 ⊢; omega
            · rw [hk1d] at hk2le; simp only [List.length_drop] at hk2le; omega
            · dsimp only at hk2d ⊢; rw [hk2d, hk1d, List.drop_drop]
        · rw [if_neg hz]
          refine ⟨by simp, ?_, Or.inr ⟨rfl, hq.room_le, rfl⟩, ?_, ?_, by simp,
            hbytes _ rfl rfl rfl (by intro h; dsimp only at h; omega)⟩
          · intro h; exact absurd h0 h
          · intro h; dsimp only at h; omega
          · intro _
            rw [hden, hsnd]
            simp only [den, bytesLeft]
            rw [if_neg (by omega)]

/-- a call that does nothing: `count <= 0` or the stream has ended -/
theorem readChars_idle (pol : Policy) (repl B : Nat) (u : UState c) (count : Int) (h : count ≤ 0 ∨ u.eof > 0) :
    readChars c pol repl B u count = ⟨0, 0, [], [], u⟩ := by
  unfold readChars; rw [if_pos h]

theorem readChars_spec (L : Laws c) (pol : Policy) (repl : Nat) {B : Nat} (hB : 1 ≤ B) (u : UState c) (count : Int)
    (hc : 1 ≤ count) (hw : Wf u) (he : u.eof ≤ 0) :
    CallOk c pol repl count.toNat u (readChars c pol repl B u count) := by
  unfold readChars
  rw [if_neg (by omega)]
  apply readLoop_spec L pol repl hB count.toNat (by omega) _ u hw he
  split <;> omega

/-- the stream state after a list of calls -/
def lastSt (u : UState c) (rs : List (CallR c)) : UState c := (rs.getLast?.map (·.st)).getD u

theorem runCalls_ended (pol : Policy) (repl B : Nat) (u : UState c) (he : u.eof > 0) :
    ∀ counts, runCalls c pol repl B u counts = counts.map (fun _ => (⟨0, 0, [], [], u⟩ : CallR c)) := by
  intro counts
  induction counts with
  | nil => rfl
  | cons n ns ih =>
    unfold runCalls
    simp only [readChars_idle pol repl B u n (Or.inr he)]
    rw [if_neg (by omega), ih]; rfl

/-- the invariant "no byte is read twice or skipped" -/
def Conserved (bytes : List Nat) (u : UState c) : Prop :=
  bytes.drop u.fed = bytesLeft u ∧ u.fed ≤ bytes.length ∧ (u.eof > 0 → u.fed = bytes.length)

theorem conserved_step {bytes : List Nat} {u v : UState c} (h : Conserved bytes u) (hu : u.eof ≤ 0)
    (hb : ∃ k, v.fed = u.fed + k ∧ k ≤ (bytesLeft u).length ∧ bytesLeft v = (bytesLeft u).drop k ∧
      (v.eof > 0 → bytesLeft v = [])) : Conserved bytes v := by
  obtain ⟨k, hk, hkl, hkd, hke⟩ := hb
  obtain ⟨h1, h2, _⟩ := h
  have hlen : (bytesLeft u).length = bytes.length - u.fed := by rw [← h1]; simp
  have hd : bytes.drop v.fed = bytesLeft v := by rw [hkd, ← h1, List.drop_drop, hk]
  refine ⟨hd, by omega, ?_⟩
  intro hv
  have := hke hv
  rw [← hd] at this
  have hl := congrArg List.length this
  simp at hl
  omega

theorem conserved_init (B : Nat) (bytes : List Nat) (sniffed : Bool) : Conserved bytes (initStream c B bytes sniffed) := by
  unfold initStream Conserved bytesLeft
  cases sniffed <;> simp

theorem wf_init (B : Nat) (bytes : List Nat) (sniffed : Bool) : Wf (initStream c B bytes sniffed) := by
  unfold initStream Wf
  cases sniffed <;> simp

theorem den_init (repl B : Nat) (bytes : List Nat) (sniffed : Bool) :
    den repl (initStream c B bytes sniffed) = decodeAll c repl bytes := by
  unfold initStream den denCS bytesLeft decodeAll
  cases sniffed <;> simp

/-- every state reached by any sequence of calls, under any callback policy, satisfies the invariants -/
theorem runCalls_inv (L : Laws c) (pol : Policy) (repl : Nat) {B : Nat} (hB : 1 ≤ B) (bytes : List Nat) :
    ∀ (counts : List Int) (u : UState c), Wf u → Conserved bytes u →
      ∀ r ∈ runCalls c pol repl B u counts, r.ret ≠ -2 ∧ Wf r.st ∧ Conserved bytes r.st := by
  intro counts
  induction counts with
  | nil => intro u _ _ r hr; simp [runCalls] at hr
  | cons n ns ih =>
    intro u hw hcn r hr
    unfold runCalls at hr
    by_cases hidle : n ≤ 0 ∨ u.eof > 0
    · rw [readChars_idle pol repl B u n hidle] at hr
      simp only [List.mem_cons] at hr
      rcases hr with rfl | hr
      · exact ⟨by simp, hw, hcn⟩
      · rw [if_neg (by omega)] at hr
        exact ih u hw hcn r hr
    · have hn : 1 ≤ n := by omega
      have he : u.eof ≤ 0 := by omega
      have hok := readChars_spec L pol repl hB u n hn hw he
      generalize readChars c pol repl B u n = r0 at *
      have hc0 := conserved_step hcn he hok.bytes
      simp only [List.mem_cons] at hr
      rcases hr with rfl | hr
      · exact ⟨hok.fuel, hok.wf, hc0⟩
      · split at hr
        · simp at hr
        · exact ih r0.st hok.wf hc0 r hr

/-- ACCEPT-ALL: the units of successive calls are the one-shot decoding, the end is reported after the last unit and
    stays reported -/
theorem runCalls_accepting (L : Laws c) (pol : Policy) (hacc : Accepting pol) (repl : Nat) {B : Nat} (hB : 1 ≤ B) :
    ∀ (counts : List Int) (u : UState c), Wf u → (∀ n ∈ counts, 1 ≤ n) → (den repl u).length < counts.length →
      ∃ pre post, runCalls c pol repl B u counts = pre ++ post ∧ post ≠ [] ∧
        (∀ r ∈ pre, 0 < r.ret ∧ r.ret = r.units.length ∧ r.err = 0) ∧
        (∀ r ∈ post, r.ret = 0 ∧ r.units = [] ∧ r.err = 0 ∧ r.st.eof > 0) ∧
        pre.flatMap (·.units) = den repl u ∧ pre.length + post.length = counts.length := by
  intro counts
  induction counts with
  | nil => intro u _ _ h; simp at h
  | cons n ns ih =>
    intro u hw hcs hlen
    have hn : 1 ≤ n := hcs n (by simp)
    by_cases he : u.eof > 0
    · refine ⟨[], runCalls c pol repl B u (n :: ns), rfl, ?_, by simp, ?_, ?_, by simp [runCalls_ended pol repl B u he]⟩
      · rw [runCalls_ended pol repl B u he]; simp
      · rw [runCalls_ended pol repl B u he]
        intro r hr
        simp only [List.mem_map] at hr
        obtain ⟨_, _, rfl⟩ := hr
        exact ⟨rfl, rfl, rfl, he⟩
      · simp [den, he]
    · have he' : u.eof ≤ 0 := by omega
      have hok := readChars_spec L pol repl hB u n hn hw he'
      unfold runCalls
      generalize readChars c pol repl B u n = r0 at *
      have hnf := hok.accepting hacc
      have hsnd := hok.sound hnf
      rcases hok.ret_cases with ⟨h1, _⟩ | ⟨hret, hle, herr⟩
      · exact absurd h1 hnf
      · simp only []
        rw [if_neg (by omega)]
        by_cases hz : r0.ret = 0
        · have hend := hok.zero_end hz
          have hu : r0.units = [] := by apply List.eq_nil_of_length_eq_zero; omega
          refine ⟨[], r0 :: runCalls c pol repl B r0.st ns, rfl, by simp, by simp, ?_, ?_, ?_⟩
          · rw [runCalls_ended pol repl B r0.st hend]
            intro r hr
            simp only [List.mem_cons, List.mem_map] at hr
            rcases hr with rfl | ⟨_, _, rfl⟩
            · exact ⟨hz, hu, herr, hend⟩
            · exact ⟨rfl, rfl, rfl, hend⟩
          · rw [hsnd, hu]; simp [den, hend]
          · rw [runCalls_ended pol repl B r0.st hend]; simp
        · have hpos : 0 < r0.ret := by omega
          have hlen' : (den repl r0.st).length < ns.length := by
            rw [hsnd] at hlen; simp at hlen; omega
          obtain ⟨pre, post, hrun, hpost, hpre, hpo, hflat, hl⟩ :=
            ih r0.st hok.wf (fun m hm => hcs m (by simp [hm])) hlen'
          refine ⟨r0 :: pre, post, by rw [hrun]; rfl, hpost, ?_, hpo, ?_, by simp; omega⟩
          · intro r hr
            simp only [List.mem_cons] at hr
            rcases hr with rfl | hr
            · exact ⟨hpos, hret, herr⟩
            · exact hpre r hr
          · simp [hflat, hsnd]

end CifModel.Model.Ustream
