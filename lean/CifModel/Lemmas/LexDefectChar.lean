import CifModel.Lemmas.LexPrefix
/-
  Lemmas/LexDefectChar — ONE defective code unit inside a token: CIF_DISALLOWED_CHAR (a character outside the dialect's set —
  accepted as it is) and CIF_INVALID_CHAR (an unpaired trail surrogate — replaced by U+FFFD, in CIF 1.1 by `*`).
  `Defect1` abstracts what both have in common; the token lemmas are proved once for it.
-/
set_option linter.unusedSimpArgs false

namespace CifModel.Model.Lexer
open CifModel CifModel.Model.Chars CifModel.Spec.Lexical CifModel.Model.Parser
open CifModel.Gen.ErrCodes

/-- a unit `c` that SCAN_UCHAR (no lead surrogate pending) reports and then leaves in the buffer as `c'`, a unit of class
    GENERAL or NO_CLASS; `reps line col` = the reports (newest first), all at the column behind the unit -/
structure Defect1 (dia : Dialect) (c c' : Nat) (reps : Nat → Nat → List Report) : Prop where
  step : ∀ (line col prev : Nat) (log : List Report),
    scanUChar dia line col prev c false acceptAll log = .ok ⟨c', false, col + 1, false⟩ (reps line (col + 1) ++ log)
  cls : classOf dia c' = .general ∨ classOf dia c' = .no
  cls0 : classOf dia c = .general ∨ classOf dia c = .no

/-- the reports for a disallowed character: one for "not a CIF character", one more in CIF 1.1 for "not ASCII" -/
def disReps (dia : Dialect) (c : Nat) (line col : Nat) : List Report :=
  (if dia == .cif1 && decide (c > cif1MaxChar) then [⟨CIF_DISALLOWED_CHAR, line, col⟩] else [])
  ++ (if disallowedBmp dia c then [⟨CIF_DISALLOWED_CHAR, line, col⟩] else [])

/-- a character that is not allowed, no surrogate -/
def softBad (dia : Dialect) (c : Nat) : Bool :=
  !isTrail c && !isLead c && (disallowedBmp dia c || (dia == .cif1 && decide (c > cif1MaxChar)))

theorem high_meta_class (dia : Dialect) (c : Nat) (h : isTrail c = true) : classOf dia c = .general ∨ classOf dia c = .no := by
  have hc : ¬ c < 160 := by simp [isTrail] at h; omega_cu
  exact high_class dia c (by omega)

theorem softBad_defect (dia : Dialect) (c : Nat) (h : softBad dia c = true) : Defect1 dia c c (disReps dia c) := by
  simp only [softBad, Bool.and_eq_true, Bool.not_eq_true', Bool.or_eq_true, decide_eq_true_eq] at h
  obtain ⟨⟨ht, hl⟩, hbad⟩ := h
  have hcls : classOf dia c = .general ∨ classOf dia c = .no := by
    by_cases hc : c < 160
    · right
      rcases hbad with hb | hb
      · simpa [disallowedBmp, hc] using hb
      · obtain ⟨hd, hgt⟩ := hb
        have hd' : dia = .cif1 := by simpa using hd
        subst hd'
        have key : (List.range 160).all (fun c => !(decide (c > cif1MaxChar)) || (classOf .cif1 c == .no)) = true := by decide +kernel
        have := forall_lt_of_range_all key c hc
        simpa [hgt] using this
    · exact high_class dia c (by omega)
  refine ⟨?_, hcls, hcls⟩
  intro line col prev log
  simp only [scanUChar, ht, Bool.false_eq_true, if_false, bind_eq, pure_eq, reportIf_false, L.pure_bind, hl, disReps]
  cases h1 : disallowedBmp dia c <;> cases h2 : (dia == .cif1 && decide (c > cif1MaxChar)) <;>
    simp [L.bind, report_accept, reportIf]

/-- an unpaired trail surrogate -/
theorem trail_defect (dia : Dialect) (c : Nat) (h : isTrail c = true) :
    Defect1 dia c (replChar dia) (fun line col => [⟨CIF_INVALID_CHAR, line, col⟩]) := by
  refine ⟨?_, ?_, ?_⟩
  · intro line col prev log
    simp [scanUChar, h, L.bind, report_accept]
  · left; cases dia <;> decide
  · exact high_meta_class dia c h

variable {dia : Dialect} {c c' : Nat} {reps : Nat → Nat → List Report}

theorem Defect1.ne_of_class (hD : Defect1 dia c c' reps) (q : Nat) (k : Cls) (hq : classOf dia q = k) (h1 : k ≠ .general) (h2 : k ≠ .no) :
    ¬ c' = q := by
  intro e
  rcases hD.cls with h | h <;> rw [e, hq] at h
  · exact h1 h
  · exact h2 h

theorem Defect1.not_eol (hD : Defect1 dia c c' reps) : ¬ classOf dia c' = .eol := by
  rcases hD.cls with h | h <;> rw [h] <;> decide

theorem Defect1.not_semi (hD : Defect1 dia c c' reps) : ¬ classOf dia c' = .semi := by
  rcases hD.cls with h | h <;> rw [h] <;> decide

theorem Defect1.meta (hD : Defect1 dia c c' reps) : metaOfCls (classOf dia c') = .general ∨ metaOfCls (classOf dia c') = .no := by
  rcases hD.cls with h | h <;> rw [h] <;> simp [metaOfCls]

/-! ### the defective unit in each scan function -/

theorem Defect1.delim_step (hD : Defect1 dia c c' reps) (q : Nat) (hq : classOf dia q = .quote) (R : Str) (line col : Nat) (acc : Str)
    (first : Bool) (log : List Report) :
    scanDelim dia q (c :: R) line col false acc first acceptAll log
      = scanDelim dia q R line (col + 1) false (c' :: acc) false acceptAll (reps line (col + 1) ++ log) := by
  conv => lhs; simp only [scanDelim, bind_eq, pure_eq]
  rw [L.bind_ok (hD.step line col _ log)]
  simp only [fixAcc_false, hD.ne_of_class q .quote hq (by decide) (by decide), if_false, hD.not_eol]

theorem Defect1.toWs_step (hD : Defect1 dia c c' reps) (R : Str) (line col : Nat) (acc : Str) (log : List Report) :
    scanToWs dia (c :: R) line col false acc acceptAll log
      = scanToWs dia R line (col + 1) false (c' :: acc) acceptAll (reps line (col + 1) ++ log) := by
  conv => lhs; simp only [scanToWs, bind_eq, pure_eq]
  rw [L.bind_ok (hD.step line col _ log)]
  have : ¬ metaOf dia c' = .ws := by
    simp only [metaOf]; rcases hD.meta with h | h <;> rw [h] <;> decide
  simp only [fixAcc_false, this, if_false]

theorem Defect1.unquoted_step (hD : Defect1 dia c c' reps) (R : Str) (line col : Nat) (acc : Str) (k : Nat) (kd ks : Bool)
    (log : List Report) :
    ∃ kd' ks', scanUnquoted dia (c :: R) line col false acc k kd ks acceptAll log
      = scanUnquoted dia R line (col + 1) false (c' :: acc) (k + 1) kd' ks' acceptAll (reps line (col + 1) ++ log) := by
  rcases hD.meta with h | h
  · refine ⟨(if k < 5 then kd && (classOf dia c' == dataCls k) else kd), (if k < 5 then ks && (classOf dia c' == saveCls k) else ks), ?_⟩
    conv => lhs; simp only [scanUnquoted, bind_eq, pure_eq]
    rw [L.bind_ok (hD.step line col _ log)]
    simp only [fixAcc_false, h]
  · refine ⟨kd, ks, ?_⟩
    conv => lhs; simp only [scanUnquoted, bind_eq, pure_eq]
    rw [L.bind_ok (hD.step line col _ log)]
    simp only [fixAcc_false, h]

theorem Defect1.triple_step (hD : Defect1 dia c c' reps) (q : Nat) (hq : classOf dia q = .quote) (R : Str) (line col : Nat) (acc : Str)
    (cnt sol : Nat) (log : List Report) :
    scanTriple dia q (c :: R) line col false acc cnt sol acceptAll log
      = scanTriple dia q R line (col + 1) false (c' :: acc) 0 0 acceptAll (reps line (col + 1) ++ log) := by
  conv => lhs; simp only [scanTriple, bind_eq, pure_eq]
  rw [L.bind_ok (hD.step line col _ log)]
  simp only [fixAcc_false, hD.ne_of_class q .quote hq (by decide) (by decide), if_false, hD.not_eol]

theorem Defect1.text_step (hD : Defect1 dia c c' reps) (R : Str) (line col : Nat) (acc : Str) (sol : Nat) (log : List Report) :
    scanText dia (c :: R) line col false acc sol acceptAll log
      = scanText dia R line (col + 1) false (c' :: acc) 0 acceptAll (reps line (col + 1) ++ log) := by
  conv => lhs; simp only [scanText, bind_eq, pure_eq]
  rw [L.bind_ok (hD.step line col _ log)]
  simp only [fixAcc_false, hD.not_semi, if_false, hD.not_eol]

/-! ### the defective unit inside each kind of token -/

theorem quote_class (dia : Dialect) (q : Nat) (hq : q = 34 ∨ q = 39) : classOf dia q = .quote := by
  rcases hq with h | h <;> subst h <;> cases dia <;> decide

theorem Defect1.ne13 (hD : Defect1 dia c c' reps) : c' ≠ 13 := by
  intro e
  have : classOf dia 13 = .eol := by cases dia <;> decide
  rcases hD.cls with h | h <;> rw [e, this] at h <;> cases h

/-- inside a quoted string (either dialect): the token is the quoted value with the unit as SCAN_UCHAR left it -/
theorem Defect1.quoted (hD : Defect1 dia c c' reps) (q : Nat) (hq : q = 34 ∨ q = 39) (s1 s2 ctx : Str) (line col : Nat)
    (log : List Report) (h1 : okUnits dia none s1 = true) (h1e : s1.all (fun x => !isEol x) = true)
    (h1q : s1.all (fun x => x != q) = true) (h2 : quotedOk dia q s2 = true) (hctx : followOk dia ctx = true) :
    stepTok dia true q (s1 ++ c :: (s2 ++ q :: ctx)) line col acceptAll log
      = .ok (.tok ⟨.qvalue, s1 ++ c' :: s2, line, col + colAdd s1 + colAdd s2 + 3⟩ ⟨ctx, line, col + colAdd s1 + colAdd s2 + 3⟩)
          (reps line (col + 1 + colAdd s1 + 1) ++ log) := by
  have hqc := quote_class dia q hq
  simp only [quotedOk, Bool.and_eq_true] at h2
  obtain ⟨⟨h2o, h2e⟩, h2q⟩ := h2
  have hcolon : ∀ d r, ctx = d :: r → ¬ d = colon := by
    intro d r h
    subst h
    simp only [followOk, isWs, isBlank, isEol, Bool.or_eq_true, beq_iff_eq, Bool.and_eq_true] at hctx
    simp only [colon]; omega_cu
  have hscan : scanDelim dia q (s1 ++ c :: (s2 ++ q :: ctx)) line (col + 1) false [] true acceptAll log
      = .ok ⟨(s1 ++ c' :: s2).reverse, ⟨ctx, line, col + colAdd s1 + colAdd s2 + 3⟩⟩ (reps line (col + 1 + colAdd s1 + 1) ++ log) := by
    have hp := scanDelim_prefix dia q (c :: (s2 ++ q :: ctx)) line acceptAll log s1 none [] (col + 1) true h1 trivial h1e h1q
    simp only [Option.isSome_none] at hp
    rw [hp, hD.delim_step q hqc]
    cases dia with
    | cif2 =>
      have := scanDelim_cif2 q hq ctx line acceptAll (reps line (col + 1 + colAdd s1 + 1) ++ log) s2 none (c' :: (s1.reverse ++ []))
        (col + 1 + colAdd s1 + 1) false h2o trivial h2e h2q (fun h => by cases h)
      simp only [Option.isSome_none] at this
      rw [this]
      simp [Nat.add_assoc, Nat.add_comm, Nat.add_left_comm]; omega
    | cif1 =>
      have hctx' : ctx = [] ∨ ∃ d r, ctx = d :: r ∧ isWs d = true := by
        cases ctx with
        | nil => exact Or.inl rfl
        | cons d r => exact Or.inr ⟨d, r, rfl, by simpa [followOk] using hctx⟩
      have := scanDelim_cif1 q hq ctx hctx' line acceptAll (reps line (col + 1 + colAdd s1 + 1) ++ log) s2 (c' :: (s1.reverse ++ []))
        (col + 1 + colAdd s1 + 1) false h2o h2e h2q
      rw [this]
      simp [Nat.add_assoc, Nat.add_comm, Nat.add_left_comm]; omega
  rw [quote_dispatch dia q hq, L.bind_ok hscan]
  cases ctx with
  | nil => simp [keyPeek, mkTok]
  | cons d r => simp [keyPeek, mkTok, hcolon d r rfl]

/-- the first unit of a whitespace-delimited token: anything the dispatch of next_token does not send elsewhere -/
def bareStart (dia : Dialect) (f : Nat) (col : Nat) : Bool :=
  let k := classOf dia f
  k != .eol && k != .ws && k != .hash && k != .undersc && k != .obrak && k != .cbrak && k != .ocurl && k != .ccurl && k != .quote
    && (k != .semi || col != 0)

theorem unquoted_dispatch (dia : Dialect) (f : Nat) (r : Str) (line col : Nat) (h : bareStart dia f col = true) :
    stepTok dia true f r line col
      = L.bind (scanUnquoted dia (f :: r) line col false [] 0 true true) (fun s => finishUnquoted dia true s.acc.reverse s.pos) := by
  simp only [bareStart, Bool.and_eq_true, bne_iff_ne, ne_eq, Bool.or_eq_true] at h
  obtain ⟨⟨⟨⟨⟨⟨⟨⟨⟨h1, h2⟩, h3⟩, h4⟩, h5⟩, h6⟩, h7⟩, h8⟩, h9⟩, h10⟩ := h
  have hm : (metaOfCls (classOf dia f) != Meta.close && metaOfCls (classOf dia f) != Meta.ws && !true) = false := by simp
  unfold stepTok
  simp only [bind_eq]
  simp only [pure_eq]
  rw [hm, reportIf_false, L.pure_bind]
  rw [if_neg h1, if_neg h2, if_neg h3, if_neg h4, if_neg h5, if_neg h6, if_neg h7, if_neg h8, if_neg h9]
  by_cases hs : classOf dia f = .semi
  · have hcol : ¬ col + 1 = 1 := by
      rcases h10 with h | h
      · exact absurd hs h
      · omega
    rw [if_pos hs, if_neg hcol, Nat.add_sub_cancel]
  · rw [if_neg hs, Nat.add_sub_cancel]

/-- inside a whitespace-delimited value -/
theorem Defect1.bare (hD : Defect1 dia c c' reps) (s1 s2 ctx : Str) (line col : Nat) (log : List Report)
    (h1 : nonBlankOk dia s1 = true) (h2 : nonBlankOk dia s2 = true)
    (hbr : dia = .cif2 → (s1 ++ s2).all (fun x => !(x == 91 || x == 93 || x == 123 || x == 125)) = true)
    (hstart : bareStart dia ((s1 ++ [c]).headD 0) col = true)
    (hres : isReservedWord (s1 ++ c' :: s2) = false) (hctx : wsOrEnd ctx = true) :
    ∃ f r, s1 ++ c :: (s2 ++ ctx) = f :: r ∧
      stepTok dia true f r line col acceptAll log
        = .ok (.tok ⟨.value, s1 ++ c' :: s2, line, col + colAdd s1 + 1 + colAdd s2⟩ ⟨ctx, line, col + colAdd s1 + 1 + colAdd s2⟩)
            (reps line (col + colAdd s1 + 1) ++ log) := by
  simp only [nonBlankOk, Bool.and_eq_true] at h1 h2
  have hb1 : dia = .cif2 → s1.all (fun x => !(x == 91 || x == 93 || x == 123 || x == 125)) = true := by
    intro hd; have := hbr hd; rw [List.all_append, Bool.and_eq_true] at this; exact this.1
  have hb2 : dia = .cif2 → s2.all (fun x => !(x == 91 || x == 93 || x == 123 || x == 125)) = true := by
    intro hd; have := hbr hd; rw [List.all_append, Bool.and_eq_true] at this; exact this.2
  have hscan : scanUnquoted dia (s1 ++ c :: (s2 ++ ctx)) line col false [] 0 true true acceptAll log
      = .ok ⟨(s1 ++ c' :: s2).reverse, ⟨ctx, line, col + colAdd s1 + 1 + colAdd s2⟩⟩ (reps line (col + colAdd s1 + 1) ++ log) := by
    have hp := scanUnquoted_prefix dia (c :: (s2 ++ ctx)) line acceptAll log s1 none [] col 0 true true h1.1 trivial h1.2 hb1
    simp only [Option.isSome_none] at hp
    rw [hp]
    obtain ⟨kd', ks', hst⟩ := hD.unquoted_step (s2 ++ ctx) line (col + colAdd s1) (s1.reverse ++ []) (kwAfter dia 0 true true s1).1
      (kwAfter dia 0 true true s1).2.1 (kwAfter dia 0 true true s1).2.2 log
    rw [hst]
    have := scanUnquoted_ok dia ctx (wsOrEnd_iff hctx) line acceptAll (reps line (col + colAdd s1 + 1) ++ log) s2 none
      (c' :: (s1.reverse ++ [])) (col + colAdd s1 + 1) ((kwAfter dia 0 true true s1).1 + 1) kd' ks' h2.1 trivial h2.2 hb2
    simp only [Option.isSome_none] at this
    rw [this]
    simp
  have hcv := classify_value dia (s1 ++ c' :: s2) hres
  cases s1 with
  | nil =>
    refine ⟨c, s2 ++ ctx, rfl, ?_⟩
    simp only [List.nil_append, List.headD_cons] at hstart
    rw [unquoted_dispatch dia c _ line col hstart]
    simp only [List.nil_append] at hscan hcv
    rw [L.bind_ok hscan]
    simp [finishUnquoted, hcv, mkTok]
  | cons f r =>
    refine ⟨f, r ++ c :: (s2 ++ ctx), rfl, ?_⟩
    simp only [List.cons_append, List.headD_cons] at hstart
    rw [unquoted_dispatch dia f _ line col hstart]
    simp only [List.cons_append] at hscan hcv
    rw [L.bind_ok hscan]
    simp [finishUnquoted, hcv, mkTok]

/-- inside a data name -/
theorem Defect1.name (hD : Defect1 dia c c' reps) (s1 s2 ctx : Str) (line col : Nat) (log : List Report)
    (h1 : nonBlankOk dia s1 = true) (h2 : nonBlankOk dia s2 = true) (hctx : wsOrEnd ctx = true) :
    stepTok dia true 95 (s1 ++ c :: (s2 ++ ctx)) line col acceptAll log
      = .ok (.tok ⟨.name, 95 :: (s1 ++ c' :: s2), line, col + 1 + colAdd s1 + 1 + colAdd s2⟩
                  ⟨ctx, line, col + 1 + colAdd s1 + 1 + colAdd s2⟩)
          (reps line (col + 1 + colAdd s1 + 1) ++ log) := by
  simp only [nonBlankOk, Bool.and_eq_true] at h1 h2
  have hcls : classOf dia 95 = .undersc := by cases dia <;> decide
  have hscan : scanToWs dia (s1 ++ c :: (s2 ++ ctx)) line (col + 1) false [95] acceptAll log
      = .ok ⟨(95 :: (s1 ++ c' :: s2)).reverse, ⟨ctx, line, col + 1 + colAdd s1 + 1 + colAdd s2⟩⟩
          (reps line (col + 1 + colAdd s1 + 1) ++ log) := by
    have hp := scanToWs_prefix dia (c :: (s2 ++ ctx)) line acceptAll log s1 none [95] (col + 1) h1.1 trivial h1.2
    simp only [Option.isSome_none] at hp
    rw [hp, hD.toWs_step]
    have := scanToWs_ok dia ctx (wsOrEnd_iff hctx) line acceptAll (reps line (col + 1 + colAdd s1 + 1) ++ log) s2 none
      (c' :: (s1.reverse ++ [95])) (col + 1 + colAdd s1 + 1) h2.1 trivial h2.2
    simp only [Option.isSome_none] at this
    rw [this]
    simp
  unfold stepTok
  simp only [bind_eq]
  simp only [pure_eq]
  have : (metaOfCls (classOf dia 95) != Meta.close && metaOfCls (classOf dia 95) != Meta.ws && !true) = false := by simp
  rw [this, reportIf_false, L.pure_bind]
  rw [if_neg (by rw [hcls]; decide), if_neg (by rw [hcls]; decide), if_neg (by rw [hcls]; decide), if_pos hcls]
  rw [L.bind_ok hscan]
  simp [mkTok]

/-- inside a text field -/
theorem Defect1.text (hD : Defect1 dia c c' reps) (s1 s2 ctx : Str) (line : Nat) (log : List Report)
    (h1 : textOk dia s1 = true) (h2 : textOk dia s2 = true)
    (hfit1 : linesFit 1 s1 = true) (hfit2 : linesFit ((posAfter line 1 s1).2 + 1) (s2 ++ [10]) = true)
    (hctx : followOk dia ctx = true) :
    stepTok dia true 59 (s1 ++ c :: (s2 ++ 10 :: 59 :: ctx)) line 0 acceptAll log
      = .ok (.tok ⟨.tvalue, s1 ++ c' :: s2, (posAfter (posAfter line 1 s1).1 ((posAfter line 1 s1).2 + 1) s2).1 + 1, 1⟩
                  ⟨ctx, (posAfter (posAfter line 1 s1).1 ((posAfter line 1 s1).2 + 1) s2).1 + 1, 1⟩)
          (reps (posAfter line 1 s1).1 ((posAfter line 1 s1).2 + 1) ++ log) := by
  simp only [textOk, Bool.and_eq_true] at h1 h2
  have hscan : scanText dia (s1 ++ c :: (s2 ++ 10 :: 59 :: ctx)) line 1 false [] 0 acceptAll log
      = .ok ⟨(s1 ++ c' :: s2).reverse, ⟨ctx, (posAfter (posAfter line 1 s1).1 ((posAfter line 1 s1).2 + 1) s2).1 + 1, 1⟩⟩
          (reps (posAfter line 1 s1).1 ((posAfter line 1 s1).2 + 1) ++ log) := by
    obtain ⟨sol', _, hp⟩ := scanText_prefix dia (c :: (s2 ++ 10 :: 59 :: ctx)) acceptAll log s1 none [] line 1 0 h1.1 trivial
      (by simpa using h1.2) (by decide) hfit1
    simp only [Option.isSome_none] at hp
    rw [hp, hD.text_step]
    have := scanText_ok dia ctx acceptAll (reps (posAfter line 1 s1).1 ((posAfter line 1 s1).2 + 1) ++ log) s2 none
      (c' :: (s1.reverse ++ [])) (posAfter line 1 s1).1 ((posAfter line 1 s1).2 + 1) 0 h2.1 trivial (by simpa using h2.2) (by decide)
      hfit2 (by simp [hD.ne13])
    simp only [Option.isSome_none] at this
    rw [this]
    simp
  rw [text_dispatch, L.bind_ok hscan]
  have hcol : ∀ d r, ctx = d :: r → ¬ d = colon := by
    intro d r h
    subst h
    simp only [followOk, isWs, isBlank, isEol, Bool.or_eq_true, beq_iff_eq, Bool.and_eq_true] at hctx
    simp only [colon]; omega_cu
  cases dia with
  | cif1 => simp [mkTok]
  | cif2 =>
    cases ctx with
    | nil => simp [keyPeek, mkTok]
    | cons d r => simp [keyPeek, mkTok, hcol d r rfl]

/-- inside a triple-quoted string (CIF 2.0) -/
theorem Defect1.triple (hD : Defect1 .cif2 c c' reps) (q : Nat) (hq : q = 34 ∨ q = 39) (s1 s2 ctx : Str) (line col : Nat)
    (log : List Report) (h1 : okUnits .cif2 none s1 = true) (h1o : tripleOpen q 0 s1 = true) (hfit1 : linesFit (col + 3) s1 = true)
    (h2 : Spec.Lexical.tripleOk .cif2 q s2 = true) (hfit2 : linesFit ((posAfter line (col + 3) s1).2 + 1) s2 = true)
    (hctx : followOk .cif2 ctx = true) :
    stepTok .cif2 true q (q :: q :: (s1 ++ c :: (s2 ++ q :: q :: q :: ctx))) line col acceptAll log
      = .ok (.tok ⟨.qvalue, s1 ++ c' :: s2, (posAfter (posAfter line (col + 3) s1).1 ((posAfter line (col + 3) s1).2 + 1) s2).1,
                    (posAfter (posAfter line (col + 3) s1).1 ((posAfter line (col + 3) s1).2 + 1) s2).2 + 3⟩
                  ⟨ctx, (posAfter (posAfter line (col + 3) s1).1 ((posAfter line (col + 3) s1).2 + 1) s2).1,
                    (posAfter (posAfter line (col + 3) s1).1 ((posAfter line (col + 3) s1).2 + 1) s2).2 + 3⟩)
          (reps (posAfter line (col + 3) s1).1 ((posAfter line (col + 3) s1).2 + 1) ++ log) := by
  have hqc := quote_class .cif2 q hq
  simp only [Spec.Lexical.tripleOk, Bool.and_eq_true] at h2
  obtain ⟨⟨_, h2o⟩, h2b⟩ := h2
  have hscan : scanTriple .cif2 q (s1 ++ c :: (s2 ++ q :: q :: q :: ctx)) line (col + 1 + 2) false [] 0 0 acceptAll log
      = .ok ⟨(s1 ++ c' :: s2).reverse, ⟨ctx, (posAfter (posAfter line (col + 3) s1).1 ((posAfter line (col + 3) s1).2 + 1) s2).1,
                    (posAfter (posAfter line (col + 3) s1).1 ((posAfter line (col + 3) s1).2 + 1) s2).2 + 3⟩⟩
          (reps (posAfter line (col + 3) s1).1 ((posAfter line (col + 3) s1).2 + 1) ++ log) := by
    obtain ⟨cnt', sol', _, hp⟩ := scanTriple_prefix q hq (c :: (s2 ++ q :: q :: q :: ctx)) acceptAll log s1 none [] line (col + 1 + 2) 0 0
      h1 trivial h1o (by decide) hfit1
    simp only [Option.isSome_none] at hp
    rw [hp, hD.triple_step q hqc]
    have := scanTriple_ok q hq ctx acceptAll (reps (posAfter line (col + 3) s1).1 ((posAfter line (col + 3) s1).2 + 1) ++ log) s2 none
      (c' :: (s1.reverse ++ [])) (posAfter line (col + 3) s1).1 ((posAfter line (col + 3) s1).2 + 1) 0 0 h2o trivial h2b (by decide) hfit2
    simp only [Option.isSome_none] at this
    rw [this]
    simp
  have hscan' := (scanDelim_triple_open q hq (s1 ++ c :: (s2 ++ q :: q :: q :: ctx)) line (col + 1) acceptAll log).trans hscan
  rw [quote_dispatch .cif2 q hq, L.bind_ok hscan']
  cases ctx with
  | nil => simp [keyPeek, mkTok]
  | cons d r =>
    have : ¬ d = colon := by
      simp only [followOk, isWs, isBlank, isEol, Bool.or_eq_true, beq_iff_eq, Bool.and_eq_true] at hctx
      simp only [colon]; omega_cu
    simp [keyPeek, mkTok, this]

/-! ### an unpaired LEAD surrogate: it is noticed at the next unit, and replaced by U+FFFD -/

/-- the last unit of a quoted string's content, directly in front of the closing quote (CIF 2.0) -/
theorem lead_before_quote (q : Nat) (hq : q = 34 ∨ q = 39) (s1 ctx : Str) (l : Nat) (hl : isLeadU l = true) (line col : Nat)
    (log : List Report) (h1 : okUnits .cif2 none s1 = true) (h1e : s1.all (fun x => !isEol x) = true)
    (h1q : s1.all (fun x => x != q) = true) (hctx : followOk .cif2 ctx = true) :
    stepTok .cif2 true q (s1 ++ l :: q :: ctx) line col acceptAll log
      = .ok (.tok ⟨.qvalue, s1 ++ [0xFFFD], line, col + colAdd s1 + 3⟩ ⟨ctx, line, col + colAdd s1 + 3⟩)
          (⟨CIF_INVALID_CHAR, line, col + colAdd s1 + 3⟩ :: log) := by
  have hqa : allowedBmp .cif2 q = true := by rcases hq with h | h <;> subst h <;> decide
  have hf := lead_facts l hl
  have hlq : ¬ l = q := by simp [isLeadU] at hl; rcases hq with h | h <;> omega_cu
  have hqf := bmpFacts_of_allowed .cif2 q hqa
  have hqt : isTrail q = false := by rcases hq with h | h <;> subst h <;> decide
  have hql : isLead q = false := by rcases hq with h | h <;> subst h <;> decide
  have hqd : disallowedBmp .cif2 q = false := by rcases hq with h | h <;> subst h <;> decide
  have hscan : scanDelim .cif2 q (s1 ++ l :: q :: ctx) line (col + 1) false [] true acceptAll log
      = .ok ⟨(s1 ++ [0xFFFD]).reverse, ⟨ctx, line, col + colAdd s1 + 3⟩⟩ (⟨CIF_INVALID_CHAR, line, col + colAdd s1 + 3⟩ :: log) := by
    have hp := scanDelim_prefix .cif2 q (l :: q :: ctx) line acceptAll log s1 none [] (col + 1) true h1 trivial h1e h1q
    simp only [Option.isSome_none] at hp
    rw [hp]
    conv => lhs; simp only [scanDelim, bind_eq, pure_eq]
    rw [L.bind_ok (scanUChar_lead l hl line (col + 1 + colAdd s1) _ acceptAll log)]
    have hne : ¬ classOf .cif2 l = .eol := by rw [hf.2.2.2]; decide
    simp only [fixAcc_false, hlq, if_false, hne]
    have hstep : scanUChar .cif2 line (col + 1 + colAdd s1 + 1) ((l :: (s1.reverse ++ [])).headD 0) q true acceptAll log
        = .ok ⟨q, true, col + 1 + colAdd s1 + 1 + 1, false⟩ (⟨CIF_INVALID_CHAR, line, col + 1 + colAdd s1 + 1 + 1⟩ :: log) := by
      simp [scanUChar, hqt, hql, hqd, L.bind, report_accept]
    conv => lhs; simp only [scanDelim, bind_eq, pure_eq]
    rw [L.bind_ok hstep]
    cases ctx with
    | nil => simp [fixAcc, replChar]; omega
    | cons d r => simp [fixAcc, replChar]; omega
  rw [quote_dispatch .cif2 q hq, L.bind_ok hscan]
  cases ctx with
  | nil => simp [keyPeek, mkTok]
  | cons d r =>
    have : ¬ d = colon := by
      simp only [followOk, isWs, isBlank, isEol, Bool.or_eq_true, beq_iff_eq, Bool.and_eq_true] at hctx
      simp only [colon]; omega_cu
    simp [keyPeek, mkTok, this]

/-! ### a defective unit inside a COMMENT (group gW) -/

theorem Defect1.toEol_step (hD : Defect1 dia c c' reps) (R : Str) (line col : Nat) (acc : Str) (log : List Report) :
    scanToEol dia (c :: R) line col false acc acceptAll log
      = scanToEol dia R line (col + 1) false (c' :: acc) acceptAll (reps line (col + 1) ++ log) := by
  conv => lhs; simp only [scanToEol, bind_eq, pure_eq]
  rw [L.bind_ok (hD.step line col _ log)]
  simp only [fixAcc_false, hD.not_eol, if_false]

/-- a comment `#s₁ c s₂` up to its line terminator, `c` the defective unit: the step of the token loop over it -/
theorem Defect1.comment_step (hD : Defect1 dia c c' reps) (s1 s2 R : Str) (line col : Nat) (log : List Report)
    (h1 : okUnits dia none s1 = true) (h1e : s1.all (fun x => !isEol x) = true)
    (h2 : okUnits dia none s2 = true) (h2e : s2.all (fun x => !isEol x) = true) :
    stepTok dia true 35 (s1 ++ c :: (s2 ++ 10 :: R)) line col acceptAll log
      = .ok (.skip true ⟨10 :: R, line, col + 1 + colAdd s1 + 1 + colAdd s2⟩) (reps line (col + 1 + colAdd s1 + 1) ++ log) := by
  have hcls : classOf dia 35 = .hash := by cases dia <;> decide
  have hscan : scanToEol dia (s1 ++ c :: (s2 ++ 10 :: R)) line (col + 1) false [35] acceptAll log
      = .ok ⟨s2.reverse ++ (c' :: (s1.reverse ++ [35])), ⟨10 :: R, line, col + 1 + colAdd s1 + 1 + colAdd s2⟩⟩
          (reps line (col + 1 + colAdd s1 + 1) ++ log) := by
    have hp := scanToEol_prefix dia (c :: (s2 ++ 10 :: R)) line acceptAll log s1 none [35] (col + 1) h1 trivial h1e
    simp only [Option.isSome_none] at hp
    rw [hp, hD.toEol_step]
    have := scanToEol_ok dia R line acceptAll (reps line (col + 1 + colAdd s1 + 1) ++ log) s2 none
      (c' :: (s1.reverse ++ [35])) (col + 1 + colAdd s1 + 1) h2 trivial h2e
    simp only [Option.isSome_none] at this
    rw [this]
  unfold stepTok
  simp only [bind_eq]
  simp only [pure_eq]
  have : (metaOfCls (classOf dia 35) != Meta.close && metaOfCls (classOf dia 35) != Meta.ws && !true) = false := by simp
  rw [this, reportIf_false, L.pure_bind]
  rw [if_neg (by rw [hcls]; decide), if_neg (by rw [hcls]; decide), if_pos hcls]
  rw [L.bind_ok hscan]
  rfl

/-- … the reports of the unit at its line and column, no token, the token loop (whitespace seen) continues at the terminator
    exactly as behind the clean comment -/
theorem Defect1.comment (hD : Defect1 dia c c' reps) (s1 s2 R : Str) (line col f : Nat) (log : List Report)
    (h1 : okUnits dia none s1 = true) (h1e : s1.all (fun x => !isEol x) = true)
    (h2 : okUnits dia none s2 = true) (h2e : s2.all (fun x => !isEol x) = true) :
    tokLoop dia (f + 1) true ⟨35 :: (s1 ++ c :: (s2 ++ 10 :: R)), line, col⟩ acceptAll log
      = tokLoop dia f true ⟨10 :: R, line, col + 1 + colAdd s1 + 1 + colAdd s2⟩ acceptAll (reps line (col + 1 + colAdd s1 + 1) ++ log) := by
  rw [tokLoop_cons, L.bind_ok (hD.comment_step s1 s2 R line col log h1 h1e h2 h2e)]

/-- … and under the abort-on-error handler the token loop ends with the code of the oldest report of the unit -/
theorem Defect1.comment_die (hD : Defect1 dia c c' reps) (s1 s2 R : Str) (line col f : Nat) (log d : List Report) (r : Report)
    (h1 : okUnits dia none s1 = true) (h1e : s1.all (fun x => !isEol x) = true)
    (h2 : okUnits dia none s2 = true) (h2e : s2.all (fun x => !isEol x) = true)
    (hr : reps line (col + 1 + colAdd s1 + 1) = d ++ [r]) :
    tokLoop dia (f + 1) true ⟨35 :: (s1 ++ c :: (s2 ++ 10 :: R)), line, col⟩ dieAll log = .abort r.code (r :: log) := by
  have hs := hD.comment_step s1 s2 R line col log h1 h1e h2 h2e
  rw [hr] at hs
  rw [tokLoop_cons, L.bind_abort (die_of_accept (stepTok_detl dia true 35 _ line col) hs)]

end CifModel.Model.Lexer
