import CifModel.Lemmas.ParseCBDup
import CifModel.Lemmas.ParseCBStop
/-
  CifModel.Lemmas.ParseCBDupX — duplicates under EVERY handler program: on the layout-free token sequence of a well-formed document
  the parser model with the duplicate diagnostics (Model/ParseCBDup.lean) behaves like the structural interpreter `x…D` below: the
  handler steps of parser.c and the duplicate checks applied to the document tree, threading the scanner state (depth, handler count,
  log) and the content the container holds — no tokens, no fuel.  Loop headers may repeat names (of the container, of themselves):
  the dropped columns are parsed without item handler and are not part of the packet.
-/
set_option linter.unusedSimpArgs false
set_option linter.unusedVariables false

namespace CifModel.Lemmas.ParseCB
open CifModel.ParseCB CifModel.Spec.Doc
open CifModel.Gen.ErrCodes (CIF_DUP_ITEMNAME CIF_DUP_BLOCKCODE CIF_DUP_FRAMECODE)

-- ---- loop header -----------------------------------------------------------------------------------------------------------------

/-- parse_loop_header on the names of a header: the slots (`none` = a dropped duplicate) and the state — a data-name callback for
    every name unless something is being skipped, an error callback for every duplicate (always) -/
def hdrD (norm : Str → Str) (cont : Bool) (c : Content) : List Str → St → List (Option Str) → List (Option Str) × St
  | [], s, acc => (acc, s)
  | nm :: ns, s, acc =>
    if (cont && hasName norm c nm) || acc.any (slotIs norm nm) then
      hdrD norm cont c ns (report (if s.skip ≤ 0 then note s (.dataname nm) else s) CIF_DUP_ITEMNAME) (acc ++ [none])
    else hdrD norm cont c ns (if s.skip ≤ 0 then note s (.dataname nm) else s) (acc ++ [some nm])

theorem report_atb (s : St) (t : List Tok) (b : Bool) (k : Nat) : report (atb s t b) k = atb (report s k) t b := rfl

theorem headerD_x (norm : Str → Str) (cont : Bool) (c : Content) :
    ∀ (names : List Str) (acc : List (Option Str)) (t : Tok) (rest : List Tok) (s : St) (b : Bool) (fuel : Nat),
      t.pre = [] → t.ty ≠ .name → names.length + 1 ≤ fuel →
      headerLoopD norm cont c fuel (atb s (names.map (fun n => plain .name n) ++ t :: rest) b) acc
        = (OK, (hdrD norm cont c names s acc).1, atb (hdrD norm cont c names s acc).2 (t :: rest) true)
  | [], acc, t, rest, s, b, fuel, hpre, hty, hf => by
    obtain ⟨f, rfl⟩ : ∃ f, fuel = f + 1 := ⟨fuel - 1, by omega⟩
    simp only [List.map_nil, List.nil_append, headerLoopD, nextToken_atb s t rest b hpre, hty, if_false, hdrD]
  | nm :: ns, acc, t, rest, s, b, fuel, hpre, hty, hf => by
    obtain ⟨f, rfl⟩ : ∃ f, fuel = f + 1 := ⟨fuel - 1, by omega⟩
    simp only [List.map_cons, List.cons_append, headerLoopD, nextToken_atb s (plain .name nm) _ b rfl]
    simp only [plain_ty, plain_text, if_true, cur_atb, atb_skip, hdrD]
    by_cases hdup : ((cont && hasName norm c nm) || acc.any (slotIs norm nm)) = true
    · simp only [hdup, if_true]
      by_cases h : s.skip ≤ 0
      · simp only [h, if_true, note_atb, report_atb, consume_atb]
        exact headerD_x norm cont c ns _ t rest _ false f hpre hty (by simpa using hf)
      · simp only [h, if_false, report_atb, consume_atb]
        exact headerD_x norm cont c ns _ t rest _ false f hpre hty (by simpa using hf)
    · simp only [hdup, Bool.false_eq_true, if_false]
      by_cases h : s.skip ≤ 0
      · simp only [h, if_true, note_atb, consume_atb]
        exact headerD_x norm cont c ns _ t rest _ false f hpre hty (by simpa using hf)
      · simp only [h, if_false, consume_atb]
        exact headerD_x norm cont c ns _ t rest _ false f hpre hty (by simpa using hf)

theorem hdrD_length (norm : Str → Str) (cont : Bool) (c : Content) : ∀ (names : List Str) (s : St) (acc : List (Option Str)),
    (hdrD norm cont c names s acc).1.length = acc.length + names.length
  | [], s, acc => by simp [hdrD]
  | nm :: ns, s, acc => by
    simp only [hdrD]
    split <;> rw [hdrD_length norm cont c ns] <;> simp <;> omega

-- ---- packets over slots ------------------------------------------------------------------------------------------------------------

theorem itemStepD_atb (p : Prog) (slot : Option Str) (r : Int) (v : V) (s : St) (t : List Tok) (b : Bool) :
    itemStepD p slot r v (atb s t b) = ((itemStepD p slot r v s).1, atb (itemStepD p slot r v s).2 t b) := by
  cases slot with
  | none => rfl
  | some nm => exact itemStep_atb p nm r v s t b

/-- the values of one packet from column `col` on; a dropped column has no item handler -/
def xRowD (p : Prog) (slots : List (Option Str)) : Nat → List V → St → Int × St
  | _, [], s => (OK, s)
  | col, v :: vs, s =>
    if (itemStepD p (slots.getD col none) OK v s).1 = OK then xRowD p slots (col + 1) vs (itemStepD p (slots.getD col none) OK v s).2
    else itemStepD p (slots.getD col none) OK v s

/-- the values of the retained columns, from column `col` on -/
def keptD (slots : List (Option Str)) : Nat → List V → List V
  | _, [] => []
  | col, v :: vs => (if (slots.getD col none).isSome then [v] else []) ++ keptD slots (col + 1) vs

def xPkD (p : Prog) (slots : List (Option Str)) (col : Nat) (row cur : List V) (s : St) : Int × St × Bool :=
  let ps := if col = 0 then pktStartStep p s else (OK, s)
  if ps.1 ≠ OK then (ps.1, ps.2, false) else
  let rw := xRowD p slots col cur ps.2
  if rw.1 ≠ OK then (rw.1, rw.2, false) else
  let pe := pktEndStep p (List.zip (slots.filterMap id) (row ++ keptD slots col cur)) rw.2
  (pe.1, pe.2.1, pe.2.2)

def xPacketsD (p : Prog) (loopH : Bool) (slots : List (Option Str)) : List (List V) → St → List (List V) → Int × St × List (List V)
  | [], s, acc => (OK, s, acc)
  | pk :: pks, s, acc =>
    if (xPkD p slots 0 [] pk s).1 ≠ OK then ((xPkD p slots 0 [] pk s).1, (xPkD p slots 0 [] pk s).2.1, acc)
    else xPacketsD p loopH slots pks (xPkD p slots 0 [] pk s).2.1
      (if (xPkD p slots 0 [] pk s).2.2 && loopH then acc ++ [keptD slots 0 pk] else acc)

theorem xPkD_step (p : Prog) (slots : List (Option Str)) (col : Nat) (row : List V) (v : V) (vs : List V) (s : St)
    (hps : (if col = 0 then pktStartStep p s else (OK, s)).1 = OK)
    (hit : (itemStepD p (slots.getD col none) OK v (if col = 0 then pktStartStep p s else (OK, s)).2).1 = OK) :
    xPkD p slots col row (v :: vs) s
      = (let s2 := (itemStepD p (slots.getD col none) OK v (if col = 0 then pktStartStep p s else (OK, s)).2).2
         let rw := xRowD p slots (col + 1) vs s2
         if rw.1 ≠ OK then (rw.1, rw.2, false) else
         let pe := pktEndStep p (List.zip (slots.filterMap id)
           ((if (slots.getD col none).isSome then row ++ [v] else row) ++ keptD slots (col + 1) vs)) rw.2
         (pe.1, pe.2.1, pe.2.2)) := by
  unfold xPkD
  simp only [hps, ne_eq, not_true_eq_false, if_false, xRowD, hit, if_true, keptD]
  by_cases hs : (slots.getD col none).isSome = true
  · simp only [hs, if_true, List.append_assoc, List.singleton_append]
  · simp only [hs, Bool.false_eq_true, if_false, List.nil_append]

theorem row_xD (p : Prog) (loopH : Bool) (slots : List (Option Str)) :
    ∀ (cur : List V) (X : List Tok) (s : St) (b : Bool) (k : PkSt) (fuel : Nat),
      cur ≠ [] → k.col + cur.length = slots.length → (∀ v ∈ cur, wfV v = true ∧ szV v ≤ fuel) →
      ((xPkD p slots k.col k.row cur s).1 = OK →
        packetsLoopD p loopH slots (fuel + cur.length) (atb s (valuesToks cur ++ X) b) k
          = packetsLoopD p loopH slots fuel (atb (xPkD p slots k.col k.row cur s).2.1 X false)
              { col := 0, row := [], havePk := true,
                stored := if (xPkD p slots k.col k.row cur s).2.2 && loopH then k.stored ++ [k.row ++ keptD slots k.col cur] else k.stored })
      ∧ ((xPkD p slots k.col k.row cur s).1 ≠ OK →
        ∃ t' b' k', packetsLoopD p loopH slots (fuel + cur.length) (atb s (valuesToks cur ++ X) b) k
          = ((xPkD p slots k.col k.row cur s).1, atb (xPkD p slots k.col k.row cur s).2.1 t' b', k') ∧ k'.stored = k.stored)
  | [], _, _, _, _, _, h, _, _ => absurd rfl h
  | v :: vs, X, s, b, k, fuel, _, hlen, hv => by
    have hvv := hv v (List.mem_cons_self ..)
    obtain ⟨h1, h2⟩ := nextToken_value v (valuesToks vs ++ X) s b
    have hs1 : (if k.col = 0 then pktStartStep p (atb s (valueToks v ++ (valuesToks vs ++ X)) true)
          else (OK, atb s (valueToks v ++ (valuesToks vs ++ X)) true))
        = ((if k.col = 0 then pktStartStep p s else (OK, s)).1,
           atb (if k.col = 0 then pktStartStep p s else (OK, s)).2 (valueToks v ++ (valuesToks vs ++ X)) true) := by
      by_cases hc : k.col = 0
      · simp only [hc, if_true, pktStart_atb]
      · simp only [hc, if_false]
    rw [show fuel + (v :: vs).length = (fuel + vs.length) + 1 by simp; omega]
    simp only [packetsLoopD, valuesToks, List.append_assoc, h1, h2, if_true, hs1]
    by_cases hps : (if k.col = 0 then pktStartStep p s else (OK, s)).1 = OK
    · simp only [hps, ne_eq, not_true_eq_false, if_false,
        value_mirror v (valuesToks vs ++ X) _ true (fuel + vs.length) hvv.1 (by omega), itemStepD_atb]
      by_cases hit : (itemStepD p (slots.getD k.col none) OK v (if k.col = 0 then pktStartStep p s else (OK, s)).2).1 = OK
      · rw [xPkD_step p slots k.col k.row v vs s hps hit]
        simp only [hit, ne_eq, not_true_eq_false, if_false]
        cases vs with
        | nil =>
          have hcol : (k.col + 1) % slots.length = 0 := by
            simp only [List.length_cons, List.length_nil] at hlen
            rw [hlen]; exact Nat.mod_self _
          simp only [hcol, if_true, pktEnd_atb, valuesToks, List.nil_append, List.length_nil, Nat.add_zero, xRowD,
            ne_eq, not_true_eq_false, if_false, List.append_nil, keptD]
          by_cases hpe : (pktEndStep p (List.zip (slots.filterMap id) (if (slots.getD k.col none).isSome then k.row ++ [v] else k.row))
              (itemStepD p (slots.getD k.col none) OK v (if k.col = 0 then pktStartStep p s else (OK, s)).2).2).1 = OK
          · simp only [hpe, ne_eq, not_true_eq_false, if_false]
            refine ⟨fun _ => ?_, fun h => h.elim⟩
            by_cases hs : (slots[k.col]?.getD none).isSome = true <;> simp [hs]
          · simp only [hpe, ne_eq, not_false_eq_true, if_true]
            exact ⟨fun h => h.elim, fun _ => ⟨_, _, _, rfl, rfl⟩⟩
        | cons v' vs' =>
          have hlt : k.col + 1 < slots.length := by simp only [List.length_cons] at hlen; omega
          have hcol : (k.col + 1) % slots.length = k.col + 1 := Nat.mod_eq_of_lt hlt
          have hne : ¬ (k.col + 1 = 0) := by omega
          simp only [hcol, hne, if_false]
          have ih := row_xD p loopH slots (v' :: vs') X
            (itemStepD p (slots.getD k.col none) OK v (if k.col = 0 then pktStartStep p s else (OK, s)).2).2 false
            { k with col := k.col + 1, row := if (slots.getD k.col none).isSome then k.row ++ [v] else k.row } fuel (by simp)
            (by simp only [List.length_cons] at hlen ⊢; omega)
            (fun w hw => hv w (List.mem_cons_of_mem _ hw))
          unfold xPkD at ih
          simp only [hne, if_false, ne_eq, not_true_eq_false] at ih
          have hk : k.row ++ keptD slots k.col (v :: v' :: vs')
              = (if (slots.getD k.col none).isSome then k.row ++ [v] else k.row) ++ keptD slots (k.col + 1) (v' :: vs') := by
            simp only [keptD]
            by_cases hs : (slots.getD k.col none).isSome = true
            · simp only [hs, if_true, List.append_assoc]
            · simp only [hs, Bool.false_eq_true, if_false, List.nil_append]
          rw [hk]
          exact ih
      · have hx : xPkD p slots k.col k.row (v :: vs) s
            = ((itemStepD p (slots.getD k.col none) OK v (if k.col = 0 then pktStartStep p s else (OK, s)).2).1,
               (itemStepD p (slots.getD k.col none) OK v (if k.col = 0 then pktStartStep p s else (OK, s)).2).2, false) := by
          unfold xPkD
          simp only [hps, ne_eq, not_true_eq_false, if_false, xRowD, hit, not_false_eq_true, if_true]
        rw [hx]
        simp only [hit, ne_eq, not_false_eq_true, if_true]
        exact ⟨fun h => h.elim, fun _ => ⟨_, _, _, rfl, rfl⟩⟩
    · have hx : xPkD p slots k.col k.row (v :: vs) s
          = ((if k.col = 0 then pktStartStep p s else (OK, s)).1, (if k.col = 0 then pktStartStep p s else (OK, s)).2, false) := by
        unfold xPkD
        simp only [hps, ne_eq, not_false_eq_true, if_true]
      rw [hx]
      simp only [hps, ne_eq, not_false_eq_true, if_true]
      exact ⟨fun h => h.elim, fun _ => ⟨_, _, _, rfl, rfl⟩⟩

/-- the packets of a loop body over slots, up to the token that ends it — or up to the handler that stopped the parse -/
theorem packets_xD (p : Prog) (loopH : Bool) (slots : List (Option Str)) (F : Nat) :
    ∀ (pks : List (List V)) (t : Tok) (rest : List Tok) (s : St) (b : Bool) (h : Bool) (acc : List (List V)),
      t.pre = [] → isStopper t.ty = true → (h = true ∨ pks ≠ []) →
      (∀ pk ∈ pks, pk ≠ [] ∧ pk.length = slots.length ∧ ∀ v ∈ pk, wfV v = true ∧ szV v ≤ F) →
      ((xPacketsD p loopH slots pks s acc).1 = OK →
        packetsLoopD p loopH slots (F + totLen pks + 1) (atb s ((pks.map valuesToks).flatten ++ t :: rest) b)
            { col := 0, row := [], havePk := h, stored := acc }
          = (OK, atb (xPacketsD p loopH slots pks s acc).2.1 (t :: rest) true,
             { col := 0, row := [], havePk := true, stored := (xPacketsD p loopH slots pks s acc).2.2 }))
      ∧ ((xPacketsD p loopH slots pks s acc).1 ≠ OK →
        ∃ t' b' k', packetsLoopD p loopH slots (F + totLen pks + 1) (atb s ((pks.map valuesToks).flatten ++ t :: rest) b)
            { col := 0, row := [], havePk := h, stored := acc }
          = ((xPacketsD p loopH slots pks s acc).1, atb (xPacketsD p loopH slots pks s acc).2.1 t' b', k')
          ∧ k'.stored = (xPacketsD p loopH slots pks s acc).2.2)
  | [], t, rest, s, b, h, acc, hpre, hst, hh, _ => by
    have hh' : h = true := by rcases hh with h1 | h1; exact h1; exact absurd rfl h1
    have hv : isValueStart t.ty = false := by cases ht : t.ty <;> simp_all [isStopper, isValueStart]
    have hc : ¬ (t.ty = .clist ∨ t.ty = .ctable) := by cases ht : t.ty <;> simp_all [isStopper]
    refine ⟨fun _ => ?_, fun hno => absurd rfl hno⟩
    simp only [totLen, List.map_nil, List.sum_nil, Nat.add_zero, List.flatten_nil, List.nil_append, packetsLoopD,
      nextToken_atb s t rest b hpre, hv, Bool.false_eq_true, if_false, hc, ne_eq, not_true_eq_false, hh',
      Bool.not_true, xPacketsD]
  | pk :: pks, t, rest, s, b, h, acc, hpre, hst, _, hall => by
    obtain ⟨hne, hlen, hvals⟩ := hall pk (List.mem_cons_self ..)
    have hfuel : F + totLen (pk :: pks) + 1 = (F + totLen pks + 1) + pk.length := by
      simp [totLen]; omega
    rw [hfuel]
    simp only [List.map_cons, List.flatten_cons, List.append_assoc]
    obtain ⟨r1, r2⟩ := row_xD p loopH slots pk ((pks.map valuesToks).flatten ++ t :: rest) s b
      { col := 0, row := [], havePk := h, stored := acc } (F + totLen pks + 1) hne
      (by simpa using hlen) (fun v hv => ⟨(hvals v hv).1, by have := (hvals v hv).2; omega⟩)
    simp only [List.nil_append] at r1 r2
    by_cases hok : (xPkD p slots 0 [] pk s).1 = OK
    · rw [r1 hok]
      simp only [xPacketsD, hok, ne_eq, not_true_eq_false, if_false]
      exact packets_xD p loopH slots F pks t rest _ false true _ hpre hst (Or.inl rfl)
        (fun q hq => hall q (List.mem_cons_of_mem _ hq))
    · obtain ⟨t', b', k', e1, e2⟩ := r2 hok
      simp only [xPacketsD, hok, ne_eq, not_false_eq_true, if_true]
      exact ⟨fun h => h.elim, fun _ => ⟨t', b', k', e1, e2⟩⟩

/-- parse_loop on the document tree, with the duplicate check of the header; `c` = what the container holds -/
def xLoopD (p : Prog) (norm : Str → Str) (cont : Bool) (c : Content) (names : List Str) (pks : List (List V)) (s : St) :
    Int × St × Option Loop :=
  let hd := hdrD norm cont c names (inc s) []
  let kept := hd.1.filterMap id
  if kept.isEmpty then
    let e := loopEndStep p none MALFORMED hd.2; (e.1, e.2, none)             -- every name dropped: outside
  else
    let ls := loopStartStep p cont kept hd.2
    if ls.2.2.2 then
      let pk := xPacketsD p ls.2.2.1 hd.1 pks ls.2.1 []
      let e := loopEndStep p (if ls.2.2.1 then some kept else none) pk.1 pk.2.1
      (e.1, e.2, if ls.2.2.1 then some { category := none, names := kept, packets := pk.2.2 } else none)
    else
      let e := loopEndStep p (if ls.2.2.1 then some kept else none) ls.1 ls.2.1
      (e.1, e.2, if ls.2.2.1 then some { category := none, names := kept, packets := [] } else none)

/-- a loop (after its `loop_` keyword), header duplicates included -/
theorem loop_xD (p : Prog) (norm : Str → Str) (cont : Bool) (c : Content) (names : List Str) (pks : List (List V)) (F : Nat)
    (t : Tok) (rest : List Tok) (s : St) (b : Bool) (fuel : Nat)
    (hpre : t.pre = []) (hst : isStopper t.ty = true) (hn : names ≠ []) (hpk : pks ≠ [])
    (hall : ∀ pk ∈ pks, pk ≠ [] ∧ pk.length = names.length ∧ ∀ v ∈ pk, wfV v = true ∧ szV v ≤ F)
    (hf1 : names.length + 1 ≤ fuel) (hf2 : F + totLen pks + 1 ≤ fuel) :
    ∃ t' b', parseLoopD p norm fuel cont c (atb s (names.map (fun n => plain .name n) ++ ((pks.map valuesToks).flatten ++ t :: rest)) b)
        = ((xLoopD p norm cont c names pks s).1, atb (xLoopD p norm cont c names pks s).2.1 t' b', (xLoopD p norm cont c names pks s).2.2)
      ∧ ((xLoopD p norm cont c names pks s).1 = OK → t' = t :: rest ∧ b' = true) := by
  obtain ⟨tv, tvs, hbody, htvpre, htvty⟩ := body_head pks (t :: rest) (fun pk h => (hall pk h).1) hpk
  unfold parseLoopD xLoopD
  simp only [inc_atb, hbody]
  rw [headerD_x norm cont c names [] tv tvs (inc s) b fuel htvpre htvty hf1]
  simp only [ne_eq, not_true_eq_false, if_false]
  have hslen : (hdrD norm cont c names (inc s) []).1.length = names.length := by
    rw [hdrD_length]; simp
  by_cases hemp : ((hdrD norm cont c names (inc s) []).1.filterMap id).isEmpty = true
  · simp only [hemp, if_true, loopEnd_atb]
    refine ⟨_, _, rfl, fun h => ?_⟩
    have h1 := loopEnd_ok_inv p _ _ _ h
    exact absurd h1 (by decide)
  · simp only [hemp, Bool.false_eq_true, if_false, loopStart_atb]
    by_cases hbodyP : (loopStartStep p cont ((hdrD norm cont c names (inc s) []).1.filterMap id)
        (hdrD norm cont c names (inc s) []).2).2.2.2 = true
    · simp only [hbodyP, if_true]
      rw [← hbody]
      have hfuel : fuel = (fuel - totLen pks - 1) + totLen pks + 1 := by omega
      obtain ⟨q1, q2⟩ := packets_xD p (loopStartStep p cont ((hdrD norm cont c names (inc s) []).1.filterMap id)
          (hdrD norm cont c names (inc s) []).2).2.2.1 (hdrD norm cont c names (inc s) []).1 (fuel - totLen pks - 1) pks t rest
        (loopStartStep p cont ((hdrD norm cont c names (inc s) []).1.filterMap id) (hdrD norm cont c names (inc s) []).2).2.1
        true false [] hpre hst (Or.inr hpk)
        (fun pk h => ⟨(hall pk h).1, by rw [hslen]; exact (hall pk h).2.1, fun v hv => ⟨((hall pk h).2.2 v hv).1, by
          have := ((hall pk h).2.2 v hv).2; omega⟩⟩)
      rw [← hfuel] at q1 q2
      by_cases hok : (xPacketsD p (loopStartStep p cont ((hdrD norm cont c names (inc s) []).1.filterMap id)
          (hdrD norm cont c names (inc s) []).2).2.2.1 (hdrD norm cont c names (inc s) []).1 pks
          (loopStartStep p cont ((hdrD norm cont c names (inc s) []).1.filterMap id) (hdrD norm cont c names (inc s) []).2).2.1 []).1 = OK
      · rw [q1 hok]
        simp only [loopEnd_atb, hok]
        exact ⟨_, _, rfl, fun _ => ⟨rfl, rfl⟩⟩
      · obtain ⟨t', b', k', e1, e2⟩ := q2 hok
        rw [e1]
        simp only [loopEnd_atb, e2]
        refine ⟨t', b', rfl, fun h => ?_⟩
        exact absurd (loopEnd_ok_inv p _ _ _ h) hok
    · simp only [hbodyP, Bool.false_eq_true, if_false, loopEnd_atb]
      refine ⟨_, _, rfl, fun h => ?_⟩
      have h1 := loopEnd_ok_inv p _ _ _ h
      unfold loopStartStep at hbodyP h1
      by_cases hsk : (hdrD norm cont c names (inc s) []).2.skip ≤ 0
      · simp only [hsk, if_true] at hbodyP h1
        simp [h1] at hbodyP
      · simp only [hsk, if_false] at hbodyP
        exact (hbodyP trivial).elim

-- ---- containers ----------------------------------------------------------------------------------------------------------------

mutual
  /-- one element of a container body on the document tree, with the duplicate checks against the content `c` of the container -/
  def xElemD (p : Prog) (norm : Str → Str) (cont : Bool) : Elem → St → Content → Int × St × Content
    | .item nm v, s, c =>
      if s.skip > 0 then (OK, dec (inc s), c)
      else if cont && hasName norm c nm then
        -- CIF_DUP_ITEMNAME: data-name callback, error callback, the value is parsed without item handler, nothing stored
        (OK, dec (inc (report (note s (.dataname nm)) CIF_DUP_ITEMNAME)), c)
      else
        let it := scalarItemStep p cont nm v (inc (note s (.dataname nm)))
        (it.1, dec it.2.1, match it.2.2 with | some (n, w) => c.setScalar n w | none => c)
    | .loop names pks, s, c =>
      let lp := xLoopD p norm cont c names pks (if s.skip ≤ 0 then note s (.keyword []) else s)
      (lp.1, lp.2.1, match lp.2.2 with | some l => c.addLoop l | none => c)
    | .frame code body, s, c =>
      if !cont ∨ s.skip > 0 then
        let st := contStartStep p false false code s
        let ce := if st.1 ≠ OK then containerEnd p false false code st.1 st.2 .empty
          else containerEnd p false false code (xElemsD p norm false body st.2 .empty).1 (xElemsD p norm false body st.2 .empty).2.1
            (xElemsD p norm false body st.2 .empty).2.2
        (ce.1, ce.2.1, c)
      else
        match findC norm c.frames code with
        | some old =>
          -- CIF_DUP_FRAMECODE: error callback, the existing frame is reopened
          let st := contStartStep p true false old.code (report s CIF_DUP_FRAMECODE)
          let ce := if st.1 ≠ OK then containerEnd p true false old.code st.1 st.2 ⟨old.frames, old.loops⟩
            else containerEnd p true false old.code (xElemsD p norm true body st.2 ⟨old.frames, old.loops⟩).1
              (xElemsD p norm true body st.2 ⟨old.frames, old.loops⟩).2.1 (xElemsD p norm true body st.2 ⟨old.frames, old.loops⟩).2.2
          (ce.1, ce.2.1, { c with frames := replaceC norm c.frames code (.mk old.code ce.2.2.frames ce.2.2.loops) })
        | none =>
          let st := contStartStep p true false code s
          let ce := if st.1 ≠ OK then containerEnd p true false code st.1 st.2 .empty
            else containerEnd p true false code (xElemsD p norm true body st.2 .empty).1 (xElemsD p norm true body st.2 .empty).2.1
              (xElemsD p norm true body st.2 .empty).2.2
          (ce.1, ce.2.1, c.addFrame (.mk code ce.2.2.frames ce.2.2.loops))
  def xElemsD (p : Prog) (norm : Str → Str) (cont : Bool) : List Elem → St → Content → Int × St × Content
    | [], s, c => (OK, s, c)
    | e :: es, s, c =>
      if (xElemD p norm cont e s c).1 = OK then xElemsD p norm cont es (xElemD p norm cont e s c).2.1 (xElemD p norm cont e s c).2.2
      else xElemD p norm cont e s c
end

/-- parse_container on a container body, into a container holding `c0` -/
def xContD (p : Prog) (norm : Str → Str) (fc isBlock : Bool) (code : Str) (body : List Elem) (s : St) (c0 : Content) :
    Int × St × Content :=
  let st := contStartStep p fc isBlock code s
  if st.1 ≠ OK then containerEnd p fc isBlock code st.1 st.2 c0
  else containerEnd p fc isBlock code (xElemsD p norm fc body st.2 c0).1 (xElemsD p norm fc body st.2 c0).2.1
    (xElemsD p norm fc body st.2 c0).2.2

theorem xElemD_frame (p : Prog) (norm : Str → Str) (cont : Bool) (code : Str) (body : List Elem) (s : St) (c : Content) :
    xElemD p norm cont (.frame code body) s c
      = (if !cont ∨ s.skip > 0 then
           ((xContD p norm false false code body s .empty).1, (xContD p norm false false code body s .empty).2.1, c)
         else match findC norm c.frames code with
           | some old =>
             ((xContD p norm true false old.code body (report s CIF_DUP_FRAMECODE) ⟨old.frames, old.loops⟩).1,
              (xContD p norm true false old.code body (report s CIF_DUP_FRAMECODE) ⟨old.frames, old.loops⟩).2.1,
              { c with frames := replaceC norm c.frames code (.mk old.code
                  (xContD p norm true false old.code body (report s CIF_DUP_FRAMECODE) ⟨old.frames, old.loops⟩).2.2.frames
                  (xContD p norm true false old.code body (report s CIF_DUP_FRAMECODE) ⟨old.frames, old.loops⟩).2.2.loops) })
           | none =>
             ((xContD p norm true false code body s .empty).1, (xContD p norm true false code body s .empty).2.1,
              c.addFrame (.mk code (xContD p norm true false code body s .empty).2.2.frames
                (xContD p norm true false code body s .empty).2.2.loops))) := by
  simp only [xElemD, xContD]

def xBlocksD (p : Prog) (norm : Str → Str) (cif : Bool) : List Block → St → List Container → Int × St × List Container
  | [], s, acc => (OK, s, acc)
  | b :: bs, s, acc =>
    if cif && decide (s.skip ≤ 0) then
      match findC norm acc b.code with
      | some old =>
        let ce := xContD p norm true true old.code b.body (report s CIF_DUP_BLOCKCODE) ⟨old.frames, old.loops⟩
        let acc1 := replaceC norm acc b.code (.mk old.code ce.2.2.frames ce.2.2.loops)
        if ce.1 = OK then xBlocksD p norm cif bs ce.2.1 acc1 else (ce.1, ce.2.1, acc1)
      | none =>
        let ce := xContD p norm true true b.code b.body s .empty
        let acc1 := acc ++ [.mk b.code ce.2.2.frames ce.2.2.loops]
        if ce.1 = OK then xBlocksD p norm cif bs ce.2.1 acc1 else (ce.1, ce.2.1, acc1)
    else
      let ce := xContD p norm false true b.code b.body s .empty
      if ce.1 = OK then xBlocksD p norm cif bs ce.2.1 acc else (ce.1, ce.2.1, acc)

/-- parse_cif over the document, with the duplicate diagnostics -/
def xDocD (p : Prog) (norm : Str → Str) (cif : Bool) (d : Doc) (s : St) : Int × St × List Container :=
  if p s.n (.cifStart cif) = END then (OK, push s (.cifStart cif), []) else
  let st := site p s (.cifStart cif) (some 1) (some 1)
  if st.1 = OK then
    let b := xBlocksD p norm cif d st.2 []
    ((cifEndStep p cif b.1 b.2.1).1, (cifEndStep p cif b.1 b.2.1).2, b.2.2)
  else ((cifEndStep p cif st.1 st.2).1, (cifEndStep p cif st.1 st.2).2, [])

/-- one iteration of the element loop: a scalar item (skipped, duplicate or new) -/
theorem stepD_item_x (p : Prog) (norm : Str → Str) (m : Int) (f : Nat) (cont isBlock : Bool) (nm : Str) (v : V) (Y : List Tok)
    (s : St) (b : Bool) (c : Content) (hw : wfV v = true) (hf : szV v ≤ f) :
    elemsLoopD p norm m (f + 1) cont isBlock (atb s (plain .name nm :: (valueToks v ++ Y)) b) c
      = (if (xElemD p norm cont (.item nm v) s c).1 = OK then
           elemsLoopD p norm m f cont isBlock (atb (xElemD p norm cont (.item nm v) s c).2.1 Y false) (xElemD p norm cont (.item nm v) s c).2.2
         else ((xElemD p norm cont (.item nm v) s c).1, atb (xElemD p norm cont (.item nm v) s c).2.1 Y false,
               (xElemD p norm cont (.item nm v) s c).2.2)) := by
  simp only [elemsLoopD, nextToken_atb s (plain .name nm) _ b rfl, plain_ty, atb_skip, cur_atb, plain_text, xElemD]
  by_cases h : s.skip > 0
  · simp only [h, if_true, consume_atb, item_doc_skip p f cont v Y s false hw hf]
  · simp only [h, if_false]
    by_cases hd : (cont && hasName norm c nm) = true
    · simp only [hd, if_true, note_atb, consume_atb, report_atb, item_doc_skip p f cont v Y _ false hw hf]
    · simp only [hd, Bool.false_eq_true, if_false, note_atb, consume_atb, item_doc_named p f cont nm v Y _ false hw hf]
      rfl

/-- one iteration of the element loop: a loop -/
theorem stepD_loop_x (p : Prog) (norm : Str → Str) (m : Int) (f : Nat) (cont isBlock : Bool) (names : List Str)
    (pks : List (List V)) (F : Nat) (t : Tok) (rest : List Tok) (s : St) (b : Bool) (c : Content)
    (hpre : t.pre = []) (hst : isStopper t.ty = true) (hn : names ≠ []) (hpk : pks ≠ [])
    (hall : ∀ pk ∈ pks, pk ≠ [] ∧ pk.length = names.length ∧ ∀ v ∈ pk, wfV v = true ∧ szV v ≤ F)
    (hf1 : names.length + 1 ≤ f) (hf2 : F + totLen pks + 1 ≤ f) :
    ∃ t' b', elemsLoopD p norm m (f + 1) cont isBlock
        (atb s (plain .loopKw [] :: (names.map (fun n => plain .name n) ++ ((pks.map valuesToks).flatten ++ t :: rest))) b) c
      = (if (xElemD p norm cont (.loop names pks) s c).1 = OK then
           elemsLoopD p norm m f cont isBlock (atb (xElemD p norm cont (.loop names pks) s c).2.1 (t :: rest) true)
             (xElemD p norm cont (.loop names pks) s c).2.2
         else ((xElemD p norm cont (.loop names pks) s c).1, atb (xElemD p norm cont (.loop names pks) s c).2.1 t' b',
               (xElemD p norm cont (.loop names pks) s c).2.2)) := by
  simp only [elemsLoopD, nextToken_atb s (plain .loopKw []) _ b rfl, plain_ty, atb_skip, cur_atb, plain_text, xElemD]
  have hnote : (if s.skip ≤ 0 then note (atb s (plain .loopKw [] :: (names.map (fun n => plain .name n) ++
        ((pks.map valuesToks).flatten ++ t :: rest))) true) (Ev.keyword []) else
        atb s (plain .loopKw [] :: (names.map (fun n => plain .name n) ++ ((pks.map valuesToks).flatten ++ t :: rest))) true)
      = atb (if s.skip ≤ 0 then note s (Ev.keyword []) else s)
          (plain .loopKw [] :: (names.map (fun n => plain .name n) ++ ((pks.map valuesToks).flatten ++ t :: rest))) true := by
    by_cases h : s.skip ≤ 0 <;> simp only [h, if_true, if_false, note_atb]
  obtain ⟨t', b', e1, e2⟩ := loop_xD p norm cont c names pks F t rest (if s.skip ≤ 0 then note s (Ev.keyword []) else s) false f hpre hst
    hn hpk hall hf1 hf2
  simp only [hnote, consume_atb, e1]
  refine ⟨t', b', ?_⟩
  by_cases hok : (xLoopD p norm cont c names pks (if s.skip ≤ 0 then note s (Ev.keyword []) else s)).1 = OK
  · obtain ⟨rfl, rfl⟩ := e2 hok
    simp only [hok, if_true]
    rfl
  · simp only [hok, if_false]
    rfl

def StepFrameXD (p : Prog) (norm : Str → Str) (cont : Bool) : Prop :=
  ∀ (code : Str) (body : List Elem) (Y : List Tok) (s : St) (b : Bool) (c : Content) (f : Nat),
    wfElems false body = true → szElems body + 2 ≤ f →
    ∃ t' b', elemsLoopD p norm 1 (f + 1) cont true (atb s (plain .frameHead code :: (elemsToks body ++ plain .frameTerm [] :: Y)) b) c
      = (if (xElemD p norm cont (.frame code body) s c).1 = OK then
           elemsLoopD p norm 1 f cont true (atb (xElemD p norm cont (.frame code body) s c).2.1 Y false)
             (xElemD p norm cont (.frame code body) s c).2.2
         else ((xElemD p norm cont (.frame code body) s c).1, atb (xElemD p norm cont (.frame code body) s c).2.1 t' b',
               (xElemD p norm cont (.frame code body) s c).2.2))

/-- the body of a container, up to the token that ends it or to the handler that stopped the parse -/
theorem elemsD_x (p : Prog) (norm : Str → Str) (cont isBlock : Bool) (hframe : isBlock = true → StepFrameXD p norm cont) :
    ∀ (es : List Elem) (t : Tok) (rest : List Tok) (s : St) (b : Bool) (c : Content) (fuel : Nat),
      wfElems isBlock es = true → t.pre = [] → termOK isBlock t.ty → szElems es + 1 ≤ fuel →
      ∃ t' b', elemsLoopD p norm 1 fuel cont isBlock (atb s (elemsToks es ++ t :: rest) b) c
          = ((xElemsD p norm cont es s c).1, atb (xElemsD p norm cont es s c).2.1 t' b', (xElemsD p norm cont es s c).2.2)
        ∧ ((xElemsD p norm cont es s c).1 = OK →
            atb (xElemsD p norm cont es s c).2.1 t' b' = endState isBlock (xElemsD p norm cont es s c).2.1 t rest)
  | [], t, rest, s, b, c, fuel, _, hpre, hterm, hf => by
    obtain ⟨f, rfl⟩ : ∃ f, fuel = f + 1 := ⟨fuel - 1, by omega⟩
    simp only [elemsToks, List.nil_append, elemsLoopD, nextToken_atb s t rest b hpre, xElemsD]
    unfold termOK at hterm
    cases isBlock with
    | true =>
      simp only [if_true] at hterm
      refine ⟨t :: rest, true, ?_, fun _ => by simp [endState]⟩
      rcases hterm with h | h <;> simp [h]
    | false =>
      simp only [Bool.false_eq_true, if_false] at hterm
      exact ⟨rest, false, by simp [hterm, consume_atb], fun _ => by simp [endState]⟩
  | e :: es, t, rest, s, b, c, fuel, hw, hpre, hterm, hf => by
    obtain ⟨f, rfl⟩ : ∃ f, fuel = f + 1 := ⟨fuel - 1, by omega⟩
    simp only [wfElems, Bool.and_eq_true] at hw
    simp only [szElems] at hf
    have hstT : isStopper t.ty = true := by
      unfold termOK at hterm
      cases isBlock <;> simp at hterm
      · simp [hterm, isStopper]
      · rcases hterm with h | h <;> simp [h, isStopper]
    have ih := elemsD_x p norm cont isBlock hframe es t rest
    have key : ∃ Y bY t1 b1, elemsLoopD p norm 1 (f + 1) cont isBlock (atb s (elemsToks (e :: es) ++ t :: rest) b) c
        = (if (xElemD p norm cont e s c).1 = OK then
             elemsLoopD p norm 1 f cont isBlock (atb (xElemD p norm cont e s c).2.1 Y bY) (xElemD p norm cont e s c).2.2
           else ((xElemD p norm cont e s c).1, atb (xElemD p norm cont e s c).2.1 t1 b1, (xElemD p norm cont e s c).2.2))
        ∧ Y = elemsToks es ++ t :: rest := by
      cases e with
      | item n v =>
        simp only [szElem] at hf
        refine ⟨_, false, elemsToks es ++ t :: rest, false, ?_, rfl⟩
        simp only [elemsToks, elemToks_item, List.cons_append, List.append_assoc]
        exact stepD_item_x p norm 1 f cont isBlock n v _ s b c (by simpa [wfElem] using hw.1) (by omega)
      | loop ns pks =>
        simp only [szElem] at hf
        obtain ⟨hn, hpk, hall⟩ := loop_wf_all ns pks hw.1
        obtain ⟨th, tl, hhead, hthpre, hthst⟩ := elems_head es t rest hpre hstT
        obtain ⟨t1, b1, e1⟩ := stepD_loop_x p norm 1 f cont isBlock ns pks (sumSz pks) th tl s b c hthpre hthst hn hpk hall
          (by omega) (by omega)
        refine ⟨_, true, t1, b1, ?_, rfl⟩
        simp only [elemsToks, elemToks_loop, List.cons_append, List.append_assoc, hhead]
        exact e1
      | frame code body =>
        simp only [szElem] at hf
        have hb : isBlock = true ∧ wfElems false body = true := by
          simpa [wfElem] using hw.1
        obtain ⟨hb1, hb2⟩ := hb
        subst hb1
        obtain ⟨t1, b1, e1⟩ := hframe rfl code body (elemsToks es ++ t :: rest) s b c f hb2 (by omega)
        refine ⟨_, false, t1, b1, ?_, rfl⟩
        simp only [elemsToks, elemToks_frame, List.cons_append, List.append_assoc, List.singleton_append]
        exact e1
    obtain ⟨Y, bY, t1, b1, hkey, rfl⟩ := key
    rw [hkey]
    simp only [xElemsD]
    by_cases hok : (xElemD p norm cont e s c).1 = OK
    · simp only [hok, if_true]
      have hsz : szElems es + 1 ≤ f := by
        cases e <;> simp only [szElem] at hf <;> omega
      exact ih _ bY _ f hw.2 hpre hterm hsz
    · simp only [hok, if_false]
      exact ⟨t1, b1, rfl, fun h => h.elim⟩

/-- a save frame after its `save_<code>` token, into a frame holding `c0` -/
theorem frameD_x (p : Prog) (norm : Str → Str) (fc : Bool) (code : Str) (body : List Elem) (Y : List Tok) (s : St) (b : Bool)
    (c0 : Content) (f : Nat) (hw : wfElems false body = true) (hf : szElems body + 1 ≤ f) :
    ∃ t' b', parseContainerD p norm 1 (f + 1) fc false code (atb s (elemsToks body ++ plain .frameTerm [] :: Y) b) c0
        = ((xContD p norm fc false code body s c0).1, atb (xContD p norm fc false code body s c0).2.1 t' b',
           (xContD p norm fc false code body s c0).2.2)
      ∧ ((xContD p norm fc false code body s c0).1 = OK → t' = Y ∧ b' = false) := by
  simp only [parseContainerD, contStart_atb, xContD]
  by_cases hst : (contStartStep p fc false code s).1 = OK
  · simp only [hst, ne_eq, not_true_eq_false, if_false]
    obtain ⟨t', b', e1, e2⟩ := elemsD_x p norm fc false (fun h => nomatch h) body (plain .frameTerm []) Y
      (contStartStep p fc false code s).2 b c0 f hw rfl rfl hf
    rw [e1]
    simp only [containerEnd_atb]
    refine ⟨t', b', rfl, fun h => ?_⟩
    have h1 := containerEnd_ok_inv p _ _ _ _ _ _ h
    have h2 := e2 h1
    simp only [endState, Bool.false_eq_true, if_false] at h2
    exact atb_inj h2
  · simp only [hst, ne_eq, not_false_eq_true, if_true, containerEnd_atb]
    exact ⟨_, _, rfl, fun h => absurd (containerEnd_ok_inv p _ _ _ _ _ _ h) hst⟩

theorem step_frameD_x (p : Prog) (norm : Str → Str) (cont : Bool) : StepFrameXD p norm cont := by
  intro code body Y s b c f hw hf
  simp only [elemsLoopD, nextToken_atb s (plain .frameHead code) _ b rfl, plain_ty, atb_skip, cur_atb, plain_text,
    consume_atb, xElemD_frame]
  obtain ⟨g, rfl⟩ : ∃ g, f = g + 1 := ⟨f - 1, by omega⟩
  by_cases h : ((!cont) = true ∨ s.skip > 0)
  · simp only [h, if_true]
    obtain ⟨t', b', e1, e2⟩ := frameD_x p norm false code body Y s false .empty g hw (by omega)
    rw [e1]
    refine ⟨t', b', ?_⟩
    by_cases hok : (xContD p norm false false code body s .empty).1 = OK
    · obtain ⟨rfl, rfl⟩ := e2 hok
      simp only [hok, if_true]
    · simp only [hok, if_false]
  · have h10 : ¬ ((1 : Int) = 0) := by decide
    simp only [h, if_false, h10, Bool.not_true, Bool.false_eq_true, and_false]
    cases hfind : findC norm c.frames code with
    | some old =>
      simp only [report_atb, consume_atb]
      obtain ⟨t', b', e1, e2⟩ := frameD_x p norm true old.code body Y (report s CIF_DUP_FRAMECODE) false ⟨old.frames, old.loops⟩ g hw (by omega)
      rw [e1]
      refine ⟨t', b', ?_⟩
      by_cases hok : (xContD p norm true false old.code body (report s CIF_DUP_FRAMECODE) ⟨old.frames, old.loops⟩).1 = OK
      · obtain ⟨rfl, rfl⟩ := e2 hok
        simp only [hok, if_true]
      · simp only [hok, if_false]
    | none =>
      obtain ⟨t', b', e1, e2⟩ := frameD_x p norm true code body Y s false .empty g hw (by omega)
      rw [e1]
      refine ⟨t', b', ?_⟩
      by_cases hok : (xContD p norm true false code body s .empty).1 = OK
      · obtain ⟨rfl, rfl⟩ := e2 hok
        simp only [hok, if_true]
      · simp only [hok, if_false]

/-- a data block after its `data_<code>` token, into a block holding `c0` -/
theorem blockD_x (p : Prog) (norm : Str → Str) (bc : Bool) (code : Str) (body : List Elem) (t : Tok) (rest : List Tok) (s : St)
    (b : Bool) (c0 : Content) (f : Nat) (hw : wfElems true body = true) (hpre : t.pre = []) (hterm : t.ty = .blockHead ∨ t.ty = .end_)
    (hf : szElems body + 1 ≤ f) :
    ∃ t' b', parseContainerD p norm 1 (f + 1) bc true code (atb s (elemsToks body ++ t :: rest) b) c0
        = ((xContD p norm bc true code body s c0).1, atb (xContD p norm bc true code body s c0).2.1 t' b',
           (xContD p norm bc true code body s c0).2.2)
      ∧ ((xContD p norm bc true code body s c0).1 = OK → t' = t :: rest ∧ b' = true) := by
  simp only [parseContainerD, contStart_atb, xContD]
  by_cases hst : (contStartStep p bc true code s).1 = OK
  · simp only [hst, ne_eq, not_true_eq_false, if_false]
    obtain ⟨t', b', e1, e2⟩ := elemsD_x p norm bc true (fun _ => step_frameD_x p norm bc) body t rest
      (contStartStep p bc true code s).2 b c0 f hw hpre (by simpa [termOK] using hterm) hf
    rw [e1]
    simp only [containerEnd_atb]
    refine ⟨t', b', rfl, fun h => ?_⟩
    have h1 := containerEnd_ok_inv p _ _ _ _ _ _ h
    have h2 := e2 h1
    simp only [endState, if_true] at h2
    exact atb_inj h2
  · simp only [hst, ne_eq, not_false_eq_true, if_true, containerEnd_atb]
    exact ⟨_, _, rfl, fun h => absurd (containerEnd_ok_inv p _ _ _ _ _ _ h) hst⟩

theorem blocksD_x (p : Prog) (norm : Str → Str) (cif : Bool) : ∀ (d : Doc) (s : St) (b : Bool) (acc : List Container) (fuel : Nat),
    wfDoc d = true → szDoc d + 1 ≤ fuel →
    ∃ t' b', blocksLoopD p norm 1 cif fuel (atb s (blocksToks d ++ [plain .end_ []]) b) acc
      = ((xBlocksD p norm cif d s acc).1, atb (xBlocksD p norm cif d s acc).2.1 t' b', (xBlocksD p norm cif d s acc).2.2)
  | [], s, b, acc, fuel, _, hf => by
    obtain ⟨f, rfl⟩ : ∃ f, fuel = f + 1 := ⟨fuel - 1, by omega⟩
    exact ⟨[plain .end_ []], true, by simp [blocksToks, blocksLoopD, nextToken_atb s (plain .end_ []) [] b rfl, xBlocksD]⟩
  | blk :: bs, s, b, acc, fuel, hw, hf => by
    obtain ⟨f, rfl⟩ : ∃ f, fuel = f + 1 := ⟨fuel - 1, by omega⟩
    simp only [szDoc] at hf
    simp only [wfDoc, List.all_cons, Bool.and_eq_true] at hw
    obtain ⟨t, rest, hhead, hpre, hterm⟩ := blocks_head bs
    have htoks : blocksToks (blk :: bs) ++ [plain .end_ []]
        = plain .blockHead blk.code :: (elemsToks blk.body ++ (t :: rest)) := by
      rw [← hhead]; simp [blocksToks]
    rw [htoks]
    simp only [blocksLoopD, nextToken_atb s (plain .blockHead blk.code) _ b rfl, plain_ty, atb_skip, cur_atb, plain_text,
      consume_atb, xBlocksD]
    obtain ⟨g, rfl⟩ : ∃ g, f = g + 1 := ⟨f - 1, by omega⟩
    have hbs : wfDoc bs = true := by simpa [wfDoc] using hw.2
    by_cases hbc : (cif && decide (s.skip ≤ 0)) = true
    · simp only [hbc, if_true]
      cases hfind : findC norm acc blk.code with
      | some old =>
        simp only [report_atb, consume_atb]
        obtain ⟨t', b', e1, e2⟩ := blockD_x p norm true old.code blk.body t rest (report s CIF_DUP_BLOCKCODE) false
          ⟨old.frames, old.loops⟩ g hw.1 hpre hterm (by omega)
        rw [e1]
        by_cases hok : (xContD p norm true true old.code blk.body (report s CIF_DUP_BLOCKCODE) ⟨old.frames, old.loops⟩).1 = OK
        · obtain ⟨rfl, rfl⟩ := e2 hok
          simp only [hok, if_true]
          rw [← hhead]
          exact blocksD_x p norm cif bs _ true _ (g + 1) hbs (by omega)
        · simp only [hok, if_false]
          exact ⟨t', b', rfl⟩
      | none =>
        obtain ⟨t', b', e1, e2⟩ := blockD_x p norm true blk.code blk.body t rest s false .empty g hw.1 hpre hterm (by omega)
        rw [e1]
        by_cases hok : (xContD p norm true true blk.code blk.body s .empty).1 = OK
        · obtain ⟨rfl, rfl⟩ := e2 hok
          simp only [hok, if_true]
          rw [← hhead]
          exact blocksD_x p norm cif bs _ true _ (g + 1) hbs (by omega)
        · simp only [hok, if_false]
          exact ⟨t', b', rfl⟩
    · simp only [hbc, Bool.false_eq_true, if_false]
      obtain ⟨t', b', e1, e2⟩ := blockD_x p norm false blk.code blk.body t rest s false .empty g hw.1 hpre hterm (by omega)
      rw [e1]
      by_cases hok : (xContD p norm false true blk.code blk.body s .empty).1 = OK
      · obtain ⟨rfl, rfl⟩ := e2 hok
        simp only [hok, if_true]
        rw [← hhead]
        exact blocksD_x p norm cif bs _ true _ (g + 1) hbs (by omega)
      · simp only [hok, if_false]
        exact ⟨t', b', rfl⟩

/-- **the parse with the duplicate diagnostics is the structural interpreter, for EVERY program** -/
theorem docD_x (p : Prog) (norm : Str → Str) (cif : Bool) (d : Doc) (fuel : Nat) (hw : wfDoc d = true) (hf : szDoc d + 1 ≤ fuel) :
    (parseCifD p norm 1 cif fuel (St.init (tokensOf d))).1 = (xDocD p norm cif d (St.init [])).1
    ∧ (parseCifD p norm 1 cif fuel (St.init (tokensOf d))).2.1.log = (xDocD p norm cif d (St.init [])).2.1.log
    ∧ (parseCifD p norm 1 cif fuel (St.init (tokensOf d))).2.2 = (xDocD p norm cif d (St.init [])).2.2 := by
  have hinit : St.init (tokensOf d) = atb (St.init []) (blocksToks d ++ [plain .end_ []]) false := rfl
  unfold parseCifD xDocD
  rw [hinit]
  simp only [atb_n]
  by_cases hend : p (St.init []).n (.cifStart cif) = END
  · simp only [hend, if_true]
    exact ⟨trivial, rfl, trivial⟩
  · simp only [hend, if_false, site_atb]
    by_cases hok : (site p (St.init []) (.cifStart cif) (some 1) (some 1)).1 = OK
    · simp only [hok, if_true]
      obtain ⟨t', b', e1⟩ := blocksD_x p norm cif d (site p (St.init []) (.cifStart cif) (some 1) (some 1)).2 false [] fuel hw hf
      rw [e1]
      simp only [cifEnd_atb]
      exact ⟨trivial, rfl, trivial⟩
    · simp only [hok, if_false, cifEnd_atb]
      exact ⟨trivial, rfl, trivial⟩

-- ---- all-continue handlers: the dropped columns of a loop whose header repeats names -----------------------------------------------

/-- the slots of a header checked against a container holding `c` (`none` = a dropped duplicate) -/
def slotsOf (norm : Str → Str) (c : Content) : List Str → List (Option Str) → List (Option Str)
  | [], acc => acc
  | nm :: ns, acc =>
    if hasName norm c nm || acc.any (slotIs norm nm) then slotsOf norm c ns (acc ++ [none]) else slotsOf norm c ns (acc ++ [some nm])

/-- the callbacks of the header: a data-name callback per name, followed by the error callback for a duplicate -/
def hdrEvs (norm : Str → Str) (c : Content) : List Str → List (Option Str) → List Ev
  | [], _ => []
  | nm :: ns, acc =>
    if hasName norm c nm || acc.any (slotIs norm nm) then .dataname nm :: errEv CIF_DUP_ITEMNAME :: hdrEvs norm c ns (acc ++ [none])
    else .dataname nm :: hdrEvs norm c ns (acc ++ [some nm])

theorem hdrD_allCont (norm : Str → Str) (c : Content) : ∀ (names : List Str) (s : St) (acc : List (Option Str)), s.skip = 0 →
    hdrD norm true c names s acc = (slotsOf norm c names acc, adv s (hdrEvs norm c names acc))
  | [], s, acc, _ => by simp [hdrD, slotsOf, hdrEvs, adv_nil]
  | nm :: ns, s, acc, h0 => by
    simp only [hdrD, slotsOf, hdrEvs, h0, Int.le_refl, if_true, Bool.true_and]
    by_cases hd : (hasName norm c nm || acc.any (slotIs norm nm)) = true
    · simp only [hd, if_true]
      rw [hdrD_allCont norm c ns _ _ (by simp [report, ParseCB.note, h0]), note_adv _ _ rfl, report_adv, adv_adv, adv_adv]
      rfl
    · simp only [hd, Bool.false_eq_true, if_false]
      rw [hdrD_allCont norm c ns _ _ (by simp [ParseCB.note, h0]), note_adv _ _ rfl, adv_adv]
      rfl

/-- the item callbacks of a packet: the retained columns only -/
def itemEvsD (slots : List (Option Str)) : Nat → List V → List Ev
  | _, [] => []
  | col, v :: vs => (match slots.getD col none with | some nm => [Ev.item nm v] | none => []) ++ itemEvsD slots (col + 1) vs

theorem xRowD_allCont (slots : List (Option Str)) : ∀ (vals : List V) (col : Nat) (s : St), s.skip = 0 →
    xRowD allContP slots col vals s = (OK, adv s (itemEvsD slots col vals))
  | [], col, s, _ => by simp [xRowD, itemEvsD, adv_nil]
  | v :: vs, col, s, h0 => by
    simp only [xRowD, itemEvsD]
    cases hs : slots.getD col none with
    | none =>
      simp only [itemStepD, if_true, List.nil_append]
      exact xRowD_allCont slots vs (col + 1) s h0
    | some nm =>
      simp only [itemStepD, itemStep, h0, Int.le_refl, and_self, if_true, site_allCont]
      rw [xRowD_allCont slots vs (col + 1) _ (by simp [push, h0]), push_adv _ _ rfl, adv_adv]

def pktEvsD (slots : List (Option Str)) (pk : List V) : List Ev :=
  Ev.pktStart :: (itemEvsD slots 0 pk ++ [Ev.pktEnd (List.zip (slots.filterMap id) (keptD slots 0 pk))])

theorem xPacketsD_allCont (slots : List (Option Str)) : ∀ (pks : List (List V)) (s : St) (acc : List (List V)), s.skip = 0 →
    xPacketsD allContP true slots pks s acc = (OK, adv s (pks.map (pktEvsD slots)).flatten, acc ++ pks.map (keptD slots 0))
  | [], s, acc, _ => by simp [xPacketsD, adv_nil]
  | pk :: pks, s, acc, h0 => by
    have hpk : xPkD allContP slots 0 [] pk s = (OK, adv s (pktEvsD slots pk), true) := by
      unfold xPkD
      simp only [if_true, pktStartStep, h0, Int.lt_irrefl, gt_iff_lt, if_false, site_allCont, ne_eq, not_true_eq_false,
        xRowD_allCont slots pk 0 (push s .pktStart) (by simp [push, h0]), List.nil_append, pktEndStep, adv_skip, push_skip,
        allContP, decide_true]
      rw [push_adv s _ rfl, push_adv _ (Ev.pktEnd _) rfl, adv_adv, adv_adv]
      simp [pktEvsD]
    simp only [xPacketsD, hpk, ne_eq, not_true_eq_false, if_false, Bool.and_self, if_true]
    rw [xPacketsD_allCont slots pks _ _ (by simp [h0]), adv_adv]
    simp

/-- **a loop whose header repeats names, all-continue handlers, a container**: data-name callbacks with the error callback behind
    every duplicate, loop_start with the retained names, per packet packet_start, the item callbacks of the retained columns only,
    packet_end with the retained items, loop_end; the loop is stored with the retained names and values -/
theorem xLoopD_allCont (norm : Str → Str) (c : Content) (names : List Str) (pks : List (List V)) (s : St) (h0 : s.skip = 0)
    (hk : ((slotsOf norm c names []).filterMap id).isEmpty = false) :
    xLoopD allContP norm true c names pks s
      = (OK, adv s (hdrEvs norm c names [] ++ (Ev.loopStart ((slotsOf norm c names []).filterMap id)
            :: ((pks.map (pktEvsD (slotsOf norm c names []))).flatten
              ++ [Ev.loopEnd (some ((slotsOf norm c names []).filterMap id))]))),
         some { category := none, names := (slotsOf norm c names []).filterMap id,
                packets := pks.map (keptD (slotsOf norm c names []) 0) }) := by
  unfold xLoopD
  simp only [inc0 s h0, hdrD_allCont norm c names s [] h0, hk, Bool.false_eq_true, if_false, loopStartStep, adv_skip, h0,
    Int.le_refl, if_true, site_allCont, allContP, decide_true, Bool.and_self]
  rw [xPacketsD_allCont _ pks _ [] (by simp [h0])]
  simp only [loopEndStep, adv_skip, push_skip, h0, Int.lt_irrefl, gt_iff_lt, if_false, if_true, site_allCont,
    List.nil_append]
  rw [push_adv _ (Ev.loopStart _) rfl, push_adv _ (Ev.loopEnd _) rfl, adv_adv, adv_adv, adv_adv]
  simp

end CifModel.Lemmas.ParseCB
