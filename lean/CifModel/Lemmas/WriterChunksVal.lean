import CifModel.Lemmas.WriterChunks
/-
  Lemmas/WriterChunksVal — `write_item` / `write_list` / `write_table` as chunks: by mutual induction on the value, the units
  written are the rendering of chunks whose tokens are the tokens of a well-formed `Spec.Grammar.Val` that denotes the value
  written, and the acceptor of Lemmas/LexGlue accepts them.
-/
set_option linter.unusedSimpArgs false
set_option linter.unusedVariables false
set_option maxRecDepth 8000

namespace CifModel.Lemmas.WriterChunks
open CifModel CifModel.Model CifModel.Model.Writer CifModel.Model.Lexer CifModel.Spec.Lexical CifModel.Spec.Grammar
open CifModel.Lemmas.LexGlue CifModel.Lemmas.WriterLex CifModel.Lemmas.WriterLines

theorem plain_nil : plainWs [] := by intro x hx; cases hx
theorem plain_blank : plainWs [WsAtom.blank 32] := by intro x hx; simp at hx; exact Or.inl hx

theorem adm_q (dia : Dialect) : (Tk.val .bare [63]).ok dia = true := by cases dia <;> decide
theorem adm_dot (dia : Dialect) : (Tk.val .bare [46]).ok dia = true := by cases dia <;> decide

/-- a one-character value (`?` or `.`), as chunks -/
theorem mark_chunks (dia : Dialect) (c1 : Ctx) (u : CU) (out : Str) (c' : Ctx) (hok : (Tk.val .bare [u]).ok dia = true)
    (h : literalOrError c1 [u] true = .ok (out, c')) :
    Keep c1 c' ∧ ∃ a, out = renderChunks [.ws a, .tk (.val .bare [u])] ∧ Mach dia (AS dia) [.ws a, .tk (.val .bare [u])] (A dia c') := by
  obtain ⟨hk, hpos, a, _, _, hr, hm⟩ := literal_chunks dia c1 [] (.val .bare [u]) out c' plain_nil (by simp [Tk.chars, renderValue]) hok rfl h
  refine ⟨hk, a, hr, hm.weaken ?_ (fun _ _ h => h)⟩
  intro lt w hw
  refine ⟨hw.1, Or.inr ?_⟩
  rcases hw.2 with h | h
  · exact Or.inl h
  · exact Or.inr (by simp [adjOk, h])

mutual
  theorem item_chunks (o : Parser.Opts) (hun : o.unfold = true) (hpr : o.prem = true) (n : Str) (v : V) (c : Ctx) (out : Str) (c' : Ctx)
      (hd : o.dia = diaOf c) (hcol : c.lastColumn ≤ LINE) (hn : c.writeItemNames = true → nameR o.dia n)
      (hv : valueR o.dia o.normKey v) (h : writeItem n v c = .ok (out, c')) :
      c'.lastColumn ≤ LINE ∧ Keep c c' ∧
      ∃ val cs, out = renderChunks cs ∧ toks cs = (if c.writeItemNames then [(TokType.name, n)] else []) ++ valToks val
        ∧ Parser.wfVal o val = true ∧ backV v (denoteVal o.dia o.normKey val)
        ∧ Mach o.dia (PreItem o.dia c) cs (A o.dia c') := by
    have hL := lineOk_item n v c (fun hnm => nameR_nameL (hn hnm)) (valueR_L v hv) hcol out c' h
    refine ⟨hL.1, ?_⟩
    unfold writeItem at h
    obtain ⟨o1, c1, o2, hhead, hval, rfl⟩ := andThen_ok h
    obtain ⟨hc1, hk1, cs1, hr1, ht1, hm1⟩ := head_chunks o.dia c n o1 c1 hd hcol hn hhead
    have hd1 : o.dia = diaOf c1 := keep_dia hd hk1
    match v, hv with
    | .chr q t, hv =>
      simp only at hval
      obtain ⟨_, _, hk2, val, cs2, hr2, ht2, hw, hb, hm2⟩ := chr_chunks o hun hpr c1 t q o2 c' hd1 hv hc1 hval
      exact ⟨hk1.trans hk2, val, cs1 ++ cs2, by rw [renderChunks_append, hr1, hr2], by rw [toks_append, ht1, ht2], hw, hb,
        hm1.append hm2⟩
    | .numb q t _ _ _ _, hv =>
      simp only at hval
      obtain ⟨_, _, hk2, val, cs2, hr2, ht2, hw, hb, hm2⟩ := numb_chunks o hun hpr c1 t q o2 c' hd1 hv hc1 hval
      exact ⟨hk1.trans hk2, val, cs1 ++ cs2, by rw [renderChunks_append, hr1, hr2], by rw [toks_append, ht1, ht2], hw, hb,
        hm1.append hm2⟩
    | .na, _ =>
      simp only at hval
      obtain ⟨hk2, a, hr2, hm2⟩ := mark_chunks o.dia c1 46 o2 c' (adm_dot _) hval
      exact ⟨hk1.trans hk2, .na, cs1 ++ [.ws a, .tk (.val .bare [46])], by rw [renderChunks_append, hr1, hr2],
        by rw [toks_append, ht1]; rfl, rfl, rfl, hm1.append hm2⟩
    | .unk, _ =>
      simp only at hval
      obtain ⟨hk2, a, hr2, hm2⟩ := mark_chunks o.dia c1 63 o2 c' (adm_q _) hval
      exact ⟨hk1.trans hk2, .unk, cs1 ++ [.ws a, .tk (.val .bare [63])], by rw [renderChunks_append, hr1, hr2],
        by rw [toks_append, ht1]; rfl, rfl, rfl, hm1.append hm2⟩
    | .lst vs, hv =>
      simp only at hval
      split at hval
      · cases hval
      · rename_i hcif
        obtain ⟨o3, c2, o4, hopen, hrest, rfl⟩ := andThen_ok hval
        obtain ⟨o5, c3, o6, helems, hrest2, rfl⟩ := andThen_ok hrest
        obtain ⟨o7, c4, o8, hclose, hfin, rfl⟩ := andThen_ok hrest2
        simp only [Except.ok.injEq, Prod.mk.injEq] at hfin
        obtain ⟨rfl, rfl⟩ := hfin
        have hdia2 : o.dia = .cif2 := by rw [hd1]; simp [diaOf, hcif]
        -- `[`
        obtain ⟨hk2, hpos2, a2, _, _, hr2, hm2⟩ := literal_chunks o.dia c1 [] (.opn 91) o3 c2 plain_nil (by simp [Tk.chars])
          (by simp [Tk.ok, hdia2]) rfl hopen
        have hc2 : c2.lastColumn ≤ LINE := (lineOk_literalOrError c1 [91] true (by decide) (by decide) hc1 o3 c2 hopen).1
        -- the elements
        obtain ⟨hc3, hk3, vals, cs3, hr3, ht3, hw3, hb3, hm3⟩ :=
          elems_chunks o hun hpr vs { c2 with writeItemNames := false, separateValues := true } o5 c3
            (by have := keep_dia hd1 hk2; exact this) hc2 rfl rfl (by simpa [valueR] using hv) helems
        -- ` ]`
        obtain ⟨hk4, hpos4, a4, _, hne4, hr4, hm4⟩ := literal_chunks o.dia c3 [.blank 32] (.cls 93) o7 c4 plain_blank
          (by simp [Tk.chars]) (by simp [Tk.ok, hdia2]) rfl hclose
        refine ⟨?_, .lst vals, cs1 ++ ([.ws a2, .tk (.opn 91)] ++ (cs3 ++ [.ws a4, .tk (.cls 93)])), ?_, ?_, ?_, ⟨_, rfl, hb3⟩, ?_⟩
        · exact ⟨by simp only; rw [hk2.1, hk1.1], by simp only; rw [hk2.2.1, hk1.2.1],
            by simp only; rw [hk4.2.2.1, hk3.2.2.1, hk2.2.2.1, hk1.2.2.1],
            by simp only; rw [hk4.2.2.2, hk3.2.2.2, hk2.2.2.2, hk1.2.2.2]⟩
        · simp only [renderChunks_append, ← hr1, ← hr2, ← hr3, ← hr4, List.append_nil, List.append_assoc]
        · simp only [toks_append, ht1, ht3, valToks]
          simp [toks, Tk.spec]
        · simpa [Parser.wfVal] using hw3
        · refine hm1.append ((hm2.weaken ?_ (fun _ _ h => h)).append (hm3.append (hm4.weaken ?_ (fun _ _ h => h))))
          · intro lt w hw
            refine ⟨hw.1, Or.inr ?_⟩
            rcases hw.2 with h | h
            · exact Or.inl h
            · exact Or.inr (by simp [adjOk, h])
          · intro lt w hw
            exact ⟨hw.1, Or.inl (by simp)⟩
    | .tbl es, hv =>
      simp only at hval
      split at hval
      · cases hval
      · rename_i hcif
        obtain ⟨o3, c2, o4, hopen, hrest, rfl⟩ := andThen_ok hval
        obtain ⟨o5, c3, o6, hents, hrest2, rfl⟩ := andThen_ok hrest
        obtain ⟨o7, c4, o8, hclose, hfin, rfl⟩ := andThen_ok hrest2
        simp only [Except.ok.injEq, Prod.mk.injEq] at hfin
        obtain ⟨rfl, rfl⟩ := hfin
        have hdia2 : o.dia = .cif2 := by rw [hd1]; simp [diaOf, hcif]
        obtain ⟨hk2, hpos2, a2, _, _, hr2, hm2⟩ := literal_chunks o.dia c1 [] (.opn 123) o3 c2 plain_nil (by simp [Tk.chars])
          (by simp [Tk.ok, hdia2]) rfl hopen
        have hc2 : c2.lastColumn ≤ LINE := (lineOk_literalOrError c1 [123] true (by decide) (by decide) hc1 o3 c2 hopen).1
        have hv' : entriesR o.dia o.normKey es := by simpa [valueR] using hv
        obtain ⟨hc3, hk3, ents, cs3, hr3, ht3, hw3, hb3, hm3⟩ :=
          entries_chunks o hun hpr es { c2 with writeItemNames := false } o5 c3
            (by have := keep_dia hd1 hk2; exact this) hdia2 hc2 rfl hv' hents
        obtain ⟨hk4, hpos4, a4, _, hne4, hr4, hm4⟩ := literal_chunks o.dia c3 [.blank 32] (.cls 125) o7 c4 plain_blank
          (by simp [Tk.chars]) (by simp [Tk.ok, hdia2]) rfl hclose
        obtain ⟨rs, hrs, hbr⟩ := denoteEntries_back o.dia o.normKey es ents [] hb3 (entriesR_keys es hv')
          (by intro e _ a ha; cases ha)
        refine ⟨?_, .tbl ents, cs1 ++ ([.ws a2, .tk (.opn 123)] ++ (cs3 ++ [.ws a4, .tk (.cls 125)])), ?_, ?_, ?_, ⟨rs, ?_, hbr⟩, ?_⟩
        · exact ⟨by simp only; rw [hk2.1, hk1.1], by simp only; rw [hk2.2.1, hk1.2.1],
            by simp only; rw [hk4.2.2.1, hk3.2.1, hk2.2.2.1, hk1.2.2.1],
            by simp only; rw [hk4.2.2.2, hk3.2.2, hk2.2.2.2, hk1.2.2.2]⟩
        · simp only [renderChunks_append, ← hr1, ← hr2, ← hr3, ← hr4, List.append_nil, List.append_assoc]
        · simp only [toks_append, ht1, ht3, valToks]
          simp [toks, Tk.spec]
        · simpa [Parser.wfVal] using hw3
        · simp only [denoteVal, hrs, List.nil_append]
        · refine hm1.append ((hm2.weaken ?_ (fun _ _ h => h)).append (hm3.append (hm4.weaken ?_ (fun _ _ h => h))))
          · intro lt w hw
            refine ⟨hw.1, Or.inr ?_⟩
            rcases hw.2 with h | h
            · exact Or.inl h
            · exact Or.inr (by simp [adjOk, h])
          · intro lt w hw
            exact ⟨hw.1, Or.inl (by simp)⟩
  theorem elems_chunks (o : Parser.Opts) (hun : o.unfold = true) (hpr : o.prem = true) (vs : List V) (c : Ctx) (out : Str) (c' : Ctx)
      (hd : o.dia = diaOf c) (hcol : c.lastColumn ≤ LINE) (hnm : c.writeItemNames = false) (hsv : c.separateValues = true)
      (hv : elemsR o.dia o.normKey vs) (h : writeElems vs c = .ok (out, c')) :
      c'.lastColumn ≤ LINE ∧ Keep c c' ∧
      ∃ vals cs, out = renderChunks cs ∧ toks cs = valsToks vals ∧ Parser.wfVals o vals = true
        ∧ backVs vs (denoteVals o.dia o.normKey vals) ∧ Mach o.dia (A o.dia c) cs (A o.dia c') := by
    match vs, hv with
    | [], _ =>
      unfold writeElems at h
      simp only [Except.ok.injEq, Prod.mk.injEq] at h
      obtain ⟨rfl, rfl⟩ := h
      exact ⟨hcol, Keep.refl c, [], [], rfl, rfl, rfl, by simp [denoteVals, backVs], Mach.nil _ _⟩
    | v :: rest, hv =>
      unfold writeElems at h
      simp only [elemsR] at hv
      obtain ⟨o1, c1, o2, hitem, hrest, rfl⟩ := andThen_ok h
      obtain ⟨hc1, hk1, val, cs1, hr1, ht1, hw1, hb1, hm1⟩ :=
        item_chunks o hun hpr [] v c o1 c1 hd hcol (fun h => by rw [hnm] at h; cases h) hv.1 hitem
      obtain ⟨hc2, hk2, vals, cs2, hr2, ht2, hw2, hb2, hm2⟩ :=
        elems_chunks o hun hpr rest c1 o2 c' (keep_dia hd hk1) hc1 (by rw [hk1.2.1, hnm]) (by rw [hk1.1, hsv]) hv.2 hrest
      refine ⟨hc2, hk1.trans hk2, val :: vals, cs1 ++ cs2, by rw [renderChunks_append, hr1, hr2], ?_, ?_, ?_, ?_⟩
      · rw [toks_append, ht1, ht2, hnm]; simp [valsToks]
      · simp [Parser.wfVals, hw1, hw2]
      · exact ⟨_, _, by simp [denoteVals], hb1, hb2⟩
      · exact (hm1.weaken (fun lt w h => preItem_of_A c hsv h) (fun _ _ h => h)).append hm2
  theorem entries_chunks (o : Parser.Opts) (hun : o.unfold = true) (hpr : o.prem = true) (es : List (Str × Str × V)) (c : Ctx)
      (out : Str) (c' : Ctx) (hd : o.dia = diaOf c) (hd2 : o.dia = .cif2) (hcol : c.lastColumn ≤ LINE) (hnm : c.writeItemNames = false)
      (hv : entriesR o.dia o.normKey es) : writeEntries es c = .ok (out, c') →
      c'.lastColumn ≤ LINE ∧ (c'.writeItemNames = c.writeItemNames ∧ c'.depth = c.depth ∧ c'.version = c.version) ∧
      ∃ ents cs, out = renderChunks cs ∧ toks cs = entriesToks ents ∧ Parser.wfEntries o ents = true
        ∧ entsBack o.dia o.normKey es ents ∧ Mach o.dia (A o.dia c) cs (A o.dia c') := by
    match es, hv with
    | [], _ =>
      intro h
      unfold writeEntries at h
      simp only [Except.ok.injEq, Prod.mk.injEq] at h
      obtain ⟨rfl, rfl⟩ := h
      exact ⟨hcol, ⟨rfl, rfl, rfl⟩, [], [], rfl, rfl, rfl, by simp [entsBack], Mach.nil _ _⟩
    | (k, key, v) :: rest, hv =>
      intro h
      unfold writeEntries at h
      simp only [entriesR] at hv
      obtain ⟨hkok, hkdis, hknk, hklater, hvv, hvrest⟩ := hv
      have hcif : c.isCif1 = false := by
        have : diaOf c = .cif2 := by rw [← hd, hd2]
        unfold diaOf at this
        cases hc : c.isCif1 <;> simp [hc] at this ⊢
      -- the optional line break
      generalize hp0 : (if (key.length : Int) > (LINE : Int) - (c.lastColumn + 8) then writeNewline c else ([], c)) = p0 at h
      obtain ⟨o0, c0⟩ := p0
      simp only at h
      generalize hp1 : ensureSpaced { c0 with separateValues := false } = p1 at h
      obtain ⟨o1, c2⟩ := p1
      simp only at h
      obtain ⟨o01, c2', o3, h01, hrest, rfl⟩ := andThen_ok h
      simp only [Except.ok.injEq, Prod.mk.injEq] at h01
      obtain ⟨rfl, rfl⟩ := h01
      obtain ⟨o4, c3, o5, hkey, hrest2, rfl⟩ := andThen_ok hrest
      obtain ⟨o6, c4, o7, hcolon, hrest3, rfl⟩ := andThen_ok hrest2
      obtain ⟨o8, c5, o9, hitem, hrest4, rfl⟩ := andThen_ok hrest3
      -- facts about the first two steps
      have h0 : Keep c c0 ∧ c0.lastColumn ≤ LINE ∧ ∃ a0, plainWs a0 ∧ o0 = renderWs a0 ∧ (c0.lastColumn = 0 → c.lastColumn = 0 ∨ a0 ≠ [])
          ∧ (a0 = [] → c0.lastColumn = c.lastColumn) := by
        by_cases hc : (key.length : Int) > (LINE : Int) - (c.lastColumn + 8)
        · rw [if_pos hc] at hp0
          simp only [writeNewline, Prod.mk.injEq] at hp0
          obtain ⟨rfl, rfl⟩ := hp0
          exact ⟨keep_col _ _, by simp, [.eol], by intro x hx; simp at hx; exact Or.inr hx, rfl, fun _ => Or.inr (by simp), by simp⟩
        · rw [if_neg hc] at hp0
          simp only [Prod.mk.injEq] at hp0
          obtain ⟨rfl, rfl⟩ := hp0
          exact ⟨Keep.refl c, hcol, [], plain_nil, rfl, fun h => Or.inl h, fun _ => rfl⟩
      obtain ⟨hk0, hc0, a0, hpa0, ho0, hz0, hsame0⟩ := h0
      have e1 : (ensureSpaced { c0 with separateValues := false }).1 = o1 := by rw [hp1]
      have e2 : (ensureSpaced { c0 with separateValues := false }).2 = c2 := by rw [hp1]
      obtain ⟨a1, ha1, hm1⟩ := ensureSpaced_chunks o.dia { c0 with separateValues := false }
      have hk2 : Keep { c0 with separateValues := false } c2 := by rw [← e2]; exact (ensureSpaced_out _).1
      have hc2 : c2.lastColumn ≤ LINE := by
        have := lineOk_ensureSpaced { c0 with separateValues := false } hc0 o1 c2 (by rw [hp1])
        exact this.1
      have hcif2 : c2.isCif1 = false := by
        have : c2.isCif1 = c.isCif1 := by unfold Ctx.isCif1; rw [hk2.2.2.2]; simp only; rw [hk0.2.2.2]
        rw [this, hcif]
      -- the key and its colon
      cases hcl : writeLiteral c3 [58] false with
      | none => rw [hcl] at hcolon; cases hcolon
      | some r =>
        obtain ⟨o6', c4'⟩ := r
        rw [hcl] at hcolon
        simp only [Except.ok.injEq, Prod.mk.injEq] at hcolon
        obtain ⟨rfl, rfl⟩ := hcolon
        obtain ⟨hc4, hpos4, hk4, ak, p, hrk, hmk⟩ := key_chunks c2 key o4 o6' c3 c4' hcif2 (by rw [← hd2]; exact hkok) hc2 hkey hcl
        have hd4 : o.dia = diaOf c4' := by
          rw [hd2]; unfold diaOf
          have : c4'.isCif1 = c2.isCif1 := hk4.isCif1
          rw [this, hcif2]; rfl
        have hnm4 : c4'.writeItemNames = false := by rw [hk4.2.1, hk2.2.1]; simp only; rw [hk0.2.1, hnm]
        -- the value
        obtain ⟨hc5, hk5, val, csv, hrv, htv, hwv, hbv, hmv⟩ :=
          item_chunks o hun hpr [] v c4' o8 c5 hd4 hc4 (fun h => by rw [hnm4] at h; cases h) hvv hitem
        -- the remaining entries
        obtain ⟨hc6, hk6, ents, cse, hre, hte, hwe, hbe, hme⟩ :=
          entries_chunks o hun hpr rest c5 o9 c' (keep_dia hd4 hk5) hd2 hc5 (by rw [hk5.2.1, hnm4]) hvrest hrest4
        refine ⟨hc6, ⟨?_, ?_, ?_⟩, (key, p, val) :: ents,
          [.ws a0] ++ ([.ws a1] ++ ([.ws ak, .tk (.key p key)] ++ (csv ++ cse))), ?_, ?_, ?_, ⟨p, val, ents, rfl, hbv, hbe⟩, ?_⟩
        · rw [hk6.1, hk5.2.1, hk4.2.1, hk2.2.1]; simp only; rw [hk0.2.1]
        · rw [hk6.2.1, hk5.2.2.1, hk4.2.2.1, hk2.2.2.1]; simp only; rw [hk0.2.2.1]
        · rw [hk6.2.2, hk5.2.2.2, hk4.2.2.2, hk2.2.2.2]; simp only; rw [hk0.2.2.2]
        · have hra1 : o1 = renderChunks [.ws a1] := by rw [← e1]; exact ha1
          rw [renderChunks_append, renderChunks_append, renderChunks_append, renderChunks_append, ← hrk, ← hrv, ← hre, ← hra1, ho0]
          simp [renderChunks, List.append_assoc]
        · simp only [toks_append, htv, hte, hnm4]
          simp [toks, Tk.spec, entriesToks]
        · simp only [Parser.wfEntries, hwv, hwe, hkdis, Bool.and_true, Bool.not_false]
          exact noNul_of_not_mem key (okUnits_noNUL _ key hkok)
        · -- the machine
          have hm0 : Mach o.dia (A o.dia c) [.ws a0] (A o.dia { c0 with separateValues := false }) := by
            intro lt w hw
            refine ⟨trivial, wOk_plain hw.1 hpa0, ?_⟩
            intro hz
            rcases hz0 hz with h | h
            · by_cases ha : a0 = []
              · subst ha
                simpa [stAfter] using hw.2 h
              · exact Or.inl (by simp [stAfter, ha])
            · exact Or.inl (by simp [stAfter, h])
          have hmk' : Mach o.dia (AS o.dia) [.ws ak, .tk (.key p key)] (fun lt w => lt = TokType.key ∧ w = []) := by
            rw [hd2]; exact hmk
          refine hm0.append (hm1.append ((hmk'.weaken (fun _ _ h => h) ?_).append (hmv.append hme)))
          intro lt w hw
          obtain ⟨rfl, rfl⟩ := hw
          exact ⟨A_of_tok c4' hpos4 ⟨rfl, rfl⟩, fun _ => ⟨hnm4, Or.inr rfl⟩⟩
end

end CifModel.Lemmas.WriterChunks
