import CifModel.Lemmas.ParseCBCut
import CifModel.Spec.Grammar
/-
  CifModel.Lemmas.ParseCBGrammar — the denotation used by the C15 theorems (`Spec.Doc.denote`, written with the store
  operations of Model/ParseCB.lean) against the independent one of Spec/Grammar.lean (`Spec.Grammar.denote`, written from the CIF
  grammar and the data model of cif.h, by another group, without reference to any model): on the image of every Grammar
  document the two coincide.
-/
set_option linter.unusedSimpArgs false
set_option linter.unusedVariables false

namespace CifModel.Lemmas.ParseCB
open CifModel.ParseCB CifModel.Spec.Doc

/-- a Grammar document read as a C15 document: every value replaced by what it denotes -/
def ofItem (dia : Dialect) (nk : Str → Str) : Spec.Grammar.Item → Elem
  | .item n v => .item n (Spec.Grammar.denoteVal dia nk v)
  | .loop ns ps => .loop ns (ps.map (Spec.Grammar.denoteVals dia nk))

mutual
  def ofElem (dia : Dialect) (nk : Str → Str) : Spec.Grammar.Elem → Elem
    | .plain i => ofItem dia nk i
    | .frame c b => .frame c (ofElems dia nk b)
  def ofElems (dia : Dialect) (nk : Str → Str) : List Spec.Grammar.Elem → List Elem
    | [] => []
    | e :: es => ofElem dia nk e :: ofElems dia nk es
end

def ofDoc (dia : Dialect) (nk : Str → Str) (g : Spec.Grammar.Doc) : Doc :=
  g.map fun b => { code := b.code, body := ofElems dia nk b.body }

/-- the store operation of the model and the one of the Grammar specification agree once the scalar loop has its packet -/
theorem addScalar_putScalar (ls : List Loop) (nm : Str) (v : V) (h : ScalNE ls) :
    addScalar ls nm v = Spec.Grammar.putScalar ls nm v := by
  induction ls with
  | nil => rfl
  | cons a r ih =>
    have hr : ScalNE r := fun x hx => h x (List.mem_cons_of_mem _ hx)
    simp only [addScalar, Spec.Grammar.putScalar]
    have hsame : Spec.Grammar.isScalarLoop a = isScalarLoop a := rfl
    rw [hsame]
    by_cases ha : isScalarLoop a = true
    · have hne := h a (List.mem_cons_self ..) ha
      have hemp : a.packets.isEmpty = false := by
        cases hp : a.packets with
        | nil => exact absurd hp hne
        | cons _ _ => rfl
      simp only [ha, if_true, hemp, Bool.false_eq_true, if_false]
    · simp only [ha, Bool.false_eq_true, if_false, ih hr]

mutual
  theorem denoteElem_of (dia : Dialect) (nk : Str → Str) : ∀ (e : Spec.Grammar.Elem) (c : Content), ScalNE c.loops →
      denoteElem (ofElem dia nk e) c
        = ⟨(Spec.Grammar.denoteElem dia nk e c.frames c.loops).1, (Spec.Grammar.denoteElem dia nk e c.frames c.loops).2⟩
    | .plain (.item n v), c, h => by
      simp only [ofElem, ofItem, denoteElem, Content.setScalar, Spec.Grammar.denoteElem, Spec.Grammar.denoteItems,
        addScalar_putScalar _ _ _ h]
    | .plain (.loop ns ps), c, h => by
      simp only [ofElem, ofItem, denoteElem, Content.addLoop, Spec.Grammar.denoteElem, Spec.Grammar.denoteItems]
    | .frame code b, c, h => by
      have hb := denoteBody_of dia nk b .empty (by intro l hl; cases hl)
      simp only [ofElem, denoteElem, Content.addFrame, Spec.Grammar.denoteElem, hb]
      rfl
  theorem denoteBody_of (dia : Dialect) (nk : Str → Str) : ∀ (es : List Spec.Grammar.Elem) (c : Content), ScalNE c.loops →
      denoteBody (ofElems dia nk es) c
        = ⟨(Spec.Grammar.denoteElems dia nk es c.frames c.loops).1, (Spec.Grammar.denoteElems dia nk es c.frames c.loops).2⟩
    | [], c, _ => by simp [ofElems, denoteBody, Spec.Grammar.denoteElems]
    | e :: es, c, h => by
      have h1 := denoteElem_of dia nk e c h
      have hne : ScalNE (denoteElem (ofElem dia nk e) c).loops := denoteElem_ne _ c h
      simp only [ofElems, denoteBody, Spec.Grammar.denoteElems]
      rw [denoteBody_of dia nk es _ hne, h1]
end

/-- **the two denotations agree**: the C15 denotation of a Grammar document is its Grammar denotation -/
theorem denote_ofDoc (dia : Dialect) (nk : Str → Str) (g : Spec.Grammar.Doc) :
    denote (ofDoc dia nk g) = Spec.Grammar.denote dia nk g := by
  simp only [denote, ofDoc, Spec.Grammar.denote, List.map_map]
  apply List.map_congr_left
  intro b _
  have hb := denoteBody_of dia nk b.body .empty (by intro l hl; cases hl)
  simp only [Function.comp, hb, Spec.Grammar.denoteBlock]
  rfl

end CifModel.Lemmas.ParseCB
