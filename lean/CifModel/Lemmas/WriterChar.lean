import CifModel.Model.Writer
/-
  `write_char`, branch by branch: which writer function it reduces to for each recommended delimiter.
-/
namespace CifModel.Lemmas.WriterChar
open CifModel.Model.Writer
open CifModel.Model (analyze Analysis)

/-- the flags `write_char` derives from the analysis (`fold`, `prefix`) -/
def charFlags (a : Analysis) : Bool × Bool :=
  let fold0 : Bool := decide (a.lengthFirst ≥ LINE) || decide (a.lengthMax > LINE) || a.hasReservedStart
                        || decide (a.maxSemiRun ≥ LINE - 1)
  let pre : Bool := a.containsTextDelim || (fold0 && decide (a.maxSemiRun > 0))
  (if pre ∧ a.lengthMax + PREFIX_LENGTH > LINE then true else fold0, pre)

theorem printfS_length (n : Nat) (s : Str) : (printfS n s).length = n := by
  simp [printfS]

theorem writeUnquoted_ok (c : Ctx) (s : Str) (n : Nat) : ∃ r, writeUnquoted c s n = .ok r := by
  unfold writeUnquoted writeULiteral
  by_cases h0 : n = 0
  · simp [h0]
  · simp only [h0, ↓reduceIte, printfS_length]
    split
    · rename_i h; split at h <;> simp at h
    · exact ⟨_, rfl⟩

theorem writeQuoted_ok (c : Ctx) (s : Str) (n : Nat) (d : CU) : ∃ r, writeQuoted c s n d = .ok r := by
  unfold writeQuoted
  simp only [List.length_append, List.length_cons, List.length_nil, printfS_length]
  have : 0 + 1 + n + (0 + 1) = n + 2 := by omega
  simp only [this, ↓reduceIte]
  exact ⟨_, rfl⟩

/-- the recommended delimiter has 0, 1, 2 or 3 units -/
theorem delimLength_cases (s : Str) (unq tri : Bool) (limit : Nat) :
    (analyze s unq tri limit).delimLength = 0 ∨ (analyze s unq tri limit).delimLength = 1
    ∨ (analyze s unq tri limit).delimLength = 2 ∨ (analyze s unq tri limit).delimLength = 3 := by
  unfold analyze
  simp only
  cases Model.chooseDelim s unq tri limit (Model.counters s) <;> simp [Model.Delim.units]

theorem writeChar_invalid (c : Ctx) (s : Str) (quoted allowText : Bool) (h : c.isCif1 = true ∧ validate11 s = false) :
    writeChar c s quoted allowText = .error Gen.ErrCodes.CIF_DISALLOWED_CHAR := by
  unfold writeChar; simp [h]

theorem writeChar_delim0 (c : Ctx) (s : Str) (quoted allowText : Bool) (hv : ¬(c.isCif1 = true ∧ validate11 s = false))
    (hd : (analyze s (!quoted) (!c.isCif1) LINE).delimLength = 0) :
    writeChar c s quoted allowText = writeUnquoted c s (analyze s (!quoted) (!c.isCif1) LINE).lengthMax := by
  unfold writeChar; simp only [hv, ↓reduceIte, hd]

theorem writeChar_delim1 (c : Ctx) (s : Str) (quoted allowText : Bool) (hv : ¬(c.isCif1 = true ∧ validate11 s = false))
    (hd : (analyze s (!quoted) (!c.isCif1) LINE).delimLength = 1) :
    writeChar c s quoted allowText
      = writeQuoted c s (analyze s (!quoted) (!c.isCif1) LINE).length ((analyze s (!quoted) (!c.isCif1) LINE).delim.headD 0) := by
  unfold writeChar; simp [hv, hd]

theorem writeChar_delim3 (c : Ctx) (s : Str) (quoted allowText : Bool) (hv : ¬(c.isCif1 = true ∧ validate11 s = false))
    (hd : (analyze s (!quoted) (!c.isCif1) LINE).delimLength = 3) :
    writeChar c s quoted allowText
      = writeTripleQuoted c s (analyze s (!quoted) (!c.isCif1) LINE).lengthFirst (analyze s (!quoted) (!c.isCif1) LINE).lengthLast
          ((analyze s (!quoted) (!c.isCif1) LINE).delim.headD 0) := by
  unfold writeChar; simp [hv, hd]

theorem analyze_delim (s : Str) (unq tri : Bool) (limit : Nat) :
    (analyze s unq tri limit).delim = (Model.recommend s unq tri limit).units
    ∧ (analyze s unq tri limit).delimLength = (Model.recommend s unq tri limit).units.length := ⟨rfl, rfl⟩

theorem writeChar_delim2_refused (c : Ctx) (s : Str) (quoted allowText : Bool) (hv : ¬(c.isCif1 = true ∧ validate11 s = false))
    (hd : (analyze s (!quoted) (!c.isCif1) LINE).delimLength = 2)
    (hr : allowText = false ∨ ((analyze s (!quoted) (!c.isCif1) LINE).containsTextDelim = true ∧ c.isCif1 = true)) :
    writeChar c s quoted allowText = .error Gen.ErrCodes.CIF_DISALLOWED_VALUE := by
  unfold writeChar; simp [hv, hd, hr]

theorem writeChar_delim2 (c : Ctx) (s : Str) (quoted allowText : Bool) (hv : ¬(c.isCif1 = true ∧ validate11 s = false))
    (hd : (analyze s (!quoted) (!c.isCif1) LINE).delimLength = 2)
    (hr : ¬(allowText = false ∨ ((analyze s (!quoted) (!c.isCif1) LINE).containsTextDelim = true ∧ c.isCif1 = true))) :
    writeChar c s quoted allowText
      = writeText c s (charFlags (analyze s (!quoted) (!c.isCif1) LINE)).1 (charFlags (analyze s (!quoted) (!c.isCif1) LINE)).2 := by
  unfold writeChar charFlags; simp [hv, hd, hr]

end CifModel.Lemmas.WriterChar
