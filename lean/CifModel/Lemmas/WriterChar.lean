import CifModel.Model.Writer
/-
  `write_char`, branch by branch: which writer function it reduces to for each recommended delimiter.
-/
namespace CifModel.Lemmas.WriterChar
open CifModel.Model.Writer
open CifModel.Model (analyze Analysis)

/-- the flags `write_char` derives from the analysis (`fold`, `prefix`) -/
def charFlags (a : Analysis) : Bool × Bool :=
  let fold0 : Bool := decide (a.lengthFirst ≥ LINE) || decide (a.lengthMax > LINE) || a.hasReservedStart
                        || decide (a.maxSemiRun ≥ LINE - 1)
  let pre : Bool := a.containsTextDelim || (fold0 && decide (a.maxSemiRun > 0))
  (if pre ∧ a.lengthMax + PREFIX_LENGTH > LINE then true else fold0, pre)

theorem printfS_length (n : Nat) (s : Str) : (printfS n s).length = n := by
  simp [printfS]

theorem writeUnquoted_ok (c : Ctx) (s : Str) (n : Nat) : ∃ r, writeUnquoted c s n = .ok r := by
  unfold writeUnquoted writeULiteral
  by_cases h0 : n = 0
  · simp [h0]
  · simp only [h0, ↓reduceIte, printfS_length]
    split
    · rename_i h; split at h <;> simp at h
    · exact ⟨_, rfl⟩

theorem writeQuoted_ok (c : Ctx) (s : Str) (n : Nat) (d : CU) : ∃ r, writeQuoted c s n d = .ok r := by
  unfold writeQuoted
  simp only [List.length_append, List.length_cons, List.length_nil, printfS_length]
  have : 0 + 1 + n + (0 + 1) = n + 2 := by omega
  simp only [this, ↓reduceIte]
  exact ⟨_, rfl⟩

/-- the recommended delimiter has 0, 1, 2 or 3 units -/
theorem delimLength_cases (s : Str) (unq tri : Bool) (limit : Nat) :
    (analyze s unq tri limit).delimLength = 0 ∨ (analyze s unq tri limit).delimLength = 1
    ∨ (analyze s unq tri limit).delimLength = 2 ∨ (analyze s unq tri limit).delimLength = 3 := by
  unfold analyze
  simp only
  cases Model.chooseDelim s unq tri limit (Model.counters s) <;> simp [Model.Delim.units]

theorem writeChar_invalid (c : Ctx) (s : Str) (quoted allowText : Bool) (h : c.isCif1 = true ∧ validate11 s = false) :
    writeCharCore c s quoted allowText = .error Gen.ErrCodes.CIF_DISALLOWED_CHAR := by
  unfold writeCharCore; simp [h]

theorem writeChar_delim0 (c : Ctx) (s : Str) (quoted allowText : Bool) (hv : ¬(c.isCif1 = true ∧ validate11 s = false))
    (hd : (analyze s (!quoted) (!c.isCif1) LINE).delimLength = 0) :
    writeCharCore c s quoted allowText = writeUnquoted c s (analyze s (!quoted) (!c.isCif1) LINE).lengthMax := by
  unfold writeCharCore; simp only [hv, ↓reduceIte, hd]

theorem writeChar_delim1 (c : Ctx) (s : Str) (quoted allowText : Bool) (hv : ¬(c.isCif1 = true ∧ validate11 s = false))
    (hd : (analyze s (!quoted) (!c.isCif1) LINE).delimLength = 1) :
    writeCharCore c s quoted allowText
      = writeQuoted c s (analyze s (!quoted) (!c.isCif1) LINE).length ((analyze s (!quoted) (!c.isCif1) LINE).delim.headD 0) := by
  unfold writeCharCore; simp [hv, hd]

theorem writeChar_delim3 (c : Ctx) (s : Str) (quoted allowText : Bool) (hv : ¬(c.isCif1 = true ∧ validate11 s = false))
    (hd : (analyze s (!quoted) (!c.isCif1) LINE).delimLength = 3) :
    writeCharCore c s quoted allowText
      = writeTripleQuoted c s (analyze s (!quoted) (!c.isCif1) LINE).lengthFirst (analyze s (!quoted) (!c.isCif1) LINE).lengthLast
          ((analyze s (!quoted) (!c.isCif1) LINE).delim.headD 0) := by
  unfold writeCharCore; simp [hv, hd]

theorem analyze_delim (s : Str) (unq tri : Bool) (limit : Nat) :
    (analyze s unq tri limit).delim = (Model.recommend s unq tri limit).units
    ∧ (analyze s unq tri limit).delimLength = (Model.recommend s unq tri limit).units.length := ⟨rfl, rfl⟩

theorem writeChar_delim2_refused (c : Ctx) (s : Str) (quoted allowText : Bool) (hv : ¬(c.isCif1 = true ∧ validate11 s = false))
    (hd : (analyze s (!quoted) (!c.isCif1) LINE).delimLength = 2)
    (hr : allowText = false ∨ ((analyze s (!quoted) (!c.isCif1) LINE).containsTextDelim = true ∧ c.isCif1 = true)) :
    writeCharCore c s quoted allowText = .error Gen.ErrCodes.CIF_DISALLOWED_VALUE := by
  unfold writeCharCore; simp [hv, hd, hr]

theorem writeChar_delim2 (c : Ctx) (s : Str) (quoted allowText : Bool) (hv : ¬(c.isCif1 = true ∧ validate11 s = false))
    (hd : (analyze s (!quoted) (!c.isCif1) LINE).delimLength = 2)
    (hr : ¬(allowText = false ∨ ((analyze s (!quoted) (!c.isCif1) LINE).containsTextDelim = true ∧ c.isCif1 = true))) :
    writeCharCore c s quoted allowText
      = writeText c s (charFlags (analyze s (!quoted) (!c.isCif1) LINE)).1 (charFlags (analyze s (!quoted) (!c.isCif1) LINE)).2 := by
  unfold writeCharCore charFlags; simp [hv, hd, hr]

/-! ### the two opening tests of `write_char` -/

/-- a text `write_char` does not refuse at once: no CR, and — in CIF 2.0 mode — no character CIF 2.0 does not allow -/
def strClean (cif1 : Bool) (s : Str) : Bool := !(s.contains 13) && (cif1 || !Model.hasDisallowed s)

theorem writeChar_cr (c : Ctx) (s : Str) (quoted allowText : Bool) (h : (13 : CU) ∈ s) :
    writeChar c s quoted allowText = .error Gen.ErrCodes.CIF_DISALLOWED_VALUE := by
  unfold writeChar; simp [h]

theorem writeChar_disallowed (c : Ctx) (s : Str) (quoted allowText : Bool) (h13 : (13 : CU) ∉ s) (h2 : c.isCif1 = false)
    (h : Model.hasDisallowed s = true) : writeChar c s quoted allowText = .error Gen.ErrCodes.CIF_DISALLOWED_CHAR := by
  unfold writeChar; simp [h13, h2, h]

theorem writeChar_clean (c : Ctx) (s : Str) (quoted allowText : Bool) (h : strClean c.isCif1 s = true) :
    writeChar c s quoted allowText = writeCharCore c s quoted allowText := by
  unfold strClean at h
  simp only [Bool.and_eq_true, Bool.not_eq_true', Bool.or_eq_true] at h
  have h13 : (13 : CU) ∉ s := by
    intro hm
    have : s.contains 13 = true := by simpa using hm
    rw [h.1] at this; cases this
  unfold writeChar
  rw [if_neg h13]
  cases hc : c.isCif1 with
  | true => simp
  | false =>
    rw [hc] at h
    have : Model.hasDisallowed s = false := by simpa using h.2
    simp [this]

theorem strClean_of (cif1 : Bool) (s : Str) (h13 : (13 : CU) ∉ s) (hd : cif1 = false → Model.hasDisallowed s = false) :
    strClean cif1 s = true := by
  unfold strClean
  have : s.contains 13 = false := by simpa using h13
  rw [this]
  cases cif1 with
  | true => simp
  | false => simp [hd rfl]

theorem strClean_noCR (cif1 : Bool) (s : Str) (h : strClean cif1 s = true) : (13 : CU) ∉ s := by
  unfold strClean at h
  simp only [Bool.and_eq_true, Bool.not_eq_true'] at h
  intro hm
  have : s.contains 13 = true := by simpa using hm
  rw [h.1] at this; cases this

theorem strClean_allowed (s : Str) (h : strClean false s = true) : Model.hasDisallowed s = false := by
  unfold strClean at h
  simp only [Bool.and_eq_true, Bool.not_eq_true', Bool.false_or] at h
  exact h.2

/-- `write_char` refuses at once, or is its core -/
theorem writeChar_cases (c : Ctx) (s : Str) (quoted allowText : Bool) :
    (writeChar c s quoted allowText = .error Gen.ErrCodes.CIF_DISALLOWED_VALUE ∧ (13 : CU) ∈ s)
    ∨ (writeChar c s quoted allowText = .error Gen.ErrCodes.CIF_DISALLOWED_CHAR ∧ (13 : CU) ∉ s ∧ c.isCif1 = false ∧ Model.hasDisallowed s = true)
    ∨ (writeChar c s quoted allowText = writeCharCore c s quoted allowText ∧ strClean c.isCif1 s = true) := by
  by_cases h13 : (13 : CU) ∈ s
  · exact Or.inl ⟨writeChar_cr c s quoted allowText h13, h13⟩
  · by_cases hd : c.isCif1 = false ∧ Model.hasDisallowed s = true
    · exact Or.inr (Or.inl ⟨writeChar_disallowed c s quoted allowText h13 hd.1 hd.2, h13, hd.1, hd.2⟩)
    · have hcl : strClean c.isCif1 s = true := by
        unfold strClean
        have : s.contains 13 = false := by simpa using h13
        rw [this]
        cases hc : c.isCif1 with
        | true => simp
        | false =>
          cases hh : Model.hasDisallowed s with
          | false => simp
          | true => exact absurd ⟨hc, hh⟩ hd
      exact Or.inr (Or.inr ⟨writeChar_clean c s quoted allowText hcl, hcl⟩)

/-- a successful `write_char` was given a clean text, and did what its core does -/
theorem writeChar_ok (c : Ctx) (s : Str) (quoted allowText : Bool) (r : Str × Ctx) (h : writeChar c s quoted allowText = .ok r) :
    strClean c.isCif1 s = true ∧ writeCharCore c s quoted allowText = .ok r := by
  rcases writeChar_cases c s quoted allowText with ⟨e, _⟩ | ⟨e, _⟩ | ⟨e, hcl⟩
  · rw [e] at h; cases h
  · rw [e] at h; cases h
  · exact ⟨hcl, by rw [← e]; exact h⟩

end CifModel.Lemmas.WriterChar
