import CifModel.Lemmas.NumbLimbPass
import CifModel.Lemmas.NumbRound
/-
  Limb level of C10, part 2: round_to_int / round_it / compare_half / is_zero over the limbs of the work array compute
  the same as `roundToInt` on the fraction (number of the array) / (weight of the units limb).
-/
namespace CifModel.Lemmas.NumbLimbRound
open CifModel.Model.Numb CifModel.Model.NumbLimbs CifModel.Lemmas.NumbLimbPass

theorem nat_eq_zero : ∀ (l : List Nat), natOfLimbs l = 0 → ∀ x ∈ l, x = 0 := by
  intro l
  induction l with
  | nil => intro _ x hx; simp at hx
  | cons a t ih =>
    intro h x hx
    rw [nat_cons] at h
    have hW : 0 < Bb ^ t.length := Nat.pow_pos Bb_pos
    have ha : a = 0 := by
      rcases Nat.eq_zero_or_pos a with h0 | h0
      · exact h0
      · have : 1 * Bb ^ t.length ≤ a * Bb ^ t.length := Nat.mul_le_mul_right _ h0
        omega
    rw [List.mem_cons] at hx
    rcases hx with e | e
    · rw [e]; exact ha
    · rw [ha] at h; simp at h; exact ih h x e

/-- `is_zero` over the limbs `i+1 .. lsd`, with zeroes behind `lsd`: the whole tail is zero -/
theorem isZero_iff (ds : List Nat) (i lsd : Nat) (hz : ∀ j, lsd < j → ds.getD j 0 = 0) :
    (i = lsd ∨ isZero ds (ds.getD (i + 1) 0) (i + 1) lsd = true) ↔ (i ≤ lsd → natOfLimbs (ds.drop (i + 1)) = 0) ∧
      (lsd < i → True) ∧ (i = lsd ∨ (∀ j, i < j → j ≤ lsd → ds.getD j 0 = 0)) := by
  constructor
  · intro h
    refine ⟨?_, fun _ => trivial, ?_⟩
    · intro hle
      apply all_zero_nat
      apply drop_zero_of_idx
      intro j hj
      rcases Nat.lt_or_ge lsd j with h1 | h1
      · exact hz j h1
      · rcases h with h | h
        · omega
        · unfold isZero at h
          simp only [Bool.and_eq_true, decide_eq_true_eq, List.all_eq_true] at h
          rcases Nat.eq_or_lt_of_le hj with e | e
          · rw [← e]; exact h.1
          · -- j ≥ i + 2: inside the `all`
            have hm : ds.getD j 0 ∈ (ds.drop (i + 1 + 1)).take (lsd - (i + 1)) ∨ ds.getD j 0 = 0 := by
              rw [List.getD_eq_getElem?_getD]
              cases hj2 : ds[j]? with
              | none => right; rfl
              | some v =>
                left
                simp only [Option.getD_some]
                rw [List.mem_take_iff_getElem]
                refine ⟨j - (i + 2), ?_, ?_⟩
                · have hlt : j < ds.length := by
                    rcases Nat.lt_or_ge j ds.length with hh | hh
                    · exact hh
                    · rw [List.getElem?_eq_none hh] at hj2; cases hj2
                  rw [List.length_drop]
                  omega
                · rw [List.getElem_drop]
                  have : i + 1 + 1 + (j - (i + 2)) = j := by omega
                  simp only [this]
                  have := List.getElem?_eq_some_iff.mp hj2
                  obtain ⟨_, hv⟩ := this
                  exact hv
            rcases hm with hm | hm
            · have := h.2 _ hm; simpa using this
            · exact hm
    · rcases h with h | h
      · left; exact h
      · right
        intro j h1 h2
        unfold isZero at h
        simp only [Bool.and_eq_true, decide_eq_true_eq, List.all_eq_true] at h
        rcases Nat.eq_or_lt_of_le h1 with e | e
        · rw [← e]; exact h.1
        · rw [List.getD_eq_getElem?_getD]
          cases hj2 : ds[j]? with
          | none => rfl
          | some v =>
            simp only [Option.getD_some]
            have hlt : j < ds.length := by
              rcases Nat.lt_or_ge j ds.length with hh | hh
              · exact hh
              · rw [List.getElem?_eq_none hh] at hj2; cases hj2
            have hm : v ∈ (ds.drop (i + 1 + 1)).take (lsd - (i + 1)) := by
              rw [List.mem_take_iff_getElem]
              refine ⟨j - (i + 2), by rw [List.length_drop]; omega, ?_⟩
              rw [List.getElem_drop]
              have : i + 1 + 1 + (j - (i + 2)) = j := by omega
              simp only [this]
              obtain ⟨_, hv⟩ := List.getElem?_eq_some_iff.mp hj2
              exact hv
            have := h.2 _ hm
            simpa using this
  · intro ⟨_, _, h3⟩
    rcases h3 with h3 | h3
    · left; exact h3
    · right
      unfold isZero
      simp only [Bool.and_eq_true, decide_eq_true_eq, List.all_eq_true]
      by_cases hil : i < lsd
      · refine ⟨h3 (i + 1) (by omega) (by omega), ?_⟩
        intro x hx
        rw [List.mem_take_iff_getElem] at hx
        obtain ⟨k, hk, hx⟩ := hx
        rw [List.getElem_drop] at hx
        have hk' : k < lsd - (i + 1) := by omega
        have := h3 (i + 1 + 1 + k) (by omega) (by omega)
        rw [List.getD_eq_getElem?_getD] at this
        have hlt : i + 1 + 1 + k < ds.length := by
          have : k < (ds.drop (i + 1 + 1)).length := by omega
          rw [List.length_drop] at this
          omega
        rw [List.getElem?_eq_getElem hlt] at this
        simp only [Option.getD_some] at this
        rw [← hx]
        simpa using this
      · refine ⟨hz (i + 1) (by omega), ?_⟩
        intro x hx
        have : lsd - (i + 1) = 0 := by omega
        rw [this] at hx
        simp at hx


theorem tail_zero_iff (ds : List Nat) (i lsd : Nat) (hil : i ≤ lsd) (hz : ∀ j, lsd < j → ds.getD j 0 = 0) :
    (i = lsd ∨ isZero ds (ds.getD (i + 1) 0) (i + 1) lsd = true) ↔ natOfLimbs (ds.drop (i + 1)) = 0 := by
  constructor
  · intro h
    exact ((isZero_iff ds i lsd hz).mp h).1 hil
  · intro h
    apply (isZero_iff ds i lsd hz).mpr
    refine ⟨fun _ => h, fun _ => trivial, Or.inr ?_⟩
    intro j h1 h2
    have hall := nat_eq_zero _ h
    rw [List.getD_eq_getElem?_getD]
    cases hj : ds[j]? with
    | none => rfl
    | some v =>
      simp only [Option.getD_some]
      apply hall
      rw [List.mem_drop_iff_getElem]
      have hlt : j < ds.length := by
        rcases Nat.lt_or_ge j ds.length with hh | hh
        · exact hh
        · rw [List.getElem?_eq_none hh] at hj; cases hj
      refine ⟨j - (i + 1), by omega, ?_⟩
      have : i + 1 + (j - (i + 1)) = j := by omega
      simp only [this]
      obtain ⟨_, hv⟩ := List.getElem?_eq_some_iff.mp hj
      exact hv

/-- **round_to_int over limbs = round_to_int on the fraction**: with `N` the number of the whole array and
    `D = 10⁹^(limbs behind the units limb)`, the limb-level rounding of the integer part `N / D` equals the
    exact-arithmetic `roundToInt N D` -/
theorem roundToIntLimbs_eq (ds : List Nat) (units lsd : Nat) (hs : Small ds) (hz : ∀ j, lsd < j → ds.getD j 0 = 0)
    (hl : lsd < ds.length) (hu : units < ds.length) :
    roundToIntLimbs ds (natOfLimbs (ds.take (units + 1))) units lsd =
      roundToInt (natOfLimbs ds) (Bb ^ (ds.length - (units + 1))) := by
  have hsplit : ds = ds.take (units + 1) ++ ds.drop (units + 1) := (List.take_append_drop _ _).symm
  have hN : natOfLimbs ds = natOfLimbs (ds.take (units + 1)) * Bb ^ (ds.drop (units + 1)).length
      + natOfLimbs (ds.drop (units + 1)) := by
    have := nat_append (ds.take (units + 1)) (ds.drop (units + 1))
    rw [← hsplit] at this
    exact this
  have hlo : natOfLimbs (ds.drop (units + 1)) < Bb ^ (ds.drop (units + 1)).length :=
    nat_lt _ (fun x hx => hs x (List.mem_of_mem_drop hx))
  have hlen : (ds.drop (units + 1)).length = ds.length - (units + 1) := List.length_drop
  rw [hlen] at hN hlo
  generalize hM : natOfLimbs (ds.take (units + 1)) = M at *
  generalize hR : natOfLimbs (ds.drop (units + 1)) = R at *
  generalize hD : Bb ^ (ds.length - (units + 1)) = D at *
  have hDpos : 0 < D := by rw [← hD]; exact Nat.pow_pos Bb_pos
  have hdiv : natOfLimbs ds / D = M := by
    rw [hN, Nat.mul_comm M D, Nat.mul_add_div hDpos, Nat.div_eq_of_lt hlo]; simp
  have hmod : natOfLimbs ds % D = R := by
    rw [hN, Nat.mul_comm M D, Nat.mul_add_mod, Nat.mod_eq_of_lt hlo]
  unfold roundToIntLimbs roundToInt
  simp only [hdiv, hmod]
  by_cases h1 : lsd < units + 1
  · -- no fractional limbs
    rw [if_pos h1]
    have : R = 0 := by
      rw [← hR]
      apply all_zero_nat
      apply drop_zero_of_idx
      intro j hj
      exact hz j (by omega)
    rw [if_pos this]
  · rw [if_neg h1]
    -- the first fractional limb and what follows it
    have hu2 : units + 1 < ds.length := by omega
    have hdrop : ds.drop (units + 1) = ds.getD (units + 1) 0 :: ds.drop (units + 1 + 1) := by
      rw [List.getD_eq_getElem?_getD, List.getElem?_eq_getElem hu2]
      simp only [Option.getD_some]
      exact List.drop_eq_getElem_cons hu2
    have hx : ds.getD (units + 1) 0 < Bb := by
      rw [List.getD_eq_getElem?_getD, List.getElem?_eq_getElem hu2]
      exact hs _ (List.getElem_mem hu2)
    have hRx : R = ds.getD (units + 1) 0 * Bb ^ (ds.drop (units + 1 + 1)).length + natOfLimbs (ds.drop (units + 1 + 1)) := by
      rw [← hR, hdrop, nat_cons]
    have ht : natOfLimbs (ds.drop (units + 1 + 1)) < Bb ^ (ds.drop (units + 1 + 1)).length :=
      nat_lt _ (fun x hx => hs x (List.mem_of_mem_drop hx))
    have hDW : D = Bb * Bb ^ (ds.drop (units + 1 + 1)).length := by
      rw [← hD, List.length_drop]
      have : ds.length - (units + 1) = (ds.length - (units + 1 + 1)) + 1 := by omega
      rw [this, Nat.pow_succ, Nat.mul_comm]
    have htz := tail_zero_iff ds (units + 1) lsd (by omega) hz
    generalize ds.getD (units + 1) 0 = x at *
    generalize natOfLimbs (ds.drop (units + 1 + 1)) = T at *
    generalize Bb ^ (ds.drop (units + 1 + 1)).length = W at *
    have hWpos : 0 < W := by omega
    have hB : Bb = 1000000000 := rfl
    have hB2 : BBASE / 2 = 500000000 := by decide
    unfold roundIt compareHalf
    rw [hB2]
    have hpar : M % 2 = 0 ∨ M % 2 = 1 := by omega
    by_cases c1 : x < 500000000
    · -- less than half
      rw [if_pos c1]
      simp only
      have hlt : 2 * R < D := by
        have : (x + 1) * W ≤ 500000000 * W := Nat.mul_le_mul_right _ c1
        have e1 : (x + 1) * W = x * W + W := by grind
        have e2 : Bb * W = 2 * (500000000 * W) := by rw [hB]; grind
        omega
      by_cases hr0 : R = 0
      · rw [if_pos hr0]; omega
      · rw [if_neg hr0]
        have n1 : ¬ (D < 2 * R) := by omega
        have n2 : ¬ (2 * R = D) := by omega
        rw [if_neg n1, if_neg n2]
    · rw [if_neg c1]
      by_cases c2 : x = 500000000 ∧ (units + 1 = lsd ∨ isZero ds (ds.getD (units + 1 + 1) 0) (units + 1 + 1) lsd = true)
      · -- exactly half
        rw [if_pos c2]
        simp only
        have hT0 : T = 0 := htz.mp c2.2
        have heq : 2 * R = D := by
          rw [hRx, hT0, c2.1, hDW, hB]; grind
        have hr0 : ¬ R = 0 := by omega
        have n1 : ¬ (D < 2 * R) := by omega
        rw [if_neg hr0, if_neg n1, if_pos heq]
        rcases hpar with hp | hp
        · rw [hp]; simp
        · rw [hp]; simp
      · rw [if_neg c2]
        simp only
        have hgt : D < 2 * R := by
          by_cases hx5 : x = 500000000
          · have hT0 : T ≠ 0 := fun e => c2 ⟨hx5, htz.mpr e⟩
            rw [hRx, hx5, hDW, hB]
            have : 1000000000 * W = 2 * (500000000 * W) := by grind
            omega
          · have hx6 : 500000001 ≤ x := by omega
            have : 500000001 * W ≤ x * W := Nat.mul_le_mul_right _ hx6
            have e2 : Bb * W = 2 * (500000000 * W) := by rw [hB]; grind
            have e3 : 500000001 * W = 500000000 * W + W := by grind
            omega
        have hr0 : ¬ R = 0 := by omega
        rw [if_neg hr0, if_pos hgt]

end CifModel.Lemmas.NumbLimbRound
