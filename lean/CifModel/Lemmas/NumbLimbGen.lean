import CifModel.Lemmas.NumbLimbCarry
import CifModel.Lemmas.NumbMisc
import CifModel.Lemmas.NumbDigits
/-
  Limb level of C10, part 7: digit generation of to_digits — the decimal digits printed limb by limb are the decimal
  numeral of the number the limbs denote.
-/
namespace CifModel.Lemmas.NumbLimbGen
open CifModel.Model.Numb CifModel.Model.NumbLimbs CifModel.Lemmas.NumbLimbPass CifModel.Lemmas.NumbLimbCarry
  CifModel.Lemmas.NumbMisc

/-! ### decimal numerals -/

theorem decDigitsF_step : ∀ (f n : Nat), n < f → decDigitsF (f + 1) n = decDigitsF f n := by
  intro f
  induction f with
  | zero => intro n h; omega
  | succ g ih =>
    intro n h
    have e1 : decDigitsF (g + 1 + 1) n = if n < 10 then [n] else decDigitsF (g + 1) (n / 10) ++ [n % 10] := rfl
    have e2 : decDigitsF (g + 1) n = if n < 10 then [n] else decDigitsF g (n / 10) ++ [n % 10] := rfl
    rw [e1, e2]
    by_cases h10 : n < 10
    · rw [if_pos h10, if_pos h10]
    · rw [if_neg h10, if_neg h10, ih (n / 10) (by omega)]

theorem decDigitsF_fuel : ∀ (k f n : Nat), n < f → decDigitsF (f + k) n = decDigitsF f n := by
  intro k
  induction k with
  | zero => intro f n _; rfl
  | succ j ih =>
    intro f n h
    rw [← Nat.add_assoc, decDigitsF_step (f + j) n (by omega), ih f n h]

/-- the recursion equation of `decDigits` -/
theorem decDigits_unfold (n : Nat) : decDigits n = if n < 10 then [n] else decDigits (n / 10) ++ [n % 10] := by
  unfold decDigits
  rw [decDigitsF]
  by_cases h10 : n < 10
  · rw [if_pos h10, if_pos h10]
  · rw [if_neg h10, if_neg h10]
    have hk := decDigitsF_fuel (n - (n / 10 + 1)) (n / 10 + 1) (n / 10) (by omega)
    have : n / 10 + 1 + (n - (n / 10 + 1)) = n := by omega
    rw [this] at hk
    rw [hk]

/-- `limbDigits k` prints the low `k` decimal digits -/
theorem limbDigits_mod : ∀ (k n : Nat), limbDigits k n = limbDigits k (n % 10 ^ k) := by
  intro k
  induction k with
  | zero => intro n; rfl
  | succ j ih =>
    intro n
    rw [limbDigits, limbDigits, ih (n / 10), ih (n % 10 ^ (j + 1) / 10)]
    have h1 : n % 10 ^ (j + 1) / 10 % 10 ^ j = n / 10 % 10 ^ j := by
      rw [Nat.pow_succ, Nat.mul_comm, Nat.mod_mul_right_div_self]
      exact Nat.mod_mod _ _
    have h2 : n % 10 ^ (j + 1) % 10 = n % 10 := by
      rw [Nat.pow_succ, Nat.mul_comm]
      exact Nat.mod_mul_right_mod _ _ _
    rw [h1, h2]

theorem limbDigits_zero : ∀ (k : Nat), limbDigits k 0 = List.replicate k 0 := by
  intro k
  induction k with
  | zero => rfl
  | succ j ih =>
    rw [limbDigits]
    simp only [Nat.zero_div, Nat.zero_mod]
    rw [ih, List.replicate_succ']

theorem limbDigits_length : ∀ (k n : Nat), (limbDigits k n).length = k := by
  intro k
  induction k with
  | zero => intro n; rfl
  | succ j ih => intro n; rw [limbDigits, List.length_append, ih]; rfl

/-- a numeral followed by `k` more digits -/
theorem decDigits_shift : ∀ (k a b : Nat), 1 ≤ a → b < 10 ^ k → decDigits (a * 10 ^ k + b) = decDigits a ++ limbDigits k b := by
  intro k
  induction k with
  | zero =>
    intro a b _ hb
    have : b = 0 := by simpa using hb
    rw [this]; simp [limbDigits]
  | succ j ih =>
    intro a b ha hb
    have hpos : 0 < 10 ^ j := Nat.pow_pos (by decide)
    have hge : ¬ (a * 10 ^ (j + 1) + b < 10) := by
      have : 1 * (10 ^ j * 10) ≤ a * (10 ^ j * 10) := Nat.mul_le_mul_right _ ha
      rw [Nat.pow_succ]; omega
    rw [decDigits_unfold, if_neg hge]
    have hdiv : (a * 10 ^ (j + 1) + b) / 10 = a * 10 ^ j + b / 10 := by
      rw [Nat.pow_succ]
      have : a * (10 ^ j * 10) + b = 10 * (a * 10 ^ j) + b := by grind
      rw [this, Nat.mul_add_div (by decide)]
    have hmod : (a * 10 ^ (j + 1) + b) % 10 = b % 10 := by
      rw [Nat.pow_succ]
      have : a * (10 ^ j * 10) + b = 10 * (a * 10 ^ j) + b := by grind
      rw [this, Nat.mul_add_mod]
    rw [hdiv, hmod, ih a (b / 10) ha (by rw [Nat.pow_succ] at hb; omega), limbDigits, List.append_assoc]

/-- printing a number with as many digits as its numeral has gives the numeral -/
theorem limbDigits_count (n : Nat) : limbDigits (countDigits n) n = decDigits n := by
  unfold countDigits
  induction n using Nat.strongRecOn with
  | _ n ih =>
    rw [decDigits_unfold]
    by_cases h10 : n < 10
    · rw [if_pos h10]
      simp [limbDigits, Nat.div_eq_of_lt h10, Nat.mod_eq_of_lt h10]
    · rw [if_neg h10]
      simp only [List.length_append, List.length_cons, List.length_nil]
      rw [limbDigits, ih (n / 10) (by omega)]


/-! ### the digits printed for a run of limbs -/

theorem Bb_ten : Bb = 10 ^ 9 := by decide

/-- the numeral of `a` followed by nine digits per limb (each limb read modulo 10⁹) is the numeral of the number -/
theorem digits_of_limbs : ∀ (ys : List Nat) (a : Nat), 1 ≤ a →
    decDigits (a * Bb ^ ys.length + natOfLimbs (ys.map (· % BBASE))) = decDigits a ++ ys.flatMap (limbDigits DDIG_PER_DIG) := by
  intro ys
  induction ys with
  | nil => intro a _; simp [natOfLimbs]
  | cons y t ih =>
    intro a ha
    have hy : y % BBASE < 10 ^ 9 := Nat.mod_lt _ (by decide)
    have e1 : a * Bb ^ (y :: t).length + natOfLimbs ((y :: t).map (· % BBASE))
        = (a * Bb + y % BBASE) * Bb ^ t.length + natOfLimbs (t.map (· % BBASE)) := by
      simp only [List.map_cons, List.length_cons]
      rw [nat_cons, List.length_map, Nat.pow_succ]
      grind
    rw [e1, ih (a * Bb + y % BBASE) (by have : 1 * 1 ≤ a * Bb := Nat.mul_le_mul ha Bb_pos; omega)]
    rw [Bb_ten, decDigits_shift 9 a (y % BBASE) ha hy]
    have : limbDigits 9 (y % BBASE) = limbDigits DDIG_PER_DIG y := by
      have := limbDigits_mod 9 y
      unfold DDIG_PER_DIG
      rw [this]; rfl
    rw [this]
    simp [List.flatMap_cons]

/-- cutting the `rp` trailing zeroes of `10^rp · z` -/
theorem take_numeral (z rp : Nat) (hz : 1 ≤ z) :
    (decDigits (pow10 rp * z)).take ((decDigits (pow10 rp * z)).length - rp) = decDigits z := by
  have e : pow10 rp * z = z * 10 ^ rp + 0 := by unfold pow10; grind
  rw [e, decDigits_shift rp z 0 hz (Nat.pow_pos (by decide)), limbDigits_zero]
  rw [List.length_append, List.length_replicate, Nat.add_sub_cancel]
  exact List.take_left' rfl

end CifModel.Lemmas.NumbLimbGen
