import CifModel.Lemmas.StoreTx
import CifModel.Lemmas.StoreWorld
import CifModel.Model.PktItr
/-
  Lemmas/StoreQuiet — every API function other than a successful cif_loop_get_packets returns a store in autocommit mode when it was
  given one (the library leaves no transaction open: C05's concern, here as a fact about the mode), and cif_pktitr_close /
  cif_pktitr_abort always do.  With "at most one iterator per CIF" this gives the `quiet` part of `WOk`: a CIF without open iterator is
  in autocommit mode — which is what lets the documented model (no transactions) speak about the calls that BEGIN.
-/
namespace CifModel.Store
open Gen.ErrCodes

theorem commit_getD_autocommit (s : Store) : (s.commit.getD s).autocommit = true := by
  unfold Store.commit
  cases h : s.autocommit with
  | true => simp [h]
  | false => simp [Store.autocommit]

theorem rollback_getD_autocommit (s : Store) : (s.rollback.getD s).autocommit = true := by
  unfold Store.rollback
  cases h : s.autocommit with
  | true => simp [h]
  | false => simp [Store.autocommit]

theorem begin_commitD (s s1 : Store) (d : Db) (hb : s.begin = some s1) : ((({ s1 with db := d } : Store).commit).getD s1).autocommit = true := by
  obtain ⟨_, rfl⟩ := begin_autocommit s s1 hb
  simp [Store.commit, Store.autocommit]

theorem begin_rollbackD (s s1 : Store) (hb : s.begin = some s1) : (s1.rollback.getD s1).autocommit = true := rollback_getD_autocommit s1

theorem setDb_autocommit (s : Store) (d : Db) (h : s.autocommit = true) : ({ s with db := d } : Store).autocommit = true := h

theorem nest_autocommit {α} (s : Store) (body : Db → Except Code (Db × α)) (h : s.autocommit = true) : (s.nest body).1.autocommit = true := by
  unfold Store.nest Store.beginNest
  simp only [h, if_true]
  split
  · simp [Store.commitNest, Store.commit, Store.autocommit]
  · simp [Store.rollbackNest, Store.rollback, Store.autocommit]

theorem nestRO_autocommit {α} (s : Store) (body : Db → Except Code α) (h : s.autocommit = true) : (s.nestRO body).1.autocommit = true := by
  rw [(nestRO_same s body).eq_of_autocommit h]; exact h

theorem createBlock_autocommit (s : Store) (n : Option Name) (len : Bool) (h : s.autocommit = true) : (createBlock s n len).1.autocommit = true := by
  unfold createBlock
  split; · exact h
  split; · exact h
  split; · exact h
  rename_i s1 hb
  simp only []
  split
  · exact begin_rollbackD s s1 hb
  · exact begin_commitD s s1 _ hb

theorem createFrame_autocommit (s : Store) (hd : CH) (n : Option Name) (len : Bool) (h : s.autocommit = true) : (createFrame s hd n len).1.autocommit = true := by
  unfold createFrame
  split; · exact h
  split; · exact h
  split; · exact h
  rename_i s1 hb
  simp only []
  split
  · exact begin_rollbackD s s1 hb
  · exact begin_commitD s s1 _ hb

theorem destroyContainer_autocommit (s : Store) (hd : CH) (h : s.autocommit = true) : (destroyContainer s hd).1.autocommit = true := by
  unfold destroyContainer; simp only []; split <;> exact h

theorem createLoop_autocommit (s : Store) (hd : CH) (cat : Option Str) (names : List Name) (h : s.autocommit = true) :
    (createLoop s hd cat names).1.autocommit = true := by
  unfold createLoop
  split; · exact h
  split; · exact h
  exact nest_autocommit s _ h

theorem allLoops_autocommit (s : Store) (hd : CH) (h : s.autocommit = true) : (allLoops s hd).1.autocommit = true := nestRO_autocommit s _ h
theorem getNames_autocommit (s : Store) (l : LH) (h : s.autocommit = true) : (getNames s l).1.autocommit = true := nestRO_autocommit s _ h

theorem prune_autocommit (s : Store) (hd : CH) (h : s.autocommit = true) : (prune s hd).1.autocommit = true := h

theorem setValue_autocommit (s : Store) (hd : CH) (n : Option Name) (v : Option V) (h : s.autocommit = true) : (setValue s hd n v).1.autocommit = true := by
  unfold setValue
  split; · exact h
  split; · exact h
  split; · exact h
  split
  · exact commit_getD_autocommit _
  · exact rollback_getD_autocommit _

theorem removeItem_autocommit (s : Store) (hd : CH) (n : Option Name) (h : s.autocommit = true) : (removeItem s hd n).1.autocommit = true := by
  unfold removeItem
  split; · exact h
  split; · exact h
  split; · exact h
  rename_i s1 hb
  split
  · exact begin_rollbackD s s1 hb
  · exact begin_commitD s s1 _ hb

theorem destroyLoop_autocommit (s : Store) (l : LH) (h : s.autocommit = true) : (destroyLoop s l).1.autocommit = true := by
  unfold destroyLoop; simp only []; split
  · exact h
  · split <;> exact h

theorem setCategory_autocommit (s : Store) (l : LH) (cat : Option Str) (h : s.autocommit = true) : (setCategory s l cat).1.autocommit = true := by
  unfold setCategory
  split; · exact h
  split
  · exact h
  · simp only []; split
    · exact h
    · split <;> exact h

theorem addItem_autocommit (s : Store) (l : LH) (n : Option Name) (v : Option V) (h : s.autocommit = true) : (addItem s l n v).1.autocommit = true := by
  unfold addItem
  split; · exact h
  split; · exact h
  have := nest_autocommit s (addItemBody l (by assumption : Name).key (by assumption : Name).orig (v.getD .unk)) h
  unfold addItemInternal
  split
  · rename_i he; rw [he] at this; exact this
  · rename_i he; rw [he] at this; exact this

theorem addPacket_autocommit (s : Store) (l : LH) (p : List (Str × V)) (h : s.autocommit = true) : (addPacket s l p).1.autocommit = true := by
  unfold addPacket
  split; · exact h
  exact nest_autocommit s _ h

/-- cif_loop_get_packets that does not deliver an iterator leaves autocommit mode as it was -/
theorem getPackets_autocommit (s : Store) (l : LH) (h : s.autocommit = true) (c : Code) (he : (getPackets s l).2 = .error c) :
    (getPackets s l).1.autocommit = true := by
  have hn := getNames_autocommit s l h
  revert he
  unfold getPackets
  split
  · rename_i s1 c1 hg; rw [hg] at hn; intro _; exact hn
  · rename_i s1 ns hg
    rw [hg] at hn
    split
    · intro _; exact hn
    · rename_i s2 hb
      split
      · intro _; exact rollback_getD_autocommit s2
      · intro he; cases he

theorem closeIter_autocommit (s : Store) : (closeIter s).1.autocommit = true := by
  unfold closeIter
  split
  · rename_i s1 hc
    have := commit_getD_autocommit s; rw [hc] at this; exact this
  · exact rollback_getD_autocommit s

theorem abortIter_autocommit (s : Store) : (abortIter s).1.autocommit = true := by
  unfold abortIter
  split
  · rename_i s1 hc
    have := rollback_getD_autocommit s; rw [hc] at this; exact this
  · rename_i hc
    unfold Store.rollback at hc
    by_cases h : s.autocommit = true
    · exact h
    · simp [h] at hc

end CifModel.Store
