import CifModel.Lemmas.LexDefectChar
/-
  Lemmas/LexReserved — CIF_RESERVED_WORD: the whitespace-delimited words `data_` (no code), `stop_`, `global_` (any case)
  are reported INSIDE next_token (the reserved-word block behind scan_unquoted: `finishUnquoted … .reserved`), dropped
  (CONSUME_TOKEN) and the scan loop goes on: the call hands out the FOLLOWING token.  `save_` alone is not reserved: it is the
  frame terminator (FRAME_TERM), and `loop_` is LOOPKW.
-/
set_option linter.unusedSimpArgs false
set_option linter.unusedVariables false

namespace CifModel.Model.Lexer
open CifModel CifModel.Model.Chars CifModel.Spec.Lexical CifModel.Model.Parser
open CifModel.Gen.ErrCodes

/-- the words next_token reports as CIF_RESERVED_WORD and drops: `data_`, `stop_`, `global_`, case-insensitive -/
def resvWord (wd : Str) : Bool :=
  wd.map lowerAscii == [100, 97, 116, 97, 95] || wd.map lowerAscii == [115, 116, 111, 112, 95]
    || wd.map lowerAscii == [103, 108, 111, 98, 97, 108, 95]

theorem map_eq_cons' {f : Nat → Nat} {l : Str} {x : Nat} {xs : Str} (h : l.map f = x :: xs) :
    ∃ a t, l = a :: t ∧ f a = x ∧ t.map f = xs := by
  cases l with
  | nil => simp at h
  | cons a t => simp only [List.map_cons, List.cons.injEq] at h; exact ⟨a, t, rfl, h.1, h.2⟩

theorem map_eq5 {f : Nat → Nat} {l : Str} {x1 x2 x3 x4 x5 : Nat} (h : l.map f = [x1, x2, x3, x4, x5]) :
    ∃ a b c d e, l = [a, b, c, d, e] ∧ f a = x1 ∧ f b = x2 ∧ f c = x3 ∧ f d = x4 ∧ f e = x5 := by
  obtain ⟨a, t, rfl, h1, h⟩ := map_eq_cons' h
  obtain ⟨b, t, rfl, h2, h⟩ := map_eq_cons' h
  obtain ⟨c, t, rfl, h3, h⟩ := map_eq_cons' h
  obtain ⟨d, t, rfl, h4, h⟩ := map_eq_cons' h
  obtain ⟨e, t, rfl, h5, h⟩ := map_eq_cons' h
  have : t = [] := by simpa using h
  subst this
  exact ⟨a, b, c, d, e, rfl, h1, h2, h3, h4, h5⟩

theorem map_eq7 {f : Nat → Nat} {l : Str} {x1 x2 x3 x4 x5 x6 x7 : Nat} (h : l.map f = [x1, x2, x3, x4, x5, x6, x7]) :
    ∃ a b c d e g i, l = [a, b, c, d, e, g, i] ∧ f a = x1 ∧ f b = x2 ∧ f c = x3 ∧ f d = x4 ∧ f e = x5 ∧ f g = x6 ∧ f i = x7 := by
  obtain ⟨a, t, rfl, h1, h⟩ := map_eq_cons' h
  obtain ⟨b, t, rfl, h2, h⟩ := map_eq_cons' h
  obtain ⟨c, t, rfl, h3, h⟩ := map_eq_cons' h
  obtain ⟨d, t, rfl, h4, h⟩ := map_eq_cons' h
  obtain ⟨e, t, rfl, h5, h⟩ := map_eq_cons' h
  obtain ⟨g, t, rfl, h6, h⟩ := map_eq_cons' h
  obtain ⟨i, t, rfl, h7, h⟩ := map_eq_cons' h
  have : t = [] := by simpa using h
  subst this
  exact ⟨a, b, c, d, e, g, i, rfl, h1, h2, h3, h4, h5, h6, h7⟩

/-- next_token's dispatch for a token that starts with a letter of class G (as `stepTok_letter` for D, S, L) -/
theorem stepTok_letter_g (dia : Dialect) (a : Nat) (r : Str) (line col : Nat) (hk : classOf dia a = .g) :
    stepTok dia true a r line col
      = L.bind (scanUnquoted dia (a :: r) line col false [] 0 true true)
          (fun s => finishUnquoted dia true s.acc.reverse s.pos) := by
  unfold stepTok
  simp only [bind_eq]
  simp only [pure_eq]
  have : (metaOfCls (classOf dia a) != Meta.close && metaOfCls (classOf dia a) != Meta.ws && !true) = false := by simp
  rw [this, reportIf_false, L.pure_bind]
  have hne : ∀ k : Cls, k ≠ .g → ¬ classOf dia a = k := fun k h1 e => h1 (by rw [← e, hk])
  rw [if_neg (hne .eol (by decide)), if_neg (hne .ws (by decide)), if_neg (hne .hash (by decide)),
    if_neg (hne .undersc (by decide)), if_neg (hne .obrak (by decide)), if_neg (hne .cbrak (by decide)),
    if_neg (hne .ocurl (by decide)), if_neg (hne .ccurl (by decide)), if_neg (hne .quote (by decide)),
    if_neg (hne .semi (by decide)), Nat.add_sub_cancel]

/-- the end of scan_unquoted at whitespace or the end of the input, whatever the keyword flags -/
theorem scanUnquoted_stop (dia : Dialect) (ctx : Str) (hctx : ctx = [] ∨ ∃ d r, ctx = d :: r ∧ isWs d = true)
    (line col k : Nat) (kd ks : Bool) (acc : Str) (pol : Policy) (log : List Report) :
    scanUnquoted dia ctx line col false acc k kd ks pol log = .ok ⟨acc, ⟨ctx, line, col⟩⟩ log := by
  have := scanUnquoted_ok dia ctx hctx line pol log [] none acc col k kd ks rfl trivial rfl (fun _ => rfl)
  simpa using this

/-- one loop iteration over a reserved word (whitespace already seen): CIF_RESERVED_WORD at the first character of the word,
    no token, the position behind the word, `after_ws` still set -/
theorem reserved_step (dia : Dialect) (wd ctx : Str) (hw : resvWord wd = true)
    (hctx : ctx = [] ∨ ∃ d r, ctx = d :: r ∧ isWs d = true) (line col : Nat) (log : List Report) :
    ∃ c r, wd = c :: r ∧
      stepTok dia true c (r ++ ctx) line col acceptAll log
        = .ok (.skip true ⟨ctx, line, col + wd.length⟩) (⟨CIF_RESERVED_WORD, line, col⟩ :: log) := by
  simp only [resvWord, Bool.or_eq_true, beq_iff_eq] at hw
  rcases hw with (hw | hw) | hw
  · -- data_
    obtain ⟨a, b, c, d, e, rfl, h1, h2, h3, h4, h5⟩ := map_eq5 hw
    · refine ⟨a, [b, c, d, e], rfl, ?_⟩
      have hscan := scanUnquoted_kw dia true a b c d e [] ctx (by simp [h1, h2, h3, h4, h5]) (by simp [nonBlankOk, okUnits]) hctx
        line col acceptAll log
      rw [stepTok_letter dia a _ line col (Or.inl ((LF.all dia a).d.mpr h1))]
      simp only [List.cons_append, List.nil_append] at hscan ⊢
      rw [L.bind_ok hscan]
      have hcl := classify_data dia a b c d e [] ⟨h1, h2, h3, h4, h5⟩
      simp only [if_true] at hcl
      simp [finishUnquoted, hcl, report_accept, L.bind, colAdd]
  · -- stop_
    obtain ⟨a, b, c, d, e, rfl, h1, h2, h3, h4, h5⟩ := map_eq5 hw
    · refine ⟨a, [b, c, d, e], rfl, ?_⟩
      have fa := LF.all dia a; have fb := LF.all dia b; have fc := LF.all dia c; have fd := LF.all dia d
      have fe := LF.all dia e
      have ca := fa.s.mpr h1; have cb := fb.t.mpr h2; have cc := fc.o.mpr h3; have cd := fd.p.mpr h4; have ce := fe.u.mpr h5
      rw [stepTok_letter dia a _ line col (Or.inr (Or.inl ca))]
      have hscan : scanUnquoted dia (a :: b :: c :: d :: e :: ctx) line col false [] 0 true true acceptAll log
          = .ok ⟨[e, d, c, b, a], ⟨ctx, line, col + 5⟩⟩ log := by
        rw [scanUnquoted_general_step dia a _ _ _ _ _ _ _ _ _ (letter_facts dia a 115 (by omega) h1).1 (general_of_letter ca (by simp)),
          scanUnquoted_general_step dia b _ _ _ _ _ _ _ _ _ (letter_facts dia b 116 (by omega) h2).1 (general_of_letter cb (by simp)),
          scanUnquoted_general_step dia c _ _ _ _ _ _ _ _ _ (letter_facts dia c 111 (by omega) h3).1 (general_of_letter cc (by simp)),
          scanUnquoted_general_step dia d _ _ _ _ _ _ _ _ _ (letter_facts dia d 112 (by omega) h4).1 (general_of_letter cd (by simp)),
          scanUnquoted_general_step dia e _ _ _ _ _ _ _ _ _ (letter_facts dia e 95 (by omega) h5).1 (general_of_letter ce (by simp))]
        rw [scanUnquoted_stop dia ctx hctx]
      simp only [List.cons_append, List.nil_append]
      rw [L.bind_ok hscan]
      have hcl : classify dia [a, b, c, d, e] = .reserved := by simp [classify, ca, cb, cc, cd, ce]
      simp [finishUnquoted, hcl, report_accept, L.bind]
  · -- global_
    obtain ⟨a, b, c, d, e, f, g, rfl, h1, h2, h3, h4, h5, h6, h7⟩ := map_eq7 hw
    · refine ⟨a, [b, c, d, e, f, g], rfl, ?_⟩
      have fa := LF.all dia a; have fb := LF.all dia b; have fc := LF.all dia c; have fd := LF.all dia d
      have fe := LF.all dia e; have ff := LF.all dia f; have fg := LF.all dia g
      have ca := fa.g.mpr h1; have cb := fb.l.mpr h2; have cc := fc.o.mpr h3; have cd := fd.b.mpr h4; have ce := fe.a.mpr h5
      have cf := ff.l.mpr h6; have cg := fg.u.mpr h7
      rw [stepTok_letter_g dia a _ line col ca]
      have hscan : scanUnquoted dia (a :: b :: c :: d :: e :: f :: g :: ctx) line col false [] 0 true true acceptAll log
          = .ok ⟨[g, f, e, d, c, b, a], ⟨ctx, line, col + 7⟩⟩ log := by
        rw [scanUnquoted_general_step dia a _ _ _ _ _ _ _ _ _ (letter_facts dia a 103 (by omega) h1).1 (by rw [ca]; rfl),
          scanUnquoted_general_step dia b _ _ _ _ _ _ _ _ _ (letter_facts dia b 108 (by omega) h2).1 (general_of_letter cb (by simp)),
          scanUnquoted_general_step dia c _ _ _ _ _ _ _ _ _ (letter_facts dia c 111 (by omega) h3).1 (general_of_letter cc (by simp)),
          scanUnquoted_general_step dia d _ _ _ _ _ _ _ _ _ (letter_facts dia d 98 (by omega) h4).1 (by rw [cd]; rfl),
          scanUnquoted_general_step dia e _ _ _ _ _ _ _ _ _ (letter_facts dia e 97 (by omega) h5).1 (general_of_letter ce (by simp)),
          scanUnquoted_general_step dia f _ _ _ _ _ _ _ _ _ (letter_facts dia f 108 (by omega) h6).1 (general_of_letter cf (by simp)),
          scanUnquoted_general_step dia g _ _ _ _ _ _ _ _ _ (letter_facts dia g 95 (by omega) h7).1 (general_of_letter cg (by simp))]
        rw [scanUnquoted_stop dia ctx hctx]
      simp only [List.cons_append, List.nil_append]
      rw [L.bind_ok hscan]
      have hcl : classify dia [a, b, c, d, e, f, g] = .reserved := by simp [classify, ca, cb, cc, cd, ce, cf, cg]
      simp [finishUnquoted, hcl, report_accept, L.bind]

/-- the scan loop over a reserved word: it goes on behind the word with the report logged -/
theorem reserved_loop (dia : Dialect) (wd ctx : Str) (hw : resvWord wd = true) (hctx : wsOrEnd ctx = true)
    (line col f : Nat) (log : List Report) (hf : (wd ++ ctx).length ≤ f) :
    tokLoop dia (f + 1) true ⟨wd ++ ctx, line, col⟩ acceptAll log
      = tokLoop dia (ctx.length + 1) true ⟨ctx, line, col + wd.length⟩ acceptAll (⟨CIF_RESERVED_WORD, line, col⟩ :: log) := by
  obtain ⟨c, r, rfl, hstep⟩ := reserved_step dia wd ctx hw (wsOrEnd_iff hctx) line col log
  rw [List.cons_append, tokLoop_cons, L.bind_ok hstep]
  simp only []
  simp only [List.cons_append, List.length_cons, List.length_append] at hf
  exact tokLoop_fuel dia acceptAll f (ctx.length + 1) true _ _ (by simp only []; omega) (by simp)

/-- **next_token at a reserved word** (`data_`, `stop_`, `global_`; whitespace not required in front, or already seen): ONE
    report CIF_RESERVED_WORD at the first character of the word, and the call answers what a call behind the word answers -/
theorem reserved_nextToken (dia : Dialect) (wd ctx : Str) (hw : resvWord wd = true) (hctx : wsOrEnd ctx = true)
    (line col : Nat) (lt lt' : TokType) (log : List Report) (haw : afterWsOf lt = true) (haw' : afterWsOf lt' = true) :
    nextToken dia ⟨wd ++ ctx, line, col, lt⟩ acceptAll log
      = nextToken dia ⟨ctx, line, col + wd.length, lt'⟩ acceptAll (⟨CIF_RESERVED_WORD, line, col⟩ :: log) := by
  rw [nextToken_eq, nextToken_eq]
  simp only [haw, haw']
  rw [reserved_loop dia wd ctx hw hctx line col _ log (Nat.le_refl _)]

end CifModel.Model.Lexer
