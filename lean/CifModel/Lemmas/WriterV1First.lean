import CifModel.Lemmas.WriterV1Refuse
/-
  Lemmas/WriterV1First — WHICH element the CIF 1.1 writer refuses: the first one, in the order of the walk and of the writer's own
  checks, that CIF 1.1 cannot express; its kind fixes the result code.  `firstRefused` scans the walked CIF in that order
  (independent of the writer's code paths); the invariant `First c r x` — "the step succeeds if `x = none`, and fails with the code
  of `f` if `x = some f`" — is closed under `andThen` with "the first of the two" (`orE`).
-/
set_option linter.unusedSimpArgs false
set_option linter.unusedVariables false

namespace CifModel.Lemmas.WriterV1
open CifModel CifModel.Model CifModel.Model.Writer CifModel.Gen CifModel.Lemmas.WriterTotal

/-- what is refused: a string (block / frame code, data name, value text) holding a character outside the CIF 1.1 set, or a
    value CIF 1.1 has no presentation for (a list, a table, a string that needs a text field and contains `<LF>;`) -/
inductive Refused where
  | chars (s : Str)
  | value (v : V)

/-- the result code that names the kind -/
def Refused.code : Refused → Code
  | .chars _ => ErrCodes.CIF_DISALLOWED_CHAR
  | .value _ => ErrCodes.CIF_DISALLOWED_VALUE

/-- the first of two -/
def orE {α : Type} (a b : Option α) : Option α := match a with | some x => some x | none => b

theorem orE_none {α : Type} (a b : Option α) : orE a b = none ↔ a = none ∧ b = none := by
  cases a <;> simp [orE]

def refusedTextB (t : Str) (q : Bool) : Bool :=
  decide ((analyze t (!q) false LINE).delimLength = 2) && (analyze t (!q) false LINE).containsTextDelim

theorem refusedTextB_iff (t : Str) (q : Bool) : refusedTextB t q = true ↔
    ((analyze t (!q) false LINE).delimLength = 2 ∧ (analyze t (!q) false LINE).containsTextDelim = true) := by
  simp [refusedTextB]

/-- `write_char` on the text `t` of the value `v`: a carriage return is refused first (as a value that cannot be expressed), then
    the characters are validated, then the presentation is chosen -/
def strFirst (q : Bool) (t : Str) (v : V) : Option Refused :=
  if (13 : CU) ∈ t then some (.value v)
  else if validate11 t = false then some (.chars t) else if refusedTextB t q then some (.value v) else none

/-- a value: strings as above; a number goes through `write_char` only when it is quoted or longer than a line; lists and tables
    are refused as such (before anything inside them is looked at) -/
def valFirst (v : V) : Option Refused :=
  match v with
  | .chr q t => strFirst q t v
  | .numb q t _ _ _ _ => if q then strFirst true t v else if t.length > LINE then strFirst false t v else none
  | .lst _ => some (.value v)
  | .tbl _ => some (.value v)
  | _ => none

/-- one item: the data name (where names are written) before the value -/
def itemFirst (named : Bool) (nv : Str × V) : Option Refused :=
  orE (if named = true ∧ validate11 nv.1 = false then some (.chars nv.1) else none) (valFirst nv.2)

def itemsFirst (named : Bool) : List (Str × V) → Option Refused
  | [] => none
  | nv :: r => orE (itemFirst named nv) (itemsFirst named r)

def packetsFirst (named : Bool) : List (List (Str × V)) → Option Refused
  | [] => none
  | p :: r => orE (itemsFirst named p) (packetsFirst named r)

def headerFirst : List Str → Option Refused
  | [] => none
  | n :: r => orE (if validate11 n = false then some (.chars n) else none) (headerFirst r)

/-- a loop: the scalar loop writes its names with the items; any other loop validates its header first -/
def loopFirst (l : WLoop) : Option Refused :=
  if isScalars l.category then packetsFirst true l.packets else orE (headerFirst l.header) (packetsFirst false l.packets)

def loopsFirst : List WLoop → Option Refused
  | [] => none
  | l :: r => orE (loopFirst l) (loopsFirst r)

mutual
  /-- a container: its code, then its save frames, then its loops -/
  def containerFirst : WContainer → Option Refused
    | .mk code frames loops =>
      orE (if validate11 code = false then some (.chars code) else none) (orE (containersFirst frames) (loopsFirst loops))
  /-- **the element `cif_write` (CIF 1.1 mode) refuses**: the first, in walk order, that CIF 1.1 cannot express -/
  def containersFirst : List WContainer → Option Refused
    | [] => none
    | k :: r => orE (containerFirst k) (containersFirst r)
end

/-! ### the invariant -/

def First (R : Ctx → Ctx → Prop) (c : Ctx) (r : W) (x : Option Refused) : Prop :=
  (x = none → ∃ o c', r = .ok (o, c') ∧ R c c') ∧ (∀ f, x = some f → r = .error f.code)

theorem first_andThen {R : Ctx → Ctx → Prop} (htr : ∀ a b c, R a b → R b c → R a c) {c : Ctx} {a : W} {f : Ctx → W}
    {x1 x2 : Option Refused} (ha : First R c a x1) (hf : ∀ c1, R c c1 → First R c1 (f c1) x2) :
    First R c (andThen a f) (orE x1 x2) := by
  cases x1 with
  | some g =>
    have e1 := ha.2 g rfl
    refine ⟨fun h => (by simp [orE] at h), fun g' hg => ?_⟩
    simp only [orE, Option.some.injEq] at hg
    subst hg
    simp [andThen, e1]
  | none =>
    obtain ⟨o1, c1, e1, r1⟩ := ha.1 rfl
    simp only [orE]
    constructor
    · intro h2
      obtain ⟨o2, c2, e2, r2⟩ := (hf c1 r1).1 h2
      exact ⟨o1 ++ o2, c2, by simp [andThen, e1, e2], htr _ _ _ r1 r2⟩
    · intro g hg
      have e2 := (hf c1 r1).2 g hg
      simp [andThen, e1, e2]

theorem First.congr {R : Ctx → Ctx → Prop} {c : Ctx} {r : W} {x x' : Option Refused} (h : First R c r x) (e : x' = x) :
    First R c r x' := e ▸ h

theorem First.rel {R R' : Ctx → Ctx → Prop} {c0 c : Ctx} {r : W} {x : Option Refused} (h : First R c0 r x)
    (hr : ∀ b, R c0 b → R' c b) : First R' c r x := by
  refine ⟨fun a => ?_, h.2⟩
  obtain ⟨o, c', e, r⟩ := h.1 a
  exact ⟨o, c', e, hr _ r⟩

theorem first_ok {R : Ctx → Ctx → Prop} {c : Ctx} {o : Str} {c' : Ctx} (hr : R c c') : First R c (.ok (o, c')) none :=
  ⟨fun _ => ⟨o, c', rfl, hr⟩, fun f h => (by cases h)⟩

theorem first_err {R : Ctx → Ctx → Prop} (c : Ctx) (f : Refused) : First R c (.error f.code) (some f) :=
  ⟨fun h => (by cases h), fun g h => (by cases h; rfl)⟩

theorem first_of_good {c : Ctx} {r : W} (h : Good c r False) : First Same c r none := by
  rcases h with ⟨o, c', e, hs⟩ | ⟨_, hf⟩
  · rw [e]; exact first_ok hs
  · exact hf.elim

theorem first_andThen_ok {R : Ctx → Ctx → Prop} {c0 : Ctx} (o : Str) (f : Ctx → W) {x : Option Refused}
    (h : First R c0 (f c0) x) : First R c0 (andThen (.ok (o, c0)) f) x := by
  constructor
  · intro hx
    obtain ⟨o2, c2, e2, r⟩ := h.1 hx
    exact ⟨o ++ o2, c2, by simp [andThen, e2], r⟩
  · intro g hg
    simp [andThen, h.2 g hg]

/-! ### strings, numbers, items -/

theorem first_writeChar (c : Ctx) (t : Str) (q : Bool) (v : V) (hc : c.isCif1 = true) :
    First Same c (writeChar c t q true) (strFirst q t v) := by
  have hnc : (!c.isCif1) = false := by simp [hc]
  unfold strFirst
  by_cases h13 : (13 : CU) ∈ t
  · rw [if_pos h13, Lemmas.WriterChar.writeChar_cr c t q true h13]
    exact first_err c (.value v)
  rw [if_neg h13]
  have hcl : Lemmas.WriterChar.strClean c.isCif1 t = true :=
    Lemmas.WriterChar.strClean_of _ t h13 (fun h => by rw [hc] at h; cases h)
  cases hv : validate11 t with
  | false =>
    simp only [if_true]
    rw [Lemmas.WriterChar.writeChar_clean c t q true hcl, Lemmas.WriterChar.writeChar_invalid c t q true ⟨hc, hv⟩]
    exact first_err c (.chars t)
  | true =>
    simp only [Bool.true_eq_false, if_false]
    cases hr : refusedTextB t q with
    | true =>
      simp only [if_true]
      have hrt := (refusedTextB_iff t q).mp hr
      rw [Lemmas.WriterChar.writeChar_clean c t q true hcl,
        Lemmas.WriterChar.writeChar_delim2_refused c t q true (by simp [hv]) (by rw [hnc]; exact hrt.1)
          (Or.inr ⟨by rw [hnc]; exact hrt.2, hc⟩)]
      exact first_err c (.value v)
    | false =>
      simp only [Bool.false_eq_true, if_false]
      have hnr : ¬ ((analyze t (!q) false LINE).delimLength = 2 ∧ (analyze t (!q) false LINE).containsTextDelim = true) :=
        fun h => by rw [(refusedTextB_iff t q).mpr h] at hr; cases hr
      exact first_of_good (writeChar_value_good_gen c t q (by simp [hv]) (by
        rw [hnc]; intro d h; exact hnr ⟨d, h.1⟩) hcl False)

theorem first_writeNumb (c : Ctx) (t : Str) (q : Bool) (v : V) (hc : c.isCif1 = true) (ht : t ≠ []) :
    First Same c (writeNumb c t q)
      (if q then strFirst true t v else if t.length > LINE then strFirst false t v else none) := by
  cases q with
  | true =>
    have e : writeNumb c t true = writeChar c t true true := by unfold writeNumb; simp
    rw [e]; simp only [if_true]
    exact first_writeChar c t true v hc
  | false =>
    simp only [Bool.false_eq_true, if_false]
    by_cases hlong : t.length > LINE
    · have e : writeNumb c t false = writeChar c t false true := by unfold writeNumb; simp [hlong]
      rw [e, if_pos hlong]
      exact first_writeChar c t false v hc
    · rw [if_neg hlong]
      exact first_of_good (writeNumb_good_gen c t false ht False (fun h => by cases h) (fun _ h => absurd h hlong))

theorem first_head (c : Ctx) (n : Str) (hc : c.isCif1 = true) (hn : c.writeItemNames = true → nameOk n) :
    First Same c (writeItemHead c n)
      (if c.writeItemNames = true ∧ validate11 n = false then some (.chars n) else none) := by
  by_cases hbad : c.writeItemNames = true ∧ validate11 n = false
  · have e : writeItemHead c n = .error ErrCodes.CIF_DISALLOWED_CHAR := by
      unfold writeItemHead
      simp [hbad.1, hc, hbad.2, andThen]
    rw [e, if_pos hbad]
    exact first_err c (.chars n)
  · rw [if_neg hbad]
    have hv : c.writeItemNames = true → validate11 n = true := by
      intro hw
      cases h : validate11 n with
      | true => rfl
      | false => exact absurd ⟨hw, h⟩ hbad
    exact first_of_good (writeItemHead_good_gen c n (fun hw => by simp [hv hw]) hn False)

theorem first_item (n : Str) (v : V) (c : Ctx) (hc : c.isCif1 = true) (hn : c.writeItemNames = true → nameOk n)
    (hv : valueOk v = true) : First Same c (writeItem n v c) (itemFirst c.writeItemNames (n, v)) := by
  unfold writeItem itemFirst
  apply first_andThen same_trans (first_head c n hc hn)
  intro c1 hs
  have hc1 : c1.isCif1 = true := by rw [hs.isCif1]; exact hc
  match v, hv with
  | .chr q t, _ => exact first_writeChar c1 t q _ hc1
  | .numb q t _ _ _ _, hv =>
    exact first_writeNumb c1 t q _ hc1 (by intro e; subst e; simp [valueOk] at hv)
  | .na, _ => exact first_of_good (literalOrError_wrap_good c1 _ False)
  | .unk, _ => exact first_of_good (literalOrError_wrap_good c1 _ False)
  | .lst vs, _ => simp only [hc1, if_true, valFirst]; exact first_err c1 (.value (.lst vs))
  | .tbl es, _ => simp only [hc1, if_true, valFirst]; exact first_err c1 (.value (.tbl es))

theorem first_items : ∀ (p : List (Str × V)) (c : Ctx), c.isCif1 = true → itemsOk c.writeItemNames p →
    First Same c (writeItems p c) (itemsFirst c.writeItemNames p) := by
  intro p
  induction p with
  | nil => intro c _ _; exact first_ok (Same.refl c)
  | cons nv rest ih =>
    intro c hc hok
    obtain ⟨n, v⟩ := nv
    simp only [writeItems, itemsFirst]
    have h1 := hok (n, v) List.mem_cons_self
    apply first_andThen same_trans (first_item n v c hc h1.2 h1.1)
    intro c1 hs
    have := ih c1 (by rw [hs.isCif1]; exact hc) (by rw [hs.names]; exact fun x hx => hok x (List.mem_cons_of_mem _ hx))
    rw [hs.names] at this
    exact this

theorem first_packets : ∀ (ps : List (List (Str × V))) (c : Ctx), c.isCif1 = true → (∀ p ∈ ps, itemsOk c.writeItemNames p) →
    First Same c (writePackets ps c) (packetsFirst c.writeItemNames ps) := by
  intro ps
  induction ps with
  | nil => intro c _ _; exact first_ok (Same.refl c)
  | cons p rest ih =>
    intro c hc hok
    simp only [writePackets, writePacket, packetsFirst]
    have hp : First Same c (andThen (writeItems p c) fun c1 => .ok (writeNewline c1)) (orE (itemsFirst c.writeItemNames p) none) :=
      first_andThen same_trans (first_items p c hc (hok p List.mem_cons_self)) (fun c1 _ => first_ok (writeNewline_same c1))
    have hp' : First Same c (andThen (writeItems p c) fun c1 => .ok (writeNewline c1)) (itemsFirst c.writeItemNames p) :=
      hp.congr (by cases itemsFirst c.writeItemNames p <;> rfl)
    apply first_andThen same_trans hp'
    intro c1 hs
    have := ih c1 (by rw [hs.isCif1]; exact hc) (by rw [hs.names]; exact fun x hx => hok x (List.mem_cons_of_mem _ hx))
    rw [hs.names] at this
    exact this

theorem first_header : ∀ (ns : List Str) (c : Ctx), c.isCif1 = true → First Same c (writeHeaderNames ns c) (headerFirst ns) := by
  intro ns
  induction ns with
  | nil => intro c _; exact first_ok (Same.refl c)
  | cons n rest ih =>
    intro c hc
    simp only [writeHeaderNames, headerFirst]
    cases hv : validate11 n with
    | false =>
      simp only [hc, true_and, if_true, orE]
      exact first_err c (.chars n)
    | true =>
      simp only [hc, Bool.true_eq_false, and_false, if_false, orE]
      have := first_andThen same_trans (first_ok (R := Same) (c := c) (o := (if Writer.countChar32 n < LINE then [32] else []) ++ n ++ [10])
        (c' := { c with lastColumn := 0 }) ⟨rfl, rfl⟩) (fun c1 hs => ih c1 (by rw [hs.isCif1]; exact hc))
      exact this.congr (by simp [orE])

theorem first_loop (l : WLoop) (c : Ctx) (hc : c.isCif1 = true) (hok : loopOk l) :
    First SameV c (writeLoop l c) (loopFirst l) := by
  unfold writeLoop loopFirst
  have hne : l.packets.isEmpty = false := by
    cases hp : l.packets with
    | nil => exact absurd hp hok.1
    | cons a b => rfl
  have key : ∀ (c1 : Ctx), c1.isCif1 = true → c1.writeItemNames = isScalars l.category →
      First Same c1 ((fun c1 => if l.packets.isEmpty then (.error ErrCodes.CIF_EMPTY_LOOP : W)
          else andThen (writePackets l.packets c1) fun c2 => .ok (writeNewline c2)) c1)
        (packetsFirst (isScalars l.category) l.packets) := by
    intro c1 hc1 hn
    simp only [hne, Bool.false_eq_true, if_false]
    have hp := first_packets l.packets c1 hc1 (by rw [hn]; exact hok.2)
    rw [hn] at hp
    have := first_andThen same_trans hp (fun c2 _ => first_ok (R := Same) (o := (writeNewline c2).1) (writeNewline_same c2))
    exact this.congr (by cases packetsFirst (isScalars l.category) l.packets <;> rfl)
  cases hs : isScalars l.category with
  | true =>
    simp only [if_true, writeNewline]
    have hk := key { c with lastColumn := 0, writeItemNames := true } (by simpa [Ctx.isCif1] using hc) (by rw [hs])
    rw [hs] at hk
    have := first_andThen_ok [10] (fun c1 => if l.packets.isEmpty then (.error ErrCodes.CIF_EMPTY_LOOP : W)
          else andThen (writePackets l.packets c1) fun c2 => .ok (writeNewline c2)) hk
    exact this.rel (R' := SameV) (c := c) (fun b hb => hb.1)
  | false =>
    simp only [Bool.false_eq_true, if_false]
    have hh := first_header l.header { c with writeItemNames := false, lastColumn := 0 } (by simpa [Ctx.isCif1] using hc)
    have inner := first_andThen_ok LOOP_HEAD (fun c1 => writeHeaderNames l.header c1) hh
    have := first_andThen same_trans inner (fun c1 hs1 => key c1 (by rw [hs1.isCif1]; simpa [Ctx.isCif1] using hc) (by rw [hs1.names, hs]))
    rw [hs] at this
    exact this.rel (R' := SameV) (c := c) (fun b hb => hb.1)

theorem first_loops : ∀ (ls : List WLoop) (c : Ctx), c.isCif1 = true → (∀ l ∈ ls, loopOk l) →
    First SameV c (writeLoops ls c) (loopsFirst ls) := by
  intro ls
  induction ls with
  | nil => intro c _ _; exact first_ok rfl
  | cons l rest ih =>
    intro c hc hok
    simp only [writeLoops, loopsFirst]
    exact first_andThen sameV_trans (first_loop l c hc (hok l List.mem_cons_self))
      (fun c1 hv => ih c1 (by rw [hv.isCif1]; exact hc) (fun x hx => hok x (List.mem_cons_of_mem _ hx)))

mutual
  theorem first_container (k : WContainer) (c : Ctx) (hc : c.isCif1 = true) (hok : containerOk k) :
      First SameV c (writeContainer k c) (containerFirst k) := by
    match k, hok with
    | .mk code frames loops, hok =>
      simp only [containerOk] at hok
      unfold writeContainer
      simp only [containerFirst]
      cases hv : validate11 code with
      | false =>
        simp only [hc, true_and, if_true, orE]
        exact first_err c (.chars code)
      | true =>
        simp only [hc, Bool.true_eq_false, and_false, if_false, orE]
        have hc0 : ({ c with lastColumn := 0, depth := c.depth + 1 } : Ctx).isCif1 = true := by simpa [Ctx.isCif1] using hc
        let K : Ctx → W := fun c1 =>
            andThen (writeContainers frames c1) fun c2 =>
              andThen (writeLoops loops c2) fun c3 =>
                if ({ c3 with depth := c3.depth - 1, lastColumn := 0 } : Ctx).depth = 0
                then .ok (writeNewline { c3 with depth := c3.depth - 1, lastColumn := 0 })
                else .ok (FRAME_END, { c3 with depth := c3.depth - 1, lastColumn := 0 })
        have hbody : First SameV { c with lastColumn := 0, depth := c.depth + 1 } (K { c with lastColumn := 0, depth := c.depth + 1 })
            (orE (containersFirst frames) (orE (loopsFirst loops) none)) := by
          apply first_andThen sameV_trans (first_containers frames _ hc0 hok.1)
          intro c2 hv2
          apply first_andThen sameV_trans (first_loops loops c2 (by rw [hv2.isCif1]; exact hc0) hok.2)
          intro c3 hv3
          split
          · exact first_ok rfl
          · exact first_ok rfl
        have := first_andThen_ok ((if c.depth = 0 then BLOCK_HEAD else FRAME_HEAD) ++ code ++ [10]) K hbody
        refine (this.rel (R' := SameV) (c := c) (fun b hb => hb)).congr ?_
        cases loopsFirst loops <;> rfl
  theorem first_containers (ks : List WContainer) (c : Ctx) (hc : c.isCif1 = true) (hok : containersOk ks) :
      First SameV c (writeContainers ks c) (containersFirst ks) := by
    match ks, hok with
    | [], _ => unfold writeContainers; exact first_ok rfl
    | k :: rest, hok =>
      simp only [containersOk] at hok
      unfold writeContainers
      simp only [containersFirst]
      exact first_andThen sameV_trans (first_container k c hc hok.1)
        (fun c1 hv => first_containers rest c1 (by rw [hv.isCif1]; exact hc) hok.2)
end

/-- `cif_write` in CIF 1.1 mode: success when nothing is refused, otherwise the code of the first refused element -/
theorem first_writeCif (cif : WCif) (hok : containersOk cif) :
    (containersFirst cif = none → ∃ out, writeCif 1 cif = .ok out) ∧
    (∀ f, containersFirst cif = some f → writeCif 1 cif = .error f.code) := by
  have hc : ({ version := 1 } : Ctx).isCif1 = true := rfl
  have hbody : First SameV { version := 1 } ((fun c1 => andThen (writeContainers cif c1) fun c2 => (.ok (writeNewline c2) : W)) { version := 1 })
      (orE (containersFirst cif) none) :=
    first_andThen sameV_trans (first_containers cif _ hc hok) (fun c2 _ => first_ok rfl)
  have L := (first_andThen_ok MAGIC11 (fun c1 => andThen (writeContainers cif c1) fun c2 => (.ok (writeNewline c2) : W)) hbody).congr
    (x' := containersFirst cif) (by cases containersFirst cif <;> rfl)
  unfold writeCif
  simp only [if_true, hc]
  constructor
  · intro hn
    obtain ⟨o, c', e, _⟩ := L.1 hn
    exact ⟨o, by rw [e]⟩
  · intro f hf
    rw [L.2 f hf]

end CifModel.Lemmas.WriterV1
