import CifModel.Lemmas.HeapHist
/-
  Lemmas for operation histories on the heap, part 2: the state invariant `RepS` and its frame rules.

  `RepS T s p F`: the heap state `s` represents the pure state `p` — every occupied slot holds the address of an object that
  represents the slot's pure value with (closed) footprint `F r`; the footprints of different slots are disjoint; every live
  block belongs to exactly one footprint or to the list `T` of temporary blocks (blocks the operation in progress has
  allocated and will release or hand to a slot; `T = []` between operations); the heap is well-formed.
-/
namespace CifModel.Model.Hist
open CifModel CifModel.Model.Heap
open CifModel.Model.Value (Step Entry resolve update child setChild)

/-- the kind of block a slot holds: value slots a free-standing object or a detached entry, packet slots a packet -/
def shellOK : Root → Option Cell → Prop
  | .val _, some (.val _) => True
  | .val _, some (.entry _ _ _) => True
  | .pkt _, some (.pkt _ _) => True
  | _, _ => False

theorem shellOK_SameKind {r : Root} {c c' : Option Cell} (h1 : shellOK r c) (h2 : SameKind c c') : shellOK r c' := by
  cases r <;> cases c <;> cases c' <;> try (simp [shellOK, SameKind] at h1 h2 ⊢)
  all_goals (rename_i k x y; cases x <;> cases y <;> simp_all [shellOK, SameKind])

/-- the object at `a` represents `v`; `G` = its blocks, the object's own block included -/
def RootRel (h : Heap) (r : Root) (a : Nat) (v : V) (G : List Nat) : Prop :=
  ∃ hv F, getHV h a = some hv ∧ shellOK r (h.cell a) ∧ Rep h hv v F ∧ a ∉ F ∧ ∀ x, x ∈ G ↔ (x = a ∨ x ∈ F)

def SlotRel (h : Heap) (r : Root) : Option Nat → Option V → List Nat → Prop
  | none, none, G => G = []
  | some a, some v, G => RootRel h r a v G
  | _, _, _ => False

theorem SlotRel_congr (h g : Heap) (r : Root) (o : Option Nat) (pv : Option V) (G : List Nat)
    (hag : ∀ a, a ∈ G → g.cell a = h.cell a) (hr : SlotRel h r o pv G) : SlotRel g r o pv G := by
  cases o <;> cases pv <;> try exact hr
  rename_i a v
  obtain ⟨hv, F, hg, hsh, hrep, haF, hG⟩ := hr
  have hca : g.cell a = h.cell a := hag a ((hG a).mpr (Or.inl rfl))
  exact ⟨hv, F, by rw [getHV_congr h g a hca]; exact hg, by rw [hca]; exact hsh,
    Rep_congr h g v hv F (fun x hx => hag x ((hG x).mpr (Or.inr hx))) hrep, haF, hG⟩

structure RepS (T : List Nat) (s : HState) (p : PState) (F : Root → List Nat) : Prop where
  wf : s.h.WF
  ok : ∀ r, r.ok = false → s.slot r = none
  rel : ∀ r, SlotRel s.h r (s.slot r) (p.get r) (F r)
  lt : ∀ r a, a ∈ F r → a < s.h.next
  dis : ∀ r r', r ≠ r' → ∀ a, a ∈ F r → a ∉ F r'
  tdis : ∀ r a, a ∈ F r → a ∉ T
  tlive : ∀ a, a ∈ T → (s.h.cell a).isSome = true
  cov : ∀ a, (s.h.cell a).isSome = true → (∃ r, a ∈ F r) ∨ a ∈ T

theorem RepS.congrT {T T' : List Nat} {s : HState} {p : PState} {F : Root → List Nat} (inv : RepS T s p F)
    (hT : ∀ a, a ∈ T' ↔ a ∈ T) : RepS T' s p F :=
  ⟨inv.wf, inv.ok, inv.rel, inv.lt, inv.dis, fun r a ha hm => inv.tdis r a ha ((hT a).mp hm),
    fun a ha => inv.tlive a ((hT a).mp ha), fun a ha => (inv.cov a ha).imp id (fun hm => (hT a).mpr hm)⟩

theorem isSome_lt {h : Heap} (hw : h.WF) {a : Nat} (hl : (h.cell a).isSome = true) : a < h.next := by
  cases hc : h.cell a with
  | none => rw [hc] at hl; cases hl
  | some c => exact lt_of_cell hw hc

/-- **the frame rule**: an operation that changes the roots `C` only — new representations for them, made of their old
    blocks and of fresh blocks; every other old block untouched; every live block accounted for — keeps the invariant -/
theorem RepS.frame {T : List Nat} {s : HState} {p : PState} {F : Root → List Nat} (inv : RepS T s p F)
    (C : Root → Prop) (h' : Heap) (slot' : Root → Option Nat) (p' : PState) (F' : Root → List Nat) (Tn : List Nat)
    (hw' : h'.WF) (hle : s.h.next ≤ h'.next)
    (hok : ∀ r, r.ok = false → slot' r = none)
    (hsame : ∀ r, ¬ C r → slot' r = s.slot r ∧ p'.get r = p.get r ∧ F' r = F r)
    (hrel : ∀ r, C r → SlotRel h' r (slot' r) (p'.get r) (F' r))
    (hlt : ∀ r, C r → ∀ a, a ∈ F' r → a < h'.next)
    (hsub : ∀ r, C r → ∀ a, a ∈ F' r → s.h.next ≤ a ∨ ∃ r', C r' ∧ a ∈ F r')
    (hdis : ∀ r r', C r → C r' → r ≠ r' → ∀ a, a ∈ F' r → a ∉ F' r')
    (hframe : ∀ a, a < s.h.next → (∀ r, C r → a ∉ F r) → h'.cell a = s.h.cell a)
    (hTn : ∀ a, a ∈ Tn → (∃ r, C r ∧ a ∈ F r) ∧ (h'.cell a).isSome = true ∧ ∀ r, C r → a ∉ F' r)
    (hcov : ∀ a, (h'.cell a).isSome = true → (∃ r, C r ∧ a ∈ F' r) ∨ a ∈ Tn ∨ (a < s.h.next ∧ ∀ r, C r → a ∉ F r)) :
    RepS (T ++ Tn) ⟨h', slot'⟩ p' F' := by
  have hTlt : ∀ a, a ∈ T → a < s.h.next := fun a ha => isSome_lt inv.wf (inv.tlive a ha)
  -- an old block of an unchanged root is not in a changed root's old footprint
  have hout : ∀ r, ¬ C r → ∀ a, a ∈ F r → ∀ r', C r' → a ∉ F r' :=
    fun r hr a ha r' hr' => inv.dis r r' (fun e => hr (e ▸ hr')) a ha
  -- a block of a changed root's new footprint is not in an unchanged root's footprint
  have hnew : ∀ r, C r → ∀ a, a ∈ F' r → ∀ r', ¬ C r' → a ∉ F r' := by
    intro r hr a ha r' hr' hm
    rcases hsub r hr a ha with hge | ⟨r'', hr'', hm''⟩
    · have := inv.lt r' a hm; omega
    · exact hout r' hr' a hm r'' hr'' hm''
  refine ⟨hw', hok, ?_, ?_, ?_, ?_, ?_, ?_⟩
  · intro r
    by_cases hc : C r
    · exact hrel r hc
    · obtain ⟨e1, e2, e3⟩ := hsame r hc
      show SlotRel h' r (slot' r) (p'.get r) (F' r)
      rw [e1, e2, e3]
      exact SlotRel_congr s.h h' r _ _ _ (fun a ha => hframe a (inv.lt r a ha) (hout r hc a ha)) (inv.rel r)
  · intro r a ha
    show a < h'.next
    by_cases hc : C r
    · exact hlt r hc a ha
    · rw [(hsame r hc).2.2] at ha
      have := inv.lt r a ha
      omega
  · intro r r' hne a ha
    by_cases hc : C r <;> by_cases hc' : C r'
    · exact hdis r r' hc hc' hne a ha
    · rw [(hsame r' hc').2.2]; exact hnew r hc a ha r' hc'
    · rw [(hsame r hc).2.2] at ha
      exact fun hm => hnew r' hc' a hm r hc ha
    · rw [(hsame r hc).2.2] at ha; rw [(hsame r' hc').2.2]
      exact inv.dis r r' hne a ha
  · intro r a ha hm
    rcases List.mem_append.mp hm with hm | hm
    · by_cases hc : C r
      · rcases hsub r hc a ha with hge | ⟨r'', _, hm''⟩
        · have := hTlt a hm; omega
        · exact inv.tdis r'' a hm'' hm
      · rw [(hsame r hc).2.2] at ha
        exact inv.tdis r a ha hm
    · obtain ⟨⟨r'', hr'', hm''⟩, _, hnot⟩ := hTn a hm
      by_cases hc : C r
      · exact hnot r hc ha
      · rw [(hsame r hc).2.2] at ha
        exact hout r hc a ha r'' hr'' hm''
  · intro a hm
    show (h'.cell a).isSome = true
    rcases List.mem_append.mp hm with hm | hm
    · rw [hframe a (hTlt a hm) (fun r _ hx => inv.tdis r a hx hm)]
      exact inv.tlive a hm
    · exact (hTn a hm).2.1
  · intro a hl
    rcases hcov a hl with ⟨r, _, hm⟩ | hm | ⟨hlt', hnot⟩
    · exact Or.inl ⟨r, hm⟩
    · exact Or.inr (List.mem_append_right _ hm)
    · have hl' : (s.h.cell a).isSome = true := by rw [← hframe a hlt' hnot]; exact hl
      rcases inv.cov a hl' with ⟨r, hm⟩ | hm
      · have hc : ¬ C r := fun hc => hnot r hc hm
        exact Or.inl ⟨r, by rw [(hsame r hc).2.2]; exact hm⟩
      · exact Or.inr (List.mem_append_left _ hm)

/-! ### what an operation on one object must establish -/

/-- the object at `t` (fields in the same block) gets the fields `hvt'` representing `c'` with footprint `Ft'` ⊆ old
    footprint ∪ fresh blocks; `Tn` = old blocks of the object that stay live without belonging to it any more; every
    other block that existed is untouched; every live block is accounted for -/
structure ObjUpd (h h' : Heap) (t : Nat) (Ft : List Nat) (hvt' : HVal) (c' : V) (Ft' Tn : List Nat) : Prop where
  wf : h'.WF
  le : h.next ≤ h'.next
  fields : getHV h' t = some hvt'
  kind : SameKind (h.cell t) (h'.cell t)
  rep : Rep h' hvt' c' Ft'
  sub : ∀ x, x ∈ Ft' → x ∈ Ft ∨ (h.next ≤ x ∧ x < h'.next)
  frame : ∀ x, x < h.next → x ∉ Ft → x ≠ t → h'.cell x = h.cell x
  cov : ∀ x, (h'.cell x).isSome = true → x ∈ Ft' ∨ x = t ∨ x ∈ Tn ∨ (x < h.next ∧ x ∉ Ft)
  tn : ∀ x, x ∈ Tn → x ∈ Ft ∧ x ∉ Ft' ∧ (h'.cell x).isSome = true

theorem setP_get (p : PState) (r : Root) (x : Option V) (r' : Root) : (setP p r x).get r' = if r' = r then x else p.get r' := rfl

/-- **resolution and in-place update**: a reference resolves on the heap iff it resolves in the pure state; the object it
    designates is represented inside the root's footprint; and an `ObjUpd` of that object is a `putP` of the pure state -/
theorem RepS.atRef {T : List Nat} {s : HState} {p : PState} {F : Root → List Nat} (inv : RepS T s p F) (r : Ref) :
    match getP p r with
    | none => resolveRef s r = none
    | some c => ∃ a t hvt Ft, s.slot r.root = some a ∧ resolveRef s r = some t ∧ getHV s.h t = some hvt ∧ Rep s.h hvt c Ft
        ∧ t ∉ Ft ∧ t ∈ F r.root ∧ (∀ x, x ∈ Ft → x ∈ F r.root) ∧ (r.path ≠ [] → IsValCell (s.h.cell t))
        ∧ (r.path = [] → t = a) ∧ shellOK r.root (s.h.cell a)
        ∧ ∀ h' hvt' c' Ft' Tn, ObjUpd s.h h' t Ft hvt' c' Ft' Tn →
            ∃ p' F', putP p r c' = some p' ∧ RepS (T ++ Tn) ⟨h', s.slot⟩ p' F' := by
  have hrel := inv.rel r.root
  unfold getP resolveRef
  cases hs : s.slot r.root with
  | none =>
    rw [hs] at hrel
    cases hp : p.get r.root with
    | none => simp
    | some v => rw [hp] at hrel; exact absurd hrel (by simp [SlotRel])
  | some a =>
    rw [hs] at hrel
    cases hp : p.get r.root with
    | none => rw [hp] at hrel; exact absurd hrel (by simp [SlotRel])
    | some v =>
      rw [hp] at hrel
      obtain ⟨hv, F0, hg, hsh, hrep, haF, hG⟩ := hrel
      have hpath := Obj_path s.h r.path a hv v F0 hg hrep haF
      simp only [resolveAddr, hg]
      cases hres : resolve v r.path with
      | none => rw [hres] at hpath; simpa using hpath
      | some c =>
        rw [hres] at hpath
        obtain ⟨t, hvt, Ft, hrf, hgt, hrept, htFt, hsubt, hnil, hcons, hk⟩ := hpath
        have htG : t ∈ F r.root := by
          by_cases hp0 : r.path = []
          · rw [(hnil hp0).1]; exact (hG a).mpr (Or.inl rfl)
          · exact (hG t).mpr (Or.inr (hcons hp0).1)
        have hFtG : ∀ x, x ∈ Ft → x ∈ F r.root := fun x hx => (hG x).mpr (Or.inr (hsubt x hx))
        have hGlt : ∀ x, x ∈ F r.root → x < s.h.next := inv.lt r.root
        refine ⟨a, t, hvt, Ft, rfl, hrf, hgt, hrept, htFt, htG, hFtG, fun hne => (hcons hne).2, fun he => (hnil he).1, hsh, ?_⟩
        intro h' hvt' c' Ft' Tn U
        have htlt := hGlt t htG
        have hnewold : ∀ x, x ∈ Ft' → x < s.h.next → x ∈ Ft := by
          intro x hx hlt
          rcases U.sub x hx with hh | hh
          · exact hh
          · omega
        have htF' : t ∉ Ft' := fun hm => htFt (hnewold t hm htlt)
        have haF' : a ∉ Ft' := fun hm => haF (hsubt a (hnewold a hm (hGlt a ((hG a).mpr (Or.inl rfl)))))
        obtain ⟨v', hv', F0', hup, hg', hsk', hrep', haF0', hmem⟩ := hk h' hvt' c' Ft' U.fields U.kind U.rep htF' haF'
          (fun x hx hnf hne => U.frame x (hGlt x ((hG x).mpr hx)) hnf hne)
          (fun x hx hin => hnewold x hx (hGlt x ((hG x).mpr (Or.inr hin))))
        let G' : List Nat := a :: F0'
        have hG' : ∀ x, x ∈ G' ↔ (x ∈ Ft' ∨ x = t ∨ (x ∈ F r.root ∧ x ∉ Ft ∧ x ≠ t)) := by
          intro x
          show x ∈ a :: F0' ↔ _
          rw [List.mem_cons, hmem x, hG x]
        refine ⟨setP p r.root (some v'), fun r' => if r' = r.root then G' else F r', by simp [putP, hp, hup], ?_⟩
        have key := RepS.frame inv (fun r' => r' = r.root) h' s.slot (setP p r.root (some v'))
          (fun r' => if r' = r.root then G' else F r') Tn U.wf U.le inv.ok
          (fun r' hne => ⟨rfl, by simp [setP_get, hne], by simp [hne]⟩)
          (by
            intro r' he; subst he
            simp only [setP_get, if_true, hs]
            exact ⟨hv', F0', hg', shellOK_SameKind hsh hsk', hrep', haF0', fun x => List.mem_cons⟩)
          (by
            intro r' he x hx; subst he
            simp only [if_true] at hx
            rcases (hG' x).mp hx with h1 | h1 | ⟨h1, _, _⟩
            · rcases U.sub x h1 with hh | hh
              · have := hGlt x (hFtG x hh); have := U.le; omega
              · exact hh.2
            · have := U.le; omega
            · have := hGlt x h1; have := U.le; omega)
          (by
            intro r' he x hx; subst he
            simp only [if_true] at hx
            rcases (hG' x).mp hx with h1 | h1 | ⟨h1, _, _⟩
            · rcases U.sub x h1 with hh | hh
              · exact Or.inr ⟨r.root, rfl, hFtG x hh⟩
              · exact Or.inl hh.1
            · exact Or.inr ⟨r.root, rfl, h1 ▸ htG⟩
            · exact Or.inr ⟨r.root, rfl, h1⟩)
          (by intro r1 r2 e1 e2 hne; exact absurd (e1.trans e2.symm) hne)
          (by
            intro x hlt hnot
            have hx : x ∉ F r.root := hnot r.root rfl
            exact U.frame x hlt (fun hm => hx (hFtG x hm)) (fun e => hx (e ▸ htG)))
          (by
            intro x hx
            obtain ⟨h1, h2, h3⟩ := U.tn x hx
            refine ⟨⟨r.root, rfl, hFtG x h1⟩, h3, ?_⟩
            intro r' he; subst he
            simp only [if_true]
            intro hm
            rcases (hG' x).mp hm with h4 | h4 | ⟨_, h4, _⟩
            · exact h2 h4
            · exact htFt (h4 ▸ h1)
            · exact h4 h1)
          (by
            intro x hl
            rcases U.cov x hl with h1 | h1 | h1 | ⟨h1, h2⟩
            · exact Or.inl ⟨r.root, rfl, by simp only [if_true]; exact (hG' x).mpr (Or.inl h1)⟩
            · exact Or.inl ⟨r.root, rfl, by simp only [if_true]; exact (hG' x).mpr (Or.inr (Or.inl h1))⟩
            · exact Or.inr (Or.inl h1)
            · by_cases hxG : x ∈ F r.root
              · by_cases hxt : x = t
                · exact Or.inl ⟨r.root, rfl, by simp only [if_true]; exact (hG' x).mpr (Or.inr (Or.inl hxt))⟩
                · exact Or.inl ⟨r.root, rfl, by simp only [if_true]; exact (hG' x).mpr (Or.inr (Or.inr ⟨hxG, h2, hxt⟩))⟩
              · exact Or.inr (Or.inr ⟨h1, fun r' he => he ▸ hxG⟩))
        exact key

/-! ### rules for whole roots and temporary blocks -/

def updF (F : Root → List Nat) (r : Root) (G : List Nat) : Root → List Nat := fun r' => if r' = r then G else F r'

theorem RepS.emptySlot {T : List Nat} {s : HState} {p : PState} {F : Root → List Nat} (inv : RepS T s p F) (r : Root)
    (hs : s.slot r = none) : p.get r = none ∧ F r = [] := by
  have := inv.rel r
  rw [hs] at this
  cases hp : p.get r with
  | none => rw [hp] at this; exact ⟨rfl, this⟩
  | some v => rw [hp] at this; exact absurd this (by simp [SlotRel])

theorem RepS.fullSlot {T : List Nat} {s : HState} {p : PState} {F : Root → List Nat} (inv : RepS T s p F) (r : Root) (a : Nat)
    (hs : s.slot r = some a) : ∃ v, p.get r = some v ∧ RootRel s.h r a v (F r) := by
  have := inv.rel r
  rw [hs] at this
  cases hp : p.get r with
  | none => rw [hp] at this; exact absurd this (by simp [SlotRel])
  | some v => rw [hp] at this; exact ⟨v, rfl, this⟩

theorem RepS.slot_iff {T : List Nat} {s : HState} {p : PState} {F : Root → List Nat} (inv : RepS T s p F) (r : Root) :
    (s.slot r).isNone = (p.get r).isNone := by
  have := inv.rel r
  cases hs : s.slot r <;> cases hp : p.get r <;> simp_all [SlotRel]

/-- a new object in an empty slot, on fresh blocks -/
theorem RepS.addRoot {T : List Nat} {s : HState} {p : PState} {F : Root → List Nat} (inv : RepS T s p F) (r0 : Root)
    (hok : r0.ok = true) (hempty : s.slot r0 = none) (h' : Heap) (a : Nat) (v : V) (G : List Nat)
    (hw' : h'.WF) (hle : s.h.next ≤ h'.next) (hfr : ∀ x, x < s.h.next → h'.cell x = s.h.cell x)
    (hroot : RootRel h' r0 a v G) (hG : ∀ x, x ∈ G → s.h.next ≤ x ∧ x < h'.next)
    (hcov : ∀ x, s.h.next ≤ x → (h'.cell x).isSome = true → x ∈ G) :
    RepS T ⟨h', fun r' => if r' = r0 then some a else s.slot r'⟩ (setP p r0 (some v)) (updF F r0 G) := by
  have hF0 := (inv.emptySlot r0 hempty).2
  have key := RepS.frame inv (fun r' => r' = r0) h' (fun r' => if r' = r0 then some a else s.slot r') (setP p r0 (some v))
    (updF F r0 G) [] hw' hle
    (by intro r hr; have hne : r ≠ r0 := fun e => by rw [e, hok] at hr; cases hr
        simp only [hne, if_false]; exact inv.ok r hr)
    (fun r' hne => ⟨by simp [hne], by simp [setP_get, hne], by simp [updF, hne]⟩)
    (by intro r' he; subst he; simp only [setP_get, updF, if_true]; exact hroot)
    (by intro r' he x hx; subst he; simp only [updF, if_true] at hx; exact (hG x hx).2)
    (by intro r' he x hx; subst he; simp only [updF, if_true] at hx; exact Or.inl (hG x hx).1)
    (by intro r1 r2 e1 e2 hne; exact absurd (e1.trans e2.symm) hne)
    (fun x hlt _ => hfr x hlt)
    (by intro x hx; cases hx)
    (by
      intro x hl
      by_cases hlt : x < s.h.next
      · exact Or.inr (Or.inr ⟨hlt, fun r' he => by rw [he, hF0]; simp⟩)
      · exact Or.inl ⟨r0, rfl, by simp only [updF, if_true]; exact hcov x (by omega) hl⟩)
  exact key.congrT (fun a => by simp)

/-- the temporary blocks become the object of an empty slot (an element / entry handed to the caller) -/
theorem RepS.adopt {Tn : List Nat} {s : HState} {p : PState} {F : Root → List Nat} (inv : RepS Tn s p F) (r0 : Root)
    (hok : r0.ok = true) (hempty : s.slot r0 = none) (a : Nat) (v : V) (G : List Nat)
    (hroot : RootRel s.h r0 a v G) (hGT : ∀ x, x ∈ G ↔ x ∈ Tn) :
    RepS [] ⟨s.h, fun r' => if r' = r0 then some a else s.slot r'⟩ (setP p r0 (some v)) (updF F r0 G) := by
  have hF0 := (inv.emptySlot r0 hempty).2
  refine ⟨inv.wf, ?_, ?_, ?_, ?_, (fun _ _ _ hm => by cases hm), (fun _ hm => by cases hm), ?_⟩
  · intro r hr
    have hne : r ≠ r0 := fun e => by rw [e, hok] at hr; cases hr
    simp only [hne, if_false]; exact inv.ok r hr
  · intro r
    by_cases he : r = r0
    · subst he; simp only [setP_get, updF, if_true]; exact hroot
    · simp only [setP_get, updF, he, if_false]; exact inv.rel r
  · intro r x hx
    by_cases he : r = r0
    · subst he; simp only [updF, if_true] at hx
      exact isSome_lt inv.wf (inv.tlive x ((hGT x).mp hx))
    · simp only [updF, he, if_false] at hx; exact inv.lt r x hx
  · intro r r' hne x hx
    by_cases he : r = r0 <;> by_cases he' : r' = r0
    · exact absurd (he.trans he'.symm) hne
    · subst he; simp only [updF, if_true] at hx; simp only [updF, he', if_false]
      exact fun hm => inv.tdis r' x hm ((hGT x).mp hx)
    · subst he'; simp only [updF, he, if_false] at hx; simp only [updF, if_true]
      exact fun hm => inv.tdis r x hx ((hGT x).mp hm)
    · simp only [updF, he, if_false] at hx; simp only [updF, he', if_false]
      exact inv.dis r r' hne x hx
  · intro x hl
    rcases inv.cov x hl with ⟨r, hm⟩ | hm
    · have he : r ≠ r0 := fun e => by rw [e, hF0] at hm; cases hm
      exact Or.inl ⟨r, by simp only [updF, he, if_false]; exact hm⟩
    · exact Or.inl ⟨r0, by simp only [updF, if_true]; exact (hGT x).mpr hm⟩

/-- the object of a slot is released -/
theorem RepS.dropRoot {T : List Nat} {s : HState} {p : PState} {F : Root → List Nat} (inv : RepS T s p F) (r0 : Root)
    (h' : Heap) (G : List Nat) (hc : Cleared s.h h' G) (hG : ∀ x, x ∈ G ↔ x ∈ F r0) :
    RepS T ⟨h', fun r' => if r' = r0 then none else s.slot r'⟩ (setP p r0 none) (updF F r0 []) := by
  have key := RepS.frame inv (fun r' => r' = r0) h' (fun r' => if r' = r0 then none else s.slot r') (setP p r0 none)
    (updF F r0 []) [] (Cleared.wf hc inv.wf) (by rw [hc.1]; exact Nat.le_refl _)
    (by intro r hr; by_cases he : r = r0
        · simp [he]
        · simp only [he, if_false]; exact inv.ok r hr)
    (fun r' hne => ⟨by simp [hne], by simp [setP_get, hne], by simp [updF, hne]⟩)
    (by intro r' he; subst he; simp [setP_get, updF, SlotRel])
    (by intro r' he x hx; subst he; simp [updF] at hx)
    (by intro r' he x hx; subst he; simp [updF] at hx)
    (by intro r1 r2 e1 e2 hne; exact absurd (e1.trans e2.symm) hne)
    (by intro x _ hnot; rw [hc.2 x, if_neg (fun hm => hnot r0 rfl ((hG x).mp hm))])
    (by intro x hx; cases hx)
    (by
      intro x hl
      have hxG : x ∉ G := fun hm => by rw [hc.2 x, if_pos hm] at hl; cases hl
      have hl' : (s.h.cell x).isSome = true := by rw [hc.2 x, if_neg hxG] at hl; exact hl
      exact Or.inr (Or.inr ⟨isSome_lt inv.wf hl', fun r' he => by rw [he]; exact fun hm => hxG ((hG x).mpr hm)⟩))
  exact key.congrT (fun a => by simp)

/-- a temporary block is allocated (the normalised key the normaliser returns) -/
theorem RepS.allocTemp {T : List Nat} {s : HState} {p : PState} {F : Root → List Nat} (inv : RepS T s p F) (c : Cell) :
    RepS (T ++ [s.h.next]) ⟨(alloc s.h c).2, s.slot⟩ p F := by
  refine ⟨alloc_WF s.h c inv.wf, inv.ok, ?_, ?_, inv.dis, ?_, ?_, ?_⟩
  · intro r
    exact SlotRel_congr s.h _ r _ _ _ (fun a ha => alloc_cell_lt s.h c a (inv.lt r a ha)) (inv.rel r)
  · intro r a ha; have := inv.lt r a ha; show a < s.h.next + 1; omega
  · intro r a ha hm
    rcases List.mem_append.mp hm with hm | hm
    · exact inv.tdis r a ha hm
    · have := inv.lt r a ha; simp at hm; omega
  · intro a hm
    show ((alloc s.h c).2.cell a).isSome = true
    rcases List.mem_append.mp hm with hm | hm
    · rw [alloc_cell_lt s.h c a (isSome_lt inv.wf (inv.tlive a hm))]; exact inv.tlive a hm
    · simp at hm; subst hm; simp [alloc_cell]
  · intro a hl
    by_cases he : a = s.h.next
    · exact Or.inr (by simp [he])
    · have hl' : (s.h.cell a).isSome = true := by
        have : (alloc s.h c).2.cell a = s.h.cell a := by rw [alloc_cell]; simp [he]
        rw [← this]; exact hl
      exact (inv.cov a hl').imp id (fun hm => List.mem_append_left _ hm)

/-- a temporary block is released -/
theorem RepS.freeTemp {T T' : List Nat} {s : HState} {p : PState} {F : Root → List Nat} (inv : RepS T s p F) (k : Nat)
    (hk : k ∈ T) (hT' : ∀ x, x ∈ T' ↔ (x ∈ T ∧ x ≠ k)) :
    ∃ h', free s.h k = some h' ∧ RepS T' ⟨h', s.slot⟩ p F := by
  have hl := inv.tlive k hk
  cases hc : s.h.cell k with
  | none => rw [hc] at hl; cases hl
  | some c =>
    obtain ⟨h', hf, hn, hcell⟩ := free_spec s.h k c hc
    have hcl : Cleared s.h h' [k] := ⟨hn, fun x => by rw [hcell x]; simp⟩
    refine ⟨h', hf, Cleared.wf hcl inv.wf, inv.ok, ?_, ?_, inv.dis, ?_, ?_, ?_⟩
    · intro r
      exact SlotRel_congr s.h h' r _ _ _ (fun a ha => by
        rw [hcell a, if_neg (fun (e : a = k) => inv.tdis r a ha (e ▸ hk))]) (inv.rel r)
    · intro r a ha; show a < h'.next; rw [hn]; exact inv.lt r a ha
    · intro r a ha hm; exact inv.tdis r a ha ((hT' a).mp hm).1
    · intro a hm
      obtain ⟨h1, h2⟩ := (hT' a).mp hm
      show (h'.cell a).isSome = true
      rw [hcell a, if_neg h2]; exact inv.tlive a h1
    · intro a hl'
      have hne : a ≠ k := fun e => by rw [show h'.cell a = none by rw [hcell a, if_pos e]] at hl'; cases hl'
      have : (s.h.cell a).isSome = true := by rw [show h'.cell a = s.h.cell a by rw [hcell a, if_neg hne]] at hl'; exact hl'
      exact (inv.cov a this).imp id (fun hm => (hT' a).mpr ⟨hm, hne⟩)

end CifModel.Model.Hist
