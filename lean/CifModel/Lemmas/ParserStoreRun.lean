import CifModel.Lemmas.ParserStoreSim
import CifModel.Lemmas.ParserTraceShape
import CifModel.Props.C04
/-
  Lemmas/ParserStoreRun — the store calls of a parse as a HISTORY of the store model (group gX), layer 2: the world of `Store.step`
  (handle tables, one managed CIF, no iterator) along the translated trace (`storeOp`), through C04's refinement theorem.

  `Rep o m w s cif last`: the world `w` represents the target `cif` of the parser model — one CIF `s` in slot 0 whose documented model
  (`absS`) shows `cif` and satisfies `AInv`; no iterator; `WOk w`; every path of the translation table `m` denotes a live container
  handle of the block with that key; right after a `mkLoop p` / `addPkt p` the loop handle of `p` denotes the open loop (`OpenLoop`).

  `rep_step`: one recorded call, made in a state that meets what Lemmas/ParserTraceInv proves about every call of every trace, is in
  contract, returns CIF_OK and leads to a world that represents `op.apply o cif`.  The step is computed on the DOCUMENTED model
  (`specStep`, Lemmas/ParserStoreSim) and transferred to `Store.step` by `C04_refines` — `Store.step` itself is never unfolded.
-/
set_option linter.unusedSimpArgs false
set_option linter.unusedVariables false

namespace CifModel.ParserSim
open CifModel CifModel.Model CifModel.Model.Parser CifModel.Gen.ErrCodes
open CifModel.Store (AState ALoop BlockRow ContainerRow CH LH Name AWorld World CHE LHE absS absW specStep)

/-- the documented world with one CIF and no iterator -/
def aw (A : AState) (chs : List (Option CHE)) (lhs : List (Option LHE)) : AWorld := { cifs := [some A], chs := chs, lhs := lhs, its := [] }

theorem absW_inv (w' : World) (A' : AState) (chs' : List (Option CHE)) (lhs' : List (Option LHE)) (h : absW w' = aw A' chs' lhs') :
    ∃ s', w'.cifs = [some s'] ∧ absS s'.db = A' ∧ w'.chs = chs' ∧ w'.lhs = lhs' ∧ w'.its = [] := by
  unfold absW aw at h
  injection h with h1 h2 h3 h4
  have hits : w'.its = [] := by
    cases hw : w'.its with
    | nil => rfl
    | cons a r => rw [hw] at h4; simp at h4
  cases hc : w'.cifs with
  | nil => rw [hc] at h1; simp at h1
  | cons x r =>
    rw [hc] at h1
    simp only [List.map_cons, List.cons.injEq, List.map_eq_nil_iff] at h1
    obtain ⟨hx, hr⟩ := h1
    subst hr
    cases x with
    | none => simp at hx
    | some s' =>
      simp only [Option.map_some, Option.some.injEq] at hx
      exact ⟨s', rfl, hx, h2, h3, hits⟩

theorem absW_eq (w : World) (s : Store.Store) (hc : w.cifs = [some s]) (hi : w.its = []) : absW w = aw (absS s.db) w.chs w.lhs := by
  unfold absW aw
  rw [hc, hi]
  rfl

/-! ### `specStep` on a one-CIF world -/

theorem liveH_aw (A : AState) (chs : List (Option CHE)) (lhs : List (Option LHE)) (h : Nat) (e : CHE)
    (he : chs.getD h none = some e) (hc : e.cif = 0) : (aw A chs lhs).liveH h = some (e, A) := by
  unfold AWorld.liveH aw
  simp only [he, AWorld.liveC, hc]
  rfl

theorem liveL_aw (A : AState) (chs : List (Option CHE)) (lhs : List (Option LHE)) (l : Nat) (e : LHE) (che : CHE)
    (he : lhs.getD l none = some e) (hc : e.cif = 0) (hch : chs.getD e.ch none = some che) (hcc : che.cif = 0) :
    (aw A chs lhs).liveL l = some (e, A) := by
  unfold AWorld.liveL
  have : (aw A chs lhs).lhs.getD l none = some e := he
  rw [this]
  simp only [liveH_aw A chs lhs e.ch che hch hcc]
  unfold AWorld.liveC aw
  simp only [hc]
  rfl

theorem setCif_aw (A A' : AState) (chs : List (Option CHE)) (lhs : List (Option LHE)) : (aw A chs lhs).setCif 0 A' = aw A' chs lhs := rfl

theorem specStep_mkBlock_aw (A A' : AState) (chs : List (Option CHE)) (lhs : List (Option LHE)) (n : Option Name) (len : Bool) (hnew : CH)
    (hs : Store.specCreateBlock A n len = (A', .ok hnew)) :
    specStep (aw A chs lhs) (.mkBlock 0 n len) = some (aw A' (chs ++ [some { cif := 0, h := hnew }]) lhs, { rc := some CIF_OK }) := by
  unfold specStep
  have : (aw A chs lhs).liveC 0 = some A := rfl
  simp only [this, hs]
  rfl

theorem specStep_prune_aw (A A' : AState) (chs : List (Option CHE)) (lhs : List (Option LHE)) (h : Nat) (e : CHE)
    (he : chs.getD h none = some e) (hc : e.cif = 0) (hs : Store.specPrune A e.h = (A', .ok ())) :
    specStep (aw A chs lhs) (.prune h) = some (aw A' chs lhs, { rc := some CIF_OK }) := by
  unfold specStep
  simp only [liveH_aw A chs lhs h e he hc, hs, hc]
  rfl

theorem specStep_mkLoop_aw (A A' : AState) (chs : List (Option CHE)) (lhs : List (Option LHE)) (h : Nat) (e : CHE)
    (cat : Option Str) (names : List Name) (lnew : LH)
    (he : chs.getD h none = some e) (hc : e.cif = 0) (hs : Store.specCreateLoop A e.h cat names = (A', .ok lnew)) :
    specStep (aw A chs lhs) (.mkLoop h cat names) =
      some (aw A' chs (lhs ++ [some { cif := 0, ch := h, h := lnew }]), { rc := some CIF_OK }) := by
  unfold specStep
  simp only [liveH_aw A chs lhs h e he hc, hs, hc]
  rfl

theorem specStep_addPkt_aw (A A' : AState) (chs : List (Option CHE)) (lhs : List (Option LHE)) (l : Nat) (e : LHE) (che : CHE)
    (p : List (Str × V)) (he : lhs.getD l none = some e) (hc : e.cif = 0) (hch : chs.getD e.ch none = some che) (hcc : che.cif = 0)
    (hs : Store.specAddPacket A e.h p = (A', .ok ())) :
    specStep (aw A chs lhs) (.addPkt l p) = some (aw A' chs lhs, { rc := some CIF_OK }) := by
  unfold specStep
  simp only [liveL_aw A chs lhs l e che he hc hch hcc, hs, hc]
  rfl

theorem specStep_setVal_aw (A A' : AState) (chs : List (Option CHE)) (lhs : List (Option LHE)) (h : Nat) (e : CHE)
    (n : Option Name) (v : Option V) (he : chs.getD h none = some e) (hc : e.cif = 0) (hs : Store.specSetValue A e.h n v = (A', .ok ())) :
    specStep (aw A chs lhs) (.setVal h n v) = some (aw A' chs lhs, { rc := some CIF_OK }) := by
  unfold specStep
  simp only [liveH_aw A chs lhs h e he hc, hs, hc]
  rfl

theorem specStep_getVal_aw (A : AState) (chs : List (Option CHE)) (lhs : List (Option LHE)) (h : Nat) (e : CHE)
    (nm : Name) (v : V) (amb : Bool) (he : chs.getD h none = some e) (hc : e.cif = 0)
    (hs : Store.specGetValue A e.h (some nm) = .ok (v, amb)) :
    specStep (aw A chs lhs) (.getVal h (some nm)) =
      some (aw A chs lhs, { rc := some (if amb = true then CIF_AMBIGUOUS_ITEM else CIF_OK), out := .value v }) := by
  unfold specStep
  simp only [liveH_aw A chs lhs h e he hc, hs, hc]
  rfl

/-! ### the world along the translated trace -/

/-- the calls the composition theorem covers, given the call made just before: no save frames; a packet goes to the loop that the
    call just before created or filled (parse_loop: cif_container_create_loop, then the packets, nothing in between) -/
def covered (last : Option SOp) : SOp → Bool
  | .mkFrame .. => false
  | .addPkt p _ => lastPath last == some p
  | _ => true

structure Rep (o : Opts) (m : HMap) (w : World) (s : Store.Store) (last : Option SOp) : Prop where
  cifs : w.cifs = [some s]
  its : w.its = []
  wok : Store.WOk w
  inv : AInv o (absS s.db)
  nch : m.nCh = w.chs.length
  nlh : m.nLh = w.lhs.length
  ch : ∀ p h, m.ch p = some h → ∃ k b e, p = [k] ∧ BlockAt (absS s.db) k b ∧ w.chs.getD h none = some e ∧ e.cif = 0 ∧ e.h.id = b.cid
  hasH : ∀ b ∈ (absS s.db).blocks, ∃ h, m.ch [b.name] = some h
  open_ : ∀ p, lastPath last = some p → ∃ l names k b e che, m.lh p = some (l, names) ∧ p = [k] ∧ BlockAt (absS s.db) k b ∧
      w.lhs.getD l none = some e ∧ e.cif = 0 ∧ w.chs.getD e.ch none = some che ∧ che.cif = 0 ∧ e.h.cid = b.cid ∧
      e.h.category = none ∧ OpenLoop o (absS s.db) b.cid e.h.loopNum names

theorem busy_false (w : World) (hi : w.its = []) (c : Nat) : w.cifBusy c = false := by
  unfold World.cifBusy; rw [hi]; rfl

theorem liveC0 (w : World) (s : Store.Store) (hc : w.cifs = [some s]) : w.liveC 0 = some s := by
  unfold World.liveC; rw [hc]; rfl

theorem liveH_w (w : World) (s : Store.Store) (hc : w.cifs = [some s]) (h : Nat) (e : CHE) (he : w.chs.getD h none = some e)
    (h0 : e.cif = 0) : w.liveH h = some (e, s) := by
  unfold World.liveH
  simp only [he, h0, liveC0 w s hc]
  rfl

theorem liveL_w (w : World) (s : Store.Store) (hc : w.cifs = [some s]) (l : Nat) (e : LHE) (che : CHE)
    (he : w.lhs.getD l none = some e) (h0 : e.cif = 0) (hch : w.chs.getD e.ch none = some che) (hcc : che.cif = 0) :
    w.liveL l = some (e, s) := by
  unfold World.liveL
  simp only [he, liveH_w w s hc e.ch che hch hcc, h0, liveC0 w s hc]
  rfl

theorem okC_w (w : World) (s : Store.Store) (hc : w.cifs = [some s]) (hi : w.its = []) : Store.okC w 0 = true := by
  unfold Store.okC
  simp only [liveC0 w s hc, busy_false w hi]
  rfl

theorem okH_w (w : World) (s : Store.Store) (hc : w.cifs = [some s]) (hi : w.its = []) (h : Nat) (e : CHE)
    (he : w.chs.getD h none = some e) (h0 : e.cif = 0) (hv : s.db.hasContainer e.h.id = true ∧ s.db.inCif e.h.id = true) :
    Store.okH w h = true := by
  unfold Store.okH
  simp only [liveH_w w s hc h e he h0, busy_false w hi, Store.CH.okB, Store.CH.validB, hv.1, hv.2]
  rfl

theorem hasContainer_of (o : Opts) (s : Store.Store) (hi : AInv o (absS s.db)) (b : BlockRow) (hb : b ∈ (absS s.db).blocks) :
    s.db.hasContainer b.cid = true ∧ s.db.inCif b.cid = true := by
  obtain ⟨c, hc, e⟩ := hi.blkCont b hb
  have h1 : s.db.hasContainer b.cid = true := by
    unfold Store.Db.hasContainer
    rw [List.any_eq_true]
    exact ⟨c, hc, by simp [e]⟩
  refine ⟨h1, ?_⟩
  unfold Store.Db.inCif
  rw [h1, Bool.true_and, Store.Db.upB]
  have : s.db.blocks.any (fun x => x.cid == b.cid) = true := List.any_eq_true.mpr ⟨b, hb, by simp⟩
  simp [this]

/-- the step of the store model from the step of the documented model -/
theorem transfer (w : World) (s : Store.Store) (sop : Store.Op) (A' : AState) (chs' : List (Option CHE)) (lhs' : List (Option LHE))
    (res : Store.Result) (hc : w.cifs = [some s]) (hi : w.its = []) (hwok : Store.WOk w) (hin : Store.inContract w sop = true)
    (hspec : specStep (aw (absS s.db) w.chs w.lhs) sop = some (aw A' chs' lhs', res)) :
    (Store.step w sop).2 = res ∧ Store.WOk (Store.step w sop).1 ∧
      ∃ s', (Store.step w sop).1.cifs = [some s'] ∧ absS s'.db = A' ∧ (Store.step w sop).1.chs = chs' ∧
        (Store.step w sop).1.lhs = lhs' ∧ (Store.step w sop).1.its = [] := by
  have h := CifModel.C04_refines w sop hwok hin
  rw [absW_eq w s hc hi, hspec] at h
  simp only [Option.some.injEq, Prod.mk.injEq] at h
  exact ⟨h.2.symm, CifModel.C04_wok_step w sop hwok hin, absW_inv _ A' chs' lhs' h.1.symm⟩

theorem getD_append_old {α} (l : List (Option α)) (j : Nat) (x : Option α) (a : α) (h : l.getD j none = some a) :
    (l ++ [x]).getD j none = some a := by
  have hj := Store.getD_some_lt l j a h
  simpa [List.getD, List.getElem?_append_left hj] using h

theorem getD_append_new {α} (l : List (Option α)) (x : Option α) : (l ++ [x]).getD l.length none = x := by
  simp [List.getD]

theorem HMap.ch_cons (m : HMap) (p0 : Path) (h0 n : Nat) (p : Path) :
    ({ m with chs := (p0, h0) :: m.chs, nCh := n } : HMap).ch p = if p0 == p then some h0 else m.ch p := by
  unfold HMap.ch
  simp only [List.find?_cons]
  split <;> simp_all

theorem HMap.lh_cons (m : HMap) (p0 : Path) (l0 : Nat) (ns : List Str) (n : Nat) (p : Path) :
    ({ m with lhs := (p0, l0, ns) :: m.lhs, nLh := n } : HMap).lh p = if p0 == p then some (l0, ns) else m.lh p := by
  unfold HMap.lh
  simp only [List.find?_cons]
  split <;> simp_all

/-- one more block: the handle table entry of the new block, the old entries unchanged -/
theorem rep_mkBlock (o : Opts) (m : HMap) (w : World) (s : Store.Store) (last : Option SOp) (code : Str) (len : Bool)
    (hr : Rep o m w s last) (hdoc : (SOp.mkBlock code len).docOk o (absS s.db).tree) :
    let sop := Store.Op.mkBlock 0 (some (mkName o false code)) len
    let m' : HMap := { m with chs := ([o.norm code], m.nCh) :: m.chs, nCh := m.nCh + 1 }
    Store.inContract w sop = true ∧ (Store.step w sop).2.rc = some CIF_OK ∧
      ∃ s', Rep o m' (Store.step w sop).1 s' (some (SOp.mkBlock code len)) ∧
        (absS s'.db).tree = (SOp.mkBlock code len).apply o (absS s.db).tree := by
  intro sop m'
  obtain ⟨hl, hfresh⟩ := hdoc
  obtain ⟨hspec, hinv', htree'⟩ := sim_mkBlock o (absS s.db) hr.inv code len hl hfresh
  have hin : Store.inContract w sop = true := okC_w w s hr.cifs hr.its
  have hst := specStep_mkBlock_aw (absS s.db) _ w.chs w.lhs (some (mkName o false code)) len _ hspec
  obtain ⟨hres, hwok', s', hc', hA, hchs', hlhs', hits'⟩ := transfer w s sop _ _ _ _ hr.cifs hr.its hr.wok hin hst
  refine ⟨hin, by rw [hres], s', ?_, by rw [hA, htree']; rfl⟩
  refine ⟨hc', hits', hwok', by rw [hA]; exact hinv', ?_, ?_, ?_, ?_, ?_⟩
  · show m.nCh + 1 = _
    rw [hchs', List.length_append, hr.nch]; rfl
  · show m.nLh = _
    rw [hlhs']; exact hr.nlh
  · intro p h hp
    rw [HMap.ch_cons] at hp
    rw [hA, hchs']
    split at hp
    · rename_i hpe
      have hpe' : [o.norm code] = p := by simpa using hpe
      simp only [Option.some.injEq] at hp
      subst hp; subst hpe'
      refine ⟨o.norm code, { cid := (absS s.db).nextId, name := o.norm code, nameOrig := code },
        { cif := 0, h := { id := (absS s.db).nextId, code := code, isBlock := true } }, rfl, ?_, ?_, rfl, rfl⟩
      · exact ⟨List.mem_append_right _ (List.mem_singleton.mpr rfl), rfl⟩
      · rw [hr.nch]; exact getD_append_new _ _
    · obtain ⟨k, b, e, hpk, hb, he, h0, hid⟩ := hr.ch p h hp
      exact ⟨k, b, e, hpk, ⟨List.mem_append_left _ hb.1, hb.2⟩, getD_append_old _ _ _ _ he, h0, hid⟩
  · intro b hb
    rw [hA] at hb
    rw [HMap.ch_cons]
    split
    · exact ⟨_, rfl⟩
    · rcases List.mem_append.mp hb with h1 | h1
      · exact hr.hasH b h1
      · rename_i hne
        simp only [List.mem_singleton] at h1
        subst h1
        exact absurd (by simp) hne
  · intro p hp; cases hp

/-- cif_container_prune -/
theorem rep_prune (o : Opts) (m : HMap) (w : World) (s : Store.Store) (last : Option SOp) (path : Path) (h : Nat)
    (hr : Rep o m w s last) (hm : m.ch path = some h) :
    let sop := Store.Op.prune h
    Store.inContract w sop = true ∧ (Store.step w sop).2.rc = some CIF_OK ∧
      ∃ s', Rep o m (Store.step w sop).1 s' (some (SOp.prune path)) ∧
        (absS s'.db).tree = (SOp.prune path).apply o (absS s.db).tree := by
  intro sop
  obtain ⟨k, b, e, hpk, hb, he, h0, hid⟩ := hr.ch path h hm
  subst hpk
  obtain ⟨hspec, hinv', htree'⟩ := sim_prune o (absS s.db) hr.inv k b hb e.h hid
  have hin : Store.inContract w sop = true :=
    okH_w w s hr.cifs hr.its h e he h0 (by rw [hid]; exact hasContainer_of o s hr.inv b hb.1)
  have hst := specStep_prune_aw (absS s.db) _ w.chs w.lhs h e he h0 hspec
  obtain ⟨hres, hwok', s', hc', hA, hchs', hlhs', hits'⟩ := transfer w s sop _ _ _ _ hr.cifs hr.its hr.wok hin hst
  refine ⟨hin, by rw [hres], s', ?_, by rw [hA, htree']; rfl⟩
  refine ⟨hc', hits', hwok', by rw [hA]; exact hinv', by rw [hchs']; exact hr.nch, by rw [hlhs']; exact hr.nlh, ?_, ?_, ?_⟩
  · intro p h' hp
    rw [hA, hchs']
    exact hr.ch p h' hp
  · intro b' hb'
    rw [hA] at hb'
    exact hr.hasH b' hb'
  · intro p hp; cases hp

/-- cif_container_create_loop -/
theorem rep_mkLoop (o : Opts) (m : HMap) (w : World) (s : Store.Store) (last : Option SOp) (path : Path) (names : List Str) (h : Nat)
    (hr : Rep o m w s last) (hm : m.ch path = some h) (hdoc : (SOp.mkLoop path names).docOk o (absS s.db).tree) :
    let sop := Store.Op.mkLoop h none (names.map (mkName o true))
    let m' : HMap := { m with lhs := (path, m.nLh, names) :: m.lhs, nLh := m.nLh + 1 }
    Store.inContract w sop = true ∧ (Store.step w sop).2.rc = some CIF_OK ∧
      ∃ s', Rep o m' (Store.step w sop).1 s' (some (SOp.mkLoop path names)) ∧
        (absS s'.db).tree = (SOp.mkLoop path names).apply o (absS s.db).tree := by
  intro sop m'
  obtain ⟨k, b, e, hpk, hb, he, h0, hid⟩ := hr.ch path h hm
  subst hpk
  obtain ⟨hne, hv, hcl⟩ := hdoc
  have hcl' := hcl _ (getIn_block o (absS s.db) hr.inv k b hb)
  obtain ⟨c, hc, hcb, hspec, hinv', htree', hopen'⟩ := sim_mkLoop o (absS s.db) hr.inv k b hb e.h hid names hne hv hcl'
  have hin : Store.inContract w sop = true :=
    okH_w w s hr.cifs hr.its h e he h0 (by rw [hid]; exact hasContainer_of o s hr.inv b hb.1)
  have hst := specStep_mkLoop_aw (absS s.db) _ w.chs w.lhs h e none _ _ he h0 hspec
  obtain ⟨hres, hwok', s', hc', hA, hchs', hlhs', hits'⟩ := transfer w s sop _ _ _ _ hr.cifs hr.its hr.wok hin hst
  refine ⟨hin, by rw [hres], s', ?_, by rw [hA, htree']; rfl⟩
  refine ⟨hc', hits', hwok', by rw [hA]; exact hinv', by rw [hchs']; exact hr.nch, ?_, ?_, ?_, ?_⟩
  · show m.nLh + 1 = _
    rw [hlhs', List.length_append, hr.nlh]; rfl
  · intro p h' hp
    rw [hA, hchs']
    exact hr.ch p h' hp
  · intro b' hb'
    rw [hA] at hb'
    exact hr.hasH b' hb'
  · intro p hp
    have hpp : p = [k] := by simpa [lastPath] using hp.symm
    subst hpp
    refine ⟨m.nLh, names, k, b, { cif := 0, ch := h, h := { cid := b.cid, loopNum := c.nextLoopNum, category := none } }, e,
      ?_, rfl, ?_, ?_, rfl, ?_, h0, rfl, rfl, ?_⟩
    · rw [HMap.lh_cons]; simp
    · rw [hA]; exact hb
    · rw [hlhs', hr.nlh]; exact getD_append_new _ _
    · rw [hchs']; exact he
    · rw [hA]; exact hopen'

theorem keysDistinct_zip : ∀ (ks : List Str) (vs : List V), ks.Nodup → Store.keysDistinct (ks.zip vs) = true
  | [], _, _ => rfl
  | _ :: _, [], _ => rfl
  | k :: ks, v :: vs, hn => by
    rw [List.nodup_cons] at hn
    simp only [List.zip_cons_cons, Store.keysDistinct, keysDistinct_zip ks vs hn.2, Bool.and_true, Bool.not_eq_true']
    rw [List.any_eq_false]
    intro e he
    have hm := (List.of_mem_zip he).1
    intro hk
    have hek : e.1 = k := by simpa using hk
    rw [hek] at hm
    exact hn.1 hm

theorem validB_of_open (o : Opts) (s : Store.Store) (hi : AInv o (absS s.db)) (cid num : Nat) (names : List Str)
    (hop : OpenLoop o (absS s.db) cid num names) (l : LH) (h1 : l.cid = cid) (h2 : l.loopNum = num) (h3 : l.category = none) :
    l.validB s.db = true := by
  obtain ⟨ls0, x, hfl, hxc, hxn, hcat, _, _⟩ := hop
  have hxm : x ∈ (absS s.db).loops := mem_of_filter_eq hfl
  have hfind := findLoop_of_mem o (absS s.db) hi x hxm
  rw [Store.findLoop_absS] at hfind
  unfold Store.LH.validB
  rw [h1, h2, h3, ← hxc, ← hxn]
  cases hf : s.db.loops.find? (fun y => y.cid == x.cid && y.loopNum == x.num) with
  | none => rw [hf] at hfind; simp at hfind
  | some xr =>
    rw [hf] at hfind
    simp only [Option.map_some, Option.some.injEq] at hfind
    have : xr.category = x.category := by rw [← hfind]; rfl
    simp only [this, hcat]
    rfl

/-- cif_loop_add_packet on the loop the call before created or filled -/
theorem rep_addPkt (o : Opts) (m : HMap) (w : World) (s : Store.Store) (last : Option SOp) (path : Path) (vals : List V)
    (l : Nat) (names : List Str) (hr : Rep o m w s last) (hlast : lastPath last = some path) (hm : m.lh path = some (l, names))
    (hdoc : (SOp.addPkt path vals).docOk o (absS s.db).tree) :
    let sop := Store.Op.addPkt l ((names.map o.norm).zip vals)
    Store.inContract w sop = true ∧ (Store.step w sop).2.rc = some CIF_OK ∧
      ∃ s', Rep o m (Store.step w sop).1 s' (some (SOp.addPkt path vals)) ∧
        (absS s'.db).tree = (SOp.addPkt path vals).apply o (absS s.db).tree := by
  intro sop
  obtain ⟨l', names', k, b, e, che, hm', hpk, hb, he, h0, hch, hcc, hcid, hcat, hopen⟩ := hr.open_ path hlast
  rw [hm] at hm'
  simp only [Option.some.injEq, Prod.mk.injEq] at hm'
  obtain ⟨rfl, rfl⟩ := hm'
  subst hpk
  obtain ⟨hne, hd⟩ := hdoc
  obtain ⟨lp, hlp, _, hlen⟩ := hd _ (getIn_block o (absS s.db) hr.inv k b hb)
  have hlen' : names.length = vals.length := by
    obtain ⟨ls0, x, hfl, _, _, _, hitems, _⟩ := hopen
    have : (blkTree (absS s.db) b).loops = (ls0 ++ [x]).map ALoop.toLoop := by
      simp only [blkTree_eq, loopsOf, Container.loops, hfl]
    rw [this, List.map_append, List.map_cons, List.map_nil, List.getLast?_append] at hlp
    simp only [List.getLast?_singleton, Option.some_or, Option.some.injEq] at hlp
    rw [← hlen, ← hlp]
    simp [ALoop.toLoop, hitems]
  obtain ⟨hspec, hinv', htree', hopen'⟩ := sim_addPkt o (absS s.db) hr.inv k b hb e.h.loopNum names hopen vals hne hlen' e.h hcid rfl
  have hnd : (names.map o.norm).Nodup := by obtain ⟨_, _, _, _, _, _, _, h⟩ := hopen; exact h
  have hin : Store.inContract w sop = true := by
    show (Store.okL w l && Store.keysDistinct ((names.map o.norm).zip vals)) = true
    rw [keysDistinct_zip _ _ hnd, Bool.and_true]
    unfold Store.okL
    have hic := (hasContainer_of o s hr.inv b hb.1).2
    rw [← hcid] at hic
    simp only [liveL_w w s hr.cifs l e che he h0 hch hcc, busy_false w hr.its, Store.LH.okB,
      validB_of_open o s hr.inv b.cid e.h.loopNum names hopen e.h hcid rfl hcat, hic]
    rfl
  have hst := specStep_addPkt_aw (absS s.db) _ w.chs w.lhs l e che _ he h0 hch hcc hspec
  obtain ⟨hres, hwok', s', hc', hA, hchs', hlhs', hits'⟩ := transfer w s sop _ _ _ _ hr.cifs hr.its hr.wok hin hst
  refine ⟨hin, by rw [hres], s', ?_, by rw [hA, htree']; rfl⟩
  refine ⟨hc', hits', hwok', by rw [hA]; exact hinv', by rw [hchs']; exact hr.nch, by rw [hlhs']; exact hr.nlh, ?_, ?_, ?_⟩
  · intro p h' hp
    rw [hA, hchs']
    exact hr.ch p h' hp
  · intro b' hb'
    rw [hA] at hb'
    exact hr.hasH b' hb'
  · intro p hp
    have hpp : [k] = p := by simpa [lastPath] using hp
    subst hpp
    refine ⟨l, names, k, b, e, che, hm, rfl, ?_, by rw [hlhs']; exact he, h0, by rw [hchs']; exact hch, hcc, hcid, hcat, ?_⟩
    · rw [hA]; exact hb
    · rw [hA]; exact hopen'

/-- cif_container_set_value -/
theorem rep_setVal (o : Opts) (m : HMap) (w : World) (s : Store.Store) (last : Option SOp) (path : Path) (n : Str) (v : V) (h : Nat)
    (hr : Rep o m w s last) (hm : m.ch path = some h) (hwf : (SOp.setVal path n v).wf) (hokr : OkR o (absS s.db).tree) :
    let sop := Store.Op.setVal h (some (mkName o true n)) (some v)
    Store.inContract w sop = true ∧ (Store.step w sop).2.rc = some CIF_OK ∧
      ∃ s', Rep o m (Store.step w sop).1 s' (some (SOp.setVal path n v)) ∧
        (absS s'.db).tree = (SOp.setVal path n v).apply o (absS s.db).tree := by
  intro sop
  obtain ⟨k, b, e, hpk, hb, he, h0, hid⟩ := hr.ch path h hm
  subst hpk
  obtain ⟨A', hspec, hinv', hblocks', htree'⟩ := sim_setVal o (absS s.db) hr.inv k b hb e.h hid n v hwf.1 hokr
  have hin : Store.inContract w sop = true :=
    okH_w w s hr.cifs hr.its h e he h0 (by rw [hid]; exact hasContainer_of o s hr.inv b hb.1)
  have hst := specStep_setVal_aw (absS s.db) A' w.chs w.lhs h e _ _ he h0 hspec
  obtain ⟨hres, hwok', s', hc', hA, hchs', hlhs', hits'⟩ := transfer w s sop _ _ _ _ hr.cifs hr.its hr.wok hin hst
  refine ⟨hin, by rw [hres], s', ?_, by rw [hA, htree']; rfl⟩
  refine ⟨hc', hits', hwok', by rw [hA]; exact hinv', by rw [hchs']; exact hr.nch, by rw [hlhs']; exact hr.nlh, ?_, ?_, ?_⟩
  · intro p h' hp
    rw [hA, hchs']
    obtain ⟨k', b', e', hpk', hb', he', h0', hid'⟩ := hr.ch p h' hp
    exact ⟨k', b', e', hpk', ⟨by rw [hblocks']; exact hb'.1, hb'.2⟩, he', h0', hid'⟩
  · intro b' hb'
    rw [hA, hblocks'] at hb'
    exact hr.hasH b' hb'
  · intro p hp; cases hp

/-- **the value a recorded cif_container_set_value stores is read back identical from the composed state** (property C07, route
    `parser`): in a world that represents the parser's target, after the call, cif_container_get_value on the same container handle
    under the same name delivers the value — when the item is new (the parser's normal path: it stores only after
    cif_container_get_item_loop said CIF_NOSUCH_ITEM), and, for an item the container already has, when its loop has a packet -/
theorem rep_setVal_reads (o : Opts) (m : HMap) (w : World) (s : Store.Store) (last : Option SOp) (path : Path) (n : Str) (v : V) (h : Nat)
    (hr : Rep o m w s last) (hm : m.ch path = some h) (hwf : (SOp.setVal path n v).wf) (hokr : OkR o (absS s.db).tree)
    (hcase : ∀ cc, getIn o.norm path (absS s.db).tree = some cc →
      hasItem o.norm cc (o.norm n) = false ∨
        ∀ l ∈ cc.loops, (l.names.any fun x => o.norm x == o.norm n) = true → l.packets ≠ []) :
    let sop := Store.Op.setVal h (some (mkName o true n)) (some v)
    ∃ amb, (Store.step (Store.step w sop).1 (.getVal h (some (mkName o true n)))).2 =
      { rc := some (if amb = true then CIF_AMBIGUOUS_ITEM else CIF_OK), out := .value v } := by
  intro sop
  obtain ⟨k, b, e, hpk, hb, he, h0, hid⟩ := hr.ch path h hm
  subst hpk
  obtain ⟨A', hspec, hinv', hblocks', htree'⟩ := sim_setVal o (absS s.db) hr.inv k b hb e.h hid n v hwf.1 hokr
  have hin : Store.inContract w sop = true :=
    okH_w w s hr.cifs hr.its h e he h0 (by rw [hid]; exact hasContainer_of o s hr.inv b hb.1)
  have hst := specStep_setVal_aw (absS s.db) A' w.chs w.lhs h e _ _ he h0 hspec
  obtain ⟨hres, hwok', s', hc', hA, hchs', hlhs', hits'⟩ := transfer w s sop _ _ _ _ hr.cifs hr.its hr.wok hin hst
  -- the read
  obtain ⟨hok, hrect⟩ := container_facts o (absS s.db) hr.inv b hb.1 hokr
  have hread : ∃ amb, Store.specGetValue A' e.h (some (mkName o true n)) = .ok (v, amb) := by
    cases hhas : (absS s.db).hasItem b.cid (o.norm n) with
    | false => exact reads_new o (absS s.db) hr.inv b hb.1 e.h hid n v hwf.1 hok hrect hhas A' hspec
    | true =>
      obtain ⟨y, hym, hyc, hyk, hy⟩ := reads_existing o (absS s.db) hr.inv b e.h hid n v hwf.1 hok hrect hhas
      apply hy _ A' hspec
      rcases hcase _ (getIn_block o (absS s.db) hr.inv k b hb) with h1 | h1
      · rw [hasItem_tree o (absS s.db) hr.inv b, hhas] at h1; cases h1
      · have hyL : y.toLoop ∈ (blkTree (absS s.db) b).loops :=
          List.mem_map_of_mem (List.mem_filter.mpr ⟨hym, by simp [hyc]⟩)
        have := h1 _ hyL (by rw [names_toLoop_any o y (hr.inv.itemNorm y hym)]; exact hyk)
        exact this
  obtain ⟨amb, hamb⟩ := hread
  refine ⟨amb, ?_⟩
  have he' : (Store.step w sop).1.chs.getD h none = some e := by rw [hchs']; exact he
  have hin2 : Store.inContract (Store.step w sop).1 (.getVal h (some (mkName o true n))) = true := by
    apply okH_w _ s' hc' hits' h e he' h0
    have hb' : b ∈ (absS s'.db).blocks := by rw [hA, hblocks']; exact hb.1
    rw [hid]
    exact hasContainer_of o s' (by rw [hA]; exact hinv') b hb'
  have hst2 := specStep_getVal_aw (absS s'.db) (Store.step w sop).1.chs (Store.step w sop).1.lhs h e _ v amb he' h0 (by rw [hA]; exact hamb)
  obtain ⟨hres2, _⟩ := transfer (Store.step w sop).1 s' _ _ _ _ _ hc' hits' hwok' hin2 hst2
  exact hres2

/-- **one recorded call** made in a state that meets what the parser side proves of every call (`docOk`, `wf`) and is `covered`:
    in contract, CIF_OK, and the new world represents `op.apply` of the tree -/
theorem rep_step (o : Opts) (m : HMap) (w : World) (s : Store.Store) (last : Option SOp) (op : SOp) (sop : Store.Op) (m' : HMap)
    (hr : Rep o m w s last) (hokr : OkR o (absS s.db).tree) (hdoc : op.docOk o (absS s.db).tree) (hwf : op.wf)
    (hcov : covered last op = true) (hso : storeOp o m op = some (sop, m')) :
    Store.inContract w sop = true ∧ (Store.step w sop).2.rc = some CIF_OK ∧
      ∃ s', Rep o m' (Store.step w sop).1 s' (some op) ∧ (absS s'.db).tree = op.apply o (absS s.db).tree := by
  cases op with
  | mkBlock code len =>
    simp only [storeOp, Option.some.injEq, Prod.mk.injEq] at hso
    obtain ⟨rfl, rfl⟩ := hso
    exact rep_mkBlock o m w s last code len hr hdoc
  | mkFrame parent code len => cases hcov
  | setVal path n v =>
    simp only [storeOp] at hso
    cases hm : m.ch path with
    | none => rw [hm] at hso; cases hso
    | some h =>
      rw [hm] at hso
      simp only [Option.some.injEq, Prod.mk.injEq] at hso
      obtain ⟨rfl, rfl⟩ := hso
      exact rep_setVal o m w s last path n v h hr hm hwf hokr
  | mkLoop path names =>
    simp only [storeOp] at hso
    cases hm : m.ch path with
    | none => rw [hm] at hso; cases hso
    | some h =>
      rw [hm] at hso
      simp only [Option.some.injEq, Prod.mk.injEq] at hso
      obtain ⟨rfl, rfl⟩ := hso
      exact rep_mkLoop o m w s last path names h hr hm hdoc
  | addPkt path vals =>
    simp only [storeOp] at hso
    cases hm : m.lh path with
    | none => rw [hm] at hso; cases hso
    | some ln =>
      obtain ⟨l, names⟩ := ln
      rw [hm] at hso
      simp only [Option.some.injEq, Prod.mk.injEq] at hso
      obtain ⟨rfl, rfl⟩ := hso
      have hlast : lastPath last = some path := by simpa [covered] using hcov
      exact rep_addPkt o m w s last path vals l names hr hlast hm hdoc
  | prune path =>
    simp only [storeOp] at hso
    cases hm : m.ch path with
    | none => rw [hm] at hso; cases hso
    | some h =>
      rw [hm] at hso
      simp only [Option.some.injEq, Prod.mk.injEq] at hso
      obtain ⟨rfl, rfl⟩ := hso
      exact rep_prune o m w s last path h hr hm

def coveredFrom : Option SOp → List SOp → Bool
  | _, [] => true
  | last, op :: r => covered last op && coveredFrom (some op) r

/-- **the whole translated trace**, from a world that represents the target: every call in contract, every call CIF_OK, the final
    world represents the replay of the trace on the tree -/
theorem run_sim (o : Opts) : ∀ (tr : List SOp) (m : HMap) (w : World) (s : Store.Store) (last : Option SOp) (sops : List Store.Op),
    Rep o m w s last →
    (∀ k : Nat, OkR o ((tr.take k).foldl (fun c op => op.apply o c) (absS s.db).tree)) →
    (∀ (k : Nat) (op : SOp), tr[k]? = some op → op.docOk o ((tr.take k).foldl (fun c op => op.apply o c) (absS s.db).tree)) →
    (∀ op ∈ tr, op.wf) → coveredFrom last tr = true → storeOpsFrom o m tr = some sops →
    Store.inContractHist w sops = true ∧ (Store.run w sops).2.all (fun r => r.rc == some 0) = true ∧
      ∃ s' m' last', Rep o m' (Store.run w sops).1 s' last' ∧
        (absS s'.db).tree = tr.foldl (fun c op => op.apply o c) (absS s.db).tree
  | [], m, w, s, last, sops, hr, _, _, _, _, hso => by
    simp only [storeOpsFrom, Option.some.injEq] at hso
    subst hso
    exact ⟨rfl, rfl, s, m, last, hr, rfl⟩
  | op :: tr, m, w, s, last, sops, hr, hokr, hdoc, hwf, hcov, hso => by
    simp only [storeOpsFrom] at hso
    cases hop : storeOp o m op with
    | none => rw [hop] at hso; cases hso
    | some pr =>
      obtain ⟨sop, m1⟩ := pr
      rw [hop] at hso
      simp only [Option.map_eq_some_iff] at hso
      obtain ⟨sops', hso', rfl⟩ := hso
      simp only [coveredFrom, Bool.and_eq_true] at hcov
      obtain ⟨hin, hrc, s1, hr1, ht1⟩ := rep_step o m w s last op sop m1 hr (hokr 0) (hdoc 0 op rfl) (hwf op List.mem_cons_self) hcov.1 hop
      have ih := run_sim o tr m1 (Store.step w sop).1 s1 (some op) sops' hr1
        (fun k => by
          have := hokr (k + 1)
          rw [ht1]
          simpa [List.take_succ_cons, List.foldl_cons] using this)
        (fun k op' hk => by
          have := hdoc (k + 1) op' (by simpa using hk)
          rw [ht1]
          simpa [List.take_succ_cons, List.foldl_cons] using this)
        (fun op' h' => hwf op' (List.mem_cons_of_mem _ h')) hcov.2 hso'
      obtain ⟨hin', hall', s', m', last', hr', ht'⟩ := ih
      refine ⟨?_, ?_, s', m', last', ?_, ?_⟩
      · simp only [Store.inContractHist, hin, hin', Bool.and_self]
      · simp only [Store.run, List.all_cons, hall', Bool.and_true, hrc]
        rfl
      · simpa only [Store.run] using hr'
      · rw [ht', ht1]; rfl

/-- a path that resolves in the tree of a frame-free state has a handle in the translation table -/
theorem ch_of_res (o : Opts) (m : HMap) (w : World) (s : Store.Store) (last : Option SOp) (hr : Rep o m w s last) (path : Path)
    (hres : ResL o.norm path (absS s.db).tree) : ∃ h, m.ch path = some h := by
  have hfind : ∀ k c, (absS s.db).tree.find? (codeIs o.norm k) = some c → ∃ b ∈ (absS s.db).blocks, c = blkTree (absS s.db) b ∧ b.name = k := by
    intro k c hf
    have hm := List.mem_of_find?_eq_some hf
    have hk := List.find?_some hf
    rw [tree_noframes _ hr.inv.frames] at hm
    obtain ⟨b, hb, rfl⟩ := List.mem_map.mp hm
    refine ⟨b, hb, rfl, ?_⟩
    simp only [codeIs, blkTree_eq, Container.code, ← hr.inv.blkNorm b hb] at hk
    simpa using hk
  unfold ResL at hres
  cases path with
  | nil => simp [getIn] at hres
  | cons k rest =>
    cases rest with
    | nil =>
      simp only [getIn] at hres
      cases hf : (absS s.db).tree.find? (codeIs o.norm k) with
      | none => rw [hf] at hres; simp at hres
      | some c =>
        obtain ⟨b, hb, _, hbk⟩ := hfind k c hf
        rw [← hbk]
        exact hr.hasH b hb
    | cons k' ks =>
      exfalso
      simp only [getIn] at hres
      cases hf : (absS s.db).tree.find? (codeIs o.norm k) with
      | none => rw [hf] at hres; simp at hres
      | some c =>
        obtain ⟨b, hb, hc, _⟩ := hfind k c hf
        rw [hf, hc] at hres
        simp only [blkTree_eq, Container.frames] at hres
        cases ks <;> simp [getIn] at hres

/-- `rep_step` with the translation: a call whose container exists (`SOp.resOk`) has a translation -/
theorem rep_step' (o : Opts) (m : HMap) (w : World) (s : Store.Store) (last : Option SOp) (op : SOp)
    (hr : Rep o m w s last) (hokr : OkR o (absS s.db).tree) (hdoc : op.docOk o (absS s.db).tree) (hwf : op.wf)
    (hres : op.resOk o (absS s.db).tree) (hcov : covered last op = true) :
    ∃ sop m', storeOp o m op = some (sop, m') ∧ Store.inContract w sop = true ∧ (Store.step w sop).2.rc = some CIF_OK ∧
      ∃ s', Rep o m' (Store.step w sop).1 s' (some op) ∧ (absS s'.db).tree = op.apply o (absS s.db).tree := by
  have key : ∀ sop m', storeOp o m op = some (sop, m') → ∃ sop m', storeOp o m op = some (sop, m') ∧
      Store.inContract w sop = true ∧ (Store.step w sop).2.rc = some CIF_OK ∧
      ∃ s', Rep o m' (Store.step w sop).1 s' (some op) ∧ (absS s'.db).tree = op.apply o (absS s.db).tree :=
    fun sop m' hso => ⟨sop, m', hso, rep_step o m w s last op sop m' hr hokr hdoc hwf hcov hso⟩
  cases op with
  | mkBlock code len => exact key _ _ rfl
  | mkFrame parent code len => cases hcov
  | setVal path n v =>
    obtain ⟨h, hm⟩ := ch_of_res o m w s last hr path hres
    exact key _ _ (by simp only [storeOp, hm]; rfl)
  | mkLoop path names =>
    obtain ⟨h, hm⟩ := ch_of_res o m w s last hr path hres
    exact key _ _ (by simp only [storeOp, hm]; rfl)
  | prune path =>
    obtain ⟨h, hm⟩ := ch_of_res o m w s last hr path hres
    exact key _ _ (by simp only [storeOp, hm]; rfl)
  | addPkt path vals =>
    have hlast : lastPath last = some path := by simpa [covered] using hcov
    obtain ⟨l, names, _, _, _, _, hm, _⟩ := hr.open_ path hlast
    exact key _ _ (by simp only [storeOp, hm]; rfl)

/-- `run_sim` with the translation: the trace of calls whose containers exist HAS a translation -/
theorem run_sim' (o : Opts) : ∀ (tr : List SOp) (m : HMap) (w : World) (s : Store.Store) (last : Option SOp),
    Rep o m w s last →
    (∀ k : Nat, OkR o ((tr.take k).foldl (fun c op => op.apply o c) (absS s.db).tree)) →
    (∀ (k : Nat) (op : SOp), tr[k]? = some op → op.docOk o ((tr.take k).foldl (fun c op => op.apply o c) (absS s.db).tree)) →
    (∀ (k : Nat) (op : SOp), tr[k]? = some op → op.resOk o ((tr.take k).foldl (fun c op => op.apply o c) (absS s.db).tree)) →
    (∀ op ∈ tr, op.wf) → coveredFrom last tr = true → ∃ sops, storeOpsFrom o m tr = some sops
  | [], m, w, s, last, _, _, _, _, _, _ => ⟨[], rfl⟩
  | op :: tr, m, w, s, last, hr, hokr, hdoc, hres, hwf, hcov => by
    simp only [coveredFrom, Bool.and_eq_true] at hcov
    obtain ⟨sop, m1, hso, _, _, s1, hr1, ht1⟩ := rep_step' o m w s last op hr (hokr 0) (hdoc 0 op rfl) (hwf op List.mem_cons_self)
      (hres 0 op rfl) hcov.1
    obtain ⟨sops', hs'⟩ := run_sim' o tr m1 (Store.step w sop).1 s1 (some op) hr1
      (fun k => by
        have := hokr (k + 1)
        rw [ht1]
        simpa [List.take_succ_cons, List.foldl_cons] using this)
      (fun k op' hk => by
        have := hdoc (k + 1) op' (by simpa using hk)
        rw [ht1]
        simpa [List.take_succ_cons, List.foldl_cons] using this)
      (fun k op' hk => by
        have := hres (k + 1) op' (by simpa using hk)
        rw [ht1]
        simpa [List.take_succ_cons, List.foldl_cons] using this)
      (fun op' h' => hwf op' (List.mem_cons_of_mem _ h')) hcov.2
    exact ⟨sop :: sops', by simp only [storeOpsFrom, hso, hs', Option.map_some]⟩

/-- the trace creates no save frame -/
def noFrames (tr : List SOp) : Bool := tr.all fun | .mkFrame .. => false | _ => true

theorem coveredFrom_of : ∀ (tr : List SOp) (last : Option SOp), noFrames tr = true → shapedFrom last tr = true → coveredFrom last tr = true
  | [], _, _, _ => rfl
  | op :: r, last, hn, hs => by
    simp only [noFrames, List.all_cons, Bool.and_eq_true] at hn
    simp only [shapedFrom, Bool.and_eq_true] at hs
    have ih := coveredFrom_of r (some op) hn.2 hs.2
    simp only [coveredFrom, ih, Bool.and_true]
    cases op with
    | mkFrame _ _ _ => simp at hn
    | addPkt p v => simpa [covered] using hs.1
    | mkBlock _ _ => rfl
    | setVal _ _ _ => rfl
    | mkLoop _ _ => rfl
    | prune _ => rfl

/-- the world after cif_create: one empty CIF -/
theorem rep_start (o : Opts) : Rep o {} (Store.step {} .cifNew).1 {} none where
  cifs := rfl
  its := rfl
  wok := CifModel.C04_wok_step {} .cifNew CifModel.C04_wok_init rfl
  inv := AInv.empty o
  nch := rfl
  nlh := rfl
  ch := by intro p h hp; cases hp
  hasH := by intro b hb; cases hb
  open_ := by intro p hp; cases hp

/-- **a whole parse into a new CIF**: the recorded calls, translated (`storeOps`) and run through the store model from the empty
    world, are an in-contract history of successful calls; afterwards the world satisfies `WOk` and its CIF shows (`Store.abs`)
    exactly the CIF the parser model returns — for every trace without save-frame creation -/
theorem parse_store_sim (o : Opts) (pol : Lexer.Policy) (units : Str) (ops : List Store.Op)
    (hnf : noFrames (storeTrace o pol [] units) = true)
    (hso : storeOps o (storeTrace o pol [] units) = some ops) :
    Store.inContractHist {} ops = true ∧ (Store.run {} ops).2.all (fun r => r.rc == some 0) = true ∧ Store.WOk (Store.run {} ops).1 ∧
      ∃ s, (Store.run {} ops).1.cifs = [some s] ∧ (Store.run {} ops).1.its = [] ∧
        Store.abs s.db = (parse o pol [] units).cif := by
  have hcov := coveredFrom_of _ none hnf (trace_shaped o pol [] units)
  unfold storeOps at hso
  simp only [Option.map_eq_some_iff] at hso
  obtain ⟨sops, hso', rfl⟩ := hso
  have hokr : OkR o ([] : Cif) := ⟨⟨by simp [normCodes], by simp [OkCs]⟩, by simp [RectCif, RectCs]⟩
  have h := run_sim o (storeTrace o pol [] units) {} (Store.step {} .cifNew).1 {} none sops (rep_start o)
    (fun k => trace_prefix_okR o pol [] units hokr k)
    (fun k op hk => trace_calls_docOk o pol [] units hokr k op hk) (storeTrace_wf o pol [] units) hcov hso'
  obtain ⟨hin, hall, s', m', last', hr', ht'⟩ := h
  refine ⟨?_, ?_, ?_, s', ?_, ?_, ?_⟩
  · simp only [Store.inContractHist, hin]; rfl
  · simp only [Store.run, List.all_cons, hall]; rfl
  · simpa only [Store.run] using hr'.wok
  · simpa only [Store.run] using hr'.cifs
  · simpa only [Store.run] using hr'.its
  · rw [← Store.absS_tree, ht', parse_replay]; rfl

/-- the trace of a parse without save-frame creation into a new CIF HAS a translation into a store history: every call finds the handle
    of its container (`trace_paths_resolve`) -/
theorem storeOps_total (o : Opts) (pol : Lexer.Policy) (units : Str) (hnf : noFrames (storeTrace o pol [] units) = true) :
    ∃ ops, storeOps o (storeTrace o pol [] units) = some ops := by
  have hcov := coveredFrom_of _ none hnf (trace_shaped o pol [] units)
  have hokr : OkR o ([] : Cif) := ⟨⟨by simp [normCodes], by simp [OkCs]⟩, by simp [RectCif, RectCs]⟩
  obtain ⟨sops, hs⟩ := run_sim' o (storeTrace o pol [] units) {} (Store.step {} .cifNew).1 {} none (rep_start o)
    (fun k => trace_prefix_okR o pol [] units hokr k)
    (fun k op hk => trace_calls_docOk o pol [] units hokr k op hk)
    (fun k op hk => trace_paths_resolve o pol [] units k op hk)
    (storeTrace_wf o pol [] units) hcov
  exact ⟨Store.Op.cifNew :: sops, by unfold storeOps; rw [hs]; rfl⟩

theorem coveredFrom_take : ∀ (tr : List SOp) (last : Option SOp) (j : Nat), coveredFrom last tr = true → coveredFrom last (tr.take j) = true
  | [], _, _, _ => by simp [coveredFrom]
  | _ :: _, _, 0, _ => rfl
  | op :: r, last, j + 1, h => by
    simp only [coveredFrom, Bool.and_eq_true] at h
    simp only [List.take_succ_cons, coveredFrom, h.1, coveredFrom_take r (some op) j h.2, Bool.and_self]

/-- **every state a frame-free parse passes through is represented**: after the first `j` recorded calls (any `j`), translated and run
    through `Store.step` from the world after cif_create, the world satisfies `Rep` and shows the replay of those `j` calls -/
theorem prefix_rep (o : Opts) (pol : Lexer.Policy) (units : Str) (hnf : noFrames (storeTrace o pol [] units) = true) (j : Nat) :
    ∃ sops m s last, storeOpsFrom o {} ((storeTrace o pol [] units).take j) = some sops ∧
      Rep o m (Store.run (Store.step {} .cifNew).1 sops).1 s last ∧
      (absS s.db).tree = ((storeTrace o pol [] units).take j).foldl (fun c op => op.apply o c) [] := by
  have hcov := coveredFrom_take _ none j (coveredFrom_of _ none hnf (trace_shaped o pol [] units))
  have hokr : OkR o ([] : Cif) := ⟨⟨by simp [normCodes], by simp [OkCs]⟩, by simp [RectCif, RectCs]⟩
  have hget : ∀ (k : Nat) (op : SOp), ((storeTrace o pol [] units).take j)[k]? = some op →
      (storeTrace o pol [] units)[k]? = some op ∧ ((storeTrace o pol [] units).take j).take k = (storeTrace o pol [] units).take k := by
    intro k op hk
    rw [List.getElem?_take] at hk
    split at hk
    · rename_i hlt
      exact ⟨hk, by rw [List.take_take, Nat.min_eq_left (Nat.le_of_lt hlt)]⟩
    · cases hk
  have h1 : ∀ k : Nat, OkR o ((((storeTrace o pol [] units).take j).take k).foldl (fun c op => op.apply o c) (absS ({} : Store.Store).db).tree) := by
    intro k
    rw [List.take_take]
    exact trace_prefix_okR o pol [] units hokr _
  have h2 : ∀ (k : Nat) (op : SOp), ((storeTrace o pol [] units).take j)[k]? = some op →
      op.docOk o ((((storeTrace o pol [] units).take j).take k).foldl (fun c op => op.apply o c) (absS ({} : Store.Store).db).tree) := by
    intro k op hk
    obtain ⟨hk', he⟩ := hget k op hk
    rw [he]
    exact trace_calls_docOk o pol [] units hokr k op hk'
  have h3 : ∀ (k : Nat) (op : SOp), ((storeTrace o pol [] units).take j)[k]? = some op →
      op.resOk o ((((storeTrace o pol [] units).take j).take k).foldl (fun c op => op.apply o c) (absS ({} : Store.Store).db).tree) := by
    intro k op hk
    obtain ⟨hk', he⟩ := hget k op hk
    rw [he]
    exact trace_paths_resolve o pol [] units k op hk'
  have h4 : ∀ op ∈ (storeTrace o pol [] units).take j, op.wf :=
    fun op hop => storeTrace_wf o pol [] units op (List.mem_of_mem_take hop)
  obtain ⟨sops, hs⟩ := run_sim' o _ {} (Store.step {} .cifNew).1 {} none (rep_start o) h1 h2 h3 h4 hcov
  obtain ⟨_, _, s', m', last', hr', ht'⟩ := run_sim o _ {} (Store.step {} .cifNew).1 {} none sops (rep_start o) h1 h2 h4 hcov hs
  exact ⟨sops, m', s', last', hs, hr', ht'⟩

theorem Rep.forget {o : Opts} {m : HMap} {w : World} {s : Store.Store} {last : Option SOp} (h : Rep o m w s last) : Rep o m w s none :=
  { h with open_ := by intro p hp; cases hp }

/-- **a parse into a PRE-EXISTING target**, from any world that represents it (`Rep`: e.g. the world an earlier parse left; no save
    frames): the trace has a translation w.r.t. the world's handle tables, the translated calls are in contract and return CIF_OK, and
    the world then shows the CIF the parser model returns for that initial target -/
theorem parse_store_sim_from (o : Opts) (pol : Lexer.Policy) (units : Str) (m : HMap) (w : World) (s : Store.Store) (last : Option SOp)
    (hr : Rep o m w s last) (hokr : OkR o (absS s.db).tree)
    (hnf : noFrames (storeTrace o pol (absS s.db).tree units) = true) :
    ∃ sops, storeOpsFrom o m (storeTrace o pol (absS s.db).tree units) = some sops ∧
      Store.inContractHist w sops = true ∧ (Store.run w sops).2.all (fun r => r.rc == some 0) = true ∧
      Store.WOk (Store.run w sops).1 ∧
      ∃ s', (Store.run w sops).1.cifs = [some s'] ∧ Store.abs s'.db = (parse o pol (absS s.db).tree units).cif := by
  have hcov := coveredFrom_of _ none hnf (trace_shaped o pol (absS s.db).tree units)
  have h1 := fun k => trace_prefix_okR o pol (absS s.db).tree units hokr k
  have h2 := fun k op hk => trace_calls_docOk o pol (absS s.db).tree units hokr k op hk
  have h3 := fun k op hk => trace_paths_resolve o pol (absS s.db).tree units k op hk
  have h4 := storeTrace_wf o pol (absS s.db).tree units
  obtain ⟨sops, hs⟩ := run_sim' o _ m w s none hr.forget h1 h2 h3 h4 hcov
  obtain ⟨hin, hall, s', m', last', hr', ht'⟩ := run_sim o _ m w s none sops hr.forget h1 h2 h4 hcov hs
  refine ⟨sops, hs, hin, hall, hr'.wok, s', hr'.cifs, ?_⟩
  rw [← Store.absS_tree, ht', parse_replay]

/-- the world a frame-free parse into a new CIF leaves represents its result: parses can be chained -/
theorem parse_leaves_rep (o : Opts) (pol : Lexer.Policy) (units : Str) (hnf : noFrames (storeTrace o pol [] units) = true) :
    ∃ sops m s last, storeOpsFrom o {} (storeTrace o pol [] units) = some sops ∧
      Rep o m (Store.run (Store.step {} .cifNew).1 sops).1 s last ∧ (absS s.db).tree = (parse o pol [] units).cif := by
  obtain ⟨sops, m, s, last, hs, hr, ht⟩ := prefix_rep o pol units hnf (storeTrace o pol [] units).length
  rw [List.take_length] at hs ht
  exact ⟨sops, m, s, last, hs, hr, by rw [ht, parse_replay]⟩

end CifModel.ParserSim
