import CifModel.Lemmas.Ladder
/-
  CifModel.Lemmas.LadderClone — the cif_value_clone / cif_value_free ladders: release of an owned value, the mutual
  induction over value shapes, and the summaries of `clone` and `insertElement`.
-/
namespace CifModel.Lemmas.Ladder
open CifModel.Model.Ladder CifModel.Spec.HeapTrace

/-- rearrangement of list expressions up to permutation -/
macro "perm_ac" : tactic => `(tactic| (rw [List.perm_iff_count]; intro x; (try simp only [List.count_cons, List.count_append, List.count_nil, List.append_assoc, List.cons_append, List.nil_append, List.reverse_nil, List.append_nil, List.map_cons, List.map_nil, Option.toList, Owned.ids, Owned.idsList]) <;> omega))

theorem idsList_append (a b : List Owned) : Owned.idsList (a ++ b) = Owned.idsList a ++ Owned.idsList b := by
  induction a with
  | nil => simp [Owned.idsList]
  | cons e es ih => simp [Owned.idsList, ih]

mutual
  /-- number of allocation requests of `cloneInto` on a shape (fault-free) -/
  def allocs : Shape → Nat
    | .scalar => 0
    | .chr => 1
    | .numb hasSu => if hasSu then 3 else 2
    | .lst es => 1 + allocsList es
  /-- number of allocation requests of the element loop (one value object per element plus its components) -/
  def allocsList : List Shape → Nat
    | [] => 0
    | e :: es => 1 + allocs e + allocsList es
end

-- ---------------------------------------------------------------------------------------------------------------
-- cif_value_free

/-- a state obtained by releases only: same request counter, same `fail` events -/
def Same (s s' : St) : Prop := s'.count = s.count ∧ failIds s'.evs = failIds s.evs

theorem Same.refl (s : St) : Same s s := ⟨rfl, rfl⟩
theorem Same.free {s s' : St} (i : Nat) (h : Same s s') : Same s (free i s') := by
  unfold Same at *; simpa using h
theorem Same.trans {s s' s'' : St} (h : Same s s') (h' : Same s' s'') : Same s s'' := by
  unfold Same at *; exact ⟨h'.1.trans h.1, h'.2.trans h.2⟩
theorem Bad.same {k N : Nat} {s s' s'' : St} (h : Bad k N s s') (h' : Same s' s'') : Bad k N s s'' := by
  unfold Bad Same at *; rw [h'.1, h'.2]; exact h

mutual
  /-- releasing an owned value releases exactly its blocks, each while live -/
  theorem freeOwned_spec : ∀ (o : Owned) (s : St) (L : List Nat), Inv s (o.ids ++ L) →
      Inv (freeOwned o s) L ∧ Same s (freeOwned o s)
    | .scalar o, s, L, h => by
      simp only [freeOwned]
      exact ⟨Inv.free (h.perm (by perm_ac)), (Same.refl s).free _⟩
    | .chr o t, s, L, h => by
      simp only [freeOwned]
      have h1 : Inv s (t :: o :: L) := h.perm (by perm_ac)
      exact ⟨h1.free.free, ((Same.refl s).free _).free _⟩
    | .numb o t d none, s, L, h => by
      simp only [freeOwned]
      have h1 : Inv s (t :: d :: o :: L) := h.perm (by perm_ac)
      exact ⟨h1.free.free.free, (((Same.refl s).free _).free _).free _⟩
    | .numb o t d (some u), s, L, h => by
      simp only [freeOwned]
      have h1 : Inv s (t :: d :: u :: o :: L) := h.perm (by perm_ac)
      exact ⟨h1.free.free.free.free, ((((Same.refl s).free _).free _).free _).free _⟩
    | .lst o a es, s, L, h => by
      simp only [freeOwned]
      have h1 : Inv s (Owned.idsList es ++ (a :: o :: L)) := h.perm (by perm_ac)
      have ⟨h2, h3⟩ := freeOwnedRev_spec es s _ h1
      exact ⟨h2.free.free, (h3.free _).free _⟩
  theorem freeOwnedRev_spec : ∀ (es : List Owned) (s : St) (L : List Nat), Inv s (Owned.idsList es ++ L) →
      Inv (freeOwnedRev es s) L ∧ Same s (freeOwnedRev es s)
    | [], s, L, h => by
      simp only [freeOwnedRev]
      exact ⟨by simpa [Owned.idsList] using h, Same.refl s⟩
    | e :: es, s, L, h => by
      simp only [freeOwnedRev]
      have h1 : Inv s (Owned.idsList es ++ (e.ids ++ L)) := h.perm (by perm_ac)
      have ⟨h2, h3⟩ := freeOwnedRev_spec es s _ h1
      have ⟨h4, h5⟩ := freeOwned_spec e _ L h2
      exact ⟨h4, h3.trans h5⟩
end

-- ---------------------------------------------------------------------------------------------------------------
-- cif_value_clone

mutual
  /-- `cloneInto` with the target object `obj` live: either every request succeeds and exactly the blocks of the
      result (which include `obj`) are added to `L`, or the fault position is hit and everything, `obj` included, is
      released exactly once -/
  theorem cloneInto_spec (k obj : Nat) : ∀ (sh : Shape) (s : St) (L : List Nat), Inv s (obj :: L) →
      (∃ o, (cloneInto k obj sh s).1 = some o ∧ Good k (allocs sh) s (cloneInto k obj sh s).2 ∧
          Inv (cloneInto k obj sh s).2 (o.ids ++ L)) ∨
      ((cloneInto k obj sh s).1 = none ∧ Bad k (allocs sh) s (cloneInto k obj sh s).2 ∧ Inv (cloneInto k obj sh s).2 L)
    | .scalar, s, L, h => by
      left
      simp only [cloneInto, allocs]
      exact ⟨_, rfl, Good.refl k s, h⟩
    | .chr, s, L, h => by
      simp only [cloneInto, allocs]
      rcases alloc_cases k s with ⟨hk, ha⟩ | ⟨hk, ha⟩ <;> simp only [ha]
      · right
        exact ⟨trivial, (Bad.alloc hk).free _, h.fail.free⟩
      · left
        exact ⟨_, rfl, Good.alloc hk, h.alloc.perm (by perm_ac)⟩
    | .numb hasSu, s, L, h => by
      simp only [cloneInto, allocs]
      rcases alloc_cases k s with ⟨hk, ha⟩ | ⟨hk, ha⟩ <;> simp only [ha]
      · right
        exact ⟨trivial, ((Bad.alloc hk).free _).mono (by split <;> omega), h.fail.free⟩
      · have g1 := Good.alloc hk
        have i1 := h.alloc
        generalize ({ count := s.count + 1, evs := s.evs ++ [.alloc (s.count + 1)] } : St) = s1 at g1 i1 ⊢
        generalize s.count + 1 = t at g1 i1 ⊢
        rcases alloc_cases k s1 with ⟨hk, ha⟩ | ⟨hk, ha⟩ <;> simp only [ha]
        · right
          refine ⟨trivial, g1.bad' (((Bad.alloc hk).free _).free _) (by split <;> omega), ?_⟩
          exact Inv.free (Inv.free i1.fail)
        · have g2 := g1.trans (Good.alloc hk)
          have i2 := i1.alloc
          generalize ({ count := s1.count + 1, evs := s1.evs ++ [.alloc (s1.count + 1)] } : St) = s2 at g2 i2 ⊢
          generalize s1.count + 1 = d at g2 i2 ⊢
          cases hasSu with
          | false =>
            left
            exact ⟨_, rfl, g2, i2.perm (by perm_ac)⟩
          | true =>
            simp only [if_true]
            rcases alloc_cases k s2 with ⟨hk, ha⟩ | ⟨hk, ha⟩ <;> simp only [ha]
            · right
              refine ⟨trivial, g2.bad' ((((Bad.alloc hk).free _).free _).free _) (by omega), ?_⟩
              exact Inv.free (Inv.free (Inv.free (i2.fail.perm (by perm_ac))))
            · left
              exact ⟨_, rfl, g2.trans (Good.alloc hk), i2.alloc.perm (by perm_ac)⟩
    | .lst es, s, L, h => by
      simp only [cloneInto, allocs]
      rcases alloc_cases k s with ⟨hk, ha⟩ | ⟨hk, ha⟩ <;> simp only [ha]
      · right
        exact ⟨trivial, ((Bad.alloc hk).free _).mono (by omega), h.fail.free⟩
      · have g1 := Good.alloc hk
        have i1 := h.alloc
        generalize ({ count := s.count + 1, evs := s.evs ++ [.alloc (s.count + 1)] } : St) = s1 at g1 i1 ⊢
        generalize s.count + 1 = arr at g1 i1 ⊢
        have hh := cloneElems_spec k es [] s1 (arr :: obj :: L) (by simpa [Owned.idsList] using i1)
        generalize cloneElems k es [] s1 = r at hh ⊢
        obtain ⟨ro, rs⟩ := r
        rcases hh with ⟨os, h1, h2, h3⟩ | ⟨h1, h2, h3⟩ <;> simp only at h1 h2 h3 <;> subst h1 <;> simp only
        · left
          exact ⟨_, rfl, g1.trans h2, h3.perm (by perm_ac)⟩
        · right
          exact ⟨trivial, g1.bad' ((h2.free _).free _) (by omega), h3.free.free⟩
  /-- the element loop with the elements `done` (most recent first) cloned so far -/
  theorem cloneElems_spec (k : Nat) : ∀ (es : List Shape) (done : List Owned) (s : St) (L : List Nat),
      Inv s (Owned.idsList done.reverse ++ L) →
      (∃ os, (cloneElems k es done s).1 = some os ∧ Good k (allocsList es) s (cloneElems k es done s).2 ∧
          Inv (cloneElems k es done s).2 (Owned.idsList os ++ L)) ∨
      ((cloneElems k es done s).1 = none ∧ Bad k (allocsList es) s (cloneElems k es done s).2 ∧
          Inv (cloneElems k es done s).2 L)
    | [], done, s, L, h => by
      left
      simp only [cloneElems, allocsList]
      exact ⟨_, rfl, Good.refl k s, h⟩
    | sh :: rest, done, s, L, h => by
      simp only [cloneElems, allocsList]
      rcases alloc_cases k s with ⟨hk, ha⟩ | ⟨hk, ha⟩ <;> simp only [ha]
      · right
        have ⟨f1, f2⟩ := freeOwnedRev_spec done.reverse _ L h.fail
        exact ⟨trivial, ((Bad.alloc hk).same f2).mono (by omega), f1⟩
      · have g1 := Good.alloc hk
        have i1 := h.alloc
        generalize ({ count := s.count + 1, evs := s.evs ++ [.alloc (s.count + 1)] } : St) = s1 at g1 i1 ⊢
        generalize s.count + 1 = obj at g1 i1 ⊢
        have hh := cloneInto_spec k obj sh s1 _ i1
        generalize cloneInto k obj sh s1 = r at hh ⊢
        obtain ⟨ro, rs⟩ := r
        rcases hh with ⟨o, h1, h2, h3⟩ | ⟨h1, h2, h3⟩ <;> simp only at h1 h2 h3 <;> subst h1 <;> simp only
        · have i2 : Inv rs (Owned.idsList (o :: done).reverse ++ L) := by
            rw [List.reverse_cons, idsList_append]
            exact h3.perm (by perm_ac)
          rcases cloneElems_spec k rest (o :: done) _ L i2 with ⟨os, e1, e2, e3⟩ | ⟨e1, e2, e3⟩
          · left
            exact ⟨os, e1, (g1.trans h2).trans' e2 (by omega), e3⟩
          · right
            exact ⟨e1, (g1.trans h2).bad' e2 (by omega), e3⟩
        · right
          have ⟨f1, f2⟩ := freeOwnedRev_spec done.reverse _ L h3
          exact ⟨trivial, (g1.bad' h2 (by omega)).same f2, f1⟩
end

/-- `cif_value_clone` into a fresh target, from any consistent state -/
theorem clone_spec (k : Nat) (sh : Shape) (s : St) (L : List Nat) (h : Inv s L) :
    (∃ o, (clone k sh s).1 = some o ∧ Good k (1 + allocs sh) s (clone k sh s).2 ∧ Inv (clone k sh s).2 (o.ids ++ L)) ∨
    ((clone k sh s).1 = none ∧ Bad k (1 + allocs sh) s (clone k sh s).2 ∧ Inv (clone k sh s).2 L) := by
  simp only [clone]
  rcases alloc_cases k s with ⟨hk, ha⟩ | ⟨hk, ha⟩ <;> simp only [ha]
  · right
    exact ⟨trivial, (Bad.alloc hk).mono (by omega), h.fail⟩
  · rcases cloneInto_spec k (s.count + 1) sh _ L h.alloc with ⟨o, h1, h2, h3⟩ | ⟨h1, h2, h3⟩
    · left
      exact ⟨o, h1, (Good.alloc hk).trans h2, h3⟩
    · right
      exact ⟨h1, (Good.alloc hk).bad h2, h3⟩

/-- number of requests of `insertElement` (fault-free) -/
def insertAllocs (full : Bool) (sh : Shape) : Nat := 1 + allocs sh + (if full then 1 else 0)

/-- `cif_value_insert_element_at`, from any consistent state -/
theorem insertElement_spec (k : Nat) (full : Bool) (sh : Shape) (s : St) (L : List Nat) (h : Inv s L) :
    (∃ o a, (insertElement k full sh s).1 = OK ∧ (insertElement k full sh s).2.1 = some (o, a) ∧ a.isSome = full ∧
        Good k (insertAllocs full sh) s (insertElement k full sh s).2.2 ∧
        Inv (insertElement k full sh s).2.2 (o.ids ++ a.toList ++ L)) ∨
    ((insertElement k full sh s).1 = MEMORY_ERROR ∧ (insertElement k full sh s).2.1 = none ∧
        Bad k (insertAllocs full sh) s (insertElement k full sh s).2.2 ∧ Inv (insertElement k full sh s).2.2 L) := by
  simp only [insertElement, insertAllocs]
  have hh := clone_spec k sh s L h
  generalize clone k sh s = r at hh ⊢
  obtain ⟨ro, rs⟩ := r
  rcases hh with ⟨o, h1, h2, h3⟩ | ⟨h1, h2, h3⟩ <;> simp only at h1 h2 h3 <;> subst h1 <;> simp only
  · cases full with
    | false =>
      left
      exact ⟨o, none, rfl, rfl, rfl, by simpa using h2, by simpa using h3⟩
    | true =>
      simp only [if_true]
      rcases alloc_cases k rs with ⟨hk, ha⟩ | ⟨hk, ha⟩ <;> simp only [ha]
      · right
        have ⟨f1, f2⟩ := freeOwned_spec o _ L h3.fail
        exact ⟨trivial, trivial, (h2.bad (Bad.alloc hk)).same f2, f1⟩
      · left
        exact ⟨o, some (rs.count + 1), by trivial, by trivial, by trivial, h2.trans (Good.alloc hk), h3.alloc.perm (by perm_ac)⟩
  · right
    exact ⟨trivial, trivial, h2.mono (by omega), h3⟩

-- ---------------------------------------------------------------------------------------------------------------
-- cif_value_set_element_at: clone into an existing target (via a scratch object, /repo f1b092b)

theorem ids_eq_obj_parts (o : Owned) : o.ids = o.obj :: o.parts := by
  cases o <;> simp [Owned.ids, Owned.obj, Owned.parts]

/-- `cif_value_clean` releases exactly the component blocks, each while live; the object stays -/
theorem cleanOwned_spec (o : Owned) (s : St) (L : List Nat) (h : Inv s (o.parts ++ L)) :
    Inv (cleanOwned o s) L ∧ Same s (cleanOwned o s) := by
  cases o with
  | scalar o => exact ⟨by simpa [Owned.parts, cleanOwned] using h, Same.refl s⟩
  | chr o t =>
    simp only [cleanOwned]
    exact ⟨Inv.free (h.perm (by simp only [Owned.parts]; perm_ac)), (Same.refl s).free _⟩
  | numb o t d su =>
    cases su with
    | none =>
      simp only [cleanOwned]
      have h1 : Inv s (t :: d :: L) := h.perm (by simp only [Owned.parts]; perm_ac)
      exact ⟨h1.free.free, ((Same.refl s).free _).free _⟩
    | some u =>
      simp only [cleanOwned]
      have h1 : Inv s (t :: d :: u :: L) := h.perm (by simp only [Owned.parts]; perm_ac)
      exact ⟨h1.free.free.free, (((Same.refl s).free _).free _).free _⟩
  | lst o a es =>
    simp only [cleanOwned]
    have h1 : Inv s (Owned.idsList es ++ (a :: L)) := h.perm (by simp only [Owned.parts]; perm_ac)
    have ⟨h2, h3⟩ := freeOwnedRev_spec es s _ h1
    exact ⟨h2.free, h3.free _⟩

/-- `cif_value_set_element_at` from any consistent state in which the target `old` is live: on success the target
    object owns exactly the new components (the old ones and the scratch object are released, each once); on failure
    everything obtained in the call is released and ALL blocks of the target are still live -/
theorem setElement_spec (k : Nat) (old : Owned) (sh : Shape) (s : St) (L : List Nat) (h : Inv s (old.ids ++ L)) :
    (∃ g, (setElement k old sh s).1 = OK ∧ (setElement k old sh s).2.1 = some g ∧
        Good k (1 + allocs sh) s (setElement k old sh s).2.2 ∧
        Inv (setElement k old sh s).2.2 (old.obj :: g ++ L)) ∨
    ((setElement k old sh s).1 = MEMORY_ERROR ∧ (setElement k old sh s).2.1 = none ∧
        Bad k (1 + allocs sh) s (setElement k old sh s).2.2 ∧ Inv (setElement k old sh s).2.2 (old.ids ++ L)) := by
  simp only [setElement]
  have hh := clone_spec k sh s _ h
  generalize clone k sh s = r at hh ⊢
  obtain ⟨ro, rs⟩ := r
  rcases hh with ⟨o, h1, h2, h3⟩ | ⟨h1, h2, h3⟩ <;> simp only at h1 h2 h3 <;> subst h1 <;> simp only
  · left
    have i1 : Inv rs (old.parts ++ (o.obj :: (old.obj :: o.parts ++ L))) := by
      rw [ids_eq_obj_parts o, ids_eq_obj_parts old] at h3
      exact h3.perm (by perm_ac)
    have ⟨c1, c2⟩ := cleanOwned_spec old rs _ i1
    refine ⟨o.parts, by trivial, by trivial, ?_, c1.free⟩
    have g : Good k (1 + allocs sh) s (free o.obj (cleanOwned old rs)) := by
      unfold Good at h2 ⊢
      have := (c2.free o.obj)
      rw [this.1, this.2]; exact h2
    exact g
  · right
    exact ⟨by trivial, by trivial, h2, h3⟩

end CifModel.Lemmas.Ladder
