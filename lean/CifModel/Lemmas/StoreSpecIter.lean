import CifModel.Lemmas.StoreSpecWorld
/-
  Lemmas/StoreSpecIter — packet iterators inside whole histories, against the documented model.

  `AWorld.pending a i`: the packets iterator `i` has still to deliver — the packets of its loop, as the documented model holds them
  now, from the iterator's position on.  In a history that keeps to the contract (`inContract`), started in a world satisfying `WOk`:
    * a granted cif_loop_get_packets makes `pending` the whole packet list of the loop (`pending_open`);
    * cif_pktitr_next_packet delivers the head of `pending` and leaves the tail; with nothing pending it returns CIF_FINISHED
      (`pending_next`);
    * update_packet / remove_packet work on the packet BEHIND the position: `pending` is unchanged (`pending_upd`, `pending_rem`);
    * every other op of the history — calls on other CIFs, other iterators, a refused second get_packets on the same CIF — leaves
      `pending` unchanged (`pending_other`): the contract keeps everything else away from a CIF with an open iterator.
  Hence (`delivered_prefix`, `delivered_prefix_all`): the packets an iterator delivers over the rest of ANY in-contract history are a
  prefix of what was pending — each packet once, in order; a closed or aborted iterator delivers nothing more (`step_dead`,
  `delivered_dead`: a dead entry of the iterator table stays dead).
-/
namespace CifModel.Store
open Gen.ErrCodes World

-- ---- the documented model's side ---------------------------------------------------------------------------------------------------------

/-- what the abstract iterator `ai` has still to deliver from the CIF `a`: the packets of its loop from position `done` on, each as
    (item name, value) pairs in the loop's order -/
def pendA (a : AState) (ai : AIter) : Option (List (List (Str × V))) :=
  match a.findLoop ai.cid ai.num with
  | none => none
  | some x => some ((x.packets.drop ai.done).map (fun p => (x.items.map (·.1)).zip p))

/-- the packets iterator `i` of the history has still to deliver (`none`: `i` is not an open iterator) -/
def AWorld.pending (a : AWorld) (i : Nat) : Option (List (List (Str × V))) :=
  match a.its.getD i none with
  | none => none
  | some e => match a.liveC e.cif with
    | none => none
    | some st => pendA st e.it

theorem findLoop_onLoop (a : AState) (c n : Nat) (f : ALoop → ALoop) (hf : ∀ y, (f y).cid = y.cid ∧ (f y).num = y.num) :
    (a.onLoop c n f).findLoop c n = (a.findLoop c n).map f := by
  unfold AState.findLoop AState.onLoop
  simp only []
  rw [List.find?_map]
  have hp : ((fun x : ALoop => x.cid == c && x.num == n) ∘ fun y => if (y.cid == c && y.num == n) = true then f y else y) =
      (fun x : ALoop => x.cid == c && x.num == n) := by
    funext y
    simp only [Function.comp]
    by_cases hk : (y.cid == c && y.num == n) = true
    · simp only [hk, if_true, (hf y).1, (hf y).2]
    · have hk' : (y.cid == c && y.num == n) = false := by simpa using hk
      simp [hk']
  rw [hp]
  cases hq : a.loops.find? (fun x => x.cid == c && x.num == n) with
  | none => rfl
  | some y =>
    have := List.find?_some hq
    simp only [Option.map_some, this, if_true]

/-- cif_pktitr_next_packet on the documented model: the head of what is pending, or CIF_FINISHED -/
theorem pendA_next (a : AState) (ai : AIter) (P : List (List (Str × V))) (hp : pendA a ai = some P) :
    (P = [] → specItNext a ai = (ai, .error CIF_FINISHED)) ∧
    (∀ p ps, P = p :: ps → (specItNext a ai).2 = .ok p ∧ pendA a (specItNext a ai).1 = some ps) := by
  unfold pendA at hp
  cases hf : a.findLoop ai.cid ai.num with
  | none => rw [hf] at hp; cases hp
  | some x =>
    rw [hf] at hp
    simp only [Option.some.injEq] at hp
    unfold specItNext
    rw [hf]
    simp only []
    cases hd : x.packets.drop ai.done with
    | nil =>
      rw [hd] at hp
      refine ⟨fun _ => ?_, fun p ps he => (by rw [he] at hp; cases hp)⟩
      have hlen : x.packets.length ≤ ai.done := List.drop_eq_nil_iff.mp hd
      rw [List.getElem?_eq_none hlen]
    | cons q qs =>
      rw [hd] at hp
      refine ⟨fun he => (by rw [he] at hp; cases hp), ?_⟩
      intro p ps he
      rw [he] at hp
      simp only [List.map_cons, List.cons.injEq] at hp
      have hget : x.packets[ai.done]? = some q := by
        have := congrArg List.head? hd
        rw [List.head?_drop] at this
        simpa using this
      rw [hget]
      simp only []
      refine ⟨by rw [hp.1], ?_⟩
      unfold pendA
      simp only [hf]
      have : x.packets.drop (ai.done + 1) = qs := by
        rw [← List.drop_drop, hd]; rfl
      rw [this, hp.2]

theorem drop_set_lt {α} (l : List α) (k n : Nat) (x : α) (h : k < n) : (l.set k x).drop n = l.drop n := by
  apply List.ext_getElem?
  intro j
  rw [List.getElem?_drop, List.getElem?_drop, List.getElem?_set_ne (by omega)]

theorem drop_eraseIdx_pred {α} (l : List α) (n : Nat) (h : 1 ≤ n) : (l.eraseIdx (n - 1)).drop (n - 1) = l.drop n := by
  apply List.ext_getElem?
  intro j
  rw [List.getElem?_drop, List.getElem?_drop, List.getElem?_eraseIdx]
  have : ¬ (n - 1 + j < n - 1) := by omega
  simp only [this, if_false]
  congr 1
  omega

/-- cif_pktitr_update_packet on the documented model touches the packet behind the position only -/
theorem pendA_update (a : AState) (ai : AIter) (pkt : List (Str × V)) (hd : ai.hasCur = true → 1 ≤ ai.done) :
    pendA (specItUpdate a ai pkt).1 ai = pendA a ai := by
  unfold specItUpdate
  cases hc : ai.hasCur with
  | false => rfl
  | true =>
    simp only [Bool.not_true, Bool.false_eq_true, if_false]
    cases hf : a.findLoop ai.cid ai.num with
    | none => rfl
    | some x =>
      simp only []
      split
      · rfl
      · unfold pendA
        rw [findLoop_onLoop a ai.cid ai.num _ (by
          intro y; unfold ALoop.updAt; split <;> exact ⟨rfl, rfl⟩), hf]
        simp only [Option.map_some]
        unfold ALoop.updAt
        split
        · simp only []
          rw [drop_set_lt _ _ _ _ (by have := hd hc; omega)]
        · rfl

/-- cif_pktitr_remove_packet on the documented model removes the packet behind the position -/
theorem pendA_remove (a : AState) (ai : AIter) (hd : ai.hasCur = true → 1 ≤ ai.done) :
    pendA (specItRemove a ai).1 (specItRemove a ai).2.1 = pendA a ai := by
  unfold specItRemove
  cases hc : ai.hasCur with
  | false => rfl
  | true =>
    simp only [Bool.not_true, Bool.false_eq_true, if_false]
    unfold pendA
    simp only []
    rw [findLoop_onLoop a ai.cid ai.num (fun y => { y with packets := y.packets.eraseIdx (ai.done - 1) }) (fun y => ⟨rfl, rfl⟩)]
    cases hf : a.findLoop ai.cid ai.num with
    | none => rfl
    | some x =>
      simp only [Option.map_some]
      rw [drop_eraseIdx_pred _ _ (hd hc)]

-- ---- the store model's side: what an op of the history does to another iterator ----------------------------------------------------------

/-- the iterator an op is a call of -/
def Op.iterIdx : Op → Option Nat
  | .itNext j | .itUpd j _ | .itRem j | .itClose j | .itAbort j => some j
  | _ => none

theorem pending_absW (w : World) (i : Nat) :
    (absW w).pending i = (match w.its.getD i none with
      | none => none
      | some e => match w.cifs.getD e.cif none with
        | none => none
        | some s => pendA (absS s.db) (absIter e.it s)) := by
  unfold AWorld.pending
  have hg : (absW w).its.getD i none = (w.its.getD i none).map (absITE w.cifs) := by
    show (w.its.map _).getD i none = _
    simp only [List.getD, List.getElem?_map]
    cases w.its[i]? with
    | none => rfl
    | some o => cases o <;> rfl
  rw [hg]
  cases w.its.getD i none with
  | none => rfl
  | some e =>
    simp only [Option.map_some]
    have h2 : (absITE w.cifs e).cif = e.cif := rfl
    rw [h2, liveC_absW]
    show (match (w.cifs.getD e.cif none).map (fun s => absS s.db) with | none => none | some st => pendA st (absITE w.cifs e).it) = _
    cases hc : w.cifs.getD e.cif none with
    | none => rfl
    | some s =>
      simp only [Option.map_some]
      rw [absITE_live (cifs := w.cifs) (e := e) (s := s) hc]

theorem getD_set_ne_its {α} (l : List (Option α)) (i j : Nat) (x : Option α) (h : j ≠ i) : (l.set j x).getD i none = l.getD i none := by
  simp [List.getD, List.getElem?_set_ne h]

theorem getD_append_lt {α} (l : List (Option α)) (i : Nat) (x : Option α) (a : α) (h : l.getD i none = some a) :
    (l ++ [x]).getD i none = some a := by
  have hlt := getD_some_lt _ _ _ h
  simp only [List.getD] at h ⊢
  rw [List.getElem?_append_left hlt]; exact h

/-- an op of an in-contract history that is not a call of iterator `i` leaves iterator `i` and — as far as content and BEGIN snapshot
    go — the store of its CIF alone -/
theorem step_other (w : World) (op : Op) (h : WOk w) (hin : inContract w op = true) (i : Nat) (e : ITE)
    (hi : w.its.getD i none = some e) (hop : op.iterIdx ≠ some i) :
    (step w op).1.its.getD i none = some e ∧
    ∃ s s', w.cifs.getD e.cif none = some s ∧ (step w op).1.cifs.getD e.cif none = some s' ∧ s'.db = s.db ∧ s'.txn = s.txn := by
  obtain ⟨s, hs, _⟩ := h.iters i e hi
  have hs' : w.cifs.getD e.cif none = some s := hs
  have hbusy := busy_of_entry hi
  have key : ∀ c', w.cifBusy c' = false → e.cif ≠ c' := fun c' hb hc => by rw [hc] at hbusy; rw [hbusy] at hb; cases hb
  have same : (step w op).1.its.getD i none = some e → (step w op).1.cifs.getD e.cif none = some s →
      (step w op).1.its.getD i none = some e ∧
      ∃ s0 s', w.cifs.getD e.cif none = some s0 ∧ (step w op).1.cifs.getD e.cif none = some s' ∧ s'.db = s0.db ∧ s'.txn = s0.txn :=
    fun h1 h2 => ⟨h1, s, s, hs', h2, rfl, rfl⟩
  have setc : ∀ (c' : Nat) (x : Option Store), e.cif ≠ c' → (w.cifs.set c' x).getD e.cif none = some s :=
    fun c' x hne => by rw [getD_set_ne' _ _ _ _ hne]; exact hs'
  cases op with
  | cifNew =>
    apply same
    · exact hi
    · show (w.cifs ++ [some ({} : Store)]).getD e.cif none = some s
      exact getD_append_lt _ _ _ _ hs'
  | cifDel c =>
    apply same <;> simp only [step]
    · split
      · exact hi
      · rename_i s0 hl
        have hne := key c (okC_free hin hl)
        have hcf : (e.cif == c) = false := by simpa using hne
        simp only [List.getD, List.getElem?_map] at hi ⊢
        cases hq : w.its[i]? with
        | none => rw [hq] at hi; cases hi
        | some o =>
          rw [hq] at hi
          simp only [Option.getD_some] at hi
          subst hi
          simp; exact hne
    · split
      · exact hs'
      · rename_i s0 hl
        exact setc c none (key c (okC_free hin hl))
  | mkBlock c n len =>
    apply same <;> simp only [step] <;> split
    · exact hi
    · exact hi
    · exact hs'
    · rename_i s0 hl; exact setc c _ (key c (okC_free hin hl))
  | getBlock c n =>
    apply same <;> simp only [step] <;> split
    · exact hi
    · exact hi
    · exact hs'
    · rename_i s0 hl; exact setc c _ (key c (okC_free hin hl))
  | blocks c =>
    apply same <;> simp only [step] <;> split
    · exact hi
    · exact hi
    · exact hs'
    · rename_i s0 hl; exact setc c _ (key c (okC_free hin hl))
  | mkFrame hh n len =>
    apply same <;> simp only [step] <;> split
    · exact hi
    · exact hi
    · exact hs'
    · rename_i e' s0 hl; exact setc _ _ (key _ (okH_free hin hl).1)
  | getFrame hh n =>
    apply same <;> simp only [step] <;> split
    · exact hi
    · exact hi
    · exact hs'
    · rename_i e' s0 hl; exact setc _ _ (key _ (okH_free hin hl).1)
  | frames hh =>
    apply same <;> simp only [step] <;> split
    · exact hi
    · exact hi
    · exact hs'
    · rename_i e' s0 hl; exact setc _ _ (key _ (okH_free hin hl).1)
  | cdestroy hh =>
    apply same <;> simp only [step] <;> split
    · exact hi
    · split <;> exact hi
    · exact hs'
    · rename_i e' s0 hl
      split
      · exact hs'
      · exact setc _ _ (key _ (okH_free hin hl).1)
  | code hh => apply same <;> simp only [step] <;> split <;> first | exact hi | exact hs'
  | isBlock hh => apply same <;> simp only [step] <;> split <;> first | exact hi | exact hs'
  | mkLoop hh cat names =>
    apply same <;> simp only [step] <;> split
    · exact hi
    · exact hi
    · exact hs'
    · rename_i e' s0 hl; exact setc _ _ (key _ (okH_free hin hl).1)
  | catLoop hh cat =>
    apply same <;> simp only [step] <;> split
    · exact hi
    · exact hi
    · exact hs'
    · rename_i e' s0 hl; exact setc _ _ (key _ (okH_free hin hl).1)
  | itemLoop hh n =>
    apply same <;> simp only [step] <;> split
    · exact hi
    · exact hi
    · exact hs'
    · rename_i e' s0 hl; exact setc _ _ (key _ (okH_free hin hl).1)
  | loops hh =>
    apply same <;> simp only [step] <;> split
    · exact hi
    · split <;> exact hi
    · exact hs'
    · rename_i e' s0 hl
      split <;> exact setc _ _ (key _ (okH_free hin hl).1)
  | prune hh =>
    apply same <;> simp only [step] <;> split
    · exact hi
    · exact hi
    · exact hs'
    · rename_i e' s0 hl; exact setc _ _ (key _ (okH_free hin hl).1)
  | getVal hh n =>
    apply same <;> simp only [step] <;> split
    · exact hi
    · split
      · exact hi
      · split <;> exact hi
    · exact hs'
    · rename_i e' s0 hl
      split
      · exact hs'
      · split <;> exact setc _ _ (key _ (okH_free hin hl).1)
  | setVal hh n v =>
    apply same <;> simp only [step] <;> split
    · exact hi
    · exact hi
    · exact hs'
    · rename_i e' s0 hl; exact setc _ _ (key _ (okH_free hin hl).1)
  | rmItem hh n =>
    apply same <;> simp only [step] <;> split
    · exact hi
    · exact hi
    · exact hs'
    · rename_i e' s0 hl; exact setc _ _ (key _ (okH_free hin hl).1)
  | ldestroy l =>
    apply same <;> simp only [step] <;> split
    · exact hi
    · split <;> exact hi
    · exact hs'
    · rename_i e' s0 hl
      split
      · exact hs'
      · exact setc _ _ (key _ (okL_free hin hl).1)
  | getCat l => apply same <;> simp only [step] <;> split <;> first | exact hi | exact hs'
  | setCat l cat =>
    apply same <;> simp only [step] <;> split
    · exact hi
    · exact hi
    · exact hs'
    · rename_i e' s0 hl; exact setc _ _ (key _ (okL_free hin hl).1)
  | names l =>
    apply same <;> simp only [step] <;> split
    · exact hi
    · exact hi
    · exact hs'
    · rename_i e' s0 hl; exact setc _ _ (key _ (okL_free hin hl).1)
  | addItem l n v =>
    apply same <;> simp only [step] <;> split
    · exact hi
    · split <;> exact hi
    · exact hs'
    · rename_i e' s0 hl
      split
      · exact hs'
      · exact setc _ _ (key _ (okL_free hin hl).1)
  | addPkt l p =>
    have hin' : okL w l = true := by
      have : (okL w l && keysDistinct p) = true := hin
      simp only [Bool.and_eq_true] at this; exact this.1
    apply same <;> simp only [step] <;> split
    · exact hi
    · exact hi
    · exact hs'
    · rename_i e' s0 hl; exact setc _ _ (key _ (okL_free hin' hl).1)
  | itOpen l =>
    simp only [step]
    split
    · exact ⟨getD_append_lt _ _ _ _ hi, s, s, hs', hs', rfl, rfl⟩
    · rename_i e' s0 hl
      refine ⟨getD_append_lt _ _ _ _ hi, ?_⟩
      by_cases hce : e.cif = e'.cif
      · have hs0 : w.liveC e'.cif = some s0 := liveL_liveC hl
        rw [← hce] at hs0
        have : s0 = s := by rw [hs] at hs0; cases hs0; rfl
        subst this
        obtain ⟨d, ht⟩ := h.loud e.cif s0 hs hbusy
        obtain ⟨_, htx, hdb⟩ := getPackets_refused s0 e'.h d ht
        refine ⟨s0, (getPackets s0 e'.h).1, hs', ?_, hdb, htx⟩
        show (w.cifs.set e'.cif _).getD e.cif none = _
        rw [← hce]; exact liveC_set_self w e.cif s0 _ hs
      · exact ⟨s, s, hs', setc _ _ hce, rfl, rfl⟩
  | itNext j =>
    have hj : j ≠ i := fun hji => hop (by rw [hji]; rfl)
    apply same <;> simp only [step] <;> split
    · exact hi
    · rw [getD_set_ne_its _ _ _ _ hj]; exact hi
    · exact hs'
    · exact hs'
  | itUpd j p =>
    have hj : j ≠ i := fun hji => hop (by rw [hji]; rfl)
    apply same <;> simp only [step] <;> split
    · exact hi
    · exact hi
    · exact hs'
    · rename_i e' s0 hl
      exact setc _ _ (fun hc => hj (h.one j i e' e (liveI_its hl) hi hc.symm))
  | itRem j =>
    have hj : j ≠ i := fun hji => hop (by rw [hji]; rfl)
    apply same <;> simp only [step] <;> split
    · exact hi
    · rw [getD_set_ne_its _ _ _ _ hj]; exact hi
    · exact hs'
    · rename_i e' s0 hl
      exact setc _ _ (fun hc => hj (h.one j i e' e (liveI_its hl) hi hc.symm))
  | itClose j =>
    have hj : j ≠ i := fun hji => hop (by rw [hji]; rfl)
    apply same <;> simp only [step] <;> split
    · exact hi
    · rw [getD_set_ne_its _ _ _ _ hj]; exact hi
    · exact hs'
    · rename_i e' s0 hl
      exact setc _ _ (fun hc => hj (h.one j i e' e (liveI_its hl) hi hc.symm))
  | itAbort j =>
    have hj : j ≠ i := fun hji => hop (by rw [hji]; rfl)
    apply same <;> simp only [step] <;> split
    · exact hi
    · rw [getD_set_ne_its _ _ _ _ hj]; exact hi
    · exact hs'
    · rename_i e' s0 hl
      exact setc _ _ (fun hc => hj (h.one j i e' e (liveI_its hl) hi hc.symm))

-- ---- `pending` along a history -------------------------------------------------------------------------------------------------------------

/-- a tied iterator that has a current packet has passed at least one packet -/
theorem absIter_done_pos (it : Iter) (s : Store) (h : IterOk it s.db) : (absIter it s).hasCur = true → 1 ≤ (absIter it s).done := by
  intro hc
  have hp : 0 < it.prev := by
    have : decide (0 < it.prev) = true := hc
    simpa using this
  obtain ⟨hd, hm⟩ := doneIn_current it s.db h hp
  show 1 ≤ it.doneIn s.db
  rw [hd]
  exact List.length_pos_of_mem (List.mem_filter.mpr ⟨hm, by simp⟩)

/-- what is pending for iterator `i`, read off the store model -/
theorem pending_of_entry (w : World) (i : Nat) (e : ITE) (s : Store) (hi : w.its.getD i none = some e)
    (hs : w.cifs.getD e.cif none = some s) : (absW w).pending i = pendA (absS s.db) (absIter e.it s) := by
  rw [pending_absW, hi]
  simp only [hs]

theorem entry_of_pending (w : World) (h : WOk w) (i : Nat) (P : List (List (Str × V))) (hp : (absW w).pending i = some P) :
    ∃ e s, w.its.getD i none = some e ∧ w.cifs.getD e.cif none = some s ∧ pendA (absS s.db) (absIter e.it s) = some P := by
  rw [pending_absW] at hp
  cases hi : w.its.getD i none with
  | none => rw [hi] at hp; cases hp
  | some e =>
    rw [hi] at hp
    simp only [] at hp
    obtain ⟨s, hs, _⟩ := h.iters i e hi
    have hs' : w.cifs.getD e.cif none = some s := hs
    rw [hs'] at hp
    exact ⟨e, s, rfl, hs', hp⟩

/-- an op that is not a call of iterator `i` does not change what is pending for it -/
theorem pending_other (w : World) (op : Op) (h : WOk w) (hin : inContract w op = true) (i : Nat) (P : List (List (Str × V)))
    (hp : (absW w).pending i = some P) (hop : op.iterIdx ≠ some i) : (absW (step w op).1).pending i = some P := by
  obtain ⟨e, s, hi, hs, hpe⟩ := entry_of_pending w h i P hp
  obtain ⟨hi', s0, s', h0, h1, hdb, htx⟩ := step_other w op h hin i e hi hop
  rw [hs] at h0; cases h0
  rw [pending_of_entry _ i e s' hi' h1, hdb, absIter_congr e.it s s' hdb htx]
  exact hpe

/-- cif_pktitr_next_packet inside a history: not executed (dead handle), or CIF_FINISHED with nothing pending, or the head of what is
    pending is delivered and the tail stays pending -/
theorem pending_next (w : World) (h : WOk w) (i : Nat) (P : List (List (Str × V))) (hp : (absW w).pending i = some P) :
    ((step w (.itNext i)).2.rc = none ∧ (absW (step w (.itNext i)).1).pending i = some P) ∨
    (P = [] ∧ (step w (.itNext i)).2.rc = some CIF_FINISHED ∧ (absW (step w (.itNext i)).1).pending i = some []) ∨
    (∃ p ps, P = p :: ps ∧ (step w (.itNext i)).2.rc = some CIF_OK ∧ (step w (.itNext i)).2.out = .packet p ∧
      (absW (step w (.itNext i)).1).pending i = some ps) := by
  obtain ⟨e0, s0, hi0, hs0, hpe0⟩ := entry_of_pending w h i P hp
  simp only [step]
  cases hl : w.liveI i with
  | none => exact Or.inl ⟨rfl, hp⟩
  | some pr =>
    obtain ⟨e, s⟩ := pr
    have hs := liveI_liveC hl
    have hi := liveI_its hl
    rw [hi0] at hi; cases hi
    have hs' : w.cifs.getD e0.cif none = some s := hs
    rw [hs0] at hs'; cases hs'
    have hg := (h.good.live hs).db
    have hok := h.iters.of_liveI hl
    obtain ⟨d, ht⟩ := h.loud e0.cif s0 hs (busy_of_entry hi0)
    have hac : s0.autocommit = false := by simp [Store.autocommit, ht]
    obtain ⟨h1, h2⟩ := nextPacket_spec_abs s0 e0.it hok hg hac
    obtain ⟨n1, n2⟩ := pendA_next _ _ P hpe0
    simp only []
    have hpend' : (absW { w with its := w.its.set i (some { e0 with it := (nextPacket s0 e0.it).1 }) }).pending i =
        pendA (absS s0.db) (absIter (nextPacket s0 e0.it).1 s0) := by
      refine pending_of_entry _ i { e0 with it := (nextPacket s0 e0.it).1 } s0 ?_ hs0
      have hlt := getD_some_lt _ _ _ hi0
      simp [List.getD, hlt]
    rw [hpend', h1, h2]
    cases P with
    | nil =>
      right; left
      have := n1 rfl
      rw [this]
      exact ⟨rfl, rfl, hpe0⟩
    | cons p ps =>
      right; right
      obtain ⟨m1, m2⟩ := n2 p ps rfl
      refine ⟨p, ps, rfl, ?_, ?_, m2⟩
      · rw [m1]; rfl
      · rw [m1]

/-- cif_pktitr_update_packet / cif_pktitr_remove_packet inside a history do not change what is pending -/
theorem pending_upd (w : World) (h : WOk w) (i : Nat) (pkt : List (Str × V)) (hin : inContract w (.itUpd i pkt) = true)
    (P : List (List (Str × V))) (hp : (absW w).pending i = some P) : (absW (step w (.itUpd i pkt)).1).pending i = some P := by
  obtain ⟨e0, s0, hi0, hs0, hpe0⟩ := entry_of_pending w h i P hp
  simp only [step]
  cases hl : w.liveI i with
  | none => exact hp
  | some pr =>
    obtain ⟨e, s⟩ := pr
    have hs := liveI_liveC hl
    have hi := liveI_its hl
    rw [hi0] at hi; cases hi
    have hs' : w.cifs.getD e0.cif none = some s := hs
    rw [hs0] at hs'; cases hs'
    have hg := (h.good.live hs).db
    have hok := h.iters.of_liveI hl
    obtain ⟨d, ht⟩ := h.loud e0.cif s0 hs (busy_of_entry hi0)
    have hk : keysDistinct pkt = true := hin
    obtain ⟨h1, _, h3⟩ := updatePacket_spec_abs s0 e0.it pkt hok hg d ht hk
    simp only []
    rw [pending_of_entry (w.setCif e0.cif (updatePacket s0 e0.it pkt).1) i e0 _ hi0 (liveC_set_self w e0.cif s0 _ hs), h1, h3,
      pendA_update _ _ _ (absIter_done_pos e0.it s0 hok)]
    exact hpe0

theorem pending_rem (w : World) (h : WOk w) (i : Nat) (P : List (List (Str × V))) (hp : (absW w).pending i = some P) :
    (absW (step w (.itRem i)).1).pending i = some P := by
  obtain ⟨e0, s0, hi0, hs0, hpe0⟩ := entry_of_pending w h i P hp
  simp only [step]
  cases hl : w.liveI i with
  | none => exact hp
  | some pr =>
    obtain ⟨e, s⟩ := pr
    have hs := liveI_liveC hl
    have hi := liveI_its hl
    rw [hi0] at hi; cases hi
    have hs' : w.cifs.getD e0.cif none = some s := hs
    rw [hs0] at hs'; cases hs'
    have hg := (h.good.live hs).db
    have hok := h.iters.of_liveI hl
    obtain ⟨d, ht⟩ := h.loud e0.cif s0 hs (busy_of_entry hi0)
    obtain ⟨h1, h2, _⟩ := removePacket_spec_abs s0 e0.it hok hg d ht
    simp only []
    have hlt := getD_some_lt _ _ _ hi0
    rw [pending_of_entry _ i { e0 with it := (removePacket s0 e0.it).2.1 } (removePacket s0 e0.it).1
        (by simp [setCif, List.getD, hlt]) (liveC_set_self w e0.cif s0 _ hs), h1, h2,
      pendA_remove _ _ (absIter_done_pos e0.it s0 hok)]
    exact hpe0

/-- a granted cif_loop_get_packets: everything the loop holds is pending for the new iterator -/
theorem pending_open (w : World) (h : WOk w) (l : Nat) (hin : inContract w (.itOpen l) = true)
    (hok : (step w (.itOpen l)).2.rc = some CIF_OK) :
    ∃ e st x, (absW w).liveL l = some (e, st) ∧ st.findLoop e.h.cid e.h.loopNum = some x ∧
      (absW (step w (.itOpen l)).1).pending w.its.length = some (x.packets.map (fun p => (x.items.map (·.1)).zip p)) := by
  rw [liveL_absW]
  simp only [step] at hok ⊢
  cases hl : w.liveL l with
  | none => rw [hl] at hok; cases hok
  | some pr =>
    obtain ⟨e, s⟩ := pr
    rw [hl] at hok
    simp only [Option.map_some] at hok ⊢
    have hs := liveL_liveC hl
    have hg := (h.good.live hs).db
    cases hb : w.cifBusy e.cif with
    | true =>
      exfalso
      obtain ⟨d, ht⟩ := h.loud e.cif s hs hb
      obtain ⟨⟨c, hc⟩, _, _⟩ := getPackets_refused s e.h d ht
      have hne : c ≠ CIF_OK := by
        intro h0
        have := getPackets_refused_code s e.h d ht hg.inv
        rw [hc, h0] at this
        unfold specItOpenRefused at this
        split at this
        · cases this
        · split at this <;> cases this
      rw [hc] at hok
      exact hne (by simpa [codeOf] using hok)
    | false =>
      have hin' : (w.cifBusy e.cif || e.h.validB s.db) = true := by
        have : okLOpen w l = true := hin
        unfold okLOpen LH.okB at this; rw [hl] at this
        simp only [Bool.or_eq_true, Bool.and_eq_true] at this ⊢
        exact this.imp id (fun h => h.1)
      rw [hb] at hin'
      have hv : e.h.validB s.db = true := by simpa using hin'
      have hsp := getPackets_spec_abs s e.h hg hv (h.autocommit hs hb)
      cases hr : getPackets s e.h with
      | mk s1 r =>
        rw [hr] at hsp hok
        cases r with
        | error c =>
          exfalso
          simp only [] at hsp
          have hopen : specItOpen (absS s.db) e.h = .error c := hsp.1
          unfold specItOpen at hopen
          split at hopen
          · cases hopen; simp [codeOf] at hok; exact absurd hok (by decide)
          · split at hopen
            · cases hopen; simp [codeOf] at hok; exact absurd hok (by decide)
            · split at hopen
              · cases hopen; simp [codeOf] at hok; exact absurd hok (by decide)
              · cases hopen
        | ok it =>
          simp only [] at hsp
          obtain ⟨h1, h2, _, _⟩ := hsp
          have hopen := h1
          unfold specItOpen at hopen
          cases hf : (absS s.db).findLoop e.h.cid e.h.loopNum with
          | none => rw [hf] at hopen; cases hopen
          | some x =>
            rw [hf] at hopen
            simp only [] at hopen
            split at hopen
            · cases hopen
            · split at hopen
              · cases hopen
              · simp only [Except.ok.injEq] at hopen
                refine ⟨e, absS s.db, x, rfl, hf, ?_⟩
                rw [pending_of_entry _ w.its.length { cif := e.cif, lh := l, it := it } s1
                  (by simp [List.getD]) (liveC_set_self w e.cif s s1 hs), h2, ← hopen]
                unfold pendA
                simp only [hf, List.drop_zero]

-- ---- what an iterator delivers over a history ------------------------------------------------------------------------------------------

def Op.isNextOf (i : Nat) : Op → Bool
  | .itNext j => j == i
  | _ => false

/-- the op closes or aborts iterator `i` -/
def Op.endsIter (i : Nat) : Op → Bool
  | .itClose j | .itAbort j => j == i
  | _ => false

/-- the packet a call delivered (code CIF_OK and a packet) -/
def Result.okPacket (r : Result) : Option (List (Str × V)) :=
  if r.rc == some CIF_OK then (match r.out with | .packet p => some p | _ => none) else none

/-- the packets the cif_pktitr_next_packet calls on iterator `i` deliver over a history, in order -/
def deliveredBy (i : Nat) : List Op → List Result → List (List (Str × V))
  | [], _ => []
  | _ :: _, [] => []
  | op :: ops, r :: rs => (if op.isNextOf i then r.okPacket.toList else []) ++ deliveredBy i ops rs

theorem run_cons (w : World) (op : Op) (ops : List Op) :
    run w (op :: ops) = ((run (step w op).1 ops).1, (step w op).2 :: (run (step w op).1 ops).2) := rfl

/-- In ANY history that keeps to the contract, from a world satisfying WOk in which `P` is pending for iterator `i`, and that does not
    close or abort `i`: the packets the next-calls on `i` deliver are a PREFIX of `P` — each once, in order, whatever else the history
    does (updates and removals through `i`, calls on other CIFs, other iterators, refused get_packets) — and the rest of `P` is what
    is pending afterwards. -/
theorem delivered_prefix (hstep : ∀ w op, WOk w → inContract w op = true → WOk (step w op).1) :
    ∀ (ops : List Op) (w : World), WOk w → inContractHist w ops = true →
    ∀ (i : Nat) (P : List (List (Str × V))), (absW w).pending i = some P → ops.all (fun op => !op.endsIter i) = true →
    ∃ rest, P = deliveredBy i ops (run w ops).2 ++ rest ∧ (absW (run w ops).1).pending i = some rest
  | [], w, _, _, i, P, hp, _ => ⟨P, rfl, hp⟩
  | op :: ops, w, h, hc, i, P, hp, hno => by
    have hc' : (inContract w op && inContractHist (step w op).1 ops) = true := hc
    simp only [Bool.and_eq_true] at hc'
    simp only [List.all_cons, Bool.and_eq_true, Bool.not_eq_true'] at hno
    have h1 := hstep w op h hc'.1
    rw [run_cons]
    simp only [deliveredBy]
    by_cases hidx : op.iterIdx = some i
    · cases op with
      | itNext j =>
        have hj : j = i := by simpa [Op.iterIdx] using hidx
        subst hj
        have hnx : (Op.itNext j).isNextOf j = true := by simp [Op.isNextOf]
        simp only [hnx, if_true]
        rcases pending_next w h j P hp with ⟨r0, p0⟩ | ⟨pe, r0, p0⟩ | ⟨p, ps, pe, r0, o0, p0⟩
        · obtain ⟨rest, e1, e2⟩ := delivered_prefix hstep ops _ h1 hc'.2 j P p0 (by simpa using hno.2)
          refine ⟨rest, ?_, e2⟩
          have : (step w (.itNext j)).2.okPacket = none := by unfold Result.okPacket; rw [r0]; rfl
          rw [this]; exact e1
        · obtain ⟨rest, e1, e2⟩ := delivered_prefix hstep ops _ h1 hc'.2 j [] p0 (by simpa using hno.2)
          refine ⟨rest, ?_, e2⟩
          have : (step w (.itNext j)).2.okPacket = none := by unfold Result.okPacket; rw [r0]; rfl
          rw [this, pe]; exact e1
        · obtain ⟨rest, e1, e2⟩ := delivered_prefix hstep ops _ h1 hc'.2 j ps p0 (by simpa using hno.2)
          refine ⟨rest, ?_, e2⟩
          have : (step w (.itNext j)).2.okPacket = some p := by unfold Result.okPacket; rw [r0, o0]; rfl
          rw [this, pe, e1]; rfl
      | itUpd j pkt =>
        have hj : j = i := by simpa [Op.iterIdx] using hidx
        subst hj
        have p0 := pending_upd w h j pkt hc'.1 P hp
        obtain ⟨rest, e1, e2⟩ := delivered_prefix hstep ops _ h1 hc'.2 j P p0 (by simpa using hno.2)
        exact ⟨rest, by simpa [Op.isNextOf] using e1, e2⟩
      | itRem j =>
        have hj : j = i := by simpa [Op.iterIdx] using hidx
        subst hj
        have p0 := pending_rem w h j P hp
        obtain ⟨rest, e1, e2⟩ := delivered_prefix hstep ops _ h1 hc'.2 j P p0 (by simpa using hno.2)
        exact ⟨rest, by simpa [Op.isNextOf] using e1, e2⟩
      | itClose j =>
        have hj : j = i := by simpa [Op.iterIdx] using hidx
        simp [Op.endsIter, hj] at hno
      | itAbort j =>
        have hj : j = i := by simpa [Op.iterIdx] using hidx
        simp [Op.endsIter, hj] at hno
      | _ => simp [Op.iterIdx] at hidx
    · have p0 := pending_other w op h hc'.1 i P hp hidx
      obtain ⟨rest, e1, e2⟩ := delivered_prefix hstep ops _ h1 hc'.2 i P p0 (by simpa using hno.2)
      have hnx : op.isNextOf i = false := by
        cases op <;> simp only [Op.isNextOf]
        rename_i j
        simp only [Op.iterIdx, Option.some.injEq] at hidx
        simpa using hidx
      refine ⟨rest, ?_, e2⟩
      simp only [hnx, Bool.false_eq_true, if_false, List.nil_append]
      exact e1

-- ---- dead entries stay dead; the prefix theorem without restriction ---------------------------------------------------------------------

theorem getD_none_of_ge {α} (l : List (Option α)) (i : Nat) (h : l.length ≤ i) : l.getD i none = none := by
  simp [List.getD, List.getElem?_eq_none h]

/-- an iterator-table entry that is dead (closed, aborted, never granted) stays dead: entries come to life only by being appended -/
theorem step_dead (w : World) (op : Op) (i : Nat) (hlt : i < w.its.length) (hd : w.its.getD i none = none) :
    i < (step w op).1.its.length ∧ (step w op).1.its.getD i none = none := by
  have happ : ∀ x : Option ITE, i < (w.its ++ [x]).length ∧ (w.its ++ [x]).getD i none = none := by
    intro x
    refine ⟨by simp; omega, ?_⟩
    simp only [List.getD] at hd ⊢
    rw [List.getElem?_append_left hlt]; exact hd
  have hset : ∀ (j : Nat) (x : Option ITE), j ≠ i → i < (w.its.set j x).length ∧ (w.its.set j x).getD i none = none := by
    intro j x hj
    exact ⟨by simp [hlt], by rw [getD_set_ne_its _ _ _ _ hj]; exact hd⟩
  have hnone : ∀ j, i < (w.its.set j none).length ∧ (w.its.set j none).getD i none = none := by
    intro j
    refine ⟨by simp [hlt], ?_⟩
    by_cases hj : j = i
    · subst hj; simp [List.getD, hlt]
    · rw [getD_set_ne_its _ _ _ _ hj]; exact hd
  have hlive : ∀ (j : Nat) (e : ITE) (s : Store), w.liveI j = some (e, s) → j ≠ i := by
    intro j e s hl hji
    have := liveI_its hl
    rw [hji, hd] at this; cases this
  cases op <;> simp only [step]
  case cifDel c =>
    split
    · exact ⟨hlt, hd⟩
    · refine ⟨by simp [hlt], ?_⟩
      simp only [List.getD, List.getElem?_map] at hd ⊢
      cases hq : w.its[i]? with
      | none => rfl
      | some o =>
        rw [hq] at hd
        simp only [Option.getD_some] at hd
        subst hd
        rfl
  case itOpen l => split <;> exact happ _
  case itNext j =>
    split
    · exact ⟨hlt, hd⟩
    · rename_i e s hl; exact hset j _ (hlive j e s hl)
  case itRem j =>
    split
    · exact ⟨hlt, hd⟩
    · rename_i e s hl; exact hset j _ (hlive j e s hl)
  case itClose j =>
    split
    · exact ⟨hlt, hd⟩
    · exact hnone j
  case itAbort j =>
    split
    · exact ⟨hlt, hd⟩
    · exact hnone j
  all_goals (repeat' split) <;> exact ⟨hlt, hd⟩



/-- a dead iterator delivers nothing, whatever the history -/
theorem delivered_dead (i : Nat) : ∀ (ops : List Op) (w : World), i < w.its.length → w.its.getD i none = none →
    deliveredBy i ops (run w ops).2 = []
  | [], _, _, _ => rfl
  | op :: ops, w, hlt, hd => by
    obtain ⟨h1, h2⟩ := step_dead w op i hlt hd
    rw [run_cons]
    simp only [deliveredBy]
    rw [delivered_dead i ops _ h1 h2, List.append_nil]
    cases hn : op.isNextOf i with
    | false => rfl
    | true =>
      cases op with
      | itNext j =>
        have hj : j = i := by simpa [Op.isNextOf] using hn
        subst hj
        have hl : w.liveI j = none := by
          unfold liveI; rw [hd]
        simp only [step, hl, if_true]
        rfl
      | _ => simp [Op.isNextOf] at hn

/-- … so, with no restriction on the history: the packets the next-calls on `i` deliver over ANY in-contract history are a prefix of
    what was pending for `i` at its start (a close / abort of `i` ends the deliveries) -/
theorem delivered_prefix_all (hstep : ∀ w op, WOk w → inContract w op = true → WOk (step w op).1) :
    ∀ (ops : List Op) (w : World), WOk w → inContractHist w ops = true →
    ∀ (i : Nat) (P : List (List (Str × V))), (absW w).pending i = some P →
    ∃ rest, P = deliveredBy i ops (run w ops).2 ++ rest
  | [], _, _, _, _, P, _ => ⟨P, rfl⟩
  | op :: ops, w, h, hc, i, P, hp => by
    have hc' : (inContract w op && inContractHist (step w op).1 ops) = true := hc
    simp only [Bool.and_eq_true] at hc'
    have h1 := hstep w op h hc'.1
    cases hend : op.endsIter i with
    | false =>
      -- as in `delivered_prefix`, one step
      obtain ⟨r1, e1, e2⟩ := delivered_prefix hstep [op] w h (by simp [inContractHist, hc'.1]) i P hp (by simp [hend])
      have hrun : (run w [op]).1 = (step w op).1 := rfl
      rw [hrun] at e2
      obtain ⟨rest, e3⟩ := delivered_prefix_all hstep ops _ h1 hc'.2 i r1 e2
      refine ⟨rest, ?_⟩
      rw [run_cons]
      simp only [deliveredBy]
      have hone : deliveredBy i [op] (run w [op]).2 = (if op.isNextOf i then (step w op).2.okPacket.toList else []) := by
        show deliveredBy i [op] [(step w op).2] = _
        simp [deliveredBy]
      rw [hone] at e1
      rw [e1, e3, List.append_assoc]
    | true =>
      obtain ⟨e, s, hi, _, _⟩ := entry_of_pending w h i P hp
      have hnx : op.isNextOf i = false := by cases op <;> simp [Op.endsIter, Op.isNextOf] at hend ⊢
      rw [run_cons]
      simp only [deliveredBy, hnx, Bool.false_eq_true, if_false, List.nil_append]
      cases hl : w.liveI i with
      | none =>
        -- the call is not executed: nothing changed
        have hw : (step w op).1 = w := by
          cases op with
          | itClose j => have hj : j = i := by simpa [Op.endsIter] using hend
                         subst hj; simp only [step, hl]
          | itAbort j => have hj : j = i := by simpa [Op.endsIter] using hend
                         subst hj; simp only [step, hl]
          | _ => simp [Op.endsIter] at hend
        rw [hw] at h1 hc' ⊢
        exact delivered_prefix_all hstep ops w h1 hc'.2 i P hp
      | some pr =>
        have hlt := getD_some_lt _ _ _ hi
        have hdead : i < (step w op).1.its.length ∧ (step w op).1.its.getD i none = none := by
          cases op with
          | itClose j => have hj : j = i := by simpa [Op.endsIter] using hend
                         subst hj; simp only [step, hl]; exact ⟨by simp [hlt], by simp [List.getD, hlt]⟩
          | itAbort j => have hj : j = i := by simpa [Op.endsIter] using hend
                         subst hj; simp only [step, hl]; exact ⟨by simp [hlt], by simp [List.getD, hlt]⟩
          | _ => simp [Op.endsIter] at hend
        rw [delivered_dead i ops _ hdead.1 hdead.2]
        exact ⟨P, rfl⟩


end CifModel.Store
