import CifModel.Lemmas.HeapHistStep2
import CifModel.Lemmas.HeapHistMap
import CifModel.Lemmas.HeapHistFuel
/-
  Lemmas for operation histories on the heap, part 4c: one-step simulation for the map operations (tables and packets:
  set on a new / an existing key with any aliasing of the source, remove into a slot / released) and for `bld`.
-/
namespace CifModel.Model.Hist
open CifModel CifModel.Model.Heap
open CifModel.Model.Value (Step Entry resolve update child setChild defaultOf mapFind mapSet mapReplace mapErase insertAt removeAt
  getAt setAt)

/-- recording a new spelling allocates at most one block -/
theorem entryRespell_next_ub (pinned : Bool) (h h' : Heap) (e : Nat) (key : Str) (hop : entryRespell pinned h e key = some h') :
    h'.next ≤ h.next + 1 := by
  unfold entryRespell at hop
  split at hop
  · split at hop
    · split at hop
      · simp only [Option.some.injEq] at hop; subst hop; omega
      · simp only [alloc] at hop
        split at hop
        · cases hop
        · rename_i h2 hf
          have hw := write_next _ _ _ _ hop
          rw [hw]
          split at hf
          · have := free_next _ _ _ hf; rw [this]; simp
          · simp only [Option.some.injEq] at hf; subst hf; simp
    · cases hop
  · cases hop

section
variable {s : HState} {p : PState} {F : Root → List Nat}

theorem RepS.clearTemp {T : List Nat} (inv : RepS T s p F) (h' : Heap) (G : List Nat) (hc : Cleared s.h h' G)
    (hG : ∀ x, x ∈ G ↔ x ∈ T) : RepS [] ⟨h', s.slot⟩ p F := by
  refine ⟨Cleared.wf hc inv.wf, inv.ok, ?_, ?_, inv.dis, (fun _ _ _ hm => by cases hm), (fun _ hm => by cases hm), ?_⟩
  · intro r
    exact SlotRel_congr s.h h' r _ _ _ (fun a ha => by
      rw [hc.2 a, if_neg (fun hm => inv.tdis r a ha ((hG a).mp hm))]) (inv.rel r)
  · intro r a ha; show a < h'.next; rw [hc.1]; exact inv.lt r a ha
  · intro a hl
    have hnG : a ∉ G := fun hm => by
      have : h'.cell a = none := by rw [hc.2 a, if_pos hm]
      rw [this] at hl; cases hl
    have hl' : (s.h.cell a).isSome = true := by
      have : h'.cell a = s.h.cell a := by rw [hc.2 a, if_neg hnG]
      rw [← this]; exact hl
    rcases inv.cov a hl' with hh | hh
    · exact Or.inl hh
    · exact absurd ((hG a).mpr hh) hnG

/-- a reference that resolves (a value object or a packet): the object on the heap -/
theorem RepS.atAny {T : List Nat} (inv : RepS T s p F) (r : Ref) (c : V) (hget : getP p r = some c) :
    ∃ t hvt Ft, resolveRef s r = some t ∧ getHV s.h t = some hvt ∧ Rep s.h hvt c Ft ∧ t ∉ Ft ∧ (∀ x, x ∈ Ft → x < s.h.next)
      ∧ ∀ h' hvt' c' Ft' Tn, ObjUpd s.h h' t Ft hvt' c' Ft' Tn →
          ∃ p' F', putP p r c' = some p' ∧ RepS (T ++ Tn) ⟨h', s.slot⟩ p' F' := by
  have := inv.atRef r
  rw [hget] at this
  obtain ⟨a, t, hvt, Ft, hs, hres, hg, hrep, htF, htG, hsub, hcons, hnil, hsh, hk⟩ := this
  exact ⟨t, hvt, Ft, hres, hg, hrep, htF, fun x hx => inv.lt r.root x (hsub x hx), hk⟩

theorem step_mrem (inv : RepS [] s p F) (fuel : Nat) (hf : Fits fuel p) (r : Ref) (nk : Option Str) (dst : Option Nat) :
    Sim [] (stepH? fuel s (.mrem r nk dst)) (stepP? p (.mrem r nk dst)) := by
  simp only [stepH?, stepP?]
  by_cases hv : r.root.ok = true
  · simp only [hv, if_true]
    cases hg : getP p r with
    | none => rw [inv.atNone r hg]; exact Sim.none
    | some c =>
      obtain ⟨t, hvt, Ft, hres, hgt, hrept, htF, hFt, hk⟩ := inv.atAny r c hg
      rw [hres]
      cases nk with
      | none => cases c <;> exact Sim.none
      | some nk =>
        simp only [hgt]
        by_cases hl : ∃ es, c = .tbl es
        · obtain ⟨es, rfl⟩ := hl
          obtain ⟨ents, rfl, hen⟩ := Rep_tbl hrept
          simp only []
          cases hmf : mapFind es nk with
          | none =>
            rcases mapRemoveItemH_spec s.h inv.wf ents es Ft nk hen hFt with ⟨_, h', hop, _⟩ | ⟨e, ko, v, _, _, _, _, hmf', _⟩
            · rw [hop]; exact Sim.none
            · rw [hmf] at hmf'; cases hmf'
          | some ent =>
            obtain ⟨e, h1, h2, hv0, ka, koa, F1, F'', hop, hput, hce, hrep0, heF1, U⟩ :=
              mapRemovePut_spec s.h inv.wf t ents es Ft nk ent hgt hen htF hFt hmf
            obtain ⟨p', F1', hputP, inv'⟩ := hk h2 _ _ F'' (e :: F1) U
            have inv2 : RepS (e :: F1) ⟨h2, s.slot⟩ p' F1' := inv'.congrT (fun a => by simp)
            simp only [hop, hput, hputP]
            cases dst with
            | none =>
              have hneed : need ent.2.2 ≤ fuel := by
                have hk' := Value.mapFind_key es nk ent hmf
                obtain ⟨k0, ko0, v0⟩ := ent
                simp only at hk'; subst hk'
                have h1' := need_le_needEntries es k0 ko0 v0 hmf
                have h2' := hf.getP hg
                simp only [need] at h2'; simp only []; omega
              obtain ⟨g, hcl, cg⟩ := cleanVal_spec ent.2.2 h2 hv0 F1 fuel hrep0 hneed
              have hce' : g.cell e = some (.entry hv0 ka koa) := by rw [cg.2 e, if_neg heF1, hce]
              obtain ⟨h3, hf3, c3⟩ := Cleared.free g e _ hce'
              have hfd : freeDetached fuel h2 e = some h3 := by simp [freeDetached, Heap.read, hce, hcl, hf3]
              simp only [hfd, Option.map_some]
              exact Sim.mk (inv2.clearTemp h3 (F1 ++ [e]) (cg.trans c3) (fun x => by simp [or_comm]))
            | some k =>
              have hsl := inv2.slot_iff (.val k)
              simp only [] at hsl
              simp only []
              rw [← hsl]
              by_cases hc : ((Root.val k).ok && (s.slot (.val k)).isNone) = true
              · simp only [hc, if_true]
                simp only [Bool.and_eq_true, Option.isNone_iff_eq_none] at hc
                exact Sim.mk (inv2.adopt (.val k) hc.1 hc.2 e ent.2.2 (e :: F1)
                  ⟨hv0, F1, by simp [getHV, hce], by simp [shellOK, hce], hrep0, heF1, fun a => List.mem_cons⟩ (fun a => Iff.rfl))
              · simp only [hc]; exact Sim.none
        · have hn : ∀ es, c ≠ .tbl es := fun es e => hl ⟨es, e⟩
          have hn' := Rep_not_tbl hrept hn
          cases c <;> first | exact absurd rfl (hn _) | (cases hvt <;> first | exact absurd rfl (hn' _) | exact Sim.none)
  · simp only [hv]; exact Sim.none

theorem getP_setP_ok {q : PState} {r : Ref} {c : V} (h : putP p r c = some q) : ∀ r', r'.ok = false → p.get r' = none → q.get r' = none := by
  intro r' _ hp
  cases hr : p.get r.root with
  | none => simp [putP, hr] at h
  | some v =>
    cases hu : update v r.path c with
    | none => simp [putP, hr, hu] at h
    | some v' =>
      simp only [putP, hr, hu, Option.some.injEq] at h
      subst h
      simp only [setP_get]
      by_cases he : r' = r.root
      · rw [he, hr] at hp; cases hp
      · simp [he, hp]

theorem step_mset (inv : RepS [] s p F) (fuel : Nat) (hf : Fits fuel p) (r : Ref) (key : Str) (nk : Option Str)
    (src : Option Ref) (hbig : 3 * s.h.next + 9 ≤ fuel) :
    Sim [] (stepH? fuel s (.mset r key nk src)) (stepP? p (.mset r key nk src)) := by
  simp only [stepH?, stepP?]
  by_cases hv : r.root.ok = true
  · simp only [hv, if_true]
    cases nk with
    | none => cases hg : getP p r <;> first | exact Sim.none | (rename_i c; cases c <;> exact Sim.none)
    | some nk =>
      simp only []
      -- the state after the normaliser has allocated the normalised key
      have inv0 : RepS [s.h.next] ⟨(alloc s.h (.str nk)).2, s.slot⟩ p F := (inv.allocTemp (.str nk)).congrT (fun a => by simp)
      cases hg : getP p r with
      | none =>
        have := inv0.atNone r hg
        rw [this]; exact Sim.none
      | some c =>
        obtain ⟨t0, hvt0, Ft0, hres0, hgt0, hrept0, htF0, hFt0, hk0⟩ := inv0.atAny r c hg
        rw [hres0]
        simp only [hgt0]
        by_cases hl : ∃ es, c = .tbl es
        · obtain ⟨es, rfl⟩ := hl
          obtain ⟨ents0, rfl, hen0⟩ := Rep_tbl hrept0
          simp only []
          cases hmf : mapFind es nk with
          | none =>
            -- a new entry, computed from the state before the normaliser ran
            have hfe0 : findEntry (alloc s.h (.str nk)).2 ents0 nk = some none := by
              rcases RepEntries_find _ es ents0 Ft0 nk hen0 with ⟨_, hfe⟩ | ⟨e, ko, v, Fe, hmf', _⟩
              · exact hfe
              · rw [hmf] at hmf'; cases hmf'
            rw [hfe0]
            simp only []
            obtain ⟨t, hvt, Ft, hres, hgt, hrept, htF, hFt, hk⟩ := inv.atAny r _ hg
            rw [hres]
            rcases src_sim inv fuel hf src with ⟨h1, h2⟩ | ⟨x, xa, h1, h2, hsr⟩
            · rw [h1, h2]; exact Sim.none
            · rw [h1, h2]
              obtain ⟨ents, rfl, hen⟩ := Rep_tbl hrept
              simp only [hgt]
              obtain ⟨e, h3, h4, F', hadd, hput, U⟩ := mapAddPut_spec s.h inv.wf t ents es Ft nk key fuel xa x hgt hen htF hFt hmf hsr
              obtain ⟨p', F'', hputP, inv'⟩ := hk h4 _ _ F' [] U
              simp only [hadd, hput, Option.map_some, hputP]
              exact Sim.mk (inv'.congrT (fun a => by simp))
          | some ent =>
            -- an existing entry: new spelling (in the state with the temporary key block), then the value, then the key is released
            have hlt0 := getHV_lt inv0.wf hgt0
            obtain ⟨e, h1, F', hfe, hrs, U⟩ := respell_spec _ inv0.wf t0 ents0 es Ft0 nk key ent hgt0 hen0 htF0 hFt0 hmf
            obtain ⟨p1, F1, hputP, inv1⟩ := hk0 h1 _ _ F' [] U
            have inv1' : RepS [s.h.next] ⟨h1, s.slot⟩ p1 F1 := inv1.congrT (fun a => by simp)
            have hub : h1.next ≤ (alloc s.h (.str nk)).2.next + 1 := entryRespell_next_ub false _ h1 e key hrs
            have hf1 : Fits fuel p1 := inv1'.fitsAt fuel (by
              show 3 * h1.next + 2 ≤ fuel
              have : (alloc s.h (.str nk)).2.next = s.h.next + 1 := rfl
              omega)
            simp only [hfe, hrs, hputP]
            have hval : (r.member (.key nk)).isVal = true := root_ok_member hv _
            rcases setValue_step inv1' fuel hf1 src _ hval with ⟨s2, p2, F2, e1, e2, inv2⟩ | ⟨e1, e2⟩
            · rw [e1, e2]
              simp only [freeKey]
              obtain ⟨h', hfree, inv3⟩ := inv2.freeTemp (T' := []) s.h.next (by simp) (fun x => by simp)
              rw [hfree]
              exact Sim.mk inv3
            · rw [e1, e2]; exact Sim.none
        · have hn : ∀ es, c ≠ .tbl es := fun es e => hl ⟨es, e⟩
          have hn' := Rep_not_tbl hrept0 hn
          cases c <;> first | exact absurd rfl (hn _) | (cases hvt0 <;> first | exact absurd rfl (hn' _) | exact Sim.none)
  · simp only [hv]; exact Sim.none

end

end CifModel.Model.Hist
