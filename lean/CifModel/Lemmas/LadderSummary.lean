import CifModel.Lemmas.LadderDup
import CifModel.Lemmas.LadderClone
import CifModel.Lemmas.LadderNames
import CifModel.Lemmas.LadderShape
import CifModel.Lemmas.LadderPacket
import CifModel.Lemmas.LadderDeser
/-
  CifModel.Lemmas.LadderSummary — the ladder summaries specialised to a call that starts with an empty window
  (no request made yet, nothing live): the statements the property theorems of Props/C17 restate.
-/
namespace CifModel.Lemmas.Ladder
open CifModel.Model.Ladder CifModel.Spec.HeapTrace

theorem good_init {k N : Nat} {s' : St} (h : Good k N {} s') :
    s'.count = N ∧ ¬(1 ≤ k ∧ k ≤ N) ∧ NoFail s'.evs ∧ failIds s'.evs = [] := by
  unfold Good at h
  simp only [Nat.zero_add, failIds_nil] at h
  exact ⟨h.1, by omega, (noFail_iff_failIds _).mpr h.2.2, h.2.2⟩

theorem bad_init {k N : Nat} {s' : St} (h : Bad k N {} s') :
    1 ≤ k ∧ k ≤ N ∧ ¬ NoFail s'.evs ∧ failIds s'.evs = [k] ∧ s'.count = k := by
  unfold Bad at h
  simp only [Nat.zero_add, failIds_nil, List.nil_append] at h
  refine ⟨by omega, h.2.1, ?_, h.2.2.2, h.2.2.1⟩
  rw [noFail_iff_failIds, h.2.2.2]; simp

/-- both runs (fault-free and with fault position `k`) make up to `N` requests: the fault is reached iff `k` is one
    of the fault-free run's requests, and then it is the only `fail` event and the last request -/
theorem fault_of_outcomes {k N : Nat} {s0 sk : St} (h0 : Good 0 N {} s0 ∨ Bad 0 N {} s0)
    (hk : Good k N {} sk ∨ Bad k N {} sk) :
    (¬ NoFail sk.evs ↔ 1 ≤ k ∧ k ≤ s0.count) ∧ (¬ NoFail sk.evs → failIds sk.evs = [k] ∧ sk.count = k) ∧
    (NoFail sk.evs → sk.count = s0.count) := by
  have hc : s0.count = N := by
    rcases h0 with h0 | h0
    · exact (good_init h0).1
    · have := (bad_init h0).1; omega
  rw [hc]
  rcases hk with hk | hk
  · have ⟨a, b, c, _⟩ := good_init hk
    exact ⟨⟨fun h => absurd c h, fun h => absurd h b⟩, fun h => absurd c h, fun _ => a⟩
  · have ⟨a, b, c, d, e⟩ := bad_init hk
    exact ⟨⟨fun _ => ⟨a, b⟩, fun _ => c⟩, fun _ => ⟨d, e⟩, fun h => absurd h c⟩

theorem OK_ne_MEMORY_ERROR : MEMORY_ERROR ≠ OK := by decide

-- ---------------------------------------------------------------------------------------------------------------

theorem dup_outcome (k n : Nat) :
    Good k (n + 1) {} (dupUstrings k n).2.2 ∨ Bad k (n + 1) {} (dupUstrings k n).2.2 := by
  rcases dupUstrings_spec k n {} [] Inv.nil with h | h
  · exact .inl h.2.1
  · exact .inr h.2.2.1

theorem dup_summary (k n : Nat) :
    Balanced (dupUstrings k n).2.2.evs (dupUstrings k n).2.1 ∧
    ((dupUstrings k n).1 = OK ∨ (dupUstrings k n).1 = MEMORY_ERROR) ∧
    ((dupUstrings k n).1 ≠ OK → (dupUstrings k n).2.1 = []) ∧
    ((dupUstrings k n).1 = OK ↔ NoFail (dupUstrings k n).2.2.evs) ∧
    ((dupUstrings k n).1 = OK → (dupUstrings k n).2.1.length = n + 1) := by
  rcases dupUstrings_spec k n {} [] Inv.nil with ⟨h1, h2, h3, h4⟩ | ⟨h1, h2, h3, h4⟩
  · have g := good_init h2
    refine ⟨by simpa using h4.1, .inl h1, fun h => absurd h1 h, ⟨fun _ => g.2.2.1, fun _ => h1⟩, fun _ => h3⟩
  · have b := bad_init h3
    have hne : (dupUstrings k n).1 ≠ OK := by rw [h1]; exact OK_ne_MEMORY_ERROR
    refine ⟨by rw [h2]; exact h4.1, .inr h1, fun _ => h2, ⟨fun h => absurd h hne, fun h => absurd h b.2.2.1⟩,
      fun h => absurd h hne⟩

theorem clone_outcome (k : Nat) (sh : Shape) :
    Good k (1 + allocs sh) {} (clone k sh).2 ∨ Bad k (1 + allocs sh) {} (clone k sh).2 := by
  rcases clone_spec k sh {} [] Inv.nil with ⟨_, h⟩ | h
  · exact .inl h.2.1
  · exact .inr h.2.1

theorem clone_summary (k : Nat) (sh : Shape) :
    Balanced (clone k sh).2.evs (match (clone k sh).1 with | some o => o.ids | none => []) ∧
    ((clone k sh).1.isNone ↔ ¬ NoFail (clone k sh).2.evs) := by
  rcases clone_spec k sh {} [] Inv.nil with ⟨o, h1, h2, h3⟩ | ⟨h1, h2, h3⟩
  · have g := good_init h2
    rw [h1]
    exact ⟨by simpa using h3.1, by simpa using g.2.2.1⟩
  · have b := bad_init h2
    rw [h1]
    exact ⟨h3.1, by simpa using b.2.2.1⟩

theorem insert_outcome (k : Nat) (full : Bool) (sh : Shape) :
    Good k (insertAllocs full sh) {} (insertElement k full sh).2.2 ∨
    Bad k (insertAllocs full sh) {} (insertElement k full sh).2.2 := by
  rcases insertElement_spec k full sh {} [] Inv.nil with ⟨_, _, h⟩ | h
  · exact .inl h.2.2.2.1
  · exact .inr h.2.2.1

theorem insert_summary (k : Nat) (full : Bool) (sh : Shape) :
    Balanced (insertElement k full sh).2.2.evs
      (match (insertElement k full sh).2.1 with | some (o, arr) => o.ids ++ arr.toList | none => []) ∧
    ((insertElement k full sh).1 = OK ∨ (insertElement k full sh).1 = MEMORY_ERROR) ∧
    ((insertElement k full sh).1 = OK ↔ (insertElement k full sh).2.1.isSome) ∧
    ((insertElement k full sh).1 = OK ↔ NoFail (insertElement k full sh).2.2.evs) ∧
    (∀ o arr, (insertElement k full sh).2.1 = some (o, arr) → arr.isSome = full) := by
  rcases insertElement_spec k full sh {} [] Inv.nil with ⟨o, a, h1, h2, h3, h4, h5⟩ | ⟨h1, h2, h3, h4⟩
  · have g := good_init h4
    rw [h1, h2]
    refine ⟨by simpa using h5.1, .inl rfl, by simp, by simpa using g.2.2.1, ?_⟩
    intro o' a' e
    simp only [Option.some.injEq, Prod.mk.injEq] at e
    rw [← e.2]; exact h3
  · have b := bad_init h3
    rw [h1, h2]
    refine ⟨h4.1, .inr rfl, by simp [OK_ne_MEMORY_ERROR], by simpa [OK_ne_MEMORY_ERROR] using b.2.2.1, by simp⟩

/-- `fault_of_outcomes` for a call that starts in an arbitrary state `s` (requests are numbered on from `s.count`) -/
theorem fault_of_outcomes_from {k N : Nat} {s s0 sk : St} (h0 : Good 0 N s s0 ∨ Bad 0 N s s0)
    (hk : Good k N s sk ∨ Bad k N s sk) :
    (failIds sk.evs ≠ failIds s.evs ↔ s.count < k ∧ k ≤ s0.count) ∧
    (failIds sk.evs ≠ failIds s.evs → failIds sk.evs = failIds s.evs ++ [k] ∧ sk.count = k) ∧
    (failIds sk.evs = failIds s.evs → sk.count = s0.count) := by
  have hc : s0.count = s.count + N := by
    rcases h0 with h0 | h0
    · exact h0.1
    · have := h0.1; omega
  rw [hc]
  rcases hk with hk | hk
  · unfold Good at hk
    exact ⟨⟨fun h => absurd hk.2.2 h, fun h => absurd h hk.2.1⟩, fun h => absurd hk.2.2 h, fun _ => hk.1⟩
  · unfold Bad at hk
    have hne : failIds sk.evs ≠ failIds s.evs := by
      rw [hk.2.2.2]; intro h
      have := congrArg List.length h
      simp at this
    exact ⟨⟨fun _ => ⟨hk.1, hk.2.1⟩, fun _ => hne⟩, fun _ => ⟨hk.2.2.2, hk.2.2.1⟩, fun h => absurd h hne⟩

theorem set_outcome (k : Nat) (old : Owned) (sh : Shape) (s : St) (rest : List Nat)
    (hb : Balanced s.evs (old.ids ++ rest)) (hc : ∀ i ∈ old.ids ++ rest, i ≤ s.count) :
    Good k (1 + allocs sh) s (setElement k old sh s).2.2 ∨ Bad k (1 + allocs sh) s (setElement k old sh s).2.2 := by
  rcases setElement_spec k old sh s rest ⟨hb, hc⟩ with ⟨_, h⟩ | h
  · exact .inl h.2.2.1
  · exact .inr h.2.2.1

theorem set_summary (k : Nat) (old : Owned) (sh : Shape) (s : St) (rest : List Nat)
    (hb : Balanced s.evs (old.ids ++ rest)) (hc : ∀ i ∈ old.ids ++ rest, i ≤ s.count) :
    ((setElement k old sh s).1 = OK ∨ (setElement k old sh s).1 = MEMORY_ERROR) ∧
    ((setElement k old sh s).1 = OK ↔ (setElement k old sh s).2.1.isSome) ∧
    Balanced (setElement k old sh s).2.2.evs
      (match (setElement k old sh s).2.1 with | some g => old.obj :: g ++ rest | none => old.ids ++ rest) ∧
    ((setElement k old sh s).1 = OK ↔ failIds (setElement k old sh s).2.2.evs = failIds s.evs) := by
  rcases setElement_spec k old sh s rest ⟨hb, hc⟩ with ⟨g, h1, h2, h3, h4⟩ | ⟨h1, h2, h3, h4⟩
  · rw [h1, h2]
    exact ⟨.inl rfl, by simp, h4.1, by simpa using h3.2.2⟩
  · rw [h1, h2]
    have hne : failIds (setElement k old sh s).2.2.evs ≠ failIds s.evs := by
      rw [h3.2.2.2]; intro h
      have := congrArg List.length h
      simp at this
    exact ⟨.inr rfl, by simp [OK_ne_MEMORY_ERROR], h4.1, by simpa [OK_ne_MEMORY_ERROR] using hne⟩

-- ---------------------------------------------------------------------------------------------------------------
-- cif_loop_get_names

/-- the checker is a function: a sequence cannot be balanced with two different live sets -/
theorem balanced_unique {evs : List Ev} {A B : List Nat} (hA : Balanced evs A) (hB : Balanced evs B) : A.Perm B := by
  obtain ⟨L, hL, pL⟩ := hA
  obtain ⟨M, hM, pM⟩ := hB
  rw [hL] at hM
  cases hM
  exact pL.symm.trans pM

theorem names_outcome (fixed : Bool) (k n : Nat) :
    Good k (namesAllocs n) {} (getNamesGen fixed k n).2.2 ∨ Bad k (namesAllocs n) {} (getNamesGen fixed k n).2.2 := by
  rcases getNamesGen_spec fixed k n {} [] Inv.nil with h | h
  · exact .inl h.2.1
  · exact .inr h.2.2.1

theorem INVALID_HANDLE_ne_OK : INVALID_HANDLE ≠ OK := by decide

/-- the repaired variant -/
theorem names_summary (k n : Nat) :
    Balanced (getNames k n).2.2.evs (getNames k n).2.1 ∧
    ((getNames k n).1 = OK ∨ (getNames k n).1 = MEMORY_ERROR ∨ (n = 0 ∧ (getNames k n).1 = INVALID_HANDLE)) ∧
    ((getNames k n).1 ≠ OK → (getNames k n).2.1 = []) ∧
    (0 < n → ((getNames k n).1 = OK ↔ NoFail (getNames k n).2.2.evs)) ∧
    ((getNames k n).1 = OK → (getNames k n).2.1.length = n + 1) := by
  unfold getNames
  rcases getNamesGen_spec true k n {} [] Inv.nil with ⟨h1, h2, h3, h4⟩ | ⟨h1, h2, h3, h4⟩
  · have g := good_init h2
    by_cases hn : n = 0
    · rw [if_pos hn] at h1
      have hne : (getNamesGen true k n).1 ≠ OK := by rw [h1]; exact INVALID_HANDLE_ne_OK
      have hlen : (getNamesGen true k n).2.1 = [] := by
        apply List.eq_nil_of_length_eq_zero; rw [h3, hn]; rfl
      refine ⟨by simpa using h4.1, .inr (.inr ⟨hn, h1⟩), fun _ => hlen, fun h => absurd hn (by omega),
        fun h => absurd h hne⟩
    · rw [if_neg hn] at h1
      refine ⟨by simpa using h4.1, .inl h1, fun h => absurd h1 h, fun _ => ⟨fun _ => g.2.2.1, fun _ => h1⟩, ?_⟩
      intro _; rw [h3]; unfold namesAllocs; simp [hn]; omega
  · have b := bad_init h3
    have hne : (getNamesGen true k n).1 ≠ OK := by rw [h1]; exact OK_ne_MEMORY_ERROR
    have hl : (if k ≤ ({} : St).count + 2 * n then leakOf true k ({} : St).count else []) = [] := by
      simp [leakOf]
    rw [hl] at h4
    refine ⟨by rw [h2]; exact h4.1, .inr (.inl h1), fun _ => h2,
      fun _ => ⟨fun h => absurd h hne, fun h => absurd h b.2.2.1⟩, fun h => absurd h hne⟩

/-- the blocks leaked by the code as it is: the list node obtained by request `k - 1` when the failed request `k` is the
    allocation of a name string (an even request among the first 2n) -/
def namesLeak (k n : Nat) : List Nat := if 1 ≤ k ∧ k ≤ 2 * n ∧ k % 2 = 0 then [k - 1] else []

/-- the code as it is: exactly `namesLeak` stays live beyond what the caller owns -/
theorem names_pinned_summary (k n : Nat) :
    Balanced (getNamesPinned k n).2.2.evs ((getNamesPinned k n).2.1 ++ namesLeak k n) ∧
    (namesLeak k n ≠ [] → (getNamesPinned k n).1 = MEMORY_ERROR ∧ (getNamesPinned k n).2.1 = [] ∧
      ¬ Balanced (getNamesPinned k n).2.2.evs (getNamesPinned k n).2.1) := by
  unfold getNamesPinned
  rcases getNamesGen_spec false k n {} [] Inv.nil with ⟨h1, h2, h3, h4⟩ | ⟨h1, h2, h3, h4⟩
  · have g := good_init h2
    have hl : namesLeak k n = [] := by
      unfold namesLeak
      have := g.2.1
      unfold namesAllocs at this
      split at this <;> simp <;> omega
    rw [hl]
    exact ⟨by simpa using h4.1, fun h => absurd rfl h⟩
  · have b := bad_init h3
    have hl : (if k ≤ ({} : St).count + 2 * n then leakOf false k ({} : St).count else []) = namesLeak k n := by
      have h1k := b.1
      show (if k ≤ 0 + 2 * n then leakOf false k 0 else []) = namesLeak k n
      unfold leakOf namesLeak
      by_cases hk : k ≤ 2 * n <;> by_cases hp : k % 2 = 0 <;> simp [hk, hp, h1k]
    rw [hl] at h4
    have hb : Balanced (getNamesGen false k n).2.2.evs ((getNamesGen false k n).2.1 ++ namesLeak k n) := by
      rw [h2]; simpa using h4.1
    refine ⟨hb, fun hne => ⟨h1, h2, fun hb' => ?_⟩⟩
    have p := balanced_unique hb' hb
    rw [h2] at p
    simp only [List.nil_append] at p
    exact hne (List.Perm.nil_eq p).symm

-- ---------------------------------------------------------------------------------------------------------------
-- cif_value_copy_char

theorem copyChar_outcome (k : Nat) (old : Owned) (s : St) (rest : List Nat)
    (hb : Balanced s.evs (old.ids ++ rest)) (hc : ∀ i ∈ old.ids ++ rest, i ≤ s.count) :
    Good k 1 s (copyChar k old s).2.2 ∨ Bad k 1 s (copyChar k old s).2.2 := by
  rcases copyChar_spec k old s rest ⟨hb, hc⟩ with ⟨_, h⟩ | h
  · exact .inl h.2.2.1
  · exact .inr h.2.2.1

theorem copyChar_summary (k : Nat) (old : Owned) (s : St) (rest : List Nat)
    (hb : Balanced s.evs (old.ids ++ rest)) (hc : ∀ i ∈ old.ids ++ rest, i ≤ s.count) :
    ((copyChar k old s).1 = OK ∨ (copyChar k old s).1 = MEMORY_ERROR) ∧
    ((copyChar k old s).1 = OK ↔ (copyChar k old s).2.1.isSome) ∧
    Balanced (copyChar k old s).2.2.evs
      (match (copyChar k old s).2.1 with | some g => old.obj :: g ++ rest | none => old.ids ++ rest) ∧
    ((copyChar k old s).1 = OK ↔ failIds (copyChar k old s).2.2.evs = failIds s.evs) := by
  rcases copyChar_spec k old s rest ⟨hb, hc⟩ with ⟨t, h1, h2, h3, h4⟩ | ⟨h1, h2, h3, h4⟩
  · rw [h1, h2]
    exact ⟨.inl rfl, by simp, by simpa using h4.1, by simpa using h3.2.2⟩
  · rw [h1, h2]
    have hne : failIds (copyChar k old s).2.2.evs ≠ failIds s.evs := by
      rw [h3.2.2.2]; intro h
      have := congrArg List.length h
      simp at this
    exact ⟨.inr rfl, by simp [OK_ne_MEMORY_ERROR], h4.1, by simpa [OK_ne_MEMORY_ERROR] using hne⟩

-- ---------------------------------------------------------------------------------------------------------------
-- cif_packet_create

theorem packet_outcome (fixed : Bool) (k : Nat) (flags : List Bool) :
    Good k (packetAllocs flags) {} (packetCreateGen fixed k flags).2.2 ∨
    Bad k (packetAllocs flags) {} (packetCreateGen fixed k flags).2.2 := by
  rcases packetCreateGen_spec fixed k flags {} [] Inv.nil with ⟨_, h⟩ | h | h
  · exact .inl h.2.2.1
  · exact .inr h.2.2.1
  · exact .inr h.2.2.2.2.2

theorem UNDEFINED_ne_OK : UNDEFINED ≠ OK := by decide
theorem UNDEFINED_ne_MEMORY_ERROR : UNDEFINED ≠ MEMORY_ERROR := by decide

/-- what C17 demands of one run of the packet ladder -/
def PacketRunOk (r : Nat × Option PacketOwned × St) : Prop :=
  Balanced r.2.2.evs (match r.2.1 with | some p => p.ids | none => []) ∧
  (r.1 = OK ∨ r.1 = MEMORY_ERROR) ∧ (r.1 = OK ↔ r.2.1.isSome) ∧ (r.1 = OK ↔ NoFail r.2.2.evs)

/-- both variants: either the run satisfies `PacketRunOk`, or (only the code as it is, only for a non-empty packet, only
    when the failed request is uthash's table: request 3n + 4) it runs into undefined behaviour -/
theorem packet_gen_summary (fixed : Bool) (k : Nat) (flags : List Bool) :
    ((packetCreateGen fixed k flags).1 = UNDEFINED ↔ fixed = false ∧ flags ≠ [] ∧ k = 3 * flags.length + 4) ∧
    ((packetCreateGen fixed k flags).1 = UNDEFINED → failIds (packetCreateGen fixed k flags).2.2.evs = [k]) ∧
    ((packetCreateGen fixed k flags).1 ≠ UNDEFINED → PacketRunOk (packetCreateGen fixed k flags)) := by
  rcases packetCreateGen_spec fixed k flags {} [] Inv.nil with ⟨p, h1, h2, h3, h4⟩ | ⟨h1, h2, h3, h4, h5⟩ | ⟨h1, h2, h3, h4, h5, h6⟩
  · have g := good_init h3
    have hne : (packetCreateGen fixed k flags).1 ≠ UNDEFINED := by rw [h1]; exact UNDEFINED_ne_OK.symm
    refine ⟨⟨fun h => absurd h hne, fun ⟨_, hf, hk⟩ => ?_⟩, fun h => absurd h hne, fun _ => ?_⟩
    · exfalso
      have := g.2.1
      have hn : flags.length ≠ 0 := fun h0 => hf (List.eq_nil_of_length_eq_zero h0)
      unfold packetAllocs normAllocs at this
      rw [if_neg hn] at this
      omega
    · unfold PacketRunOk
      rw [h1, h2]
      exact ⟨by simpa using h4.1, .inl rfl, by simp, by simpa using g.2.2.1⟩
  · have b := bad_init h3
    have hne : (packetCreateGen fixed k flags).1 ≠ UNDEFINED := by rw [h1]; exact UNDEFINED_ne_MEMORY_ERROR.symm
    refine ⟨⟨fun h => absurd h hne, fun ⟨hfx, hf, hk⟩ => ?_⟩, fun h => absurd h hne, fun _ => ?_⟩
    · exfalso
      have := h5 (by simpa using hk) hf
      rw [hfx] at this; cases this
    · unfold PacketRunOk
      rw [h1, h2]
      exact ⟨h4.1, .inr rfl, by simp [OK_ne_MEMORY_ERROR], by simpa [OK_ne_MEMORY_ERROR] using b.2.2.1⟩
  · have b := bad_init h6
    exact ⟨⟨fun _ => ⟨h3, h4, by simpa using h5⟩, fun _ => h1⟩, fun _ => b.2.2.2.1, fun h => absurd h1 h⟩

-- ---------------------------------------------------------------------------------------------------------------
-- cif_value_deserialize

theorem deser_outcome (k : Nat) (elems : List DShape) :
    Good k (deserAllocs elems) {} (deserialize k elems).2.2 ∨ Bad k (deserAllocs elems) {} (deserialize k elems).2.2 := by
  rcases deserialize_spec k elems {} [] Inv.nil with ⟨_, h⟩ | h
  · exact .inl h.2.2.1
  · exact .inr h.2.2.1

theorem OK_ne_ERROR : ERROR ≠ OK := by decide

theorem deser_summary (k : Nat) (elems : List DShape) :
    Balanced (deserialize k elems).2.2.evs (match (deserialize k elems).2.1 with | some g => g | none => []) ∧
    ((deserialize k elems).1 = OK ∨ (deserialize k elems).1 = MEMORY_ERROR) ∧
    ((deserialize k elems).1 = OK ↔ (deserialize k elems).2.1.isSome) ∧
    ((deserialize k elems).1 = OK ↔ NoFail (deserialize k elems).2.2.evs) := by
  rcases deserialize_spec k elems {} [] Inv.nil with ⟨g, h1, h2, h3, h4⟩ | ⟨h1, h2, h3, h4⟩
  · have g' := good_init h3
    rw [h1, h2]
    exact ⟨by simpa using h4.1, .inl rfl, by simp, by simpa using g'.2.2.1⟩
  · have b := bad_init h3
    rw [h1, h2]
    exact ⟨h4.1, .inr rfl, by simp [OK_ne_MEMORY_ERROR], by simpa [OK_ne_MEMORY_ERROR] using b.2.2.1⟩

end CifModel.Lemmas.Ladder
