import CifModel.Lemmas.LadderPacket
import CifModel.Model.LadderMap
/-
  CifModel.Lemmas.LadderMap — the map ladders (cif_map_set_item, cif_map_retrieve_item with removal,
  cif_value_clone_table) with uthash's allocations: basic facts about entries, normalisers, clone-onto, HASH_ADD, HASH_DEL
  and cif_map_clean.
-/
namespace CifModel.Lemmas.Ladder
open CifModel.Model.Ladder CifModel.Spec.HeapTrace

-- ---------------------------------------------------------------------------------------------------------------
-- entries

theorem mentriesIds_append (a b : List MEntry) : mentriesIds (a ++ b) = mentriesIds a ++ mentriesIds b := by
  induction a with
  | nil => simp [mentriesIds]
  | cons e es ih => simp [mentriesIds, ih]

/-- taking an entry out keeps all blocks -/
theorem extract_perm (k : Str) : ∀ (es : List MEntry) (e : MEntry) (rest : List MEntry),
    extract k es = some (e, rest) → (mentriesIds es).Perm (e.ids ++ mentriesIds rest)
  | [], e, rest, h => by simp [extract] at h
  | x :: xs, e, rest, h => by
    simp only [extract] at h
    split at h
    · cases h; simp only [mentriesIds]; exact List.Perm.refl _
    · split at h
      · rename_i y r hr
        cases h
        have ih := extract_perm k xs e r hr
        simp only [mentriesIds]
        rw [List.perm_iff_count] at ih ⊢
        intro a
        have := ih a
        simp only [List.count_append] at this ⊢
        omega
      · cases h

/-- replacing the entry in place: the blocks are those of the new entry and of the others -/
theorem replaceEntry_perm (k : Str) (e' : MEntry) : ∀ (es : List MEntry) (e : MEntry) (rest : List MEntry),
    extract k es = some (e, rest) → (mentriesIds (replaceEntry k e' es)).Perm (e'.ids ++ mentriesIds rest)
  | [], e, rest, h => by simp [extract] at h
  | x :: xs, e, rest, h => by
    simp only [extract] at h
    simp only [replaceEntry]
    split at h
    · rename_i hx
      cases h; simp only [hx, if_true, mentriesIds]; exact List.Perm.refl _
    · rename_i hx
      split at h
      · rename_i y r hr
        cases h
        have ih := replaceEntry_perm k e' xs e r hr
        simp only [hx, if_false, mentriesIds]
        rw [List.perm_iff_count] at ih ⊢
        intro a
        have := ih a
        simp only [List.count_append] at this ⊢
        omega
      · cases h

theorem withObj_ids (o : Owned) (t : Nat) : (o.withObj t).ids = t :: o.parts := by
  cases o <;> simp [Owned.withObj, Owned.ids, Owned.parts]

theorem withObj_obj (o : Owned) (t : Nat) : (o.withObj t).obj = t := by
  cases o <;> rfl

-- ---------------------------------------------------------------------------------------------------------------
-- the normalisers, and cloning onto an embedded value

def normKeyAllocs (kind : MapKind) : Nat := match kind with | .table => 1 | .packet => 3

theorem normKey_spec (k : Nat) (kind : MapKind) (s : St) (L : List Nat) (h : Inv s L) :
    (∃ b, (normKey k kind s).1 = some b ∧ Good k (normKeyAllocs kind) s (normKey k kind s).2 ∧
        Inv (normKey k kind s).2 (b :: L)) ∨
    ((normKey k kind s).1 = none ∧ Bad k (normKeyAllocs kind) s (normKey k kind s).2 ∧ Inv (normKey k kind s).2 L) := by
  cases kind with
  | packet => exact normalize_spec k s L h
  | table =>
    simp only [normKey, normKeyAllocs]
    rcases alloc_cases k s with ⟨hk, ha⟩ | ⟨hk, ha⟩ <;> simp only [ha]
    · right; exact ⟨trivial, Bad.alloc hk, h.fail⟩
    · left; exact ⟨_, rfl, Good.alloc hk, h.alloc⟩

/-- `cif_value_clone` onto an embedded value: on failure the target is untouched; on success the target block owns the
    new components, its old components and the scratch object have been released -/
theorem cloneOnto_spec (k : Nat) (target : Owned) (sh : Shape) (s : St) (L : List Nat) (h : Inv s (target.ids ++ L)) :
    (∃ v, (cloneOnto k target sh s).1 = some v ∧ v.obj = target.obj ∧
        Good k (1 + allocs sh) s (cloneOnto k target sh s).2 ∧ Inv (cloneOnto k target sh s).2 (v.ids ++ L)) ∨
    ((cloneOnto k target sh s).1 = none ∧ Bad k (1 + allocs sh) s (cloneOnto k target sh s).2 ∧
        Inv (cloneOnto k target sh s).2 (target.ids ++ L)) := by
  simp only [cloneOnto]
  have hh := clone_spec k sh s _ h
  generalize clone k sh s = r at hh ⊢
  obtain ⟨ro, rs⟩ := r
  rcases hh with ⟨o, h1, h2, h3⟩ | ⟨h1, h2, h3⟩ <;> simp only at h1 h2 h3 <;> subst h1 <;> simp only
  · left
    have i1 : Inv rs (target.parts ++ (o.obj :: (target.obj :: o.parts ++ L))) := by
      rw [ids_eq_obj_parts o, ids_eq_obj_parts target] at h3
      exact h3.perm (by perm_ac)
    have ⟨c1, c2⟩ := cleanOwned_spec target rs _ i1
    refine ⟨_, rfl, withObj_obj _ _, (h2.same c2).free _, ?_⟩
    rw [withObj_ids]
    exact c1.free
  · right
    exact ⟨trivial, h2, h3⟩

-- ---------------------------------------------------------------------------------------------------------------
-- uthash: HASH_ADD_KEYPTR, HASH_DELETE, cif_map_clean

def multOfL (mult : List (Nat × Nat)) (b : Nat) : Nat :=
  match mult.find? (fun p => p.1 == b) with
  | some p => p.2
  | none => 0

/-- the expansion test of HASH_ADD_TO_BKT, as a function of the three fields of the table it reads -/
def expandB (log2 : Nat) (mult : List (Nat × Nat)) (noexp : Bool) (es : List MEntry) (e : MEntry) : Bool :=
  decide (bucketCount log2 es (e.hashv % 2 ^ log2) ≥ (multOfL mult (e.hashv % 2 ^ log2) + 1) * Gen.Uthash.bktCapacityThresh)
    && !noexp

theorem expandB_iff (u : UT) (es : List MEntry) (e : MEntry) :
    (bucketCount u.log2 es (e.hashv % 2 ^ u.log2) ≥ (multOf u (e.hashv % 2 ^ u.log2) + 1) * Gen.Uthash.bktCapacityThresh ∧
      u.noexpand = false) ↔ expandB u.log2 u.mult u.noexpand es e = true := by
  unfold expandB
  have : multOf u (e.hashv % 2 ^ u.log2) = multOfL u.mult (e.hashv % 2 ^ u.log2) := rfl
  rw [this]
  cases u.noexpand <;> simp

def addToBktAllocs (u : UT) (es : List MEntry) (e : MEntry) : Nat :=
  if expandB u.log2 u.mult u.noexpand es e then 1 else 0

theorem addToBktAllocs_congr {u u' : UT} (es : List MEntry) (e : MEntry) (h1 : u.log2 = u'.log2) (h2 : u.mult = u'.mult)
    (h3 : u.noexpand = u'.noexpand) : addToBktAllocs u es e = addToBktAllocs u' es e := by
  unfold addToBktAllocs
  rw [h1, h2, h3]

theorem addToBkt_spec (k : Nat) (u : UT) (es : List MEntry) (e : MEntry) (fresh : List Nat) (s : St) (X : List Nat)
    (h : Inv s (u.ids ++ X)) :
    (∃ u', (addToBkt k u es e fresh s).1 = .ok { ut := some u', entries := es } ∧
        Good k (addToBktAllocs u es e) s (addToBkt k u es e fresh s).2 ∧ Inv (addToBkt k u es e fresh s).2 (u'.ids ++ X)) ∨
    ((addToBkt k u es e fresh s).1 = .fatal fresh ∧ Bad k (addToBktAllocs u es e) s (addToBkt k u es e fresh s).2 ∧
        Inv (addToBkt k u es e fresh s).2 (u.ids ++ X)) := by
  unfold addToBkt addToBktAllocs
  by_cases hc : expandB u.log2 u.mult u.noexpand es e = true
  · have hc' := (expandB_iff u es e).mpr hc
    rw [if_pos hc', if_pos hc]
    rcases alloc_cases k s with ⟨hk, ha⟩ | ⟨hk, ha⟩ <;> simp only [ha]
    · right
      exact ⟨trivial, Bad.alloc hk, h.fail⟩
    · left
      refine ⟨_, rfl, (Good.alloc hk).free _, ?_⟩
      have i1 : Inv { count := s.count + 1, evs := s.evs ++ [.alloc (s.count + 1)] } (u.bkts :: (u.tbl :: (s.count + 1) :: X)) :=
        h.alloc.perm (by simp only [UT.ids]; perm_ac)
      exact i1.free
  · have hc' : ¬ (bucketCount u.log2 es (e.hashv % 2 ^ u.log2) ≥
        (multOf u (e.hashv % 2 ^ u.log2) + 1) * Gen.Uthash.bktCapacityThresh ∧ u.noexpand = false) :=
      fun hx => hc ((expandB_iff u es e).mp hx)
    rw [if_neg hc', if_neg hc]
    left
    exact ⟨u, rfl, Good.refl k s, h⟩

/-- requests of HASH_ADD_KEYPTR (fault-free): table header and bucket array for a first entry, the doubled bucket array
    when the expansion test fires -/
def hashAddAllocs (m : MapSt) (e : MEntry) : Nat :=
  match m.ut with
  | some u => addToBktAllocs u (m.entries ++ [e]) e
  | none => 2 + addToBktAllocs { tbl := 0, bkts := 0, log2 := Gen.Uthash.initialLog2 } (m.entries ++ [e]) e

theorem hashAdd_spec (k : Nat) (m : MapSt) (e : MEntry) (s : St) (L : List Nat) (h : Inv s (m.ids ++ (e.ids ++ L))) :
    (∃ m', (hashAdd k m e s).1 = .ok m' ∧ m'.entries = m.entries ++ [e] ∧ m'.ut.isSome = true ∧
        Good k (hashAddAllocs m e) s (hashAdd k m e s).2 ∧ Inv (hashAdd k m e s).2 (m'.ids ++ L)) ∨
    (∃ t, (hashAdd k m e s).1 = .fatal t ∧ Bad k (hashAddAllocs m e) s (hashAdd k m e s).2 ∧
        Inv (hashAdd k m e s).2 (t ++ (m.ids ++ (e.ids ++ L)))) := by
  obtain ⟨ut, entries⟩ := m
  cases ut with
  | some u =>
    simp only [hashAdd, hashAddAllocs]
    have hh := addToBkt_spec k u (entries ++ [e]) e [] s (mentriesIds entries ++ (e.ids ++ L))
      (h.perm (by simp only [MapSt.ids]; perm_ac))
    generalize addToBkt k u (entries ++ [e]) e [] s = r at hh ⊢
    obtain ⟨ro, rs⟩ := r
    rcases hh with ⟨u', h1, h2, h3⟩ | ⟨h1, h2, h3⟩ <;> simp only at h1 h2 h3 <;> subst h1
    · left
      refine ⟨_, rfl, rfl, rfl, h2, h3.perm ?_⟩
      simp only [MapSt.ids, mentriesIds_append, mentriesIds]; perm_ac
    · right
      refine ⟨[], rfl, h2, h3.perm ?_⟩
      simp only [MapSt.ids]; perm_ac
  | none =>
    simp only [hashAdd, hashAddAllocs]
    rcases alloc_cases k s with ⟨hk, ha⟩ | ⟨hk, ha⟩ <;> simp only [ha]
    · right
      exact ⟨[], rfl, (Bad.alloc hk).mono (by omega), by simpa using h.fail⟩
    · have g1 := Good.alloc hk
      have i1 := h.alloc
      generalize ({ count := s.count + 1, evs := s.evs ++ [.alloc (s.count + 1)] } : St) = s1 at g1 i1 ⊢
      generalize s.count + 1 = t at g1 i1 ⊢
      rcases alloc_cases k s1 with ⟨hk, ha⟩ | ⟨hk, ha⟩ <;> simp only [ha]
      · right
        exact ⟨[t], rfl, g1.bad' (Bad.alloc hk) (by omega), by simpa using i1.fail⟩
      · have g2 := g1.trans (Good.alloc hk)
        have i2 := i1.alloc
        generalize ({ count := s1.count + 1, evs := s1.evs ++ [.alloc (s1.count + 1)] } : St) = s2 at g2 i2 ⊢
        generalize s1.count + 1 = b at g2 i2 ⊢
        have hcongr := addToBktAllocs_congr (u := { tbl := t, bkts := b, log2 := Gen.Uthash.initialLog2 })
          (u' := { tbl := 0, bkts := 0, log2 := Gen.Uthash.initialLog2 }) (entries ++ [e]) e rfl rfl rfl
        have hh := addToBkt_spec k { tbl := t, bkts := b, log2 := Gen.Uthash.initialLog2 } (entries ++ [e]) e [b, t] s2
          (mentriesIds entries ++ (e.ids ++ L)) (i2.perm (by simp only [MapSt.ids, UT.ids]; perm_ac))
        rw [hcongr] at hh
        generalize addToBkt k { tbl := t, bkts := b, log2 := Gen.Uthash.initialLog2 } (entries ++ [e]) e [b, t] s2 = r at hh ⊢
        obtain ⟨ro, rs⟩ := r
        rcases hh with ⟨u', h1, h2, h3⟩ | ⟨h1, h2, h3⟩ <;> simp only at h1 h2 h3 <;> subst h1
        · left
          refine ⟨_, rfl, rfl, rfl, g2.trans h2, h3.perm ?_⟩
          simp only [MapSt.ids, mentriesIds_append, mentriesIds]; perm_ac
        · right
          -- an expansion on the very first insertion (possible only if the threshold were 1): buckets and table stay live
          refine ⟨[b, t], rfl, g2.bad h2, h3.perm ?_⟩
          simp only [MapSt.ids, UT.ids]; perm_ac

def utIds (u : Option UT) : List Nat := match u with | some u => u.ids | none => []

theorem mapSt_ids (m : MapSt) : m.ids = utIds m.ut ++ mentriesIds m.entries := rfl

theorem hashDel_spec (m : MapSt) (rest : List MEntry) (s : St) (X : List Nat) (h : Inv s (utIds m.ut ++ X)) :
    Inv (hashDel m rest s).2 (utIds (hashDel m rest s).1.ut ++ X) ∧ Same s (hashDel m rest s).2 ∧
    (hashDel m rest s).1.entries = rest := by
  unfold hashDel
  cases rest with
  | nil =>
    simp only [List.isEmpty_nil, if_true]
    obtain ⟨ut, entries⟩ := m
    cases ut with
    | none => exact ⟨h, Same.refl s, rfl⟩
    | some u =>
      simp only
      have h1 : Inv s (u.bkts :: u.tbl :: X) := h.perm (by simp only [utIds, UT.ids]; perm_ac)
      exact ⟨by simpa [utIds] using h1.free.free, ((Same.refl s).free _).free _, trivial⟩
  | cons r rs =>
    simp only [List.isEmpty_cons, Bool.false_eq_true, if_false]
    exact ⟨h, Same.refl s, trivial⟩

theorem freeMEntry_spec (e : MEntry) (s : St) (L : List Nat) (h : Inv s (e.ids ++ L)) :
    Inv (freeMEntry e s) L ∧ Same s (freeMEntry e s) := by
  unfold freeMEntry
  have h1 : Inv s (e.key :: e.orig :: (e.val.ids ++ L)) := h.perm (by simp only [MEntry.ids]; perm_ac)
  have ⟨f1, f2⟩ := freeOwned_spec e.val _ L h1.free.free
  exact ⟨f1, (((Same.refl s).free _).free _).trans f2⟩

/-- cif_map_clean / cif_table_value_clean: everything the map owns is released, each block once -/
theorem mapClean_spec (u : Option UT) : ∀ (es : List MEntry) (s : St) (L : List Nat), (es = [] → u = none) →
    Inv s (utIds u ++ (mentriesIds es ++ L)) → Inv (mapClean u es s) L ∧ Same s (mapClean u es s)
  | [], s, L, hu, h => by
    have := hu rfl
    subst this
    simp only [mapClean]
    exact ⟨by simpa [utIds, mentriesIds] using h, Same.refl s⟩
  | [e], s, L, _, h => by
    simp only [mapClean, List.isEmpty_nil, if_true]
    cases u with
    | none =>
      have ⟨f1, f2⟩ := freeMEntry_spec e s L (by simpa [utIds, mentriesIds] using h)
      exact ⟨f1, f2⟩
    | some u =>
      simp only
      have h1 : Inv s (u.bkts :: u.tbl :: (e.ids ++ L)) := h.perm (by simp only [utIds, UT.ids, mentriesIds]; perm_ac)
      have ⟨f1, f2⟩ := freeMEntry_spec e _ L h1.free.free
      exact ⟨f1, (((Same.refl s).free _).free _).trans f2⟩
  | e :: e' :: es, s, L, _, h => by
    simp only [mapClean, List.isEmpty_cons, Bool.false_eq_true, if_false]
    have h1 : Inv s (e.ids ++ (utIds u ++ (mentriesIds (e' :: es) ++ L))) := h.perm (by simp only [mentriesIds]; perm_ac)
    have ⟨f1, f2⟩ := freeMEntry_spec e s _ h1
    have ⟨g1, g2⟩ := mapClean_spec u (e' :: es) _ L (fun hx => by cases hx) f1
    simp only [mapClean] at g1 g2
    exact ⟨g1, f2.trans g2⟩

-- ---------------------------------------------------------------------------------------------------------------
-- cif_map_set_item

/-- rearrangement up to permutation, using permutation hypotheses -/
macro "perm_using" h1:ident : tactic => `(tactic| (
  rw [List.perm_iff_count] at $h1:ident ⊢; intro x; have hx1 := $h1:ident x;
  (try simp only [List.count_cons, List.count_append, List.count_nil, List.append_assoc, List.cons_append, List.nil_append,
    List.append_nil, MEntry.ids, mapSt_ids, Owned.ids, Owned.idsList, Option.toList] at hx1 ⊢) <;> omega))
macro "perm_using2" h1:ident h2:ident : tactic => `(tactic| (
  rw [List.perm_iff_count] at $h1:ident $h2:ident ⊢; intro x; have hx1 := $h1:ident x; have hx2 := $h2:ident x;
  (try simp only [List.count_cons, List.count_append, List.count_nil, List.append_assoc, List.cons_append, List.nil_append,
    List.append_nil, MEntry.ids, mapSt_ids, Owned.ids, Owned.idsList, Option.toList] at hx1 hx2 ⊢) <;> omega))

def valAllocs (value : Option Shape) : Nat := match value with | none => 0 | some sh => 1 + allocs sh

theorem newValue_spec (k ent : Nat) (value : Option Shape) (s : St) (L : List Nat) (h : Inv s (ent :: L)) :
    (∃ v, (newValue k ent value s).1 = some v ∧ v.obj = ent ∧ Good k (valAllocs value) s (newValue k ent value s).2 ∧
        Inv (newValue k ent value s).2 (v.ids ++ L)) ∨
    ((newValue k ent value s).1 = none ∧ Bad k (valAllocs value) s (newValue k ent value s).2 ∧
        Inv (newValue k ent value s).2 (ent :: L)) := by
  cases value with
  | none =>
    left
    exact ⟨.scalar ent, rfl, rfl, Good.refl k s, h⟩
  | some sh =>
    simp only [newValue, valAllocs]
    rcases cloneOnto_spec k (.scalar ent) sh s L h with ⟨v, h1, h2, h3, h4⟩ | ⟨h1, h2, h3⟩
    · left; exact ⟨v, h1, h2, h3, h4⟩
    · right; exact ⟨h1, h2, h3⟩

/-- what the two "regular" outcomes of a map operation have in common -/
def MapOk (k N : Nat) (s : St) (L : List Nat) (r : MapRes × St) : Prop :=
  r.1.corrupt = false ∧ r.1.leaked = [] ∧ Inv r.2 (r.1.map.ids ++ L) ∧
  ((r.1.rc = OK ∧ Good k N s r.2) ∨ (r.1.rc = MEMORY_ERROR ∧ Bad k N s r.2))

theorem mapSetExisting_spec (k : Nat) (m : MapSt) (key keyNorm : Str) (e : MEntry) (rest : List MEntry)
    (value : Option Shape) (kn : Nat) (s : St) (L : List Nat) (hx : extract keyNorm m.entries = some (e, rest))
    (h : Inv s (kn :: (m.ids ++ L))) :
    MapOk k ((if key = e.origStr then 0 else 1) + valAllocs value) s L (mapSetExisting k m key keyNorm e value kn s) := by
  have pe := extract_perm keyNorm m.entries e rest hx
  unfold mapSetExisting MapOk
  by_cases hk : key = e.origStr
  · rw [if_pos hk, if_pos hk]
    cases value with
    | none =>
      simp only [valAllocs, Nat.add_zero]
      have pr := replaceEntry_perm keyNorm { e with val := .scalar e.val.obj } m.entries e rest hx
      have i1 : Inv s (e.val.parts ++ (kn :: (utIds m.ut ++ (e.key :: e.orig :: e.val.obj :: (mentriesIds rest ++ L))))) := by
        refine h.perm ?_
        have pe' := pe
        simp only [MEntry.ids, ids_eq_obj_parts e.val] at pe'
        perm_using pe'
      have ⟨c1, c2⟩ := cleanOwned_spec e.val s _ i1
      refine ⟨trivial, trivial, c1.free.perm ?_, .inl ⟨trivial, ((Good.refl k s).same c2).free _⟩⟩
      perm_using pr
    | some sh =>
      simp only [valAllocs, Nat.zero_add]
      have i1 : Inv s (e.val.ids ++ (kn :: (utIds m.ut ++ (e.key :: e.orig :: (mentriesIds rest ++ L))))) := by
        refine h.perm ?_
        perm_using pe
      have hh := cloneOnto_spec k e.val sh s _ i1
      generalize cloneOnto k e.val sh s = r at hh ⊢
      obtain ⟨ro, rs⟩ := r
      rcases hh with ⟨v, h1, h2, h3, h4⟩ | ⟨h1, h3, h4⟩ <;> simp only at h1 h3 h4 <;> subst h1 <;> simp only
      · have pr := replaceEntry_perm keyNorm { e with val := v } m.entries e rest hx
        refine ⟨trivial, trivial, Inv.free (h4.perm (List.perm_middle)) |>.perm ?_, .inl ⟨trivial, h3.free _⟩⟩
        perm_using pr
      · refine ⟨trivial, trivial, Inv.free (h4.perm (List.perm_middle)) |>.perm ?_, .inr ⟨trivial, h3.free _⟩⟩
        perm_using pe
  · rw [if_neg hk, if_neg hk]
    rcases alloc_cases k s with ⟨hka, ha⟩ | ⟨hka, ha⟩ <;> simp only [ha]
    · refine ⟨trivial, trivial, h.fail.free, .inr ⟨trivial, ((Bad.alloc hka).free _).mono (by omega)⟩⟩
    · have g1 := (Good.alloc hka).free e.orig
      have i1 : Inv (free e.orig { count := s.count + 1, evs := s.evs ++ [.alloc (s.count + 1)] })
          (kn :: (utIds m.ut ++ (e.key :: (s.count + 1) :: (e.val.ids ++ (mentriesIds rest ++ L))))) := by
        refine Inv.free (h.alloc.perm ?_)
        perm_using pe
      generalize (free e.orig { count := s.count + 1, evs := s.evs ++ [.alloc (s.count + 1)] } : St) = s2 at g1 i1 ⊢
      generalize s.count + 1 = o at g1 i1 ⊢
      cases value with
      | none =>
        simp only [valAllocs, Nat.add_zero]
        have pr := replaceEntry_perm keyNorm { e with orig := o, origStr := key, val := .scalar e.val.obj } m.entries e rest hx
        have i2 : Inv s2 (e.val.parts ++ (kn :: (utIds m.ut ++ (e.key :: o :: e.val.obj :: (mentriesIds rest ++ L))))) := by
          refine i1.perm ?_
          rw [ids_eq_obj_parts e.val]
          perm_ac
        have ⟨c1, c2⟩ := cleanOwned_spec e.val s2 _ i2
        refine ⟨trivial, trivial, c1.free.perm ?_, .inl ⟨trivial, (g1.same c2).free _⟩⟩
        perm_using pr
      | some sh =>
        simp only [valAllocs]
        have i2 : Inv s2 (e.val.ids ++ (kn :: (utIds m.ut ++ (e.key :: o :: (mentriesIds rest ++ L))))) := i1.perm (by perm_ac)
        have hh := cloneOnto_spec k e.val sh s2 _ i2
        generalize cloneOnto k e.val sh s2 = r at hh ⊢
        obtain ⟨ro, rs⟩ := r
        rcases hh with ⟨v, h1, h2, h3, h4⟩ | ⟨h1, h3, h4⟩ <;> simp only at h1 h3 h4 <;> subst h1 <;> simp only
        · have pr := replaceEntry_perm keyNorm { e with orig := o, origStr := key, val := v } m.entries e rest hx
          refine ⟨trivial, trivial, Inv.free (h4.perm (List.perm_middle)) |>.perm ?_, .inl ⟨trivial, (g1.trans h3).free _⟩⟩
          perm_using pr
        · have pr := replaceEntry_perm keyNorm { e with orig := o, origStr := key } m.entries e rest hx
          refine ⟨trivial, trivial, Inv.free (h4.perm (List.perm_middle)) |>.perm ?_, .inr ⟨trivial, (g1.bad h3).free _⟩⟩
          perm_using pr

theorem bucketCount_snoc_congr (log2 : Nat) (es : List MEntry) (e e' : MEntry) (h : e.hashv = e'.hashv) (b : Nat) :
    bucketCount log2 (es ++ [e]) b = bucketCount log2 (es ++ [e']) b := by
  unfold bucketCount
  simp only [List.filter_append, List.length_append, List.filter_cons, List.filter_nil, h]
  split <;> rfl

theorem hashAddAllocs_congr (m : MapSt) (e e' : MEntry) (h : e.hashv = e'.hashv) : hashAddAllocs m e = hashAddAllocs m e' := by
  unfold hashAddAllocs addToBktAllocs expandB
  cases m.ut with
  | none => simp only [h, bucketCount_snoc_congr _ m.entries e e' h]
  | some u => simp only [h, bucketCount_snoc_congr _ m.entries e e' h]

/-- an entry with the hash value of the given normalised key (only the hash value matters for counting requests) -/
def probe (keyNorm : Str) : MEntry :=
  { key := 0, orig := 0, keyStr := keyNorm, origStr := keyNorm, hashv := hashJen (keyBytes keyNorm), val := .scalar 0 }

/-- the outcome "the map is left corrupt" of the code as it is -/
def MapCorrupt (k N pre : Nat) (m : MapSt) (s : St) (L : List Nat) (r : MapRes × St) : Prop :=
  r.1.rc = MEMORY_ERROR ∧ r.1.corrupt = true ∧ r.1.map = m ∧ Bad k N s r.2 ∧ s.count + pre < k ∧
  Inv r.2 (r.1.leaked ++ (m.ids ++ L))

theorem mapSetNew_spec (fixed : Bool) (k : Nat) (m : MapSt) (key keyNorm : Str) (value : Option Shape) (kn : Nat) (s : St)
    (L : List Nat) (h : Inv s (kn :: (m.ids ++ L))) :
    (MapOk k (2 + valAllocs value + hashAddAllocs m (probe keyNorm)) s L (mapSetNew fixed k m key keyNorm value kn s) ∧
      ((mapSetNew fixed k m key keyNorm value kn s).1.rc = MEMORY_ERROR → fixed = false →
        k ≤ s.count + (2 + valAllocs value))) ∨
    (fixed = false ∧ MapCorrupt k (2 + valAllocs value + hashAddAllocs m (probe keyNorm)) (2 + valAllocs value) m s L
      (mapSetNew fixed k m key keyNorm value kn s)) := by
  unfold mapSetNew MapOk MapCorrupt
  rcases alloc_cases k s with ⟨hk, ha⟩ | ⟨hk, ha⟩ <;> simp only [ha]
  · left
    exact ⟨⟨trivial, trivial, h.fail.free, .inr ⟨trivial, ((Bad.alloc hk).free _).mono (by omega)⟩⟩, fun _ _ => by omega⟩
  · have g1 := Good.alloc hk
    have i1 := h.alloc
    have c1 : ({ count := s.count + 1, evs := s.evs ++ [.alloc (s.count + 1)] } : St).count = s.count + 1 := rfl
    generalize ({ count := s.count + 1, evs := s.evs ++ [.alloc (s.count + 1)] } : St) = s2 at g1 i1 c1 ⊢
    generalize s.count + 1 = ent at g1 i1 ⊢
    rcases alloc_cases k s2 with ⟨hk, ha⟩ | ⟨hk, ha⟩ <;> simp only [ha]
    · left
      refine ⟨⟨trivial, trivial, Inv.free (Inv.free (i1.fail.perm (by perm_ac))),
        .inr ⟨trivial, (g1.bad' (((Bad.alloc hk).free _).free _) (by omega))⟩⟩, fun _ _ => by omega⟩
    · have g2 := g1.trans (Good.alloc hk)
      have i2 : Inv { count := s2.count + 1, evs := s2.evs ++ [.alloc (s2.count + 1)] }
          (ent :: ((s2.count + 1) :: kn :: (m.ids ++ L))) := i1.alloc.perm (by perm_ac)
      have c2 : ({ count := s2.count + 1, evs := s2.evs ++ [.alloc (s2.count + 1)] } : St).count = s.count + 2 := by
        simp [c1]
      generalize ({ count := s2.count + 1, evs := s2.evs ++ [.alloc (s2.count + 1)] } : St) = s3 at g2 i2 c2 ⊢
      generalize s2.count + 1 = kc at g2 i2 ⊢
      have hh := newValue_spec k ent value s3 _ i2
      generalize newValue k ent value s3 = r at hh ⊢
      obtain ⟨ro, s4⟩ := r
      rcases hh with ⟨v, h1, h2, h3, h4⟩ | ⟨h1, h3, h4⟩ <;> simp only at h1 h3 h4 <;> subst h1 <;> simp only
      · have g3 := g2.trans h3
        have c3 : s4.count = s.count + (2 + valAllocs value) := by have := g3.1; omega
        have hcg := hashAddAllocs_congr m
          { key := kn, orig := kc, keyStr := keyNorm, origStr := key, hashv := hashJen (keyBytes keyNorm), val := v }
          (probe keyNorm) rfl
        have hh := hashAdd_spec k m
          { key := kn, orig := kc, keyStr := keyNorm, origStr := key, hashv := hashJen (keyBytes keyNorm), val := v } s4 L
          (h4.perm (by simp only [MEntry.ids]; perm_ac))
        rw [hcg] at hh
        generalize hashAdd k m
          { key := kn, orig := kc, keyStr := keyNorm, origStr := key, hashv := hashJen (keyBytes keyNorm), val := v } s4 = r at hh ⊢
        obtain ⟨ro, s5⟩ := r
        rcases hh with ⟨m', a1, _, _, a4, a5⟩ | ⟨t, a1, a4, a5⟩ <;> simp only at a1 a4 a5 <;> subst a1 <;> simp only
        · left
          exact ⟨⟨trivial, trivial, a5, .inl ⟨trivial, g3.trans a4⟩⟩, fun hx => by cases hx⟩
        · have hpos : s.count + (2 + valAllocs value) < k := by have := a4.1; omega
          cases fixed with
          | true =>
            left
            simp only [if_true]
            have i5 : Inv s5 (t ++ (v.parts ++ (kc :: ent :: kn :: (m.ids ++ L)))) := by
              refine a5.perm ?_
              have hv := ids_eq_obj_parts v
              rw [h2] at hv
              simp only [MEntry.ids, hv]
              perm_ac
            have i6 := i5.freeAll t _ _
            have ⟨c1', c2'⟩ := cleanOwned_spec v _ _ i6
            refine ⟨⟨trivial, trivial, c1'.free.free.free, .inr ⟨trivial, ?_⟩⟩, fun _ hf => by cases hf⟩
            exact ((((g3.bad a4).same (Same.freeAll t s5)).same c2').free _).free _ |>.free _
          | false =>
            right
            simp only [Bool.false_eq_true, if_false]
            refine ⟨trivial, trivial, trivial, trivial, (((g3.bad a4).free _).free _).free _, hpos, ?_⟩
            have i5 : Inv s5 (kc :: ent :: kn :: ((v.parts ++ t) ++ (m.ids ++ L))) := by
              refine a5.perm ?_
              have hv := ids_eq_obj_parts v
              rw [h2] at hv
              simp only [MEntry.ids, hv]
              perm_ac
            exact i5.free.free.free
      · left
        refine ⟨⟨trivial, trivial, Inv.free (Inv.free (Inv.free (h4.perm (by perm_ac)))),
          .inr ⟨trivial, ((g2.bad' h3 (by omega)).free _).free _ |>.free _⟩⟩, fun _ _ => ?_⟩
        have := h3.2.1; omega

theorem MapOk.lift {k a b : Nat} {s s1 : St} {L : List Nat} {r : MapRes × St} (g : Good k a s s1)
    (h : MapOk k b s1 L r) : MapOk k (a + b) s L r := by
  obtain ⟨h1, h2, h3, h4⟩ := h
  refine ⟨h1, h2, h3, ?_⟩
  rcases h4 with ⟨hr, hg⟩ | ⟨hr, hb⟩
  · exact .inl ⟨hr, g.trans hg⟩
  · exact .inr ⟨hr, g.bad hb⟩

theorem MapCorrupt.lift {k a b pre : Nat} {m : MapSt} {s s1 : St} {L : List Nat} {r : MapRes × St} (g : Good k a s s1)
    (h : MapCorrupt k b pre m s1 L r) : MapCorrupt k (a + b) (a + pre) m s L r := by
  obtain ⟨h1, h2, h3, h4, h5, h6⟩ := h
  exact ⟨h1, h2, h3, g.bad h4, by have := g.1; omega, h6⟩

/-- requests of cif_map_set_item (fault-free) -/
def mapSetAllocs (kind : MapKind) (m : MapSt) (key keyNorm : Str) (value : Option Shape) : Nat :=
  normKeyAllocs kind +
    match extract keyNorm m.entries with
    | some (e, _) => (if key = e.origStr then 0 else 1) + valAllocs value
    | none => 2 + valAllocs value + hashAddAllocs m (probe keyNorm)

/-- requests of cif_map_set_item for a new key before HASH_ADD_KEYPTR is reached -/
def mapSetPre (kind : MapKind) (value : Option Shape) : Nat := normKeyAllocs kind + (2 + valAllocs value)

/-- cif_map_set_item from any consistent state in which the map is live: either a regular outcome (CIF_OK with all
    requests made, or CIF_MEMORY_ERROR at the fault position; no block lost; the live blocks are those of the resulting
    map), or — only the code as it is, only for a new key, only when the failed request is one of uthash's — the map is
    left corrupt and `leaked` is lost -/
theorem mapSet_spec (fixed : Bool) (k : Nat) (kind : MapKind) (m : MapSt) (key keyNorm : Str) (value : Option Shape)
    (s : St) (L : List Nat) (h : Inv s (m.ids ++ L)) :
    (MapOk k (mapSetAllocs kind m key keyNorm value) s L (mapSet fixed k kind m key keyNorm value s) ∧
      ((mapSet fixed k kind m key keyNorm value s).1.rc = MEMORY_ERROR → fixed = false →
        extract keyNorm m.entries = none → k ≤ s.count + mapSetPre kind value)) ∨
    (fixed = false ∧ extract keyNorm m.entries = none ∧
      MapCorrupt k (mapSetAllocs kind m key keyNorm value) (mapSetPre kind value) m s L
        (mapSet fixed k kind m key keyNorm value s)) := by
  unfold mapSet mapSetAllocs mapSetPre
  have hh := normKey_spec k kind s _ h
  generalize normKey k kind s = r at hh ⊢
  obtain ⟨ro, s1⟩ := r
  rcases hh with ⟨kn, h1, h2, h3⟩ | ⟨h1, h2, h3⟩ <;> simp only at h1 h2 h3 <;> subst h1 <;> simp only
  · cases hx : extract keyNorm m.entries with
    | some p =>
      obtain ⟨e, rest⟩ := p
      simp only
      left
      exact ⟨MapOk.lift h2 (mapSetExisting_spec k m key keyNorm e rest value kn s1 L hx h3), fun _ _ hn => by cases hn⟩
    | none =>
      simp only
      rcases mapSetNew_spec fixed k m key keyNorm value kn s1 L h3 with ⟨a1, a2⟩ | ⟨a1, a2⟩
      · left
        refine ⟨MapOk.lift h2 a1, fun hr hf _ => ?_⟩
        have := a2 hr hf
        have := h2.1
        omega
      · right
        exact ⟨a1, by trivial, MapCorrupt.lift h2 a2⟩
  · left
    exact ⟨⟨by trivial, by trivial, h3, .inr ⟨by trivial, h2.mono (by omega)⟩⟩, fun _ _ _ => by have := h2.2.1; omega⟩

/-- requests of cif_map_retrieve_item: only the normaliser's -/
theorem mapRemove_spec (k : Nat) (kind : MapKind) (m : MapSt) (keyNorm : Str) (keep : Bool) (s : St) (L : List Nat)
    (h : Inv s (m.ids ++ L)) :
    (mapRemove k kind m keyNorm keep s).1.corrupt = false ∧ (mapRemove k kind m keyNorm keep s).1.leaked = [] ∧
    Inv (mapRemove k kind m keyNorm keep s).2
      ((mapRemove k kind m keyNorm keep s).1.map.ids ++ ((mapRemove k kind m keyNorm keep s).1.handed ++ L)) ∧
    (((mapRemove k kind m keyNorm keep s).1.rc = MEMORY_ERROR ∧ (mapRemove k kind m keyNorm keep s).1.map = m ∧
        Bad k (normKeyAllocs kind) s (mapRemove k kind m keyNorm keep s).2) ∨
      (((mapRemove k kind m keyNorm keep s).1.rc = OK ∨
          ((mapRemove k kind m keyNorm keep s).1.rc = NOSUCH_ITEM ∧ extract keyNorm m.entries = none ∧
            (mapRemove k kind m keyNorm keep s).1.map = m)) ∧
        Good k (normKeyAllocs kind) s (mapRemove k kind m keyNorm keep s).2)) := by
  unfold mapRemove
  have hh := normKey_spec k kind s _ h
  generalize normKey k kind s = r at hh ⊢
  obtain ⟨ro, s1⟩ := r
  rcases hh with ⟨kn, h1, h2, h3⟩ | ⟨h1, h2, h3⟩ <;> simp only at h1 h2 h3 <;> subst h1 <;> simp only
  · have g1 := h2.free kn
    have i1 := h3.free
    generalize free kn s1 = s2 at g1 i1 ⊢
    cases hx : extract keyNorm m.entries with
    | none =>
      simp only
      exact ⟨trivial, trivial, by simpa using i1, .inr ⟨.inr ⟨trivial, trivial, trivial⟩, g1⟩⟩
    | some p =>
      obtain ⟨e, rest⟩ := p
      simp only
      have pe := extract_perm keyNorm m.entries e rest hx
      have i2 : Inv s2 (utIds m.ut ++ (e.ids ++ (mentriesIds rest ++ L))) := by
        refine i1.perm ?_
        perm_using pe
      have ⟨d1, d2, d3⟩ := hashDel_spec m rest s2 _ i2
      generalize hashDel m rest s2 = hd at d1 d2 d3 ⊢
      obtain ⟨m', s3⟩ := hd
      simp only at d1 d2 d3 ⊢
      cases keep with
      | true =>
        simp only [if_true]
        have i3 : Inv s3 (e.key :: e.orig :: (utIds m'.ut ++ (e.val.ids ++ (mentriesIds rest ++ L)))) :=
          d1.perm (by simp only [MEntry.ids]; perm_ac)
        refine ⟨trivial, trivial, i3.free.free.perm ?_, .inr ⟨.inl trivial, ((g1.same d2).free _).free _⟩⟩
        rw [mapSt_ids, d3]; perm_ac
      | false =>
        simp only [Bool.false_eq_true, if_false]
        have i3 : Inv s3 (e.ids ++ (utIds m'.ut ++ (mentriesIds rest ++ L))) := d1.perm (by perm_ac)
        have ⟨f1, f2⟩ := freeMEntry_spec e s3 _ i3
        refine ⟨trivial, trivial, f1.perm ?_, .inr ⟨.inl trivial, (g1.same d2).same f2⟩⟩
        rw [mapSt_ids, d3]; perm_ac
  · exact ⟨trivial, trivial, by simpa using h3, .inl ⟨trivial, trivial, h2⟩⟩

-- ---------------------------------------------------------------------------------------------------------------
-- cif_value_clone_table

/-- `Good` / `Bad` for some number of requests (the number of requests of a table clone depends on how uthash's
    bookkeeping evolves while the clone is built) -/
def GoodE (k : Nat) (s s' : St) : Prop := ∃ N, Good k N s s'
def BadE (k : Nat) (s s' : St) : Prop := ∃ N, Bad k N s s'

theorem GoodE.refl (k : Nat) (s : St) : GoodE k s s := ⟨0, Good.refl k s⟩
theorem Good.goodE {k N : Nat} {s s' s'' : St} (h : Good k N s s') (h' : GoodE k s' s'') : GoodE k s s'' := by
  obtain ⟨M, hM⟩ := h'; exact ⟨N + M, h.trans hM⟩
theorem Good.badE {k N : Nat} {s s' s'' : St} (h : Good k N s s') (h' : BadE k s' s'') : BadE k s s'' := by
  obtain ⟨M, hM⟩ := h'; exact ⟨N + M, h.bad hM⟩
theorem BadE.same {k : Nat} {s s' s'' : St} (h : BadE k s s') (h' : Same s' s'') : BadE k s s'' := by
  obtain ⟨M, hM⟩ := h; exact ⟨M, hM.same h'⟩
theorem BadE.free {k : Nat} {s s' : St} (i : Nat) (h : BadE k s s') : BadE k s (free i s') := by
  obtain ⟨M, hM⟩ := h; exact ⟨M, hM.free i⟩

theorem cloneEntries_spec (fixed : Bool) (k : Nat) : ∀ (src : List SrcEntry) (tmp : MapSt) (s : St) (L : List Nat),
    (tmp.entries = [] → tmp.ut = none) → Inv s (tmp.ids ++ L) →
    ((cloneEntries fixed k src tmp s).1.rc = OK ∧ (cloneEntries fixed k src tmp s).1.corrupt = false ∧
        (cloneEntries fixed k src tmp s).1.leaked = [] ∧ GoodE k s (cloneEntries fixed k src tmp s).2 ∧
        Inv (cloneEntries fixed k src tmp s).2 ((cloneEntries fixed k src tmp s).1.map.ids ++ L) ∧
        (cloneEntries fixed k src tmp s).1.map.entries.length = tmp.entries.length + src.length) ∨
    ((cloneEntries fixed k src tmp s).1.rc = MEMORY_ERROR ∧ (cloneEntries fixed k src tmp s).1.corrupt = false ∧
        (cloneEntries fixed k src tmp s).1.leaked = [] ∧ BadE k s (cloneEntries fixed k src tmp s).2 ∧
        Inv (cloneEntries fixed k src tmp s).2 L) ∨
    (fixed = false ∧ (cloneEntries fixed k src tmp s).1.rc = MEMORY_ERROR ∧
        (cloneEntries fixed k src tmp s).1.corrupt = true ∧ BadE k s (cloneEntries fixed k src tmp s).2 ∧
        Inv (cloneEntries fixed k src tmp s).2
          ((cloneEntries fixed k src tmp s).1.leaked ++ ((cloneEntries fixed k src tmp s).1.map.ids ++ L)))
  | [], tmp, s, L, _, h => by
    left
    simp only [cloneEntries]
    exact ⟨trivial, trivial, trivial, GoodE.refl k s, h, by simp⟩
  | src :: rest, tmp, s, L, hw, h => by
    have hclean : ∀ (s' : St), Inv s' (tmp.ids ++ L) → Inv (mapClean tmp.ut tmp.entries s') L ∧ Same s' (mapClean tmp.ut tmp.entries s') :=
      fun s' hs => mapClean_spec tmp.ut tmp.entries s' L hw (by simpa [mapSt_ids] using hs)
    simp only [cloneEntries]
    rcases alloc_cases k s with ⟨hk, ha⟩ | ⟨hk, ha⟩ <;> simp only [ha]
    · right; left
      have ⟨c1, c2⟩ := hclean _ h.fail
      exact ⟨trivial, trivial, trivial, BadE.same ⟨1, Bad.alloc hk⟩ c2, c1⟩
    · have g1 := Good.alloc hk
      have i1 := h.alloc
      generalize ({ count := s.count + 1, evs := s.evs ++ [.alloc (s.count + 1)] } : St) = s1 at g1 i1 ⊢
      generalize s.count + 1 = ent at g1 i1 ⊢
      rcases alloc_cases k s1 with ⟨hk, ha⟩ | ⟨hk, ha⟩ <;> simp only [ha]
      · right; left
        have ⟨c1, c2⟩ := hclean _ (Inv.free i1.fail)
        exact ⟨trivial, trivial, trivial, BadE.same (g1.badE ⟨1, (Bad.alloc hk).free _⟩) c2, c1⟩
      · have g2 := g1.trans (Good.alloc hk)
        have i2 := i1.alloc
        generalize ({ count := s1.count + 1, evs := s1.evs ++ [.alloc (s1.count + 1)] } : St) = s2 at g2 i2 ⊢
        generalize s1.count + 1 = kb at g2 i2 ⊢
        rcases alloc_cases k s2 with ⟨hk, ha⟩ | ⟨hk, ha⟩ <;> simp only [ha]
        · right; left
          have ⟨c1, c2⟩ := hclean _ (Inv.free (Inv.free (i2.fail)))
          exact ⟨trivial, trivial, trivial, BadE.same (g2.badE ⟨1, ((Bad.alloc hk).free _).free _⟩) c2, c1⟩
        · have g3 := g2.trans (Good.alloc hk)
          have i3 : Inv { count := s2.count + 1, evs := s2.evs ++ [.alloc (s2.count + 1)] }
              (ent :: ((s2.count + 1) :: kb :: (tmp.ids ++ L))) := i2.alloc.perm (by perm_ac)
          generalize ({ count := s2.count + 1, evs := s2.evs ++ [.alloc (s2.count + 1)] } : St) = s3 at g3 i3 ⊢
          generalize s2.count + 1 = ob at g3 i3 ⊢
          have hh := newValue_spec k ent (some src.shape) s3 _ i3
          generalize newValue k ent (some src.shape) s3 = r at hh ⊢
          obtain ⟨ro, s4⟩ := r
          rcases hh with ⟨v, h1, h2, h3, h4⟩ | ⟨h1, h3, h4⟩ <;> simp only at h1 h3 h4 <;> subst h1 <;> simp only
          · have g4 := g3.trans h3
            have hh := hashAdd_spec k tmp
              { key := kb, orig := ob, keyStr := src.keyStr, origStr := src.origStr, hashv := hashJen (keyBytes src.keyStr), val := v }
              s4 L (h4.perm (by simp only [MEntry.ids]; perm_ac))
            generalize hashAdd k tmp
              { key := kb, orig := ob, keyStr := src.keyStr, origStr := src.origStr, hashv := hashJen (keyBytes src.keyStr), val := v }
              s4 = r at hh ⊢
            obtain ⟨ro, s5⟩ := r
            rcases hh with ⟨m', a1, a2, a3, a4, a5⟩ | ⟨t, a1, a4, a5⟩ <;> simp only at a1 a4 a5 <;> subst a1 <;> simp only
            · have hw' : m'.entries = [] → m'.ut = none := by
                intro he; rw [a2] at he; simp at he
              rcases cloneEntries_spec fixed k rest m' s5 L hw' a5 with ⟨e1, e2, e3, e4, e5, e6⟩ | ⟨e1, e2, e3, e4, e5⟩ | ⟨e0, e1, e2, e4, e5⟩
              · left
                exact ⟨e1, e2, e3, (g4.trans a4).goodE e4, e5, by rw [e6, a2]; simp; omega⟩
              · right; left
                exact ⟨e1, e2, e3, (g4.trans a4).badE e4, e5⟩
              · right; right
                exact ⟨e0, e1, e2, (g4.trans a4).badE e4, e5⟩
            · have hv := ids_eq_obj_parts v
              rw [h2] at hv
              cases fixed with
              | true =>
                right; left
                simp only [if_true]
                have i5 : Inv s5 (t ++ (v.parts ++ (ob :: kb :: ent :: (tmp.ids ++ L)))) := by
                  refine a5.perm ?_
                  simp only [MEntry.ids, hv]; perm_ac
                have i6 := i5.freeAll t _ _
                have ⟨c1', c2'⟩ := cleanOwned_spec v _ _ i6
                have ⟨c1, c2⟩ := hclean _ c1'.free.free.free
                refine ⟨trivial, trivial, trivial, ?_, c1⟩
                exact BadE.same (BadE.free _ (BadE.free _ (BadE.free _
                  (BadE.same (BadE.same ⟨_, g4.bad a4⟩ (Same.freeAll t s5)) c2')))) c2
              | false =>
                right; right
                simp only [Bool.false_eq_true, if_false]
                have i5 : Inv s5 (ob :: kb :: ent :: ((v.parts ++ t) ++ (tmp.ids ++ L))) := by
                  refine a5.perm ?_
                  simp only [MEntry.ids, hv]; perm_ac
                exact ⟨trivial, trivial, trivial, BadE.free _ (BadE.free _ (BadE.free _ ⟨_, g4.bad a4⟩)), i5.free.free.free⟩
          · right; left
            have i5 : Inv s4 (ob :: kb :: ent :: (tmp.ids ++ L)) := h4.perm (by perm_ac)
            have ⟨c1, c2⟩ := hclean _ i5.free.free.free
            exact ⟨trivial, trivial, trivial, BadE.same (BadE.free _ (BadE.free _ (BadE.free _ ⟨_, g3.bad h3⟩))) c2, c1⟩

end CifModel.Lemmas.Ladder
